import Pcore.Model.ImmutResolve
/-!
# Field writes outside construction: the reviewed white list (property C08, second tie)

`Generated.fieldWrites` (family fieldwrites of /verif/extract, regenerated on every run) lists every assignment to a field
of a struct behind a px.Value implementation in package `types`.  `FieldWritesSafe tbl`: every row of the table is one of
the rows REVIEWED below.  A new write — `e.arguments = …` in `(*deferred).Resolve`, a cache assigned outside its guard, a
field of `HashEntry` or `Sensitive` assigned anywhere — is a row this list does not have: the obligation
`C08_field_writes_safe` breaks and names it.  Removing a write, renaming locals, re-ordering statements or adding early
returns changes nothing (rows carry struct, field, function and kind only; the condition is inclusion).
-/
namespace Pcore.Immut

def reviewedWrites : List FieldWrite := [
  -- the collections (the subject of C08_refine / C08_cache_coherent): lazily built caches `reducedType`, `detailedType`,
  -- `index` (filled once under `if f == nil`, from the content; the type object a fill creates is completed right after it
  -- is stored), construction in BuildArray / BuildHash, and the one mutator MutableHashValue.PutAll (storage + every cache reset)
  ⟨"Array", "detailedType", "Array.privateDetailedType", .lazyFill⟩,
  ⟨"Array", "elements", "BuildArray", .fresh⟩,
  ⟨"Array", "reducedType", "Array.privateReducedType", .lazyFill⟩,
  ⟨"ArrayType", "typ", "Array.privateReducedType", .write⟩,
  ⟨"Hash", "detailedType", "Hash.privateDetailedType", .lazyFill⟩,
  ⟨"Hash", "entries", "BuildHash", .fresh⟩,
  ⟨"Hash", "index", "Hash.valueIndex", .lazyFill⟩,
  ⟨"Hash", "reducedType", "Hash.privateReducedType", .lazyFill⟩,
  ⟨"HashType", "keyType", "Hash.privateReducedType", .write⟩,
  ⟨"HashType", "valueType", "Hash.privateReducedType", .write⟩,
  ⟨"MutableHashValue", "detailedType", "MutableHashValue.PutAll", .reset⟩,
  ⟨"MutableHashValue", "entries", "MutableHashValue.PutAll", .write⟩,
  ⟨"MutableHashValue", "index", "MutableHashValue.PutAll", .reset⟩,
  ⟨"MutableHashValue", "reducedType", "MutableHashValue.PutAll", .reset⟩,
  -- DeferredType: the memo `resolved` (filled once under `if dt.resolved == nil`; not shown by ToString / Equals / the walk),
  -- and the parser completing the DeferredType it has just created
  ⟨"DeferredType", "params", "parser.handleTypeArgs", .write⟩,
  ⟨"DeferredType", "resolved", "DeferredType.Resolve", .lazyFill⟩,
  -- construction: the object is created in the same function and filled before it is handed out
  ⟨"format", "alt", "format.WithoutWidth", .fresh⟩,
  ⟨"format", "formatChar", "format.ReplaceFormatChar", .fresh⟩,
  ⟨"format", "left", "format.WithoutWidth", .fresh⟩,
  ⟨"format", "origFmt", "format.ReplaceFormatChar", .fresh⟩,
  ⟨"format", "origFmt", "format.WithoutWidth", .fresh⟩,
  ⟨"format", "width", "format.WithoutWidth", .fresh⟩,
  ⟨"format", "zeroPad", "format.WithoutWidth", .fresh⟩,
  ⟨"typedName", "authority", "newTypedName2", .fresh⟩,
  ⟨"typedName", "canonical", "typedName.Parent", .fresh⟩,
  ⟨"typedName", "canonical", "typedName.child", .fresh⟩,
  ⟨"typedName", "name", "newTypedName2", .fresh⟩,
  ⟨"typedName", "namespace", "newTypedName2", .fresh⟩,
  ⟨"typedName", "parts", "typedName.Parent", .fresh⟩,
  ⟨"typedName", "parts", "typedName.child", .fresh⟩,
  -- object values: initialisation by the constructor functions of the object type (`Initialize` / `InitFromHash` are called on
  -- the object `New` has just allocated)
  ⟨"attributeSlice", "values", "attributeSlice.InitFromHash", .write⟩,
  ⟨"attributeSlice", "values", "attributeSlice.Initialize", .write⟩,
  ⟨"objectTypeExtension", "baseType", "objectTypeExtension.initialize", .write⟩,
  ⟨"objectTypeExtension", "parameters", "objectTypeExtension.initialize", .write⟩,
  ⟨"typedObject", "typ", "typedObject.valuesFromHash", .write⟩,
  -- other memo fields filled on first use from the receiver only
  ⟨"StructType", "hashedMembers", "StructType.HashedMembers", .lazyFill⟩,
  ⟨"TypeAliasType", "resolvedType", "TypeAliasType.Resolve", .lazyFill⟩,
  ⟨"objectType", "initType", "objectType.createInitType", .lazyFill⟩,
  ⟨"typedName", "canonical", "typedName.MapKey", .lazyFill⟩,
  ⟨"typedName", "parts", "typedName.Parts", .lazyFill⟩,
  -- types: a parsed type expression is completed IN PLACE by `Resolve` (type references replaced by the types they name,
  -- an Object / TypeSet initialised from its init hash) before the loader hands it out — construction phase two of a type;
  -- types are values, but no List / OrderedMap operation reaches these methods
  ⟨"ArrayType", "typ", "ArrayType.Resolve", .write⟩,
  ⟨"CallableType", "blockType", "CallableType.Resolve", .write⟩,
  ⟨"CallableType", "paramsType", "CallableType.Resolve", .write⟩,
  ⟨"CallableType", "returnType", "CallableType.Resolve", .write⟩,
  ⟨"HashType", "keyType", "HashType.Resolve", .write⟩,
  ⟨"HashType", "valueType", "HashType.Resolve", .write⟩,
  ⟨"InitType", "ctor", "InitType.Resolve", .write⟩,
  ⟨"IterableType", "typ", "IterableType.Resolve", .write⟩,
  ⟨"IteratorType", "typ", "IteratorType.Resolve", .write⟩,
  ⟨"LikeType", "resolved", "LikeType.Resolve", .lazyFill⟩,
  ⟨"NotUndefType", "typ", "NotUndefType.Resolve", .write⟩,
  ⟨"OptionalType", "typ", "OptionalType.Resolve", .write⟩,
  ⟨"SensitiveType", "typ", "SensitiveType.Resolve", .write⟩,
  ⟨"StructElement", "key", "StructElement.resolve", .write⟩,
  ⟨"StructElement", "value", "StructElement.resolve", .write⟩,
  ⟨"TupleType", "types", "TupleType.Resolve", .write⟩,
  ⟨"TypeAliasType", "loader", "TypeAliasType.Resolve", .write⟩,
  ⟨"TypeType", "typ", "TypeType.Resolve", .write⟩,
  ⟨"VariantType", "types", "VariantType.Resolve", .write⟩,
  ⟨"objectType", "attrInfo", "objectType.InitFromHash", .write⟩,
  ⟨"objectType", "attributes", "objectType.InitFromHash", .write⟩,
  ⟨"objectType", "creators", "objectType.setCreators", .write⟩,
  ⟨"objectType", "ctor", "objectType.createNewFunction", .write⟩,
  ⟨"objectType", "equality", "objectType.InitFromHash", .write⟩,
  ⟨"objectType", "equalityIncludeType", "objectType.InitFromHash", .write⟩,
  ⟨"objectType", "functions", "objectType.InitFromHash", .write⟩,
  ⟨"objectType", "goType", "objectType.Resolve", .write⟩,
  ⟨"objectType", "goType", "reflector.TypeFromTagged", .write⟩,
  ⟨"objectType", "initHashExpression", "BuildObjectType", .write⟩,
  ⟨"objectType", "initHashExpression", "MakeObjectType", .write⟩,
  ⟨"objectType", "initHashExpression", "newGoType", .write⟩,
  ⟨"objectType", "initHashExpression", "objectType.Resolve", .reset⟩,
  ⟨"objectType", "isInterface", "objectType.InitFromHash", .write⟩,
  ⟨"objectType", "loader", "newObjectType2", .write⟩,
  ⟨"objectType", "loader", "objectType.InitFromHash", .write⟩,
  ⟨"objectType", "name", "BuildObjectType", .write⟩,
  ⟨"objectType", "name", "MakeObjectType", .write⟩,
  ⟨"objectType", "name", "newGoType", .write⟩,
  ⟨"objectType", "name", "objectType.InitFromHash", .write⟩,
  ⟨"objectType", "parameters", "objectType.InitFromHash", .write⟩,
  ⟨"objectType", "parent", "BuildObjectType", .write⟩,
  ⟨"objectType", "parent", "MakeObjectType", .write⟩,
  ⟨"objectType", "parent", "objectType.InitFromHash", .lazyFill⟩,
  ⟨"objectType", "parent", "objectType.Resolve", .write⟩,
  ⟨"objectType", "serialization", "objectType.InitFromHash", .write⟩,
  ⟨"typeSet", "dcToCcMap", "typeSet.InitFromHash", .elem⟩,
  ⟨"typeSet", "deferredInit", "NewTypeSet", .write⟩,
  ⟨"typeSet", "deferredInit", "typeSet.Resolve", .reset⟩,
  ⟨"typeSet", "loader", "newTypeSetType2", .write⟩,
  ⟨"typeSet", "loader", "typeSet.Resolve", .write⟩,
  ⟨"typeSet", "name", "NewTypeSet", .write⟩,
  ⟨"typeSet", "name", "typeSet.InitFromHash", .write⟩,
  ⟨"typeSet", "nameAuthority", "NewTypeSet", .write⟩,
  ⟨"typeSet", "nameAuthority", "typeSet.InitFromHash", .write⟩,
  ⟨"typeSet", "nameAuthority", "typeSet.Resolve", .lazyFill⟩,
  ⟨"typeSet", "pcoreURI", "typeSet.InitFromHash", .write⟩,
  ⟨"typeSet", "pcoreVersion", "typeSet.InitFromHash", .write⟩,
  ⟨"typeSet", "references", "typeSet.InitFromHash", .write⟩,
  ⟨"typeSet", "typedName", "typeSet.Resolve", .write⟩,
  ⟨"typeSet", "types", "typeSet.InitFromHash", .write⟩,
  ⟨"typeSet", "types", "typeSet.Resolve", .write⟩,
  ⟨"typeSet", "version", "typeSet.InitFromHash", .write⟩,
  -- package initialisation
  ⟨"?", "typ", "init", .write⟩,
  ⟨"?", "valueType", "init", .write⟩,
  ⟨"format", "containerFormats", "init", .write⟩]

/-- calls of unexported helpers: (helper, caller, fields of the call's receiver that are empty at every such call) -/
abbrev HelperCalls := List (String × String × List String)

/-- ONE ROW is acceptable when
    * it is a reviewed row, or
    * it is a construction write (`.fresh`: the object was created in the same function — not a value anybody holds), or
    * it is a guarded lazy fill of a (struct, field) that is reviewed as a lazily filled field (whichever function holds the
      statement), or
    * it sits in an unexported HELPER and, for every caller of the helper (one level), the same write of the same
      (struct, field) is reviewed for that caller — with the same kind, or as a lazy fill when the helper is only called with
      that field empty (`if x.f == nil { x.fill() }`).
    So a new helper that assigns nothing, a statement moved inside its method, a lazy fill rewritten with a guard clause, or a
    reviewed statement extracted into an unexported helper create no unreviewed row; a NEW assignment does. -/
def rowOK (calls : HelperCalls) (w : FieldWrite) : Bool :=
  reviewedWrites.contains w ||
  w.kind == .fresh ||
  (w.kind == .lazyFill && reviewedWrites.any fun r => r.ty == w.ty && r.field == w.field && r.kind == .lazyFill) ||
  (let cs := calls.filter fun c => c.1 == w.fn
   !cs.isEmpty && cs.all fun c => reviewedWrites.any fun r =>
     r.ty == w.ty && r.field == w.field && r.fn == c.2.1 &&
       (r.kind == w.kind || (r.kind == .lazyFill && c.2.2.contains w.field)))

def fieldWritesSafeB (calls : HelperCalls) (t : List FieldWrite) : Bool := t.all (rowOK calls)

def FieldWritesSafe (calls : HelperCalls) (t : List FieldWrite) : Prop := fieldWritesSafeB calls t = true

instance (calls : HelperCalls) (t : List FieldWrite) : Decidable (FieldWritesSafe calls t) := by
  unfold FieldWritesSafe; infer_instance

/-- no reviewed row concerns `deferred` at all -/
theorem reviewed_no_deferred : reviewedWrites.all (fun w => !(w.ty == "deferred")) = true := by decide

/-- an acceptable row that is not a construction write has a reviewed row for the same struct -/
theorem rowOK_ty {calls : HelperCalls} {w : FieldWrite} (h : rowOK calls w = true) (hk : (w.kind != .fresh) = true) :
    ∃ r ∈ reviewedWrites, r.ty = w.ty := by
  unfold rowOK at h
  simp only [Bool.or_eq_true, Bool.and_eq_true, List.any_eq_true, List.all_eq_true, beq_iff_eq, Bool.not_eq_true',
    List.isEmpty_eq_false_iff] at h
  rcases h with ((h | h) | h) | h
  · exact ⟨w, List.contains_iff_mem.mp h, rfl⟩
  · simp [h] at hk
  · obtain ⟨_, r, hr, hrr⟩ := h
    exact ⟨r, hr, hrr.1.1⟩
  · obtain ⟨hne, hall⟩ := h
    obtain ⟨c, cs', hc⟩ := List.exists_cons_of_ne_nil hne
    have hcm : c ∈ calls.filter (fun c => c.1 == w.fn) := by rw [hc]; exact List.mem_cons_self
    obtain ⟨r, hr, hrr⟩ := hall c hcm
    exact ⟨r, hr, hrr.1.1.1⟩

/-- under the side condition the resolving methods do not assign a Deferred's argument list -/
theorem safe_dfrArgs {calls : HelperCalls} {t : List FieldWrite} (h : FieldWritesSafe calls t) :
    (Writes.ofTable t).dfrArgs = false := by
  unfold FieldWritesSafe fieldWritesSafeB at h
  simp only [Writes.ofTable]
  rw [Bool.eq_false_iff]
  intro hc
  rw [List.any_eq_true] at hc
  obtain ⟨w, hw, hd⟩ := hc
  rw [List.all_eq_true] at h
  simp only [Bool.and_eq_true, beq_iff_eq] at hd
  obtain ⟨r, hr, hty⟩ := rowOK_ty (h w hw) hd.2
  have := List.all_eq_true.mp reviewed_no_deferred r hr
  rw [hty, hd.1.1] at this
  simp at this

/-! ### the serializer reads the value only (family sercalls: serialization/serializer.go)

The fields of every value struct are unexported: package `serialization` can change a value only through a method it
calls on it, or by writing through storage an accessor handed out.  `SerFactsSafe`: every method the serializer invokes is
a reviewed one — read-only methods of values and types, the emitting methods of the consumer (its OUTPUT), the serializer's
own (the functions the file declares itself are not listed: their bodies are scanned, so extracting a helper adds no
name) — and every assignment goes to the serializer's own state (`sc.values[value] = pos`: the memo table keyed by identity;
`sc.refIndex`, `sc.path`), to a plain local, or into storage the function created itself. -/

def reviewedSerCalls : List String := [
  -- read-only methods of values, types and attributes
  "AllKeysAreStrings", "Attributes", "AttributesInfo", "Bool", "CanSerializeAsString", "Default", "EachPair", "EachWithIndex",
  "Get", "Get5", "InitHash", "Int", "Interface", "Len", "MetaType", "Name", "PType", "RequiredCount", "SerializationString",
  "String", "ToString", "Unwrap",
  -- the consumer: what the serializer emits into, and what it asks it
  "Add", "AddArray", "AddHash", "AddRef", "CanDoBinary", "CanDoComplexKeys", "StringDedupThreshold",
  -- a bytes.Buffer of its own (the path text of a warning)
  "WriteByte", "WriteString",
  -- the serializer's own methods
  "addArray", "addData", "addHash", "isKnownType", "nonStringKeyedHashToData", "pathToString", "pcoreTypeToData", "process",
  "toData", "toKeyExtendedHash", "unknownToStringWithWarning", "valueToDataHash", "withPath"]

def reviewedSerTargets : List String := ["local", "fresh-through", "recv"]

def serFactsSafeB (calls : List String) (writes : List (String × String)) : Bool :=
  calls.all (fun c => reviewedSerCalls.contains c) && writes.all (fun w => reviewedSerTargets.contains w.2)

def SerFactsSafe (calls : List String) (writes : List (String × String)) : Prop := serFactsSafeB calls writes = true

instance (calls : List String) (writes : List (String × String)) : Decidable (SerFactsSafe calls writes) := by
  unfold SerFactsSafe; infer_instance

/-! ### calls of the exported mutators from other packages (family mutatorcalls)

Outside package `types` a value can be changed only by calling an exported method that assigns its fields.
`Generated.mutatorNames` are those names (computed from family fieldwrites, closed under receiver calls), `mutatorCalls` every
call of a method of such a name in any other package, per FILE (extracting or renaming a function inside a file adds no
row).  `MutatorCallsSafe`: every (file, method) is a reviewed one. -/

def reviewedMutatorCalls : List (String × String) := [
  -- hash.StringHash (a string-keyed ordered map of the Go API, not a px.Value): its own Put / PutAll
  ("hash/stringhash.go", "Put"), ("hash/stringhash.go", "PutAll"),
  -- the context completing parsed types / type sets / registered resolvables before anybody holds them
  ("internal/context.go", "Constructor"), ("internal/context.go", "Resolve"),
  -- a read (InitType.EachSignature completes its constructor list on first use)
  ("internal/typemismatchdescriber.go", "EachSignature"),
  -- the file loader resolving what it has just parsed
  ("loader/filebased.go", "Resolve"),
  -- the DEserializer building a new type / object (allocate, then InitFromHash / Resolve)
  ("serialization/deserializer.go", "InitFromHash"), ("serialization/deserializer.go", "Resolve")]

/-- exported accessors that hand out a slice / map of the receiver AS IT IS (`return dt.params`): a caller that writes into
    the result changes the value.  Reviewed: none belongs to Array / Hash / HashEntry (their accessors copy: `AppendTo`,
    `ToStringMap`, `AppendEntriesTo`); these eight are read by pcore itself only (no write through them: family fieldwrites
    would list an `.elem` row) — an application writing into `Binary.Bytes()` changes that Binary, by the API's design. -/
def reviewedAliasAccessors : List (String × String) := [
  ("Binary.Bytes", "bytes"), ("DeferredType.Parameters", "params"), ("EnumType.Strings", "values"),
  ("StructType.Elements", "elements"), ("StructType.HashedMembers", "hashedMembers"), ("TupleType.Types", "types"),
  ("VariantType.Types", "types"), ("typedName.Parts", "parts")]

def AliasAccessorsReviewed (accs : List (String × String)) : Prop :=
  (accs.all fun a => reviewedAliasAccessors.contains a) = true

instance (accs : List (String × String)) : Decidable (AliasAccessorsReviewed accs) := by
  unfold AliasAccessorsReviewed; infer_instance

def mutatorCallsSafeB (names : List String) (calls : List (String × String)) : Bool :=
  -- the two mutators of a DATA value are known by name, so that the list cannot silently lose them
  names.contains "Put" && names.contains "PutAll" && calls.all fun c => reviewedMutatorCalls.contains c

def MutatorCallsSafe (names : List String) (calls : List (String × String)) : Prop :=
  mutatorCallsSafeB names calls = true

instance (names : List String) (calls : List (String × String)) : Decidable (MutatorCallsSafe names calls) := by
  unfold MutatorCallsSafe; infer_instance

end Pcore.Immut
