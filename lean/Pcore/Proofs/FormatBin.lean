import Pcore.Proofs.FormatRadix
/-! The hand-written `b B` branch of integerValue.ToString equals the printf reference `cRef`, for every integer and
    every combination of flags, width and precision. -/
namespace Pcore.Format

/-- the reference's last step: sign, prefix and digits laid out in the field -/
def cLayout (sign pfx digits : Str) (wid : Option Nat) (minus zeroEff : Bool) : Str :=
  let n := sign.length + pfx.length + digits.length
  match wid with
  | none => sign ++ pfx ++ digits
  | some w =>
    if w ≤ n then sign ++ pfx ++ digits
    else if minus then sign ++ pfx ++ digits ++ spaces (w - n)
    else if zeroEff then sign ++ pfx ++ zeros (w - n) ++ digits
    else spaces (w - n) ++ sign ++ pfx ++ digits

/-- the hand-written branch over abstract pieces -/
def pbbLayout (sg pf ds : Str) (wid prec : Option Nat) (left zero : Bool) : Str :=
  let zp := if zero && !left && prec.isNone then wid.getD 0 - sg.length - pf.length - ds.length else prec.getD 0 - ds.length
  let sp := wid.getD 0 - (sg.length + pf.length + ds.length + zp)
  (if left then [] else spaces sp) ++ sg ++ pf ++ zeros zp ++ ds ++ (if left then spaces sp else [])

theorem pbbLayout_eq (sg pf ds : Str) (wid prec : Option Nat) (left zero : Bool) :
    pbbLayout sg pf ds wid prec left zero =
      cLayout sg pf (match prec with | some p => zeros (p - ds.length) ++ ds | none => ds) wid left (zero && prec.isNone) := by
  unfold pbbLayout cLayout
  cases prec with
  | some p =>
    cases wid with
    | none => cases left <;> cases zero <;> simp [spaces]
    | some w =>
      cases left <;> cases zero <;> simp [spaces]
      all_goals (split <;> simp_all <;> omega)
  | none =>
    cases wid with
    | none => cases left <;> cases zero <;> simp [spaces, zeros]
    | some w =>
      cases left <;> cases zero
      · simp [spaces, zeros]; intro h; omega
      · -- the 0 flag in effect
        simp only [Bool.not_false, Bool.and_self, Option.isNone_none, if_true, Option.getD_some, Bool.false_eq_true,
          if_false, List.nil_append, List.append_nil]
        by_cases hw : w ≤ sg.length + pf.length + ds.length
        · rw [if_pos hw]
          have h1 : w - sg.length - pf.length - ds.length = 0 := by omega
          rw [h1]; simp [zeros, spaces]; omega
        · rw [if_neg hw]
          have h1 : w - sg.length - pf.length - ds.length = w - (sg.length + pf.length + ds.length) := by omega
          have h2 : w - (sg.length + pf.length + ds.length + (w - (sg.length + pf.length + ds.length))) = 0 := by omega
          rw [h1, h2]; simp [spaces]
      · simp [spaces, zeros]; intro h; omega
      · simp [spaces, zeros]; intro h; omega

/-- the directive of a Format record as printf reads it (the sign flag: `+` overrides the blank) -/
def pbbSpec (f : Fmt) : GoSpec :=
  { sharp := f.alt, zero := f.zeroPad, plus := decide (f.plus = some '+'), minus := f.left,
    space := decide (f.plus = some ' '), wid := f.width, prec := f.prec, verb := f.letter }

theorem pbbSign_eq (f : Fmt) (i : Int) (hp : f.letter ≠ 'p') (hplus : PlusOK f) :
    pbbSign f i = signStr (decide (i < 0)) (decide (f.plus = some '+')) (decide (f.plus = some ' ')) := by
  unfold pbbSign signStr
  rw [if_neg hp]
  by_cases hn : i < 0
  · simp [hn]
  · rcases hplus with h | h | h <;> simp [hn, h]

theorem intPbB_eq_layout (f : Fmt) (i : Int) (hp : f.letter ≠ 'p') :
    intPbB f i = pbbLayout (pbbSign f i) (pbbPrefix f i) (pbbDigits f i) f.width f.prec f.left f.zeroPad := by
  unfold intPbB pbbLayout pbbZeroPad
  simp [hp]

/-- the reference for a non-octal verb as a layout -/
theorem cAbs_layout (g : GoSpec) (neg nz : Bool) (digits : Str) (ho : g.verb ≠ 'o') :
    cAbs g neg nz digits =
      cLayout (signStr neg g.plus g.space)
        (if g.sharp ∧ (g.verb = 'x' ∨ g.verb = 'X' ∨ g.verb = 'b' ∨ g.verb = 'B') ∧ nz then ['0', g.verb] else [])
        (match g.prec with | some p => zeros (p - digits.length) ++ digits | none => digits)
        g.wid g.minus (g.zero && g.prec.isNone) := by
  unfold cAbs cLayout
  simp only [ho, and_false, false_and, if_false]
  cases hw : g.wid with
  | none => rfl
  | some w =>
    simp only
    cases hp : g.prec <;> cases hz : g.zero <;> simp

/-- **`b B` = the printf reference**, for every integer and every combination of flags, width and precision; the one
    point left out is the value 0 with precision 0, where the branch prints the digit 0 (as Ruby does; it reads back) -/
theorem intPbB_eq_cRef (f : Fmt) (i : Int) (hb : f.letter = 'b' ∨ f.letter = 'B') (hplus : PlusOK f)
    (hne : ¬ (i = 0 ∧ f.prec = some 0)) : intPbB f i = cRef (pbbSpec f) i := by
  have hp : f.letter ≠ 'p' := by rcases hb with h | h <;> rw [h] <;> decide
  have ho : (pbbSpec f).verb ≠ 'o' := by simp only [pbbSpec]; rcases hb with h | h <;> rw [h] <;> decide
  have hds : pbbDigits f i = natStr 2 false i.natAbs := by
    unfold pbbDigits
    rcases hb with h | h <;> simp [h]
  have hpf : pbbPrefix f i = if f.alt = true ∧ (f.letter = 'x' ∨ f.letter = 'X' ∨ f.letter = 'b' ∨ f.letter = 'B') ∧
      decide (i.natAbs ≠ 0) = true then ['0', f.letter] else [] := by
    unfold pbbPrefix
    have hvb : (f.letter = 'x' ∨ f.letter = 'X' ∨ f.letter = 'b' ∨ f.letter = 'B') := by tauto
    by_cases ha : f.alt = true
    · by_cases h0 : i = 0
      · simp [ha, h0]
      · have : i.natAbs ≠ 0 := by omega
        rcases hb with h | h <;> simp [ha, h0, this, h]
    · simp [ha]
  rw [cRef_eq, cAbs_layout _ _ _ _ ho, intPbB_eq_layout f i hp, pbbLayout_eq, pbbSign_eq f i hp hplus, hds, hpf]
  have hbase : cBase (pbbSpec f).verb = 2 := by
    simp only [pbbSpec]; rcases hb with h | h <;> rw [h] <;> decide
  have hX : decide ((pbbSpec f).verb = 'X') = false := by
    simp only [pbbSpec]; rcases hb with h | h <;> simp [h]
  have hdig : (if i.natAbs = 0 ∧ (pbbSpec f).prec = some 0 then ([] : Str)
      else natStr (cBase (pbbSpec f).verb) (decide ((pbbSpec f).verb = 'X')) i.natAbs) = natStr 2 false i.natAbs := by
    rw [if_neg (by intro h; exact hne ⟨by omega, h.2⟩), hbase, hX]
  rw [hdig]
  rfl

end Pcore.Format
