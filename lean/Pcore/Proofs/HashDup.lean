import Pcore.Proofs.HashImpl
/-!
What `types.Hash` guarantees for ANY entry list, repeated keys included (the model of known finding
C09-literal-dup-keys): the lazily built index answers the position of the LAST entry with a key, so lookups
answer the later value — which is also what the specification's literal answers — while the views show every
entry and `Delete` removes only the last one.
-/
namespace Pcore.Coll
open OMap

variable {α β κ : Type} [DecidableEq κ]

theorem get_buildIndexFrom_any (key : α → κ) (es : List (α × β)) (n : Nat) (m : List (κ × Nat)) (k : κ) :
    GoMap.get (buildIndexFrom key es n m) k = match lidx key es k with
      | some i => some (n + i)
      | none => GoMap.get m k := by
  induction es generalizing n m with
  | nil => simp [buildIndexFrom, lidx]
  | cons e es ih =>
    rw [buildIndexFrom, ih]
    simp only [lidx]
    cases lidx key es k with
    | some i => simp; omega
    | none => by_cases h : key e.1 = k <;> simp [GoMap.get_set, h]

/-- the index `valueIndex()` builds answers the position of the LAST entry with the key — for any entries -/
theorem get_buildIndex_any (key : α → κ) (es : List (α × β)) (k : κ) :
    GoMap.get (buildIndex key es) k = lidx key es k := by
  rw [buildIndex, get_buildIndexFrom_any]
  cases lidx key es k <;> simp [GoMap.get]

theorem lidx_lt {key : α → κ} {es : List (α × β)} {k : κ} {i : Nat} (h : lidx key es k = some i) : i < es.length := by
  induction es generalizing i with
  | nil => simp [lidx] at h
  | cons e es ih =>
    simp only [lidx] at h
    cases hx : lidx key es k with
    | some j => simp [hx] at h; subst h; simpa using ih hx
    | none =>
      simp only [hx] at h
      split at h
      · simp at h; subst h; simp
      · simp at h

theorem getLast_eq_lidx (key : α → κ) (es : List (α × β)) (k : κ) :
    getLast key es k = match lidx key es k with
      | some i => es[i]?
      | none => none := by
  induction es with
  | nil => rfl
  | cons e es ih =>
    simp only [getLast, lidx, ih]
    cases h : lidx key es k with
    | some i => have := lidx_lt h; simp [this]
    | none => by_cases hk : key e.1 = k <;> simp [hk]

/-- `Get` on a hash wrapped around ANY entry list answers the value of the last entry with that key -/
theorem wrap_get_any (key : α → κ) (es : List (α × β)) (k : κ) :
    ((Hash.wrap es : Hash α β κ).get key k).2 = some ((getLast key es k).map (·.2)) := by
  simp only [Hash.get, Hash.valueIndex, Hash.wrap, get_buildIndex_any, getLast_eq_lidx]
  cases h : lidx key es k with
  | none => rfl
  | some i => have := lidx_lt h; simp [this]

theorem wrap_includes_any (key : α → κ) (es : List (α × β)) (k : κ) :
    ((Hash.wrap es : Hash α β κ).includesKey key k).2 = (getLast key es k).isSome := by
  simp only [Hash.includesKey, Hash.valueIndex, Hash.wrap, get_buildIndex_any, getLast_eq_lidx]
  cases h : lidx key es k with
  | none => rfl
  | some i => have := lidx_lt h; simp [this]

/-- `Delete` on ANY entry list removes exactly the LAST entry with the key (an earlier equal key stays) -/
theorem wrap_delete_any (key : α → κ) (es : List (α × β)) (k : α) :
    ((Hash.wrap es : Hash α β κ).delete key k).2.map (·.entries) = some (match lidx key es (key k) with
      | some i => es.eraseIdx i
      | none => es) := by
  simp only [Hash.delete, Hash.valueIndex, Hash.wrap, get_buildIndex_any]
  cases h : lidx key es (key k) with
  | none => rfl
  | some i => have := lidx_lt h; simp [this, List.eraseIdx_eq_take_drop_succ]

/-- the specification's literal answers the later value too -/
theorem get_merge_last (key : α → κ) (a es : List (α × β)) (k : κ) :
    OMap.get key (OMap.merge key a es) k = match getLast key es k with
      | some x => some x.2
      | none => OMap.get key a k := by
  induction es generalizing a with
  | nil => simp [OMap.merge, getLast]
  | cons e es ih =>
    have : OMap.merge key a (e :: es) = OMap.merge key (OMap.put key a e) es := by simp [OMap.merge]
    rw [this, ih, getLast]
    cases getLast key es k with
    | some x => rfl
    | none => simp only [get_put]; by_cases hk : key e.1 = k <;> simp [hk]

theorem getEntry_isSome_merge (key : α → κ) (a es : List (α × β)) (k : κ) :
    OMap.includes key (OMap.merge key a es) k = ((getLast key es k).isSome || OMap.includes key a k) := by
  induction es generalizing a with
  | nil => simp [OMap.merge, getLast]
  | cons e es ih =>
    have : OMap.merge key a (e :: es) = OMap.merge key (OMap.put key a e) es := by simp [OMap.merge]
    rw [this, ih, getLast]
    cases getLast key es k with
    | some x => simp
    | none =>
      simp only [OMap.includes, getEntry_put]
      by_cases hk : key e.1 = k <;> simp [hk]

end Pcore.Coll
