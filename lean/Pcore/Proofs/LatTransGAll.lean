import Pcore.Proofs.LatTransGMain
set_option linter.unusedSimpArgs false
set_option linter.unusedVariables false
/-! C03: transitivity on `Ty.TG sfh` (stage 3) — the decomposition of the middle and the right type, the main induction `transG_all`,
    and the shape-only fragment `Ty.TS sfh` of the property theorem. -/
namespace Pcore.Lat
variable (cfg : Cfg) (sfh : Bool)

theorem tg_undef : Ty.TG sfh .undef := by unfold Ty.TG; trivial
theorem tg_any : Ty.TG sfh .any := by unfold Ty.TG; trivial
/-- middle type decomposed, right-hand side plain -/
theorem trG_b (hl : ∀ s, (cfg.lower s).length = s.length) (n : Nat) (ih : TransG cfg sfh n) (a b c : Ty)
    (hw : a.w + b.w + c.w ≤ n + 1) (H : GHyp cfg sfh a b c) (hA : a.isAny = false) (hc : c.plainR = true)
    (h1 : asg cfg sfh a b = true) (h2 : asg cfg sfh b c = true) : asg cfg sfh a c = true := by
  have ncr := narG sfh c H.fc
  cases b with
  | unit => have := H.fb; unfold Ty.TG at this; exact absurd this id
  | data => have := H.fb; unfold Ty.TG at this; exact absurd this id
  | richData => have := H.fb; unfold Ty.TG at this; exact absurd this id
  | optional ob =>
    have fb := H.fb; unfold Ty.TG at fb
    have wb := H.wb; unfold Ty.WF at wb
    simp only [Ty.w] at hw
    obtain ⟨hau, hao⟩ := asg_optional_parts cfg sfh h1
    rw [asg_plain_r cfg sfh _ c hc] at h2
    simp only [Bool.or_eq_true, Ty.isAny, Bool.false_eq_true, false_or] at h2
    rcases h2 with h2 | h2
    · cases c <;> simp [sameNullary] at h2
    · unfold asgRecv at h2
      simp only [Bool.or_eq_true] at h2
      rcases h2 with h2 | h2
      · exact ih a .undef c (by simp [Ty.w]; omega) ⟨H.fa, tg_undef sfh, H.fc, wf_undef cfg, H.wc⟩ hau h2
      · exact ih a ob c (by omega) ⟨H.fa, fb, H.fc, wb, H.wc⟩ hao h2
  | variant bs =>
    have fb := H.fb; unfold Ty.TG at fb
    have wb := H.wb; unfold Ty.WF at wb
    simp only [Ty.w] at hw
    have hall := asg_variant_parts cfg sfh h1
    rw [asg_plain_r cfg sfh _ c hc] at h2
    simp only [Bool.or_eq_true, Ty.isAny, Bool.false_eq_true, false_or] at h2
    rcases h2 with h2 | h2
    · cases c <;> simp [sameNullary] at h2
    · unfold asgRecv at h2
      rw [asgAnyL_iff] at h2
      obtain ⟨m, hm, hmc⟩ := h2
      exact ih a m c (by have := Ty.w_lt_wl hm; omega) ⟨H.fa, fb m hm, H.fc, wb m hm, H.wc⟩ (hall m hm) hmc
  | notUndef nb =>
    have fb := H.fb; unfold Ty.TG at fb
    have wb := H.wb; unfold Ty.WF at wb
    simp only [Ty.w] at hw
    -- NotUndef[nb]'s rule on the plain c
    have h2' : asg cfg sfh c .undef = false ∧ asg cfg sfh nb c = true := by
      rw [asg_plain_r cfg sfh _ c hc] at h2
      simp only [Bool.or_eq_true, Ty.isAny, Bool.false_eq_true, false_or] at h2
      rcases h2 with h2 | h2
      · cases c <;> simp [sameNullary] at h2
      · unfold asgRecv at h2
        cases c <;> simp [Ty.plainR] at hc <;> simpa using h2
    by_cases hnb : asg cfg sfh nb .undef = true
    · have hr := asg_nu_fall cfg sfh hA hnb h1
      rcases recvNUG_cases cfg sfh a nb H.fa hnb hr with h | ⟨as, m, rfl, hm, hmb⟩ | ⟨x, rfl, hx⟩ | ⟨x, rfl, hx⟩
      · subst h; simp [Ty.isAny] at hA
      · have fa := H.fa; unfold Ty.TG at fa
        simp only [Ty.w] at hw
        have := ih m (.notUndef nb) c (by have := Ty.w_lt_wl hm; simp [Ty.w]; omega) ⟨fa m hm, H.fb, H.fc, H.wb, H.wc⟩ hmb h2
        exact weaken_variant cfg sfh m as hm c ncr this
      · have fa := H.fa; unfold Ty.TG at fa
        simp only [Ty.w] at hw
        have := ih x (.notUndef nb) c (by simp [Ty.w]; omega) ⟨fa, H.fb, H.fc, H.wb, H.wc⟩ hx h2
        exact weaken_optional cfg sfh x c ncr this
      · have fa := H.fa; unfold Ty.TG at fa
        simp only [Ty.w] at hw
        have hxc : asg cfg sfh x c = true := by
          rcases hx with hx | hx
          · exact ih x nb c (by omega) ⟨fa, fb, H.fc, wb, H.wc⟩ hx h2'.2
          · exact ih x (.notUndef nb) c (by simp [Ty.w]; omega) ⟨fa, H.fb, H.fc, H.wb, H.wc⟩ hx h2
        exact nu_accepts cfg sfh x c.w c (Nat.le_refl _) h2'.1 hxc
    · have hnb' := bool_false_of_ne_true hnb
      have := asg_nu_strict cfg sfh hnb' h1
      exact ih a nb c (by omega) ⟨H.fa, fb, H.fc, wb, H.wc⟩ this h2'.2
  | _ =>
    -- plain middle type
    rw [asg_plain_r cfg sfh a _ rfl] at h1
    simp only [Bool.or_eq_true, hA, Bool.false_eq_true, false_or] at h1
    rcases h1 with h1 | h1
    · have := sameNullary_eq h1; subst this; exact h2
    · exact trG_recv cfg sfh hl n ih a _ c hw H rfl hc h1 h2

/-- right-hand side is `NotUndef[nc]` with `nc` accepting Undef (the receiver's own NotUndef arm decides) -/
theorem trG_c_nu (n : Nat) (ih : TransG cfg sfh n) (a b nc : Ty)
    (hw : a.w + b.w + (Ty.notUndef nc).w ≤ n + 1) (H : GHyp cfg sfh a b (.notUndef nc)) (hA : a.isAny = false)
    (hnc : asg cfg sfh nc .undef = true)
    (h1 : asg cfg sfh a b = true) (h2 : asg cfg sfh b (.notUndef nc) = true) : asg cfg sfh a (.notUndef nc) = true := by
  have ncr := narG sfh _ H.fc
  have fc := H.fc; unfold Ty.TG at fc
  have wc := H.wc; unfold Ty.WF at wc
  simp only [Ty.w] at hw
  by_cases hB : b.isAny = true
  · cases b <;> simp [Ty.isAny] at hB
    exact acceptsG_any cfg sfh a.w a (Nat.le_refl _) H.fa h1 _ ncr
  have hB' := bool_false_of_ne_true hB
  have hr := asg_nu_fall cfg sfh hB' hnc h2
  rcases recvNUG_cases cfg sfh b nc H.fb hnc hr with h | ⟨bs, m, rfl, hm, hmc⟩ | ⟨ob, rfl, hoc⟩ | ⟨nb, rfl, hnbc⟩
  · subst h; simp [Ty.isAny] at hB
  · have fb := H.fb; unfold Ty.TG at fb
    have wb := H.wb; unfold Ty.WF at wb
    simp only [Ty.w] at hw
    exact ih a m _ (by have := Ty.w_lt_wl hm; simp [Ty.w]; omega) ⟨H.fa, fb m hm, H.fc, wb m hm, H.wc⟩
      (asg_variant_parts cfg sfh h1 m hm) hmc
  · have fb := H.fb; unfold Ty.TG at fb
    have wb := H.wb; unfold Ty.WF at wb
    simp only [Ty.w] at hw
    exact ih a ob _ (by simp [Ty.w]; omega) ⟨H.fa, fb, H.fc, wb, H.wc⟩ (asg_optional_parts cfg sfh h1).2 hoc
  · have fb := H.fb; unfold Ty.TG at fb
    have wb := H.wb; unfold Ty.WF at wb
    simp only [Ty.w] at hw
    by_cases hnb : asg cfg sfh nb .undef = true
    · have hra := asg_nu_fall cfg sfh hA hnb h1
      rcases recvNUG_cases cfg sfh a nb H.fa hnb hra with h | ⟨as, m, rfl, hm, hmb⟩ | ⟨x, rfl, hx⟩ | ⟨x, rfl, hx⟩
      · subst h; simp [Ty.isAny] at hA
      · have fa := H.fa; unfold Ty.TG at fa
        simp only [Ty.w] at hw
        have := ih m (.notUndef nb) (.notUndef nc) (by have := Ty.w_lt_wl hm; simp [Ty.w]; omega)
          ⟨fa m hm, H.fb, H.fc, H.wb, H.wc⟩ hmb h2
        exact weaken_variant cfg sfh m as hm _ ncr this
      · have fa := H.fa; unfold Ty.TG at fa
        simp only [Ty.w] at hw
        have := ih x (.notUndef nb) (.notUndef nc) (by simp [Ty.w]; omega) ⟨fa, H.fb, H.fc, H.wb, H.wc⟩ hx h2
        exact weaken_optional cfg sfh x _ ncr this
      · have fa := H.fa; unfold Ty.TG at fa
        simp only [Ty.w] at hw
        rw [asg_notUndef_r]
        simp only [hnc, Bool.not_true, Bool.false_eq_true, if_false, Bool.or_eq_true]; right
        unfold asgRecv
        simp only [Bool.or_eq_true]
        rcases hx with hx | hx
        · rcases hnbc with h | h
          · left; exact ih x nb nc (by omega) ⟨fa, fb, fc, wb, wc⟩ hx h
          · right; exact ih x nb (.notUndef nc) (by simp [Ty.w]; omega) ⟨fa, fb, H.fc, wb, H.wc⟩ hx h
        · right; exact ih x (.notUndef nb) (.notUndef nc) (by simp [Ty.w]; omega) ⟨fa, H.fb, H.fc, H.wb, H.wc⟩ hx h2
    · have hnb' := bool_false_of_ne_true hnb
      have hanb := asg_nu_strict cfg sfh hnb' h1
      rcases hnbc with h | h
      · exfalso
        have := ih nb nc .undef (by simp [Ty.w]; omega) ⟨fb, fc, tg_undef sfh, wc, wf_undef cfg⟩ h hnc
        rw [this] at hnb'; cases hnb'
      · exact ih a nb (.notUndef nc) (by simp [Ty.w]; omega) ⟨H.fa, fb, H.fc, wb, H.wc⟩ hanb h

theorem transG_all (hl : ∀ s, (cfg.lower s).length = s.length) : ∀ n, TransG cfg sfh n := by
  intro n
  induction n with
  | zero => intro a b c hw; have := Ty.w_pos a; omega
  | succ n ih =>
    intro a b c hw H h1 h2
    by_cases hA : a.isAny = true
    · exact asg_of_isAny cfg sfh hA c
    have hA' := bool_false_of_ne_true hA
    cases c with
    | unit => have := H.fc; unfold Ty.TG at this; exact absurd this id
    | data => have := H.fc; unfold Ty.TG at this; exact absurd this id
    | richData => have := H.fc; unfold Ty.TG at this; exact absurd this id
    | optional oc =>
      have fc := H.fc; unfold Ty.TG at fc
      have wc := H.wc; unfold Ty.WF at wc
      simp only [Ty.w] at hw
      obtain ⟨hbu, hbo⟩ := asg_optional_parts cfg sfh h2
      rw [asg_optional_r]
      simp only [Bool.or_eq_true, Bool.and_eq_true]; right
      exact ⟨ih a b .undef (by simp [Ty.w]; omega) ⟨H.fa, H.fb, tg_undef sfh, H.wb, wf_undef cfg⟩ h1 hbu,
             ih a b oc (by omega) ⟨H.fa, H.fb, fc, H.wb, wc⟩ h1 hbo⟩
    | variant cs =>
      have fc := H.fc; unfold Ty.TG at fc
      have wc := H.wc; unfold Ty.WF at wc
      simp only [Ty.w] at hw
      have hall := asg_variant_parts cfg sfh h2
      rw [asg_variant_r]
      simp only [Bool.or_eq_true]; right
      rw [asgAllR_iff]
      intro t hm
      exact ih a b t (by have := Ty.w_lt_wl hm; omega) ⟨H.fa, H.fb, fc t hm, H.wb, wc t hm⟩ h1 (hall t hm)
    | notUndef nc =>
      by_cases hnc : asg cfg sfh nc .undef = true
      · exact trG_c_nu cfg sfh n ih a b nc hw H hA' hnc h1 h2
      · have hnc' := bool_false_of_ne_true hnc
        have fc := H.fc; unfold Ty.TG at fc
        have wc := H.wc; unfold Ty.WF at wc
        simp only [Ty.w] at hw
        have := ih a b nc (by omega) ⟨H.fa, H.fb, fc, H.wb, wc⟩ h1 (asg_nu_strict cfg sfh hnc' h2)
        exact asg_nu_of_strict cfg sfh hnc' this
    | _ => exact trG_b cfg sfh hl n ih a b _ hw H hA' rfl h1 h2

/-- The fragment of `C03_trans_struct_partial`, shape only: hereditarily none of Unit, Data / RichData; Struct (members of any
    nesting) only with the Struct-from-Hash rule off.  `Ty.TS true` is `Ty.TF` plus Iterable. -/
def Ty.TS (sfh : Bool) (t : Ty) : Prop :=
  match t with
  | .unit | .data | .richData | .callable _ _ _ => False
  | .struct ms => sfh = false ∧ ∀ m, ∀ (_ : m ∈ ms), Ty.TS sfh m.2.2
  | .tuple ts _ => ∀ t', ∀ (_ : t' ∈ ts), Ty.TS sfh t'
  | .array e _ => Ty.TS sfh e
  | .hash k v _ => Ty.TS sfh k ∧ Ty.TS sfh v
  | .variant ts => ∀ t', ∀ (_ : t' ∈ ts), Ty.TS sfh t'
  | .optional t' | .notUndef t' | .sensitive t' | .iterator t' | .typ t' | .iterable t' => Ty.TS sfh t'
  | _ => True
termination_by t.w
decreasing_by
  all_goals simp_wf
  all_goals (try simp only [Ty.w, Ty.wl, Ty.wm] at *)
  all_goals first
    | omega
    | (have := Ty.w_lt_wl ‹_ ∈ _›; omega)
    | (have := Ty.w_lt_wm ‹_ ∈ _›; omega)

/-- a well-formed term of the shape fragment lies in the fragment of the induction -/
theorem Ty.TS.tg : ∀ (n : Nat) (t : Ty), t.w ≤ n → t.TS sfh → Ty.WF cfg t → t.TG sfh := by
  intro n
  induction n with
  | zero => intro t h; have := Ty.w_pos t; omega
  | succ n ih =>
    intro t hw h wf
    cases t <;> unfold Ty.TG <;> (try trivial) <;> unfold Ty.TS at h <;> simp only [Ty.w] at hw <;> (try exact absurd h id) <;>
      unfold Ty.WF at wf
    · exact ih _ (by omega) h wf
    · exact ⟨ih _ (by omega) h.1 wf.1, ih _ (by omega) h.2 wf.2⟩
    · exact fun t' hm => ih t' (by have := Ty.w_lt_wl hm; omega) (h t' hm) (wf t' hm)
    · exact ⟨h.1, wf.1, fun m hm => ih m.2.2 (by have := Ty.w_lt_wm hm; omega) (h.2 m hm) (wf.2 m hm)⟩
    · exact fun t' hm => ih t' (by have := Ty.w_lt_wl hm; omega) (h t' hm) (wf t' hm)
    · exact ih _ (by omega) h wf
    · exact ih _ (by omega) h wf
    · exact ih _ (by omega) h wf
    · exact ih _ (by omega) h wf
    · exact ih _ (by omega) h wf
    · exact ih _ (by omega) h wf

theorem transG (hl : ∀ s, (cfg.lower s).length = s.length) (a b c : Ty)
    (fa : a.TS sfh) (fb : b.TS sfh) (fc : c.TS sfh) (wa : Ty.WF cfg a) (wb : Ty.WF cfg b) (wc : Ty.WF cfg c)
    (h1 : asg cfg sfh a b = true) (h2 : asg cfg sfh b c = true) : asg cfg sfh a c = true :=
  transG_all cfg sfh hl (a.w + b.w + c.w) a b c (Nat.le_refl _)
    ⟨Ty.TS.tg cfg sfh a.w a (Nat.le_refl _) fa wa, Ty.TS.tg cfg sfh b.w b (Nat.le_refl _) fb wb,
     Ty.TS.tg cfg sfh c.w c (Nat.le_refl _) fc wc, wb, wc⟩ h1 h2

end Pcore.Lat
