import Pcore.Proofs.LatInfer
set_option linter.unusedSimpArgs false
set_option linter.unusedVariables false
set_option maxHeartbeats 1000000
/-! C04: the family of types inferred for values that hold no type values, and `commonType` on it. -/
namespace Pcore.Lat
variable (cfg : Cfg) (sfh : Bool)

/-- The family of types that `PType()` produces for values without type values, closed under `commonType`: the singleton / range
    types of scalars, case-sensitive Enums (merged string literals), the tail types Numeric … Any, and Arrays / Hashes / Sensitive
    over them; Unit only as the element type of a collection whose maximal size is 0. -/
def Ty.Fam (t : Ty) : Prop :=
  match t with
  | .any | .undef | .dflt | .scalar | .scalarData | .numeric | .data | .richData | .bin | .str => True
  | .int _ | .float _ _ | .bool _ | .tspan _ | .tstamp _ | .strVal _ | .regexp _ | .object _ => True
  | .enum _ ci => ci = false
  | .array e r => ((match e with | .unit => True | _ => False) ∧ r.hi ≤ 0) ∨ Ty.Fam e
  | .hash k v r => ((match k with | .unit => True | _ => False) ∧ (match v with | .unit => True | _ => False) ∧ r.hi ≤ 0) ∨
      (Ty.Fam k ∧ Ty.Fam v)
  | .sensitive t' => Ty.Fam t'
  | _ => False
termination_by t.w
decreasing_by
  all_goals simp_wf
  all_goals (try simp only [Ty.w, Ty.wl, Ty.wm] at *)
  all_goals omega

theorem fam_good : ∀ (n : Nat) (t : Ty), t.w ≤ n → t.Fam → Ty.Good cfg sfh t := by
  intro n
  induction n with
  | zero => intro t h; have := Ty.w_pos t; omega
  | succ n ih =>
    intro t hw h
    cases t <;> unfold Ty.Fam at h <;> (try exact absurd h id)
    all_goals (try (refine ⟨?_, ?_, ?_⟩ <;> simp [Ty.Frag, Ty.WF, Ty.US]; done))
    · -- enum
      subst h; refine ⟨?_, ?_, ?_⟩ <;> simp [Ty.Frag, Ty.WF, Ty.US]
    · -- array
      rename_i e r
      simp only [Ty.w] at hw
      rcases h with ⟨he, hr⟩ | h
      · cases e <;> simp only [] at he
        refine ⟨?_, ?_, ?_⟩ <;> simp [Ty.Frag, Ty.WF, Ty.US, hr]
      · obtain ⟨g1, g2, g3⟩ := ih e (by omega) h
        refine ⟨by unfold Ty.Frag; exact g1, by unfold Ty.WF; exact g2, by unfold Ty.US; exact Or.inr g3⟩
    · -- hash
      rename_i k v r
      simp only [Ty.w] at hw
      rcases h with ⟨hk, hv, hr⟩ | h
      · cases k <;> simp only [] at hk
        cases v <;> simp only [] at hv
        refine ⟨?_, ?_, ?_⟩ <;> simp [Ty.Frag, Ty.WF, Ty.US, hr]
      · obtain ⟨a1, a2, a3⟩ := ih k (by omega) h.1
        obtain ⟨b1, b2, b3⟩ := ih v (by omega) h.2
        refine ⟨by unfold Ty.Frag; exact ⟨a1, b1⟩, by unfold Ty.WF; exact ⟨a2, b2⟩, by unfold Ty.US; exact Or.inr ⟨a3, b3⟩⟩
    · -- sensitive
      simp only [Ty.w] at hw
      obtain ⟨g1, g2, g3⟩ := ih _ (by omega) h
      exact ⟨by unfold Ty.Frag; exact g1, by unfold Ty.WF; exact g2, by unfold Ty.US; exact g3⟩

theorem fam_refl : ∀ (n : Nat) (t : Ty), t.w ≤ n → t.Fam → asg cfg sfh t t = true := by
  intro n
  induction n with
  | zero => intro t h; have := Ty.w_pos t; omega
  | succ n ih =>
    intro t hw h
    have viaRefl : Ty.WF cfg t → t.NoAlias → asg cfg sfh t t = true := fun w na => asg_refl cfg sfh t.w t (Nat.le_refl _) w na
    cases t <;> unfold Ty.Fam at h <;> (try exact absurd h id)
    all_goals (try (apply viaRefl <;> simp [Ty.WF, Ty.NoAlias]; done))
    · unfold asg; simp [sameNullary]
    · unfold asg; simp [sameNullary]
    · subst h; apply viaRefl <;> simp [Ty.WF, Ty.NoAlias]
    · -- array
      rename_i e r
      simp only [Ty.w] at hw
      rw [asg_plain_r cfg sfh _ _ rfl]; simp only [Bool.or_eq_true]; right
      unfold asgRecv
      rcases h with ⟨_, hr⟩ | h
      · simp [Rng.sub_refl, hr]
      · simp [Rng.sub_refl, ih e (by omega) h]
    · -- hash
      rename_i k v r
      simp only [Ty.w] at hw
      rw [asg_plain_r cfg sfh _ _ rfl]; simp only [Bool.or_eq_true]; right
      unfold asgRecv
      rcases h with ⟨_, _, hr⟩ | h
      · simp [Rng.sub_refl, hr]
      · simp [Rng.sub_refl, ih k (by omega) h.1, ih v (by omega) h.2]
    · -- sensitive
      simp only [Ty.w] at hw
      rw [asg_plain_r cfg sfh _ _ rfl]; simp only [Bool.or_eq_true]; right
      unfold asgRecv; simp [ih _ (by omega) h]

theorem hull_sub_l (r r' : Rng) : (r.hull r').sub r = true := by
  simp only [Rng.hull, Rng.sub, Bool.and_eq_true]
  exact ⟨decide_eq_true (Int.min_le_left _ _), decide_eq_true (Int.le_max_left _ _)⟩
theorem hull_sub_r (r r' : Rng) : (r.hull r').sub r' = true := by
  simp only [Rng.hull, Rng.sub, Bool.and_eq_true]
  exact ⟨decide_eq_true (Int.min_le_right _ _), decide_eq_true (Int.le_max_right _ _)⟩
theorem hull_hi (r r' : Rng) (h : r.hi ≤ 0) (h' : r'.hi ≤ 0) : (r.hull r').hi ≤ 0 := by
  simp only [Rng.hull]; omega

theorem tail_ub (a b : Ty) :
    asg cfg sfh (commonTail cfg sfh a b) a = true ∧ asg cfg sfh (commonTail cfg sfh a b) b = true := by
  unfold commonTail
  split
  · rename_i h; simpa using h
  · split
    · rename_i h; simpa using h
    · split
      · rename_i h; simpa using h
      · split
        · rename_i h; simpa using h
        · split
          · rename_i h; simpa using h
          · exact ⟨asg_any_l cfg sfh a, asg_any_l cfg sfh b⟩

theorem tail_fam (a b : Ty) : (commonTail cfg sfh a b).Fam := by
  unfold commonTail
  split <;> (try (unfold Ty.Fam; trivial))
  split <;> (try (unfold Ty.Fam; trivial))
  split <;> (try (unfold Ty.Fam; trivial))
  split <;> (try (unfold Ty.Fam; trivial))
  split <;> (unfold Ty.Fam; trivial)

theorem tail_all (a b : Ty) :
    (commonTail cfg sfh a b).Fam ∧ asg cfg sfh (commonTail cfg sfh a b) a = true ∧ asg cfg sfh (commonTail cfg sfh a b) b = true :=
  ⟨tail_fam cfg sfh a b, (tail_ub cfg sfh a b).1, (tail_ub cfg sfh a b).2⟩

theorem viaRecv' {a b : Ty} (hb : b.plainR = true) (h : asgRecv cfg sfh a b = true) : asg cfg sfh a b = true := by
  rw [asg_plain_r cfg sfh a b hb, h]; simp

/-- a case-sensitive Enum accepts a case-sensitive Enum whose values it lists -/
theorem enum_sub (vs ws : List String) (hw : ws ≠ []) (h : ∀ x ∈ ws, x ∈ vs) :
    asg cfg sfh (.enum vs false) (.enum ws false) = true := by
  apply viaRecv' cfg sfh rfl
  unfold asgRecv
  have hvs : vs.isEmpty = false := by
    cases ws with
    | nil => exact absurd rfl hw
    | cons w _ => cases vs with
      | nil => have := h w (by simp); simp at this
      | cons _ _ => rfl
  have hws : ws.isEmpty = false := by cases ws <;> simp_all
  simp only [hvs, Bool.false_eq_true, if_false, hws, Bool.not_false, Bool.true_and, Bool.or_eq_true, Bool.and_eq_true,
    List.all_eq_true]
  refine ⟨by simp, fun s hs => ?_⟩
  simp [enumInst, hvs, h s hs]

theorem enum_has (vs : List String) (s : String) (h : s ∈ vs) : asg cfg sfh (.enum vs false) (.strVal s) = true := by
  apply viaRecv' cfg sfh rfl
  unfold asgRecv
  have hvs : vs.isEmpty = false := by cases vs <;> simp_all
  simp [hvs, enumInst, h]

theorem fam_not_unit {t : Ty} (h : t.Fam) : t.isUnit = false := by
  cases t <;> simp [Ty.isUnit]; unfold Ty.Fam at h; exact h


/-- element types of inferred Arrays: Unit (when the maximal size is 0) or a member of the family -/
def ExtFam (x : Ty) (r : Rng) : Prop := ((match x with | .unit => True | _ => False) ∧ r.hi ≤ 0) ∨ x.Fam

theorem ext_common (n : Nat)
    (ih : ∀ (a b : Ty), a.Fam → b.Fam → (commonF cfg sfh n a b).Fam ∧ asg cfg sfh (commonF cfg sfh n a b) a = true ∧
      asg cfg sfh (commonF cfg sfh n a b) b = true)
    (x y : Ty) (rx ry : Rng) (hx : ExtFam x rx) (hy : ExtFam y ry) :
    ExtFam (commonF cfg sfh n x y) (rx.hull ry) ∧
    (rx.hi ≤ 0 ∨ asg cfg sfh (commonF cfg sfh n x y) x = true) ∧ (ry.hi ≤ 0 ∨ asg cfg sfh (commonF cfg sfh n x y) y = true) := by
  rcases hx with ⟨hxu, hxr⟩ | hx
  · cases x <;> simp only [] at hxu
    rcases hy with ⟨hyu, hyr⟩ | hy
    · cases y <;> simp only [] at hyu
      refine ⟨?_, Or.inl hxr, Or.inl hyr⟩
      cases n with
      | zero => right; unfold commonF; unfold Ty.Fam; trivial
      | succ k => left; unfold commonF; simp [Ty.isUnit]; exact hull_hi rx ry hxr hyr
    · cases n with
      | zero => unfold commonF; exact ⟨Or.inr (by unfold Ty.Fam; trivial), Or.inl hxr, Or.inr (asg_any_l cfg sfh y)⟩
      | succ k =>
        unfold commonF; simp only [Ty.isUnit, if_true]
        exact ⟨Or.inr hy, Or.inl hxr, Or.inr (fam_refl cfg sfh y.w y (Nat.le_refl _) hy)⟩
  · rcases hy with ⟨hyu, hyr⟩ | hy
    · cases y <;> simp only [] at hyu
      cases n with
      | zero => unfold commonF; exact ⟨Or.inr (by unfold Ty.Fam; trivial), Or.inr (asg_any_l cfg sfh x), Or.inl hyr⟩
      | succ k =>
        have ux : x.isUnit = false := by cases x <;> simp [Ty.isUnit]; unfold Ty.Fam at hx; exact hx
        unfold commonF; rw [ux]; simp only [Ty.isUnit, Bool.false_eq_true, if_false, if_true]
        exact ⟨Or.inr hx, Or.inr (fam_refl cfg sfh x.w x (Nat.le_refl _) hx), Or.inl hyr⟩
    · obtain ⟨h1, h2, h3⟩ := ih x y hx hy
      exact ⟨Or.inr h1, Or.inr h2, Or.inr h3⟩

/-- the statement about one `commonF` result -/
def CF (a b c : Ty) : Prop := c.Fam ∧ asg cfg sfh c a = true ∧ asg cfg sfh c b = true

theorem common_fam : ∀ (n : Nat) (a b : Ty), a.Fam → b.Fam → CF cfg sfh a b (commonF cfg sfh n a b) := by
  intro n
  induction n with
  | zero => intro a b _ _; unfold commonF; exact ⟨by unfold Ty.Fam; trivial, asg_any_l cfg sfh a, asg_any_l cfg sfh b⟩
  | succ n ih =>
    intro a b ha hb
    have ua := fam_not_unit ha
    have ub := fam_not_unit hb
    have ra := fam_refl cfg sfh a.w a (Nat.le_refl _) ha
    have rb := fam_refl cfg sfh b.w b (Nat.le_refl _) hb
    by_cases h1 : asg cfg sfh a b = true
    · unfold commonF; simp only [ua, ub, h1, Bool.false_eq_true, if_false, if_true]; exact ⟨ha, ra, h1⟩
    have h1' : asg cfg sfh a b = false := by cases h : asg cfg sfh a b <;> simp_all
    by_cases h2 : asg cfg sfh b a = true
    · unfold commonF; simp only [ua, ub, h1', h2, Bool.false_eq_true, if_false, if_true]; exact ⟨hb, h2, rb⟩
    have h2' : asg cfg sfh b a = false := by cases h : asg cfg sfh b a <;> simp_all
    have tl : CF cfg sfh a b (commonTail cfg sfh a b) := tail_all cfg sfh a b
    unfold commonF
    simp only [ua, ub, h1', h2', Bool.false_eq_true, if_false]
    cases a <;> (unfold Ty.Fam at ha) <;> (try exact absurd ha id) <;> simp only [] <;> (try exact tl)
    · -- int
      rename_i r
      cases b <;> (unfold Ty.Fam at hb) <;> (try exact absurd hb id) <;> simp only [] <;> (try exact tl)
      rename_i r'
      refine ⟨by unfold Ty.Fam; trivial, ?_, ?_⟩
      · exact viaRecv' cfg sfh rfl (by unfold asgRecv; exact hull_sub_l r r')
      · exact viaRecv' cfg sfh rfl (by unfold asgRecv; exact hull_sub_r r r')
    · -- float
      rename_i l h
      cases b <;> (unfold Ty.Fam at hb) <;> (try exact absurd hb id) <;> simp only [] <;> (try exact tl)
      rename_i l' h'
      refine ⟨by unfold Ty.Fam; trivial, ?_, ?_⟩
      · exact viaRecv' cfg sfh rfl (by
          unfold asgRecv; simp only [Bool.and_eq_true, decide_eq_true_eq]
          exact ⟨Fl.effLo_mono (Int.min_le_left _ _), Fl.effHi_mono (Int.le_max_left _ _)⟩)
      · exact viaRecv' cfg sfh rfl (by
          unfold asgRecv; simp only [Bool.and_eq_true, decide_eq_true_eq]
          exact ⟨Fl.effLo_mono (Int.min_le_right _ _), Fl.effHi_mono (Int.le_max_right _ _)⟩)
    · -- strVal
      rename_i s
      cases b <;> (unfold Ty.Fam at hb) <;> (try exact absurd hb id) <;> simp only [] <;> (try exact tl)
      · -- str: String accepts a, so this branch is not reached
        exfalso; rw [viaRecv' cfg sfh rfl (by unfold asgRecv; rfl)] at h2'; cases h2'
      · -- strVal
        rename_i s'
        refine ⟨by unfold Ty.Fam; rfl, enum_has cfg sfh _ s (by simp), enum_has cfg sfh _ s' (by simp)⟩
      · -- enum
        rename_i vs' ci'
        subst hb
        obtain ⟨f, l, r⟩ := ih (.enum vs' false) (.strVal s) (by unfold Ty.Fam; rfl) (by unfold Ty.Fam; trivial)
        exact ⟨f, r, l⟩
    · -- enum
      rename_i vs ci
      subst ha
      -- the default Enum accepts every string type, so in the string sub-cases the value list is not empty
      have hvs : ∀ b', isStringFamily b' = true → b'.plainR = true → asg cfg sfh (.enum vs false) b' = false → vs ≠ [] := by
        intro b' hf hp hn hv; subst hv
        rw [viaRecv' cfg sfh hp (by unfold asgRecv; simp [hf])] at hn; cases hn
      cases b <;> (unfold Ty.Fam at hb) <;> (try exact absurd hb id) <;> simp only [] <;> (try exact tl)
      · -- str
        exfalso; rw [viaRecv' cfg sfh rfl (by unfold asgRecv; rfl)] at h2'; cases h2'
      · -- strVal
        rename_i s
        have hm : mkEnum cfg (vs ++ [s]).eraseDups false = .enum (vs ++ [s]).eraseDups false := by
          unfold mkEnum
          have : (vs ++ [s]).eraseDups.isEmpty = false := by
            cases h : (vs ++ [s]).eraseDups with
            | nil => have : s ∈ (vs ++ [s]).eraseDups := List.mem_eraseDups.2 (by simp); rw [h] at this; cases this
            | cons _ _ => rfl
          simp [this]
        rw [hm]
        refine ⟨by unfold Ty.Fam; rfl, ?_, ?_⟩
        · exact enum_sub cfg sfh _ vs (hvs _ rfl rfl h1') (fun x hx => List.mem_eraseDups.2 (by simp [hx]))
        · exact enum_has cfg sfh _ s (List.mem_eraseDups.2 (by simp))
      · -- enum
        rename_i vs' ci'
        subst hb
        have hv := hvs _ rfl rfl h1'
        have hv' : vs' ≠ [] := by
          intro hv'; subst hv'
          rw [viaRecv' cfg sfh rfl (by unfold asgRecv; simp [isStringFamily])] at h2'; cases h2'
        have hm : mkEnum cfg (vs ++ vs').eraseDups (false || false) = .enum (vs ++ vs').eraseDups false := by
          unfold mkEnum
          have : (vs ++ vs').eraseDups.isEmpty = false := by
            cases h : (vs ++ vs').eraseDups with
            | nil =>
              cases vs with
              | nil => exact absurd rfl hv
              | cons x xs => have : x ∈ ((x :: xs) ++ vs').eraseDups := List.mem_eraseDups.2 (by simp); rw [h] at this; cases this
            | cons _ _ => rfl
          simp [this]
        rw [hm]
        refine ⟨by unfold Ty.Fam; rfl, ?_, ?_⟩
        · exact enum_sub cfg sfh _ vs hv (fun x hx => List.mem_eraseDups.2 (by simp [hx]))
        · exact enum_sub cfg sfh _ vs' hv' (fun x hx => List.mem_eraseDups.2 (by simp [hx]))
    · -- array
      rename_i e r
      cases b <;> (unfold Ty.Fam at hb) <;> (try exact absurd hb id) <;> simp only [] <;> (try exact tl)
      rename_i e' r'
      obtain ⟨hc1, hc2, hc3⟩ := ext_common cfg sfh n ih e e' r r' ha hb
      refine ⟨by unfold Ty.Fam; exact hc1, ?_, ?_⟩
      · apply viaRecv' cfg sfh rfl
        unfold asgRecv
        simp only [hull_sub_l, Bool.true_and, Bool.or_eq_true, decide_eq_true_eq]
        exact hc2
      · apply viaRecv' cfg sfh rfl
        unfold asgRecv
        simp only [hull_sub_r, Bool.true_and, Bool.or_eq_true, decide_eq_true_eq]
        exact hc3

end Pcore.Lat

namespace Pcore.Lat
variable (cfg : Cfg) (sfh : Bool)

/-- the inferred-type family satisfies the obligations of the fold invariant; no type values (`TV` is empty) -/
theorem fam_inferFam : InferFam cfg sfh Ty.Fam (fun _ => False) where
  good := fun t h => fam_good cfg sfh t.w t (Nat.le_refl _) h
  closed := fun a b ha hb => (common_fam cfg sfh _ a b ha hb).1
  left := fun a b ha hb => (common_fam cfg sfh _ a b ha hb).2.1
  right := fun a b ha hb => (common_fam cfg sfh _ a b ha hb).2.2
  leaf := by
    refine ⟨?_, ?_, ?_, ?_, ?_, ?_, ?_, ?_, ?_, ?_, ?_⟩ <;> (try intro _) <;> (unfold Ty.Fam; trivial)
  typv := fun _ h => absurd h id
  sens := fun t h => by unfold Ty.Fam; exact h
  arr0 := by unfold Ty.Fam; left; exact ⟨trivial, by simp⟩
  arr := fun e r h => by unfold Ty.Fam; right; exact h
  hash0 := by unfold Ty.Fam; left; exact ⟨trivial, trivial, by simp⟩
  hash := fun k v r hk hv => by unfold Ty.Fam; right; exact ⟨hk, hv⟩

/-- FIRST LAW of C04 for every value that holds no type value: the value is an instance of its inferred type -/
theorem ptype_fam (hl : ∀ s, (cfg.lower s).length = s.length) (v : Val) (ok : v.OK) (tv : Val.TyOKS cfg sfh v)
    (nt : Val.AllTyp (fun _ => False) v) : inst cfg sfh (ptype cfg sfh v) v = true :=
  (ptype_inst cfg sfh hl Ty.Fam (fun _ => False) (fam_inferFam cfg sfh) v.w v (Nat.le_refl _) ok tv nt).1

end Pcore.Lat

namespace Pcore.Lat
variable (cfg : Cfg) (sfh : Bool)

/-- no hash inside the value is keyed by strings only with the empty string among them (the one shape whose detailed type is a
    `commonType` fold over DETAILED types) -/
inductive Val.NoEmptyKey : Val → Prop
  | leaf (v) : (match v with | .array _ | .hash _ | .sensitive _ => False | _ => True) → Val.NoEmptyKey v
  | sensitive (v) : Val.NoEmptyKey (.sensitive v)
  | array (vs) : (∀ x ∈ vs, Val.NoEmptyKey x) → Val.NoEmptyKey (.array vs)
  | hashAny (es : List (Val × Val)) : (es.all (fun e => isStrKey e.1) = false) → Val.NoEmptyKey (.hash es)
  | hashStr (es : List (Val × Val)) : (∀ e ∈ es, ∃ s, e.1 = .str s ∧ s ≠ "") → (∀ e ∈ es, Val.NoEmptyKey e.2) → Val.NoEmptyKey (.hash es)

theorem dtype_eq_ptype_leaf (v : Val) (h : match v with | .array _ | .hash _ => False | _ => True) :
    dtype cfg sfh v = ptype cfg sfh v := by
  cases v <;> first | (exact absurd h id) | (unfold dtype; rfl)

/-- SECOND LAW of C04 for every value that holds no type value and no hash of the empty-string-key shape -/
theorem dtype_fam (hl : ∀ s, (cfg.lower s).length = s.length) : ∀ (n : Nat) (v : Val), v.w ≤ n → v.OK → Val.TyOKS cfg sfh v →
    Val.AllTyp (fun _ => False) v → Val.NoEmptyKey v → Val.Structy cfg sfh v := by
  intro n
  induction n with
  | zero => intro v h; have : 0 < v.w := by cases v <;> simp [Val.w] <;> omega
            omega
  | succ n ih =>
    intro v hw ok tv nt ne
    have viaP : dtype cfg sfh v = ptype cfg sfh v → Val.Structy cfg sfh v := fun he =>
      Val.Structy.known v (by rw [he]; exact ptype_fam cfg sfh hl v ok tv nt)
    cases ne with
    | leaf _ hlf =>
      apply viaP
      apply dtype_eq_ptype_leaf
      cases v <;> simp only [] at hlf ⊢
    | sensitive x => exact viaP (by unfold dtype; rfl)
    | array vs hall =>
      simp only [Val.w] at hw
      exact Val.Structy.array vs (fun x hx =>
        ih x (by have := Val.w_lt_wl hx; omega) (ok.elems x hx) (tv.elems x hx) (nt.elems x hx) (hall x hx))
    | hashAny es hany =>
      apply viaP
      cases es with
      | nil => simp at hany
      | cons e0 es0 => obtain ⟨k0, v0⟩ := e0; unfold dtype; simp [hany]
    | hashStr es hkeys hvals =>
      simp only [Val.w] at hw
      exact Val.Structy.hash es ok.nodup hkeys (fun e he =>
        ih e.2 (by have := Val.w_lt_we he; omega) (ok.vals e he) (tv.vals e he) (nt.vals e he) (hvals e he))

end Pcore.Lat

namespace Pcore.Lat
variable (cfg : Cfg)

/-- the detailed type of such a value meets the side conditions of C01 (rule off: it may hold Structs) -/
theorem dtype_good (hl : ∀ s, (cfg.lower s).length = s.length) : ∀ (n : Nat) (v : Val), v.w ≤ n → v.OK → Val.TyOKS cfg false v →
    Val.AllTyp (fun _ => False) v → Val.NoEmptyKey v → Ty.Good cfg false (dtype cfg false v) := by
  intro n
  induction n with
  | zero => intro v h; have : 0 < v.w := by cases v <;> simp [Val.w] <;> omega
            omega
  | succ n ih =>
    intro v hw ok tv nt ne
    have viaP : dtype cfg false v = ptype cfg false v → Ty.Good cfg false (dtype cfg false v) := fun he => by
      rw [he]
      exact fam_good cfg false _ _ (Nat.le_refl _)
        (ptype_inst cfg false hl Ty.Fam (fun _ => False) (fam_inferFam cfg false) v.w v (Nat.le_refl _) ok tv nt).2
    cases ne with
    | leaf _ hlf =>
      apply viaP
      apply dtype_eq_ptype_leaf
      cases v <;> simp only [] at hlf ⊢
    | sensitive x => exact viaP (by unfold dtype; rfl)
    | array vs hall =>
      simp only [Val.w] at hw
      cases vs with
      | nil => unfold dtype; refine ⟨?_, ?_, ?_⟩ <;> simp [Ty.Frag, Ty.WF, Ty.US]
      | cons x xs =>
        have hd : dtype cfg false (.array (x :: xs)) = .tuple (dtypeL cfg false (x :: xs)) none := by
          conv => lhs; unfold dtype
          conv => rhs; unfold dtypeL
        rw [hd]
        have hmem : ∀ t ∈ dtypeL cfg false (x :: xs), Ty.Good cfg false t := by
          intro t ht
          obtain ⟨i, hi, hget⟩ := List.getElem_of_mem ht
          obtain ⟨y, hy, hty⟩ := dtypeL_get cfg false (x :: xs) i t (by rw [List.getElem?_eq_getElem hi, hget])
          have hym := List.mem_of_getElem? hy
          rw [hty]
          exact ih y (by have := Val.w_lt_wl hym; omega) (ok.elems y hym) (tv.elems y hym) (nt.elems y hym) (hall y hym)
        refine ⟨?_, ?_, ?_⟩
        · unfold Ty.Frag; exact fun t ht => (hmem t ht).1
        · unfold Ty.WF; exact fun t ht => (hmem t ht).2.1
        · unfold Ty.US; right; exact fun t ht => (hmem t ht).2.2
    | hashAny es hany =>
      apply viaP
      cases es with
      | nil => simp at hany
      | cons e0 es0 => obtain ⟨k0, v0⟩ := e0; unfold dtype; simp [hany]
    | hashStr es hkeys hvals =>
      simp only [Val.w] at hw
      cases es with
      | nil => unfold dtype; refine ⟨?_, ?_, ?_⟩ <;> simp [Ty.Frag, Ty.WF, Ty.US]
      | cons e0 es0 =>
        obtain ⟨k0, v0⟩ := e0
        have hallstr : ((k0, v0) :: es0).all (fun e => isStrKey e.1) = true := by
          simp only [List.all_eq_true]
          intro e he; obtain ⟨s, hs, _⟩ := hkeys e he; rw [hs]; rfl
        have hnoempty : ((k0, v0) :: es0).any (fun e => isEmptyStrKey e.1) = false := by
          cases hh : ((k0, v0) :: es0).any (fun e => isEmptyStrKey e.1) with
          | false => rfl
          | true =>
            exfalso
            simp only [List.any_eq_true] at hh
            obtain ⟨e, he, hk⟩ := hh
            obtain ⟨s, hs, hne⟩ := hkeys e he
            rw [hs] at hk; simp [isEmptyStrKey] at hk; exact hne hk
        have hd : dtype cfg false (.hash ((k0, v0) :: es0)) = .struct (dtypeM cfg false ((k0, v0) :: es0)) := by
          conv => lhs; unfold dtype
          simp only [hallstr, hnoempty, Bool.not_true, Bool.false_eq_true, if_false]
        rw [hd]
        have hmem : ∀ m ∈ dtypeM cfg false ((k0, v0) :: es0), Ty.Good cfg false m.2.2 := by
          intro m hm
          obtain ⟨e, he, _, h2⟩ := dtypeM_mem cfg false _ m hm
          rw [h2]
          exact ih e.2 (by have := Val.w_lt_we he; omega) (ok.vals e he) (tv.vals e he) (nt.vals e he) (hvals e he)
        have hnames : ((dtypeM cfg false ((k0, v0) :: es0)).map (·.1)).Nodup := by
          rw [dtypeM_names]; exact names_nodup _ ok.nodup hkeys
        refine ⟨?_, ?_, ?_⟩
        · unfold Ty.Frag; exact ⟨rfl, fun m hm => (hmem m hm).1⟩
        · unfold Ty.WF; exact ⟨hnames, fun m hm => (hmem m hm).2.1⟩
        · unfold Ty.US; exact fun m hm => (hmem m hm).2.2

end Pcore.Lat
