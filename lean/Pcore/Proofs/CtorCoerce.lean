import Pcore.Proofs.CtorNew
import Pcore.Model.CtorCoerce
/-!
`types.CoerceTo` (Model/CtorCoerce.lean): what comes out is an instance of the requested type.  Core Lean only.
-/
namespace Pcore.Dispatch.Alpha

/-- the type without one `Optional` -/
def unwrapOpt : Ty → Ty
  | .opt t => t
  | t => t

/-- nesting depth through the constructors `coerceTo` recurses into -/
def Ty.sz : Ty → Nat
  | .arr e _ _ => e.sz + 1
  | .hash k v _ _ => k.sz + v.sz + 1
  | .opt t => t.sz + 1
  | _ => 0

theorem seqResults_ok {α : Type} (f : α → NewOutcome Val) (xs : List α) (rs : List Val)
    (h : seqResults (xs.map f) = .ok rs) : ∀ r ∈ rs, ∃ x ∈ xs, f x = .value r := by
  induction xs generalizing rs with
  | nil => simp [seqResults] at h; subst h; simp
  | cons x xs ih =>
    simp only [List.map, seqResults] at h
    cases hx : f x with
    | value v =>
      simp only [hx] at h
      cases hr : seqResults (xs.map f) with
      | error e => simp [hr] at h
      | ok vs =>
        simp [hr] at h; subst h
        intro r hr'
        rcases List.mem_cons.mp hr' with rfl | hr'
        · exact ⟨x, by simp, hx⟩
        · obtain ⟨y, hy, hfy⟩ := ih vs hr r hr'
          exact ⟨y, by simp [hy], hfy⟩
    | reported c => simp [hx] at h
    | fault => simp [hx] at h

theorem seqEntries_ok {α : Type} (f g : α → NewOutcome Val) (xs : List α) (es : List (Val × Val))
    (h : seqEntries (xs.map fun x => (f x, g x)) = .ok es) :
    ∀ e ∈ es, ∃ x ∈ xs, f x = .value e.1 ∧ g x = .value e.2 := by
  induction xs generalizing es with
  | nil => simp [seqEntries] at h; subst h; simp
  | cons x xs ih =>
    simp only [List.map, seqEntries] at h
    cases hf : f x with
    | value k =>
      simp only [hf] at h
      cases hg : g x with
      | value v =>
        simp only [hg] at h
        cases hr : seqEntries (xs.map fun x => (f x, g x)) with
        | error e => simp [hr] at h
        | ok es' =>
          simp [hr] at h; subst h
          intro e he
          rcases List.mem_cons.mp he with rfl | he
          · exact ⟨x, by simp, hf, hg⟩
          · obtain ⟨y, hy, h1, h2⟩ := ih es' hr e he
            exact ⟨y, by simp [hy], h1, h2⟩
      | reported c => simp [hg] at h
      | fault => simp [hg] at h
    | reported c => simp [hf] at h
    | fault => simp [hf] at h

theorem seqResults_error (os : List (NewOutcome Val)) (o : NewOutcome Val) (h : seqResults os = .error o) :
    ∀ r, o ≠ .value r := by
  induction os with
  | nil => simp [seqResults] at h
  | cons x xs ih =>
    simp only [seqResults] at h
    cases x with
    | value v =>
      simp only at h
      cases hr : seqResults xs with
      | error e => simp [hr] at h; subst h; exact ih hr
      | ok vs => simp [hr] at h
    | reported c => simp at h; subst h; intro r; simp
    | fault => simp at h; subst h; intro r; simp

theorem seqEntries_error (os : List (NewOutcome Val × NewOutcome Val)) (o : NewOutcome Val) (h : seqEntries os = .error o) :
    ∀ r, o ≠ .value r := by
  induction os with
  | nil => simp [seqEntries] at h
  | cons x xs ih =>
    obtain ⟨a, b⟩ := x
    simp only [seqEntries] at h
    cases a with
    | value k =>
      simp only at h
      cases b with
      | value v =>
        simp only at h
        cases hr : seqEntries xs with
        | error e => simp [hr] at h; subst h; exact ih hr
        | ok vs => simp [hr] at h
      | reported c => simp at h; subst h; intro r; simp
      | fault => simp at h; subst h; intro r; simp
    | reported c => simp at h; subst h; intro r; simp
    | fault => simp at h; subst h; intro r; simp

section
variable (pf : List Char → Option Nat)

/-- `newInstance(c, typ, value)` answers an instance of `typ` -/
theorem newOne_value (t : Ty) (v r : Val) (h : newOne pf t v = .value r) : inst t r = true := by
  unfold newOne at h
  cases hn : newModel pf (.plain t) [v] with
  | none => simp [hn] at h
  | some o =>
    simp only [hn] at h; subst h
    obtain ⟨t', ht, hi⟩ := newModel_value pf _ _ _ hn
    simp [RecvTy.type?] at ht; subst ht; exact hi

/-- `coerceTo` as coerce.go writes it: the instance test, one `Optional` removed, the switch -/
theorem coerceTo_eq (t : Ty) (v : Val) :
    coerceTo pf t v = if inst t v then .value v else coerceCore pf (unwrapOpt t) v := by
  cases t <;> simp [coerceTo, coerceCore, unwrapOpt]

theorem finishArr_value (e : Ty) (lo : Nat) (hi : Option Nat) (x : Except (NewOutcome Val) (List Val)) (r : Val)
    (h : finishArr lo hi x = .value r) (hall : ∀ rs, x = .ok rs → ∀ y ∈ rs, inst e y = true)
    (hne : ∀ o, x = .error o → ∀ r, o ≠ .value r) :
    inst (.arr e lo hi) r = true := by
  unfold finishArr at h
  cases x with
  | error o => simp at h; exact absurd h (hne o rfl r)
  | ok rs =>
    simp only at h
    split at h
    · rename_i hs
      cases h
      simp only [inst, hs, Bool.true_and, List.all_eq_true]
      exact hall rs rfl
    · cases h

theorem finishHash_value (kt vt : Ty) (lo : Nat) (hi : Option Nat) (x : Except (NewOutcome Val) (List (Val × Val))) (r : Val)
    (h : finishHash lo hi x = .value r)
    (hall : ∀ es, x = .ok es → ∀ e ∈ es, inst kt e.1 = true ∧ inst vt e.2 = true)
    (hne : ∀ o, x = .error o → ∀ r, o ≠ .value r) :
    inst (.hash kt vt lo hi) r = true := by
  unfold finishHash at h
  cases x with
  | error o => simp at h; exact absurd h (hne o rfl r)
  | ok es =>
    simp only at h
    split at h
    · rename_i hs
      cases h
      simp only [inst, hs, Bool.true_and, List.all_eq_true, Bool.and_eq_true]
      exact hall es rfl
    · cases h

theorem finishStruct_value (ms : List (String × Bool × Ty)) (x : Except (NewOutcome Val) (List (Val × Val))) (r : Val)
    (h : finishStruct ms x = .value r) (hne : ∀ o, x = .error o → ∀ r, o ≠ .value r) : inst (.struct ms) r = true := by
  unfold finishStruct at h
  cases x with
  | error o => simp at h; exact absurd h (hne o rfl r)
  | ok es =>
    simp only [assertInstance] at h
    split at h
    · rename_i hi; cases h; exact hi
    · cases h

theorem inst_opt_of (t : Ty) (r : Val) (h : inst t r = true) : inst (.opt t) r = true := by
  cases r <;> simp [inst, h]

/-- soundness of both entry points, by induction on the nesting depth -/
theorem coerce_sound_aux : ∀ n t, t.sz < n → ∀ v r,
    (coerceTo pf t v = .value r → inst t r = true) ∧ (coerceCore pf t v = .value r → inst t r = true) := by
  intro n
  induction n with
  | zero => intro t h; omega
  | succ n ih =>
    intro t hsz v r
    -- the switch first; the entry point follows from it by `coerceTo_eq`
    have hcore : coerceCore pf t v = .value r → inst t r = true := by
      intro h
      cases t with
      | arr e lo hi =>
        have he : e.sz < n := by simp [Ty.sz] at hsz; omega
        cases v <;> simp [coerceCore] at h
        rename_i vs
        refine finishArr_value e lo hi _ r h ?_ (fun o ho => seqResults_error _ o ho)
        intro rs hrs y hy
        obtain ⟨x, _, hx⟩ := seqResults_ok (fun x => coerceTo pf e x) vs rs hrs y hy
        exact (ih e he x y).1 hx
      | hash kt vt lo hi =>
        have hk : kt.sz < n := by simp [Ty.sz] at hsz; omega
        have hv : vt.sz < n := by simp [Ty.sz] at hsz; omega
        cases v <;> simp [coerceCore] at h
        rename_i es
        refine finishHash_value kt vt lo hi _ r h ?_ (fun o ho => seqEntries_error _ o ho)
        intro es' hes e he
        obtain ⟨x, _, h1, h2⟩ := seqEntries_ok (fun x => coerceTo pf kt x.1) (fun x => coerceTo pf vt x.2) es es' hes e he
        exact ⟨(ih kt hk _ _).1 h1, (ih vt hv _ _).1 h2⟩
      | struct ms =>
        cases v <;> simp [coerceCore] at h
        exact finishStruct_value ms _ r h (fun o ho => seqEntries_error _ o ho)
      | _ => exact newOne_value pf _ v r (by simpa [coerceCore] using h)
    refine ⟨?_, hcore⟩
    intro h
    rw [coerceTo_eq] at h
    by_cases hi : inst t v = true
    · simp [hi] at h; subst h; exact hi
    · simp only [hi] at h
      cases t with
      | opt t' =>
        have ht' : t'.sz < n := by simp [Ty.sz] at hsz; omega
        exact inst_opt_of t' r ((ih t' ht' v r).2 (by simpa [unwrapOpt] using h))
      | _ => exact hcore (by simpa [unwrapOpt] using h)

/-- what `CoerceTo(typ, value)` returns is an instance of `typ` -/
theorem coerce_sound (t : Ty) (v r : Val) (h : coerceTo pf t v = .value r) : inst t r = true :=
  (coerce_sound_aux pf (t.sz + 1) t (by omega) v r).1 h

end

end Pcore.Dispatch.Alpha
