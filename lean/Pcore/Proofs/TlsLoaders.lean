import Pcore.Proofs.TlsDefs
/-!
The loader-chain invariant behind "definitions made in a forked context are invisible to its parent and siblings":
the defining loader (head of the chain) of a WAITING goroutine's context occurs in the chain of no other context —
`Fork` allocates it fresh.  `exec_linv`: preserved by every execution (third induction on the fuel, every case local).
-/
namespace Pcore.Tls

structure LInv (w : World) : Prop where
  ldPos : 1 ≤ w.nextLoader
  /-- every loader a context refers to has been allocated -/
  chainLt : ∀ i, i < w.nextCtx → ∀ l ∈ (w.ctxs i).loader, l < w.nextLoader
  /-- a waiting goroutine's defining loader is its own: allocated (not the shared environment loader 0) and on no other chain -/
  pendHead : ∀ t ∈ w.pending, ∃ h, headOf w t.ctx = some h ∧ 1 ≤ h ∧ ∀ i, i < w.nextCtx → i ≠ t.ctx → h ∉ (w.ctxs i).loader

theorem LInv.of_same {w w' : World} (h : LInv w) (h1 : w'.ctxs = w.ctxs) (h2 : w'.pending = w.pending)
    (h3 : w'.nextCtx = w.nextCtx) (h4 : w'.nextLoader = w.nextLoader) : LInv w' :=
  ⟨by rw [h4]; exact h.ldPos, by rw [h1, h3, h4]; exact h.chainLt, by
    rw [h2, h3, h1]
    intro t ht
    obtain ⟨hd, e, p1, p2⟩ := h.pendHead t ht
    exact ⟨hd, by simpa [headOf, h1] using e, p1, p2⟩⟩

theorem headOf_lt {w : World} (h : LInv w) (hinv : Inv w) {t : Task} (ht : t ∈ w.pending) {hd : LoaderId}
    (e : headOf w t.ctx = some hd) : hd < w.nextLoader := by
  apply h.chainLt t.ctx (hinv.pendCtxLt t ht)
  simp only [headOf] at e
  cases hl : (w.ctxs t.ctx).loader with
  | nil => simp [hl] at e
  | cons a r => simp [hl] at e; simp [e]

/-- a change of a context that keeps its loader chain -/
theorem LInv.ctxUpd_keep {w : World} (h : LInv w) (c : CtxId) (f : Ctx → Ctx) (hf : ∀ y, (f y).loader = y.loader) :
    LInv (ctxUpd c f w) := by
  have hl : ∀ i, ((ctxUpd c f w).ctxs i).loader = (w.ctxs i).loader := by
    intro i
    by_cases hi : i = c
    · subst hi; simp [ctxUpd, hf]
    · simp [ctxUpd, hi]
  refine ⟨h.ldPos, fun i hi l hm => h.chainLt i hi l (by rw [← hl i]; exact hm), ?_⟩
  intro t ht
  obtain ⟨hd, e, p1, p2⟩ := h.pendHead t ht
  exact ⟨hd, by simpa [headOf, hl] using e, p1, fun i hi hne hm => p2 i hi hne (by rw [← hl i]; exact hm)⟩

theorem LInv.after_newLoader {w : World} (h : LInv w) : LInv (newLoader w).2 :=
  ⟨Nat.le_succ_of_le h.ldPos, fun i hi l hm => Nat.lt_succ_of_lt (h.chainLt i hi l hm), h.pendHead⟩

/-- a new context whose chain is made of allocated loaders none of which is a waiting goroutine's defining loader -/
theorem LInv.after_newCtx {w : World} (h : LInv w) (hinv : Inv w) (x : Ctx) (hx : ∀ l ∈ x.loader, l < w.nextLoader)
    (hp : ∀ t ∈ w.pending, ∀ hd, headOf w t.ctx = some hd → hd ∉ x.loader) : LInv (newCtx x w).2 := by
  have hc : ∀ i, i < w.nextCtx → (newCtx x w).2.ctxs i = w.ctxs i := by
    intro i hi
    have : i ≠ w.nextCtx := Nat.ne_of_lt hi
    simp [newCtx, this]
  have hn : (newCtx x w).2.ctxs w.nextCtx = x := by simp [newCtx]
  refine ⟨h.ldPos, ?_, ?_⟩
  · intro i hi l hm
    rcases Nat.lt_succ_iff_lt_or_eq.1 hi with hi' | hi'
    · rw [hc i hi'] at hm; exact h.chainLt i hi' l hm
    · rw [hi', hn] at hm; exact hx l hm
  · intro t ht
    obtain ⟨hd, e, p1, p2⟩ := h.pendHead t ht
    have htl := hinv.pendCtxLt t ht
    refine ⟨hd, by simpa [headOf, hc t.ctx htl] using e, p1, ?_⟩
    intro i hi hne hm
    rcases Nat.lt_succ_iff_lt_or_eq.1 hi with hi' | hi'
    · rw [hc i hi'] at hm; exact p2 i hi' hne hm
    · rw [hi', hn] at hm; exact hp t ht hd e hm

/-- `pxContext.Fork` of a context that is not a waiting goroutine's -/
theorem LInv.after_forkCtx {w : World} (h : LInv w) (hinv : Inv w) {c : CtxId} (hc : c < w.nextCtx) (hnp : c ∉ pendCtxs w) :
    LInv (forkCtx c w).2 := by
  have h1 := h.after_newLoader
  have hinv1 : Inv (newLoader w).2 := (newLoader_step hinv).inv
  refine LInv.after_newCtx (w := (newLoader w).2) h1 hinv1 _ ?_ ?_
  · intro l hl
    simp only [List.mem_cons] at hl
    rcases hl with hl | hl
    · rw [hl]; exact Nat.lt_succ_self _
    · exact Nat.lt_succ_of_lt (h.chainLt c hc l hl)
  · intro t ht hd e hm
    have ht' : t ∈ w.pending := ht
    have e' : headOf w t.ctx = some hd := e
    simp only [List.mem_cons] at hm
    rcases hm with hm | hm
    · have := headOf_lt h hinv ht' e'
      rw [hm] at this; exact Nat.lt_irrefl _ this
    · obtain ⟨hd', e2, _, p2⟩ := h.pendHead t ht'
      rw [e'] at e2; cases e2
      apply p2 c hc ?_ hm
      intro hct
      exact hnp (by simp only [pendCtxs, List.mem_map]; exact ⟨t, ht', hct.symm⟩)

theorem setEntry_pending' (l : LoaderId) (n : String) (b : Bool) (w : World) : (setEntry l n b w).pending = w.pending := by
  unfold setEntry; split <;> rfl
theorem setEntry_nextCtx' (l : LoaderId) (n : String) (b : Bool) (w : World) : (setEntry l n b w).nextCtx = w.nextCtx := by
  unfold setEntry; split <;> rfl
theorem setEntry_nextLoader' (l : LoaderId) (n : String) (b : Bool) (w : World) : (setEntry l n b w).nextLoader = w.nextLoader := by
  unfold setEntry; split <;> rfl

theorem LInv.after_setEntry {w : World} (h : LInv w) (l : LoaderId) (n : String) (b : Bool) : LInv (setEntry l n b w) :=
  h.of_same (setEntry_ctxs l n b w) (setEntry_pending' l n b w) (setEntry_nextCtx' l n b w) (setEntry_nextLoader' l n b w)

theorem leafStep_linv {g c : Nat} {l : Leaf} {w : World} (hl : LInv w) : LInv (leafStep g c l w).2 := by
  cases l with
  | obs => simp only [leafStep]; split <;> exact hl.of_same rfl rfl rfl rfl
  | set k x => exact hl.ctxUpd_keep c (fun y => { y with vars := aset k x y.vars }) (fun _ => rfl)
  | get k => exact hl.of_same rfl rfl rfl rfl
  | del k => exact hl.ctxUpd_keep c (fun y => { y with vars := adel k y.vars }) (fun _ => rfl)
  | push n => exact hl.ctxUpd_keep c (fun y => { y with stack := y.stack ++ [n] }) (fun _ => rfl)
  | pop =>
    simp only [leafStep]
    split
    · exact hl
    · exact hl.ctxUpd_keep c (fun y => { y with stack := y.stack.dropLast }) (fun _ => rfl)
  | deftype n =>
    simp only [leafStep]
    split
    · exact hl
    · exact hl.after_setEntry _ _ _
  | load n =>
    simp only [leafStep]
    split
    · split
      · exact hl.of_same rfl rfl rfl rfl
      · exact (hl.after_setEntry _ _ _).of_same rfl rfl rfl rfl
    · exact hl.of_same rfl rfl rfl rfl
  | panic => exact hl

/-- what the induction hypothesis says -/
def ExecL (ex : Prog → Gid → CtxId → World → Outcome × World) : Prop :=
  ∀ p g c w, Pre g c w → LInv w → LInv (ex p g c w).2

theorem doWithContext_linv {g cx : Nat} {body : World → Outcome × World} {w : World}
    (hinv : Inv w) (hg : g < w.nextGid) (hgp : g ∉ pendGids w)
    (hcx : cx < w.nextCtx) (hnp : cx ∉ pendCtxs w) (hne : ∀ g', (g', cx) ∉ w.estab) (hl : LInv w)
    (hb : ∀ w1, Pre g cx w1 → LInv w1 → LInv (body w1).2) :
    LInv (doWithContext .now g cx body w).2 := by
  unfold doWithContext
  cases hget : tlGet g ctxKey w with
  | some save =>
    obtain ⟨t, ht, hts⟩ : ∃ t, w.tls g = some t ∧ aget ctxKey t = some save := by
      unfold tlGet at hget
      cases h : w.tls g with
      | none => simp [h] at hget
      | some t => exact ⟨t, rfl, by simpa [h] using hget⟩
    have hset := tlSet_eq (v := cx) ht
    have s1 : Step none w (tlPut g (aset ctxKey cx t) w) := tlSet_step hinv hg hgp hset
    have s2 := note_step (g := g) s1.inv hcx hnp hne
    have hpre : Pre g cx (note g cx (tlPut g (aset ctxKey cx t) w)) :=
      { inv := s2.inv
        cur := by simp [tlGet, note, tlPut, aget_aset_same]
        glt := hg
        gnp := hgp
        est := by simp [note] }
    have hlb := hb _ hpre (hl.of_same rfl rfl rfl rfl)
    simp only [hset]
    cases hs2 : tlSet g ctxKey save (body (note g cx (tlPut g (aset ctxKey cx t) w))).2 with
    | none => exact hlb
    | some w3 =>
      simp only
      unfold tlSet at hs2
      split at hs2
      · cases hs2
      · cases hs2; exact hlb.of_same rfl rfl rfl rfl
  | none =>
    simp only [tlSet_tlInit, if_true]
    have s1 : Step none w (tlFresh g cx w) := tlFresh_step hinv hg hgp
    have s2 := note_step (g := g) s1.inv hcx hnp hne
    have hpre : Pre g cx (note g cx (tlFresh g cx w)) :=
      { inv := s2.inv
        cur := by simp [tlGet, note, tlFresh, aget]
        glt := hg
        gnp := hgp
        est := by simp [note] }
    exact (hb _ hpre (hl.of_same rfl rfl rfl rfl)).of_same rfl rfl rfl rfl

theorem catch_linv {g : Gid} {ctch : Bool} {r : Outcome × World} (h : LInv r.2) :
    LInv (if ctch = true ∧ r.1 = .panicked then (Outcome.normal, emit g .recovered r.2) else r).2 := by
  by_cases hc : ctch = true ∧ r.1 = .panicked
  · rw [if_pos hc]; exact h.of_same rfl rfl rfl rfl
  · rw [if_neg hc]; exact h

theorem doParent_linv {g : Nat} {id : Nat} {ctch : Bool} {body : CtxId → World → Outcome × World} {root : Nat} {w2 : World}
    (hp : Pre g root w2) (hl : LInv w2) (hb : ∀ cx w1, Pre g cx w1 → LInv w1 → LInv (body cx w1).2) :
    LInv (doParent .now g id ctch body root w2).2 := by
  have sF : Step none w2 (forkCtx root w2).2 := forkCtx_step hp.inv
  have hlF := hl.after_forkCtx hp.inv hp.clt hp.cnp
  have hd := doWithContext_linv (g := g) (cx := w2.nextCtx) (w := (forkCtx root w2).2)
    (body := fun w4 => body w2.nextCtx (setTag w2.nextCtx id w4))
    sF.inv hp.glt hp.gnp (by simp) (ctx_fresh_not_pend hp.inv) (fun g' => ctx_fresh_not_estab hp.inv g') hlF
    (by
      intro w4 hp4 hl4
      have s4 : Step (some w2.nextCtx) w4 (setTag w2.nextCtx id w4) := setTag_step hp4.inv
      exact hb w2.nextCtx _ (hp4.step s4 rfl) (hl4.ctxUpd_keep w2.nextCtx (fun y => { y with tag := some id }) (fun _ => rfl)))
  simp only [doParent, forkCtx_fst]
  exact catch_linv (g := g) (ctch := ctch) hd

theorem doDo_linv {g : Nat} {id : Nat} {ctch : Bool} {body : CtxId → World → Outcome × World} {w : World}
    (hinv : Inv w) (hg : g < w.nextGid) (hgp : g ∉ pendGids w) (hl : LInv w)
    (hb : ∀ cx w1, Pre g cx w1 → LInv w1 → LInv (body cx w1).2) :
    LInv (doDo .now g id ctch body w).2 := by
  simp only [doDo]
  have s0 : Step none w (newCtx { loader := [0] } w).2 := newCtx_step hinv
  have hroot : (newCtx { loader := [0] } w).1 = w.nextCtx := rfl
  rw [hroot]
  have hl0 : LInv (newCtx { loader := [0] } w).2 := by
    refine hl.after_newCtx hinv _ ?_ ?_
    · intro l hm; simp at hm; rw [hm]; exact hl.ldPos
    · intro t ht hd e hm
      simp at hm
      obtain ⟨hd', e2, p1, _⟩ := hl.pendHead t ht
      rw [e] at e2; cases e2
      rw [hm] at p1; exact absurd p1 (by decide)
  exact doWithContext_linv (g := g) (cx := w.nextCtx) (w := (newCtx { loader := [0] } w).2)
    (body := doParent .now g id ctch body w.nextCtx)
    s0.inv hg hgp (Nat.lt_succ_self _) (ctx_fresh_not_pend hinv) (fun g' => ctx_fresh_not_estab hinv g') hl0
    (fun w2 hp hl2 => doParent_linv hp hl2 hb)

theorem LInv.after_spawn {w : World} (h : LInv w) (hinv : Inv w) {c : CtxId} (p : Prog) (hc : c < w.nextCtx)
    (hnp : c ∉ pendCtxs w) : LInv (spawn .now c p w) := by
  have hF := h.after_forkCtx hinv hc hnp
  rw [spawn_now]
  refine ⟨hF.ldPos, hF.chainLt, ?_⟩
  intro t ht
  simp only [List.mem_append, List.mem_singleton] at ht
  rcases ht with ht | ht
  · exact hF.pendHead t ht
  · subst ht
    refine ⟨w.nextLoader, headOf_forkCtx c w, h.ldPos, ?_⟩
    intro i hi hne hm
    have hi' : i < w.nextCtx := by
      rcases Nat.lt_succ_iff_lt_or_eq.1 hi with h1 | h1
      · exact h1
      · exact absurd h1 hne
    have hne' : i ≠ w.nextCtx := Nat.ne_of_lt hi'
    have hm' : w.nextLoader ∈ (w.ctxs i).loader := by simpa [forkCtx, newCtx, newLoader, hne'] using hm
    exact Nat.lt_irrefl _ (h.chainLt i hi' _ hm')

/-- `DoWithLoader` entry / exit: the context gets another chain, made of allocated loaders none of which is a waiting
    goroutine's defining loader -/
theorem LInv.after_setLoader {w : World} (h : LInv w) {c : CtxId} (hnp : c ∉ pendCtxs w) (ch : List LoaderId)
    (h1 : ∀ l ∈ ch, l < w.nextLoader) (h2 : ∀ t ∈ w.pending, ∀ hd, headOf w t.ctx = some hd → hd ∉ ch) :
    LInv (ctxUpd c (fun y => { y with loader := ch }) w) := by
  have hne : ∀ t ∈ w.pending, t.ctx ≠ c := by
    intro t ht hc
    exact hnp (by simp only [pendCtxs, List.mem_map]; exact ⟨t, ht, hc⟩)
  have hsame : ∀ i, i ≠ c → (ctxUpd c (fun y => { y with loader := ch }) w).ctxs i = w.ctxs i := by
    intro i hi; simp [ctxUpd, hi]
  have hat : ((ctxUpd c (fun y => { y with loader := ch }) w).ctxs c).loader = ch := by simp [ctxUpd]
  refine ⟨h.ldPos, ?_, ?_⟩
  · intro i hi l hm
    by_cases hic : i = c
    · rw [hic, hat] at hm; exact h1 l hm
    · rw [hsame i hic] at hm; exact h.chainLt i hi l hm
  · intro t ht
    obtain ⟨hd, e, p1, p2⟩ := h.pendHead t ht
    refine ⟨hd, by simpa [headOf, hsame t.ctx (hne t ht)] using e, p1, ?_⟩
    intro i hi hit hm
    by_cases hic : i = c
    · rw [hic, hat] at hm; exact h2 t ht hd e hm
    · rw [hsame i hic] at hm; exact p2 i hi hit hm

theorem LInv.after_erase {w : World} (h : LInv w) (i : Nat) : LInv { w with pending := w.pending.eraseIdx i } :=
  ⟨h.ldPos, h.chainLt, fun t ht => h.pendHead t (mem_eraseIdx_of ht)⟩

theorem runTask_linv {ex : Prog → Gid → CtxId → World → Outcome × World} (ihs : ExecOK ex) (ih : ExecL ex) {w : World} {i : Nat}
    {t : Task} (hinv : Inv w) (hl : LInv w) (ht : w.pending[i]? = some t) :
    LInv (runTask .now ex t { w with pending := w.pending.eraseIdx i }) := by
  have htm : t ∈ w.pending := mem_of_getElem? ht
  have hgn : t.gid ∉ pendGids { w with pending := w.pending.eraseIdx i } :=
    key_not_mem_eraseIdx (fun x : Task => x.gid) w.pending i t hinv.pendNodup ht
  have hcn : t.ctx ∉ pendCtxs { w with pending := w.pending.eraseIdx i } :=
    key_not_mem_eraseIdx (fun x : Task => x.ctx) w.pending i t hinv.pendCtxNodup ht
  have hinv0 : Inv { w with pending := w.pending.eraseIdx i } :=
    ⟨hinv.tlsFresh, fun t' h' => hinv.pendNone t' (mem_eraseIdx_of h'), fun t' h' => hinv.pendLt t' (mem_eraseIdx_of h'),
     nodup_map_eraseIdx _ _ _ hinv.pendNodup, hinv.hasKey, hinv.estabLt,
     fun t' h' => hinv.pendCtxLt t' (mem_eraseIdx_of h'), nodup_map_eraseIdx _ _ _ hinv.pendCtxNodup,
     fun t' h' => hinv.pendNotEstab t' (mem_eraseIdx_of h'), hinv.estabUniq⟩
  have hl0 := hl.after_erase i
  generalize hw0 : ({ w with pending := w.pending.eraseIdx i } : World) = w0 at hgn hcn hinv0 hl0
  have e1 : w0.nextGid = w.nextGid := by rw [← hw0]
  have e2 : w0.nextCtx = w.nextCtx := by rw [← hw0]
  have e3 : w0.estab = w.estab := by rw [← hw0]
  have hgl : t.gid < w0.nextGid := by rw [e1]; exact hinv.pendLt t htm
  have hcl : t.ctx < w0.nextCtx := by rw [e2]; exact hinv.pendCtxLt t htm
  have hne : ∀ g', (g', t.ctx) ∉ w0.estab := by rw [e3]; exact hinv.pendNotEstab t htm
  have s1 : Step none w0 (tlFresh t.gid t.ctx w0) := tlFresh_step hinv0 hgl hgn
  have s2 := note_step (g := t.gid) s1.inv hcl hcn hne
  have s3 := setTag_step (c := t.ctx) (x := 1000 + t.gid) s2.inv
  have hpre : Pre t.gid t.ctx (setTag t.ctx (1000 + t.gid) (note t.gid t.ctx (tlFresh t.gid t.ctx w0))) :=
    { inv := s3.inv
      cur := by simp [tlGet, setTag, ctxUpd, note, tlFresh, aget]
      glt := hgl
      gnp := hgn
      est := by simp [setTag, ctxUpd, note] }
  have hl3 : LInv (setTag t.ctx (1000 + t.gid) (note t.gid t.ctx (tlFresh t.gid t.ctx w0))) :=
    LInv.ctxUpd_keep (w := note t.gid t.ctx (tlFresh t.gid t.ctx w0)) (hl0.of_same rfl rfl rfl rfl) t.ctx
      (fun y => { y with tag := some (1000 + t.gid) }) (fun _ => rfl)
  have hlb := ih t.prog t.gid t.ctx _ hpre hl3
  rw [runTask_now]
  exact hlb.of_same rfl rfl rfl rfl

theorem yield_linv {ex : Prog → Gid → CtxId → World → Outcome × World} (ihs : ExecOK ex) (ih : ExecL ex) {w : World}
    (hinv : Inv w) (hl : LInv w) : LInv (yield .now ex w) := by
  unfold yield
  split
  · exact hl
  · rename_i d s hs
    have s1 : Step none w { w with sched := s } :=
      Step.of_same hinv rfl rfl rfl rfl rfl (logOK_same rfl rfl) (fun _ _ => rfl)
    simp only
    split
    · exact hl.of_same rfl rfl rfl rfl
    · split
      · exact hl.of_same rfl rfl rfl rfl
      · rename_i t ht
        exact runTask_linv ihs ih (w := { w with sched := s }) s1.inv (hl.of_same rfl rfl rfl rfl) ht

/-- the third induction: the loader-chain invariant is preserved by every execution -/
theorem exec_linv : ∀ f, ExecL (exec .now f) := by
  intro f
  induction f with
  | zero => intro p g c w _ hl; exact hl
  | succ f ih =>
    intro p g c w h hl
    have ihs : ExecOK (exec .now f) := exec_step f
    cases p with
    | skip => exact hl
    | leaf l =>
      simp only [exec]
      exact leafStep_linv (yield_linv ihs ih h.inv hl)
    | seq p q =>
      simp only [exec]
      obtain ⟨s1, t1⟩ := ihs p g c w h
      have hl1 := ih p g c w h hl
      split
      · exact ih q g c _ (h.step s1 t1) hl1
      · exact hl1
    | recover p =>
      simp only [exec]
      have hl1 := ih p g c w h hl
      split
      · exact hl1.of_same rfl rfl rfl rfl
      · exact hl1
    | doctx id p =>
      simp only [exec, forkCtx_fst]
      have sF : Step none w (forkCtx c w).2 := forkCtx_step h.inv
      have sV : Step (some w.nextCtx) (forkCtx c w).2 (setTag w.nextCtx id (forkCtx c w).2) := setTag_step sF.inv
      have hlF := hl.after_forkCtx h.inv h.clt h.cnp
      have hlV : LInv (setTag w.nextCtx id (forkCtx c w).2) :=
        hlF.ctxUpd_keep w.nextCtx (fun y => { y with tag := some id }) (fun _ => rfl)
      exact doWithContext_linv (g := g) (cx := w.nextCtx) (w := setTag w.nextCtx id (forkCtx c w).2)
        (body := fun w2 => exec .now f p g w.nextCtx w2)
        sV.inv h.glt h.gnp (Nat.lt_succ_self _) (ctx_fresh_not_pend h.inv) (fun g' => ctx_fresh_not_estab h.inv g') hlV
        (fun w1 hp hl1 => ih p g w.nextCtx w1 hp hl1)
    | dodo id p =>
      simp only [exec]
      exact doDo_linv (id := id) (ctch := false) (body := fun cx w1 => exec .now f p g cx w1) h.inv h.glt h.gnp hl
        (fun cx w1 hp hl1 => ih p g cx w1 hp hl1)
    | dotry id p =>
      simp only [exec]
      exact doDo_linv (id := id) (ctch := true) (body := fun cx w1 => exec .now f p g cx w1) h.inv h.glt h.gnp hl
        (fun cx w1 hp hl1 => ih p g cx w1 hp hl1)
    | doloader p =>
      simp only [exec]
      have s1 : Step none w (newLoader w).2 := newLoader_step h.inv
      have s2 : Step (some c) (newLoader w).2
          (ctxUpd c (fun y => { y with loader := (newLoader w).1 :: (w.ctxs c).loader }) (newLoader w).2) := ctxUpd_step s1.inv
      have s12 := (s1.weaken (x := some c)).trans s2 (fun _ _ h => h)
      have hpre2 := h.step s12 rfl
      have hl1 := hl.after_newLoader
      have hl2 : LInv (ctxUpd c (fun y => { y with loader := (newLoader w).1 :: (w.ctxs c).loader }) (newLoader w).2) := by
        refine hl1.after_setLoader (c := c) h.cnp _ ?_ ?_
        · intro l hm
          simp only [List.mem_cons] at hm
          rcases hm with hm | hm
          · rw [hm]; exact Nat.lt_succ_self _
          · exact Nat.lt_succ_of_lt (hl.chainLt c h.clt l hm)
        · intro t ht hd e hm
          have ht' : t ∈ w.pending := ht
          have e' : headOf w t.ctx = some hd := e
          simp only [List.mem_cons] at hm
          rcases hm with hm | hm
          · have := headOf_lt hl h.inv ht' e'
            rw [hm] at this; exact Nat.lt_irrefl _ this
          · obtain ⟨hd', e2, _, p2⟩ := hl.pendHead t ht'
            rw [e'] at e2; cases e2
            apply p2 c h.clt ?_ hm
            intro hct
            exact h.cnp (by simp only [pendCtxs, List.mem_map]; exact ⟨t, ht', hct.symm⟩)
      have hl3 := ih p g c _ hpre2 hl2
      obtain ⟨F, tF, _⟩ := exec_full f p g c _ hpre2
      have hpre3 := hpre2.step F.s tF
      generalize hr : exec .now f p g c
        (ctxUpd c (fun y => { y with loader := (newLoader w).1 :: (w.ctxs c).loader }) (newLoader w).2) = r at hl3 F hpre3
      refine hl3.after_setLoader (c := c) hpre3.cnp _ ?_ ?_
      · intro l hm
        have h1 := hl.chainLt c h.clt l hm
        have h2 : w.nextLoader + 1 ≤ r.2.nextLoader := F.d.ldMono
        exact Nat.lt_of_lt_of_le h1 (Nat.le_trans (Nat.le_succ _) h2)
      · intro t ht hd e hm
        rcases F.d.newHeads t ht with hold | ⟨l, hl', hge⟩
        · have hold' : t ∈ w.pending := hold
          have hctx := F.pend_ctx hold ht
          have e0 : headOf w t.ctx = some hd := by
            have hne : t.ctx ≠ c := by
              intro hc
              exact h.cnp (by simp only [pendCtxs, List.mem_map]; exact ⟨t, hold', hc⟩)
            have : headOf r.2 t.ctx = headOf w t.ctx := by
              simp only [headOf, hctx]
              simp [ctxUpd, newLoader, hne]
            rw [← this]; exact e
          obtain ⟨hd', e2, _, p2⟩ := hl.pendHead t hold'
          rw [e0] at e2; cases e2
          apply p2 c h.clt ?_ hm
          intro hct
          exact h.cnp (by simp only [pendCtxs, List.mem_map]; exact ⟨t, hold', hct.symm⟩)
        · rw [e] at hl'; cases hl'
          have h1 := hl.chainLt c h.clt hd hm
          have h2 : w.nextLoader + 1 ≤ hd := hge
          exact absurd h1 (Nat.not_lt.mpr (Nat.le_trans (Nat.le_succ _) h2))
    | fork p =>
      simp only [exec]
      exact hl.after_spawn h.inv p h.clt h.cnp
    | go p =>
      simp only [exec, h.cur]
      exact hl.after_spawn h.inv p h.clt h.cnp

end Pcore.Tls
