import Pcore.Proofs.ValueEqTy
import Pcore.Proofs.ValueEqVerStr
import Pcore.Proofs.ValueEqObj
import Mathlib.Data.List.Perm.Subperm
/-! Helper lemmas for C07: the hypotheses of the property theorems (`Comparable`), an induction principle for `Val`,
    and `veq` is an equivalence relation on comparable values. -/
namespace Pcore.ValueEq

/-! ## the hypotheses -/

def distinctB : List Bytes → Bool
  | [] => true
  | x :: xs => !xs.contains x && distinctB xs

/-- the key bytes under which the entries of a hash are indexed -/
def keysOf (es : List (Val × Val)) : List Bytes := es.map fun e => kb e.1

mutual
/-- `Comparable`: the values the property speaks about — integers are int64, floats are 64 bits and not NaN, no
    Sensitive anywhere (the property's two stated exceptions), and every Hash is a well-formed map: no two of its
    entries are indexed under the same key bytes -/
def cmp : Val → Bool
  | .int i => minInt ≤ i && i ≤ maxInt
  | .float b => b < 18446744073709551616 && !fIsNaN b
  | .sensitive _ => false
  | .array vs => cmpL vs
  | .hash es => cmpE es && distinctB (es.map fun e => kb e.1)
  | .entry k v => cmp k && cmp v
  | .typ t => TyWF t
  | .timespan n => minInt ≤ n && n ≤ maxInt
  | .timestamp a b => (minInt ≤ a && a ≤ maxInt) && (minInt ≤ b && b ≤ maxInt)
  | .semver v => verOk v      -- as `NewVersion3` makes it: Go ints, parts that match the part patterns
  | .vrange _ rs => rs.all arOk   -- whatever string it was parsed from
  | .tname _ _ _ => false     -- no hash key at all: `EqComparable` only
  | .deferred _ _ => false
  | .param _ _ _ _ _ => false
  | .obj _ _ => false
  | _ => true
def cmpL : List Val → Bool
  | [] => true
  | v :: vs => cmp v && cmpL vs
def cmpE : List (Val × Val) → Bool
  | [] => true
  | (k, v) :: es => cmp k && cmp v && cmpE es
end

def Comparable (x : Val) : Prop := cmp x = true

instance (x : Val) : Decidable (Comparable x) := inferInstanceAs (Decidable (cmp x = true))

mutual
/-- `EqComparable`: the values the EQUIVALENCE clauses of the property speak about.  It is `Comparable` without the demand
    that the value has a hash key: a TypedName, a Deferred, a Parameter (`px.ToKey` reports `INVALID_MAP_KEY` for them, by
    design) and every SemVer / SemVerRange are inside; the keys of a Hash must still be keyable (else the Hash cannot be
    built) -/
def ecmp : Val → Bool
  | .int i => minInt ≤ i && i ≤ maxInt
  | .float b => b < 18446744073709551616 && !fIsNaN b
  | .sensitive _ => false
  | .array vs => ecmpL vs
  | .hash es => ecmpE es && distinctB (es.map fun e => kb e.1)
  | .entry k v => ecmp k && ecmp v
  | .typ t => TyWF t
  | .timespan n => minInt ≤ n && n ≤ maxInt
  | .timestamp a b => (minInt ≤ a && a ≤ maxInt) && (minInt ≤ b && b ≤ maxInt)
  | .deferred _ as => ecmpL as
  | .param _ t _ v _ => TyWF t && ecmp v
  | .obj t vs => objWF t vs && ecmpL vs     -- an instance as `px.New` makes it (unique attribute names, one value each)
  | _ => true
def ecmpL : List Val → Bool
  | [] => true
  | v :: vs => ecmp v && ecmpL vs
def ecmpE : List (Val × Val) → Bool
  | [] => true
  | (k, v) :: es => (keyable k && ecmp k) && ecmp v && ecmpE es
end

def EqComparable (x : Val) : Prop := ecmp x = true

instance (x : Val) : Decidable (EqComparable x) := inferInstanceAs (Decidable (ecmp x = true))

theorem ecmpL_mem : ∀ {vs : List Val}, ecmpL vs = true → ∀ v ∈ vs, ecmp v = true
  | [], _, _, h => by simp at h
  | w :: ws, h, v, hv => by
      simp only [ecmpL, Bool.and_eq_true] at h
      rcases List.mem_cons.mp hv with e | hv
      · rw [e]; exact h.1
      · exact ecmpL_mem h.2 v hv

theorem ecmpE_mem : ∀ {es : List (Val × Val)}, ecmpE es = true → ∀ e ∈ es, ecmp e.1 = true ∧ ecmp e.2 = true
  | [], _, _, h => by simp at h
  | (k, v) :: es, h, e, he => by
      simp only [ecmpE, Bool.and_eq_true] at h
      rcases List.mem_cons.mp he with e' | he
      · rw [e']; exact ⟨h.1.1.2, h.1.2⟩
      · exact ecmpE_mem h.2 e he

theorem cmpL_mem : ∀ {vs : List Val}, cmpL vs = true → ∀ v ∈ vs, cmp v = true
  | [], _, _, h => by simp at h
  | w :: ws, h, v, hv => by
      simp only [cmpL, Bool.and_eq_true] at h
      rcases List.mem_cons.mp hv with e | hv
      · rw [e]; exact h.1
      · exact cmpL_mem h.2 v hv

theorem cmpE_mem : ∀ {es : List (Val × Val)}, cmpE es = true → ∀ e ∈ es, cmp e.1 = true ∧ cmp e.2 = true
  | [], _, _, h => by simp at h
  | (k, v) :: es, h, e, he => by
      simp only [cmpE, Bool.and_eq_true] at h
      rcases List.mem_cons.mp he with e' | he
      · rw [e']; exact h.1
      · exact cmpE_mem h.2 e he

theorem distinctB_nodup : ∀ {l : List Bytes}, distinctB l = true → l.Nodup
  | [], _ => List.nodup_nil
  | x :: xs, h => by
      simp only [distinctB, Bool.and_eq_true, Bool.not_eq_true', List.contains_eq_mem, decide_eq_false_iff_not] at h
      exact List.nodup_cons.mpr ⟨h.1, distinctB_nodup h.2⟩

/-! ## an induction principle over the nested inductive -/

section ind
set_option linter.unusedSectionVars false
variable {P : Val → Prop}
  (hundef : P .undef) (hdflt : P .dflt) (hbool : ∀ b, P (.bool b)) (hint : ∀ i, P (.int i))
  (hfloat : ∀ b, P (.float b)) (hstr : ∀ s, P (.str s)) (hregexp : ∀ s, P (.regexp s)) (hbinary : ∀ s, P (.binary s))
  (harray : ∀ vs, (∀ v ∈ vs, P v) → P (.array vs))
  (hhash : ∀ es : List (Val × Val), (∀ e ∈ es, P e.1 ∧ P e.2) → P (.hash es))
  (hentry : ∀ k v, P k → P v → P (.entry k v))
  (hsens : ∀ v, P v → P (.sensitive v)) (htyp : ∀ t, P (.typ t))
  (htspan : ∀ n, P (.timespan n)) (htstamp : ∀ a b, P (.timestamp a b))
  (huri : ∀ s, P (.uri s)) (hsemver : ∀ v, P (.semver v)) (hvrange : ∀ o rs, P (.vrange o rs))
  (htname : ∀ a n m, P (.tname a n m)) (hdeferred : ∀ n as, (∀ v ∈ as, P v) → P (.deferred n as))
  (hparam : ∀ n t h v c, P v → P (.param n t h v c)) (hobj : ∀ t vs, (∀ v ∈ vs, P v) → P (.obj t vs))
include hundef hdflt hbool hint hfloat hstr hregexp hbinary harray hhash hentry hsens htyp htspan htstamp
  huri hsemver hvrange htname hdeferred hparam hobj

mutual
theorem Val.ind : ∀ x : Val, P x
  | .undef => hundef | .dflt => hdflt | .bool b => hbool b | .int i => hint i | .float b => hfloat b
  | .str s => hstr s | .regexp s => hregexp s | .binary s => hbinary s
  | .array vs => harray vs (Val.indL vs)
  | .hash es => hhash es (Val.indE es)
  | .entry k v => hentry k v (Val.ind k) (Val.ind v)
  | .sensitive v => hsens v (Val.ind v)
  | .typ t => htyp t
  | .timespan n => htspan n
  | .timestamp a b => htstamp a b
  | .uri s => huri s
  | .semver v => hsemver v
  | .vrange o rs => hvrange o rs
  | .tname a n m => htname a n m
  | .deferred n as => hdeferred n as (Val.indL as)
  | .param n t h v c => hparam n t h v c (Val.ind v)
  | .obj t vs => hobj t vs (Val.indL vs)
theorem Val.indL : ∀ vs : List Val, ∀ v ∈ vs, P v
  | [], _, h => by simp at h
  | w :: ws, v, hv => by
      rcases List.mem_cons.mp hv with e | hv
      · rw [e]; exact Val.ind w
      · exact Val.indL ws v hv
theorem Val.indE : ∀ es : List (Val × Val), ∀ e ∈ es, P e.1 ∧ P e.2
  | [], _, h => by simp at h
  | (k, v) :: es, e, he => by
      rcases List.mem_cons.mp he with e' | he
      · rw [e']; exact ⟨Val.ind k, Val.ind v⟩
      · exact Val.indE es e he
end
end ind

/-! ## arrays and hash entries are the same thing to `Equals` and `ToKey` -/

/-- the element sequence of an Array, or of a HashEntry seen as the array `[key, value]` -/
def elems : Val → Option (List Val)
  | .array vs => some vs
  | .entry k v => some [k, v]
  | _ => none

theorem veq_elems {x y : Val} {vs ws : List Val} (hx : elems x = some vs) (hy : elems y = some ws) :
    veq x y = (vs.length == ws.length && veqL vs ws) := by
  cases x <;> simp [elems] at hx <;> cases y <;> simp [elems] at hy <;> subst hx <;> subst hy
  · simp [veq]
  · simp [veq]
  · rename_i k v ws
    simp only [veq]
    match ws with
    | [] => simp
    | [_] => simp
    | [_, _] => simp [veqL]
    | _ :: _ :: _ :: _ => simp
  · simp [veq, veqL]

theorem veq_elems_none_right {x y : Val} {vs : List Val} (hx : elems x = some vs) (hy : elems y = none) :
    veq x y = false := by
  cases x <;> simp [elems] at hx <;> cases y <;> simp [elems] at hy <;> simp [veq]

theorem veq_elems_none_left {x y : Val} {ws : List Val} (hx : elems x = none) (hy : elems y = some ws) :
    veq x y = false := by
  cases y <;> simp [elems] at hy <;> cases x <;> simp [elems] at hx <;> simp [veq]

theorem cmp_elems {x : Val} {vs : List Val} (hx : elems x = some vs) : cmp x = cmpL vs := by
  cases x <;> simp [elems] at hx <;> subst hx <;> simp [cmp, cmpL]

theorem ecmp_elems {x : Val} {vs : List Val} (hx : elems x = some vs) : ecmp x = ecmpL vs := by
  cases x <;> simp [elems] at hx <;> subst hx <;> simp [ecmp, ecmpL]

/-! ## the hash index -/

theorem lookupLast_some {kbs : Bytes} : ∀ {es : List (Val × Val)} {e : Val × Val},
    lookupLast kbs es = some e → e ∈ es ∧ kb e.1 = kbs
  | [], _, h => by simp [lookupLast] at h
  | e' :: es, e, h => by
      simp only [lookupLast] at h
      cases h' : lookupLast kbs es with
      | some r =>
        rw [h'] at h
        simp only [Option.some.injEq] at h
        subst h
        exact ⟨List.mem_cons_of_mem _ (lookupLast_some h').1, (lookupLast_some h').2⟩
      | none =>
        rw [h'] at h
        simp only at h
        split at h
        · rename_i hk
          simp only [Option.some.injEq] at h
          subst h
          exact ⟨List.mem_cons_self, by simpa using hk⟩
        · cases h

theorem lookupLast_none {kbs : Bytes} : ∀ {es : List (Val × Val)},
    lookupLast kbs es = none → ∀ e ∈ es, kb e.1 ≠ kbs
  | [], _, _, he => by simp at he
  | e' :: es, h, e, he => by
      simp only [lookupLast] at h
      cases h' : lookupLast kbs es with
      | some r => rw [h'] at h; cases h
      | none =>
        rw [h'] at h
        simp only at h
        split at h
        · cases h
        · rename_i hk
          rcases List.mem_cons.mp he with e1 | he
          · rw [e1]; simpa using hk
          · exact lookupLast_none h' e he

/-- in a hash without repeated key bytes the index finds every entry under its own key -/
theorem lookupLast_mem : ∀ {es : List (Val × Val)} {e : Val × Val},
    (keysOf es).Nodup → e ∈ es → lookupLast (kb e.1) es = some e
  | [], _, _, he => by simp at he
  | e' :: es, e, hd, he => by
      simp only [keysOf, List.map_cons, List.nodup_cons] at hd
      simp only [lookupLast]
      rcases List.mem_cons.mp he with e1 | he
      · subst e1
        cases h' : lookupLast (kb e.1) es with
        | some r =>
          exfalso
          have := lookupLast_some h'
          exact hd.1 (List.mem_map.mpr ⟨r, this.1, this.2⟩)
        | none => simp
      · rw [lookupLast_mem (es := es) hd.2 he]

theorem shadowed_false {k v : Val} {es : List (Val × Val)} (hd : (keysOf ((k, v) :: es)).Nodup) :
    shadowed k es = false := by
  simp only [keysOf, List.map_cons, List.nodup_cons] at hd
  simp only [shadowed, List.any_eq_false, beq_iff_eq]
  intro e he h
  exact hd.1 (List.mem_map.mpr ⟨e, he, h⟩)

/-- `Hash.Equals` on a receiver without repeated key bytes: every entry finds, under its key bytes, an entry of the
    argument that it equals -/
theorem veqE_iff : ∀ {es fs : List (Val × Val)}, (keysOf es).Nodup →
    (veqE es fs = true ↔ ∀ e ∈ es, ∃ e', lookupLast (kb e.1) fs = some e' ∧ veq e.1 e'.1 = true ∧ veq e.2 e'.2 = true)
  | [], fs, _ => by simp [veqE]
  | (k, v) :: es, fs, hd => by
      have hd' : (keysOf es).Nodup := by
        simp only [keysOf, List.map_cons, List.nodup_cons] at hd; exact hd.2
      simp only [veqE, shadowed_false hd, Bool.false_eq_true, if_false, Bool.and_eq_true, veqE_iff hd',
        List.mem_cons, forall_eq_or_imp]
      apply and_congr_left'
      cases lookupLast (kb k) fs with
      | none => simp
      | some r => obtain ⟨k', v'⟩ := r; simp

theorem cmp_hash {es : List (Val × Val)} (h : cmp (.hash es) = true) : cmpE es = true ∧ (keysOf es).Nodup := by
  simp only [cmp, Bool.and_eq_true] at h
  exact ⟨h.1, distinctB_nodup h.2⟩

theorem ecmp_hash {es : List (Val × Val)} (h : ecmp (.hash es) = true) : ecmpE es = true ∧ (keysOf es).Nodup := by
  simp only [ecmp, Bool.and_eq_true] at h
  exact ⟨h.1, distinctB_nodup h.2⟩

/-! ## reflexivity -/

theorem veqL_refl_of : ∀ {vs : List Val}, (∀ v ∈ vs, ecmp v = true → veq v v = true) → ecmpL vs = true → veqL vs vs = true
  | [], _, _ => by simp [veqL]
  | v :: vs, ih, h => by
      simp only [ecmpL, Bool.and_eq_true] at h
      simp only [veqL, Bool.and_eq_true]
      exact ⟨ih v List.mem_cons_self h.1, veqL_refl_of (fun w hw => ih w (List.mem_cons_of_mem _ hw)) h.2⟩

theorem veq_refl_e : ∀ x : Val, ecmp x = true → veq x x = true := by
  apply Val.ind
  · intro _; simp [veq]
  · intro _; simp [veq]
  · intro b _; simp [veq]
  · intro i _; simp [veq]
  · intro b h
    simp only [ecmp, Bool.and_eq_true, Bool.not_eq_true'] at h
    simp [veq, feq_refl h.2]
  · intro s _; simp [veq]
  · intro s _; simp [veq]
  · intro s _; simp [veq]
  · intro vs ih h
    simp only [ecmp] at h
    simp [veq, veqL_refl_of ih h]
  · intro es ih h
    obtain ⟨hc, hd⟩ := ecmp_hash h
    simp only [veq, beq_self_eq_true, Bool.true_and]
    rw [veqE_iff hd]
    intro e he
    exact ⟨e, lookupLast_mem hd he, (ih e he).1 (ecmpE_mem hc e he).1, (ih e he).2 (ecmpE_mem hc e he).2⟩
  · intro k v ihk ihv h
    simp only [ecmp, Bool.and_eq_true] at h
    simp [veq, ihk h.1, ihv h.2]
  · intro v _ h; simp [ecmp] at h
  · intro t h
    simp only [ecmp] at h
    simp [veq, tyEq_refl t h]
  · intro n _; simp [veq]
  · intro a b _; simp [veq]
  · intro s _; simp [veq]
  · intro v _; simp [veq, verEq_iff]
  · intro o rs _; simp [veq, rangesEq_iff]
  · intro a n m _; simp [veq]
  · intro n as ih h
    simp only [ecmp] at h
    simp [veq, veqL_refl_of ih h]
  · intro n t hv v c ih h
    simp only [ecmp, Bool.and_eq_true] at h
    simp [veq, tyEq_refl t h.1, ih h.2]
  · intro t vs ih h
    simp only [ecmp, Bool.and_eq_true] at h
    have hx := objWF_spec h.1
    rw [veq_obj_view hx hx]
    refine ⟨by simp [objPre], fun n v hm => ⟨v, hm, ?_⟩⟩
    obtain ⟨i, _, _, hv⟩ := mem_eqView.mp hm
    have hvm : v ∈ vs := List.mem_of_getElem? hv
    exact ih v hvm (ecmpL_mem h.2 v hvm)

/-! ## symmetry -/

theorem veqL_symm_of : ∀ {vs ws : List Val},
    (∀ v ∈ vs, ∀ y, ecmp v = true → ecmp y = true → veq v y = veq y v) → ecmpL vs = true → ecmpL ws = true →
    vs.length = ws.length → veqL vs ws = veqL ws vs
  | [], [], _, _, _, _ => rfl
  | [], _ :: _, _, _, _, h => by simp at h
  | _ :: _, [], _, _, _, h => by simp at h
  | v :: vs, w :: ws, ih, hv, hw, hl => by
      simp only [ecmpL, Bool.and_eq_true] at hv hw
      simp only [veqL]
      rw [ih v List.mem_cons_self w hv.1 hw.1,
        veqL_symm_of (fun u hu => ih u (List.mem_cons_of_mem _ hu)) hv.2 hw.2 (by simpa using hl)]

/-- one direction of the symmetry of `Hash.Equals`; the counting argument: an injection between two key sets of the
    same size is onto -/
theorem veqE_swap {es fs : List (Val × Val)} (hes : (keysOf es).Nodup) (hfs : (keysOf fs).Nodup)
    (hl : es.length = fs.length)
    (sw : ∀ e ∈ es, ∀ e' ∈ fs, veq e.1 e'.1 = true → veq e.2 e'.2 = true → veq e'.1 e.1 = true ∧ veq e'.2 e.2 = true)
    (h : veqE es fs = true) : veqE fs es = true := by
  rw [veqE_iff hes] at h
  rw [veqE_iff hfs]
  have sub : keysOf es ⊆ keysOf fs := by
    intro kbs hk
    obtain ⟨e, he, rfl⟩ := List.mem_map.mp hk
    obtain ⟨e', h1, _⟩ := h e he
    exact List.mem_map.mpr ⟨e', (lookupLast_some h1).1, (lookupLast_some h1).2⟩
  have perm : (keysOf es).Perm (keysOf fs) :=
    (List.subperm_of_subset hes sub).perm_of_length_le (by simp [keysOf, hl])
  intro e' he'
  have : kb e'.1 ∈ keysOf es := perm.symm.subset (List.mem_map.mpr ⟨e', he', rfl⟩)
  obtain ⟨e, he, hk⟩ := List.mem_map.mp this
  obtain ⟨e'', h1, h2, h3⟩ := h e he
  have : e'' = e' := by
    have := lookupLast_mem hfs he'
    rw [← hk, h1] at this
    exact Option.some.inj this
  subst this
  refine ⟨e, ?_, sw e he e'' he' h2 h3⟩
  rw [← hk]; exact lookupLast_mem hes he

theorem veq_symm_e : ∀ x y : Val, ecmp x = true → ecmp y = true → veq x y = veq y x := by
  have seq : ∀ (x : Val) (vs : List Val), elems x = some vs →
      (∀ v ∈ vs, ∀ y, ecmp v = true → ecmp y = true → veq v y = veq y v) →
      ∀ y, ecmp x = true → ecmp y = true → veq x y = veq y x := by
    intro x vs hx ih y cx cy
    cases hy : elems y with
    | none => rw [veq_elems_none_right hx hy, veq_elems_none_left hy hx]
    | some ws =>
      rw [veq_elems hx hy, veq_elems hy hx, beq_swap vs.length ws.length]
      cases hl : (ws.length == vs.length)
      · simp
      · rw [ecmp_elems hx] at cx
        rw [ecmp_elems hy] at cy
        simp only [Bool.true_and]
        have hl' : ws.length = vs.length := by simpa using hl
        exact veqL_symm_of ih cx cy hl'.symm
  apply Val.ind
  · intro y _ _; cases y <;> simp [veq]
  · intro y _ _; cases y <;> simp [veq]
  · intro b y _ _; cases y <;> simp [veq, beq_swap b]
  · intro i y _ _; cases y <;> simp [veq, beq_swap i]
  · intro b y _ _; cases y <;> simp [veq, feq_comm b]
  · intro s y _ _; cases y <;> simp [veq, beq_swap s]
  · intro s y _ _; cases y <;> simp [veq, beq_swap s]
  · intro s y _ _; cases y <;> simp [veq, beq_swap s]
  · intro vs ih; exact seq (.array vs) vs rfl ih
  · intro es ih y cx cy
    cases y <;> try simp [veq]
    rename_i fs
    obtain ⟨hc, hd⟩ := ecmp_hash cx
    obtain ⟨hc', hd'⟩ := ecmp_hash cy
    rw [beq_swap es.length fs.length]
    cases hl : (fs.length == es.length)
    · simp
    · have hl' : fs.length = es.length := by simpa using hl
      simp only [Bool.true_and]
      have sw1 : ∀ e ∈ es, ∀ e' ∈ fs, veq e.1 e'.1 = true → veq e.2 e'.2 = true →
          veq e'.1 e.1 = true ∧ veq e'.2 e.2 = true := by
        intro e he e' he' h1 h2
        rw [← (ih e he).1 e'.1 (ecmpE_mem hc e he).1 (ecmpE_mem hc' e' he').1,
          ← (ih e he).2 e'.2 (ecmpE_mem hc e he).2 (ecmpE_mem hc' e' he').2]
        exact ⟨h1, h2⟩
      have sw2 : ∀ e' ∈ fs, ∀ e ∈ es, veq e'.1 e.1 = true → veq e'.2 e.2 = true →
          veq e.1 e'.1 = true ∧ veq e.2 e'.2 = true := by
        intro e' he' e he h1 h2
        rw [(ih e he).1 e'.1 (ecmpE_mem hc e he).1 (ecmpE_mem hc' e' he').1,
          (ih e he).2 e'.2 (ecmpE_mem hc e he).2 (ecmpE_mem hc' e' he').2]
        exact ⟨h1, h2⟩
      cases h1 : veqE es fs
      · cases h2 : veqE fs es
        · rfl
        · rw [veqE_swap hd' hd hl' sw2 h2] at h1; cases h1
      · exact (veqE_swap hd hd' hl'.symm sw1 h1).symm
  · intro k v ihk ihv
    refine seq (.entry k v) [k, v] rfl ?_
    intro w hw
    simp only [List.mem_cons, List.not_mem_nil, or_false] at hw
    rcases hw with e | e
    · rw [e]; exact ihk
    · rw [e]; exact ihv
  · intro v _ y h; simp [ecmp] at h
  · intro t y _ _; cases y <;> simp [veq]
    exact tyEq_symm _ _
  · intro n y _ _; cases y <;> simp [veq, beq_swap (tsSecs n)]
  · intro a b y _ _; cases y <;> simp [veq, beq_swap a, beq_swap b]
  · intro s y _ _; cases y <;> simp [veq, beq_swap s]
  · intro v y _ _; cases y <;> simp [veq, verEq_comm v]
  · intro o rs y _ _; cases y <;> simp [veq, rangesEq_comm rs]
  · intro a n m y _ _; cases y <;> simp [veq, beq_swap (mapKey a n m)]
  · intro n as ih y cx cy
    cases y <;> try simp [veq]
    rename_i n' as'
    simp only [ecmp] at cx cy
    rw [beq_swap n n', beq_swap as.length as'.length]
    cases hl : (as'.length == as.length)
    · simp
    · have hl' : as'.length = as.length := by simpa using hl
      rw [veqL_symm_of ih cx cy hl'.symm]
  · intro n t hv v c ih y cx cy
    cases y <;> try simp [veq]
    rename_i n' t' hv' v' c'
    simp only [ecmp, Bool.and_eq_true] at cx cy
    rw [ih v' cx.2 cy.2, tyEq_symm t t', beq_swap n n', beq_swap hv hv', beq_swap c c']
  · intro t vs ih y cx cy
    cases y with
    | obj t' ws => ?_
    | _ => simp [veq]
    simp only [ecmp, Bool.and_eq_true] at cx cy
    have hx := objWF_spec cx.1
    have hy := objWF_spec cy.1
    have sw : ∀ n v w, (n, v) ∈ eqView t vs → (n, w) ∈ eqView t' ws → veq v w = veq w v := by
      intro n v w hv hw
      obtain ⟨i, _, _, hvi⟩ := mem_eqView.mp hv
      obtain ⟨j, _, _, hwj⟩ := mem_eqView.mp hw
      have hvm : v ∈ vs := List.mem_of_getElem? hvi
      have hwm : w ∈ ws := List.mem_of_getElem? hwj
      exact ih v hvm w (ecmpL_mem cx.2 v hvm) (ecmpL_mem cy.2 w hwm)
    apply Bool.eq_iff_iff.mpr
    rw [veq_obj_view hx hy, veq_obj_view hy hx, objPre_symm t' t]
    constructor
    · rintro ⟨hp, hle⟩
      refine ⟨hp, viewLe_symm (eqView_names_nodup hx) (eqView_names_nodup hy) ?_ ?_ hle⟩
      · rw [eqView_length hx, eqView_length hy]; exact objPre_length hp
      · intro n v w hv hw h; rw [← sw n v w hv hw]; exact h
    · rintro ⟨hp, hle⟩
      refine ⟨hp, viewLe_symm (eqView_names_nodup hy) (eqView_names_nodup hx) ?_ ?_ hle⟩
      · rw [eqView_length hx, eqView_length hy]; exact (objPre_length hp).symm
      · intro n w v hw hv h; rw [sw n v w hv hw]; exact h

/-! ## transitivity -/

theorem veqL_trans_of : ∀ {vs ws us : List Val},
    (∀ v ∈ vs, ∀ y z, ecmp v = true → ecmp y = true → veq v y = true → veq y z = true → veq v z = true) →
    ecmpL vs = true → ecmpL ws = true → veqL vs ws = true → veqL ws us = true → veqL vs us = true
  | [], _, _, _, _, _, _, _ => by simp [veqL]
  | v :: vs, ws, us, ih, cv, cw, h1, h2 => by
      cases ws with
      | nil => simp [veqL] at h1
      | cons w ws =>
        cases us with
        | nil => simp [veqL] at h2
        | cons u us =>
          simp only [veqL, Bool.and_eq_true, ecmpL] at h1 h2 cv cw ⊢
          exact ⟨ih v List.mem_cons_self w u cv.1 cw.1 h1.1 h2.1,
            veqL_trans_of (fun x hx => ih x (List.mem_cons_of_mem _ hx)) cv.2 cw.2 h1.2 h2.2⟩

theorem veq_trans_e : ∀ x y z : Val, ecmp x = true → ecmp y = true → veq x y = true → veq y z = true → veq x z = true := by
  have seq : ∀ (x : Val) (vs : List Val), elems x = some vs →
      (∀ v ∈ vs, ∀ y z, ecmp v = true → ecmp y = true → veq v y = true → veq y z = true → veq v z = true) →
      ∀ y z, ecmp x = true → ecmp y = true → veq x y = true → veq y z = true → veq x z = true := by
    intro x vs hx ih y z cx cy h1 h2
    cases hy : elems y with
    | none => rw [veq_elems_none_right hx hy] at h1; cases h1
    | some ws =>
      cases hz : elems z with
      | none => rw [veq_elems_none_right hy hz] at h2; cases h2
      | some us =>
        rw [veq_elems hx hy] at h1
        rw [veq_elems hy hz] at h2
        rw [veq_elems hx hz]
        simp only [Bool.and_eq_true, beq_iff_eq] at h1 h2 ⊢
        rw [ecmp_elems hx] at cx
        rw [ecmp_elems hy] at cy
        exact ⟨h1.1.trans h2.1, veqL_trans_of ih cx cy h1.2 h2.2⟩
  apply Val.ind
  · intro y z _ _; cases y <;> simp [veq]
  · intro y z _ _; cases y <;> simp [veq]
  · intro b y z _ _; cases y <;> simp [veq]; intro h; subst h; exact id
  · intro i y z _ _; cases y <;> simp [veq]; intro h; subst h; exact id
  · intro b y z _ _; cases y <;> simp [veq]
    intro h1; cases z <;> simp [veq]
    exact feq_trans h1
  · intro s y z _ _; cases y <;> simp [veq]; intro h; subst h; exact id
  · intro s y z _ _; cases y <;> simp [veq]; intro h; subst h; exact id
  · intro s y z _ _; cases y <;> simp [veq]; intro h; subst h; exact id
  · intro vs ih; exact seq (.array vs) vs rfl ih
  · intro es ih y z cx cy
    cases y <;> try simp [veq]
    rename_i fs
    cases z <;> try simp [veq]
    rename_i gs
    obtain ⟨hc, hd⟩ := ecmp_hash cx
    obtain ⟨hc', hd'⟩ := ecmp_hash cy
    intro l1 h1 l2 h2
    refine ⟨l1.trans l2, ?_⟩
    rw [veqE_iff hd] at h1 ⊢
    rw [veqE_iff hd'] at h2
    intro e he
    obtain ⟨e', f1, f2, f3⟩ := h1 e he
    have he' := (lookupLast_some f1).1
    obtain ⟨e'', g1, g2, g3⟩ := h2 e' he'
    refine ⟨e'', ?_, ?_, ?_⟩
    · rw [← (lookupLast_some f1).2]; exact g1
    · exact (ih e he).1 e'.1 e''.1 (ecmpE_mem hc e he).1 (ecmpE_mem hc' e' he').1 f2 g2
    · exact (ih e he).2 e'.2 e''.2 (ecmpE_mem hc e he).2 (ecmpE_mem hc' e' he').2 f3 g3
  · intro k v ihk ihv
    refine seq (.entry k v) [k, v] rfl ?_
    intro w hw
    simp only [List.mem_cons, List.not_mem_nil, or_false] at hw
    rcases hw with e | e
    · rw [e]; exact ihk
    · rw [e]; exact ihv
  · intro v _ y z h; simp [ecmp] at h
  · intro t y z _ _; cases y <;> simp [veq]
    intro h1; cases z <;> simp [veq]
    exact tyEq_trans _ _ _ h1
  · intro n y z _ _; cases y <;> simp [veq]
    intro h1; cases z <;> simp [veq]
    exact fun h2 => h1.trans h2
  · intro a b y z _ _; cases y <;> simp [veq]
    intro h1 h2; cases z <;> simp [veq]
    exact fun h3 h4 => ⟨h1.trans h3, h2.trans h4⟩
  · intro s y z _ _; cases y <;> simp [veq]; intro h; subst h; exact id
  · intro v y z _ _; cases y <;> simp [veq, verEq_iff]; intro h; subst h; exact id
  · intro o rs y z _ _; cases y <;> simp [veq, rangesEq_iff]; intro h; subst h; exact id
  · intro a n m y z _ _; cases y <;> simp [veq]
    intro h1; cases z <;> simp [veq]
    exact fun h2 => h1.trans h2
  · intro n as ih y z cx cy
    cases y <;> try simp [veq]
    rename_i n' as'
    cases z <;> try simp [veq]
    rename_i n'' as''
    simp only [ecmp] at cx cy
    intro e1 l1 h1 e2 l2 h2
    exact ⟨e1.trans e2, l1.trans l2, veqL_trans_of ih cx cy h1 h2⟩
  · intro n t hv v c ih y z cx cy
    cases y <;> try simp [veq]
    rename_i n' t' hv' v' c'
    cases z <;> try simp [veq]
    rename_i n'' t'' hv'' v'' c''
    simp only [ecmp, Bool.and_eq_true] at cx cy
    intro e1 e2 e3 h1 h2 f1 f2 f3 g1 g2
    exact ⟨⟨⟨⟨e1.trans f1, e2.trans f2⟩, e3.trans f3⟩, tyEq_trans _ _ _ h1 g1⟩, ih v' v'' cx.2 cy.2 h2 g2⟩
  · intro t vs ih y z cx cy h1 h2
    cases y with
    | obj t' ws =>
      cases z with
      | obj t'' us =>
        simp only [ecmp, Bool.and_eq_true] at cx cy
        exact veq_obj_trans (objWF_spec cx.1) (objWF_spec cy.1)
          (fun v hv w u hw a b => ih v hv w u (ecmpL_mem cx.2 v hv) (ecmpL_mem cy.2 w hw) a b) h1 h2
      | _ => simp [veq] at h2
    | _ => simp [veq] at h1

/-! ## `Comparable` is `EqComparable` plus "has a hash key" -/

theorem keyable_of_cmp : ∀ x : Val, cmp x = true → keyable x = true := by
  have hl : ∀ vs : List Val, (∀ v ∈ vs, cmp v = true → keyable v = true) → cmpL vs = true → keyableL vs = true := by
    intro vs
    induction vs with
    | nil => intros; rfl
    | cons v vs ihl =>
      intro ih h
      simp only [cmpL, Bool.and_eq_true] at h
      simp only [keyableL, Bool.and_eq_true]
      exact ⟨ih v List.mem_cons_self h.1, ihl (fun w hw => ih w (List.mem_cons_of_mem _ hw)) h.2⟩
  have he : ∀ es : List (Val × Val), (∀ e ∈ es, (cmp e.1 = true → keyable e.1 = true) ∧ (cmp e.2 = true → keyable e.2 = true)) →
      cmpE es = true → keyableE es = true := by
    intro es
    induction es with
    | nil => intros; rfl
    | cons e es ihl =>
      intro ih h
      obtain ⟨k, v⟩ := e
      simp only [cmpE, Bool.and_eq_true] at h
      simp only [keyableE, Bool.and_eq_true]
      exact ⟨⟨(ih (k, v) List.mem_cons_self).1 h.1.1, (ih (k, v) List.mem_cons_self).2 h.1.2⟩,
        ihl (fun w hw => ih w (List.mem_cons_of_mem _ hw)) h.2⟩
  apply Val.ind <;> try (intros; rfl)
  · intro vs ih h; simp only [cmp] at h; simp only [keyable]; exact hl vs ih h
  · intro es ih h; simp only [keyable]; exact he es ih (cmp_hash h).1
  · intro k v ihk ihv h
    simp only [cmp, Bool.and_eq_true] at h
    simp [keyable, ihk h.1, ihv h.2]
  · intro v _ h; simp [cmp] at h
  · intro a n m h; simp [cmp] at h
  · intro n as _ h; simp [cmp] at h
  · intro n t hv v c _ h; simp [cmp] at h
  · intro t vs _ h; simp [cmp] at h

theorem ecmp_of_cmp : ∀ x : Val, cmp x = true → ecmp x = true := by
  have hl : ∀ vs : List Val, (∀ v ∈ vs, cmp v = true → ecmp v = true) → cmpL vs = true → ecmpL vs = true := by
    intro vs
    induction vs with
    | nil => intros; rfl
    | cons v vs ihl =>
      intro ih h
      simp only [cmpL, Bool.and_eq_true] at h
      simp only [ecmpL, Bool.and_eq_true]
      exact ⟨ih v List.mem_cons_self h.1, ihl (fun w hw => ih w (List.mem_cons_of_mem _ hw)) h.2⟩
  have he : ∀ es : List (Val × Val), (∀ e ∈ es, (cmp e.1 = true → ecmp e.1 = true) ∧ (cmp e.2 = true → ecmp e.2 = true)) →
      cmpE es = true → ecmpE es = true := by
    intro es
    induction es with
    | nil => intros; rfl
    | cons e es ihl =>
      intro ih h
      obtain ⟨k, v⟩ := e
      simp only [cmpE, Bool.and_eq_true] at h
      simp only [ecmpE, Bool.and_eq_true]
      exact ⟨⟨⟨keyable_of_cmp k h.1.1, (ih (k, v) List.mem_cons_self).1 h.1.1⟩, (ih (k, v) List.mem_cons_self).2 h.1.2⟩,
        ihl (fun w hw => ih w (List.mem_cons_of_mem _ hw)) h.2⟩
  apply Val.ind
  · intro _; rfl
  · intro _; rfl
  · intro _ _; rfl
  · intro i h; exact h
  · intro b h; exact h
  · intro _ _; rfl
  · intro _ _; rfl
  · intro _ _; rfl
  · intro vs ih h; simp only [cmp] at h; simp only [ecmp]; exact hl vs ih h
  · intro es ih h
    simp only [cmp, Bool.and_eq_true] at h
    simp only [ecmp, Bool.and_eq_true]
    exact ⟨he es ih h.1, h.2⟩
  · intro k v ihk ihv h
    simp only [cmp, Bool.and_eq_true] at h
    simp [ecmp, ihk h.1, ihv h.2]
  · intro v _ h; simp [cmp] at h
  · intro t h; exact h
  · intro n h; exact h
  · intro a b h; exact h
  · intro _ _; rfl
  · intro _ _; rfl
  · intro _ _ _; rfl
  · intro a n m h; simp [cmp] at h
  · intro n as _ h; simp [cmp] at h
  · intro n t hv v c _ h; simp [cmp] at h
  · intro t vs _ h; simp [cmp] at h

theorem veq_refl (x : Val) (h : cmp x = true) : veq x x = true := veq_refl_e x (ecmp_of_cmp x h)

theorem veq_symm (x y : Val) (hx : cmp x = true) (hy : cmp y = true) : veq x y = veq y x :=
  veq_symm_e x y (ecmp_of_cmp x hx) (ecmp_of_cmp y hy)

theorem veq_trans (x y z : Val) (hx : cmp x = true) (hy : cmp y = true) (h1 : veq x y = true) (h2 : veq y z = true) :
    veq x z = true := veq_trans_e x y z (ecmp_of_cmp x hx) (ecmp_of_cmp y hy) h1 h2

end Pcore.ValueEq
