import Pcore.Proofs.FormatWidth
/-! The directive grammar: what `parseFormat` accepts is a directive that Go's fmt parses to the same flags, width,
    precision and verb once the container delimiters are filtered out (`GoOK`). -/
namespace Pcore.Format

theorem head_dropWhile {p : Char → Bool} : ∀ (l : Str) (c : Char), (l.dropWhile p).head? = some c → p c = false
  | [], c, h => by simp at h
  | x :: xs, c, h => by
    by_cases hx : p x = true
    · rw [List.dropWhile_cons_of_pos hx] at h; exact head_dropWhile xs c h
    · rw [List.dropWhile_cons_of_neg hx] at h; simp at h; rw [← h]; simpa using hx

theorem takeWhile_append_stop {p : Char → Bool} (a b : Str) (ha : ∀ c ∈ a, p c = true)
    (hb : ∀ c, b.head? = some c → p c = false) : (a ++ b).takeWhile p = a ∧ (a ++ b).dropWhile p = b := by
  rw [List.takeWhile_append_of_pos ha, List.dropWhile_append_of_pos ha]
  cases b with
  | nil => simp
  | cons c cs =>
    have := hb c rfl
    simp [List.takeWhile_cons_of_neg, List.dropWhile_cons_of_neg, this]

theorem mem_takeWhile {p : Char → Bool} : ∀ (l : Str) (c : Char), c ∈ l.takeWhile p → p c = true
  | [], c, h => by simp at h
  | x :: xs, c, h => by
    by_cases hx : p x = true
    · rw [List.takeWhile_cons_of_pos hx] at h
      rcases List.mem_cons.mp h with rfl | h'
      · exact hx
      · exact mem_takeWhile xs c h'
    · rw [List.takeWhile_cons_of_neg hx] at h; simp at h

theorem isDelim_cases (c : Char) (h : isDelim c = true) : c = '[' ∨ c = '{' ∨ c = '<' ∨ c = '(' ∨ c = '|' := by
  have : (((c = '[' ∨ c = '{') ∨ c = '<') ∨ c = '(') ∨ c = '|' := by simpa [isDelim] using h
  tauto

theorem not_delim_of_digit (c : Char) (h : isDigit c = true) : isDelim c = false := by
  cases hd : isDelim c with
  | false => rfl
  | true => rcases isDelim_cases c hd with rfl | rfl | rfl | rfl | rfl <;> revert h <;> decide

theorem not_delim_of_letter (c : Char) (h : isLetter c = true) : isDelim c = false := by
  cases hd : isDelim c with
  | false => rfl
  | true => rcases isDelim_cases c hd with rfl | rfl | rfl | rfl | rfl <;> revert h <;> decide

theorem not_dot_of_letter (c : Char) (h : isLetter c = true) : c ≠ '.' := by
  rintro rfl; revert h; decide

theorem not_digit_of_letter (c : Char) (h : isLetter c = true) : isDigit c = false := by
  simp only [isLetter, isDigit, Bool.or_eq_true, Bool.and_eq_true, decide_eq_true_eq] at h
  cases hd : isDigit c with
  | false => rfl
  | true =>
    simp only [isDigit, Bool.and_eq_true, decide_eq_true_eq] at hd
    have h9 : c.toNat ≤ '9'.toNat := hd.2
    rcases h with h | h
    · have : 'a'.toNat ≤ c.toNat := h.1
      simp at h9 this; omega
    · have : 'A'.toNat ≤ c.toNat := h.1
      simp at h9 this; omega

theorem goFlag_of_flag (c : Char) (h : isFlag c = true) (hd : isDelim c = false) : isGoFlag c = true := by
  simp [isFlag, isDelim, isGoFlag] at *
  tauto

theorem flag_of_goFlag (c : Char) (h : isGoFlag c = true) : isFlag c = true := by
  simp [isFlag, isGoFlag] at *
  tauto

/-- what a successful match of the format pattern says about the text after the `%`: flags, then digits, then either
    the letter or `.`, digits, the letter -/
def Matched (rest : Str) (p : Pattern) : Prop :=
  p.flags = rest.takeWhile isFlag ∧
  p.width = (if ((rest.dropWhile isFlag).takeWhile isDigit).isEmpty then none
    else some (readNat ((rest.dropWhile isFlag).takeWhile isDigit))) ∧
  isLetter p.letter = true ∧
  (((rest.dropWhile isFlag).dropWhile isDigit = [p.letter] ∧ p.prec = none) ∨
    (∃ pd, pd ≠ [] ∧ (∀ c ∈ pd, isDigit c = true) ∧
      (rest.dropWhile isFlag).dropWhile isDigit = '.' :: (pd ++ [p.letter]) ∧ p.prec = some (readNat pd)))

theorem matchPattern_some (s : Str) (p : Pattern) (h : matchPattern s = some p) :
    ∃ rest, s = '%' :: rest ∧ Matched rest p := by
  unfold matchPattern at h
  split at h
  · rename_i rest
    refine ⟨rest, rfl, ?_⟩
    simp only at h
    split at h
    · -- '.' :: r3
      rename_i r3 hr2
      split at h
      · cases h
      · rename_i hpd
        split at h
        · rename_i c hr4
          split at h
          · rename_i hc
            cases h
            refine ⟨rfl, rfl, hc, Or.inr ⟨r3.takeWhile isDigit, ?_, ?_, ?_, rfl⟩⟩
            · intro he; rw [he] at hpd; simp at hpd
            · intro c hc; exact mem_takeWhile _ c hc
            · rw [hr2]
              have := List.takeWhile_append_dropWhile (p := isDigit) (l := r3)
              rw [hr4] at this
              rw [this]
          · cases h
        · cases h
    · rename_i c hr2
      split at h
      · rename_i hc
        cases h
        exact ⟨rfl, rfl, hc, Or.inl ⟨hr2, rfl⟩⟩
      · cases h
    · cases h
  · cases h

theorem parseFormat_ok (orig : Str) (sep sep2 : Option Str) (f : Fmt) (h : parseFormat orig sep sep2 = .ok f) :
    ∃ p hasPlus hasSpace found, matchPattern orig = some p ∧
      hasOnce p.flags '+' = .ok hasPlus ∧ hasOnce p.flags ' ' = .ok hasSpace ∧
      hasOnce p.flags '-' = .ok f.left ∧ hasOnce p.flags '#' = .ok f.alt ∧ hasOnce p.flags '0' = .ok f.zeroPad ∧
      f.plus = (if hasPlus then some '+' else if hasSpace then some ' ' else none) ∧
      f.letter = p.letter ∧ f.width = p.width ∧ f.prec = p.prec ∧ f.orig = orig ∧
      findDelim p.flags delimiters none = .ok found ∧
      f.ldelim = (match found with | some d => some d | none => if hasSpace then some ' ' else none) ∧
      p.width.getD 0 ≤ maxFormatNumber ∧ p.prec.getD 0 ≤ maxFormatNumber := by
  unfold parseFormat at h
  cases hm : matchPattern orig with
  | none => rw [hm] at h; cases h
  | some p =>
    rw [hm] at h
    simp only [bind, Except.bind] at h
    cases h2 : hasOnce p.flags ' ' with
    | error e => rw [h2] at h; cases h
    | ok hasSpace =>
      rw [h2] at h; simp only at h
      cases h1 : hasOnce p.flags '+' with
      | error e => rw [h1] at h; cases h
      | ok hasPlus =>
        rw [h1] at h; simp only at h
        cases h3 : findDelim p.flags delimiters none with
        | error e => rw [h3] at h; cases h
        | ok found =>
          rw [h3] at h; simp only at h
          by_cases hnum : (decide (p.width.getD 0 > maxFormatNumber) || decide (p.prec.getD 0 > maxFormatNumber)) = true
          · rw [if_pos hnum] at h; cases h
          · rw [if_neg hnum] at h
            cases h4 : hasOnce p.flags '-' with
            | error e => rw [h4] at h; cases h
            | ok left =>
              rw [h4] at h; simp only at h
              cases h5 : hasOnce p.flags '#' with
              | error e => rw [h5] at h; cases h
              | ok alt =>
                rw [h5] at h; simp only at h
                cases h6 : hasOnce p.flags '0' with
                | error e => rw [h6] at h; cases h
                | ok zp =>
                  rw [h6] at h; simp only [pure, Except.pure] at h
                  cases h
                  simp only [Bool.or_eq_true, decide_eq_true_eq, not_or, Nat.not_lt] at hnum
                  exact ⟨p, hasPlus, hasSpace, found, rfl, h1, h2, h4, h5, h6, rfl, rfl, rfl, rfl, rfl, h3, rfl, hnum.1, hnum.2⟩

theorem hasOnce_ok (fl : Str) (c : Char) (b : Bool) (h : hasOnce fl c = .ok b) : b = fl.contains c := by
  unfold hasOnce at h
  split at h
  · rename_i h0; cases h
    have : c ∉ fl := List.count_eq_zero.mp h0
    simp [this]
  · rename_i h1; cases h
    have : c ∈ fl := List.count_pos_iff.mp (by omega)
    simp [this]
  · cases h

theorem readNat_snoc (xs : Str) (c : Char) : readNat (xs ++ [c]) = readNat xs * 10 + (c.toNat - '0'.toNat) := by
  simp [readNat, List.foldl_append]

theorem digit_lt (c : Char) (h : isDigit c = true) : c.toNat - '0'.toNat < 10 := by
  simp only [isDigit, Bool.and_eq_true, decide_eq_true_eq] at h
  have h9 : c.toNat ≤ '9'.toNat := h.2
  simp at h9 ⊢; omega

theorem readNat_dropLast (ds : Str) (hne : ds ≠ []) (hd : ∀ c ∈ ds, isDigit c = true) :
    readNat ds.dropLast = readNat ds / 10 := by
  have hsplit := List.dropLast_concat_getLast hne
  have hlast : isDigit (ds.getLast hne) = true := hd _ (List.getLast_mem hne)
  conv => rhs; rw [← hsplit, readNat_snoc]
  have := digit_lt _ hlast
  omega

theorem goNum_ok (ds : Str) (hne : ds ≠ []) (hd : ∀ c ∈ ds, isDigit c = true) (hlim : readNat ds / 10 ≤ 1000000) :
    goNum ds = some (readNat ds) := by
  unfold goNum
  rw [readNat_dropLast ds hne hd, if_neg (by omega)]

/-- fmt's limit on the numbers of a directive: `parsenum` gives up once the digits read so far exceed 10^6 -/
def NumOK (f : Fmt) : Prop := f.width.getD 0 / 10 ≤ 1000000 ∧ f.prec.getD 0 / 10 ≤ 1000000

instance (f : Fmt) : Decidable (NumOK f) := by unfold NumOK; infer_instance

theorem NumOK.width {f : Fmt} (h : NumOK f) (w : Nat) (hw : f.width = some w) : w / 10 ≤ 1000000 := by
  have := h.1; rw [hw] at this; exact this

theorem NumOK.prec {f : Fmt} (h : NumOK f) (p : Nat) (hp : f.prec = some p) : p / 10 ≤ 1000000 := by
  have := h.2; rw [hp] at this; exact this

/-- `parseFormat` itself rejects numbers beyond fmt's limit -/
theorem parseFormat_numOK (orig : Str) (sep sep2 : Option Str) (f : Fmt) (h : parseFormat orig sep sep2 = .ok f) :
    NumOK f := by
  obtain ⟨p, _, _, _, _, _, _, _, _, _, _, _, hw, hp, _, _, _, h1, h2⟩ := parseFormat_ok orig sep sep2 f h
  unfold NumOK
  rw [hw, hp]
  unfold maxFormatNumber at h1 h2
  constructor <;> omega

theorem filter_id_of_all {p : Char → Bool} : ∀ (l : Str), (∀ c ∈ l, p c = true) → l.filter p = l
  | [], _ => rfl
  | x :: xs, h => by
    have hx : p x = true := h x (by simp)
    rw [List.filter_cons_of_pos hx, filter_id_of_all xs (fun c hc => h c (by simp [hc]))]

/-- **the directive grammar is understood by fmt**: for every format `parseFormat` accepts (numbers within fmt's
    limit), the string handed to fmt parses to the same verb, width, precision and flags -/
theorem parseFormat_goOK0 (orig : Str) (sep sep2 : Option Str) (f : Fmt) (h : parseFormat orig sep sep2 = .ok f)
    (hn : NumOK f) : GoOK0 f := by
  obtain ⟨p, hasPlus, hasSpace, _, hm, hplus, hspace, hleft, halt, hzero, hfplus, hletter, hwidth, hprec, horig, _⟩ :=
    parseFormat_ok orig sep sep2 f h
  obtain ⟨rest, hs, hfl, hwd, hlet, htail⟩ := matchPattern_some orig p hm
  -- the pieces of the text
  generalize hfldef : rest.takeWhile isFlag = fl at hfl
  generalize hr1def : rest.dropWhile isFlag = r1 at hwd htail
  have hrest : rest = fl ++ r1 := by rw [← hfldef, ← hr1def]; exact (List.takeWhile_append_dropWhile).symm
  generalize hwddef : r1.takeWhile isDigit = wd at hwd
  generalize hr2def : r1.dropWhile isDigit = r2 at htail
  have hr1 : r1 = wd ++ r2 := by rw [← hwddef, ← hr2def]; exact (List.takeWhile_append_dropWhile).symm
  have hwd_digits : ∀ c ∈ wd, isDigit c = true := by rw [← hwddef]; exact fun c hc => mem_takeWhile _ c hc
  have hfl_flags : ∀ c ∈ fl, isFlag c = true := by rw [← hfldef]; exact fun c hc => mem_takeWhile _ c hc
  have hdotnd : isDelim '.' = false := by decide
  -- nothing after the flags is a delimiter
  have hr2_nd : ∀ c ∈ r2, isDelim c = false := by
    rcases htail with ⟨h2, _⟩ | ⟨pd, _, hpd, h2, _⟩
    · rw [h2]; intro c hc; simp at hc; rw [hc]; exact not_delim_of_letter _ hlet
    · rw [h2]; intro c hc
      simp at hc
      rcases hc with rfl | hc | rfl
      · exact hdotnd
      · exact not_delim_of_digit c (hpd c hc)
      · exact not_delim_of_letter _ hlet
  have hr1_nd : ∀ c ∈ r1, (!isDelim c) = true := by
    intro c hc; rw [hr1] at hc
    rcases List.mem_append.mp hc with h1 | h1
    · simp [not_delim_of_digit c (hwd_digits c h1)]
    · simp [hr2_nd c h1]
  -- the text handed to fmt
  have hgf : goFormat f = '%' :: (fl.filter (fun c => !isDelim c) ++ r1) := by
    unfold goFormat
    rw [horig, hs, hrest]
    have hpct : isDelim '%' = false := by decide
    simp [List.filter_cons, hpct, List.filter_append, filter_id_of_all r1 hr1_nd]
  generalize hfl'def : fl.filter (fun c => !isDelim c) = fl' at hgf
  have hfl'_go : ∀ c ∈ fl', isGoFlag c = true := by
    rw [← hfl'def]; intro c hc
    have := List.mem_filter.mp hc
    exact goFlag_of_flag c (hfl_flags c this.1) (by simpa using this.2)
  have hr1_head : ∀ c, r1.head? = some c → isGoFlag c = false := by
    intro c hc
    have h1 : isFlag c = false := by rw [← hr1def] at hc; exact head_dropWhile rest c hc
    cases hg : isGoFlag c with
    | false => rfl
    | true => rw [flag_of_goFlag c hg] at h1; cases h1
  obtain ⟨htk, hdr⟩ := takeWhile_append_stop fl' r1 hfl'_go hr1_head
  -- membership of the fmt flags is not changed by the filter
  have hcont : ∀ c, isDelim c = false → fl'.contains c = fl.contains c := by
    intro c hc
    rw [← hfl'def]
    by_cases hmem : c ∈ fl
    · have : c ∈ fl.filter (fun c => !isDelim c) := List.mem_filter.mpr ⟨hmem, by simp [hc]⟩
      simp [hmem, this]
    · have : c ∉ fl.filter (fun c => !isDelim c) := fun h' => hmem (List.mem_filter.mp h').1
      simp [hmem, this]
  have hsharp := hasOnce_ok _ _ _ halt
  have hzeroF := hasOnce_ok _ _ _ hzero
  have hleftF := hasOnce_ok _ _ _ hleft
  have hplusF := hasOnce_ok _ _ _ hplus
  have hspaceF := hasOnce_ok _ _ _ hspace
  rw [hfl] at hsharp hzeroF hleftF hplusF hspaceF
  -- the width
  have hwid : (if wd.isEmpty then some none else (goNum wd).map some) = some f.width := by
    rw [hwidth, hwd]
    by_cases he : wd.isEmpty = true
    · simp [he]
    · have hne : wd ≠ [] := by intro h'; rw [h'] at he; simp at he
      simp only [he, Bool.false_eq_true, if_false]
      rw [goNum_ok wd hne hwd_digits (hn.width _ (by rw [hwidth, hwd]; simp [he]))]
      rfl
  unfold GoOK0
  rw [hgf]
  unfold goParse
  simp only [htk, hdr, hwddef, hr2def, hwid]
  rcases htail with ⟨h2, hp2⟩ | ⟨pd, hpdne, hpd, h2, hp2⟩
  · -- no precision
    have hnd : p.letter ≠ '.' := not_dot_of_letter _ hlet
    have hpp : goPrecPart r2 = (some none, [p.letter]) := by
      rw [h2]; unfold goPrecPart
      split
      · rename_i r3 heq; exact absurd (List.cons.inj heq).1 hnd
      · rfl
    simp only [hpp]
    refine ⟨hletter.symm, trivial, by rw [hprec, hp2], ?_, ?_, ?_, ?_⟩
    · rw [hcont '-' (by decide), hleftF]
    · rw [hcont '#' (by decide), hsharp]
    · rw [hcont '0' (by decide), hzeroF]
    · rw [hcont '+' (by decide), hcont ' ' (by decide), hfplus, ← hplusF, ← hspaceF]
      cases hasSpace <;> cases hasPlus <;> rfl
  · -- '.' digits letter
    have hc_nd : isDigit p.letter = false := not_digit_of_letter _ hlet
    obtain ⟨htk2, hdr2⟩ := takeWhile_append_stop (p := isDigit) pd [p.letter] hpd (by intro c hc; simp at hc; rw [← hc]; exact hc_nd)
    have hpe : pd.isEmpty = false := by cases pd with | nil => exact absurd rfl hpdne | cons _ _ => rfl
    have hpp : goPrecPart r2 = (some (some (readNat pd)), [p.letter]) := by
      rw [h2]; unfold goPrecPart
      simp only [htk2, hdr2, hpe, Bool.false_eq_true, if_false]
      rw [goNum_ok pd hpdne hpd (hn.prec _ (by rw [hprec, hp2]))]
      rfl
    simp only [hpp]
    refine ⟨hletter.symm, trivial, by rw [hprec, hp2], ?_, ?_, ?_, ?_⟩
    · rw [hcont '-' (by decide), hleftF]
    · rw [hcont '#' (by decide), hsharp]
    · rw [hcont '0' (by decide), hzeroF]
    · rw [hcont '+' (by decide), hcont ' ' (by decide), hfplus, ← hplusF, ← hspaceF]
      cases hasSpace <;> cases hasPlus <;> rfl

end Pcore.Format
