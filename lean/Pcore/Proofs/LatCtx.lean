import Pcore.Proofs.LatWeakenAll
set_option linter.unusedSimpArgs false
set_option linter.unusedVariables false
/-! C03: monotonicity along an ARBITRARY one-hole context of covariant positions (the property's quantifier "all one-hole contexts"),
    by induction on the context from the per-constructor laws; the siblings only have to be well-formed (reflexivity `asg_refl_all`). -/
namespace Pcore.Lat
variable (cfg : Cfg) (sfh : Bool)

/-- one-hole contexts over the covariant positions the property lists: Array element, Hash key and value, Tuple slot, Struct member,
    Variant member, Optional, NotUndef, Type, Sensitive, Iterable — nested to any depth -/
inductive Ctx where
  | hole
  | array (c : Ctx) (r : Rng)
  | hashKey (c : Ctx) (v : Ty) (r : Rng)
  | hashVal (k : Ty) (c : Ctx) (r : Rng)
  | tuple (pre : List Ty) (c : Ctx) (post : List Ty) (g : Option Rng)
  | struct (pre : List Member) (n : String) (o : Bool) (c : Ctx) (post : List Member)
  | variant (pre : List Ty) (c : Ctx) (post : List Ty)
  | optional (c : Ctx) | notUndef (c : Ctx) | typ (c : Ctx) | sensitive (c : Ctx) | iterable (c : Ctx) | iterator (c : Ctx)

/-- plug a type into the hole -/
def Ctx.fill : Ctx → Ty → Ty
  | .hole, t => t
  | .array c r, t => .array (c.fill t) r
  | .hashKey c v r, t => .hash (c.fill t) v r
  | .hashVal k c r, t => .hash k (c.fill t) r
  | .tuple pre c post g, t => .tuple (pre ++ c.fill t :: post) g
  | .struct pre n o c post, t => .struct (pre ++ (n, o, c.fill t) :: post)
  | .variant pre c post, t => .variant (pre ++ c.fill t :: post)
  | .optional c, t => .optional (c.fill t)
  | .notUndef c, t => .notUndef (c.fill t)
  | .typ c, t => .typ (c.fill t)
  | .sensitive c, t => .sensitive (c.fill t)
  | .iterator c, t => .iterator (c.fill t)
  | .iterable c, t => .iterable (c.fill t)

/-- the sibling parts of the context are well-formed types; member names of a Struct on the path are pairwise different -/
def Ctx.WF (cfg : Cfg) : Ctx → Prop
  | .hole => True
  | .array c _ => c.WF cfg
  | .hashKey c v _ => c.WF cfg ∧ Ty.WF cfg v
  | .hashVal k c _ => Ty.WF cfg k ∧ c.WF cfg
  | .tuple pre c post _ => c.WF cfg ∧ ∀ t ∈ pre ++ post, Ty.WF cfg t
  | .struct pre n _ c post => c.WF cfg ∧ (pre.map (·.1) ++ n :: post.map (·.1)).Nodup ∧ ∀ m ∈ pre ++ post, Ty.WF cfg m.2.2
  | .variant pre c post => c.WF cfg ∧ ∀ t ∈ pre ++ post, Ty.WF cfg t
  | .optional c | .notUndef c | .typ c | .sensitive c | .iterable c | .iterator c => c.WF cfg

theorem mono_ctx (a b : Ty) (h : asg cfg sfh a b = true) :
    ∀ (C : Ctx), C.WF cfg → asg cfg sfh (C.fill a) (C.fill b) = true := by
  intro C
  induction C with
  | hole => intro _; exact h
  | array c r ih => intro w; exact mono_array cfg sfh _ _ r (ih w)
  | hashKey c v r ih =>
    intro w; exact mono_hash_key cfg sfh _ _ v r (asg_refl_all cfg sfh v.w v (Nat.le_refl _) w.2) (ih w.1)
  | hashVal k c r ih =>
    intro w; exact mono_hash_value cfg sfh k _ _ r (asg_refl_all cfg sfh k.w k (Nat.le_refl _) w.1) (ih w.2)
  | tuple pre c post g ih =>
    intro w
    exact mono_tuple cfg sfh pre post _ _ g (fun t ht => asg_refl_all cfg sfh t.w t (Nat.le_refl _) (w.2 t ht)) (ih w.1)
  | struct pre n o c post ih =>
    intro w
    exact mono_struct cfg sfh pre post n o _ _ (by unfold NamesNodup; simpa using w.2.1)
      (fun m hm => asg_refl_all cfg sfh m.2.2.w m.2.2 (Nat.le_refl _) (w.2.2 m hm)) (ih w.1)
  | variant pre c post ih =>
    intro w
    exact mono_variant_all cfg sfh pre post _ _ (fun t ht => asg_refl_all cfg sfh t.w t (Nat.le_refl _) (w.2 t ht)) (ih w.1)
  | optional c ih => intro w; exact mono_optional_all cfg sfh _ _ (ih w)
  | notUndef c ih => intro w; exact mono_notUndef cfg sfh _ _ (ih w)
  | typ c ih => intro w; exact mono_typ cfg sfh _ _ (ih w)
  | sensitive c ih => intro w; exact mono_sensitive cfg sfh _ _ (ih w)
  | iterator c ih => intro w; exact mono_iterator cfg sfh _ _ (ih w)
  | iterable c ih => intro w; exact mono_iterable cfg sfh _ _ (ih w)

end Pcore.Lat
