import Pcore.Proofs.CtorCoerce
import Pcore.Proofs.CtorInit
import Pcore.Model.CtorCanCoerce
/-!
`CanCoerce` is complete for `CoerceTo`: whatever `CoerceTo(T, v)` converts, `CanCoerce(T, v)` answered `true` — for types whose
Struct types have distinct member names.  Core Lean only.
-/
namespace Pcore.Dispatch.Alpha

mutual
/-- nesting measure through every constructor `coerceTo` / `canCoerce` recurse into (Struct members included) -/
def Ty.sz2 : Ty → Nat
  | .arr e _ _ => e.sz2 + 1
  | .hash k v _ _ => k.sz2 + v.sz2 + 1
  | .opt t => t.sz2 + 1
  | .struct ms => szMs ms + 1
  | _ => 0
def szMs : List (String × Bool × Ty) → Nat
  | [] => 0
  | (_, _, t) :: ms => t.sz2 + szMs ms + 1
end

mutual
/-- every Struct type inside has distinct member names -/
def Ty.NodupNames : Ty → Prop
  | .arr e _ _ => e.NodupNames
  | .hash k v _ _ => k.NodupNames ∧ v.NodupNames
  | .opt t => t.NodupNames
  | .struct ms => (ms.map (·.1)).Nodup ∧ nodupMs ms
  | _ => True
def nodupMs : List (String × Bool × Ty) → Prop
  | [] => True
  | (_, _, t) :: ms => t.NodupNames ∧ nodupMs ms
end

theorem allOk_true (rs : List (Except String Bool)) (h : ∀ r ∈ rs, r = .ok true) : allOk rs = .ok true := by
  induction rs with
  | nil => rfl
  | cons r rs ih =>
    have hr := h r (by simp)
    subst hr
    simp only [allOk]
    exact ih (fun r' hr' => h r' (by simp [hr']))

/-- every input of a successful `seqResults` produced a value -/
theorem seqResults_all {α : Type} (f : α → NewOutcome Val) (xs : List α) (rs : List Val)
    (h : seqResults (xs.map f) = .ok rs) : ∀ x ∈ xs, ∃ r, f x = .value r := by
  induction xs generalizing rs with
  | nil => simp
  | cons x xs ih =>
    simp only [List.map, seqResults] at h
    cases hx : f x with
    | value v =>
      simp only [hx] at h
      cases hr : seqResults (xs.map f) with
      | error e => simp [hr] at h
      | ok vs =>
        intro y hy
        rcases List.mem_cons.mp hy with rfl | hy
        · exact ⟨v, hx⟩
        · exact ih vs hr y hy
    | reported c => simp [hx] at h
    | fault => simp [hx] at h

/-- every input of a successful `seqEntries` produced a pair of values, and the pair is in the result -/
theorem seqEntries_all {α : Type} (f g : α → NewOutcome Val) (xs : List α) (es : List (Val × Val))
    (h : seqEntries (xs.map fun x => (f x, g x)) = .ok es) :
    ∀ x ∈ xs, ∃ e ∈ es, f x = .value e.1 ∧ g x = .value e.2 := by
  induction xs generalizing es with
  | nil => simp
  | cons x xs ih =>
    simp only [List.map, seqEntries] at h
    cases hf : f x with
    | value k =>
      simp only [hf] at h
      cases hg : g x with
      | value v =>
        simp only [hg] at h
        cases hr : seqEntries (xs.map fun x => (f x, g x)) with
        | error e => simp [hr] at h
        | ok es' =>
          simp [hr] at h; subst h
          intro y hy
          rcases List.mem_cons.mp hy with rfl | hy
          · exact ⟨(k, v), by simp, hf, hg⟩
          · obtain ⟨e, he, h1, h2⟩ := ih es' hr y hy
            exact ⟨e, by simp [he], h1, h2⟩
      | reported c => simp [hg] at h
      | fault => simp [hg] at h
    | reported c => simp [hf] at h
    | fault => simp [hf] at h

theorem ctorCall_value_callable (c : Ctor) (args : List Val) (r : Val) (h : ctorCall c args = .value r) :
    anyCallable c args = true := by
  unfold ctorCall at h
  unfold anyCallable
  cases hr : run inst binst c.creators args (none : Option Blk) with
  | builderRejected p => simp [hr] at h
  | resolveFailed e => simp [hr] at h
  | called o =>
    cases o with
    | reported => simp [hr] at h
    | ran i => rfl

section
variable (pf : List Char → Option Nat)

/-- `new(T, v)` answered a value ⇒ `Init[T]` accepts `v` -/
theorem newOne_canInit (t : Ty) (v r : Val) (h : newOne pf t v = .value r) : canInit pf t v = .ok true := by
  unfold newOne at h
  cases hn : newModel pf (.plain t) [v] with
  | none => simp [hn] at h
  | some o =>
    simp only [hn] at h; subst h
    obtain ⟨recv, hrecv, hinst⟩ := newModel_some pf _ _ _ hn
    simp only [recvOf] at hrecv
    cases hc : ctorOf pf t with
    | none => simp [hc] at hrecv; subst hrecv; simp [newInstance] at hinst
    | some c =>
      simp [hc] at hrecv; subst hrecv
      simp only [newInstance] at hinst
      cases hcall : ctorCall c [v] with
      | value w =>
        have := ctorCall_value_callable c [v] w hcall
        simp [canInit, initIsInstance, hc, initInstTest, this]
      | reported code => simp [hcall] at hinst
      | fault => simp [hcall] at hinst

/-- the member a declared key selects: both mappers go to the same member type -/
theorem entry_member (ms : List (String × Bool × Ty)) (s : String) (hs : s ∈ ms.map (·.1)) (x : Val) :
    ∃ t, t.sz2 < szMs ms ∧ (nodupMs ms → t.NodupNames) ∧
      coerceEntry pf ms (.str s) x = coerceTo pf t x ∧ canEntry pf ms (.str s) x = canCoerce pf t x := by
  induction ms with
  | nil => simp at hs
  | cons m ms ih =>
    obtain ⟨name, o, t⟩ := m
    by_cases hn : name = s
    · refine ⟨t, by simp [szMs]; omega, fun h => h.1, ?_, ?_⟩ <;> simp [coerceEntry, canEntry, hn]
    · have hs' : s ∈ ms.map (·.1) := by
        simp at hs
        rcases hs with h | h
        · exact absurd h.symm hn
        · simpa using h
      obtain ⟨t', hsz, hnd, h1, h2⟩ := ih hs'
      refine ⟨t', by simp [szMs]; omega, fun h => hnd h.2, ?_, ?_⟩
      · simp [coerceEntry, hn, h1]
      · simp [canEntry, hn, h2]

/-- `CanCoerce` as coerce.go writes it: the instance test, one `Optional` removed, the switch -/
theorem canCoerce_eq (t : Ty) (v : Val) :
    canCoerce pf t v = if inst t v then .ok true else canCore pf (unwrapOpt t) v := by
  cases t <;> simp [canCoerce, canCore, unwrapOpt]

theorem can_complete_aux : ∀ n t, t.sz2 < n → t.NodupNames → ∀ v r,
    (coerceTo pf t v = .value r → canCoerce pf t v = .ok true) ∧
    (coerceCore pf t v = .value r → canCore pf t v = .ok true) := by
  intro n
  induction n with
  | zero => intro t h; omega
  | succ n ih =>
    intro t hsz hnd v r
    have hcore : coerceCore pf t v = .value r → canCore pf t v = .ok true := by
      intro h
      cases t with
      | arr e lo hi =>
        have he : e.sz2 < n := by simp [Ty.sz2] at hsz; omega
        have hne : e.NodupNames := by simpa [Ty.NodupNames] using hnd
        cases v <;> simp [coerceCore] at h
        rename_i vs
        simp only [canCore]
        cases hs : seqResults (vs.map fun x => coerceTo pf e x) with
        | error o => simp [hs, finishArr] at h; exact absurd h (seqResults_error _ o hs r)
        | ok rs =>
          apply allOk_true
          intro q hq
          obtain ⟨x, hx, rfl⟩ := List.mem_map.mp hq
          obtain ⟨rx, hrx⟩ := seqResults_all (fun x => coerceTo pf e x) vs rs hs x hx
          exact (ih e he hne x rx).1 hrx
      | hash kt vt lo hi =>
        have hk : kt.sz2 < n := by simp [Ty.sz2] at hsz; omega
        have hv : vt.sz2 < n := by simp [Ty.sz2] at hsz; omega
        have hnk : kt.NodupNames ∧ vt.NodupNames := by simpa [Ty.NodupNames] using hnd
        cases v <;> simp [coerceCore] at h
        rename_i es
        simp only [canCore]
        cases hs : seqEntries (es.map fun e => (coerceTo pf kt e.1, coerceTo pf vt e.2)) with
        | error o => simp [hs, finishHash] at h; exact absurd h (seqEntries_error _ o hs r)
        | ok es' =>
          apply allOk_true
          intro q hq
          obtain ⟨e, he, rfl⟩ := List.mem_map.mp hq
          obtain ⟨e', _, h1, h2⟩ := seqEntries_all (fun e => coerceTo pf kt e.1) (fun e => coerceTo pf vt e.2) es es' hs e he
          simp [andOk, (ih kt hk hnk.1 _ _).1 h1, (ih vt hv hnk.2 _ _).1 h2]
      | struct ms =>
        have hnd' : (ms.map (·.1)).Nodup ∧ nodupMs ms := by simpa [Ty.NodupNames] using hnd
        cases v <;> simp [coerceCore] at h
        rename_i es
        simp only [canCore]
        cases hs : seqEntries (es.map fun e => (NewOutcome.value e.1, coerceEntry pf ms e.1 e.2)) with
        | error o => simp [hs, finishStruct] at h; exact absurd h (seqEntries_error _ o hs r)
        | ok es' =>
          -- the asserted result has only declared keys
          simp only [hs, finishStruct, assertInstance] at h
          have hinst : inst (.struct ms) (.hash es') = true := by
            by_cases hi : inst (.struct ms) (.hash es') = true
            · exact hi
            · simp [hi] at h
          obtain ⟨es'', hes'', hkeys, _⟩ := inst_struct ms hnd'.1 _ hinst
          cases hes''
          apply allOk_true
          intro q hq
          obtain ⟨e, he, rfl⟩ := List.mem_map.mp hq
          obtain ⟨e', he', h1, h2⟩ := seqEntries_all (fun e => NewOutcome.value e.1) (fun e => coerceEntry pf ms e.1 e.2) es es' hs e he
          obtain ⟨m, hm, hkey⟩ := hkeys e' he'
          have hk : e.1 = .str m.1 := by
            have : e.1 = e'.1 := by simpa using h1
            rw [this, hkey]
          obtain ⟨t, htsz, htnd, hce, hca⟩ := entry_member pf ms m.1 (List.mem_map.mpr ⟨m, hm, rfl⟩) e.2
          have ht : t.sz2 < n := by simp [Ty.sz2] at hsz; omega
          rw [hk, hca]
          rw [hk, hce] at h2
          exact (ih t ht (htnd hnd'.2) _ _).1 h2
      | _ => exact newOne_canInit pf _ v r (by simpa [coerceCore] using h)
    refine ⟨?_, hcore⟩
    intro h
    rw [canCoerce_eq]
    by_cases hi : inst t v = true
    · simp [hi]
    · have hc := h
      rw [coerceTo_eq] at hc
      simp only [hi] at hc ⊢
      cases t with
      | opt t' =>
        have ht' : t'.sz2 < n := by simp [Ty.sz2] at hsz; omega
        have hnd' : t'.NodupNames := by simpa [Ty.NodupNames] using hnd
        simpa [unwrapOpt] using (ih t' ht' hnd' v r).2 (by simpa [unwrapOpt] using hc)
      | _ => simpa [unwrapOpt] using hcore (by simpa [unwrapOpt] using hc)

/-- whatever `CoerceTo(T, v)` converts, `CanCoerce(T, v)` answered `true` -/
theorem can_complete (t : Ty) (hnd : t.NodupNames) (v r : Val) (h : coerceTo pf t v = .value r) :
    canCoerce pf t v = .ok true :=
  (can_complete_aux pf (t.sz2 + 1) t (by omega) hnd v r).1 h

end

end Pcore.Dispatch.Alpha
