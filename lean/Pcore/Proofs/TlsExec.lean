import Pcore.Proofs.Tls
/-!
The induction behind C14: every execution (`exec .now`, any fuel, any program, any oracle) is a `Step` and leaves the
goroutine-local tables exactly as they were.
-/
namespace Pcore.Tls

/-- what the induction hypothesis says about executing with the smaller fuel -/
def ExecOK (ex : Prog → Gid → CtxId → World → Outcome × World) : Prop :=
  ∀ p g c w, Pre g c w → Step (some c) w (ex p g c w).2 ∧ (ex p g c w).2.tls = w.tls

theorem setEntry_tls (l : LoaderId) (n : String) (b : Bool) (w : World) : (setEntry l n b w).tls = w.tls := by
  unfold setEntry; split <;> rfl

theorem EvOK.obs {w : World} {g : Gid} {lex : CtxId} {tag : Option Nat} {st : List Nat}
    (h : (g, lex) ∈ w.estab) : EvOK w (g, .obs (some lex) lex tag st) := ⟨rfl, h⟩
theorem EvOK.get {w : World} {g : Gid} {k : String} {v : Option Nat} : EvOK w (g, .get k v) := trivial
theorem EvOK.load {w : World} {g : Gid} {k : String} {b : Bool} : EvOK w (g, .load k b) := trivial
theorem EvOK.recovered {w : World} {g : Gid} : EvOK w (g, .recovered) := trivial
theorem EvOK.done {w : World} {g : Gid} {o : Outcome} : EvOK w (g, .done o) := trivial

theorem leafStep_step {g c : Nat} {l : Leaf} {w : World} (h : Pre g c w) :
    Step (some c) w (leafStep g c l w).2 ∧ (leafStep g c l w).2.tls = w.tls := by
  cases l with
  | obs =>
    simp only [leafStep, h.cur]
    exact ⟨(emit_step h.inv (EvOK.obs h.est)).weaken, rfl⟩
  | set k x => exact ⟨setVar_step h.inv, rfl⟩
  | get k => exact ⟨(emit_step h.inv EvOK.get).weaken, rfl⟩
  | del k =>
    simp only [leafStep]
    exact ⟨ctxUpd_step h.inv, rfl⟩
  | push l =>
    simp only [leafStep]
    exact ⟨ctxUpd_step h.inv, rfl⟩
  | pop =>
    simp only [leafStep]
    split
    · exact ⟨Step.refl h.inv, rfl⟩
    · exact ⟨ctxUpd_step (c := c) (f := fun y => { y with stack := y.stack.dropLast }) h.inv, rfl⟩
  | deftype n =>
    simp only [leafStep]
    split
    · exact ⟨Step.refl h.inv, rfl⟩
    · exact ⟨(setEntry_step h.inv).weaken, setEntry_tls _ _ _ _⟩
  | load n =>
    simp only [leafStep]
    split
    · split
      · exact ⟨(emit_step h.inv EvOK.load).weaken, rfl⟩
      · refine ⟨((setEntry_step h.inv).trans (emit_step (setEntry_step h.inv).inv EvOK.load) (fun _ _ h => h)).weaken, ?_⟩
        exact setEntry_tls _ _ _ _
    · exact ⟨(emit_step h.inv EvOK.load).weaken, rfl⟩
  | panic => exact ⟨Step.refl h.inv, rfl⟩

/-- the table of `g` replaced -/
def tlPut (g : Gid) (t : List (String × CtxId)) (w : World) : World :=
  { w with tls := fun g' => if g' = g then some t else w.tls g' }

theorem tlSet_eq {g : Gid} {v : CtxId} {w : World} {t : List (String × CtxId)} (h : w.tls g = some t) :
    tlSet g ctxKey v w = some (tlPut g (aset ctxKey v t) w) := by
  simp [tlSet, h, tlPut]

theorem tlGet_none_iff {g : Gid} {w : World} (h : Inv w) : tlGet g ctxKey w = none ↔ w.tls g = none := by
  unfold tlGet
  cases ht : w.tls g with
  | none => simp
  | some t =>
    obtain ⟨c, hc⟩ := h.hasKey g t ht
    simp [hc]

theorem doWithContext_step {g cx : Nat} {body : World → Outcome × World} {w : World}
    (hinv : Inv w) (hg : g < w.nextGid) (hgp : g ∉ pendGids w)
    (hcx : cx < w.nextCtx) (hnp : cx ∉ pendCtxs w) (hne : ∀ g', (g', cx) ∉ w.estab)
    (hb : ∀ w1, Pre g cx w1 → Step (some cx) w1 (body w1).2 ∧ (body w1).2.tls = w1.tls) :
    Step (some cx) w (doWithContext .now g cx body w).2 ∧ (doWithContext .now g cx body w).2.tls = w.tls := by
  unfold doWithContext
  cases hget : tlGet g ctxKey w with
  | some save =>
    obtain ⟨t, ht, hts⟩ : ∃ t, w.tls g = some t ∧ aget ctxKey t = some save := by
      unfold tlGet at hget
      cases h : w.tls g with
      | none => simp [h] at hget
      | some t => exact ⟨t, rfl, by simpa [h] using hget⟩
    have hset := tlSet_eq (v := cx) ht
    have s1 : Step none w (tlPut g (aset ctxKey cx t) w) := tlSet_step hinv hg hgp hset
    have s2 : Step none (tlPut g (aset ctxKey cx t) w) (note g cx (tlPut g (aset ctxKey cx t) w)) :=
      note_step s1.inv hcx hnp hne
    have hpre : Pre g cx (note g cx (tlPut g (aset ctxKey cx t) w)) :=
      { inv := s2.inv
        cur := by simp [tlGet, note, tlPut, aget_aset_same]
        glt := hg
        gnp := hgp
        est := by simp [note] }
    obtain ⟨sb, tb⟩ := hb _ hpre
    simp only [hset]
    generalize hr : body (note g cx (tlPut g (aset ctxKey cx t) w)) = r at sb tb
    have htr : r.2.tls g = some (aset ctxKey cx t) := by rw [tb]; simp [note, tlPut]
    have hset2 := tlSet_eq (v := save) htr
    rw [aset_aset_restore cx hts] at hset2
    simp only [hset2]
    have s12 : Step (some cx) w r.2 := ((s1.trans s2 (fun _ _ h => h)).weaken).trans sb (fun _ _ h => h)
    have s3 : Step none r.2 (tlPut g t r.2) :=
      tlSet_step s12.inv (Nat.lt_of_lt_of_le hg s12.gidMono) (s12.gid_not_pend hg hgp) hset2
    refine ⟨s12.trans s3 (fun _ _ _ => by simp), ?_⟩
    funext g'
    by_cases hgg : g' = g
    · subst hgg; simp [tlPut, ht]
    · simp [tlPut, hgg, tb, note]
  | none =>
    have htn : w.tls g = none := (tlGet_none_iff hinv).1 hget
    simp only [tlSet_tlInit, if_true]
    have s1 : Step none w (tlFresh g cx w) := tlFresh_step hinv hg hgp
    have s2 : Step none (tlFresh g cx w) (note g cx (tlFresh g cx w)) := note_step s1.inv hcx hnp hne
    have hpre : Pre g cx (note g cx (tlFresh g cx w)) :=
      { inv := s2.inv
        cur := by simp [tlGet, note, tlFresh, aget]
        glt := hg
        gnp := hgp
        est := by simp [note] }
    obtain ⟨sb, tb⟩ := hb _ hpre
    generalize hr : body (note g cx (tlFresh g cx w)) = r at sb tb
    have s12 : Step (some cx) w r.2 := ((s1.trans s2 (fun _ _ h => h)).weaken).trans sb (fun _ _ h => h)
    have s3 : Step none r.2 (tlCleanup g r.2) :=
      tlCleanup_step s12.inv (Nat.lt_of_lt_of_le hg s12.gidMono) (s12.gid_not_pend hg hgp)
    refine ⟨s12.trans s3 (fun _ _ _ => by simp), ?_⟩
    funext g'
    by_cases hgg : g' = g
    · subst hgg; simp [tlCleanup, htn]
    · simp [tlCleanup, hgg, tb, note, tlFresh]

theorem ctx_fresh_not_pend {w : World} (h : Inv w) : w.nextCtx ∉ pendCtxs w := by
  intro hc
  simp only [pendCtxs, List.mem_map] at hc
  obtain ⟨t, ht, hti⟩ := hc
  have := h.pendCtxLt t ht
  rw [hti] at this
  exact Nat.lt_irrefl _ this

theorem ctx_fresh_not_estab {w : World} (h : Inv w) (g : Gid) : (g, w.nextCtx) ∉ w.estab :=
  fun hc => Nat.lt_irrefl _ (h.estabLt g _ hc)

/-- the deferred `recover()` of `TryWithParent` -/
theorem catch_step {g : Gid} {ctch : Bool} {r : Outcome × World} {x : Option CtxId} {w : World} (base : Step x w r.2) :
    Step x w (if ctch = true ∧ r.1 = .panicked then (Outcome.normal, emit g .recovered r.2) else r).2 ∧
    (if ctch = true ∧ r.1 = .panicked then (Outcome.normal, emit g .recovered r.2) else r).2.tls = r.2.tls := by
  by_cases hc : ctch = true ∧ r.1 = .panicked
  · rw [if_pos hc]
    exact ⟨base.trans (emit_step base.inv EvOK.recovered) (fun _ _ _ => by simp), rfl⟩
  · rw [if_neg hc]
    exact ⟨base, rfl⟩

/-- `DoWithParent` / `TryWithParent` with a `px.Context` parent -/
theorem doParent_step {g : Nat} {id : Nat} {ctch : Bool} {body : CtxId → World → Outcome × World} {root : Nat} {w2 : World}
    (hp : Pre g root w2)
    (hb : ∀ cx w1, Pre g cx w1 → Step (some cx) w1 (body cx w1).2 ∧ (body cx w1).2.tls = w1.tls) :
    Step (some root) w2 (doParent .now g id ctch body root w2).2 ∧ (doParent .now g id ctch body root w2).2.tls = w2.tls := by
  have sF : Step none w2 (forkCtx root w2).2 := forkCtx_step hp.inv
  have hd := doWithContext_step (g := g) (cx := w2.nextCtx) (w := (forkCtx root w2).2)
    (body := fun w4 => body w2.nextCtx (setTag w2.nextCtx id w4))
    sF.inv hp.glt hp.gnp (by simp) (ctx_fresh_not_pend hp.inv) (fun g' => ctx_fresh_not_estab hp.inv g')
    (by
      intro w4 hp4
      have s4 : Step (some w2.nextCtx) w4 (setTag w2.nextCtx id w4) := setTag_step hp4.inv
      obtain ⟨sb, tb⟩ := hb w2.nextCtx _ (hp4.step s4 rfl)
      exact ⟨s4.trans sb (fun _ _ h => h), by rw [tb]; rfl⟩)
  have base : Step (some root) w2 (doWithContext .now g w2.nextCtx
      (fun w4 => body w2.nextCtx (setTag w2.nextCtx id w4)) (forkCtx root w2).2).2 := by
    refine (sF.weaken (x := some root)).trans hd.1 ?_
    intro i hi _ hc
    simp at hc; omega
  simp only [doParent, forkCtx_fst]
  obtain ⟨c1, c2⟩ := catch_step (g := g) (ctch := ctch) base
  exact ⟨c1, c2.trans (hd.2.trans rfl)⟩

/-- `pcore.Do` / `pcore.Try` -/
theorem doDo_step {g : Nat} {id : Nat} {ctch : Bool} {body : CtxId → World → Outcome × World} {w : World}
    (hinv : Inv w) (hg : g < w.nextGid) (hgp : g ∉ pendGids w)
    (hb : ∀ cx w1, Pre g cx w1 → Step (some cx) w1 (body cx w1).2 ∧ (body cx w1).2.tls = w1.tls) :
    Step none w (doDo .now g id ctch body w).2 ∧ (doDo .now g id ctch body w).2.tls = w.tls := by
  simp only [doDo]
  have s0 : Step none w (newCtx { loader := [0] } w).2 := newCtx_step hinv
  have hroot : (newCtx { loader := [0] } w).1 = w.nextCtx := rfl
  rw [hroot]
  have hd := doWithContext_step (g := g) (cx := w.nextCtx) (w := (newCtx { loader := [0] } w).2)
    (body := doParent .now g id ctch body w.nextCtx)
    s0.inv hg hgp (Nat.lt_succ_self _) (ctx_fresh_not_pend hinv) (fun g' => ctx_fresh_not_estab hinv g')
    (fun w2 hp => doParent_step hp hb)
  refine ⟨s0.trans hd.1 ?_, by rw [hd.2]; rfl⟩
  intro i hi _ hc
  simp at hc; omega

theorem runTask_now (ex : Prog → Gid → CtxId → World → Outcome × World) (t : Task) (w : World) :
    runTask .now ex t w =
      tlCleanup t.gid
        { emit t.gid (.done (ex t.prog t.gid t.ctx (setTag t.ctx (1000 + t.gid) (note t.gid t.ctx (tlFresh t.gid t.ctx w)))).1)
            (ex t.prog t.gid t.ctx (setTag t.ctx (1000 + t.gid) (note t.gid t.ctx (tlFresh t.gid t.ctx w)))).2 with
          oof := (emit t.gid (.done (ex t.prog t.gid t.ctx (setTag t.ctx (1000 + t.gid) (note t.gid t.ctx (tlFresh t.gid t.ctx w)))).1)
            (ex t.prog t.gid t.ctx (setTag t.ctx (1000 + t.gid) (note t.gid t.ctx (tlFresh t.gid t.ctx w)))).2).oof ||
              decide ((ex t.prog t.gid t.ctx (setTag t.ctx (1000 + t.gid) (note t.gid t.ctx (tlFresh t.gid t.ctx w)))).1 = .fuel) } := by
  have h : (if Ver.now = Ver.before then forkCtx t.ctx (tlInit t.gid w) else (t.ctx, tlInit t.gid w)) = (t.ctx, tlInit t.gid w) := rfl
  simp only [runTask, h, tlSet_tlInit]

/-- a waiting goroutine runs from start to end -/
theorem runTask_step {ex : Prog → Gid → CtxId → World → Outcome × World} (ih : ExecOK ex) {w : World} {i : Nat} {t : Task}
    (hinv : Inv w) (ht : w.pending[i]? = some t) :
    Step none w (runTask .now ex t { w with pending := w.pending.eraseIdx i }) ∧
      (runTask .now ex t { w with pending := w.pending.eraseIdx i }).tls = w.tls := by
  have htm : t ∈ w.pending := mem_of_getElem? ht
  have hgn : t.gid ∉ pendGids { w with pending := w.pending.eraseIdx i } :=
    key_not_mem_eraseIdx (fun x : Task => x.gid) w.pending i t hinv.pendNodup ht
  have hcn : t.ctx ∉ pendCtxs { w with pending := w.pending.eraseIdx i } :=
    key_not_mem_eraseIdx (fun x : Task => x.ctx) w.pending i t hinv.pendCtxNodup ht
  have s0 : Step none w { w with pending := w.pending.eraseIdx i } :=
    { inv := ⟨hinv.tlsFresh, fun t' h' => hinv.pendNone t' (mem_eraseIdx_of h'), fun t' h' => hinv.pendLt t' (mem_eraseIdx_of h'),
              nodup_map_eraseIdx _ _ _ hinv.pendNodup, hinv.hasKey, hinv.estabLt,
              fun t' h' => hinv.pendCtxLt t' (mem_eraseIdx_of h'), nodup_map_eraseIdx _ _ _ hinv.pendCtxNodup,
              fun t' h' => hinv.pendNotEstab t' (mem_eraseIdx_of h'), hinv.estabUniq⟩
      gidMono := Nat.le_refl _
      ctxMono := Nat.le_refl _
      estMono := fun _ h => h
      pendStay := fun t' h' => Or.inl (mem_eraseIdx_of h')
      logOK := logOK_same rfl rfl
      frame := fun _ _ _ _ => rfl }
  generalize hw0 : ({ w with pending := w.pending.eraseIdx i } : World) = w0 at hgn hcn s0
  have e1 : w0.nextGid = w.nextGid := by rw [← hw0]
  have e2 : w0.nextCtx = w.nextCtx := by rw [← hw0]
  have e3 : w0.estab = w.estab := by rw [← hw0]
  have e4 : w0.tls = w.tls := by rw [← hw0]
  have hgl : t.gid < w0.nextGid := by rw [e1]; exact hinv.pendLt t htm
  have hcl : t.ctx < w0.nextCtx := by rw [e2]; exact hinv.pendCtxLt t htm
  have hne : ∀ g', (g', t.ctx) ∉ w0.estab := by rw [e3]; exact hinv.pendNotEstab t htm
  have s1 : Step none w0 (tlFresh t.gid t.ctx w0) := tlFresh_step s0.inv hgl hgn
  have s2 : Step none (tlFresh t.gid t.ctx w0) (note t.gid t.ctx (tlFresh t.gid t.ctx w0)) := note_step s1.inv hcl hcn hne
  have s3 : Step (some t.ctx) (note t.gid t.ctx (tlFresh t.gid t.ctx w0))
      (setTag t.ctx (1000 + t.gid) (note t.gid t.ctx (tlFresh t.gid t.ctx w0))) := setTag_step s2.inv
  have hpre : Pre t.gid t.ctx (setTag t.ctx (1000 + t.gid) (note t.gid t.ctx (tlFresh t.gid t.ctx w0))) :=
    { inv := s3.inv
      cur := by simp [tlGet, setVar, setTag, ctxUpd, note, tlFresh, aget]
      glt := hgl
      gnp := hgn
      est := by simp [setVar, setTag, ctxUpd, note] }
  obtain ⟨sb, tb⟩ := ih t.prog t.gid t.ctx _ hpre
  rw [runTask_now]
  generalize ex t.prog t.gid t.ctx (setTag t.ctx (1000 + t.gid) (note t.gid t.ctx (tlFresh t.gid t.ctx w0))) = r at sb tb
  have s03 : Step (some t.ctx) w0 r.2 :=
    (((s1.trans s2 (fun _ _ h => h)).weaken).trans s3 (fun _ _ h => h)).trans sb (fun _ _ h => h)
  have s4 : Step none r.2 (emit t.gid (.done r.1) r.2) := emit_step s03.inv EvOK.done
  have s5 : Step none (emit t.gid (.done r.1) r.2)
      { emit t.gid (.done r.1) r.2 with oof := (emit t.gid (.done r.1) r.2).oof || decide (r.1 = .fuel) } :=
    Step.of_same s4.inv rfl rfl rfl rfl rfl (logOK_same rfl rfl) (fun _ _ => rfl)
  have s05 := (s03.trans s4 (fun _ _ _ => by simp)).trans s5 (fun _ _ _ => by simp)
  have s6 := tlCleanup_step (g := t.gid) s05.inv (Nat.lt_of_lt_of_le hgl s05.gidMono) (s05.gid_not_pend hgl hgn)
  have s06 := s05.trans s6 (fun _ _ _ => by simp)
  have sAll : Step (some t.ctx) w _ := (s0.weaken (x := some t.ctx)).trans s06 (fun _ _ h => h)
  refine ⟨sAll.drop ?_, ?_⟩
  · intro _
    refine ⟨by simp only [pendCtxs, List.mem_map]; exact ⟨t, htm, rfl⟩, ?_⟩
    exact s06.ctx_not_pend hcl hcn
  · funext g'
    by_cases hgg : g' = t.gid
    · subst hgg; simp [tlCleanup, hinv.pendNone t htm]
    · simp [tlCleanup, hgg, emit, tb, setVar, setTag, ctxUpd, note, tlFresh, e4]

/-- a scheduling point -/
theorem yield_step {ex : Prog → Gid → CtxId → World → Outcome × World} (ih : ExecOK ex) {w : World} (hinv : Inv w) :
    Step none w (yield .now ex w) ∧ (yield .now ex w).tls = w.tls := by
  unfold yield
  split
  · exact ⟨Step.refl hinv, rfl⟩
  · rename_i d s hs
    have s1 : Step none w { w with sched := s } :=
      Step.of_same hinv rfl rfl rfl rfl rfl (logOK_same rfl rfl) (fun _ _ => rfl)
    simp only
    split
    · exact ⟨s1, rfl⟩
    · split
      · exact ⟨s1, rfl⟩
      · rename_i t ht
        have := runTask_step ih (w := { w with sched := s }) (i := (d - 1) % w.pending.length) (t := t) s1.inv ht
        exact ⟨s1.trans this.1 (fun _ _ h => h), this.2⟩

/-- the induction: any program, any goroutine, any oracle, any fuel -/
theorem exec_step : ∀ f, ExecOK (exec .now f) := by
  intro f
  induction f with
  | zero => intro p g c w h; exact ⟨Step.refl h.inv, rfl⟩
  | succ f ih =>
    intro p g c w h
    cases p with
    | skip => exact ⟨Step.refl h.inv, rfl⟩
    | leaf l =>
      simp only [exec]
      obtain ⟨sy, ty⟩ := yield_step ih h.inv
      obtain ⟨sl, tl⟩ := leafStep_step (l := l) (h.step sy ty)
      exact ⟨(sy.weaken).trans sl (fun _ _ h => h), by rw [tl, ty]⟩
    | seq p q =>
      simp only [exec]
      obtain ⟨s1, t1⟩ := ih p g c w h
      split
      · obtain ⟨s2, t2⟩ := ih q g c _ (h.step s1 t1)
        exact ⟨s1.trans s2 (fun _ _ h => h), by rw [t2, t1]⟩
      · exact ⟨s1, t1⟩
    | recover p =>
      simp only [exec]
      obtain ⟨s1, t1⟩ := ih p g c w h
      split
      · exact ⟨s1.trans (emit_step s1.inv EvOK.recovered) (fun _ _ _ => by simp), t1⟩
      · exact ⟨s1, t1⟩
    | doctx id p =>
      simp only [exec, forkCtx_fst]
      have sF : Step none w (forkCtx c w).2 := forkCtx_step h.inv
      have sV : Step (some w.nextCtx) (forkCtx c w).2 (setTag w.nextCtx id (forkCtx c w).2) := setTag_step sF.inv
      have hd := doWithContext_step (g := g) (cx := w.nextCtx) (w := setTag w.nextCtx id (forkCtx c w).2)
        (body := fun w2 => exec .now f p g w.nextCtx w2)
        sV.inv h.glt h.gnp (Nat.lt_succ_self _) (ctx_fresh_not_pend h.inv) (fun g' => ctx_fresh_not_estab h.inv g')
        (fun w1 hp => ih p g w.nextCtx w1 hp)
      refine ⟨(sF.weaken (x := some c)).trans (sV.trans hd.1 (fun _ _ h => h)) ?_, by rw [hd.2]; rfl⟩
      intro i hi _ hc
      simp at hc; omega
    | dodo id p =>
      simp only [exec]
      obtain ⟨sd, td⟩ := doDo_step (id := id) (ctch := false) (body := fun cx w1 => exec .now f p g cx w1) h.inv h.glt h.gnp
        (fun cx w1 hp => ih p g cx w1 hp)
      exact ⟨sd.weaken, td⟩
    | dotry id p =>
      simp only [exec]
      obtain ⟨sd, td⟩ := doDo_step (id := id) (ctch := true) (body := fun cx w1 => exec .now f p g cx w1) h.inv h.glt h.gnp
        (fun cx w1 hp => ih p g cx w1 hp)
      exact ⟨sd.weaken, td⟩
    | doloader p =>
      simp only [exec]
      have s1 : Step none w (newLoader w).2 := newLoader_step h.inv
      have s2 : Step (some c) (newLoader w).2
          (ctxUpd c (fun y => { y with loader := (newLoader w).1 :: (w.ctxs c).loader }) (newLoader w).2) := ctxUpd_step s1.inv
      have s12 := (s1.weaken (x := some c)).trans s2 (fun _ _ h => h)
      obtain ⟨s3, t3⟩ := ih p g c _ (h.step s12 rfl)
      have s4 := ctxUpd_step (c := c) (f := fun y => { y with loader := (w.ctxs c).loader }) s3.inv
      exact ⟨(s12.trans s3 (fun _ _ h => h)).trans s4 (fun _ _ h => h), Eq.trans (show (ctxUpd c _ _).tls = _ from rfl) (t3.trans rfl)⟩
    | fork p =>
      simp only [exec]
      exact ⟨(spawn_step h.inv).weaken, rfl⟩
    | go p =>
      simp only [exec, h.cur]
      exact ⟨(spawn_step h.inv).weaken, rfl⟩

/-- `pcore.Do` by a goroutine that has no current context (or any other): no `Pre` needed -/
theorem exec_dodo_step {f : Nat} {id : Nat} {p : Prog} {g c : Nat} {w : World}
    (hinv : Inv w) (hg : g < w.nextGid) (hgp : g ∉ pendGids w) :
    Step none w (exec .now f (.dodo id p) g c w).2 ∧ (exec .now f (.dodo id p) g c w).2.tls = w.tls := by
  cases f with
  | zero => exact ⟨Step.refl hinv, rfl⟩
  | succ f =>
    simp only [exec]
    exact doDo_step (id := id) (ctch := false) (body := fun cx w1 => exec .now f p g cx w1) hinv hg hgp
      (fun cx w1 hp => exec_step f p g cx w1 hp)

/-- `pcore.Try` likewise -/
theorem exec_dotry_step {f : Nat} {id : Nat} {p : Prog} {g c : Nat} {w : World}
    (hinv : Inv w) (hg : g < w.nextGid) (hgp : g ∉ pendGids w) :
    Step none w (exec .now f (.dotry id p) g c w).2 ∧ (exec .now f (.dotry id p) g c w).2.tls = w.tls := by
  cases f with
  | zero => exact ⟨Step.refl hinv, rfl⟩
  | succ f =>
    simp only [exec]
    exact doDo_step (id := id) (ctch := true) (body := fun cx w1 => exec .now f p g cx w1) hinv hg hgp
      (fun cx w1 hp => exec_step f p g cx w1 hp)

theorem drain_step (fuel : Nat) : ∀ (n : Nat) (w : World), Inv w →
    Step none w (drain .now fuel n w) ∧ (drain .now fuel n w).tls = w.tls := by
  intro n
  induction n with
  | zero =>
    intro w h
    exact ⟨Step.of_same h rfl rfl rfl rfl rfl (logOK_same rfl rfl) (fun _ _ => rfl), rfl⟩
  | succ n ih =>
    intro w h
    simp only [drain]
    split
    · exact ⟨Step.refl h, rfl⟩
    · rename_i t r hp
      have ht : w.pending[0]? = some t := by rw [hp]; rfl
      have he : r = w.pending.eraseIdx 0 := by rw [hp]; rfl
      rw [he]
      obtain ⟨s1, t1⟩ := runTask_step (exec_step fuel) h ht
      obtain ⟨s2, t2⟩ := ih _ s1.inv
      exact ⟨s1.trans s2 (fun _ _ h => h), by rw [t2, t1]⟩

theorem inv_init (sched : List Nat) : Inv { sched := sched } := by
  refine ⟨fun _ _ => rfl, ?_, ?_, List.nodup_nil, ?_, ?_, ?_, List.nodup_nil, ?_, ?_⟩
  · intro t h; simp at h
  · intro t h; simp at h
  · intro g t h; simp at h
  · intro g c h; simp at h
  · intro t h; simp at h
  · intro t h; simp at h
  · intro g g' c h; simp at h

/-- the whole op of the harness -/
theorem run_step (sched : List Nat) (p : Prog) :
    Step none { sched := sched } (run .now sched p) ∧ (run .now sched p).tls = fun _ => none := by
  simp only [run]
  have h0 := inv_init sched
  obtain ⟨s1, t1⟩ := exec_dodo_step (f := fuelFor p) (id := 1000) (p := p) (g := 0) (c := 0) h0 (Nat.zero_lt_one) (by simp [pendGids])
  generalize exec .now (fuelFor p) (.dodo 1000 p) 0 0 { sched := sched } = r at s1 t1
  have s2 : Step none r.2 (emit 0 (.done r.1) r.2) := emit_step s1.inv EvOK.done
  have s3 : Step none (emit 0 (.done r.1) r.2)
      { emit 0 (.done r.1) r.2 with oof := (emit 0 (.done r.1) r.2).oof || decide (r.1 = .fuel) } :=
    Step.of_same s2.inv rfl rfl rfl rfl rfl (logOK_same rfl rfl) (fun _ _ => rfl)
  obtain ⟨s4, t4⟩ := drain_step (fuelFor p) (fuelFor p) _ s3.inv
  exact ⟨((s1.trans s2 (fun _ _ h => h)).trans s3 (fun _ _ h => h)).trans s4 (fun _ _ h => h), by rw [t4]; exact t1⟩

end Pcore.Tls
