import Pcore.Proofs.Lex
import Pcore.Model.Parse
/-!
Helper lemmas about the parser model: the mutual induction over the fuel that shows, for `parseItem`, `arrayLoop`
and `hashLoop` at once, that (1) the `fault` results are unreachable, (2) the fuel `parseFile` supplies is never
exhausted, (3) every state and every error position is a suffix of the input (so it can be located inside it).
-/
namespace Pcore.Syntax

/-- a result that is neither a fault nor out of fuel, whose value satisfies `p` and whose error (if any) stands at a
    suffix of `r0` -/
def PR.Fine {α : Type} (p : α → Prop) (r0 : List Sym) : PR α → Prop
  | .ok a => p a
  | .err e => e.rest <:+ r0
  | .fault _ => False
  | .nofuel => False

theorem PR.Fine.bind {α β : Type} {p : α → Prop} {p' : β → Prop} {r0 : List Sym} {x : PR α} {f : α → PR β}
    (hx : x.Fine p r0) (hf : ∀ a, p a → (f a).Fine p' r0) : (x.bind f).Fine p' r0 := by
  cases x with
  | ok a => exact hf a hx
  | err e => exact hx
  | fault k => exact hx
  | nofuel => exact hx

theorem PR.Fine.mono {α : Type} {p p' : α → Prop} {r1 r0 : List Sym} {x : PR α}
    (hx : x.Fine p r1) (hs : r1 <:+ r0) (hp : ∀ a, p a → p' a) : x.Fine p' r0 := by
  cases x with
  | ok a => exact hp a hx
  | err e => exact List.IsSuffix.trans hx hs
  | fault k => exact hx
  | nofuel => exact hx

/-- what `readTok` guarantees -/
def TokP (rest : List Sym) (r : Tok × PS) : Prop :=
  r.2.rest <:+ rest ∧ (r.1.k ≠ .eoi → r.2.rest.length < rest.length)

theorem readTok_fine (env : Env) (rest : List Sym) : (readTok env rest).Fine (TokP rest) rest := by
  unfold readTok nextToken
  have hs := nextTok_suffix env.isLetter false rest
  split
  · rename_i r b h; rw [h] at hs; exact hs
  · rename_i t r b h
    rw [h] at hs
    refine ⟨hs, fun hne => ?_⟩
    rcases nextTok_progress _ _ _ _ _ _ h with hlt | ⟨he, _, _⟩
    · exact hlt
    · exact absurd he hne

/-- what an item guarantees: the state after its look-ahead token is a suffix -/
def ItemP (t : Tok) (r0 : List Sym) : Option (Expr × Tok × PS) → Prop
  | none => True
  | some (_, _, st) => t.k ≠ .eoi ∧ st.rest <:+ r0

def ArrP (r0 : List Sym) (r : Expr × PS) : Prop := (∃ es, r.1 = .arr es) ∧ r.2.rest <:+ r0
def HashP (r0 : List Sym) (r : List (Expr × Expr) × PS) : Prop := r.2.rest <:+ r0

theorem after_fine (env : Env) (t : Tok) (ht : t.k ≠ .eoi) (v : Expr) (st : PS) (r0 : List Sym) (h : st.rest <:+ r0) :
    (after env v st).Fine (ItemP t r0) r0 := by
  unfold after
  refine ((readTok_fine env st.rest).mono h (fun a ha => ha)).bind ?_
  intro a ha
  exact ⟨ht, ha.1.trans h⟩

theorem synErr_rest (st : PS) : (synErr st).rest = st.rest := rfl

theorem asArray_fine (r0 : List Sym) (e : Expr) (h : ∃ es, e = .arr es) :
    (asArray e).Fine (fun _ => True) r0 := by
  rcases h with ⟨es, rfl⟩
  simp [asArray, PR.Fine]

/-- the statement proved by induction on the fuel -/
structure FuelOK (env : Env) (f : Nat) : Prop where
  item : ∀ t st, (t.k ≠ .eoi → 2 * st.rest.length + 2 ≤ f) → (parseItem env f t st).Fine (ItemP t st.rest) st.rest
  arr : ∀ close st items rock, 2 * st.rest.length + 1 ≤ f →
    (arrayLoop env f close st items rock).Fine (ArrP st.rest) st.rest
  hash : ∀ st items, 2 * st.rest.length + 1 ≤ f → (hashLoop env f st items).Fine (HashP st.rest) st.rest

theorem len_le_of_suffix {a b : List Sym} (h : a <:+ b) : a.length ≤ b.length := h.length_le

theorem fuelOK_zero (env : Env) : FuelOK env 0 := by
  refine ⟨?_, ?_, ?_⟩
  · intro t st h
    have hk : t.k = .eoi := by
      by_cases hk : t.k = .eoi
      · exact hk
      · have := h hk; omega
    unfold parseItem
    simp [hk, PR.Fine, ItemP]
  · intro close st items rock h; omega
  · intro st items h; omega

/-- the item cases that do not recurse -/
theorem item_leaf_fine (env : Env) (t : Tok) (ht : t.k ≠ .eoi) (st : PS) (v : Expr) :
    (after env v st).Fine (ItemP t st.rest) st.rest := after_fine env t ht v st st.rest (List.suffix_refl _)

theorem fuelOK_succ (env : Env) (f : Nat) (ih : FuelOK env f) : FuelOK env (f + 1) := by
  refine ⟨?_, ?_, ?_⟩
  · -- parseItem
    intro t st h
    unfold parseItem
    by_cases hk : t.k = .eoi
    · simp [hk, PR.Fine, ItemP]
    · have hf : 2 * st.rest.length + 2 ≤ f + 1 := h hk
      split
      · -- int
        split
        · exact List.suffix_refl _
        · exact item_leaf_fine env t hk st _
      · -- float
        split
        · exact List.suffix_refl _
        · exact item_leaf_fine env t hk st _
      · exact item_leaf_fine env t hk st _
      · exact item_leaf_fine env t hk st _
      · -- regexp
        split
        · exact item_leaf_fine env t hk st _
        · exact List.suffix_refl _
      · -- [
        refine (ih.arr _ st [] none (by omega)).bind ?_
        intro r hr
        exact after_fine env t hk _ _ _ hr.2
      · -- (
        refine (ih.arr _ st [] none (by omega)).bind ?_
        intro r hr
        exact after_fine env t hk _ _ _ hr.2
      · -- {
        refine (ih.hash st [] (by omega)).bind ?_
        intro r hr
        exact after_fine env t hk _ _ _ hr
      · -- name
        refine (readTok_fine env st.rest).bind ?_
        intro r hr
        have hlen : r.2.rest.length ≤ st.rest.length := hr.1.length_le
        simp only
        split
        · -- Name[
          refine ((ih.arr _ r.2 [] none (by omega)).mono hr.1 (fun a ha => ha)).bind ?_
          intro r2 hr2
          refine (asArray_fine st.rest r2.1 hr2.1).bind ?_
          intro es _
          split
          · exact hr2.2.trans hr.1
          · exact after_fine env t hk _ _ _ (hr2.2.trans hr.1)
        · -- Name{
          refine ((ih.hash r.2 [] (by omega)).mono hr.1 (fun a ha => ha)).bind ?_
          intro r2 hr2
          exact after_fine env t hk _ _ _ (List.IsSuffix.trans hr2 hr.1)
        · -- Name(
          refine ((ih.arr _ r.2 [] none (by omega)).mono hr.1 (fun a ha => ha)).bind ?_
          intro r2 hr2
          refine (asArray_fine st.rest r2.1 hr2.1).bind ?_
          intro es _
          split
          · exact after_fine env t hk _ _ _ (hr2.2.trans hr.1)
          · split
            · exact hr2.2.trans hr.1
            · exact after_fine env t hk _ _ _ (hr2.2.trans hr.1)
        · -- bare name
          exact ⟨hk, hr.1⟩
      · simp [PR.Fine, ItemP]
  · -- arrayLoop
    intro close st items rock h
    unfold arrayLoop
    refine (readTok_fine env st.rest).bind ?_
    intro r hr
    have hlen : r.2.rest.length ≤ st.rest.length := hr.1.length_le
    simp only
    have hitem : (parseItem env f r.1 r.2).Fine (ItemP r.1 r.2.rest) r.2.rest := by
      apply ih.item
      intro hne
      have := hr.2 hne
      omega
    refine (hitem.mono hr.1 (fun a ha => ha)).bind ?_
    intro o ho
    cases o with
    | none =>
      simp only
      split
      · exact ⟨⟨_, rfl⟩, hr.1⟩
      · exact hr.1
    | some x =>
      obtain ⟨v, tk, st2⟩ := x
      -- an item was parsed, so the token that started it was not `end`
      have hs2 : st2.rest <:+ r.2.rest := ho.2
      have hne : r.1.k ≠ .eoi := ho.1
      have hlt := hr.2 hne
      have hlen2 : st2.rest.length ≤ r.2.rest.length := hs2.length_le
      simp only
      split
      · exact ⟨⟨_, rfl⟩, hs2.trans hr.1⟩
      · split
        · exact (ih.arr _ st2 _ _ (by omega)).mono (hs2.trans hr.1) (fun a ha => ⟨ha.1, ha.2.trans (hs2.trans hr.1)⟩)
        · split
          · exact (ih.arr _ st2 _ _ (by omega)).mono (hs2.trans hr.1) (fun a ha => ⟨ha.1, ha.2.trans (hs2.trans hr.1)⟩)
          · exact hs2.trans hr.1
  · -- hashLoop
    intro st items h
    unfold hashLoop
    refine (readTok_fine env st.rest).bind ?_
    intro r hr
    have hlen : r.2.rest.length ≤ st.rest.length := hr.1.length_le
    simp only
    have hitem : (parseItem env f r.1 r.2).Fine (ItemP r.1 r.2.rest) r.2.rest := by
      apply ih.item
      intro hne
      have := hr.2 hne
      omega
    refine (hitem.mono hr.1 (fun a ha => ha)).bind ?_
    intro o ho
    cases o with
    | none =>
      simp only
      split
      · exact hr.1
      · exact hr.1
    | some x =>
      obtain ⟨k, tk, st2⟩ := x
      have hs2 : st2.rest <:+ r.2.rest := ho.2
      have hne : r.1.k ≠ .eoi := ho.1
      have hlt := hr.2 hne
      have hlen2 : st2.rest.length ≤ r.2.rest.length := hs2.length_le
      have hs20 : st2.rest <:+ st.rest := hs2.trans hr.1
      simp only
      split
      · exact hs20
      · refine ((readTok_fine env st2.rest).mono hs20 (fun a ha => ha)).bind ?_
        intro r2 hr2
        have hlen3 : r2.2.rest.length ≤ st2.rest.length := hr2.1.length_le
        have hs30 : r2.2.rest <:+ st.rest := hr2.1.trans hs20
        have hitem2 : (parseItem env f r2.1 r2.2).Fine (ItemP r2.1 r2.2.rest) r2.2.rest := by
          apply ih.item
          intro _
          omega
        refine (hitem2.mono hs30 (fun a ha => ha)).bind ?_
        intro o2 ho2
        cases o2 with
        | none => exact hs30
        | some y =>
          obtain ⟨v, tk2, st4⟩ := y
          have hs4 : st4.rest <:+ r2.2.rest := ho2.2
          have hlen4 : st4.rest.length ≤ r2.2.rest.length := hs4.length_le
          have hs40 : st4.rest <:+ st.rest := hs4.trans hs30
          simp only
          split
          · exact hs40
          · split
            · exact (ih.hash st4 _ (by omega)).mono hs40 (fun a ha => List.IsSuffix.trans ha hs40)
            · exact hs40

theorem fuelOK (env : Env) : ∀ f, FuelOK env f
  | 0 => fuelOK_zero env
  | f + 1 => fuelOK_succ env f (fuelOK env f)

theorem parseTop_fine (env : Env) (fuel : Nat) (t : Tok) (st : PS) (h : 2 * st.rest.length + 2 ≤ fuel) :
    (parseTop env fuel t st).Fine (fun r => r.2.rest <:+ st.rest) st.rest := by
  unfold parseTop
  refine ((fuelOK env fuel).item t st (fun _ => h)).bind ?_
  intro o ho
  cases o with
  | none =>
    simp only
    split
    · exact List.suffix_refl _
    · exact List.suffix_refl _
  | some x =>
    obtain ⟨v, tk, st1⟩ := x
    have hs1 : st1.rest <:+ st.rest := ho.2
    have hl1 := hs1.length_le
    simp only
    split
    · refine ((readTok_fine env st1.rest).mono hs1 (fun a ha => ha)).bind ?_
      intro r hr
      have hs2 : r.2.rest <:+ st.rest := hr.1.trans hs1
      have hl2 := hr.1.length_le
      refine (((fuelOK env fuel).item r.1 r.2 (fun _ => by omega)).mono hs2 (fun a ha => ha)).bind ?_
      intro o2 ho2
      cases o2 with
      | none => exact hs2
      | some y =>
        obtain ⟨v2, tk2, st3⟩ := y
        have hs3 : st3.rest <:+ st.rest := List.IsSuffix.trans ho2.2 hs2
        simp only
        split
        · exact hs3
        · exact hs3
    · split
      · exact hs1
      · exact hs1

theorem namedType_fine (name : Str) (v : Expr) (st : PS) (r0 : List Sym) (h : st.rest <:+ r0) :
    (namedType name v st).Fine (fun _ => True) r0 := by
  unfold namedType
  repeat' first
    | exact h
    | trivial
    | split

/-- the whole parser: never a fault, never out of fuel, every error stands at a suffix of the input -/
theorem parseFile_fine (env : Env) (inp : List Sym) : (parseFile env inp).Fine (fun _ => True) inp := by
  unfold parseFile fuelFor
  refine (readTok_fine env inp).bind ?_
  intro r hr
  have hl := hr.1.length_le
  simp only
  split
  · refine ((readTok_fine env r.2.rest).mono hr.1 (fun a ha => ha)).bind ?_
    intro r2 hr2
    have hs2 : r2.2.rest <:+ inp := hr2.1.trans hr.1
    have hl2 := hr2.1.length_le
    split
    · refine ((readTok_fine env r2.2.rest).mono hs2 (fun a ha => ha)).bind ?_
      intro r3 hr3
      have hs3 : r3.2.rest <:+ inp := hr3.1.trans hs2
      have hl3 := hr3.1.length_le
      split
      · exact hs3
      · refine ((readTok_fine env r3.2.rest).mono hs3 (fun a ha => ha)).bind ?_
        intro r4 hr4
        have hs4 : r4.2.rest <:+ inp := hr4.1.trans hs3
        have hl4 := hr4.1.length_le
        refine ((parseTop_fine env _ r4.1 r4.2 (by omega)).mono hs4 (fun a ha => ha)).bind ?_
        intro r5 hr5
        exact namedType_fine _ _ _ _ (List.IsSuffix.trans hr5 hs4)
    · refine ((readTok_fine env r2.2.rest).mono hs2 (fun a ha => ha)).bind ?_
      intro r3 hr3
      have hs3 : r3.2.rest <:+ inp := hr3.1.trans hs2
      have hl3 := hr3.1.length_le
      refine ((parseTop_fine env _ r3.1 r3.2 (by omega)).mono hs3 (fun a ha => ha)).bind ?_
      intro r5 _
      trivial
    · exact hs2
  · refine ((parseTop_fine env _ r.1 r.2 (by omega)).mono hr.1 (fun a ha => ha)).bind ?_
    intro r5 _
    trivial

/-! ### positions -/

/-- number of lines of the input -/
def lineCount : List Sym → Nat
  | [] => 1
  | s :: tl => if s = .chr '\n' then 1 + lineCount tl else lineCount tl

/-- number of symbols on line `i` (0-based) of the input -/
def lineWidth : List Sym → Nat → Nat
  | [], _ => 0
  | s :: tl, i =>
    if s = .chr '\n' then (match i with | 0 => 0 | i + 1 => lineWidth tl i)
    else (match i with | 0 => 1 + lineWidth tl 0 | i + 1 => lineWidth tl (i + 1))

theorem advance_bound (pre rest : List Sym) (l0 c0 : Nat) :
    l0 ≤ (advance l0 c0 pre).1 ∧ (advance l0 c0 pre).1 - l0 < lineCount (pre ++ rest) ∧
    (advance l0 c0 pre).2 ≤ (if (advance l0 c0 pre).1 = l0 then c0 else 1) +
      lineWidth (pre ++ rest) ((advance l0 c0 pre).1 - l0) := by
  induction pre generalizing l0 c0 with
  | nil =>
    have hpos : ∀ l : List Sym, 0 < lineCount l := by
      intro l; induction l with
      | nil => simp [lineCount]
      | cons s tl ih => simp only [lineCount]; split <;> omega
    simp [advance]
    exact hpos rest
  | cons s tl ih =>
    simp only [advance, List.cons_append]
    by_cases hs : s = .chr '\n'
    · simp only [hs, if_true, lineCount, lineWidth]
      obtain ⟨h1, h2, h3⟩ := ih (l0 + 1) 1
      have hne : (advance (l0 + 1) 1 tl).1 ≠ l0 := by omega
      refine ⟨by omega, by omega, ?_⟩
      rw [if_neg hne]
      have : (advance (l0 + 1) 1 tl).1 - l0 = ((advance (l0 + 1) 1 tl).1 - (l0 + 1)) + 1 := by omega
      rw [this]
      simp only
      split at h3 <;> omega
    · simp only [hs, if_false, lineCount, lineWidth]
      obtain ⟨h1, h2, h3⟩ := ih l0 (c0 + 1)
      refine ⟨h1, h2, ?_⟩
      by_cases he : (advance l0 (c0 + 1) tl).1 = l0
      · rw [if_pos he] at h3 ⊢
        have : (advance l0 (c0 + 1) tl).1 - l0 = 0 := by omega
        rw [this] at h3 ⊢
        simp only
        omega
      · rw [if_neg he] at h3 ⊢
        obtain ⟨k, hk⟩ : ∃ k, (advance l0 (c0 + 1) tl).1 - l0 = k + 1 := ⟨(advance l0 (c0 + 1) tl).1 - l0 - 1, by omega⟩
        rw [hk] at h3 ⊢
        simp only
        exact h3

theorem take_of_suffix {rest inp : List Sym} (h : rest <:+ inp) :
    inp.take (inp.length - rest.length) ++ rest = inp := by
  obtain ⟨pre, rfl⟩ := h
  simp

/-- the reader's position at a suffix of the input lies inside the input -/
theorem pos_bound (inp rest : List Sym) (b : Bool) (h : rest <:+ inp) :
    1 ≤ (pos inp rest b).1 ∧ (pos inp rest b).1 ≤ lineCount inp ∧
    (pos inp rest b).2 ≤ lineWidth inp ((pos inp rest b).1 - 1) + 2 := by
  unfold pos
  have hb := advance_bound (inp.take (inp.length - rest.length)) rest 1 0
  rw [take_of_suffix h] at hb
  obtain ⟨h1, h2, h3⟩ := hb
  simp only
  refine ⟨h1, by omega, ?_⟩
  split at h3 <;> split <;> omega

end Pcore.Syntax
