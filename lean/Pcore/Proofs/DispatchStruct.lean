import Pcore.Model.Dispatch
/-!
`StructType.IsInstance` (the count `matched == Len()`) read declaratively: every key of the hash is the name of a declared
member, every member is present with a value of its type or is optional and absent.  Core Lean only.
-/
namespace Pcore.Dispatch.Alpha

/-- the entry's key is the string `name` -/
def keyIs (name : String) : Val × Val → Bool
  | (.str s, _) => s == name
  | _ => false

/-- the entry's key is the name of some member -/
def declaredKey (ms : List (String × Bool × Ty)) (e : Val × Val) : Bool := ms.any fun m => keyIs m.1 e

theorem lookupKey_some_count (name : String) (es : List (Val × Val)) (x : Val) (h : lookupKey name es = some x) :
    1 ≤ (es.filter (keyIs name)).length := by
  induction es with
  | nil => simp [lookupKey] at h
  | cons e es ih =>
    obtain ⟨k, y⟩ := e
    cases k with
    | str s =>
      by_cases hs : s = name
      · simp [List.filter, keyIs, hs]
      · simp only [lookupKey, hs, if_false] at h
        have := ih h
        simp only [List.filter, keyIs]
        split <;> simp <;> omega
    | _ =>
      simp only [lookupKey] at h
      have := ih h
      simp [List.filter, keyIs]; omega

theorem filter_len_mono {α : Type} (p q : α → Bool) (l : List α) (h : ∀ a, p a = true → q a = true) :
    (l.filter p).length ≤ (l.filter q).length := by
  induction l with
  | nil => simp
  | cons a l ih =>
    simp only [List.filter]
    cases hp : p a
    · cases hq : q a <;> simp <;> omega
    · simp [h a hp]; omega

theorem filter_len_all {α : Type} (p : α → Bool) (l : List α) (h : (l.filter p).length = l.length) :
    ∀ a ∈ l, p a = true := by
  induction l with
  | nil => simp
  | cons a l ih =>
    simp only [List.filter] at h
    cases hp : p a
    · simp [hp] at h
      have := List.length_filter_le p l
      omega
    · simp only [hp, List.length_cons, Nat.add_right_cancel_iff] at h
      intro b hb
      rcases List.mem_cons.mp hb with rfl | hb
      · exact hp
      · exact ih h b hb

/-- with a fresh member name the declared entries split into those of the new member and those of the others -/
theorem declared_split (name : String) (o : Bool) (t : Ty) (ms : List (String × Bool × Ty))
    (hfresh : name ∉ ms.map (·.1)) (es : List (Val × Val)) :
    (es.filter (declaredKey ((name, o, t) :: ms))).length =
      (es.filter (keyIs name)).length + (es.filter (declaredKey ms)).length := by
  induction es with
  | nil => simp
  | cons e es ih =>
    have hd : declaredKey ((name, o, t) :: ms) e = (keyIs name e || declaredKey ms e) := by simp [declaredKey]
    have hex : ¬ (keyIs name e = true ∧ declaredKey ms e = true) := by
      rintro ⟨h1, h2⟩
      obtain ⟨k, y⟩ := e
      simp only [declaredKey, List.any_eq_true] at h2
      obtain ⟨m, hm, hk⟩ := h2
      cases k <;> simp [keyIs] at h1 hk
      subst h1
      exact hfresh (List.mem_map.mpr ⟨m, hm, hk.symm⟩)
    simp only [List.filter, hd]
    cases h1 : keyIs name e <;> cases h2 : declaredKey ms e
    · simp [ih]
    · simp [ih]; omega
    · simp [ih]; omega
    · exact absurd ⟨h1, h2⟩ hex

theorem instMembers_le (ms : List (String × Bool × Ty)) (es : List (Val × Val)) :
    (ms.map (·.1)).Nodup → ∀ n, instMembers ms es = some n → n ≤ (es.filter (declaredKey ms)).length := by
  induction ms with
  | nil => intro _ n h; simp [instMembers] at h; omega
  | cons m ms ih =>
    obtain ⟨name, o, t⟩ := m
    intro hnd n h
    simp only [List.map_cons, List.nodup_cons] at hnd
    have hsplit := declared_split name o t ms hnd.1 es
    simp only [instMembers] at h
    cases hl : lookupKey name es with
    | none =>
      simp only [hl] at h
      cases o with
      | false => simp at h
      | true =>
        simp at h
        have := ih hnd.2 n h
        omega
    | some x =>
      simp only [hl] at h
      by_cases hi : inst t x = true
      · simp only [hi, if_true] at h
        cases hr : instMembers ms es with
        | none => simp [hr] at h
        | some n' =>
          simp [hr] at h
          have := ih hnd.2 n' hr
          have := lookupKey_some_count name es x hl
          omega
      · simp [hi] at h

theorem instMembers_members (ms : List (String × Bool × Ty)) (es : List (Val × Val)) :
    ∀ n, instMembers ms es = some n →
      ∀ m ∈ ms, (∃ x, lookupKey m.1 es = some x ∧ inst m.2.2 x = true) ∨ (m.2.1 = true ∧ lookupKey m.1 es = none) := by
  induction ms with
  | nil => intro n _ m hm; simp at hm
  | cons m0 ms ih =>
    obtain ⟨name, o, t⟩ := m0
    intro n h m hm
    simp only [instMembers] at h
    cases hl : lookupKey name es with
    | none =>
      simp only [hl] at h
      cases o with
      | false => simp at h
      | true =>
        simp at h
        rcases List.mem_cons.mp hm with rfl | hm
        · exact Or.inr ⟨rfl, hl⟩
        · exact ih n h m hm
    | some x =>
      simp only [hl] at h
      by_cases hi : inst t x = true
      · simp only [hi, if_true] at h
        cases hr : instMembers ms es with
        | none => simp [hr] at h
        | some n' =>
          rcases List.mem_cons.mp hm with rfl | hm
          · exact Or.inl ⟨x, hl, hi⟩
          · exact ih n' hr m hm
      · simp [hi] at h

/-- an instance of a Struct type (distinct member names) has only declared keys, and every member is present with a
    value of its type, or optional and absent -/
theorem inst_struct (ms : List (String × Bool × Ty)) (hnd : (ms.map (·.1)).Nodup) (v : Val)
    (h : inst (.struct ms) v = true) :
    ∃ es, v = .hash es ∧ (∀ e ∈ es, ∃ m ∈ ms, e.1 = .str m.1) ∧
      ∀ m ∈ ms, (∃ x, lookupKey m.1 es = some x ∧ inst m.2.2 x = true) ∨ (m.2.1 = true ∧ lookupKey m.1 es = none) := by
  cases v <;> simp [inst] at h
  rename_i es
  refine ⟨es, rfl, ?_, ?_⟩
  · cases hm : instMembers ms es with
    | none => simp [hm] at h
    | some n =>
      simp [hm] at h
      have hle := instMembers_le ms es hnd n hm
      have hfl := List.length_filter_le (declaredKey ms) es
      have hall := filter_len_all (declaredKey ms) es (by omega)
      intro e he
      have := hall e he
      simp only [declaredKey, List.any_eq_true] at this
      obtain ⟨m, hm', hk⟩ := this
      obtain ⟨k, y⟩ := e
      cases k <;> simp [keyIs] at hk
      exact ⟨m, hm', by simp [hk]⟩
  · cases hm : instMembers ms es with
    | none => simp [hm] at h
    | some n => exact instMembers_members ms es n hm

end Pcore.Dispatch.Alpha
