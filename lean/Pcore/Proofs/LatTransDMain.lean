import Pcore.Proofs.LatTransDAlias
set_option linter.unusedSimpArgs false
set_option linter.unusedVariables false
/-! C03: transitivity on `Ty.TD sfh` (stage 4) — the receiver rules, the decomposition of the middle and of the right type, and the
    lexicographic induction (`transD_all`). -/
namespace Pcore.Lat
variable (cfg : Cfg) (sfh : Bool)

theorem vw_pos (t : Ty) : 0 < vw t := by
  cases t <;> (try (simp only [vw]; have := Ty.w_pos ‹Ty›; simp [Ty.w]; done)) <;> (try exact Ty.w_pos _)
  · rename_i e r
    rw [vw_array_eq]; split <;> (try split) <;> omega
  · rename_i k v r
    rw [vw_hash_eq]; split <;> (try split) <;> omega

theorem vw_optional (t : Ty) : vw (.optional t) = 2 + t.w := rfl
theorem vw_notUndef (t : Ty) : vw (.notUndef t) = 2 + t.w := rfl
theorem vw_variant (ts : List Ty) : vw (.variant ts) = 2 + Ty.wl ts := rfl
theorem vw_undef : vw .undef = 1 := rfl

theorem td_undef : Ty.TD sfh .undef := by unfold Ty.TD; trivial
theorem td_any : Ty.TD sfh .any := by unfold Ty.TD; trivial

/-- receiver `a`'s rule accepts plain `b`, and `b` accepts plain `c` -/
theorem trD_recv (hl : ∀ s, (cfg.lower s).length = s.length) (n : Nat) (ihA : TransA cfg sfh n) (a b c : Ty)
    (hw : a.w ≤ n + 1) (m : Nat) (ihB : TransB cfg sfh a m) (hm : vw b + vw c ≤ m + 1)
    (H : DHyp cfg sfh a b c) (hb : b.plainR = true) (hc : c.plainR = true)
    (h1 : asgRecv cfg sfh a b = true) (h2 : asg cfg sfh b c = true) : asg cfg sfh a c = true := by
  -- b's own rule on c (or b and c are the same shared singleton, or b is Any)
  have h2' : asgRecv cfg sfh b c = true ∨ b = c := by
    rw [asg_plain_r cfg sfh b c hc] at h2
    simp only [Bool.or_eq_true] at h2
    rcases h2 with (h | h) | h
    · left; cases b <;> simp [Ty.isAny] at h; unfold asgRecv; rfl
    · right; exact sameNullary_eq h
    · left; exact h
  rcases h2' with h2' | rfl
  case inr => exact recv_to_asg cfg sfh a b hb h1
  cases a with
  | any => exact asg_any_l cfg sfh c
  | unit => have := H.fa; unfold Ty.TD at this; exact absurd this id
  | callable _ _ _ => have := H.fa; unfold Ty.TD at this; exact absurd this id
  | data => exact recv_to_asg cfg sfh _ c hc (trD_alias_recv cfg sfh .data n ihA hw m ihB b c hm H h1 h2 h2')
  | richData => exact recv_to_asg cfg sfh _ c hc (trD_alias_recv cfg sfh .rich n ihA hw m ihB b c hm H h1 h2 h2')
  | tuple ts g => exact recv_to_asg cfg sfh _ c hc (trD_tuple cfg sfh n ihA ts g b c hw H h1 h2')
  | struct ms => exact recv_to_asg cfg sfh _ c hc (trD_struct cfg sfh n ihA ms b c hw H h1 h2')
  | iterable x => exact recv_to_asg cfg sfh _ c hc (trD_iterable cfg sfh n ihA x b c hw H h1 h2')
  | scalar => exact trD_scalar cfg sfh n ihA b c hw H hc h1 h2
  | scalarData => exact trD_scalarData cfg sfh n ihA b c hw H hc h1 h2
  | coll r => exact recv_to_asg cfg sfh _ c hc (trD_coll cfg sfh r b c H.fb H.fc h1 h2')
  | array e r => exact recv_to_asg cfg sfh _ c hc (trD_array cfg sfh n ihA e r b c hw H h1 h2')
  | hash k v r => exact recv_to_asg cfg sfh _ c hc (trD_hash cfg sfh n ihA k v r b c hw H h1 h2')
  | typ x => exact recv_to_asg cfg sfh _ c hc (trD_typ cfg sfh n ihA x b c hw H h1 h2')
  | sensitive x => exact recv_to_asg cfg sfh _ c hc (trD_sensitive cfg sfh n ihA x b c hw H h1 h2')
  | iterator x => exact recv_to_asg cfg sfh _ c hc (trD_iterator cfg sfh n ihA x b c hw H h1 h2')
  | variant as =>
    have fa := H.fa; unfold Ty.TD at fa
    simp only [Ty.w] at hw
    unfold asgRecv at h1
    rw [asgAnyL_iff] at h1
    obtain ⟨x, hx, hxb⟩ := h1
    have := ihA x b c (by have := Ty.w_lt_wl hx; omega) ⟨fa x hx, H.fb, H.fc, H.wb, H.wc⟩ hxb h2
    exact wv_all cfg sfh hx this
  | optional x =>
    have fa := H.fa; unfold Ty.TD at fa
    simp only [Ty.w] at hw
    unfold asgRecv at h1
    simp only [Bool.or_eq_true] at h1
    rcases h1 with h1 | h1
    · -- b is Undef (plain and accepted by Undef), so c is Undef
      have hbu : b = .undef := by
        rw [asg_plain_r cfg sfh _ b hb] at h1
        simp only [Bool.or_eq_true, Ty.isAny, Bool.false_eq_true, false_or] at h1
        rcases h1 with h1 | h1
        · exact (sameNullary_eq h1).symm
        · unfold asgRecv at h1; cases b <;> simp at h1; rfl
      subst hbu
      unfold asgRecv at h2'; cases c <;> simp at h2'
      exact asg_optional_undef cfg sfh x
    · have := ihA x b c (by omega) ⟨fa, H.fb, H.fc, H.wb, H.wc⟩ h1 h2
      exact wo_all cfg sfh this
  | notUndef x =>
    have fa := H.fa; unfold Ty.TD at fa
    simp only [Ty.w] at hw
    unfold asgRecv at h1
    have h1' : asg cfg sfh b .undef = false ∧ asg cfg sfh x b = true := by
      cases b <;> simp [Ty.plainR] at hb <;> simpa using h1
    have hxc := ihA x b c (by omega) ⟨fa, H.fb, H.fc, H.wb, H.wc⟩ h1'.2 h2
    have hcu : asg cfg sfh c .undef = false := by
      cases hh : asg cfg sfh c .undef with
      | false => rfl
      | true =>
        have := trans_undef cfg sfh c.w c (Nat.le_refl _) H.fc b H.fb h2 hh
        rw [this] at h1'; exact absurd h1'.1 (by simp)
    exact nu_accepts cfg sfh x c.w c (Nat.le_refl _) hcu hxc
  | _ =>
    apply recv_to_asg cfg sfh _ c hc
    exact tr_leaf cfg sfh hl _ b c hc H.wb trivial h1 h2'


/-- middle type decomposed, right-hand side plain -/
theorem trD_b (hl : ∀ s, (cfg.lower s).length = s.length) (n : Nat) (ihA : TransA cfg sfh n) (a b c : Ty)
    (hw : a.w ≤ n + 1) (m : Nat) (ihB : TransB cfg sfh a m) (hm : vw b + vw c ≤ m + 1)
    (H : DHyp cfg sfh a b c) (hA : a.isAny = false) (hc : c.plainR = true)
    (h1 : asg cfg sfh a b = true) (h2 : asg cfg sfh b c = true) : asg cfg sfh a c = true := by
  have hvc := vw_le c
  cases b with
  | unit => have := H.fb; unfold Ty.TD at this; exact absurd this id
  | data => exact trD_alias_mid cfg sfh .data a c m ihB hm H hc h1 h2
  | richData => exact trD_alias_mid cfg sfh .rich a c m ihB hm H hc h1 h2
  | optional ob =>
    have fb := H.fb; unfold Ty.TD at fb
    have wb := H.wb; unfold Ty.WF at wb
    rw [vw_optional] at hm
    have := vw_le ob
    obtain ⟨hau, hao⟩ := asg_optional_parts cfg sfh h1
    rw [asg_plain_r cfg sfh _ c hc] at h2
    simp only [Bool.or_eq_true, Ty.isAny, Bool.false_eq_true, false_or] at h2
    rcases h2 with h2 | h2
    · cases c <;> simp [sameNullary] at h2
    · unfold asgRecv at h2
      simp only [Bool.or_eq_true] at h2
      rcases h2 with h2 | h2
      · exact ihB .undef c (by rw [vw_undef]; omega) ⟨H.fa, td_undef sfh, H.fc, wf_undef cfg, H.wc⟩ hau h2
      · exact ihB ob c (by omega) ⟨H.fa, fb, H.fc, wb, H.wc⟩ hao h2
  | variant bs =>
    have fb := H.fb; unfold Ty.TD at fb
    have wb := H.wb; unfold Ty.WF at wb
    rw [vw_variant] at hm
    have hall := asg_variant_parts cfg sfh h1
    rw [asg_plain_r cfg sfh _ c hc] at h2
    simp only [Bool.or_eq_true, Ty.isAny, Bool.false_eq_true, false_or] at h2
    rcases h2 with h2 | h2
    · cases c <;> simp [sameNullary] at h2
    · unfold asgRecv at h2
      rw [asgAnyL_iff] at h2
      obtain ⟨x, hx, hxc⟩ := h2
      exact ihB x c (by have := Ty.w_lt_wl hx; have := vw_le x; omega) ⟨H.fa, fb x hx, H.fc, wb x hx, H.wc⟩ (hall x hx) hxc
  | notUndef nb =>
    have fb := H.fb; unfold Ty.TD at fb
    have wb := H.wb; unfold Ty.WF at wb
    rw [vw_notUndef] at hm
    have := vw_le nb
    -- NotUndef[nb]'s rule on the plain c
    have h2' : asg cfg sfh c .undef = false ∧ asg cfg sfh nb c = true := by
      rw [asg_plain_r cfg sfh _ c hc] at h2
      simp only [Bool.or_eq_true, Ty.isAny, Bool.false_eq_true, false_or] at h2
      rcases h2 with h2 | h2
      · cases c <;> simp [sameNullary] at h2
      · unfold asgRecv at h2
        cases c <;> simp [Ty.plainR] at hc <;> simpa using h2
    by_cases hnb : asg cfg sfh nb .undef = true
    · have hr := asg_nu_fall cfg sfh hA hnb h1
      rcases recvNUD_cases cfg sfh a nb H.fa hnb hr with h | ⟨as, x, rfl, hx, hxb⟩ | ⟨x, rfl, hx⟩ | ⟨x, rfl, hx⟩
      · subst h; simp [Ty.isAny] at hA
      · have fa := H.fa; unfold Ty.TD at fa
        simp only [Ty.w] at hw
        have := ihA x (.notUndef nb) c (by have := Ty.w_lt_wl hx; omega) ⟨fa x hx, H.fb, H.fc, H.wb, H.wc⟩ hxb h2
        exact wv_all cfg sfh hx this
      · have fa := H.fa; unfold Ty.TD at fa
        simp only [Ty.w] at hw
        have := ihA x (.notUndef nb) c (by omega) ⟨fa, H.fb, H.fc, H.wb, H.wc⟩ hx h2
        exact wo_all cfg sfh this
      · have fa := H.fa; unfold Ty.TD at fa
        simp only [Ty.w] at hw
        have hxc : asg cfg sfh x c = true := by
          rcases hx with hx | hx
          · exact ihA x nb c (by omega) ⟨fa, fb, H.fc, wb, H.wc⟩ hx h2'.2
          · exact ihA x (.notUndef nb) c (by omega) ⟨fa, H.fb, H.fc, H.wb, H.wc⟩ hx h2
        exact nu_accepts cfg sfh x c.w c (Nat.le_refl _) h2'.1 hxc
    · have hnb' := bool_false_of_ne_true hnb
      have := asg_nu_strict cfg sfh hnb' h1
      exact ihB nb c (by omega) ⟨H.fa, fb, H.fc, wb, H.wc⟩ this h2'.2
  | _ =>
    -- plain middle type
    rw [asg_plain_r cfg sfh a _ rfl] at h1
    simp only [Bool.or_eq_true, hA, Bool.false_eq_true, false_or] at h1
    rcases h1 with h1 | h1
    · have := sameNullary_eq h1; subst this; exact h2
    · exact trD_recv cfg sfh hl n ihA a _ c hw m ihB hm H rfl hc h1 h2

/-- right-hand side is `NotUndef[nc]` with `nc` accepting Undef (the receiver's own NotUndef arm decides) -/
theorem trD_c_nu (n : Nat) (ihA : TransA cfg sfh n) (a b nc : Ty)
    (hw : a.w ≤ n + 1) (m : Nat) (ihB : TransB cfg sfh a m) (hm : vw b + vw (.notUndef nc) ≤ m + 1)
    (H : DHyp cfg sfh a b (.notUndef nc)) (hA : a.isAny = false)
    (hnc : asg cfg sfh nc .undef = true)
    (h1 : asg cfg sfh a b = true) (h2 : asg cfg sfh b (.notUndef nc) = true) : asg cfg sfh a (.notUndef nc) = true := by
  have fc := H.fc; unfold Ty.TD at fc
  have wc := H.wc; unfold Ty.WF at wc
  by_cases hB : b.isAny = true
  · cases b <;> simp [Ty.isAny] at hB
    exact acceptsD_any cfg sfh a.w a (Nat.le_refl _) H.fa h1 _
  have hB' := bool_false_of_ne_true hB
  have hr := asg_nu_fall cfg sfh hB' hnc h2
  have rp : RecvPos cfg sfh (.notUndef nc) := Or.inr ⟨nc, rfl, hnc⟩
  rcases recvNUD_cases cfg sfh b nc H.fb hnc hr with h | ⟨bs, x, rfl, hx, hxc⟩ | ⟨ob, rfl, hoc⟩ | ⟨nb, rfl, hnbc⟩
  · subst h; simp [Ty.isAny] at hB
  · have fb := H.fb; unfold Ty.TD at fb
    have wb := H.wb; unfold Ty.WF at wb
    rw [vw_variant] at hm
    exact ihB x _ (by have := Ty.w_lt_wl hx; have := vw_le x; omega) ⟨H.fa, fb x hx, H.fc, wb x hx, H.wc⟩
      (asg_variant_parts cfg sfh h1 x hx) hxc
  · have fb := H.fb; unfold Ty.TD at fb
    have wb := H.wb; unfold Ty.WF at wb
    rw [vw_optional] at hm
    exact ihB ob _ (by have := vw_le ob; omega) ⟨H.fa, fb, H.fc, wb, H.wc⟩ (asg_optional_parts cfg sfh h1).2 hoc
  · have fb := H.fb; unfold Ty.TD at fb
    have wb := H.wb; unfold Ty.WF at wb
    rw [vw_notUndef] at hm
    by_cases hnb : asg cfg sfh nb .undef = true
    · have hra := asg_nu_fall cfg sfh hA hnb h1
      rcases recvNUD_cases cfg sfh a nb H.fa hnb hra with h | ⟨as, x, rfl, hx, hxb⟩ | ⟨x, rfl, hx⟩ | ⟨x, rfl, hx⟩
      · subst h; simp [Ty.isAny] at hA
      · have fa := H.fa; unfold Ty.TD at fa
        simp only [Ty.w] at hw
        have := ihA x (.notUndef nb) (.notUndef nc) (by have := Ty.w_lt_wl hx; omega)
          ⟨fa x hx, H.fb, H.fc, H.wb, H.wc⟩ hxb h2
        exact wv_all cfg sfh hx this
      · have fa := H.fa; unfold Ty.TD at fa
        simp only [Ty.w] at hw
        have := ihA x (.notUndef nb) (.notUndef nc) (by omega) ⟨fa, H.fb, H.fc, H.wb, H.wc⟩ hx h2
        exact wo_all cfg sfh this
      · have fa := H.fa; unfold Ty.TD at fa
        simp only [Ty.w] at hw
        rw [asg_notUndef_r]
        simp only [hnc, Bool.not_true, Bool.false_eq_true, if_false, Bool.or_eq_true]; right
        unfold asgRecv
        simp only [Bool.or_eq_true]
        rcases hx with hx | hx
        · rcases hnbc with h | h
          · left; exact ihA x nb nc (by omega) ⟨fa, fb, fc, wb, wc⟩ hx h
          · right; exact ihA x nb (.notUndef nc) (by omega) ⟨fa, fb, H.fc, wb, H.wc⟩ hx h
        · right; exact ihA x (.notUndef nb) (.notUndef nc) (by omega) ⟨fa, H.fb, H.fc, H.wb, H.wc⟩ hx h2
    · have hnb' := bool_false_of_ne_true hnb
      have hanb := asg_nu_strict cfg sfh hnb' h1
      rcases hnbc with h | h
      · exfalso
        have := trans_undef cfg sfh nc.w nc (Nat.le_refl _) fc nb fb h hnc
        rw [this] at hnb'; cases hnb'
      · exact ihB nb (.notUndef nc) (by have := vw_le nb; omega) ⟨H.fa, fb, H.fc, wb, H.wc⟩ hanb h

/-- one step of the inner induction: the right-hand decomposition -/
theorem transD_step (hl : ∀ s, (cfg.lower s).length = s.length) (n : Nat) (ihA : TransA cfg sfh n) (a : Ty) (hw : a.w ≤ n + 1)
    (m : Nat) (ihB : TransB cfg sfh a m) : TransB cfg sfh a (m + 1) := by
  intro b c hm H h1 h2
  by_cases hA : a.isAny = true
  · exact asg_of_isAny cfg sfh hA c
  have hA' := bool_false_of_ne_true hA
  have hvb := vw_pos b
  cases c with
  | unit => have := H.fc; unfold Ty.TD at this; exact absurd this id
  | data => exact trD_alias_right cfg sfh .data a b m ihB hm H h1 h2
  | richData => exact trD_alias_right cfg sfh .rich a b m ihB hm H h1 h2
  | optional oc =>
    have fc := H.fc; unfold Ty.TD at fc
    have wc := H.wc; unfold Ty.WF at wc
    rw [vw_optional] at hm
    have := vw_le oc
    obtain ⟨hbu, hbo⟩ := asg_optional_parts cfg sfh h2
    rw [asg_optional_r]
    simp only [Bool.or_eq_true, Bool.and_eq_true]; right
    exact ⟨ihB b .undef (by rw [vw_undef]; omega) ⟨H.fa, H.fb, td_undef sfh, H.wb, wf_undef cfg⟩ h1 hbu,
           ihB b oc (by omega) ⟨H.fa, H.fb, fc, H.wb, wc⟩ h1 hbo⟩
  | variant cs =>
    have fc := H.fc; unfold Ty.TD at fc
    have wc := H.wc; unfold Ty.WF at wc
    rw [vw_variant] at hm
    have hall := asg_variant_parts cfg sfh h2
    rw [asg_variant_r]
    simp only [Bool.or_eq_true]; right
    rw [asgAllR_iff]
    intro t ht
    exact ihB b t (by have := Ty.w_lt_wl ht; have := vw_le t; omega) ⟨H.fa, H.fb, fc t ht, H.wb, wc t ht⟩ h1 (hall t ht)
  | notUndef nc =>
    by_cases hnc : asg cfg sfh nc .undef = true
    · exact trD_c_nu cfg sfh n ihA a b nc hw m ihB hm H hA' hnc h1 h2
    · have hnc' := bool_false_of_ne_true hnc
      have fc := H.fc; unfold Ty.TD at fc
      have wc := H.wc; unfold Ty.WF at wc
      rw [vw_notUndef] at hm
      have := ihB b nc (by have := vw_le nc; omega) ⟨H.fa, H.fb, fc, H.wb, wc⟩ h1 (asg_nu_strict cfg sfh hnc' h2)
      exact asg_nu_of_strict cfg sfh hnc' this
  | _ => exact trD_b cfg sfh hl n ihA a b _ hw m ihB hm H hA' rfl h1 h2

theorem transD_all (hl : ∀ s, (cfg.lower s).length = s.length) : ∀ n, TransA cfg sfh n := by
  intro n
  induction n with
  | zero => intro a b c hw; have := Ty.w_pos a; omega
  | succ n ih =>
    intro a b c hw H h1 h2
    have level : ∀ m, TransB cfg sfh a m := by
      intro m
      induction m with
      | zero => intro b c hm; have := vw_pos b; omega
      | succ m ihm => exact transD_step cfg sfh hl n ih a hw m ihm
    exact level (vw b + vw c) b c (Nat.le_refl _) H h1 h2

/-! `Ty.TA` (the shape fragment of `C03_trans_alias_partial`) is defined in Proofs/LatFrag.lean. -/

/-- a well-formed term of the shape fragment lies in the fragment of the induction -/
theorem Ty.TA.td : ∀ (n : Nat) (t : Ty), t.w ≤ n → t.TA sfh → Ty.WF cfg t → t.TD sfh := by
  intro n
  induction n with
  | zero => intro t h; have := Ty.w_pos t; omega
  | succ n ih =>
    intro t hw h wf
    cases t <;> unfold Ty.TD <;> (try trivial) <;> unfold Ty.TA at h <;> simp only [Ty.w] at hw <;> (try exact absurd h id) <;>
      unfold Ty.WF at wf
    · exact ih _ (by omega) h wf
    · exact ⟨ih _ (by omega) h.1 wf.1, ih _ (by omega) h.2 wf.2⟩
    · exact ⟨h.1, fun t' hm => ih t' (by have := Ty.w_lt_wl hm; omega) (h.2 t' hm) (wf t' hm)⟩
    · exact ⟨h.1, wf.1, fun m hm => ih m.2.2 (by have := Ty.w_lt_wm hm; omega) (h.2 m hm) (wf.2 m hm)⟩
    · exact fun t' hm => ih t' (by have := Ty.w_lt_wl hm; omega) (h t' hm) (wf t' hm)
    · exact ih _ (by omega) h wf
    · exact ih _ (by omega) h wf
    · exact ih _ (by omega) h wf
    · exact ih _ (by omega) h wf
    · exact ih _ (by omega) h wf
    · exact ih _ (by omega) h wf

theorem transD (hl : ∀ s, (cfg.lower s).length = s.length) (a b c : Ty)
    (fa : a.TA sfh) (fb : b.TA sfh) (fc : c.TA sfh) (wa : Ty.WF cfg a) (wb : Ty.WF cfg b) (wc : Ty.WF cfg c)
    (h1 : asg cfg sfh a b = true) (h2 : asg cfg sfh b c = true) : asg cfg sfh a c = true :=
  transD_all cfg sfh hl a.w a b c (Nat.le_refl _)
    ⟨Ty.TA.td cfg sfh a.w a (Nat.le_refl _) fa wa, Ty.TA.td cfg sfh b.w b (Nat.le_refl _) fb wb,
     Ty.TA.td cfg sfh c.w c (Nat.le_refl _) fc wc, wb, wc⟩ h1 h2

end Pcore.Lat
