import Pcore.Model.Dispatch
/-!
What the acceptance of a block by a typed declared block type MEANS (`Alpha.binst`, the model of `CallableType.IsAssignable` /
`TupleType.IsAssignable` as `CallableWith` uses them): the block takes every call the declaration allows.  Core Lean only.
-/
namespace Pcore.Dispatch.Alpha

/-- position `j` of a type list that repeats its last type -/
def typeAt (ts : List BP) (j : Nat) : BP := ts.getD (Nat.min j (ts.length - 1)) .any

/-- the block takes a call with `n` arguments whose types are `argTy 0 … argTy (n-1)`: `n` is within its arity and each of its
    parameters accepts the argument it receives (a block without typed parameters takes anything) -/
def TakesCall (k : Blk) (n : Nat) (argTy : Nat → BP) : Prop :=
  k.min ≤ n ∧ leMax n k.max = true ∧ (k.types ≠ [] → ∀ j, j < n → BP.asg (typeAt k.types j) (argTy j) = true)

theorem typeAt_beyond (ts : List BP) (j : Nat) (h : ts.length - 1 ≤ j) : typeAt ts j = typeAt ts (ts.length - 1) := by
  unfold typeAt
  have h1 : Nat.min j (ts.length - 1) = ts.length - 1 := Nat.min_eq_right h
  have h2 : Nat.min (ts.length - 1) (ts.length - 1) = ts.length - 1 := Nat.min_self _
  rw [h1, h2]

theorem paramsOK_iff (bts dts : List BP) (hb : bts ≠ []) (hd : dts ≠ []) (dmax : Option Nat) :
    paramsOK bts dts dmax = true ↔
      ∀ idx, idx < Nat.max dts.length bts.length → (∀ m, dmax = some m → idx < m) →
        BP.asg (typeAt bts idx) (typeAt dts idx) = true := by
  have hb' : bts.isEmpty = false := by cases bts <;> simp at hb ⊢
  have hd' : dts.isEmpty = false := by cases dts <;> simp at hd ⊢
  unfold paramsOK
  simp only [hb', hd', Bool.false_or, List.all_eq_true, List.mem_range, Bool.or_eq_true]
  constructor
  · intro h idx hidx hm
    rcases h idx hidx with h1 | h1
    · cases dmax with
      | none => simp at h1
      | some m => simp at h1; have := hm m rfl; omega
    · exact h1
  · intro h idx hidx
    cases dmax with
    | none => right; exact h idx hidx (by simp)
    | some m =>
      by_cases hm : m ≤ idx
      · left; simp [hm]
      · right; exact h idx hidx (by intro m' hm'; cases hm'; omega)

/-- a typed declared block type accepts a block IFF the block takes every call the declaration allows: every argument count
    `n` in `[a, b]`, argument `j` of the declared type at position `min(j, last)` -/
theorem binst_typed_iff (ts : List BP) (hts : ts ≠ []) (a : Nat) (b : Option Nat) (hab : leMax a b = true) (k : Blk) :
    binst (.typed ts a b) k = true ↔ ∀ n, a ≤ n → leMax n b = true → TakesCall k n (typeAt ts) := by
  simp only [binst, Bool.and_eq_true]
  constructor
  · rintro ⟨hs, hp⟩ n han hnb
    unfold sizesOK at hs
    simp only [Bool.and_eq_true, decide_eq_true_eq] at hs
    refine ⟨by omega, ?_, ?_⟩
    · cases hk : k.max with
      | none => rfl
      | some m =>
        cases b with
        | none => simp [hk] at hs
        | some b' =>
          simp [hk] at hs
          simp [leMax] at hnb ⊢
          omega
    · intro hkt j hj
      have hall := (paramsOK_iff k.types ts hkt hts b).mp hp
      have hbound : ∀ i, i < n → ∀ m, b = some m → i < m := by
        intro i hi m hm; subst hm; simp [leMax] at hnb; omega
      by_cases hjt : j < Nat.max ts.length k.types.length
      · exact hall j hjt (hbound j hj)
      · -- beyond both lists: both repeat their last type, which was compared at the last position of the longer list
        have hlk : 0 < k.types.length := by cases hkk : k.types <;> simp_all
        have hlt : 0 < ts.length := by cases htt : ts <;> simp_all
        have htop : Nat.max ts.length k.types.length - 1 < Nat.max ts.length k.types.length := by
          have : 0 < Nat.max ts.length k.types.length := Nat.lt_of_lt_of_le hlt (Nat.le_max_left _ _)
          omega
        have hge : Nat.max ts.length k.types.length ≤ j := Nat.le_of_not_lt hjt
        have h1 : ts.length ≤ Nat.max ts.length k.types.length := Nat.le_max_left _ _
        have h2 : k.types.length ≤ Nat.max ts.length k.types.length := Nat.le_max_right _ _
        have hprev := hall (Nat.max ts.length k.types.length - 1) htop (hbound _ (by omega))
        rw [typeAt_beyond k.types j (by omega), typeAt_beyond ts j (by omega)]
        rw [typeAt_beyond k.types (Nat.max ts.length k.types.length - 1) (by omega),
          typeAt_beyond ts (Nat.max ts.length k.types.length - 1) (by omega)] at hprev
        exact hprev
  · intro h
    have ha := h a (Nat.le_refl a) hab
    constructor
    · unfold sizesOK
      simp only [Bool.and_eq_true, decide_eq_true_eq]
      refine ⟨ha.1, ?_⟩
      cases hk : k.max with
      | none => rfl
      | some m =>
        cases b with
        | none =>
          -- an unbounded declaration allows m + a + 1 arguments, which a block bounded by m does not take
          have := (h (m + a + 1) (by omega) rfl).2.1
          simp [hk, leMax] at this
          omega
        | some b' =>
          have hab' : a ≤ b' := by simpa [leMax] using hab
          have := (h b' hab' (by simp [leMax])).2.1
          simpa [hk, leMax] using this
    · by_cases hkt : k.types = []
      · simp [paramsOK, hkt]
      · rw [paramsOK_iff k.types ts hkt hts b]
        intro idx _ hm
        -- the call with max(a, idx + 1) arguments is allowed and reaches position idx
        have hallowed : leMax (Nat.max a (idx + 1)) b = true := by
          cases b with
          | none => rfl
          | some b' =>
            have hab' : a ≤ b' := by simpa [leMax] using hab
            have := hm b' rfl
            simp only [leMax, decide_eq_true_eq]
            exact Nat.max_le.mpr ⟨hab', by omega⟩
        have := (h (Nat.max a (idx + 1)) (Nat.le_max_left _ _) hallowed).2.2 hkt idx
          (Nat.lt_of_lt_of_le (Nat.lt_succ_self idx) (Nat.le_max_right _ _))
        exact this

end Pcore.Dispatch.Alpha
