import Pcore.Model.LoaderConc
import Pcore.Proofs.LoaderSeq
/-! Invariants of the interleaving model (C13): monotone shared state, per-thread invariants, reachability of schedules. -/
namespace Pcore.LoaderConc
open Pcore.LoaderSeq

/-- the shared state only grows: the hierarchy is fixed and a binding, once made, stays what it is -/
def Mono (s s' : Sys) : Prop :=
  s'.ps = s.ps ∧ s'.es.length = s.es.length ∧ ∀ l k v, bound s l k = some v → bound s' l k = some v

theorem Mono.refl (s : Sys) : Mono s s := ⟨rfl, rfl, fun _ _ _ h => h⟩

theorem Mono.trans {a b c : Sys} (h1 : Mono a b) (h2 : Mono b c) : Mono a c :=
  ⟨h2.1.trans h1.1, h2.2.1.trans h1.2.1, fun l k v h => h2.2.2 l k v (h1.2.2 l k v h)⟩

theorem define_mono (s : Sys) (l : Nat) (n : Name) (v : V) : Mono s (define s l n v).1 :=
  ⟨step_ps s (.define l n v), step_length s (.define l n v), fun l' k v' h => bound_step_mono s (.define l n v) l' k v' h⟩

theorem placeholder_mono (s : Sys) (l : Nat) (k : Key) : Mono s (s.setEnts l (setEntry (s.ents l) k none).1) :=
  ⟨rfl, by simp, fun l' k' v h => bound_setEnts_setEntry_mono s l' l k' k none v h⟩

/-- offering a placeholder never raises -/
theorem setEntry_none_res (es : Ents) (k : Key) : (setEntry es k none).2 = .stored ∨ (setEntry es k none).2 = .kept := by
  unfold setEntry
  split
  · exact Or.inl rfl
  · exact Or.inr rfl
  · exact Or.inl rfl

theorem define_ans (s : Sys) (l : Nat) (n : Name) (v : V) :
    (define s l n v).2 ≠ .fault ∧ ∀ w, (define s l n v).2 ≠ .found w := by
  unfold define
  split <;> exact ⟨by simp, by simp⟩

/-- what a continuation knows about the shared state -/
def WalkOK (s : Sys) : PC → Prop
  | .loadWalk l _ todo (.searching nones last) => (chain s.ps l).reverse = nones ++ todo ∧ last.join = none
  | .loadWalk l n todo (.foundAt nones x v) =>
    (∃ skipped, (chain s.ps l).reverse = nones ++ x :: skipped ++ todo) ∧ bound s x (canon n) = some v
  | .getHold l k (some (some v)) => bound s l k = some v
  | _ => True

def LogOK (s : Sys) (log : List (Ans × Src)) : Prop :=
  (∀ e ∈ log, ∀ x k v, e.2 = some (x, k, v) → bound s x k = some v) ∧
  (∀ e ∈ log, e.1 ≠ .fault) ∧
  (∀ e ∈ log, ∀ v, e.1 = .found v → ∃ x k, e.2 = some (x, k, v))

def ThreadInv (s : Sys) (t : Thread) : Prop := WalkOK s t.pc ∧ LogOK s t.log

def Inv (c : Config) : Prop := ∀ t ∈ c.th, ThreadInv c.sh t

theorem WalkOK_mono {s s' : Sys} (h : Mono s s') (pc : PC) (hw : WalkOK s pc) : WalkOK s' pc := by
  cases pc with
  | loadWalk l n todo st =>
    cases st with
    | searching nones last => simp only [WalkOK] at hw ⊢; rw [h.1]; exact hw
    | foundAt nones x v => simp only [WalkOK] at hw ⊢; rw [h.1]; exact ⟨hw.1, h.2.2 _ _ _ hw.2⟩
  | getHold l k e =>
    cases e with
    | none => trivial
    | some o => cases o with
      | none => trivial
      | some v => exact h.2.2 _ _ _ hw
  | _ => trivial

theorem LogOK_mono {s s' : Sys} (h : Mono s s') (log : List (Ans × Src)) (hl : LogOK s log) : LogOK s' log :=
  ⟨fun e he x k v hs => h.2.2 _ _ _ (hl.1 e he x k v hs), hl.2.1, hl.2.2⟩

theorem ThreadInv_mono {s s' : Sys} (h : Mono s s') (t : Thread) (ht : ThreadInv s t) : ThreadInv s' t :=
  ⟨WalkOK_mono h _ ht.1, LogOK_mono h _ ht.2⟩

/-- appending an answer without a value source -/
theorem LogOK_snoc_plain {s : Sys} {log : List (Ans × Src)} (hl : LogOK s log) (a : Ans)
    (hf : a ≠ .fault) (hv : ∀ v, a ≠ .found v) : LogOK s (log ++ [(a, none)]) := by
  refine ⟨?_, ?_, ?_⟩
  · intro e he x k v hs
    rcases List.mem_append.mp he with he | he
    · exact hl.1 e he x k v hs
    · simp at he; subst he; cases hs
  · intro e he
    rcases List.mem_append.mp he with he | he
    · exact hl.2.1 e he
    · simp at he; subst he; exact hf
  · intro e he v hv'
    rcases List.mem_append.mp he with he | he
    · exact hl.2.2 e he v hv'
    · simp at he; subst he; exact absurd hv' (hv v)

theorem LogOK_snoc_src {s : Sys} {log : List (Ans × Src)} (hl : LogOK s log) (a : Ans) (x : Nat) (k : Key) (v : V)
    (hb : bound s x k = some v) (hf : a ≠ .fault) (hv : ∀ w, a = .found w → w = v) :
    LogOK s (log ++ [(a, some (x, k, v))]) := by
  refine ⟨?_, ?_, ?_⟩
  · intro e he x' k' v' hs
    rcases List.mem_append.mp he with he | he
    · exact hl.1 e he x' k' v' hs
    · simp at he; subst he; simp at hs; obtain ⟨rfl, rfl, rfl⟩ := hs; exact hb
  · intro e he
    rcases List.mem_append.mp he with he | he
    · exact hl.2.1 e he
    · simp at he; subst he; exact hf
  · intro e he w hw
    rcases List.mem_append.mp he with he | he
    · exact hl.2.2 e he w hw
    · simp at he; subst he; exact ⟨x, k, by rw [hv w hw]⟩

theorem walkLevel_ok (s : Sys) (l : Nat) (n : Name) (x : Nat) (todo : List Nat) (st : WalkSt)
    (h : WalkOK s (.loadWalk l n (x :: todo) st)) : WalkOK s (.loadWalk l n todo (walkLevel s (canon n) x st)) := by
  cases st with
  | searching nones last =>
    simp only [WalkOK] at h
    simp only [walkLevel]
    split
    · rename_i v hv
      simp only [WalkOK]
      exact ⟨⟨[], by simpa using h.1⟩, by simp [bound, hv]⟩
    · rename_i e hne
      simp only [WalkOK]
      refine ⟨by simpa using h.1, ?_⟩
      cases he : lk (canon n) (s.ents x) with
      | none => rfl
      | some o =>
        cases o with
        | none => rfl
        | some v => exact absurd he (hne v)
  | foundAt nones y v =>
    simp only [WalkOK] at h
    simp only [walkLevel, WalkOK]
    obtain ⟨⟨sk, hs⟩, hb⟩ := h
    exact ⟨⟨sk ++ [x], by simpa using hs⟩, hb⟩

theorem missStep_spec (s : Sys) (l : Nat) (k : Key) :
    Mono s (missStep s l k).1 ∧ (missStep s l k).2 = .notfound := by
  unfold missStep
  split
  · exact ⟨placeholder_mono s l k, rfl⟩
  · exact ⟨placeholder_mono s l k, rfl⟩
  · rename_i h1 h2
    rcases setEntry_none_res (s.ents l) k with h | h
    · exact absurd h h1
    · exact absurd h h2

theorem startOp_spec (s : Sys) (log : List (Ans × Src)) (rest : List Op) (op : Op) (hl : LogOK s log) :
    Mono s (startOp s log rest op).1 ∧ ThreadInv (startOp s log rest op).1 (startOp s log rest op).2 := by
  cases op with
  | load l n =>
    simp only [startOp]
    split
    · exact ⟨Mono.refl s, trivial, LogOK_snoc_plain hl _ (by simp) (by simp)⟩
    · exact ⟨Mono.refl s, by simp [WalkOK], hl⟩
  | define l n v =>
    simp only [startOp]
    have hm := define_mono s l n v
    have ha := define_ans s l n v
    exact ⟨hm, trivial, LogOK_snoc_plain (LogOK_mono hm _ hl) _ ha.1 ha.2⟩
  | has l n => exact ⟨Mono.refl s, trivial, hl⟩
  | get l n =>
    refine ⟨Mono.refl s, ?_, hl⟩
    show WalkOK s (.getHold l (canon n) (lk (canon n) (s.ents l)))
    cases he : lk (canon n) (s.ents l) with
    | none => trivial
    | some o => cases o with
      | none => trivial
      | some v => simp [WalkOK, bound, he]
  | discover l p => exact ⟨Mono.refl s, trivial, hl⟩

/-- one step of one thread: the shared state grows monotonically and the thread's invariant is re-established -/
theorem stepThread_spec (s : Sys) (t : Thread) (ht : ThreadInv s t) :
    Mono s (stepThread s t).1 ∧ ThreadInv (stepThread s t).1 (stepThread s t).2 := by
  obtain ⟨hw, hl⟩ := ht
  unfold stepThread
  split
  · -- idle
    split
    · exact ⟨Mono.refl s, hw, hl⟩
    · exact startOp_spec s t.log _ _ hl
  · -- loadWalk, a level to read
    rename_i l n x todo st hpc
    rw [hpc] at hw
    exact ⟨Mono.refl s, walkLevel_ok s l n x todo st hw, hl⟩
  · exact ⟨Mono.refl s, trivial, hl⟩
  · exact ⟨Mono.refl s, trivial, LogOK_snoc_plain hl _ (by simp) (by simp)⟩
  · rename_i l n nones x v hpc
    rw [hpc] at hw
    simp only [WalkOK] at hw
    exact ⟨Mono.refl s, trivial, LogOK_snoc_src hl _ x (canon n) v hw.2 (by simp) (by intro w hw'; cases hw'; rfl)⟩
  · -- loadMiss
    rename_i l n hpc
    have hm := missStep_spec s l (canon n)
    refine ⟨hm.1, trivial, ?_⟩
    rw [hm.2]
    exact LogOK_snoc_plain (LogOK_mono hm.1 _ hl) _ (by simp) (by simp)
  · -- hasWalk, a level
    split
    · exact ⟨Mono.refl s, trivial, LogOK_snoc_plain hl _ (by simp) (by simp)⟩
    · exact ⟨Mono.refl s, trivial, hl⟩
  · exact ⟨Mono.refl s, trivial, LogOK_snoc_plain hl _ (by simp) (by simp)⟩
  · -- getHold
    rename_i l k e hpc
    rw [hpc] at hw
    refine ⟨Mono.refl s, trivial, ?_⟩
    cases e with
    | none => exact LogOK_snoc_plain hl _ (by simp) (by simp)
    | some o =>
      cases o with
      | none => exact LogOK_snoc_plain hl _ (by simp) (by simp)
      | some v => exact LogOK_snoc_src hl _ l k v hw (by simp) (by simp)
  · -- discWalk, a level
    split
    · exact ⟨Mono.refl s, trivial, LogOK_snoc_plain hl _ (by simp) (by simp)⟩
    · exact ⟨Mono.refl s, trivial, hl⟩
  · exact ⟨Mono.refl s, trivial, LogOK_snoc_plain hl _ (by simp) (by simp)⟩

theorem stepAt_mono (c : Config) (i : Nat) (hi : Inv c) : Mono c.sh (stepAt c i).sh := by
  unfold stepAt
  cases h : c.th[i]? with
  | none => exact Mono.refl _
  | some t => exact (stepThread_spec c.sh t (hi t (List.mem_of_getElem? h))).1

theorem Inv_step (c : Config) (i : Nat) (hi : Inv c) : Inv (stepAt c i) := by
  unfold stepAt
  cases h : c.th[i]? with
  | none => exact hi
  | some t =>
    have sp := stepThread_spec c.sh t (hi t (List.mem_of_getElem? h))
    intro t' ht'
    rcases List.mem_or_eq_of_mem_set ht' with h1 | rfl
    · exact ThreadInv_mono sp.1 t' (hi t' h1)
    · exact sp.2

theorem Inv_init (ps : List (Option Nat)) (progs : List (List Op)) : Inv (Config.init ps progs) := by
  intro t ht
  simp only [Config.init, List.mem_map] at ht
  obtain ⟨p, _, rfl⟩ := ht
  exact ⟨trivial, by simp [LogOK]⟩

theorem Inv_reachable {c0 c : Config} (h0 : Inv c0) (h : Reachable c0 c) : Inv c := by
  induction h with
  | init => exact h0
  | step i _ ih => exact Inv_step _ i ih

theorem Mono_reachable {c0 c : Config} (h0 : Inv c0) (h : Reachable c0 c) : Mono c0.sh c.sh := by
  induction h with
  | init => exact Mono.refl _
  | step i hr ih => exact ih.trans (stepAt_mono _ i (Inv_reachable h0 hr))

/-! ### the scheduler only produces reachable configurations -/

theorem Reachable.trans {a b c : Config} (h1 : Reachable a b) (h2 : Reachable b c) : Reachable a c := by
  induction h2 with
  | init => exact h1
  | step i _ ih => exact Reachable.step i ih

theorem reachable_runToYield (c0 : Config) (fuel : Nat) (c : Config) (i : Nat) (h : Reachable c0 c) :
    Reachable c0 (runToYield fuel c i) := by
  induction fuel generalizing c with
  | zero => exact h
  | succ f ih =>
    simp only [runToYield]
    split
    · exact h
    · split
      · exact h
      · exact ih _ (Reachable.step i h)

theorem reachable_release (c0 c : Config) (i : Nat) (h : Reachable c0 c) : Reachable c0 (release c i) := by
  unfold release
  split
  · exact h
  · split
    · exact h
    · exact reachable_runToYield c0 _ _ i (Reachable.step i h)

theorem reachable_runSched (c0 c : Config) (sched : List Nat) (h : Reachable c0 c) : Reachable c0 (runSched c sched) := by
  induction sched generalizing c with
  | nil => exact h
  | cons i rest ih => exact ih _ (reachable_release c0 c i h)

theorem reachable_drainThread (c0 : Config) (fuel : Nat) (c : Config) (i : Nat) (h : Reachable c0 c) :
    Reachable c0 (drainThread fuel c i) := by
  induction fuel generalizing c with
  | zero => exact h
  | succ f ih =>
    simp only [drainThread]
    split
    · exact h
    · split
      · exact h
      · exact ih _ (reachable_release c0 c i h)

theorem reachable_drainAll (c0 c : Config) (h : Reachable c0 c) : Reachable c0 (drainAll c) := by
  unfold drainAll
  generalize List.range c.th.length = is
  induction is generalizing c with
  | nil => exact h
  | cons i rest ih => exact ih _ (reachable_drainThread c0 _ c i h)

theorem reachable_execute (ps : List (Option Nat)) (progs : List (List Op)) (sched : List Nat) :
    Reachable (Config.init ps progs) (execute ps progs sched) :=
  reachable_drainAll _ _ (reachable_runSched _ _ sched Reachable.init)

end Pcore.LoaderConc
