import Pcore.Model.Ser
/-! Helper lemmas for C10, part 8: the table-driven serializer `toDataE` with the standard emit discipline IS `toData`
    (the definition all other lemmas are about), and a table satisfying `SerArmsOK` denotes the standard discipline. -/
namespace Pcore.Ser

theorem bumpN_zero (st : St) : bumpN 0 st = st := by cases st; rfl
theorem bumpN_one (st : St) : bumpN 1 st = bump st := rfl

theorem addDataE_std (d : Sc) (st : St) : addDataE Emit.std d st = addData d st := rfl
theorem enterE_std (c : Cfg) (k : Key) (st : St) : enterE Emit.std c k st = st := by simp [enterE, Emit.std]
theorem recordE_std (c : Cfg) (k : Key) (pos : Nat) (r : Ev × St) : recordE Emit.std c k pos r = record c k pos r := rfl

theorem strDataE_std (c : Cfg) (level : Nat) (s : String) (st : St) : strDataE Emit.std c level s st = strData c level s st := by
  simp [strDataE, strData, addDataE_std, enterE_std, recordE_std]

theorem head3E_std (c : Cfg) (tl : Nat) (tn : String) (st : St) : head3E Emit.std c tl tn st = head3 c tl tn st := by
  simp [head3E, head3, strDataE_std]

@[simp] theorem std_hashPre : Emit.std.hashPre = 1 := rfl
@[simp] theorem std_hashPost : Emit.std.hashPost = 0 := rfl
@[simp] theorem std_arrPre : Emit.std.arrPre = 1 := rfl
@[simp] theorem std_arrPost : Emit.std.arrPost = 0 := rfl

mutual
theorem toDataE_std (c : Cfg) : ∀ (level : Nat) (v : V) (st : St), toDataE Emit.std c level v st = toData c level v st
  | _, .undef, st => by simp [toDataE, toData, addDataE_std]
  | _, .bool _, st => by simp [toDataE, toData, addDataE_std]
  | _, .int _, st => by simp [toDataE, toData, addDataE_std]
  | _, .flt _, st => by simp [toDataE, toData, addDataE_std]
  | level, .str s, st => by simp [toDataE, toData, strDataE_std]
  | _, .dflt, st => by simp [toDataE, toData, strDataE_std, bumpN_zero, bumpN_one]
  | _, .hash id es, st => by
      simp only [toDataE, toData, enterE_std, recordE_std, std_hashPre, std_hashPost, std_arrPre, std_arrPost, bumpN_zero,
        bumpN_one, head3E_std, pairsDataE_std c es, flatDataE_std c es, skeyDataE_std c es]
  | _, .arr id vs, st => by
      simp only [toDataE, toData, enterE_std, recordE_std, std_arrPre, std_arrPost, bumpN_zero, bumpN_one, listDataE_std c vs]
  | level, .sens id v, st => by
      simp only [toDataE, toData, enterE_std, recordE_std, std_hashPre, std_hashPost, bumpN_zero, bumpN_one, head3E_std,
        strDataE_std, toDataE_std c 1 v]
  | level, .bin id bs, st => by
      simp only [toDataE, toData, enterE_std, recordE_std, std_hashPre, std_hashPost, bumpN_zero, bumpN_one, head3E_std,
        strDataE_std, addDataE_std]
  | _, .leaf id k enc disp, st => by
      simp only [toDataE, toData, enterE_std, recordE_std, std_hashPre, std_hashPost, bumpN_zero, bumpN_one, head3E_std,
        strDataE_std]
  | _, .obj id tn disp attrs, st => by
      simp only [toDataE, toData, enterE_std, recordE_std, std_hashPre, std_hashPost, bumpN_zero, bumpN_one,
        strDataE_std, attrsDataE_std c attrs]
theorem listDataE_std (c : Cfg) : ∀ (vs : List V) (st : St), listDataE Emit.std c vs st = listData c vs st
  | [], _ => by simp [listDataE, listData]
  | v :: vs, st => by simp [listDataE, listData, toDataE_std c 1 v, listDataE_std c vs]
theorem pairsDataE_std (c : Cfg) : ∀ (es : List (V × V)) (st : St), pairsDataE Emit.std c es st = pairsData c es st
  | [], _ => by simp [pairsDataE, pairsData]
  | (k, v) :: es, st => by simp [pairsDataE, pairsData, toDataE_std c 2 k, toDataE_std c 1 v, pairsDataE_std c es]
theorem flatDataE_std (c : Cfg) : ∀ (es : List (V × V)) (st : St), flatDataE Emit.std c es st = flatData c es st
  | [], _ => by simp [flatDataE, flatData]
  | (k, v) :: es, st => by simp [flatDataE, flatData, toDataE_std c 1 k, toDataE_std c 1 v, flatDataE_std c es]
theorem skeyDataE_std (c : Cfg) : ∀ (es : List (V × V)) (st : St), skeyDataE Emit.std c es st = skeyData c es st
  | [], _ => by simp [skeyDataE, skeyData]
  | (k, v) :: es, st => by simp [skeyDataE, skeyData, strDataE_std, toDataE_std c 1 v, skeyDataE_std c es]
theorem attrsDataE_std (c : Cfg) : ∀ (as : List (String × V)) (st : St), attrsDataE Emit.std c as st = attrsData c as st
  | [], _ => by simp [attrsDataE, attrsData]
  | (k, v) :: as, st => by simp [attrsDataE, attrsData, strDataE_std, toDataE_std c 1 v, attrsDataE_std c as]
end

/-- a table that satisfies the side condition denotes the standard discipline -/
theorem emitOf_ok (a : SerArms) (h : SerArmsOK a = true) : emitOf a = Emit.std := by
  simp only [SerArmsOK, Bool.and_eq_true, beq_iff_eq] at h
  obtain ⟨⟨⟨⟨⟨⟨⟨⟨h1, h2⟩, h3⟩, h4⟩, _⟩, _⟩, _⟩, _⟩, _⟩ := h
  simp [emitOf, h1, h2, h3, h4, incrsBefore, incrsAfter, Emit.std]

theorem serializeE_ok (a : SerArms) (h : SerArmsOK a = true) (o : Opts) (cp : Caps) (v : V) :
    serializeE (emitOf a) o cp v = serialize o cp v := by
  simp [serializeE, serialize, emitOf_ok a h, toDataE_std]

end Pcore.Ser
