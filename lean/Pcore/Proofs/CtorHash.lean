import Pcore.Proofs.DispatchCtors
/-!
The Hash constructor from arrays: `WrapHashFromArray` on an array of `[key, value]` pairs and on a flat array, and the shape
of what the tree walk answers.  Core Lean only.
-/
namespace Pcore.Dispatch.Alpha

def pairArr (e : Val × Val) : Val := .arr [e.1, e.2]

theorem pairsOf_map (es : List (Val × Val)) : pairsOf (es.map pairArr) = some es := by
  induction es with
  | nil => rfl
  | cons e es ih => simp [pairArr, pairsOf, ih]

theorem all_isArr_map (es : List (Val × Val)) : (es.map pairArr).all isArr = true := by
  induction es with
  | nil => rfl
  | cons e es ih => simp [pairArr, isArr] at ih ⊢

/-- `WrapHashFromArray([[k1,v1],…,[kn,vn]])` (n ≥ 1) is the hash with exactly these entries, in this order; equal keys are
    NOT merged -/
theorem hashFromArray_pairs (es : List (Val × Val)) (hne : es ≠ []) :
    hashFromArray (es.map pairArr) = .value (.hash es) := by
  unfold hashFromArray
  have h1 : (es.map pairArr).isEmpty = false := by cases es <;> simp at hne ⊢
  rw [h1, all_isArr_map, pairsOf_map]
  rfl

theorem pairUp_flat (es : List (Val × Val)) : pairUp (es.flatMap fun e => [e.1, e.2]) = es := by
  induction es with
  | nil => rfl
  | cons e es ih => simp [pairUp, ih]

theorem treeLoop_hash (allHashes : Bool) (es : List Val) (root : List (Val × Node)) (r : Val)
    (h : treeLoop allHashes root es = .value r) : ∃ hs, r = .hash hs := by
  induction es generalizing root with
  | nil => simp [treeLoop] at h; exact ⟨_, h.symm⟩
  | cons e es ih =>
    simp only [treeLoop] at h
    cases hs : treeEntry allHashes root e with
    | ok root' => rw [hs] at h; exact ih root' h
    | unmodelled => rw [hs] at h; cases h
    | fault => rw [hs] at h; cases h

end Pcore.Dispatch.Alpha

namespace Pcore.Dispatch.Alpha

theorem run_hash_one (x : Val) :
    run inst binst hashCtor.creators [x] (none : Option Blk) =
      .called (if inst treeArray x then .ran 0 else if inst keyValueArray x then .ran 1
               else if inst iterableTy x then .ran 2 else .reported) := by
  simp [run, hashCtor, buildAll, buildOne, steps, step, finish, Builder.init, resolveAll, createDispatch, leMax, ltMax, succMax,
    call, callFrom, callableWith, blockOK, tupleInst, sizeOK, instLoop]

theorem keyValueArray_pairs (es : List (Val × Val)) (hne : es ≠ []) : inst keyValueArray (.arr (es.map pairArr)) = true := by
  have hlen : 1 ≤ (es.map pairArr).length := by cases es <;> simp at hne ⊢
  simp only [keyValueArray, inst, leMax, Bool.and_true, Bool.and_eq_true, decide_eq_true_eq, List.all_eq_true]
  refine ⟨hlen, ?_⟩
  intro x hx
  obtain ⟨e, _, rfl⟩ := List.mem_map.mp hx
  simp [pairArr, instZip, inst]

/-- `Hash.new([[k1,v1],…,[kn,vn]])`, n ≥ 1, whichever dispatch takes it (the tree-array one does when every key is an
    array): the constructor answers the hash with exactly these entries in this order -/
theorem hashCtor_pairs (es : List (Val × Val)) (hne : es ≠ []) :
    ctorCall hashCtor [.arr (es.map pairArr)] = .value (.hash es) := by
  unfold ctorCall
  rw [run_hash_one, keyValueArray_pairs es hne]
  cases inst treeArray (.arr (es.map pairArr)) <;> simp [hashCtor, hashFromArray_pairs es hne]

end Pcore.Dispatch.Alpha
