import Pcore.Proofs.DescribeLeaf
set_option linter.unusedSimpArgs false
set_option linter.unusedVariables false
/-!
  C19 helper lemmas: a reported type / pattern mismatch is REAL (the reported expected type does not accept the reported actual type)
  when nothing is merged (`noMerge` expectation) and the actual type is `plain`: no Unit / NotUndef / Optional / Variant / alias at
  any position the describer reaches and no optional Struct key — the kinds `GuardedIsAssignable` decomposes on the right, which a
  container arm of the describer reports as "another kind" without asking IsAssignable.
-/
namespace Pcore.Desc
open Pcore.Lat

mutual
def plain : Ty → Bool
  | .unit | .notUndef _ | .optional _ | .variant _ | .data | .richData => false
  | .array e _ => plain e
  | .hash k v _ => plain k && plain v
  | .tuple ts _ => plainL ts
  | .struct ms => plainM ms
  | _ => true
def plainL : List Ty → Bool
  | [] => true
  | t :: ts => plain t && plainL ts
def plainM : List Member → Bool
  | [] => true
  | (_, o, t) :: ms => !o && plain t && plainM ms
end

theorem plainL_mem {ts : List Ty} {t : Ty} (h : plainL ts = true) (hin : t ∈ ts) : plain t = true := by
  induction ts with
  | nil => cases hin
  | cons x xs ih =>
    simp only [plainL, Bool.and_eq_true] at h
    rcases List.mem_cons.mp hin with rfl | hin
    · exact h.1
    · exact ih h.2 hin

theorem plainM_mem {ms : List Member} {m : Member} (h : plainM ms = true) (hin : m ∈ ms) : m.2.1 = false ∧ plain m.2.2 = true := by
  induction ms with
  | nil => cases hin
  | cons x xs ih =>
    obtain ⟨xn, xo, xt⟩ := x
    simp only [plainM, Bool.and_eq_true, Bool.not_eq_true'] at h
    rcases List.mem_cons.mp hin with rfl | hin
    · exact ⟨h.1.1, h.1.2⟩
    · exact ih h.2 hin

/-- the reported expected type does not accept the reported actual type -/
def TmReal (cfg : Cfg) (sfh : Bool) : Mismatch → Prop
  | .typeMismatch _ x act => ∀ t, x = .atom (.ty t) → asg cfg sfh t act = false
  | .patternMismatch _ t act => asg cfg sfh t act = false
  | _ => True

section
variable (cfg : Cfg) (sfh : Bool)

/-- Undef accepts no plain type but Undef -/
theorem asg_undef_plain {a : Ty} (hp : plain a = true) (hu : isUndef a = false) : asg cfg sfh .undef a = false := by
  cases a <;> simp [plain, isUndef] at hp hu <;> simp [asg, asgRecv, sameNullary]

/-- against a plain type an Optional adds nothing but Undef -/
theorem asg_optional_plain {t a : Ty} (hp : plain a = true) (hu : isUndef a = false) :
    asg cfg sfh (.optional t) a = asg cfg sfh t a := by
  have h0 := asg_undef_plain cfg sfh hp hu
  cases a <;> simp [plain, isUndef] at hp hu <;> simp [asg, asgRecv, sameNullary, h0]

/-- from the expected type to the original the describer reports: itself, or the Optional around it -/
theorem asg_orig {e o a act : Ty} (ho : o = e ∨ (o = .optional e ∧ isUndef a = false))
    (hact : plain act = true ∧ (isUndef a = false → isUndef act = false)) (h : asg cfg sfh e act = false) :
    asg cfg sfh o act = false := by
  rcases ho with rfl | ⟨rfl, hu⟩
  · exact h
  · rw [asg_optional_plain cfg sfh hact.1 (hact.2 hu)]; exact h

theorem asg_struct_other {ms : List Member} {a : Ty} (hp : plain a = true) (h1 : ∀ ms', a = .struct ms' → False)
    (h2 : ∀ k v r, a = .hash k v r → False) : asg cfg sfh (.struct ms) a = false := by
  cases a <;> simp [plain] at hp <;> simp [asg, asgRecv, sameNullary] <;> first | exact absurd rfl (fun h => h1 _ h) | exact absurd rfl (fun h => h2 _ _ _ h)

theorem asg_hash_other {k v : Ty} {r : Rng} {a : Ty} (hp : plain a = true) (h1 : ∀ ms', a = .struct ms' → False)
    (h2 : ∀ k v r, a = .hash k v r → False) : asg cfg sfh (.hash k v r) a = false := by
  cases a <;> simp [plain] at hp <;> simp [asg, asgRecv, sameNullary] <;> first | exact absurd rfl (fun h => h1 _ h) | exact absurd rfl (fun h => h2 _ _ _ h)

theorem asg_tuple_other {ts : List Ty} {g : Option Rng} {a : Ty} (hp : plain a = true) (h1 : ∀ e r, a = .array e r → False)
    (h2 : ∀ ts' g', a = .tuple ts' g' → False) : asg cfg sfh (.tuple ts g) a = false := by
  cases a <;> simp [plain] at hp <;> simp [asg, asgRecv, sameNullary] <;> first | exact absurd rfl (fun h => h1 _ _ h) | exact absurd rfl (fun h => h2 _ _ h)

theorem asg_array_other {et : Ty} {r : Rng} {a : Ty} (hp : plain a = true) (h1 : ∀ ts' g', a = .tuple ts' g' → False)
    (h2 : ∀ e r, a = .array e r → False) : asg cfg sfh (.array et r) a = false := by
  cases a <;> simp [plain] at hp <;> simp [asg, asgRecv, sameNullary] <;> first | exact absurd rfl (fun h => h1 _ _ h) | exact absurd rfl (fun h => h2 _ _ h)

theorem pos_hi : ¬ (Rng.pos.hi ≤ 0) := by simp [Rng.pos, I64.max]

theorem asg_array_generalised {et e' : Ty} {r r' : Rng} (h : asg cfg sfh (.array et r) (.array e' r') = false) (hs : r.sub r' = true) :
    asg cfg sfh (.array et r) (.array e' Rng.pos) = false := by
  simp only [asg, asgRecv, sameNullary, hs, Bool.true_and, Bool.or_eq_false_iff, decide_eq_false_iff_not, Bool.false_eq_true, if_false] at h ⊢
  simp [h.2, pos_hi]

theorem asg_hash_generalised {k v k' v' : Ty} {r r' : Rng} (h : asg cfg sfh (.hash k v r) (.hash k' v' r') = false) (hs : r.sub r' = true) :
    asg cfg sfh (.hash k v r) (.hash k' v' Rng.pos) = false := by
  simp only [asg, asgRecv, sameNullary, hs, Bool.true_and, Bool.or_eq_false_iff, decide_eq_false_iff_not, Bool.false_eq_true, if_false] at h ⊢
  simp [h.2, pos_hi]

theorem asg_struct_hash_generalised {ms : List Member} {k' v' : Ty} {r' : Rng}
    (h : asg cfg sfh (.struct ms) (.hash k' v' r') = false) (hs : (structSize ms).sub r' = true) :
    asg cfg sfh (.struct ms) (.hash k' v' Rng.pos) = false := by
  simp only [asg, asgRecv, sameNullary, hs, Bool.and_true, Bool.false_eq_true, if_false] at h ⊢
  simp [h]


def ItemP : Item → Prop
  | .leaf m => TmReal cfg sfh m
  | .sub e2 a2 _ _ => noMerge e2 = true ∧ plain a2 = true

theorem itemP_struct (p : Path) (ms ms' : List Member) (h : noMergeM ms = true) (hp : plainM ms' = true) :
    ∀ it ∈ structItems p ms ms', ItemP cfg sfh it := by
  intro it hit
  rcases structItems_spec p ms ms' it hit with ⟨k, rfl, _, _⟩ | ⟨k, rfl, _, _⟩ | ⟨n, o, t, m', hin, hm', _, rfl | rfl⟩
  · trivial
  · trivial
  · simp [ItemP, noMerge, plain]
  · exact ⟨noMergeM_mem h hin, (plainM_mem hp hm').2⟩

theorem itemP_hash (k v : Ty) (ms' : List Member) (hk : noMerge k = true) (hv : noMerge v = true) (hp : plainM ms' = true) :
    ∀ it ∈ hashItems k v ms', ItemP cfg sfh it := by
  intro it hit
  obtain ⟨m', hm', rfl | rfl⟩ := hashItems_spec k v ms' it hit
  · have := plainM_mem hp hm'
    exact ⟨hk, by simp [memberKey, this.1, plain]⟩
  · exact ⟨hv, (plainM_mem hp hm').2⟩

theorem itemP_arrTup (et : Ty) (ts' : List Ty) (h : noMerge et = true) (hp : plainL ts' = true) :
    ∀ it ∈ arrTupItems et ts' 0, ItemP cfg sfh it := by
  intro it hit
  obtain ⟨j, t', hj, rfl⟩ := arrTupItems_spec et ts' 0 it hit
  exact ⟨h, plainL_mem hp (List.mem_of_getElem? hj)⟩

theorem itemP_tupArr (e' : Ty) (ts : List Ty) (h : noMergeL ts = true) (hp : plain e' = true) :
    ∀ it ∈ tupArrItems e' ts 0, ItemP cfg sfh it := by
  intro it hit
  obtain ⟨j, t, hj, rfl⟩ := tupArrItems_spec e' ts 0 it hit
  exact ⟨noMergeL_mem h (List.mem_of_getElem? hj), hp⟩

theorem itemP_tupTup (ext : Ty) (ts ts' : List Ty) (hl : ts.getLast? = some ext) (h : noMergeL ts = true) (hp : plainL ts' = true) :
    ∀ it ∈ tupTupItems ext ts.length ts' 0, ItemP cfg sfh it := by
  intro it hit
  obtain ⟨j, t', hj, _, rfl⟩ := tupTupItems_spec ext ts.length ts' 0 it hit
  exact ⟨noMergeL_mem h (List.mem_of_getLast? hl), plainL_mem hp (List.mem_of_getElem? hj)⟩

/-- the original the describer reports for `e`: `e` itself, or the Optional around it (then the actual type is not Undef) -/
def OrigOK (e o a : Ty) : Prop := o = e ∨ (o = .optional e ∧ isUndef a = false)

theorem tmReal_tm {e o a act : Ty} {p : Path} (ho : OrigOK e o a)
    (hact : plain act = true ∧ (isUndef a = false → isUndef act = false)) (h : asg cfg sfh e act = false) :
    TmReal cfg sfh (.typeMismatch p (.ofTy o) act) := by
  intro t ht
  simp only [Exp.ofTy, Exp.atom.injEq, Atom.ty.injEq] at ht
  subst ht
  exact asg_orig cfg sfh ho hact h

theorem describe_tmReal :
    (∀ e o a p, noMerge e = true → plain a = true → OrigOK e o a →
      ∀ r, internalDescribe cfg sfh e o a p = .ok r → ∀ m ∈ r, TmReal cfg sfh m) ∧
    (∀ items p, (∀ it ∈ items, ItemP cfg sfh it) → ∀ r, descAll cfg sfh items p = .ok r → ∀ m ∈ r, TmReal cfg sfh m) ∧
    (∀ (xs : List Atom) (u : Bool) (i : Nat) (a : Ty) (p : Path), True) := by
  apply internalDescribe.mutual_induct cfg sfh
    (fun e o a p => noMerge e = true → plain a = true → OrigOK e o a →
      ∀ r, internalDescribe cfg sfh e o a p = .ok r → ∀ m ∈ r, TmReal cfg sfh m)
    (fun items p => (∀ it ∈ items, ItemP cfg sfh it) → ∀ r, descAll cfg sfh items p = .ok r → ∀ m ∈ r, TmReal cfg sfh m)
    (fun _ _ _ _ _ => True)
  all_goals intros
  all_goals try trivial
  all_goals try (
    rename_i hnm hpl ho r hr m hm
    simp only [noMerge, Bool.and_eq_true, reduceCtorEq, Bool.false_eq_true] at hnm
    simp only [internalDescribe, *, if_true, if_false, Bool.false_eq_true, Bool.or_true, Bool.true_or, Bool.or_false,
      Bool.not_true, not_false_eq_true, imp_self, implies_true, Res.ok.injEq, reduceCtorEq] at hr
    first
      | (subst hr; exact absurd hm List.not_mem_nil)
      | (subst hr; simp only [List.mem_singleton] at hm; subst hm
         first
          | exact trivial
          | exact tmReal_tm cfg sfh ho ⟨hpl, id⟩ (asg_struct_other cfg sfh hpl ‹_› ‹_›)
          | exact tmReal_tm cfg sfh ho ⟨hpl, id⟩ (asg_hash_other cfg sfh hpl ‹_› ‹_›)
          | exact tmReal_tm cfg sfh ho ⟨hpl, id⟩ (asg_tuple_other cfg sfh hpl ‹_› ‹_›)
          | exact tmReal_tm cfg sfh ho ⟨hpl, id⟩ (asg_array_other cfg sfh hpl ‹_› ‹_›)
          | (rename_i hs h; exact tmReal_tm cfg sfh ho ⟨by simpa [plain] using hpl, fun _ => by simp [isUndef]⟩
              (asg_struct_hash_generalised cfg sfh (by simpa using h) hs))
          | (rename_i hs h; exact tmReal_tm cfg sfh ho ⟨by simpa [plain] using hpl, fun _ => by simp [isUndef]⟩
              (asg_hash_generalised cfg sfh (by simpa using h) hs))
          | (rename_i hs h; exact tmReal_tm cfg sfh ho ⟨by simpa [plain] using hpl, fun _ => by simp [isUndef]⟩
              (asg_array_generalised cfg sfh (by simpa using h) hs))
          | (rename_i _ h; exact tmReal_tm cfg sfh ho ⟨hpl, id⟩ (by simp at h; exact h.2))
          | (rename_i h; exact tmReal_tm cfg sfh ho ⟨hpl, id⟩ (by simpa using h))
          | (rename_i h; exact asg_orig cfg sfh ho ⟨hpl, id⟩ (by simpa using h)))
      | (rename_i ih; exact ih (itemP_struct cfg sfh _ _ _ hnm (by simpa [plain] using hpl)) r hr m hm)
      | (rename_i ih; exact ih (itemP_hash cfg sfh _ _ _ hnm.1 hnm.2 (by simpa [plain] using hpl)) r hr m hm)
      | (rename_i ih; exact ih (itemP_arrTup cfg sfh _ _ hnm (by simpa [plain] using hpl)) r hr m hm)
      | (rename_i ih; exact ih (itemP_tupArr cfg sfh _ _ hnm (by simpa [plain] using hpl)) r hr m hm)
      | (rename_i hl _ ih; exact ih (itemP_tupTup cfg sfh _ _ _ hl hnm (by simpa [plain] using hpl)) r hr m hm)
      | skip)
  -- the remaining cases, told apart by the shape of the goal (not by their number: a new `Ty` constructor renumbers them)
  all_goals first
    | (rename_i o a p t h ih
       have hal : isAlias o = false := by
         rcases ho with rfl | ⟨rfl, _⟩ <;> rfl
       simp only [hal, Bool.false_eq_true, if_false, dite_false] at ih hr
       exact ih hnm hpl (.inr ⟨rfl, by simpa using h⟩) r hr m hm
       done)
    | (subst hr; simp only [List.mem_singleton] at hm; subst hm
       exact tmReal_tm cfg sfh ho ⟨hpl, id⟩ (by simpa using ‹¬asg cfg sfh _ _ = true›)
       done)
    | (rename_i _ r hr m hm; simp [descAll] at hr; subst hr; cases hm; done)
    | (rename_i ih hI r hr m hm
       simp only [descAll] at hr
       obtain ⟨x, y, hx, hy, rfl⟩ := Res.append_eq_ok hr
       simp only [Res.ok.injEq] at hx; subst hx
       rcases List.mem_append.mp hm with hm | hm
       · simp only [List.mem_singleton] at hm; subst hm; exact hI _ List.mem_cons_self
       · exact ih (fun it h => hI it (List.mem_cons_of_mem _ h)) y hy m hm
       done)
    | (rename_i h ih hI r hr m hm
       simp only [descAll, h, if_true] at hr
       exact ih (fun it h => hI it (List.mem_cons_of_mem _ h)) r hr m hm
       done)
    | (rename_i h ih2 ih1 hI r hr m hm
       simp only [descAll, h, if_false, Bool.false_eq_true] at hr
       obtain ⟨x, y, hx, hy, rfl⟩ := Res.append_eq_ok hr
       have hi := hI _ List.mem_cons_self
       rcases List.mem_append.mp hm with hm | hm
       · exact ih2 hi.1 hi.2 (.inl rfl) x hx m hm
       · exact ih1 (fun it h => hI it (List.mem_cons_of_mem _ h)) y hy m hm
       done)
    | (rename_i ih2 ih1 hI r hr m hm
       simp only [descAll] at hr
       obtain ⟨x, y, hx, hy, rfl⟩ := Res.append_eq_ok hr
       have hi := hI _ List.mem_cons_self
       rcases List.mem_append.mp hm with hm | hm
       · exact ih2 hi.1 hi.2 (.inl rfl) x hx m hm
       · exact ih1 (fun it h => hI it (List.mem_cons_of_mem _ h)) y hy m hm
       done)

/-- for an expectation without Variant / alias and a plain actual type, every type or pattern mismatch `describe` reports is real -/
theorem describe_tmReal_top (e a : Ty) (p : Path) (ms : List Mismatch) (hnm : noMerge e = true) (hpl : plain a = true)
    (h : describe cfg sfh e a p = .ok ms) : ∀ m ∈ ms, TmReal cfg sfh m := by
  unfold describe at h
  split at h
  · simp only [Res.ok.injEq] at h; subst h; intro m hm; cases hm
  · rename_i hasg
    cases hr : internalDescribe cfg sfh e e a p with
    | fault k => rw [hr] at h; cases h
    | ok r =>
      rw [hr] at h
      have hj := (describe_tmReal cfg sfh).1 e e a p hnm hpl (.inl rfl) r hr
      cases r with
      | nil =>
        simp only [Res.ok.injEq] at h; subst h
        intro m hm; simp only [List.mem_singleton] at hm; subst hm
        intro t ht
        simp only [Exp.ofTy, Exp.atom.injEq, Atom.ty.injEq] at ht
        subst ht; simpa using hasg
      | cons d ds => simp only [Res.ok.injEq] at h; subst h; exact hj
end
end Pcore.Desc
