import Pcore.Proofs.LatTransDAcc
set_option linter.unusedSimpArgs false
set_option linter.unusedVariables false
/-! C03, transitivity stage 4: the built-in recursive aliases Data / RichData as receiver (`trD_alias_recv`) and as the middle type
    (`trD_alias_mid`).  An alias' receiver rule is: one of its scalar members accepts, or its Array member `Array[al]` does, or its Hash
    member `Hash[key, al]` does (`recv_alias_split`); the latter two are the ordinary Array / Hash rules on those type terms, whose
    element steps keep the left type (the alias) and lower the rank of the middle / right type — except when both are the alias' own
    members again, where two of the three types coincide (`alias_triple`). -/
namespace Pcore.Lat
variable (cfg : Cfg) (sfh : Bool)

/-- the members of the alias other than its Array and Hash member -/
def Alias.leaves : Alias → List Ty
  | .data => [.scalarData, .undef]
  | .rich => [.scalar, .bin, .dflt, .object none, .typ .any, .undef]

theorem alias_isAlias (al : Alias) : al.ty.isAlias = true := by cases al <;> rfl
theorem isAlias_ty {t : Ty} (h : t.isAlias = true) : ∃ al : Alias, t = al.ty := by
  cases t <;> simp [Ty.isAlias] at h
  · exact ⟨.data, rfl⟩
  · exact ⟨.rich, rfl⟩

theorem td_alias (al : Alias) : al.ty.TD sfh ∧ al.key.TD sfh ∧ al.arr.TD sfh ∧ al.hsh.TD sfh := by
  cases al <;> simp [Alias.ty, Alias.key, Alias.arr, Alias.hsh, Ty.TD]
theorem wf_alias (al : Alias) : Ty.WF cfg al.ty ∧ Ty.WF cfg al.key ∧ Ty.WF cfg al.arr ∧ Ty.WF cfg al.hsh := by
  cases al <;> simp [Alias.ty, Alias.key, Alias.arr, Alias.hsh, Ty.WF]

theorem leaves_facts (al : Alias) (x : Ty) (hx : x ∈ al.leaves) :
    x.w < al.ty.w ∧ vw x < vw al.ty ∧ x.TD sfh ∧ Ty.WF cfg x ∧ x.plainR = true := by
  cases al <;> simp [Alias.leaves] at hx <;> rcases hx with rfl | rfl | rfl | rfl | rfl | rfl <;>
    simp [Alias.ty, Ty.w, vw, Ty.TD, Ty.WF, Ty.plainR]

theorem asg_alias_leaves (al : Alias) {a : Ty} (h : asg cfg sfh a al.ty = true) : ∀ x ∈ al.leaves, asg cfg sfh a x = true := by
  cases al
  · obtain ⟨h1, h2, _, _⟩ := asg_data_comps cfg sfh h
    intro x hx; simp [Alias.leaves] at hx; rcases hx with rfl | rfl <;> assumption
  · have hc := asg_rich_comps cfg sfh h
    intro x hx; simp [Alias.leaves] at hx
    rcases hx with rfl | rfl | rfl | rfl | rfl | rfl
    · exact hc.sc
    · exact hc.bi
    · exact hc.df
    · exact hc.ob
    · exact hc.ty
    · exact hc.un

theorem asg_richkey_strVal (n : String) : asg cfg sfh (.variant [.str, .numeric]) (.strVal n) = true := by
  simp [asg, asgRecv, asgAnyL, sameNullary, isStringFamily]

theorem asgMembers_richkey (ms : List Member) :
    asgMembers cfg sfh (.variant [.str, .numeric]) .richData ms = asgMembersRichKey cfg sfh ms := by
  apply bool_eq_of_iff
  rw [asgMembers_iff, asgMembersRichKey_iff]
  constructor
  · exact fun h m hm => (h m hm).2
  · exact fun h m hm => ⟨asg_richkey_strVal cfg sfh m.1, h m hm⟩

/-- the alias' receiver rule: a scalar member accepts, or the Array member does, or the Hash member does -/
theorem recv_alias_split (al : Alias) (c : Ty) :
    asgRecv cfg sfh al.ty c = (al.leaves.any (fun x => asg cfg sfh x c) || asgRecv cfg sfh al.arr c || asgRecv cfg sfh al.hsh c) := by
  cases al
  · simp only [Alias.ty, Alias.arr, Alias.hsh, Alias.key, Alias.leaves, List.any_cons, List.any_nil, Bool.or_false]
    conv => lhs; unfold asgRecv
    cases c <;> simp [asgRecv, Bool.or_assoc]
  · simp only [Alias.ty, Alias.arr, Alias.hsh, Alias.key, Alias.leaves, List.any_cons, List.any_nil, Bool.or_false]
    conv => lhs; unfold asgRecv
    cases c <;> simp [asgRecv, asgMembers_richkey, Bool.or_assoc]

theorem vw_alias (al : Alias) : vw al.ty = al.ty.w := by cases al <;> rfl

/-- how far the rank of an element / value type can exceed that of its container: by one, and only for an alias -/
def RankElem (x t : Ty) : Prop :=
  (t.isAlias = true → vw t ≤ vw x + 1) ∧ (t.isAlias = false → vw t + 1 ≤ vw x ∧ (vw t + 2 ≤ vw x ∨ t = .any))

theorem rank_pos_elem (x : Ty) (hx : x.isPos = true) (t : Ty) (ht : t ∈ posTypes x) : RankElem x t := by
  cases x <;> simp [Ty.isPos] at hx
  · rename_i e r
    simp only [posTypes, List.mem_singleton] at ht; subst ht
    obtain ⟨h1, h2⟩ := vw_array_elem t r
    exact ⟨fun _ => h1, fun h => ⟨by have := h2 h; omega, Or.inl (h2 h)⟩⟩
  · rename_i ts g
    have hv : vw (.tuple ts g) = 2 + Ty.wl ts := rfl
    simp only [posTypes] at ht
    by_cases hts : ts.isEmpty = true
    · simp only [hts, if_true, List.mem_singleton] at ht; subst ht
      refine ⟨fun h => by simp [Ty.isAlias] at h, fun _ => ⟨?_, Or.inr rfl⟩⟩
      rw [hv]; have : vw Ty.any = 1 := rfl
      omega
    · have ht' : t ∈ ts := by simpa [hts] using ht
      have := Ty.w_lt_wl ht'; have := vw_le t
      rw [RankElem, hv]
      exact ⟨fun _ => by omega, fun _ => ⟨by omega, Or.inl (by omega)⟩⟩

theorem rank_val (x t : Ty) (h : IsVal x t) : RankElem x t := by
  rcases h with ⟨k, r, rfl⟩ | ⟨ms, m', rfl, hm, rfl⟩
  · obtain ⟨h1, h2⟩ := vw_hash_val k t r
    exact ⟨fun _ => h1, fun h => ⟨by have := h2 h; omega, Or.inl (h2 h)⟩⟩
  · have hv : vw (.struct ms) = 2 + Ty.wm ms := rfl
    have := Ty.wm_ge hm; have := vw_le m'.2.2
    rw [RankElem, hv]
    exact ⟨fun _ => by omega, fun _ => ⟨by omega, Or.inl (by omega)⟩⟩

theorem asg_alias_any (al : Alias) : asg cfg sfh al.ty .any = false := by
  cases al <;> simp [Alias.ty, asg, asgRecv, sameNullary, isStringFamily, floatAll]

/-- the element step of an alias receiver: the left type stays the alias, the rank of the middle and right type goes down, unless two
    of the three types coincide -/
theorem alias_el (al : Alias) (m : Nat) (ihB : TransB cfg sfh al.ty m) (b c b' c' : Ty) (hm : vw b + vw c ≤ m + 1)
    (rb : RankElem b b') (rc : RankElem c c') (fb : b'.TD sfh) (fc : c'.TD sfh) (wb : Ty.WF cfg b') (wc : Ty.WF cfg c')
    (h1 : asg cfg sfh al.ty b' = true) (h2 : asg cfg sfh b' c' = true) : asg cfg sfh al.ty c' = true := by
  have H : DHyp cfg sfh al.ty b' c' := ⟨(td_alias sfh al).1, fb, fc, wb, wc⟩
  by_cases hb : b'.isAlias = true
  · by_cases hc : c'.isAlias = true
    · obtain ⟨x, rfl⟩ := isAlias_ty hb
      obtain ⟨y, rfl⟩ := isAlias_ty hc
      exact alias_triple cfg sfh al x y h1 h2
    · have hc' := bool_false_of_ne_true hc
      obtain ⟨r1, r2⟩ := rc.2 hc'
      rcases r2 with r2 | rfl
      · exact ihB b' c' (by have := rb.1 hb; omega) H h1 h2
      · obtain ⟨x, rfl⟩ := isAlias_ty hb
        rw [asg_alias_any] at h2; cases h2
  · have hb' := bool_false_of_ne_true hb
    obtain ⟨r1, r2⟩ := rb.2 hb'
    by_cases hc : c'.isAlias = true
    · rcases r2 with r2 | rfl
      · exact ihB b' c' (by have := rc.1 hc; omega) H h1 h2
      · rw [asg_alias_any] at h1; cases h1
    · have := (rc.2 (bool_false_of_ne_true hc)).1
      exact ihB b' c' (by omega) H h1 h2

/-- `Array[al] ⊒ b ⊒ c` -/
theorem trD_alias_arr (al : Alias) (m : Nat) (ihB : TransB cfg sfh al.ty m) (b c : Ty) (hm : vw b + vw c ≤ m + 1)
    (fb : b.TD sfh) (fc : c.TD sfh) (wb : Ty.WF cfg b) (wc : Ty.WF cfg c)
    (h1 : asgRecv cfg sfh al.arr b = true) (h2 : asgRecv cfg sfh b c = true) : asgRecv cfg sfh al.arr c = true := by
  have pa : al.arr.isPos = true := rfl
  have pb : b.isPos = true := pos_closed cfg sfh _ b pa h1
  have pc : c.isPos = true := pos_closed cfg sfh b c pb h2
  apply tr_pos_open cfg sfh al.arr b c pa pb pc ?_ h1 h2
  intro a' ha' b' hb' c' hc'
  have : a' = al.ty := by simpa [Alias.arr, posTypes] using ha'
  subst this
  obtain ⟨_, fb', wfb'⟩ := posD_elem cfg sfh b pb b' hb'
  obtain ⟨_, fc', wfc'⟩ := posD_elem cfg sfh c pc c' hc'
  exact alias_el cfg sfh al m ihB b c b' c' hm (rank_pos_elem b pb b' hb') (rank_pos_elem c pc c' hc') (fb' fb) (fc' fc) (wfb' wb) (wfc' wc)

/-- `Hash[key, al] ⊒ b ⊒ c` -/
theorem trD_alias_hsh (al : Alias) (n : Nat) (ihA : TransA cfg sfh n) (hw : al.ty.w ≤ n + 1)
    (m : Nat) (ihB : TransB cfg sfh al.ty m) (b c : Ty) (hm : vw b + vw c ≤ m + 1)
    (fb : b.TD sfh) (fc : c.TD sfh) (wb : Ty.WF cfg b) (wc : Ty.WF cfg c)
    (h1 : asgRecv cfg sfh al.hsh b = true) (h2 : asgRecv cfg sfh b c = true) : asgRecv cfg sfh al.hsh c = true := by
  unfold Alias.hsh at h1 ⊢
  apply tr_hash_open cfg sfh al.key al.ty Rng.pos b c fb fc wb wc ?_ ?_ h1 h2
  · intro k' c' f1 f2 w1 w2
    exact ihA al.key k' c' (by cases al <;> simp [Alias.key, Alias.ty, Ty.w, Ty.wl] at hw ⊢ <;> omega) ⟨(td_alias sfh al).2.1, f1, f2, w1, w2⟩
  · intro v' c' i1 i2 f1 f2 w1 w2
    exact alias_el cfg sfh al m ihB b c v' c' hm (rank_val b v' i1) (rank_val c c' i2) f1 f2 w1 w2

/-- the alias as the receiver: `al ⊒ b ⊒ c` for plain `b`, `c` -/
theorem trD_alias_recv (al : Alias) (n : Nat) (ihA : TransA cfg sfh n) (hw : al.ty.w ≤ n + 1)
    (m : Nat) (ihB : TransB cfg sfh al.ty m) (b c : Ty) (hm : vw b + vw c ≤ m + 1)
    (H : DHyp cfg sfh al.ty b c)
    (h1 : asgRecv cfg sfh al.ty b = true) (h2 : asg cfg sfh b c = true) (h2' : asgRecv cfg sfh b c = true) :
    asgRecv cfg sfh al.ty c = true := by
  rw [recv_alias_split] at h1 ⊢
  simp only [Bool.or_eq_true, List.any_eq_true] at h1 ⊢
  rcases h1 with (⟨x, hx, hxb⟩ | h1) | h1
  · left; left
    obtain ⟨xw, _, xf, xwf, _⟩ := leaves_facts cfg sfh al x hx
    exact ⟨x, hx, ihA x b c (by omega) ⟨xf, H.fb, H.fc, H.wb, H.wc⟩ hxb h2⟩
  · left; right
    exact trD_alias_arr cfg sfh al m ihB b c hm H.fb H.fc H.wb H.wc h1 h2'
  · right
    exact trD_alias_hsh cfg sfh al n ihA hw m ihB b c hm H.fb H.fc H.wb H.wc h1 h2'

theorem asg_alias_members (al : Alias) {a : Ty} (h : asg cfg sfh a al.ty = true) :
    asgToArr cfg sfh al a = true ∧ asgToHash cfg sfh al a = true := by
  cases al
  · obtain ⟨_, _, h3, h4⟩ := asg_data_comps cfg sfh h; exact ⟨h3, h4⟩
  · have hc := asg_rich_comps cfg sfh h; exact ⟨hc.ar, hc.ha⟩

/-- the alias as the middle type: `a ⊒ al ⊒ c` for plain `c`, through the member of the alias that accepts `c` -/
theorem trD_alias_mid (al : Alias) (a c : Ty) (m : Nat) (ihB : TransB cfg sfh a m) (hm : vw al.ty + vw c ≤ m + 1)
    (H : DHyp cfg sfh a al.ty c) (hc : c.plainR = true)
    (h1 : asg cfg sfh a al.ty = true) (h2 : asg cfg sfh al.ty c = true) : asg cfg sfh a c = true := by
  rw [asg_plain_r cfg sfh _ c hc] at h2
  simp only [Bool.or_eq_true] at h2
  obtain ⟨tdt, _, tda, tdh⟩ := td_alias sfh al
  obtain ⟨_, _, wfa, wfh⟩ := wf_alias cfg al
  rcases h2 with (h2 | h2) | h2
  · cases al <;> simp [Alias.ty, Ty.isAny] at h2
  · have := sameNullary_eq h2; subst this
    cases al <;> simp [Alias.ty, Ty.plainR] at hc
  · rw [recv_alias_split] at h2
    simp only [Bool.or_eq_true, List.any_eq_true] at h2
    have hva := vw_alias al
    obtain ⟨ma, mh⟩ := asg_alias_members cfg sfh al h1
    rcases h2 with (⟨x, hx, hxc⟩ | h2) | h2
    · obtain ⟨_, xv, xf, xwf, _⟩ := leaves_facts cfg sfh al x hx
      exact ihB x c (by omega) ⟨H.fa, xf, H.fc, xwf, H.wc⟩ (asg_alias_leaves cfg sfh al h1 x hx) hxc
    · have := vw_arr al
      rw [fold_arr cfg sfh al a.w a (Nat.le_refl _) H.fa] at ma
      exact ihB al.arr c (by omega) ⟨H.fa, tda, H.fc, wfa, H.wc⟩ ma (recv_to_asg cfg sfh _ c hc h2)
    · have := vw_hsh al
      rw [fold_hash cfg sfh al a.w a (Nat.le_refl _) H.fa] at mh
      exact ihB al.hsh c (by omega) ⟨H.fa, tdh, H.fc, wfh, H.wc⟩ mh (recv_to_asg cfg sfh _ c hc h2)

/-- `a` accepts the alias when it accepts every member -/
theorem asg_alias_of (al : Alias) {a : Ty} (hl : ∀ x ∈ al.leaves, asg cfg sfh a x = true)
    (ha : asgToArr cfg sfh al a = true) (hh : asgToHash cfg sfh al a = true)
    (hacc : al = .rich → accTypeSet a = true ∧ accDeferred a = true) : asg cfg sfh a al.ty = true := by
  cases al
  · exact asg_data_of_comps cfg sfh (hl _ (by simp [Alias.leaves])) (hl _ (by simp [Alias.leaves])) ha hh
  · apply asg_rich_of_comps
    exact ⟨hl _ (by simp [Alias.leaves]), hl _ (by simp [Alias.leaves]), hl _ (by simp [Alias.leaves]), hl _ (by simp [Alias.leaves]),
      hl _ (by simp [Alias.leaves]), (hacc rfl).1, (hacc rfl).2, hl _ (by simp [Alias.leaves]), ha, hh⟩

/-- the alias on the right: `a ⊒ b ⊒ al`, member by member -/
theorem trD_alias_right (al : Alias) (a b : Ty) (m : Nat) (ihB : TransB cfg sfh a m) (hm : vw b + vw al.ty ≤ m + 1)
    (H : DHyp cfg sfh a b al.ty)
    (h1 : asg cfg sfh a b = true) (h2 : asg cfg sfh b al.ty = true) : asg cfg sfh a al.ty = true := by
  obtain ⟨tdt, _, tda, tdh⟩ := td_alias sfh al
  obtain ⟨_, _, wfa, wfh⟩ := wf_alias cfg al
  have hva := vw_alias al
  obtain ⟨mb, mhb⟩ := asg_alias_members cfg sfh al h2
  apply asg_alias_of cfg sfh al
  · intro x hx
    obtain ⟨_, xv, xf, xwf, _⟩ := leaves_facts cfg sfh al x hx
    exact ihB b x (by omega) ⟨H.fa, H.fb, xf, H.wb, xwf⟩ h1 (asg_alias_leaves cfg sfh al h2 x hx)
  · have := vw_arr al
    rw [fold_arr cfg sfh al a.w a (Nat.le_refl _) H.fa]
    rw [fold_arr cfg sfh al b.w b (Nat.le_refl _) H.fb] at mb
    exact ihB b al.arr (by omega) ⟨H.fa, H.fb, tda, H.wb, wfa⟩ h1 mb
  · have := vw_hsh al
    rw [fold_hash cfg sfh al a.w a (Nat.le_refl _) H.fa]
    rw [fold_hash cfg sfh al b.w b (Nat.le_refl _) H.fb] at mhb
    exact ihB b al.hsh (by omega) ⟨H.fa, H.fb, tdh, H.wb, wfh⟩ h1 mhb
  · rintro rfl
    have hc := asg_rich_comps cfg sfh h2
    exact ⟨accTypeSet_mono cfg sfh a b H.fa H.fb h1 hc.ts, accDeferred_mono cfg sfh a b H.fa H.fb h1 hc.de⟩

end Pcore.Lat
