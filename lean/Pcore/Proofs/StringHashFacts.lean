import Pcore.Model.StringHashFacts
/-!
For ANY fact table satisfying `ShOK`, the model driven by the facts is the model `stepSH` that the
invariant/refinement proofs are about.
-/
namespace Pcore.Coll

theorem ShFacts.guard_of_ok {f : ShFacts} (hall : f.methods.all ShFacts.methodOK = true) {n : String}
    (hs : (f.method? n).isSome = true) :
    ∃ m, f.method? n = some m ∧ m.name = n ∧ ShFacts.methodOK m = true := by
  cases hm : f.method? n with
  | none => simp [hm] at hs
  | some m =>
    refine ⟨m, rfl, ?_, ?_⟩
    · have := List.find?_some hm
      simpa using this
    · have hmem := List.mem_of_find?_eq_some hm
      exact List.all_eq_true.mp hall m hmem

structure ShOKFacts (f : ShFacts) : Prop where
  put : f.guardOf "Put" = .atStart
  delete : f.guardOf "Delete" = .atStart
  cia : f.guardOf "ComputeIfAbsent" = .afterHit
  renum : f.renum = .decAbove
  erases : f.deleteErasesKey = true
  putMiss : f.putMiss = .indexLenThenAppend
  ciaMiss : f.ciaMiss = .indexLenThenAppend
  copyFrozen : f.copyFrozen = some false

theorem ShOK.facts {f : ShFacts} (h : ShOK f = true) : ShOKFacts f := by
  simp only [ShOK, Bool.and_eq_true, decide_eq_true_eq] at h
  obtain ⟨⟨⟨⟨⟨⟨⟨⟨⟨⟨⟨⟨⟨⟨⟨hall, hhas⟩, hren⟩, her⟩, _⟩, hpm⟩, hcm⟩, _⟩, hcf⟩, _⟩, _⟩, _⟩, _⟩, _⟩, _⟩, _⟩ := h
  have hhas' : ∀ n ∈ ["Put", "Delete", "ComputeIfAbsent", "Freeze"] ++ ShFacts.observers.map (·.1),
      (f.method? n).isSome = true := by
    simpa [ShFacts.hasAll] using hhas
  have g : ∀ n (g : Guard), n ∈ ["Put", "Delete", "ComputeIfAbsent"] →
      (∀ m : ShMethod, m.name = n → ShFacts.methodOK m = true → m.guard = g) → f.guardOf n = g := by
    intro n g hn hg
    obtain ⟨m, hm, hname, hok⟩ := ShFacts.guard_of_ok hall (hhas' n (by
      simp only [List.mem_cons, List.mem_append] at hn ⊢
      rcases hn with rfl | rfl | rfl | hn
      · simp
      · simp
      · simp
      · simp at hn))
    simp [ShFacts.guardOf, hm, hg m hname hok]
  refine ⟨g _ _ (by simp) ?_, g _ _ (by simp) ?_, g _ _ (by simp) ?_, hren, her, hpm, hcm, hcf⟩
  · intro m hn hok; simp [ShFacts.methodOK, hn] at hok; exact hok.1.1
  · intro m hn hok; simp [ShFacts.methodOK, hn] at hok; exact hok.1.1
  · intro m hn hok; simp [ShFacts.methodOK, hn] at hok; exact hok.1.1

variable {β : Type}

theorem SH.putT_eq {f : ShFacts} (hf : ShOKFacts f) (h : SH β) (k : String) (v : β) : h.putT f k v = h.put k v := by
  simp only [SH.putT, SH.put, hf.put, hf.putMiss, Guard.rejectsAtStart, Guard.rejectsAfterHit, SH.appendT]
  by_cases hfz : h.frozen = true
  · simp [hfz]
  · simp only [hfz, if_false, Bool.false_eq_true]
    cases GoMap.get h.index k with
    | none => rfl
    | some p => cases h.entries[p]? <;> rfl

theorem SH.deleteT_eq {f : ShFacts} (hf : ShOKFacts f) (h : SH β) (k : String) : h.deleteT f k = h.delete k := by
  simp only [SH.deleteT, SH.delete, hf.delete, hf.renum, hf.erases, Guard.rejectsAtStart, if_true]
  rfl

theorem SH.ciaT_eq {f : ShFacts} (hf : ShOKFacts f) (h : SH β) (k : String) (v : β) :
    h.computeIfAbsentT f k v = h.computeIfAbsent k v := by
  simp only [SH.computeIfAbsentT, SH.computeIfAbsent, hf.cia, hf.ciaMiss, Guard.rejectsAtStart, Guard.rejectsAfterHit,
    SH.appendT]
  cases GoMap.get h.index k with
  | none => by_cases hfz : h.frozen = true <;> simp [hfz]
  | some p => cases h.entries[p]? <;> rfl

theorem SH.putAllT_eq {f : ShFacts} (hf : ShOKFacts f) (h : SH β) (es : List (String × β)) :
    h.putAllT f es = h.putAll es := by
  induction es generalizing h with
  | nil => rfl
  | cons e es ih =>
    simp only [SH.putAllT, SH.putAll, SH.putT_eq hf]
    generalize h.put e.1 e.2 = r
    obtain ⟨h', o⟩ := r
    cases o <;> simp [ih]

theorem stepSHT_eq {f : ShFacts} (hok : ShOK f = true) (h : SH β) (op : SOp β) : stepSHT f h op = stepSH h op := by
  have hf := ShOK.facts hok
  cases op with
  | put k v => exact SH.putT_eq hf h k v
  | delete k => exact SH.deleteT_eq hf h k
  | get k => rfl
  | includes k => rfl
  | cia k v => exact SH.ciaT_eq hf h k v
  | copy => simp [stepSHT, stepSH, SH.copyT, SH.copy, hf.copyFrozen]
  | merge o => simp [stepSHT, stepSH, SH.mergeT, SH.merge, SH.copyT, SH.copy, hf.copyFrozen, SH.putAllT_eq hf]
  | putAll o => exact SH.putAllT_eq hf h o
  | freeze => rfl

theorem runSHT_eq {f : ShFacts} (hok : ShOK f = true) (h : SH β) (ops : List (SOp β)) : runSHT f h ops = runSH h ops := by
  induction ops generalizing h with
  | nil => rfl
  | cons op ops ih => simp only [runSHT, runSH, stepSHT_eq hok, ih]

end Pcore.Coll
