import Pcore.Model.LoaderDep
import Pcore.Proofs.LoaderSeq
import Pcore.Proofs.LoaderTS
/-! Dependency loaders: the lookup through one factors into "bind the name lazily in the dependency loader" followed by
    the plain parent-first lookup of `LoaderSeq` (helper lemmas for C12_dep_*). -/
namespace Pcore.LoaderSeq

/-! ### specification (from the property text and the meaning of a dependency loader, no cache in it) -/

/-- the module a qualified name addresses by its first segment -/
def namedModule (mods : Mods) (n : Name) : Option Nat :=
  if isQualified n then indexOf mods ((segsOf n).headD "") else none

/-- what the dependencies bind: the named module's resolution for a qualified name that names one, otherwise the
    resolution of the first module, in dependency order, that resolves the name -/
def depSpec (s : Sys) (mods : Mods) (n : Name) : Option V :=
  match namedModule mods n with
  | some m => resolve s m (canon n)
  | none => mods.findSome? fun m => resolve s m.2 (canon n)

/-- the name is well formed as far as the dependency loader looks at it -/
def PartsOK (mods : Mods) (n : Name) : Prop := (!indexEmpty mods && isQualified n) = true → (partsOf n).isSome = true

instance (mods : Mods) (n : Name) : Decidable (PartsOK mods n) := by unfold PartsOK; infer_instance

/-- the chain ends in the dependency loader `d` (with modules `mods`) and holds no other -/
def DepChain (dps : List (Option Mods)) (ch : List Nat) (d : Nat) (mods : Mods) : Prop :=
  ch.getLast? = some d ∧ (∀ a ∈ ch.dropLast, dps.getD a none = none) ∧ dps.getD d none = some mods

instance (dps : List (Option Mods)) (ch : List Nat) (d : Nat) (mods : Mods) : Decidable (DepChain dps ch d mods) := by
  unfold DepChain; infer_instance

/-- the state after the lookup's only write above the addressed loader: the lazy binding in the chain's root -/
def fillD (dps : List (Option Mods)) (s : Sys) (l : Nat) (n : Name) : Sys := (loadEntryD dps s (chain s.ps l) n).1

-- (keeps the unifier from evaluating string functions on variables)
attribute [local irreducible] segsOf canon

/-! ### chains without a dependency loader -/

theorem loadEntryD_plain (dps : List (Option Mods)) (s : Sys) (ch : List Nat) (n : Name)
    (h : ∀ a ∈ ch, dps.getD a none = none) :
    loadEntryD dps s ch n = (s, .ok (loadEntryC s.es ch (canon n))) := by
  induction ch with
  | nil => rfl
  | cons l anc ih =>
    have hl := h l (by simp)
    have ih' := ih (fun a ha => h a (by simp [ha]))
    simp only [loadEntryD, hl, ih', loadEntryC]
    cases hc : loadEntryC s.es anc (canon n) with
    | none => simp [Sys.ents]
    | some o => cases o <;> simp [Sys.ents]

theorem loadD_plain (dps : List (Option Mods)) (s : Sys) (l : Nat) (n : Name)
    (h : ∀ a ∈ chain s.ps l, dps.getD a none = none) : loadD dps s l n = load s l n := by
  unfold loadD load
  rw [loadEntryD_plain dps s _ n h]
  split
  · rfl
  · cases hc : loadEntryC s.es (chain s.ps l) (canon n) with
    | none => rfl
    | some o => cases o <;> rfl

/-! ### the dependency loader's own `LoadEntry` -/

theorem modLoadEntry_join (s : Sys) (m : Nat) (k : Key) : (modLoadEntry s m k).join = resolve s m k := by
  unfold modLoadEntry; rw [resolve_eq_join]

theorem depLoop_spec (s : Sys) (k : Key) (mods : Mods) :
    depLoop s k mods = mods.findSome? fun m => resolve s m.2 k := by
  induction mods with
  | nil => rfl
  | cons hd t ih =>
    obtain ⟨nm, m⟩ := hd
    simp only [depLoop, List.findSome?_cons]
    rw [← modLoadEntry_join]
    cases h : modLoadEntry s m k with
    | none => simpa using ih
    | some o =>
      cases o with
      | none => simpa using ih
      | some v => simp

theorem indexOf_none_of_empty (mods : Mods) (h : indexEmpty mods = true) (nm : String) : indexOf mods nm = none := by
  unfold indexOf
  simp only [Option.map_eq_none_iff, List.find?_eq_none, List.mem_reverse]
  intro m hm
  unfold indexEmpty at h
  have := List.all_eq_true.mp h m hm
  simp only [beq_iff_eq] at this
  simp [this]

/-- what `find` hands back for a name the dependency loader has no entry for is — as a binding — what the
    specification says -/
theorem depFind_spec (s : Sys) (d : Nat) (mods : Mods) (n : Name) (hlk : (lk (canon n) (s.ents d)).join = none)
    (hp : PartsOK mods n) : ∃ e, depFind s d mods n = .ok e ∧ e.join = depSpec s mods n := by
  have hrest : ∃ e, (match depLoop s (canon n) mods with
      | some v => LE.ok (some (some v))
      | none => LE.ok (lk (canon n) (s.ents d))) = .ok e ∧
      e.join = mods.findSome? fun m => resolve s m.2 (canon n) := by
    rw [← depLoop_spec]
    cases depLoop s (canon n) mods with
    | none => exact ⟨_, rfl, hlk⟩
    | some v => exact ⟨_, rfl, rfl⟩
  unfold depFind depSpec namedModule
  by_cases hq : (!indexEmpty mods && isQualified n) = true
  · have hsome := hp hq
    simp only [Bool.and_eq_true, Bool.not_eq_true'] at hq
    simp only [hq.1, hq.2, Bool.not_false, Bool.true_and, if_true]
    cases hpo : partsOf n with
    | none => rw [hpo] at hsome; cases hsome
    | some segs =>
      have hsegs : segs = segsOf n := by
        unfold partsOf at hpo
        split at hpo
        · exact (Option.some.inj hpo).symm
        · cases hpo
      subst hsegs
      simp only
      cases hi : indexOf mods ((segsOf n).headD "") with
      | some m => exact ⟨_, rfl, modLoadEntry_join s m _⟩
      | none => exact hrest
  · simp only [Bool.and_eq_true, Bool.not_eq_true', not_and, Bool.not_eq_true] at hq
    by_cases he : indexEmpty mods = true
    · have hnone := indexOf_none_of_empty mods he ((segsOf n).headD "")
      simp only [he, Bool.not_true, Bool.false_and, Bool.false_eq_true, if_false]
      rw [hnone]
      simp only [ite_self]
      exact hrest
    · have he' : indexEmpty mods = false := by simpa using he
      have := hq he'
      simp only [he', this, Bool.not_false, Bool.and_false, Bool.false_eq_true, if_false]
      exact hrest

theorem setEntry_fresh (es : Ents) (k : Key) (nv : Option V) (h : lk k es = none) :
    setEntry es k nv = (put k nv es, .stored) := by
  unfold setEntry; rw [h]

theorem setEntry_unbound' (es : Ents) (k : Key) (nv : Option V) (h : (lk k es).join = none) :
    setEntry es k nv = (put k nv es, .stored) := by
  unfold setEntry
  cases hl : lk k es with
  | none => rfl
  | some o =>
    cases o with
    | none => rfl
    | some v => rw [hl] at h; cases h

theorem depLoadEntry_cached (s : Sys) (d : Nat) (mods : Mods) (n : Name) (v : V)
    (h : lk (canon n) (s.ents d) = some (some v)) : depLoadEntry s d mods n = (s, .ok (some (some v))) := by
  unfold depLoadEntry; rw [h]

/-- the ways `LoadEntry` of a dependency loader ends: a cached value; the panic of `Parts()`; a value found (stored, over
    a recorded miss if there is one); nothing found and no entry (the miss is recorded); nothing found and a recorded miss -/
theorem depLoadEntry_cases (s : Sys) (d : Nat) (mods : Mods) (n : Name) :
    (∃ v, lk (canon n) (s.ents d) = some (some v) ∧ depLoadEntry s d mods n = (s, .ok (some (some v)))) ∨
    ((lk (canon n) (s.ents d)).join = none ∧ depFind s d mods n = .bad ∧ depLoadEntry s d mods n = (s, .bad)) ∨
    (∃ e v, (lk (canon n) (s.ents d)).join = none ∧ depFind s d mods n = .ok e ∧ e.join = some v ∧
      depLoadEntry s d mods n = (s.setEnts d (put (canon n) (some v) (s.ents d)), .ok (some (some v)))) ∨
    (∃ e, lk (canon n) (s.ents d) = none ∧ depFind s d mods n = .ok e ∧ e.join = none ∧
      depLoadEntry s d mods n = (s.setEnts d (put (canon n) none (s.ents d)), .ok (some none))) ∨
    (∃ e, lk (canon n) (s.ents d) = some none ∧ depFind s d mods n = .ok e ∧ e.join = none ∧
      depLoadEntry s d mods n = (s, .ok (some none))) := by
  cases hlk : lk (canon n) (s.ents d) with
  | none =>
    right
    cases hf : depFind s d mods n with
    | bad => left; refine ⟨rfl, rfl, ?_⟩; unfold depLoadEntry; simp only [hlk, hf]
    | ok e =>
      right
      cases hj : e.join with
      | some v =>
        left; refine ⟨e, v, rfl, rfl, hj, ?_⟩
        unfold depLoadEntry; simp only [hlk, hf, hj, setEntry_fresh _ _ _ hlk]
      | none =>
        right; left; refine ⟨e, rfl, rfl, hj, ?_⟩
        unfold depLoadEntry; simp only [hlk, hf, hj, setEntry_fresh _ _ _ hlk]
  | some o =>
    cases o with
    | some v => left; exact ⟨v, rfl, depLoadEntry_cached s d mods n v hlk⟩
    | none =>
      right
      cases hf : depFind s d mods n with
      | bad => left; refine ⟨rfl, rfl, ?_⟩; unfold depLoadEntry; simp only [hlk, hf]
      | ok e =>
        right
        cases hj : e.join with
        | some v =>
          left; refine ⟨e, v, rfl, rfl, hj, ?_⟩
          have hs : setEntry (s.ents d) (canon n) (some v) = (put (canon n) (some v) (s.ents d), .stored) :=
            setEntry_unbound' _ _ _ (by rw [hlk]; rfl)
          unfold depLoadEntry; simp only [hlk, hf, hj, hs]
        | none =>
          right; right; refine ⟨e, rfl, rfl, hj, ?_⟩
          unfold depLoadEntry; simp only [hlk, hf, hj]

theorem depLoadEntry_bad (s : Sys) (d : Nat) (mods : Mods) (n : Name) (h : (depLoadEntry s d mods n).2 = .bad) :
    (depLoadEntry s d mods n).1 = s := by
  rcases depLoadEntry_cases s d mods n with ⟨v, _, he⟩ | ⟨_, _, he⟩ | ⟨e, v, _, _, _, he⟩ | ⟨e, _, _, _, he⟩ | ⟨e, _, _, _, he⟩
  · rw [he]
  · rw [he]
  · rw [he] at h; cases h
  · rw [he] at h; cases h
  · rw [he]

/-- after an answered `LoadEntry` the dependency loader holds the entry it handed back -/
theorem depLoadEntry_ok (s : Sys) (d : Nat) (mods : Mods) (n : Name) (hd : d < s.es.length) (e : Option (Option V))
    (h : (depLoadEntry s d mods n).2 = .ok e) : lk (canon n) ((depLoadEntry s d mods n).1.ents d) = e := by
  rcases depLoadEntry_cases s d mods n with ⟨v, hl, he⟩ | ⟨_, _, he⟩ | ⟨e1, v, _, _, _, he⟩ | ⟨e1, _, _, _, he⟩ | ⟨e1, hl, _, _, he⟩
  · rw [he] at h ⊢; simp only [LE.ok.injEq] at h; rw [← h]; exact hl
  · rw [he] at h; cases h
  · rw [he] at h ⊢; simp only [LE.ok.injEq] at h
    rw [← h, ents_setEnts]; simp only [hd, and_self, if_true, lk_put_same]
  · rw [he] at h ⊢; simp only [LE.ok.injEq] at h
    rw [← h, ents_setEnts]; simp only [hd, and_self, if_true, lk_put_same]
  · rw [he] at h ⊢; simp only [LE.ok.injEq] at h; rw [← h]; exact hl

/-! ### a chain whose root is a dependency loader -/

theorem loadEntryC_single (es : List Ents) (d : Nat) (k : Key) : loadEntryC es [d] k = lk k (es.getD d []) := by
  simp [loadEntryC]

/-- the lookup along `pre ++ [d]` is the dependency loader's `LoadEntry` followed by the plain lookup on the state it left -/
theorem loadEntryD_root (dps : List (Option Mods)) (s : Sys) (pre : List Nat) (d : Nat) (mods : Mods) (n : Name)
    (hpre : ∀ a ∈ pre, dps.getD a none = none) (hd : dps.getD d none = some mods) (hlen : d < s.es.length) :
    loadEntryD dps s (pre ++ [d]) n =
      match (depLoadEntry s d mods n).2 with
      | .bad => ((depLoadEntry s d mods n).1, .bad)
      | .ok _ => ((depLoadEntry s d mods n).1,
                  .ok (loadEntryC (depLoadEntry s d mods n).1.es (pre ++ [d]) (canon n))) := by
  induction pre with
  | nil =>
    simp only [List.nil_append, loadEntryD, hd]
    cases h2 : (depLoadEntry s d mods n).2 with
    | bad => simp only; rw [← h2]
    | ok e =>
      simp only
      have := depLoadEntry_ok s d mods n hlen e h2
      rw [loadEntryC_single]
      simp only [Sys.ents] at this
      rw [this, ← h2]
  | cons l pre ih =>
    have hl := hpre l (by simp)
    have ih' := ih (fun a ha => hpre a (by simp [ha]))
    simp only [List.cons_append, loadEntryD, hl, ih']
    cases h2 : (depLoadEntry s d mods n).2 with
    | bad => rfl
    | ok e =>
      simp only [loadEntryC]
      cases hc : loadEntryC (depLoadEntry s d mods n).1.es (pre ++ [d]) (canon n) with
      | none => simp [Sys.ents]
      | some o => cases o <;> simp [Sys.ents]

theorem depChain_split {dps : List (Option Mods)} {ch : List Nat} {d : Nat} {mods : Mods} (h : DepChain dps ch d mods) :
    ch = ch.dropLast ++ [d] := by
  obtain ⟨h1, _, _⟩ := h
  have hne : ch ≠ [] := by intro e; subst e; simp at h1
  have h2 : ch.getLast hne = d := by
    rw [List.getLast?_eq_some_getLast hne] at h1; exact Option.some.inj h1
  have := List.dropLast_concat_getLast hne
  rw [h2] at this; exact this.symm

theorem chain_root (ps : List (Option Nat)) (d : Nat) (h : ps.getD d none = none) : chain ps d = [d] := by
  unfold chain
  simp only [chainAux, h]

/-- the state a lookup leaves above the addressed loader: the dependency loader's `LoadEntry` -/
theorem fillD_eq (dps : List (Option Mods)) (s : Sys) (l d : Nat) (mods : Mods) (n : Name)
    (hc : DepChain dps (chain s.ps l) d mods) (hlen : d < s.es.length) :
    fillD dps s l n = (depLoadEntry s d mods n).1 := by
  unfold fillD
  rw [depChain_split hc, loadEntryD_root dps s _ d mods n hc.2.1 hc.2.2 hlen]
  cases (depLoadEntry s d mods n).2 <;> rfl

theorem fillD_plain (dps : List (Option Mods)) (s : Sys) (l : Nat) (n : Name)
    (h : ∀ a ∈ chain s.ps l, dps.getD a none = none) : fillD dps s l n = s := by
  unfold fillD; rw [loadEntryD_plain dps s _ n h]

@[simp] theorem depLoadEntry_ps (s : Sys) (d : Nat) (mods : Mods) (n : Name) : (depLoadEntry s d mods n).1.ps = s.ps := by
  rcases depLoadEntry_cases s d mods n with ⟨v, _, he⟩ | ⟨_, _, he⟩ | ⟨e, v, _, _, _, he⟩ | ⟨e, _, _, _, he⟩ | ⟨e, _, _, _, he⟩ <;>
    rw [he] <;> rfl

@[simp] theorem depLoadEntry_length (s : Sys) (d : Nat) (mods : Mods) (n : Name) :
    (depLoadEntry s d mods n).1.es.length = s.es.length := by
  rcases depLoadEntry_cases s d mods n with ⟨v, _, he⟩ | ⟨_, _, he⟩ | ⟨e, v, _, _, _, he⟩ | ⟨e, _, _, _, he⟩ | ⟨e, _, _, _, he⟩ <;>
    rw [he] <;> simp

/-- a lookup through a chain rooted in a dependency loader that raises nothing is the plain lookup on the filled state -/
theorem loadD_root (dps : List (Option Mods)) (s : Sys) (l d : Nat) (mods : Mods) (n : Name)
    (hc : DepChain dps (chain s.ps l) d mods) (hlen : d < s.es.length) (ha : n.auth = runtimeAuthority)
    (hok : (depLoadEntry s d mods n).2 ≠ .bad) :
    loadD dps s l n = load (fillD dps s l n) l n := by
  rw [fillD_eq dps s l d mods n hc hlen]
  unfold loadD load
  simp only [ha, ne_eq, not_true_eq_false, if_false, depLoadEntry_ps]
  have hsplit := depChain_split hc
  have hroot := loadEntryD_root dps s (chain s.ps l).dropLast d mods n hc.2.1 hc.2.2 hlen
  rw [← hsplit] at hroot
  rw [hroot]
  cases h2 : (depLoadEntry s d mods n).2 with
  | bad => exact absurd h2 hok
  | ok e =>
    simp only
    cases hcc : loadEntryC (depLoadEntry s d mods n).1.es (chain s.ps l) (canon n) with
    | none => rfl
    | some o => cases o <;> rfl

/-! ### bindings: the lazy binding is the only one a lookup makes, and nothing is ever overwritten -/

theorem bound_setEnts_put_mono (s : Sys) (d : Nat) (k : Key) (nv : Option V) (hj : (lk k (s.ents d)).join = none)
    (l : Nat) (k' : Key) (v : V) (h : bound s l k' = some v) : bound (s.setEnts d (put k nv (s.ents d))) l k' = some v := by
  have := bound_setEnts_setEntry_mono s l d k' k nv v h
  rw [setEntry_unbound' _ _ _ hj] at this
  exact this

theorem depLoadEntry_bound_mono (s : Sys) (d : Nat) (mods : Mods) (n : Name) (l : Nat) (k : Key) (v : V)
    (h : bound s l k = some v) : bound (depLoadEntry s d mods n).1 l k = some v := by
  rcases depLoadEntry_cases s d mods n with ⟨w, _, he⟩ | ⟨_, _, he⟩ | ⟨e, w, hj, _, _, he⟩ | ⟨e, hl, _, _, he⟩ | ⟨e, _, _, _, he⟩
  · rw [he]; exact h
  · rw [he]; exact h
  · rw [he]; exact bound_setEnts_put_mono s d _ _ hj l k v h
  · rw [he]; exact bound_setEnts_put_mono s d _ _ (by rw [hl]; rfl) l k v h
  · rw [he]; exact h

/-- what the dependency loader's `LoadEntry` binds: the name asked for, to what the dependencies bind, and only when it
    held no VALUE for it (a recorded miss does not stand in the way) -/
theorem depLoadEntry_bound (s : Sys) (d : Nat) (mods : Mods) (n : Name) (hlen : d < s.es.length) (hp : PartsOK mods n)
    (l : Nat) (k : Key) :
    bound (depLoadEntry s d mods n).1 l k =
      if l = d ∧ k = canon n ∧ bound s d (canon n) = none then depSpec s mods n else bound s l k := by
  have hput : ∀ (nv : Option V), bound (s.setEnts d (put (canon n) nv (s.ents d))) l k =
      if l = d ∧ k = canon n then nv else bound s l k := by
    intro nv
    simp only [bound, ents_setEnts, hlen, and_true]
    by_cases hl : l = d
    · subst hl
      by_cases hk : k = canon n
      · subst hk; simp only [and_self, if_true, lk_put_same, Option.join_some]
      · simp only [if_true, hk, and_false, if_false]; rw [lk_put_other hk]
    · simp [hl]
  rcases depLoadEntry_cases s d mods n with ⟨w, hl, he⟩ | ⟨hj, hf, he⟩ | ⟨e, w, hj, hf, hej, he⟩ | ⟨e, hl, hf, hej, he⟩ | ⟨e, hl, hf, hej, he⟩
  · rw [he]
    have : bound s d (canon n) = some w := by unfold bound; rw [hl]; rfl
    simp [this]
  · obtain ⟨e, hf', _⟩ := depFind_spec s d mods n hj hp
    rw [hf] at hf'; cases hf'
  · obtain ⟨e', hf', hs⟩ := depFind_spec s d mods n hj hp
    rw [hf] at hf'; simp only [LE.ok.injEq] at hf'; subst hf'
    rw [he, hput]
    have hb : bound s d (canon n) = none := hj
    simp only [hb, and_true]
    rw [← hs, hej]
  · have hj : (lk (canon n) (s.ents d)).join = none := by rw [hl]; rfl
    obtain ⟨e', hf', hs⟩ := depFind_spec s d mods n hj hp
    rw [hf] at hf'; simp only [LE.ok.injEq] at hf'; subst hf'
    rw [he, hput]
    have hb : bound s d (canon n) = none := hj
    simp only [hb, and_true]
    rw [← hs, hej]
  · have hj : (lk (canon n) (s.ents d)).join = none := by rw [hl]; rfl
    obtain ⟨e', hf', hs⟩ := depFind_spec s d mods n hj hp
    rw [hf] at hf'; simp only [LE.ok.injEq] at hf'; subst hf'
    rw [he]
    have hb : bound s d (canon n) = none := hj
    simp only [hb, and_true]
    split
    · rename_i hc; obtain ⟨rfl, rfl⟩ := hc; rw [← hs, hej]; exact hb
    · rfl

/-- the state a chain lookup leaves: the one the dependency loader (if the chain reaches one) leaves -/
theorem loadEntryD_cons_fst (dps : List (Option Mods)) (s : Sys) (a : Nat) (anc : List Nat) (n : Name) :
    (loadEntryD dps s (a :: anc) n).1 =
      match dps.getD a none with
      | some mods => (depLoadEntry s a mods n).1
      | none => (loadEntryD dps s anc n).1 := by
  cases hd : dps.getD a none with
  | some mods => simp only [loadEntryD, hd]
  | none =>
    simp only [loadEntryD, hd]
    generalize loadEntryD dps s anc n = r
    obtain ⟨s1, e⟩ := r
    cases e with
    | bad => rfl
    | ok o =>
      cases o with
      | none => rfl
      | some o2 => cases o2 <;> rfl

theorem loadEntryD_bound_mono (dps : List (Option Mods)) (s : Sys) (ch : List Nat) (n : Name) (l : Nat) (k : Key) (v : V)
    (h : bound s l k = some v) : bound (loadEntryD dps s ch n).1 l k = some v := by
  induction ch with
  | nil => exact h
  | cons a anc ih =>
    rw [loadEntryD_cons_fst]
    split
    · exact depLoadEntry_bound_mono s a _ n l k v h
    · exact ih

@[simp] theorem loadEntryD_ps (dps : List (Option Mods)) (s : Sys) (ch : List Nat) (n : Name) :
    (loadEntryD dps s ch n).1.ps = s.ps := by
  induction ch with
  | nil => rfl
  | cons a anc ih =>
    rw [loadEntryD_cons_fst]
    split
    · simp
    · exact ih

@[simp] theorem loadEntryD_length (dps : List (Option Mods)) (s : Sys) (ch : List Nat) (n : Name) :
    (loadEntryD dps s ch n).1.es.length = s.es.length := by
  induction ch with
  | nil => rfl
  | cons a anc ih =>
    rw [loadEntryD_cons_fst]
    split
    · simp
    · exact ih

theorem depLoadEntry_WF (s : Sys) (h : WF s) (d : Nat) (mods : Mods) (n : Name) : WF (depLoadEntry s d mods n).1 := by
  rcases depLoadEntry_cases s d mods n with ⟨v, _, he⟩ | ⟨_, _, he⟩ | ⟨e, v, _, _, _, he⟩ | ⟨e, _, _, _, he⟩ | ⟨e, _, _, _, he⟩
  · rw [he]; exact h
  · rw [he]; exact h
  · rw [he]; exact WF_setEnts s h d _ (keysOf_put_nodup _ _ _ (WF_ents s h d))
  · rw [he]; exact WF_setEnts s h d _ (keysOf_put_nodup _ _ _ (WF_ents s h d))
  · rw [he]; exact h

theorem loadEntryD_WF (dps : List (Option Mods)) (s : Sys) (h : WF s) (ch : List Nat) (n : Name) :
    WF (loadEntryD dps s ch n).1 := by
  induction ch with
  | nil => exact h
  | cons a anc ih =>
    rw [loadEntryD_cons_fst]
    split
    · exact depLoadEntry_WF s h a _ n
    · exact ih

/-- `loadD` in terms of the two components of `loadEntryD` (no `match` on a pair) -/
theorem loadD_eq (dps : List (Option Mods)) (s : Sys) (l : Nat) (n : Name) (ha : n.auth = runtimeAuthority) :
    loadD dps s l n =
      match (loadEntryD dps s (chain s.ps l) n).2 with
      | .bad => (fillD dps s l n, .reported "PCORE_INVALID_CHARACTERS_IN_NAME")
      | .ok none => ((fillD dps s l n).setEnts l (setEntry ((fillD dps s l n).ents l) (canon n) none).1, .notfound)
      | .ok (some none) => (fillD dps s l n, .notfound)
      | .ok (some (some v)) => (fillD dps s l n, .found v) := by
  unfold loadD fillD
  simp only [ha, ne_eq, not_true_eq_false, if_false]
  generalize loadEntryD dps s (chain s.ps l) n = r
  obtain ⟨s1, e⟩ := r
  cases e with
  | bad => rfl
  | ok o =>
    cases o with
    | none => rfl
    | some o2 => cases o2 <;> rfl

theorem loadD_foreign (dps : List (Option Mods)) (s : Sys) (l : Nat) (n : Name) (ha : n.auth ≠ runtimeAuthority) :
    loadD dps s l n = (s, .notfound) := by
  unfold loadD; simp [ha]

theorem bound_loadD_mono (dps : List (Option Mods)) (s : Sys) (l : Nat) (n : Name) (l' : Nat) (k : Key) (v : V)
    (h : bound s l' k = some v) : bound (loadD dps s l n).1 l' k = some v := by
  by_cases ha : n.auth = runtimeAuthority
  · rw [loadD_eq dps s l n ha]
    have hf : bound (fillD dps s l n) l' k = some v := loadEntryD_bound_mono dps s _ n l' k v h
    split
    · exact hf
    · exact bound_setEnts_setEntry_mono _ l' l k (canon n) none v hf
    · exact hf
    · exact hf
  · rw [loadD_foreign dps s l n ha]; exact h

theorem bound_stepD_mono (dps : List (Option Mods)) (s : Sys) (op : Op) (l : Nat) (k : Key) (v : V)
    (h : bound s l k = some v) : bound (stepD dps s op).1 l k = some v := by
  cases op with
  | load l' n => exact bound_loadD_mono dps s l' n l k v h
  | define l' n v' => exact bound_step_mono s (.define l' n v') l k v h
  | has _ _ => exact h
  | get _ _ => exact h
  | discover _ _ => exact h

theorem runD_cons (dps : List (Option Mods)) (s : Sys) (op : Op) (ops : List Op) :
    runD dps s (op :: ops) =
      ((runD dps (stepD dps s op).1 ops).1, (stepD dps s op).2 :: (runD dps (stepD dps s op).1 ops).2) := rfl

theorem bound_runD_mono (dps : List (Option Mods)) (s : Sys) (ops : List Op) (l : Nat) (k : Key) (v : V)
    (h : bound s l k = some v) : bound (runD dps s ops).1 l k = some v := by
  induction ops generalizing s with
  | nil => exact h
  | cons op ops ih => rw [runD_cons]; exact ih _ (bound_stepD_mono dps s op l k v h)

theorem loadD_ps (dps : List (Option Mods)) (s : Sys) (l : Nat) (n : Name) : (loadD dps s l n).1.ps = s.ps := by
  by_cases ha : n.auth = runtimeAuthority
  · rw [loadD_eq dps s l n ha]
    split <;> simp [fillD]
  · rw [loadD_foreign dps s l n ha]

theorem loadD_length (dps : List (Option Mods)) (s : Sys) (l : Nat) (n : Name) :
    (loadD dps s l n).1.es.length = s.es.length := by
  by_cases ha : n.auth = runtimeAuthority
  · rw [loadD_eq dps s l n ha]
    split <;> simp [fillD]
  · rw [loadD_foreign dps s l n ha]

@[simp] theorem stepD_ps (dps : List (Option Mods)) (s : Sys) (op : Op) : (stepD dps s op).1.ps = s.ps := by
  cases op with
  | load l n => exact loadD_ps dps s l n
  | define l n v => exact step_ps s (.define l n v)
  | has _ _ => rfl
  | get _ _ => rfl
  | discover _ _ => rfl

@[simp] theorem stepD_length (dps : List (Option Mods)) (s : Sys) (op : Op) : (stepD dps s op).1.es.length = s.es.length := by
  cases op with
  | load l n => exact loadD_length dps s l n
  | define l n v => exact step_length s (.define l n v)
  | has _ _ => rfl
  | get _ _ => rfl
  | discover _ _ => rfl

@[simp] theorem runD_ps (dps : List (Option Mods)) (s : Sys) (ops : List Op) : (runD dps s ops).1.ps = s.ps := by
  induction ops generalizing s with
  | nil => rfl
  | cons op ops ih => rw [runD_cons]; simp [ih]

@[simp] theorem runD_length (dps : List (Option Mods)) (s : Sys) (ops : List Op) :
    (runD dps s ops).1.es.length = s.es.length := by
  induction ops generalizing s with
  | nil => rfl
  | cons op ops ih => rw [runD_cons]; simp [ih]

theorem WF_stepD (dps : List (Option Mods)) (s : Sys) (op : Op) (h : WF s) : WF (stepD dps s op).1 := by
  cases op with
  | load l n =>
    show WF (loadD dps s l n).1
    by_cases ha : n.auth = runtimeAuthority
    · rw [loadD_eq dps s l n ha]
      have hf : WF (fillD dps s l n) := loadEntryD_WF dps s h _ n
      split
      · exact hf
      · exact WF_setEnts _ hf l _ (setEntry_keys_nodup _ _ _ (WF_ents _ hf l))
      · exact hf
      · exact hf
    · rw [loadD_foreign dps s l n ha]; exact h
  | define l n v => exact WF_step s (.define l n v) h
  | has _ _ => exact h
  | get _ _ => exact h
  | discover _ _ => exact h

theorem WF_runD (dps : List (Option Mods)) (s : Sys) (ops : List Op) (h : WF s) : WF (runD dps s ops).1 := by
  induction ops generalizing s with
  | nil => exact h
  | cons op ops ih => rw [runD_cons]; exact ih _ (WF_stepD dps s op h)

theorem depLoadEntry_ne_bad (s : Sys) (d : Nat) (mods : Mods) (n : Name) (hp : PartsOK mods n) :
    (depLoadEntry s d mods n).2 ≠ .bad := by
  rcases depLoadEntry_cases s d mods n with ⟨v, _, he⟩ | ⟨hj, hf, he⟩ | ⟨e, v, _, _, _, he⟩ | ⟨e, _, _, _, he⟩ | ⟨e, _, _, _, he⟩
  · rw [he]; simp
  · obtain ⟨e, hf', _⟩ := depFind_spec s d mods n hj hp
    rw [hf] at hf'; cases hf'
  · rw [he]; simp
  · rw [he]; simp
  · rw [he]; simp

/-- an ill-formed qualified name the dependency loader holds no value for: `Parts()` panics, nothing is written -/
theorem depLoadEntry_bad_of (s : Sys) (d : Nat) (mods : Mods) (n : Name) (hlk : bound s d (canon n) = none)
    (hp : ¬ PartsOK mods n) : depLoadEntry s d mods n = (s, .bad) := by
  unfold PartsOK at hp
  simp only [Classical.not_imp, Bool.not_eq_true, Option.isSome_eq_false_iff, Option.isNone_iff_eq_none] at hp
  obtain ⟨hq, hn⟩ := hp
  have hbad : depFind s d mods n = .bad := by
    unfold depFind
    simp only [hq, if_true, hn]
  rcases depLoadEntry_cases s d mods n with ⟨v, hl, _⟩ | ⟨_, _, he⟩ | ⟨e, v, _, hf, _, _⟩ | ⟨e, _, hf, _, _⟩ | ⟨e, _, hf, _, _⟩
  · unfold bound at hlk; rw [hl] at hlk; cases hlk
  · exact he
  · rw [hbad] at hf; cases hf
  · rw [hbad] at hf; cases hf
  · rw [hbad] at hf; cases hf

/-- the answer of a dependency loader that holds no value for the name is what the dependencies bind -/
theorem depLoadEntry_answer (s : Sys) (d : Nat) (mods : Mods) (n : Name) (hp : PartsOK mods n)
    (hb : bound s d (canon n) = none) : (depLoadEntry s d mods n).2 = .ok (some (depSpec s mods n)) := by
  have hj : (lk (canon n) (s.ents d)).join = none := hb
  obtain ⟨e', hf', hs⟩ := depFind_spec s d mods n hj hp
  rcases depLoadEntry_cases s d mods n with ⟨v, hl, _⟩ | ⟨_, hf, _⟩ | ⟨e, v, _, hf, hej, he⟩ | ⟨e, _, hf, hej, he⟩ | ⟨e, _, hf, hej, he⟩
  · rw [hl] at hj; cases hj
  · rw [hf] at hf'; cases hf'
  · rw [hf] at hf'; simp only [LE.ok.injEq] at hf'; subst hf'; rw [he, ← hs, hej]
  · rw [hf] at hf'; simp only [LE.ok.injEq] at hf'; subst hf'; rw [he, ← hs, hej]
  · rw [hf] at hf'; simp only [LE.ok.injEq] at hf'; subst hf'; rw [he, ← hs, hej]

/-- a chain without dependency loader: the operation is the one of `LoaderSeq` -/
theorem stepD_plain (dps : List (Option Mods)) (s : Sys) (op : Op)
    (h : ∀ a ∈ chain s.ps op.loader, dps.getD a none = none) : stepD dps s op = step s op := by
  cases op with
  | load l n => exact loadD_plain dps s l n h
  | define _ _ _ => rfl
  | has _ _ => rfl
  | get _ _ => rfl
  | discover _ _ => rfl

end Pcore.LoaderSeq
