import Pcore.Model.Quote
/-!
Layer 1 of C05 (characters): what `PuppetQuote` / `RegexpQuote` write, the lexer reads back — with an arbitrary
continuation `rest`, which is what the token-level lemmas consume.  Also: decimal rendering ∘ `parseInt`.
-/
namespace Pcore.Syntax

theorem isCtl_false {c : Char} (h : isCtl c = false) : ¬ c.toNat < 0x20 ∧ c ≠ runeError := by
  simp [isCtl] at h; exact ⟨by omega, h.2⟩

theorem rune_chr {c : Char} (h : c ≠ runeError) : (Sym.chr c).rune = some c := by simp [Sym.rune, h]

theorem syms_cons (c : Char) (cs : Str) : syms (c :: cs) = Sym.chr c :: syms cs := rfl
theorem syms_append (a b : Str) : syms (a ++ b) = syms a ++ syms b := by simp [syms]
@[simp] theorem syms_nil : syms [] = [] := rfl

/-! ### single-quoted -/

theorem lexStr_sq (s acc : Str) (rest : List Sym) (h : s.any isCtl = false) :
    lexStr '\'' .norm acc (syms (sqBody s) ++ Sym.chr '\'' :: rest) = .tok ⟨.string, acc.reverse ++ s⟩ rest false := by
  induction s generalizing acc with
  | nil => simp [sqBody, lexStr, Sym.rune, runeError]
  | cons c cs ih =>
    simp only [List.any_cons, Bool.or_eq_false_iff] at h
    obtain ⟨hc, hcs⟩ := h
    obtain ⟨h20, hre⟩ := isCtl_false hc
    have ih' := fun a => ih a hcs
    have hq : (Sym.chr '\'').rune = some '\'' := by decide
    have hb : (Sym.chr '\\').rune = some '\\' := by decide
    unfold sqBody
    by_cases h1 : c = '\''
    · subst h1
      simp only [if_true, syms_cons, List.cons_append]
      rw [lexStr, hb]; simp only
      rw [lexStr, hq]; simp only
      simp [ih']
    · by_cases h2 : c = '\\'
      · subst h2
        simp only [h1, if_false, if_true, syms_cons, List.cons_append]
        rw [lexStr, hb]; simp only
        rw [lexStr, hb]; simp only
        simp [ih']
      · simp only [h1, h2, if_false, syms_cons, List.cons_append]
        rw [lexStr, rune_chr hre]; simp only
        have h0 : c ≠ '\x00' := by intro e; subst e; simp at h20
        have hn : c ≠ '\n' := by intro e; subst e; simp at h20
        simp [h1, h2, h0, hn, ih']

/-! ### `\u{X}` -/

theorem hexDigitUpper_spec : ∀ d, d < 16 →
    isHex (hexDigitUpper d) = true ∧ hexVal (hexDigitUpper d) = d ∧ hexDigitUpper d ≠ '}' ∧
    (Sym.chr (hexDigitUpper d)).rune = some (hexDigitUpper d) := by decide

theorem hexUpper_lt16 (n : Nat) (h : n < 16) : hexUpper n = [hexDigitUpper n] := by
  rw [hexUpper]; simp [h]

theorem hexUpper_lt32 (n : Nat) (h1 : 16 ≤ n) (h2 : n < 32) : hexUpper n = ['1', hexDigitUpper (n - 16)] := by
  rw [hexUpper]
  have : ¬ n < 16 := by omega
  simp only [this, dite_false]
  have hd : n / 16 = 1 := by omega
  have hm : n % 16 = n - 16 := by omega
  rw [hd, hm, hexUpper_lt16 1 (by omega)]
  rfl

theorem hexUpper_fffd : hexUpper 0xFFFD = ['F', 'F', 'F', 'D'] := by
  rw [hexUpper]; simp only [show ¬ (0xFFFD < 16) by omega, dite_false]
  rw [hexUpper]; simp only [show ¬ (0xFFFD / 16 < 16) by omega, dite_false]
  rw [hexUpper]; simp only [show ¬ (0xFFFD / 16 / 16 < 16) by omega, dite_false]
  rw [hexUpper_lt16 _ (by omega)]
  decide

theorem isCtl_cases {c : Char} (h : isCtl c = true) : c.toNat < 32 ∨ c = runeError := by
  simp [isCtl] at h; omega

theorem runeOfNat_toNat (c : Char) : runeOfNat c.toNat = c := by
  unfold runeOfNat
  have hv := c.valid
  have : c.toNat < 0xD800 ∨ (0xDFFF < c.toNat ∧ c.toNat < 0x110000) := by
    simp only [Char.toNat] at *
    rcases hv with h | h
    · left; exact h
    · right; exact h
  simp [this]

/-- the lexer reads `\u{X}` (entered after the backslash) back as the character -/
theorem lexStr_uEsc (q : Char) (c : Char) (h : isCtl c = true) (acc : Str) (rest : List Sym) :
    lexStr q .esc acc (syms ('u' :: '{' :: (hexUpper c.toNat ++ ['}'])) ++ rest) = lexStr q .norm (c :: acc) rest := by
  have hu : (Sym.chr 'u').rune = some 'u' := by decide
  have ho : (Sym.chr '{').rune = some '{' := by decide
  have hcl : (Sym.chr '}').rune = some '}' := by decide
  have h1r : (Sym.chr '1').rune = some '1' := by decide
  simp only [syms_cons, List.cons_append]
  rw [lexStr, hu]; simp only
  have e1 : ('u' = '\x00') = False := by decide
  have e2 : ('u' = 'n') = False := by decide
  have e3 : ('u' = 'r') = False := by decide
  have e4 : ('u' = 't') = False := by decide
  have e5 : ('u' = '\\') = False := by decide
  have e6 : ('u' = '$') = False := by decide
  simp only [e1, e2, e3, e4, e5, e6, if_false, if_true]
  rw [lexStr, ho]; simp only [if_true]
  rcases isCtl_cases h with hlt | rfl
  · by_cases h16 : c.toNat < 16
    · rw [hexUpper_lt16 _ h16]
      obtain ⟨hh, hv, hne, hr⟩ := hexDigitUpper_spec c.toNat h16
      simp only [syms_cons, syms_nil, List.cons_append, List.nil_append]
      rw [lexStr, hr]; simp only
      simp only [hne, false_and, if_false, hh, hv, Nat.lt_irrefl, Nat.zero_mul, Nat.zero_add, and_true,
        show (0 < 6) by omega, if_true]
      rw [lexStr, hcl]; simp only
      simp [runeOfNat_toNat]
    · have h16' : 16 ≤ c.toNat := by omega
      rw [hexUpper_lt32 _ h16' hlt]
      obtain ⟨hh, hv, hne, hr⟩ := hexDigitUpper_spec (c.toNat - 16) (by omega)
      simp only [syms_cons, syms_nil, List.cons_append, List.nil_append]
      rw [lexStr, h1r]; simp only
      have x1 : ('1' = '}') = False := by decide
      have x2 : isHex '1' = true := by decide
      have x3 : hexVal '1' = 1 := by decide
      simp only [x1, false_and, if_false, x2, x3, show (0 < 6) by omega, and_true, if_true, Nat.zero_mul, Nat.zero_add]
      rw [lexStr, hr]; simp only
      simp only [hne, false_and, if_false, hh, hv, show (1 < 6) by omega, and_true, if_true]
      rw [lexStr, hcl]; simp only
      have : 1 * 16 + (c.toNat - 16) = c.toNat := by omega
      simp [this, runeOfNat_toNat]
  · have : runeError.toNat = 0xFFFD := by decide
    rw [this, hexUpper_fffd]
    have hF : (Sym.chr 'F').rune = some 'F' := by decide
    have hD : (Sym.chr 'D').rune = some 'D' := by decide
    simp only [syms_cons, syms_nil, List.cons_append, List.nil_append]
    have y1 : ('F' = '}') = False := by decide
    have y2 : isHex 'F' = true := by decide
    have y3 : hexVal 'F' = 15 := by decide
    have z1 : ('D' = '}') = False := by decide
    have z2 : isHex 'D' = true := by decide
    have z3 : hexVal 'D' = 13 := by decide
    rw [lexStr, hF]; simp only [y1, false_and, if_false, y2, y3, show (0 < 6) by omega, and_true, if_true]
    rw [lexStr, hF]; simp only [y1, false_and, if_false, y2, y3, show (0 + 1 < 6) by omega, and_true, if_true]
    rw [lexStr, hF]; simp only [y1, false_and, if_false, y2, y3, show (0 + 1 + 1 < 6) by omega, and_true, if_true]
    rw [lexStr, hD]; simp only [z1, false_and, if_false, z2, z3, show (0 + 1 + 1 + 1 < 6) by omega, and_true, if_true]
    rw [lexStr, hcl]; simp only
    have : runeOfNat ((((0 * 16 + 15) * 16 + 15) * 16 + 15) * 16 + 13) = runeError := by decide
    simp [this]

/-! ### double-quoted -/

theorem lexStr_dq (s acc : Str) (rest : List Sym) :
    lexStr '"' .norm acc (syms (dqBody s) ++ Sym.chr '"' :: rest) = .tok ⟨.string, acc.reverse ++ s⟩ rest false := by
  induction s generalizing acc with
  | nil => simp [dqBody, lexStr, Sym.rune, runeError]
  | cons c cs ih =>
    have hb : (Sym.chr '\\').rune = some '\\' := by decide
    unfold dqBody
    -- the six two-character escapes
    have two : ∀ (e : Char) (r : Char), (Sym.chr e).rune = some e →
        (∀ (a : Str) (tl : List Sym), lexStr '"' .esc a (Sym.chr e :: tl) = lexStr '"' .norm (r :: a) tl) →
        lexStr '"' .norm acc (syms ('\\' :: e :: dqBody cs) ++ Sym.chr '"' :: rest) =
          .tok ⟨.string, acc.reverse ++ r :: cs⟩ rest false := by
      intro e r _ he
      simp only [syms_cons, List.cons_append]
      rw [lexStr, hb]; simp only
      have b1 : ('\\' = '"') = False := by decide
      have b2 : ('\\' = '\x00') = False := by decide
      simp only [b1, b2, if_false, if_true]
      rw [he, ih]; simp
    by_cases h1 : c = '\t'
    · subst h1; simp only [if_true]
      exact two 't' '\t' (by decide) (by intro a tl; rw [lexStr]; simp [Sym.rune, runeError])
    by_cases h2 : c = '\n'
    · subst h2; simp only [h1, if_false, if_true]
      exact two 'n' '\n' (by decide) (by intro a tl; rw [lexStr]; simp [Sym.rune, runeError])
    by_cases h3 : c = '\r'
    · subst h3; simp only [h1, h2, if_false, if_true]
      exact two 'r' '\r' (by decide) (by intro a tl; rw [lexStr]; simp [Sym.rune, runeError])
    by_cases h4 : c = '"'
    · subst h4; simp only [h1, h2, h3, if_false, if_true]
      exact two '"' '"' (by decide) (by intro a tl; rw [lexStr]; simp [Sym.rune, runeError])
    by_cases h5 : c = '\\'
    · subst h5; simp only [h1, h2, h3, h4, if_false, if_true]
      exact two '\\' '\\' (by decide) (by intro a tl; rw [lexStr]; simp [Sym.rune, runeError])
    by_cases h6 : c = '$'
    · subst h6; simp only [h1, h2, h3, h4, h5, if_false, if_true]
      exact two '$' '$' (by decide) (by intro a tl; rw [lexStr]; simp [Sym.rune, runeError])
    simp only [h1, h2, h3, h4, h5, h6, if_false]
    by_cases h7 : isCtl c = true
    · simp only [h7, if_true, uEsc]
      simp only [List.cons_append, syms_cons]
      rw [lexStr, hb]; simp only
      have b1 : ('\\' = '"') = False := by decide
      have b2 : ('\\' = '\x00') = False := by decide
      simp only [b1, b2, if_false, if_true]
      have := lexStr_uEsc '"' c h7 acc (syms (dqBody cs) ++ Sym.chr '"' :: rest)
      simp only [syms_cons, List.cons_append, syms_append, List.append_assoc] at this ⊢
      rw [this, ih]; simp
    · have h7' : isCtl c = false := by simpa using h7
      obtain ⟨h20, hre⟩ := isCtl_false h7'
      simp only [h7', if_false, Bool.false_eq_true, syms_cons, List.cons_append]
      rw [lexStr, rune_chr hre]; simp only
      have h0 : c ≠ '\x00' := by intro e; subst e; simp at h20
      simp [h4, h5, h0, h2, ih]

/-- **strings**: for EVERY string, the lexer reads the program-format literal back as that string -/
theorem nextToken_puppetQuote (il : Char → Bool) (s : Str) (rest : List Sym) :
    nextToken il (syms (puppetQuote s) ++ rest) = .tok ⟨.string, s⟩ rest false := by
  unfold puppetQuote nextToken
  by_cases h : s.any isCtl = true
  · simp only [h, if_true, syms_cons, List.cons_append]
    rw [nextTok]
    have hq : (Sym.chr '"').rune = some '"' := by decide
    rw [hq]; simp only
    have : startTok il '"' (syms (dqBody s ++ ['"']) ++ rest) = .tok ⟨.string, s⟩ rest false := by
      unfold startTok
      have := lexStr_dq s [] rest
      simpa [syms_append, syms_cons] using this
    simpa using this
  · have h' : s.any isCtl = false := by simpa using h
    simp only [h', Bool.false_eq_true, if_false, syms_cons, List.cons_append]
    rw [nextTok]
    have hq : (Sym.chr '\'').rune = some '\'' := by decide
    rw [hq]; simp only
    have : startTok il '\'' (syms (sqBody s ++ ['\'']) ++ rest) = .tok ⟨.string, s⟩ rest false := by
      unfold startTok
      have := lexStr_sq s [] rest h'
      simpa [syms_append, syms_cons] using this
    simpa using this

/-! ### regexps -/

/-- the regexp sources a regexp literal can denote (`esc` = the previous character was an unescaped backslash):
    no `\/`, no raw newline / NUL / U+FFFD, no NUL / U+FFFD after a backslash, no trailing lone backslash -/
def rxRep : Bool → Str → Bool
  | false, [] => true
  | true, [] => false
  | true, c :: cs => c ≠ '/' && c ≠ '\x00' && c ≠ runeError && rxRep false cs
  | false, c :: cs =>
    if c = '\\' then rxRep true cs else c ≠ '\n' && c ≠ '\x00' && c ≠ runeError && rxRep false cs

theorem lexRx_rxBody (s : Str) :
    (∀ acc rest, rxRep false s = true →
      lexRx .norm acc (syms (rxBody false s) ++ Sym.chr '/' :: rest) = .tok ⟨.regexp, acc.reverse ++ s⟩ rest false) ∧
    (∀ acc rest, rxRep true s = true →
      lexRx .esc acc (syms (rxBody true s) ++ Sym.chr '/' :: rest) = .tok ⟨.regexp, acc.reverse ++ '\\' :: s⟩ rest false) := by
  induction s with
  | nil =>
    refine ⟨?_, ?_⟩
    · intro acc rest _
      simp [rxBody, lexRx, Sym.rune, runeError]
    · intro acc rest h; simp [rxRep] at h
  | cons c cs ih =>
    obtain ⟨ihn, ihe⟩ := ih
    have hb : (Sym.chr '\\').rune = some '\\' := by decide
    have hs : (Sym.chr '/').rune = some '/' := by decide
    refine ⟨?_, ?_⟩
    · intro acc rest h
      by_cases h1 : c = '\\'
      · subst h1
        simp only [rxRep, if_true] at h
        simp only [rxBody, if_true, syms_cons, List.cons_append]
        rw [lexRx, hb]; simp only
        have b1 : ('\\' = '/') = False := by decide
        simp only [b1, if_false, if_true]
        rw [ihe acc rest h]
      · simp only [rxRep, h1, if_false, Bool.and_eq_true, decide_eq_true_eq] at h
        obtain ⟨⟨⟨hn, h0⟩, hre⟩, hr⟩ := h
        by_cases h2 : c = '/'
        · subst h2
          simp only [rxBody, h1, if_false, if_true, syms_cons, List.cons_append]
          rw [lexRx, hb]; simp only
          have b1 : ('\\' = '/') = False := by decide
          simp only [b1, if_false, if_true]
          rw [lexRx, hs]; simp only
          have b2 : ('/' = '\x00') = False := by decide
          simp only [b2, if_false, if_true]
          rw [ihn _ rest hr]; simp
        · simp only [rxBody, h1, h2, hn, h0, hre, if_false, syms_cons, List.cons_append]
          rw [lexRx, rune_chr hre]; simp only
          simp only [h2, h1, h0, hn, if_false]
          rw [ihn _ rest hr]; simp
    · intro acc rest h
      simp only [rxRep, Bool.and_eq_true, decide_eq_true_eq] at h
      obtain ⟨⟨⟨hsl, h0⟩, hre⟩, hr⟩ := h
      simp only [rxBody, syms_cons, List.cons_append]
      rw [lexRx, rune_chr hre]; simp only
      simp only [h0, hsl, if_false]
      rw [ihn _ rest hr]; simp

/-- **regexps**: for every representable source, the lexer reads the printed literal back as that source -/
theorem nextToken_regexpQuote (il : Char → Bool) (s : Str) (rest : List Sym) (h : rxRep false s = true) :
    nextToken il (syms (regexpQuote s) ++ rest) = .tok ⟨.regexp, s⟩ rest false := by
  unfold regexpQuote nextToken
  simp only [syms_cons, List.cons_append]
  rw [nextTok]
  have hs : (Sym.chr '/').rune = some '/' := by decide
  rw [hs]; simp only
  have : startTok il '/' (syms (rxBody false s ++ ['/']) ++ rest) = .tok ⟨.regexp, s⟩ rest false := by
    unfold startTok
    have := (lexRx_rxBody s).1 [] rest h
    simpa [syms_append, syms_cons] using this
  simpa using this

/-! ### integers -/

theorem digitVal_digitChar : ∀ d, d < 10 → digitVal (digitChar d) = some d ∧ isDigit (digitChar d) = true := by decide

theorem digitsVal_natDigits (n : Nat) : ∀ (acc : Nat) (rest : Str),
    digitsVal 10 acc (natDigits n ++ rest) = digitsVal 10 (acc * 10 ^ (natDigits n).length + n) rest := by
  induction n using Nat.strongRecOn with
  | _ n ih =>
    intro acc rest
    rw [natDigits]
    by_cases h : n < 10
    · simp only [h, dite_true, List.cons_append, List.nil_append, List.length_cons, List.length_nil]
      rw [digitsVal, (digitVal_digitChar n h).1]
      simp [h]
    · simp only [h, dite_false, List.append_assoc, List.cons_append, List.nil_append]
      rw [ih (n / 10) (by omega)]
      have hm : n % 10 < 10 := by omega
      rw [digitsVal, (digitVal_digitChar _ hm).1]
      simp only [hm, if_true, List.length_append, List.length_cons, List.length_nil]
      congr 1
      rw [Nat.pow_succ]
      have := Nat.div_add_mod n 10
      rw [Nat.add_mul, Nat.mul_assoc]
      omega

/-- the first digit of a positive number is not `0` -/
theorem natDigits_head (n : Nat) (hn : 0 < n) :
    ∃ d cs, natDigits n = digitChar d :: cs ∧ 1 ≤ d ∧ d < 10 := by
  induction n using Nat.strongRecOn with
  | _ n ih =>
    rw [natDigits]
    by_cases h : n < 10
    · exact ⟨n, [], by simp [h], hn, h⟩
    · simp only [h, dite_false]
      obtain ⟨d, cs, hd, h1, h2⟩ := ih (n / 10) (by omega) (by omega)
      exact ⟨d, cs ++ [digitChar (n % 10)], by simp [hd], h1, h2⟩

theorem parseInt_digits (d : Nat) (cs : Str) (h1 : 1 ≤ d) (h2 : d < 10) (neg : Bool) (v : Nat)
    (hv : digitsVal 10 0 (digitChar d :: cs) = some v) :
    parseInt (if neg then '-' :: digitChar d :: cs else digitChar d :: cs) =
      (if neg then (if v ≤ int64Bound then some (-(v : Int)) else none)
       else if v < int64Bound then some (v : Int) else none) := by
  have key : ∀ d, d < 10 → 1 ≤ d → digitChar d ≠ '-' ∧ digitChar d ≠ '+' ∧ digitChar d ≠ '0' := by decide
  obtain ⟨k1, k2, k3⟩ := key d h2 h1
  cases neg with
  | true =>
    simp only [if_true]
    unfold parseInt
    simp only
    cases cs with
    | nil => simp_all
    | cons a as =>
      cases as with
      | nil => simp_all
      | cons b bs => simp_all
  | false =>
    simp only [Bool.false_eq_true, if_false]
    unfold parseInt
    simp only
    cases cs with
    | nil => simp_all
    | cons a as =>
      cases as with
      | nil => simp_all
      | cons b bs => simp_all

/-- **integers**: `ParseInt(FormatInt(i))` gives `i` back for every Int64 -/
theorem parseInt_intText (i : Int) (hlo : -(int64Bound : Int) ≤ i) (hhi : i < (int64Bound : Int)) :
    parseInt (intText i) = some i := by
  cases i with
  | ofNat n =>
    simp only [intText]
    by_cases hn : n = 0
    · subst hn
      rw [natDigits]
      simp only [show (0 < 10) by omega, dite_true]
      decide
    · obtain ⟨d, cs, hd, h1, h2⟩ := natDigits_head n (by omega)
      have hv := digitsVal_natDigits n 0 []
      simp only [List.append_nil, Nat.zero_mul, Nat.zero_add, digitsVal] at hv
      rw [hd] at hv
      have := parseInt_digits d cs h1 h2 false n hv
      simp only [Bool.false_eq_true, if_false] at this
      rw [hd, this]
      have : n < int64Bound := by
        have : (Int.ofNat n) < (int64Bound : Int) := hhi
        exact Int.ofNat_lt.mp this
      simp [this]
  | negSucc n =>
    simp only [intText]
    obtain ⟨d, cs, hd, h1, h2⟩ := natDigits_head (n + 1) (by omega)
    have hv := digitsVal_natDigits (n + 1) 0 []
    simp only [List.append_nil, Nat.zero_mul, Nat.zero_add, digitsVal] at hv
    rw [hd] at hv
    have := parseInt_digits d cs h1 h2 true (n + 1) hv
    simp only [if_true] at this
    rw [hd, this]
    have hb : n + 1 ≤ int64Bound := by
      have : -(int64Bound : Int) ≤ Int.negSucc n := hlo
      omega
    simp [hb, Int.negSucc_eq]

end Pcore.Syntax
