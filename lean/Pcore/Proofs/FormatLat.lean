import Pcore.Model.FormatLat
import Pcore.Proofs.FormatMergeG
/-! The hypotheses of the lookup law as ONE decidable check on the keys of a map, so that a concrete map keyed by parameterised
    types discharges them by evaluation of the lattice model. -/
namespace Pcore.Format
variable {κ : Type}

/-- no two positions of the list are related by `p` in either direction -/
def noPairb (p : κ → κ → Bool) : List κ → Bool
  | [] => true
  | x :: xs => xs.all (fun y => !p x y && !p y x) && noPairb p xs

theorem noPairb_sound (p : κ → κ → Bool) : ∀ (l : List κ), noPairb p l = true → ∀ a ∈ l, ∀ b ∈ l, p a b = true → a = b
  | [], _, a, ha, _, _, _ => by cases ha
  | x :: xs, h, a, ha, b, hb, hp => by
    simp only [noPairb, Bool.and_eq_true, List.all_eq_true, Bool.not_eq_true'] at h
    rcases List.mem_cons.1 ha with rfl | ha' <;> rcases List.mem_cons.1 hb with rfl | hb'
    · rfl
    · have := (h.1 b hb').1; rw [hp] at this; cases this
    · have := (h.1 a ha').2; rw [hp] at this; cases this
    · exact noPairb_sound p xs h.2 a ha' b hb' hp

/-- `KeysLawful` as a boolean: reflexive and transitive on the keys; no two positions mutually assignable; no two positions with
    the same name -/
def lawfulb (ko : KeyOrd κ) (keys : List κ) : Bool :=
  keys.all (fun a => ko.sub a a) &&
  keys.all (fun a => keys.all (fun b => keys.all (fun c => !(ko.sub a b && ko.sub b c) || ko.sub a c))) &&
  noPairb (fun a b => ko.sub a b && ko.sub b a) keys &&
  noPairb (fun a b => decide (ko.name a = ko.name b)) keys

theorem lawfulb_sound (ko : KeyOrd κ) (keys : List κ) (h : lawfulb ko keys = true) : KeysLawful ko keys := by
  simp only [lawfulb, Bool.and_eq_true, List.all_eq_true] at h
  obtain ⟨⟨⟨h1, h2⟩, h3⟩, h4⟩ := h
  refine ⟨h1, ?_, ?_, ?_⟩
  · intro a ha b hb c hc hab hbc
    have := h2 a ha b hb c hc
    simpa [hab, hbc] using this
  · intro a ha b hb hab hba
    exact noPairb_sound _ keys h3 a ha b hb (by simp [hab, hba])
  · intro a ha b hb hn
    exact noPairb_sound _ keys h4 a ha b hb (by simp [hn])

theorem noPairb_nodup (p : κ → κ → Bool) (hp : ∀ a, p a a = true) : ∀ (l : List κ), noPairb p l = true → l.Nodup
  | [], _ => List.nodup_nil
  | x :: xs, h => by
    simp only [noPairb, Bool.and_eq_true, List.all_eq_true, Bool.not_eq_true'] at h
    refine List.nodup_cons.2 ⟨?_, noPairb_nodup p hp xs h.2⟩
    intro hx
    have := (h.1 x hx).1
    rw [hp x] at this
    cases this

/-- keys that pass the check are pairwise different -/
theorem lawfulb_nodup (ko : KeyOrd κ) (keys : List κ) (h : lawfulb ko keys = true) : keys.Nodup := by
  simp only [lawfulb, Bool.and_eq_true] at h
  exact noPairb_nodup _ (fun a => by simp) keys h.2

end Pcore.Format
