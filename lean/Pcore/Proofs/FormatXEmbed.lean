import Pcore.Proofs.FormatXLaws
/-! Refinement: on the ten value kinds of `Format.lean`, under format maps keyed by the 16 default types, the extended model
    `fmtX` (any kind, any key system) IS the model `fmtVal` of `Format.lean` — so every theorem about `fmtVal` is a theorem
    about the extended model on that fragment, and the byte-for-byte comparison of the op `fmt` covers both. -/
namespace Pcore.Format

mutual
def Val.x : Val → XVal
  | .undef => .undef | .dflt => .dflt | .bool b => .bool b | .int i => .int i | .float bits => .float bits
  | .str s => .str s | .regexp src => .regexp src | .binary bs u => .binary bs u
  | .array vs => .array (Val.xs vs)
  | .hash es => .hash (Entry.xs es)
def Val.xs : List Val → List XVal
  | [] => []
  | v :: vs => v.x :: Val.xs vs
def Entry.x : Entry → XEntry
  | .mk k v => .mk k.x v.x
def Entry.xs : List Entry → List XEntry
  | [] => []
  | e :: es => e.x :: Entry.xs es
end

theorem Val.x_kind (v : Val) : v.x.kind = v.kind.x := by cases v <;> simp [Val.x, XVal.kind, Val.kind, Kind.x]

theorem Val.x_isContainer (v : Val) : v.x.isContainer = v.isContainer := by
  cases v <;> simp [Val.x, XVal.isContainer, Val.isContainer]

/-- the acceptance table of the 16 default keys is the old one on the old kinds -/
theorem XKey.accepts_base (k : Key) (kk : Kind) : XKey.accepts (.base k) kk.x = k.accepts kk := by
  cases k <;> cases kk <;> rfl

mutual
/-- the same Format tree, keyed by `Key` and by `XKey` -/
inductive TreeRel : FTree → GTree XKey → Prop
  | leaf (f : Fmt) : TreeRel (.mk f none) (.mk f none)
  | node (f : Fmt) (m : FMap) (m' : GMap XKey) : MapRel m m' → TreeRel (.mk f (some m)) (.mk f (some m'))
inductive MapRel : FMap → GMap XKey → Prop
  | nil : MapRel [] []
  | cons (k : Key) (t : FTree) (t' : GTree XKey) (m : FMap) (m' : GMap XKey) :
      TreeRel t t' → MapRel m m' → MapRel ((k, t) :: m) ((.base k, t') :: m')
  /-- the default container formats: `Format.lean` leaves out the Object and Type entries (no value of its kinds is accepted by them) -/
  | dflt : MapRel defaultCF (defaultCFG .base)
end

theorem TreeRel.f_eq {t : FTree} {t' : GTree XKey} (h : TreeRel t t') : t'.f = t.f := by
  cases h <;> rfl

theorem TreeRel.cf {t : FTree} {t' : GTree XKey} (h : TreeRel t t') : MapRel (cfOf t) (cfOfG kindKeys t') := by
  cases h with
  | leaf f => exact MapRel.dflt
  | node f m m' hm => exact hm

theorem getRel_dflt (k : Kind) (xv : XVal) (hk : xv.kind = k.x) :
    TreeRel (getFormat defaultCF k) (getG kindKeys (defaultCFG .base) xv) := by
  unfold getG getFormat
  simp only [kindKeys, hk, defaultCFG, defaultCF]
  cases k <;> exact TreeRel.leaf _

theorem getRel : ∀ (m : FMap) (m' : GMap XKey), MapRel m m' → ∀ (k : Kind) (xv : XVal), xv.kind = k.x →
    TreeRel (getFormat m k) (getG kindKeys m' xv)
  | _, _, .nil, k, xv, _ => TreeRel.leaf _
  | _, _, .dflt, k, xv, hk => getRel_dflt k xv hk
  | _, _, .cons k0 t t' m m' ht hm, k, xv, hk => by
    unfold getG getFormat
    simp only [List.find?, kindKeys, hk, XKey.accepts_base]
    cases hacc : k0.accepts k with
    | true => exact ht
    | false =>
      have ih := getRel m m' hm k xv hk
      unfold getG getFormat at ih
      simp only [kindKeys, hk] at ih
      exact ih

theorem arrayOf_eq (f : Fmt) (ind : Ind) (r : ResL (Str × Bool)) :
    arrayOf f ind r = (match r with | .ok parts => .text (arrayAssemble f ind parts) | .err e => e) := rfl

mutual
theorem fmtX_embed (io : FloatIO) : ∀ (v : Val) (m : FMap) (m' : GMap XKey) (ind : Ind), MapRel m m' →
    fmtX kindKeys io m' ind v.x = fmtVal io m ind v
  | .undef, m, m', ind, h => by simp only [Val.x, fmtX, fmtVal, (getRel m m' h .undef .undef rfl).f_eq]
  | .dflt, m, m', ind, h => by simp only [Val.x, fmtX, fmtVal, (getRel m m' h .dflt .dflt rfl).f_eq]
  | .bool b, m, m', ind, h => by simp only [Val.x, fmtX, fmtVal, (getRel m m' h .bool (.bool b) rfl).f_eq]
  | .int i, m, m', ind, h => by simp only [Val.x, fmtX, fmtVal, (getRel m m' h .int (.int i) rfl).f_eq]
  | .float bits, m, m', ind, h => by simp only [Val.x, fmtX, fmtVal, (getRel m m' h .float (.float bits) rfl).f_eq]
  | .str s, m, m', ind, h => by simp only [Val.x, fmtX, fmtVal, (getRel m m' h .str (.str s) rfl).f_eq]
  | .regexp src, m, m', ind, h => by simp only [Val.x, fmtX, fmtVal, (getRel m m' h .regexp (.regexp src) rfl).f_eq]
  | .binary bs u, m, m', ind, h => by simp only [Val.x, fmtX, fmtVal, (getRel m m' h .bin (.binary bs u) rfl).f_eq]
  | .array vs, m, m', ind, h => by
    have hr := getRel m m' h .arr (.array (Val.xs vs)) rfl
    simp only [Val.x, fmtX, fmtVal, hr.f_eq, arrayOf_eq, fmtX_embed_elems io vs m m' _ _ _ h hr.cf]
    rfl
  | .hash es, m, m', ind, h => by
    have hr := getRel m m' h .hash (.hash (Entry.xs es)) rfl
    have hra := getRel m m' h .arr (.array ((Entry.xs es).map XEntry.arr)) rfl
    simp only [Val.x, fmtX, fmtVal, hr.f_eq, hra.f_eq, arrayOf_eq, hashOf, hashAssembleD_false,
      fmtX_embed_pairs io es m m' _ _ _ h hr.cf, fmtX_embed_entryArrs io es _ _ _ hra.cf]
    rfl

theorem fmtX_embed_elems (io : FloatIO) : ∀ (vs : List Val) (m : FMap) (m' : GMap XKey) (cf : FMap) (cf' : GMap XKey) (ci : Ind),
    MapRel m m' → MapRel cf cf' → fmtElemsX kindKeys io m' cf' ci (Val.xs vs) = fmtElems io m cf ci vs
  | [], m, m', cf, cf', ci, _, _ => by simp [Val.xs, fmtElemsX, fmtElems]
  | v :: vs, m, m', cf, cf', ci, hm, hcf => by
    simp only [Val.xs, fmtElemsX, fmtElems, Val.x_isContainer, fmtX_embed_elems io vs m m' cf cf' ci hm hcf]
    by_cases hc : v.isContainer = true
    · simp only [hc, if_true, fmtX_embed io v m m' ci hm]
    · simp only [hc, Bool.false_eq_true, if_false, fmtX_embed io v cf cf' ci hcf]

theorem fmtX_embed_pairs (io : FloatIO) : ∀ (es : List Entry) (m : FMap) (m' : GMap XKey) (cf : FMap) (cf' : GMap XKey) (ci : Ind),
    MapRel m m' → MapRel cf cf' → fmtPairsX kindKeys io m' cf' ci (Entry.xs es) = fmtPairs io m cf ci es
  | [], m, m', cf, cf', ci, _, _ => by simp [Entry.xs, fmtPairsX, fmtPairs]
  | .mk k v :: es, m, m', cf, cf', ci, hm, hcf => by
    have hk : fmtX kindKeys io (if k.isContainer = true then m' else cf') ci k.x = fmtVal io (if k.isContainer = true then m else cf) ci k := by
      by_cases hc : k.isContainer = true
      · simp only [hc, if_true, fmtX_embed io k m m' ci hm]
      · simp only [hc, Bool.false_eq_true, if_false, fmtX_embed io k cf cf' ci hcf]
    have hv : fmtX kindKeys io (if v.isContainer = true then m' else cf') ci v.x = fmtVal io (if v.isContainer = true then m else cf) ci v := by
      by_cases hc : v.isContainer = true
      · simp only [hc, if_true, fmtX_embed io v m m' ci hm]
      · simp only [hc, Bool.false_eq_true, if_false, fmtX_embed io v cf cf' ci hcf]
    simp only [Entry.xs, Entry.x, fmtPairsX, fmtPairs, Val.x_isContainer, hk, hv, fmtX_embed_pairs io es m m' cf cf' ci hm hcf]
    rfl

theorem fmtX_embed_entryArrs (io : FloatIO) : ∀ (es : List Entry) (m : FMap) (m' : GMap XKey) (ind : Ind),
    MapRel m m' → fmtEntryArrsX kindKeys io m' ind (Entry.xs es) = fmtEntryArrs io m ind es
  | [], m, m', ind, _ => by simp [Entry.xs, fmtEntryArrsX, fmtEntryArrs]
  | .mk k v :: es, m, m', ind, hm => by
    have hr := getRel m m' hm .arr (.array [k.x, v.x]) rfl
    have hcf := hr.cf
    have hk : fmtX kindKeys io (if k.isContainer = true then m' else cfOfG kindKeys (getG kindKeys m' (.array [k.x, v.x])))
        (arrayChildInd (getFormat m .arr).f ind) k.x =
        fmtVal io (if k.isContainer = true then m else cfOf (getFormat m .arr)) (arrayChildInd (getFormat m .arr).f ind) k := by
      by_cases hc : k.isContainer = true
      · simp only [hc, if_true, fmtX_embed io k m m' _ hm]
      · simp only [hc, Bool.false_eq_true, if_false, fmtX_embed io k _ _ _ hcf]
    have hv : fmtX kindKeys io (if v.isContainer = true then m' else cfOfG kindKeys (getG kindKeys m' (.array [k.x, v.x])))
        (arrayChildInd (getFormat m .arr).f ind) v.x =
        fmtVal io (if v.isContainer = true then m else cfOf (getFormat m .arr)) (arrayChildInd (getFormat m .arr).f ind) v := by
      by_cases hc : v.isContainer = true
      · simp only [hc, if_true, fmtX_embed io v m m' _ hm]
      · simp only [hc, Bool.false_eq_true, if_false, fmtX_embed io v _ _ _ hcf]
    simp only [Entry.xs, Entry.x, fmtEntryArrsX, fmtEntryArrs, Val.x_isContainer, hr.f_eq, hk, hv,
      fmtX_embed_entryArrs io es m m' ind hm]
    rfl
end

end Pcore.Format
