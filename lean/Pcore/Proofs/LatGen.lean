import Pcore.Proofs.LatEq
set_option linter.unusedSimpArgs false
set_option linter.unusedVariables false
/-! C04: the generalisation of a type accepts that type. -/
namespace Pcore.Lat
variable (cfg : Cfg) (sfh : Bool)

def Rng.inI64 (r : Rng) : Prop := I64.min ≤ r.lo ∧ r.hi ≤ I64.max
def Rng.isSize (r : Rng) : Prop := 0 ≤ r.lo ∧ r.hi ≤ I64.max

/-- fragment of `C04_generalize_partial`: ranges within what the constructors allow (int64 bounds, sizes ≥ 0, float bounds that are
    doubles, the infinities included: the default Float has no bounds, /repo fix of finding C04-float-infinity) and hereditarily no Variant (its `Generic()` removes
    members that became `Equals`; the remaining member accepts the removed one's original only by transitivity) -/
def Ty.GenOK (t : Ty) : Prop :=
  match t with
  | .variant _ => False
  | .int r | .tspan r => r.inI64
  | .tstamp r => tstampAll.sub r = true
  | .float lo hi => -Fl.inf ≤ lo ∧ hi ≤ Fl.inf
  | .coll r => r.isSize
  | .array e r => r.isSize ∧ Ty.GenOK e
  | .hash k v r => r.isSize ∧ Ty.GenOK k ∧ Ty.GenOK v
  | .tuple ts _ => ∀ t', ∀ (_ : t' ∈ ts), Ty.GenOK t'
  | .struct ms => ∀ m, ∀ (_ : m ∈ ms), Ty.GenOK m.2.2
  | .optional t' | .notUndef t' | .sensitive t' | .iterator t' | .typ t' | .iterable t' => Ty.GenOK t'
  | _ => True
termination_by t.w
decreasing_by
  all_goals simp_wf
  all_goals (try simp only [Ty.w, Ty.wl, Ty.wm] at *)
  all_goals first
    | omega
    | (have := Ty.w_lt_wl ‹_ ∈ _›; omega)
    | (have := Ty.w_lt_wm ‹_ ∈ _›; omega)

theorem pos_sub_size {r : Rng} (h : r.isSize) : Rng.pos.sub r = true := by
  simp only [Rng.sub, Rng.pos, Bool.and_eq_true]
  exact ⟨decide_eq_true h.1, decide_eq_true h.2⟩
theorem all_sub_i64 {r : Rng} (h : r.inI64) : Rng.all.sub r = true := by
  simp only [Rng.sub, Rng.all, Bool.and_eq_true]
  exact ⟨decide_eq_true h.1, decide_eq_true h.2⟩

theorem generalizeL_get (ts : List Ty) (i : Nat) (g : Ty) (h : (generalizeL ts)[i]? = some g) :
    ∃ t, ts[i]? = some t ∧ g = generalize t := by
  induction ts generalizing i with
  | nil => simp [generalizeL] at h
  | cons t ts ih =>
    cases i with
    | zero => simp [generalizeL] at h; exact ⟨t, by simp, h.symm⟩
    | succ j => simp [generalizeL] at h; obtain ⟨t', h1, h2⟩ := ih j h; exact ⟨t', by simpa using h1, h2⟩

theorem generalizeL_length (ts : List Ty) : (generalizeL ts).length = ts.length := by
  induction ts with
  | nil => rfl
  | cons t ts ih => simp [generalizeL, ih]

theorem genericM_names (ms : List Member) : (genericM ms).map (·.1) = ms.map (·.1) := by
  induction ms with
  | nil => rfl
  | cons m ms ih => obtain ⟨n, o, t⟩ := m; simp [genericM, ih]

theorem genericM_mem (ms : List Member) (m' : Member) (h : m' ∈ genericM ms) :
    ∃ m ∈ ms, m'.1 = m.1 ∧ m'.2.1 = m.2.1 ∧ m'.2.2 = genericType m.2.2 := by
  induction ms with
  | nil => simp [genericM] at h
  | cons m ms ih =>
    obtain ⟨n, o, t⟩ := m
    simp only [genericM, List.mem_cons] at h
    rcases h with rfl | h
    · exact ⟨(n, o, t), by simp, rfl, rfl, rfl⟩
    · obtain ⟨m, hm, x⟩ := ih h; exact ⟨m, by simp [hm], x⟩

theorem tuple_pointwise (xs ys : List Ty) (g : Option Rng) (hl : xs.length = ys.length)
    (hp : ∀ (i : Nat) (x y : Ty), xs[i]? = some x → ys[i]? = some y → asg cfg sfh x y = true) :
    asg cfg sfh (.tuple xs g) (.tuple ys g) = true := by
  apply viaR cfg sfh rfl
  unfold asgRecv
  have hs : tupleSize xs g = tupleSize ys g := by cases g <;> simp [tupleSize, hl]
  simp only [hs, Rng.sub_refl, Bool.true_and, Bool.or_eq_true]
  by_cases hx : xs = []
  · left; simp [hx]
  · right
    have hy : ys ≠ [] := by intro hy; subst hy; simp at hl; exact hx hl
    have hne : ¬ (ys.isEmpty = true) := by simp [List.isEmpty_iff, hy]
    rw [if_neg hne, tupZip_iff cfg sfh xs ys _ hx hy]
    intro i x y _ _ hxi hyi
    rw [hl] at hxi
    exact hp _ x y hxi hyi

theorem gen_asg : ∀ (n : Nat) (t : Ty), t.w ≤ n → Ty.WF cfg t → t.NoAlias → t.GenOK →
    asg cfg sfh (generalize t) t = true ∧ asg cfg sfh (genericType t) t = true := by
  intro n
  induction n with
  | zero => intro t h; have := Ty.w_pos t; omega
  | succ n ih =>
    intro t hw wt nt gt
    have self : asg cfg sfh t t = true := asg_refl cfg sfh t.w t (Nat.le_refl _) wt nt
    cases t with
    | variant ts => unfold Ty.GenOK at gt; exact absurd gt id
    | data => unfold Ty.NoAlias at nt; exact absurd nt id
    | richData => unfold Ty.NoAlias at nt; exact absurd nt id
    | any => simp only [generalize, genericType]; exact ⟨self, self⟩
    | unit => simp only [generalize, genericType]; exact ⟨self, self⟩
    | callable p r k =>
      have : asg cfg sfh (.callable none none none) (.callable p r k) = true :=
        viaR cfg sfh rfl (by rw [recv_callable_eq]; exact callAcc_default cfg sfh p r k)
      simp only [generalize, genericType]; exact ⟨this, this⟩
    | undef => simp only [generalize, genericType]; exact ⟨self, self⟩
    | dflt => simp only [generalize, genericType]; exact ⟨self, self⟩
    | scalar => simp only [generalize, genericType]; exact ⟨self, self⟩
    | scalarData => simp only [generalize, genericType]; exact ⟨self, self⟩
    | numeric => simp only [generalize, genericType]; exact ⟨self, self⟩
    | bin => simp only [generalize, genericType]; exact ⟨self, self⟩
    | str => simp only [generalize, genericType]; exact ⟨self, self⟩
    | strSz r =>
      simp only [generalize, genericType]
      exact ⟨viaR cfg sfh rfl (by unfold asgRecv; rfl), self⟩
    | strVal s =>
      simp only [generalize, genericType]
      exact ⟨viaR cfg sfh rfl (by unfold asgRecv; rfl), self⟩
    | pattern rs =>
      simp only [generalize, genericType]
      exact ⟨viaR cfg sfh rfl (by unfold asgRecv; simp), self⟩
    | regexp s =>
      simp only [generalize, genericType]
      exact ⟨viaR cfg sfh rfl (by unfold asgRecv; simp), self⟩
    | runtime rt nm pt =>
      have : asg cfg sfh (.runtime "" "" none) (.runtime rt nm pt) = true :=
        viaR cfg sfh rfl (by rw [recv_runtime_eq]; exact rtAcc_default rt nm pt)
      simp only [generalize, genericType]; exact ⟨this, this⟩
    | tspan r =>
      unfold Ty.GenOK at gt
      simp only [generalize, genericType]
      exact ⟨viaR cfg sfh rfl (by unfold asgRecv; exact all_sub_i64 gt), self⟩
    | tstamp r =>
      unfold Ty.GenOK at gt
      simp only [generalize, genericType]
      exact ⟨viaR cfg sfh rfl (by unfold asgRecv; exact gt), self⟩
    | object p =>
      simp only [generalize, genericType]
      exact ⟨viaR cfg sfh rfl (by unfold asgRecv; simp), self⟩
    | bool b =>
      have : asg cfg sfh (.bool none) (.bool b) = true := viaR cfg sfh rfl (by unfold asgRecv; simp)
      simp only [generalize, genericType]; exact ⟨this, this⟩
    | coll r =>
      unfold Ty.GenOK at gt
      have : asg cfg sfh (.coll Rng.pos) (.coll r) = true := viaR cfg sfh rfl (by unfold asgRecv; exact pos_sub_size gt)
      simp only [generalize, genericType]; exact ⟨this, this⟩
    | enum vs ci =>
      have : asg cfg sfh (.enum [] false) (.enum vs ci) = true := viaR cfg sfh rfl (by unfold asgRecv; simp [isStringFamily])
      simp only [generalize, genericType]; exact ⟨this, this⟩
    | float lo hi =>
      unfold Ty.GenOK at gt
      have : asg cfg sfh floatAll (.float lo hi) = true :=
        viaR cfg sfh rfl (by unfold floatAll asgRecv; simp only [Bool.and_eq_true]
                             exact ⟨decide_eq_true (Fl.effLo_default_le gt.1), decide_eq_true (Fl.effHi_le_default gt.2)⟩)
      simp only [generalize, genericType]; exact ⟨this, this⟩
    | int r =>
      unfold Ty.GenOK at gt
      have : asg cfg sfh (.int Rng.all) (.int r) = true := viaR cfg sfh rfl (by unfold asgRecv; exact all_sub_i64 gt)
      simp only [generalize, genericType]; exact ⟨this, this⟩
    | array e r =>
      unfold Ty.GenOK at gt; unfold Ty.WF at wt; unfold Ty.NoAlias at nt
      simp only [Ty.w] at hw
      have key : asg cfg sfh (if e.isAny then .array .any Rng.pos else .array (generalize e) Rng.pos) (.array e r) = true := by
        by_cases he : e.isAny = true
        · simp only [he, if_true]
          cases e <;> simp [Ty.isAny] at he
          exact viaR cfg sfh rfl (by unfold asgRecv; simp [pos_sub_size gt.1, asg_any_l])
        · simp only [he, Bool.false_eq_true, if_false]
          exact viaR cfg sfh rfl (by unfold asgRecv; simp [pos_sub_size gt.1, (ih e (by omega) wt nt gt.2).1])
      simp only [generalize, genericType]; exact ⟨key, key⟩
    | hash k v r =>
      unfold Ty.GenOK at gt; unfold Ty.WF at wt; unfold Ty.NoAlias at nt
      simp only [Ty.w] at hw
      have key : asg cfg sfh (.hash (genericType k) (genericType v) Rng.pos) (.hash k v r) = true :=
        viaR cfg sfh rfl (by
          unfold asgRecv
          simp [pos_sub_size gt.1, (ih k (by omega) wt.1 nt.1 gt.2.1).2, (ih v (by omega) wt.2 nt.2 gt.2.2).2])
      simp only [generalize, genericType]; exact ⟨key, key⟩
    | iterable x =>
      unfold Ty.GenOK at gt; unfold Ty.WF at wt; unfold Ty.NoAlias at nt
      simp only [Ty.w] at hw
      have key := mono_iterable cfg sfh _ _ (ih x (by omega) wt nt gt).2
      simp only [generalize, genericType]; exact ⟨key, key⟩
    | sensitive x =>
      unfold Ty.GenOK at gt; unfold Ty.WF at wt; unfold Ty.NoAlias at nt
      simp only [Ty.w] at hw
      have key := mono_sensitive cfg sfh _ _ (ih x (by omega) wt nt gt).2
      simp only [generalize, genericType]; exact ⟨key, key⟩
    | iterator x =>
      unfold Ty.GenOK at gt; unfold Ty.WF at wt; unfold Ty.NoAlias at nt
      simp only [Ty.w] at hw
      have key := mono_iterator cfg sfh _ _ (ih x (by omega) wt nt gt).2
      simp only [generalize, genericType]; exact ⟨key, key⟩
    | typ x =>
      unfold Ty.GenOK at gt; unfold Ty.WF at wt; unfold Ty.NoAlias at nt
      simp only [Ty.w] at hw
      have key := mono_typ cfg sfh _ _ (ih x (by omega) wt nt gt).2
      simp only [generalize, genericType]; exact ⟨key, key⟩
    | notUndef x =>
      unfold Ty.GenOK at gt; unfold Ty.WF at wt; unfold Ty.NoAlias at nt
      simp only [Ty.w] at hw
      have key := mono_notUndef cfg sfh _ _ (ih x (by omega) wt nt gt).2
      simp only [generalize, genericType]; exact ⟨key, key⟩
    | optional x =>
      unfold Ty.GenOK at gt; unfold Ty.WF at wt; unfold Ty.NoAlias at nt
      simp only [Ty.w] at hw
      have key := mono_optional cfg sfh _ _ (Ty.NoAlias.noAliasR x.w x (Nat.le_refl _) nt) (ih x (by omega) wt nt gt).2
      simp only [generalize, genericType]; exact ⟨key, key⟩
    | tuple ts g =>
      unfold Ty.GenOK at gt; unfold Ty.WF at wt; unfold Ty.NoAlias at nt
      simp only [Ty.w] at hw
      have key : asg cfg sfh (.tuple (generalizeL ts) g) (.tuple ts g) = true := by
        apply tuple_pointwise cfg sfh _ _ g (generalizeL_length ts)
        intro i x y hx hy
        obtain ⟨t, ht, hg⟩ := generalizeL_get ts i x hx
        rw [hy] at ht; cases ht
        have hm := List.mem_of_getElem? hy
        rw [hg]
        exact (ih y (by have := Ty.w_lt_wl hm; omega) (wt y hm) (nt y hm) (gt y hm)).1
      simp only [generalize, genericType]; exact ⟨key, key⟩
    | struct ms =>
      unfold Ty.GenOK at gt; unfold Ty.WF at wt; unfold Ty.NoAlias at nt
      simp only [Ty.w] at hw
      have key : asg cfg sfh (.struct (genericM ms)) (.struct ms) = true := by
        apply viaR cfg sfh rfl
        have hn' : NamesNodup (genericM ms) := by unfold NamesNodup; rw [genericM_names]; exact wt.1
        apply struct_eq_asg cfg sfh (genericM ms) ms hn' wt.1 (genericM_names ms)
        intro m' hm'
        obtain ⟨m, hm, h1, h2, h3⟩ := genericM_mem ms m' hm'
        refine ⟨m, hm, h1.symm, h2.symm, ?_⟩
        rw [h3]
        exact (ih m.2.2 (by have := Ty.w_lt_wm hm; omega) (wt.2 m hm) (nt m hm) (gt m hm)).2
      simp only [generalize, genericType]; exact ⟨key, key⟩

end Pcore.Lat
