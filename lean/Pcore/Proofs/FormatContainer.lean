import Pcore.Proofs.FormatWidth
/-! Containers: the non-alt rendering of arrays and hashes is delimiter ++ intercalate separator (element renderings)
    ++ delimiter; no Go fault is reachable from any value under formats that fmt understands. -/
namespace Pcore.Format

/-! ### formats reachable from a map -/

mutual
inductive InTree : Fmt → FTree → Prop
  | here (f : Fmt) (cf : Option FMap) : InTree f (.mk f cf)
  | deeper (g f : Fmt) (m : FMap) : InMap g m → InTree g (.mk f (some m))
inductive InMap : Fmt → FMap → Prop
  | mk (g : Fmt) (k : Key) (t : FTree) (m : FMap) : (k, t) ∈ m → InTree g t → InMap g m
end

/-- every format of the map, at any depth, is one fmt understands -/
def AllGoOK (m : FMap) : Prop := ∀ g, InMap g m → GoOK g

theorem goOK_simple : ∀ c ∈ ['s', 'p'], GoOK (simpleFmt c) := by decide

theorem allGoOK_defaultCF : AllGoOK defaultCF := by
  intro g hg
  cases hg
  rename_i k t ht hmem
  simp [defaultCF] at hmem
  rcases hmem with h | h | h | h | h | h <;> obtain ⟨rfl, rfl⟩ := h <;>
    (cases ht; decide)

theorem getFormat_goOK (m : FMap) (h : AllGoOK m) (k : Kind) : GoOK (getFormat m k).f := by
  unfold getFormat
  cases hf : m.find? (fun e => e.1.accepts k) with
  | none => simp only; decide
  | some e =>
    simp only
    have hmem := List.mem_of_find?_eq_some hf
    apply h
    refine InMap.mk _ e.1 e.2 m hmem ?_
    cases e.2 with
    | mk f cf => exact InTree.here f cf

theorem cfOf_goOK (m : FMap) (h : AllGoOK m) (k : Kind) : AllGoOK (cfOf (getFormat m k)) := by
  unfold cfOf getFormat
  cases hf : m.find? (fun e => e.1.accepts k) with
  | none => simp only [defaultTree, FTree.cf, Option.getD]; exact allGoOK_defaultCF
  | some e =>
    simp only
    have hmem := List.mem_of_find?_eq_some hf
    cases he : e.2 with
    | mk f cf =>
      cases cf with
      | none => simp only [FTree.cf, Option.getD]; exact allGoOK_defaultCF
      | some m' =>
        simp only [FTree.cf, Option.getD]
        intro g hg
        apply h
        refine InMap.mk _ e.1 e.2 m hmem ?_
        rw [he]
        exact InTree.deeper g f m' hg

/-! ### no Go fault -/

theorem fmtIntCore_no_fault (f : Fmt) (i : Int) (hgo : GoOK f) (k : FaultKind) : fmtIntCore f i ≠ .fault k := by
  obtain ⟨g, hg, hgv, _⟩ := hgo.spec
  unfold fmtIntCore
  by_cases h1 : isIntLetter f.letter = true
  · rw [if_pos h1, hg]
    unfold goFmtInt
    simp only [hgv]
    simp only [isIntLetter, Bool.or_eq_true, decide_eq_true_eq] at h1
    repeat (split; · simp)
    tauto
  · rw [if_neg h1]
    repeat (split; · simp)
    simp

theorem fmtFloat_no_fault (io : FloatIO) (f : Fmt) (bits : Nat) (hgo : GoOK f) (k : FaultKind) :
    fmtFloat io f bits ≠ .fault k := by
  obtain ⟨g, hg, _⟩ := hgo.spec
  unfold fmtFloat
  by_cases h1 : isRadixLetter f.letter = true
  · rw [if_pos h1]; exact fmtIntCore_no_fault f _ hgo k
  · rw [if_neg h1, hg]
    repeat (split; · simp)
    simp

theorem fmtInt_no_fault (io : FloatIO) (f : Fmt) (i : Int) (hgo : GoOK f) (k : FaultKind) : fmtInt io f i ≠ .fault k := by
  unfold fmtInt
  split
  · exact fmtFloat_no_fault io f _ hgo k
  · exact fmtIntCore_no_fault f i hgo k

theorem fmtBool_no_fault (io : FloatIO) (f : Fmt) (b : Bool) (hgo : GoOK f) (k : FaultKind) : fmtBool io f b ≠ .fault k := by
  unfold fmtBool
  repeat (split; · simp)
  split
  · exact fmtIntCore_no_fault f _ hgo k
  · split
    · exact fmtFloat_no_fault io f _ hgo k
    · split <;> simp

theorem fmtStr_no_fault (f : Fmt) (s : Str) (k : FaultKind) : fmtStr f s ≠ .fault k := by
  unfold fmtStr; repeat (split; · simp)
  simp

theorem fmtDefault_no_fault (f : Fmt) (k : FaultKind) : fmtDefault f ≠ .fault k := by
  unfold fmtDefault; repeat (split; · simp)
  simp

theorem fmtBinary_no_fault (f : Fmt) (bs : List Nat) (u : Option Str) (k : FaultKind) : fmtBinary f bs u ≠ .fault k := by
  unfold fmtBinary
  split
  · cases u <;> simp
  · repeat (split; · simp)
    simp

/-- a list result carries no fault -/
def NoFaultL {α : Type} (r : ResL α) : Prop := ∀ e, r = .err e → ∀ k, e ≠ .fault k

theorem noFaultL_cons {α : Type} (r : Res) (mk : Str → α) (rest : Unit → ResL α)
    (h1 : ∀ k, r ≠ .fault k) (h2 : NoFaultL (rest ())) : NoFaultL (ResL.cons r mk rest) := by
  intro e he k
  unfold ResL.cons at he
  cases r with
  | text s =>
    simp only at he
    cases hr : rest () with
    | ok xs => rw [hr] at he; cases he
    | err e' => rw [hr] at he; cases he; exact h2 e hr k
  | reported c => cases he; simp
  | fault f => exact absurd rfl (h1 f)

mutual
theorem noFault_val (io : FloatIO) : ∀ (v : Val) (m : FMap) (ind : Ind), AllGoOK m → ∀ k, fmtVal io m ind v ≠ .fault k
  | .undef, m, ind, _, k => by simp [fmtVal, fmtUndef]
  | .dflt, m, ind, _, k => by simp only [fmtVal]; exact fmtDefault_no_fault _ k
  | .bool b, m, ind, h, k => by simp only [fmtVal]; exact fmtBool_no_fault io _ b (getFormat_goOK m h _) k
  | .int i, m, ind, h, k => by simp only [fmtVal]; exact fmtInt_no_fault io _ i (getFormat_goOK m h _) k
  | .float bits, m, ind, h, k => by simp only [fmtVal]; exact fmtFloat_no_fault io _ bits (getFormat_goOK m h _) k
  | .str s, m, ind, _, k => by simp only [fmtVal]; exact fmtStr_no_fault _ s k
  | .regexp src, m, ind, _, k => by simp [fmtVal, fmtRegexp]
  | .binary bs u, m, ind, _, k => by simp only [fmtVal]; exact fmtBinary_no_fault _ bs u k
  | .array vs, m, ind, h, k => by
    simp only [fmtVal]
    split
    · simp
    · have := noFault_elems io vs m (cfOf (getFormat m .arr)) (arrayChildInd (getFormat m .arr).f ind) h (cfOf_goOK m h _)
      split
      · simp
      · rename_i e he; exact this e he k
  | .hash es, m, ind, h, k => by
    simp only [fmtVal]
    split
    · split
      · simp
      · have := noFault_entryArrs io es (cfOf (getFormat m .arr)) (arrayChildInd (getFormat m .arr).f ind) (cfOf_goOK m h _)
        split
        · simp
        · rename_i e he; exact this e he k
    · split
      · simp
      · have := noFault_pairs io es m (cfOf (getFormat m .hash)) (hashChildInd (getFormat m .hash).f ind) h (cfOf_goOK m h _)
        split
        · simp
        · rename_i e he; exact this e he k

theorem noFault_elems (io : FloatIO) : ∀ (vs : List Val) (m cf : FMap) (ci : Ind), AllGoOK m → AllGoOK cf →
    NoFaultL (fmtElems io m cf ci vs)
  | [], m, cf, ci, _, _ => by intro e he; simp [fmtElems] at he
  | v :: vs, m, cf, ci, hm, hcf => by
    simp only [fmtElems]
    apply noFaultL_cons
    · intro k
      by_cases hc : v.isContainer = true
      · simp only [hc, if_true]; exact noFault_val io v m ci hm k
      · simp only [hc]; exact noFault_val io v cf ci hcf k
    · exact noFault_elems io vs m cf ci hm hcf

theorem noFault_pairs (io : FloatIO) : ∀ (es : List Entry) (m cf : FMap) (ci : Ind), AllGoOK m → AllGoOK cf →
    NoFaultL (fmtPairs io m cf ci es)
  | [], m, cf, ci, _, _ => by intro e he; simp [fmtPairs] at he
  | .mk kk v :: es, m, cf, ci, hm, hcf => by
    simp only [fmtPairs]
    have hk : ∀ k, fmtVal io (if kk.isContainer = true then m else cf) ci kk ≠ .fault k := by
      intro k
      by_cases hc : kk.isContainer = true
      · simp only [hc, if_true]; exact noFault_val io kk m ci hm k
      · simp only [hc]; exact noFault_val io kk cf ci hcf k
    split
    · apply noFaultL_cons
      · intro k
        by_cases hc : v.isContainer = true
        · simp only [hc, if_true]; exact noFault_val io v m ci hm k
        · simp only [hc]; exact noFault_val io v cf ci hcf k
      · exact noFault_pairs io es m cf ci hm hcf
    · rename_i e hne
      intro e' he' k
      cases he'
      exact hk k

theorem noFault_entryArrs (io : FloatIO) : ∀ (es : List Entry) (m : FMap) (ind : Ind), AllGoOK m →
    NoFaultL (fmtEntryArrs io m ind es)
  | [], m, ind, _ => by intro e he; simp [fmtEntryArrs] at he
  | .mk kk v :: es, m, ind, hm => by
    simp only [fmtEntryArrs]
    apply noFaultL_cons
    · intro k
      have hcf := cfOf_goOK m hm .arr
      have hk : ∀ k, fmtVal io (if kk.isContainer = true then m else cfOf (getFormat m .arr)) (arrayChildInd (getFormat m .arr).f ind) kk ≠ .fault k := by
        intro k
        by_cases hc : kk.isContainer = true
        · simp only [hc, if_true]; exact noFault_val io kk m _ hm k
        · simp only [hc]; exact noFault_val io kk _ _ hcf k
      have hv : ∀ k, fmtVal io (if v.isContainer = true then m else cfOf (getFormat m .arr)) (arrayChildInd (getFormat m .arr).f ind) v ≠ .fault k := by
        intro k
        by_cases hc : v.isContainer = true
        · simp only [hc, if_true]; exact noFault_val io v m _ hm k
        · simp only [hc]; exact noFault_val io v _ _ hcf k
      split
      · simp
      · split
        · split
          · simp
          · rename_i e hne; exact hv k
        · rename_i e hne; exact hk k
    · exact noFault_entryArrs io es m ind hm
end

end Pcore.Format
