import Pcore.Proofs.FormatWidth
/-! Containers: the non-alt rendering of arrays and hashes is delimiter ++ intercalate separator (element renderings)
    ++ delimiter; no Go fault is reachable from any value under formats that fmt understands. -/
namespace Pcore.Format

/-! ### formats reachable from a map -/

mutual
inductive InTree : Fmt → FTree → Prop
  | here (f : Fmt) (cf : Option FMap) : InTree f (.mk f cf)
  | deeper (g f : Fmt) (m : FMap) : InMap g m → InTree g (.mk f (some m))
inductive InMap : Fmt → FMap → Prop
  | mk (g : Fmt) (k : Key) (t : FTree) (m : FMap) : (k, t) ∈ m → InTree g t → InMap g m
end

/-- every format of the map, at any depth, is one fmt understands -/
def AllGoOK (m : FMap) : Prop := ∀ g, InMap g m → GoOK g

theorem goOK_simple : ∀ c ∈ ['s', 'p'], GoOK (simpleFmt c) := by decide

theorem allGoOK_defaultCF : AllGoOK defaultCF := by
  intro g hg
  cases hg
  rename_i k t ht hmem
  simp [defaultCF] at hmem
  rcases hmem with h | h | h | h | h | h <;> obtain ⟨rfl, rfl⟩ := h <;>
    (cases ht; decide)

theorem getFormat_goOK (m : FMap) (h : AllGoOK m) (k : Kind) : GoOK (getFormat m k).f := by
  unfold getFormat
  cases hf : m.find? (fun e => e.1.accepts k) with
  | none => simp only; decide
  | some e =>
    simp only
    have hmem := List.mem_of_find?_eq_some hf
    apply h
    refine InMap.mk _ e.1 e.2 m hmem ?_
    cases e.2 with
    | mk f cf => exact InTree.here f cf

theorem cfOf_goOK (m : FMap) (h : AllGoOK m) (k : Kind) : AllGoOK (cfOf (getFormat m k)) := by
  unfold cfOf getFormat
  cases hf : m.find? (fun e => e.1.accepts k) with
  | none => simp only [defaultTree, FTree.cf, Option.getD]; exact allGoOK_defaultCF
  | some e =>
    simp only
    have hmem := List.mem_of_find?_eq_some hf
    cases he : e.2 with
    | mk f cf =>
      cases cf with
      | none => simp only [FTree.cf, Option.getD]; exact allGoOK_defaultCF
      | some m' =>
        simp only [FTree.cf, Option.getD]
        intro g hg
        apply h
        refine InMap.mk _ e.1 e.2 m hmem ?_
        rw [he]
        exact InTree.deeper g f m' hg

/-! ### no Go fault -/

theorem fmtIntCore_no_fault (f : Fmt) (i : Int) (hgo : GoOK f) (k : FaultKind) : fmtIntCore f i ≠ .fault k := by
  obtain ⟨g, hg, hgv, _⟩ := hgo.spec
  unfold fmtIntCore
  by_cases h1 : isIntLetter f.letter = true
  · rw [if_pos h1, hg]
    unfold goFmtInt
    simp only [hgv]
    simp only [isIntLetter, Bool.or_eq_true, decide_eq_true_eq] at h1
    repeat (split; · simp)
    tauto
  · rw [if_neg h1]
    repeat (split; · simp)
    simp

theorem sprintfF_ok (io : FloatIO) (fm : Str) (bits : Nat) (c : Char) (h : VerbOK fm c) (hc : isGoFloatVerb c = true) :
    ∃ s, sprintfF io fm bits = .ok s := by
  unfold VerbOK at h
  unfold sprintfF
  split at h
  · rename_i g hg; rw [hg]; simp only; rw [h, hc]; exact ⟨_, rfl⟩
  · exact absurd h id

theorem floatGFormat_ok (io : FloatIO) (f : Fmt) (bits : Nat) (hl : f.letter = 'g' ∨ f.letter = 'G') (h : FloatOK f) :
    ∃ s, floatGFormat io f bits = .ok s := by
  have hv : isGoFloatVerb f.letter = true := by rcases hl with h' | h' <;> rw [h'] <;> decide
  obtain ⟨str, hstr⟩ := sprintfF_ok io _ bits f.letter h.1 hv
  unfold floatGFormat
  rw [hstr]
  simp only
  unfold floatGRest
  by_cases hG : f.letter = 'G'
  · have hE : ∃ s, sprintfF io (goFormat (replaceFormatChar f 'E')) bits = .ok s :=
      sprintfF_ok io _ bits 'E' h.2.2 (by decide)
    simp only [hG, if_true]
    by_cases h1 : str.contains 'E' = true
    · rw [if_pos h1]; exact ⟨_, rfl⟩
    · rw [if_neg h1]
      by_cases h2 : gForced f str = true
      · rw [if_pos h2]; exact hE
      · rw [if_neg h2]; exact ⟨_, rfl⟩
  · have he : ∃ s, sprintfF io (goFormat (replaceFormatChar f 'e')) bits = .ok s :=
      sprintfF_ok io _ bits 'e' h.2.1 (by decide)
    simp only [hG, if_false]
    by_cases h1 : str.contains 'e' = true
    · rw [if_pos h1]; exact ⟨_, rfl⟩
    · rw [if_neg h1]
      by_cases h2 : gForced f str = true
      · rw [if_pos h2]; exact he
      · rw [if_neg h2]; exact ⟨_, rfl⟩

theorem floatOK_defaults : FloatOK defaultFormatP ∧ FloatOK defaultFormatS := by decide

theorem exceptRes_no_fault (r : Except FaultKind Str) (k : Str → Str) (h : ∃ s, r = .ok s) (e : FaultKind) :
    exceptRes r k ≠ .fault e := by
  obtain ⟨s, rfl⟩ := h; simp [exceptRes]

theorem fmtFloat_no_fault (io : FloatIO) (f : Fmt) (bits : Nat) (hgo : GoOK f) (k : FaultKind) :
    fmtFloat io f bits ≠ .fault k := by
  obtain ⟨g, hg, hgv, _⟩ := hgo.spec
  unfold fmtFloat
  by_cases h1 : isRadixLetter f.letter = true
  · rw [if_pos h1]; exact fmtIntCore_no_fault f _ hgo k
  · rw [if_neg h1]
    by_cases h2 : f.letter = 'p'
    · rw [if_pos h2]
      exact exceptRes_no_fault _ _ (floatGFormat_ok io defaultFormatP bits (Or.inl rfl) floatOK_defaults.1) k
    · rw [if_neg h2]
      by_cases h3 : (decide (f.letter = 'e') || decide (f.letter = 'E') || decide (f.letter = 'f')) = true
      · rw [if_pos h3]
        apply exceptRes_no_fault
        have hv : VerbOK (goFormat f) f.letter := by unfold VerbOK; rw [hg]; exact hgv
        apply sprintfF_ok io _ bits f.letter hv
        simp only [Bool.or_eq_true, decide_eq_true_eq] at h3
        rcases h3 with (h' | h') | h' <;> rw [h'] <;> decide
      · rw [if_neg h3]
        by_cases h4 : (decide (f.letter = 'g') || decide (f.letter = 'G')) = true
        · rw [if_pos h4]
          simp only [Bool.or_eq_true, decide_eq_true_eq] at h4
          exact exceptRes_no_fault _ _ (floatGFormat_ok io f bits h4 hgo.2) k
        · rw [if_neg h4]
          by_cases h5 : f.letter = 's'
          · rw [if_pos h5]
            exact exceptRes_no_fault _ _ (floatGFormat_ok io defaultFormatS bits (Or.inl rfl) floatOK_defaults.2) k
          · rw [if_neg h5]; simp

theorem fmtInt_no_fault (io : FloatIO) (f : Fmt) (i : Int) (hgo : GoOK f) (k : FaultKind) : fmtInt io f i ≠ .fault k := by
  unfold fmtInt
  split
  · exact fmtFloat_no_fault io f _ hgo k
  · exact fmtIntCore_no_fault f i hgo k

theorem fmtBool_no_fault (io : FloatIO) (f : Fmt) (b : Bool) (hgo : GoOK f) (k : FaultKind) : fmtBool io f b ≠ .fault k := by
  unfold fmtBool
  repeat (split; · simp)
  split
  · exact fmtIntCore_no_fault f _ hgo k
  · split
    · exact fmtFloat_no_fault io f _ hgo k
    · split <;> simp

theorem fmtStr_no_fault (f : Fmt) (s : Str) (k : FaultKind) : fmtStr f s ≠ .fault k := by
  unfold fmtStr; repeat (split; · simp)
  simp

theorem fmtDefault_no_fault (f : Fmt) (k : FaultKind) : fmtDefault f ≠ .fault k := by
  unfold fmtDefault; repeat (split; · simp)
  simp

theorem fmtBinary_no_fault (f : Fmt) (bs : List Nat) (u : Option Str) (k : FaultKind) : fmtBinary f bs u ≠ .fault k := by
  unfold fmtBinary
  split
  · cases u <;> simp
  · repeat (split; · simp)
    simp

/-- a list result carries no fault -/
def NoFaultL {α : Type} (r : ResL α) : Prop := ∀ e, r = .err e → ∀ k, e ≠ .fault k

theorem noFaultL_cons {α : Type} (r : Res) (mk : Str → α) (rest : Unit → ResL α)
    (h1 : ∀ k, r ≠ .fault k) (h2 : NoFaultL (rest ())) : NoFaultL (ResL.cons r mk rest) := by
  intro e he k
  unfold ResL.cons at he
  cases r with
  | text s =>
    simp only at he
    cases hr : rest () with
    | ok xs => rw [hr] at he; cases he
    | err e' => rw [hr] at he; cases he; exact h2 e hr k
  | reported c => cases he; simp
  | fault f => exact absurd rfl (h1 f)

mutual
theorem noFault_val (io : FloatIO) : ∀ (v : Val) (m : FMap) (ind : Ind), AllGoOK m → ∀ k, fmtVal io m ind v ≠ .fault k
  | .undef, m, ind, _, k => by simp [fmtVal, fmtUndef]
  | .dflt, m, ind, _, k => by simp only [fmtVal]; exact fmtDefault_no_fault _ k
  | .bool b, m, ind, h, k => by simp only [fmtVal]; exact fmtBool_no_fault io _ b (getFormat_goOK m h _) k
  | .int i, m, ind, h, k => by simp only [fmtVal]; exact fmtInt_no_fault io _ i (getFormat_goOK m h _) k
  | .float bits, m, ind, h, k => by simp only [fmtVal]; exact fmtFloat_no_fault io _ bits (getFormat_goOK m h _) k
  | .str s, m, ind, _, k => by simp only [fmtVal]; exact fmtStr_no_fault _ s k
  | .regexp src, m, ind, _, k => by simp [fmtVal, fmtRegexp]
  | .binary bs u, m, ind, _, k => by simp only [fmtVal]; exact fmtBinary_no_fault _ bs u k
  | .array vs, m, ind, h, k => by
    simp only [fmtVal]
    split
    · simp
    · have := noFault_elems io vs m (cfOf (getFormat m .arr)) (arrayChildInd (getFormat m .arr).f ind) h (cfOf_goOK m h _)
      split
      · simp
      · rename_i e he; exact this e he k
  | .hash es, m, ind, h, k => by
    simp only [fmtVal]
    split
    · split
      · simp
      · have := noFault_entryArrs io es (cfOf (getFormat m .arr)) (arrayChildInd (getFormat m .arr).f ind) (cfOf_goOK m h _)
        split
        · simp
        · rename_i e he; exact this e he k
    · split
      · simp
      · have := noFault_pairs io es m (cfOf (getFormat m .hash)) (hashChildInd (getFormat m .hash).f ind) h (cfOf_goOK m h _)
        split
        · simp
        · rename_i e he; exact this e he k

theorem noFault_elems (io : FloatIO) : ∀ (vs : List Val) (m cf : FMap) (ci : Ind), AllGoOK m → AllGoOK cf →
    NoFaultL (fmtElems io m cf ci vs)
  | [], m, cf, ci, _, _ => by intro e he; simp [fmtElems] at he
  | v :: vs, m, cf, ci, hm, hcf => by
    simp only [fmtElems]
    apply noFaultL_cons
    · intro k
      by_cases hc : v.isContainer = true
      · simp only [hc, if_true]; exact noFault_val io v m ci hm k
      · simp only [hc]; exact noFault_val io v cf ci hcf k
    · exact noFault_elems io vs m cf ci hm hcf

theorem noFault_pairs (io : FloatIO) : ∀ (es : List Entry) (m cf : FMap) (ci : Ind), AllGoOK m → AllGoOK cf →
    NoFaultL (fmtPairs io m cf ci es)
  | [], m, cf, ci, _, _ => by intro e he; simp [fmtPairs] at he
  | .mk kk v :: es, m, cf, ci, hm, hcf => by
    simp only [fmtPairs]
    have hk : ∀ k, fmtVal io (if kk.isContainer = true then m else cf) ci kk ≠ .fault k := by
      intro k
      by_cases hc : kk.isContainer = true
      · simp only [hc, if_true]; exact noFault_val io kk m ci hm k
      · simp only [hc]; exact noFault_val io kk cf ci hcf k
    split
    · apply noFaultL_cons
      · intro k
        by_cases hc : v.isContainer = true
        · simp only [hc, if_true]; exact noFault_val io v m ci hm k
        · simp only [hc]; exact noFault_val io v cf ci hcf k
      · exact noFault_pairs io es m cf ci hm hcf
    · rename_i e hne
      intro e' he' k
      cases he'
      exact hk k

theorem noFault_entryArrs (io : FloatIO) : ∀ (es : List Entry) (m : FMap) (ind : Ind), AllGoOK m →
    NoFaultL (fmtEntryArrs io m ind es)
  | [], m, ind, _ => by intro e he; simp [fmtEntryArrs] at he
  | .mk kk v :: es, m, ind, hm => by
    simp only [fmtEntryArrs]
    apply noFaultL_cons
    · intro k
      have hcf := cfOf_goOK m hm .arr
      have hk : ∀ k, fmtVal io (if kk.isContainer = true then m else cfOf (getFormat m .arr)) (arrayChildInd (getFormat m .arr).f ind) kk ≠ .fault k := by
        intro k
        by_cases hc : kk.isContainer = true
        · simp only [hc, if_true]; exact noFault_val io kk m _ hm k
        · simp only [hc]; exact noFault_val io kk _ _ hcf k
      have hv : ∀ k, fmtVal io (if v.isContainer = true then m else cfOf (getFormat m .arr)) (arrayChildInd (getFormat m .arr).f ind) v ≠ .fault k := by
        intro k
        by_cases hc : v.isContainer = true
        · simp only [hc, if_true]; exact noFault_val io v m _ hm k
        · simp only [hc]; exact noFault_val io v _ _ hcf k
      split
      · simp
      · split
        · split
          · simp
          · rename_i e hne; exact hv k
        · rename_i e hne; exact hk k
    · exact noFault_entryArrs io es m ind hm
end

/-! ### unsupported-format ⇔ letter outside the set (scalars) -/

theorem fmtVal_reported_scalar (io : FloatIO) (m : FMap) (ind : Ind) (v : Val) (hv : v.isContainer = false) (c : Code)
    (h : fmtVal io m ind v = .reported c) :
    (c = .unsupported ∧ accepts v.kind (getFormat m v.kind).f.letter = false) ∨
    (c = .failure ∧ (getFormat m v.kind).f.letter = 's' ∧ ∃ bs, v = .binary bs none) := by
  cases v with
  | undef => simp [fmtVal, fmtUndef] at h
  | dflt => simp only [fmtVal] at h; exact Or.inl (fmtDefault_reported _ c h)
  | bool b => simp only [fmtVal] at h; exact Or.inl (fmtBool_reported io _ b c h)
  | int i => simp only [fmtVal] at h; exact Or.inl (fmtInt_reported io _ i c h)
  | float bits => simp only [fmtVal] at h; exact Or.inl (fmtFloat_reported io _ bits c h)
  | str s => simp only [fmtVal] at h; exact Or.inl (fmtStr_reported _ s c h)
  | regexp src => simp [fmtVal, fmtRegexp] at h
  | binary bs u =>
    simp only [fmtVal] at h
    rcases fmtBinary_reported _ bs u c h with h' | ⟨h1, h2, h3⟩
    · exact Or.inl h'
    · exact Or.inr ⟨h1, h2, bs, by rw [h3]⟩
  | array vs => simp [Val.isContainer] at hv
  | hash es => simp [Val.isContainer] at hv

theorem fmtVal_of_not_accepts (io : FloatIO) (m : FMap) (ind : Ind) (v : Val) (hv : v.isContainer = false)
    (h : accepts v.kind (getFormat m v.kind).f.letter = false) : fmtVal io m ind v = .reported .unsupported := by
  cases v with
  | undef => simp [accepts, modelLetters, Val.kind] at h
  | dflt => simp only [fmtVal]; exact fmtDefault_of_not_accepts _ h
  | bool b => simp only [fmtVal]; exact fmtBool_of_not_accepts io _ b h
  | int i => simp only [fmtVal]; exact fmtInt_of_not_accepts io _ i h
  | float bits => simp only [fmtVal]; exact fmtFloat_of_not_accepts io _ bits h
  | str s => simp only [fmtVal]; exact fmtStr_of_not_accepts _ s h
  | regexp src => simp [accepts, modelLetters, Val.kind] at h
  | binary bs u => simp only [fmtVal]; exact fmtBinary_of_not_accepts _ bs u h
  | array vs => simp [Val.isContainer] at hv
  | hash es => simp [Val.isContainer] at hv

theorem fmtVal_unsupported_iff (io : FloatIO) (m : FMap) (ind : Ind) (v : Val) (hv : v.isContainer = false) :
    fmtVal io m ind v = .reported .unsupported ↔ accepts v.kind (getFormat m v.kind).f.letter = false := by
  constructor
  · intro h
    rcases fmtVal_reported_scalar io m ind v hv _ h with h' | h'
    · exact h'.2
    · cases h'.1
  · exact fmtVal_of_not_accepts io m ind v hv

/-! ### the container law -/

theorem intercalate_cons (sep : Str) (x : Str) (xs : List Str) :
    sep.intercalate (x :: xs) = x ++ (xs.map (sep ++ ·)).flatten := by
  induction xs generalizing x with
  | nil => simp [List.intercalate]
  | cons y ys ih =>
    have := ih y
    simp [List.intercalate] at this ⊢
    rw [this]

theorem arrayRest_nonalt (f : Fmt) (hf : f.alt = false) (sep pad : Str) :
    ∀ (rest : List (Str × Bool)) (prev : Bool),
      arrayRest f sep pad false rest prev = (rest.map (fun p => (sep ++ [' ']) ++ p.1)).flatten
  | [], _ => by simp [arrayRest]
  | (s, ah) :: rest, prev => by
    simp only [arrayRest, hf, arrayRest_nonalt f hf sep pad rest ah]
    simp

theorem arrayAssemble_nonalt (f : Fmt) (ind : Ind) (parts : List (Str × Bool)) (hf : f.alt = false) (hi : ind.indenting = false) :
    arrayAssemble f ind parts =
      (delimPair f.ldelim '[').1 ++ (f.sep.getD [','] ++ [' ']).intercalate (parts.map (·.1)) ++ (delimPair f.ldelim '[').2 := by
  have hsz : ∀ ps, szBreakOf f ps = false := by intro ps; simp [szBreakOf, hf]
  unfold arrayAssemble
  simp only [hf, hi, hsz, Ind.withIndenting, Ind.breaks, Bool.or_self, Bool.false_and, Bool.false_eq_true, if_false]
  cases parts with
  | nil => simp [List.intercalate]
  | cons p rest =>
    obtain ⟨s, ah⟩ := p
    simp only [List.map_cons, intercalate_cons, arrayRest_nonalt f hf]
    simp [List.map_map, Function.comp_def]


theorem hashEntries_eq (assoc sep : Str) : ∀ (parts : List (Str × Str)),
    hashEntries assoc sep [] parts = sep.intercalate (parts.map (fun p => p.1 ++ assoc ++ p.2))
  | [] => by simp [hashEntries, List.intercalate]
  | [(k, v)] => by simp [hashEntries, List.intercalate]
  | (k, v) :: p2 :: rest => by
    have ih := hashEntries_eq assoc sep (p2 :: rest)
    rw [hashEntries, ih]
    simp only [List.map_cons, intercalate_cons]
    simp
    all_goals (intro h; cases h)

theorem hashAssemble_nonalt (f : Fmt) (ind : Ind) (parts : List (Str × Str)) (hf : f.alt = false) (hi : ind.indenting = false) :
    hashAssemble f ind parts =
      (delimPair f.ldelim '{').1 ++
        (f.sep.getD [','] ++ [' ']).intercalate (parts.map (fun p => p.1 ++ f.sep2.getD " => ".toList ++ p.2)) ++
      (delimPair f.ldelim '{').2 := by
  unfold hashAssemble
  simp only [hf, hi, Ind.withIndenting, Ind.breaks, Bool.or_self, Bool.false_and, Bool.false_eq_true, if_false,
    hashEntries_eq]
  simp

/-- the children of a container render to the texts `texts`: a container child under the parent's map, any other child
    under the container formats `cf` -/
def ChildrenText (io : FloatIO) (m cf : FMap) (ci : Ind) : List Val → List Str → Prop
  | [], [] => True
  | v :: vs, s :: ss => fmtVal io (if v.isContainer then m else cf) ci v = .text s ∧ ChildrenText io m cf ci vs ss
  | _, _ => False

theorem fmtElems_of_children (io : FloatIO) (m cf : FMap) (ci : Ind) : ∀ (vs : List Val) (texts : List Str),
    ChildrenText io m cf ci vs texts → ∃ parts, fmtElems io m cf ci vs = .ok parts ∧ parts.map (·.1) = texts
  | [], [], _ => ⟨[], by simp [fmtElems], rfl⟩
  | v :: vs, s :: ss, h => by
    obtain ⟨parts, hp, hm⟩ := fmtElems_of_children io m cf ci vs ss h.2
    refine ⟨(s, v.isContainer) :: parts, ?_, by simp [hm]⟩
    simp only [fmtElems, h.1, ResL.cons, hp]
  | [], _ :: _, h => by simp [ChildrenText] at h
  | _ :: _, [], h => by simp [ChildrenText] at h

/-- the entries of a hash render to the key and value texts -/
def EntriesText (io : FloatIO) (m cf : FMap) (ci : Ind) : List Entry → List (Str × Str) → Prop
  | [], [] => True
  | .mk k v :: es, (sk, sv) :: ss =>
    fmtVal io (if k.isContainer then m else cf) ci k = .text sk ∧
    fmtVal io (if v.isContainer then m else cf) ci v = .text sv ∧ EntriesText io m cf ci es ss
  | _, _ => False

theorem fmtPairs_of_entries (io : FloatIO) (m cf : FMap) (ci : Ind) : ∀ (es : List Entry) (texts : List (Str × Str)),
    EntriesText io m cf ci es texts → fmtPairs io m cf ci es = .ok texts
  | [], [], _ => by simp [fmtPairs]
  | .mk k v :: es, (sk, sv) :: ss, h => by
    have ih := fmtPairs_of_entries io m cf ci es ss h.2.2
    simp only [fmtPairs, h.1, h.2.1, ResL.cons, ih]
  | [], _ :: _, h => by simp [EntriesText] at h
  | _ :: _, [], h => by simp [EntriesText] at h

/-- **container law, arrays** (non-alt): left delimiter ++ intercalate (separator ++ blank) (element renderings) ++
    right delimiter, whatever the elements are (containers included: the law applies to them in turn) -/
theorem fmtVal_array (io : FloatIO) (m : FMap) (ind : Ind) (vs : List Val) (texts : List Str)
    (hl : isArrayLetter (getFormat m .arr).f.letter = true) (halt : (getFormat m .arr).f.alt = false)
    (hind : ind.indenting = false)
    (hc : ChildrenText io m (cfOf (getFormat m .arr)) (arrayChildInd (getFormat m .arr).f ind) vs texts) :
    fmtVal io m ind (.array vs) =
      .text ((delimPair (getFormat m .arr).f.ldelim '[').1 ++
        ((getFormat m .arr).f.sep.getD [','] ++ [' ']).intercalate texts ++ (delimPair (getFormat m .arr).f.ldelim '[').2) := by
  obtain ⟨parts, hp, hm⟩ := fmtElems_of_children io m _ _ vs texts hc
  simp only [fmtVal, hl, Bool.not_true, Bool.false_eq_true, if_false, hp]
  rw [arrayAssemble_nonalt _ _ _ halt hind, hm]

/-- **container law, hashes** (non-alt, letters h s p) -/
theorem fmtVal_hash (io : FloatIO) (m : FMap) (ind : Ind) (es : List Entry) (texts : List (Str × Str))
    (hl : isHashLetter (getFormat m .hash).f.letter = true) (halt : (getFormat m .hash).f.alt = false)
    (hind : ind.indenting = false)
    (hc : EntriesText io m (cfOf (getFormat m .hash)) (hashChildInd (getFormat m .hash).f ind) es texts) :
    fmtVal io m ind (.hash es) =
      .text ((delimPair (getFormat m .hash).f.ldelim '{').1 ++
        ((getFormat m .hash).f.sep.getD [','] ++ [' ']).intercalate
          (texts.map (fun p => p.1 ++ (getFormat m .hash).f.sep2.getD " => ".toList ++ p.2)) ++
        (delimPair (getFormat m .hash).f.ldelim '{').2) := by
  have hp := fmtPairs_of_entries io m _ _ es texts hc
  have hna : (getFormat m .hash).f.letter ≠ 'a' := by
    intro h; rw [h] at hl; simp [isHashLetter] at hl
  simp only [fmtVal, hna, if_false, hl, Bool.not_true, Bool.false_eq_true, hp]
  rw [hashAssemble_nonalt _ _ _ halt hind]

/-- the letter of a container is checked before anything else -/
theorem fmtVal_array_unsupported (io : FloatIO) (m : FMap) (ind : Ind) (vs : List Val)
    (hl : isArrayLetter (getFormat m .arr).f.letter = false) : fmtVal io m ind (.array vs) = .reported .unsupported := by
  simp [fmtVal, hl]

theorem fmtVal_hash_unsupported (io : FloatIO) (m : FMap) (ind : Ind) (es : List Entry)
    (hl : isHashLetter (getFormat m .hash).f.letter = false) (ha : (getFormat m .hash).f.letter ≠ 'a') :
    fmtVal io m ind (.hash es) = .reported .unsupported := by
  simp [fmtVal, hl, ha]

end Pcore.Format
