import Pcore.Proofs.ValueEqVer
/-! Helper lemmas for C07: the printed form of a version (`version.ToString`) and the normalized form of a version range
    (`versionRange.ToNormalizedString`) determine the parsed data — so the keys `[1,'v'] ++ verStr v` and
    `[1,'R'] ++ normStr rs` are equal exactly when `Equals` holds. -/
namespace Pcore.ValueEq

/-! ### decimal digits -/

theorem digit_facts : ∀ d, d < 10 → isDigit (UInt8.ofNat (48 + d)) = true ∧ (UInt8.ofNat (48 + d)).toNat - 48 = d := by decide

theorem decDigits_ne_nil : ∀ f n, decDigits f n ≠ []
  | 0, _ => by simp [decDigits]
  | f + 1, n => by
      simp only [decDigits]
      split
      · simp
      · simp

theorem decDigits_digits : ∀ f n, ∀ c ∈ decDigits f n, isDigit c = true
  | 0, n => by
      intro c hc
      simp only [decDigits, List.mem_singleton] at hc
      subst hc
      exact (digit_facts (n % 10) (Nat.mod_lt _ (by decide))).1
  | f + 1, n => by
      intro c hc
      simp only [decDigits] at hc
      split at hc
      · rename_i h
        simp only [List.mem_singleton] at hc
        subst hc
        exact (digit_facts n h).1
      · simp only [List.mem_append, List.mem_singleton] at hc
        rcases hc with hc | hc
        · exact decDigits_digits f (n / 10) c hc
        · subst hc
          exact (digit_facts (n % 10) (Nat.mod_lt _ (by decide))).1

theorem digitsAcc_append (acc : Nat) (xs ys : Bytes) :
    digitsAcc acc (xs ++ ys) = (digitsAcc acc xs).bind (fun v => digitsAcc v ys) := by
  induction xs generalizing acc with
  | nil => simp [digitsAcc]
  | cons x xs ih =>
    simp only [List.cons_append, digitsAcc]
    split
    · exact ih _
    · rfl

theorem digitsAcc_decDigits : ∀ f n, n ≤ f → digitsAcc 0 (decDigits f n) = some n
  | 0, n, h => by
      have : n = 0 := by omega
      subst this
      decide
  | f + 1, n, h => by
      simp only [decDigits]
      split
      · rename_i hn
        simp only [digitsAcc, (digit_facts n hn).1, if_true, (digit_facts n hn).2]
        simp
      · rename_i hn
        rw [digitsAcc_append, digitsAcc_decDigits f (n / 10) (by omega)]
        have hd := digit_facts (n % 10) (Nat.mod_lt _ (by decide))
        simp only [Option.bind_some, digitsAcc, hd.1, if_true, hd.2]
        congr 1
        omega

theorem digitsVal_natStr (n : Nat) : digitsVal (natStr n) = some n := by
  unfold natStr
  have h := decDigits_ne_nil n n
  cases hd : decDigits n n with
  | nil => exact absurd hd h
  | cons c cs =>
    simp only [digitsVal]
    rw [← hd]
    exact digitsAcc_decDigits n n (Nat.le_refl _)

theorem natStr_inj {a b : Nat} (h : natStr a = natStr b) : a = b := by
  have := digitsVal_natStr a
  rw [h, digitsVal_natStr] at this
  exact (Option.some.inj this).symm

theorem natStr_digits (n : Nat) : ∀ c ∈ natStr n, isDigit c = true := decDigits_digits n n

theorem natStr_ne_nil (n : Nat) : natStr n ≠ [] := decDigits_ne_nil n n

/-- `strconv.ParseInt` reads back what `%d` wrote -/
theorem parseInt64_intStr (i : Int) (h1 : -9223372036854775808 ≤ i) (h2 : i ≤ 9223372036854775807) :
    parseInt64 (intStr i) = some i := by
  unfold intStr
  split
  · rename_i hneg
    have hn : (i.natAbs : Int) = -i := Int.ofNat_natAbs_of_nonpos (by omega)
    generalize i.natAbs = n at hn ⊢
    simp only [parseInt64, ↓reduceIte, digitsVal_natStr]
    have hle : n ≤ 9223372036854775808 := by omega
    rw [if_pos hle]
    have e : -(n : Int) = i := by omega
    rw [e, if_neg (by decide)]
  · rename_i hpos
    have hn : (i.natAbs : Int) = i := Int.natAbs_of_nonneg (by omega)
    generalize i.natAbs = n at hn ⊢
    have hne := natStr_ne_nil n
    have hdig := natStr_digits n
    have hv := digitsVal_natStr n
    cases hs : natStr n with
    | nil => exact absurd hs hne
    | cons c r =>
      rw [hs] at hdig hv
      have hc : isDigit c = true := hdig c List.mem_cons_self
      have c1 : c ≠ 0x2b := by intro e; subst e; exact absurd hc (by decide)
      have c2 : c ≠ 0x2d := by intro e; subst e; exact absurd hc (by decide)
      simp only [parseInt64]
      rw [if_neg c1, if_neg c2, hv]
      have hlt : n < 9223372036854775808 := by omega
      simp only [if_pos hlt]
      congr 1

/-! ### splitting at a separator -/

/-- `x` is empty or starts with a byte satisfying `P` -/
def Starts (P : UInt8 → Bool) (x : Bytes) : Prop := x = [] ∨ ∃ c r, x = c :: r ∧ P c = true

/-- a prefix free of `P`-bytes followed by a tail that is empty or starts with a `P`-byte can be split in one way only -/
theorem append_sep_pred {P : UInt8 → Bool} : ∀ {a a' x x' : Bytes}, (∀ c ∈ a, P c = false) → (∀ c ∈ a', P c = false) →
    Starts P x → Starts P x' → a ++ x = a' ++ x' → a = a' ∧ x = x'
  | [], [], _, _, _, _, _, _, h => ⟨rfl, by simpa using h⟩
  | [], b :: bs, x, x', _, hb, hx, _, h => by
      exfalso
      simp only [List.nil_append, List.cons_append] at h
      rcases hx with hx | ⟨c, r, hx, hp⟩
      · rw [hx] at h; cases h
      · rw [hx] at h
        have : c = b := (List.cons.inj h).1
        rw [this, hb b List.mem_cons_self] at hp
        cases hp
  | b :: bs, [], x, x', hb, _, _, hx', h => by
      exfalso
      simp only [List.nil_append, List.cons_append] at h
      rcases hx' with hx | ⟨c, r, hx, hp⟩
      · rw [hx] at h; cases h
      · rw [hx] at h
        have : b = c := (List.cons.inj h).1
        rw [← this, hb b List.mem_cons_self] at hp
        cases hp
  | b :: bs, b' :: bs', x, x', hb, hb', hx, hx', h => by
      simp only [List.cons_append, List.cons.injEq] at h
      have := append_sep_pred (fun c hc => hb c (List.mem_cons_of_mem _ hc)) (fun c hc => hb' c (List.mem_cons_of_mem _ hc))
        hx hx' h.2
      exact ⟨by rw [h.1, this.1], this.2⟩

/-- `writeParts`: non-empty parts free of the separator are determined by the joined string -/
theorem joinB_inj (c : UInt8) : ∀ {ps qs : List Bytes}, (∀ p ∈ ps, p ≠ [] ∧ c ∉ p) → (∀ q ∈ qs, q ≠ [] ∧ c ∉ q) →
    joinB c ps = joinB c qs → ps = qs
  | [], [], _, _, _ => rfl
  | [], q :: qs, _, hq, h => by
      exfalso
      cases qs with
      | nil => simp only [joinB] at h; exact (hq q List.mem_cons_self).1 h.symm
      | cons q' qs =>
        simp only [joinB] at h
        have := (hq q List.mem_cons_self).1
        cases q with
        | nil => exact this rfl
        | cons _ _ => cases h
  | p :: ps, [], hp, _, h => by
      exfalso
      cases ps with
      | nil => simp only [joinB] at h; exact (hp p List.mem_cons_self).1 h
      | cons p' ps =>
        simp only [joinB] at h
        have := (hp p List.mem_cons_self).1
        cases p with
        | nil => exact this rfl
        | cons _ _ => cases h
  | p :: ps, q :: qs, hp, hq, h => by
      have hp1 := hp p List.mem_cons_self
      have hq1 := hq q List.mem_cons_self
      have np : ∀ x ∈ p, (fun b => b == c) x = false := by
        intro x hx; simp only [beq_eq_false_iff_ne]; intro e; subst e; exact hp1.2 hx
      have nq : ∀ x ∈ q, (fun b => b == c) x = false := by
        intro x hx; simp only [beq_eq_false_iff_ne]; intro e; subst e; exact hq1.2 hx
      have tail : ∀ (rs : List Bytes) (r : Bytes), joinB c (r :: rs) = r ++ (match rs with | [] => [] | r' :: rs' => c :: joinB c (r' :: rs')) := by
        intro rs r; cases rs <;> simp [joinB]
      have st : ∀ rs : List Bytes, Starts (fun b => b == c) (match rs with | [] => [] | r' :: rs' => c :: joinB c (r' :: rs')) := by
        intro rs; cases rs
        · exact Or.inl rfl
        · exact Or.inr ⟨c, _, rfl, by simp⟩
      rw [tail, tail] at h
      have := append_sep_pred np nq (st ps) (st qs) h
      have e1 := this.1
      subst e1
      cases ps with
      | nil =>
        cases qs with
        | nil => rfl
        | cons _ _ => cases this.2
      | cons p' ps =>
        cases qs with
        | nil => cases this.2
        | cons q' qs =>
          have h2 : joinB c (p' :: ps) = joinB c (q' :: qs) := (List.cons.inj this.2).2
          rw [joinB_inj c (fun x hx => hp x (List.mem_cons_of_mem _ hx)) (fun x hx => hq x (List.mem_cons_of_mem _ hx)) h2]

/-! ### well-formed versions -/

/-- a pre-release part as `mungePart` makes it: an int64, or a `[0-9A-Za-z-]+` string that `ParseInt` rejects -/
def segOk : Seg → Bool
  | .num i => decide (-9223372036854775808 ≤ i) && decide (i ≤ 9223372036854775807)
  | .txt s => partOk s && (parseInt64 s).isNone

/-- a version as `NewVersion3` makes it (and `semver.Min`): the numbers are Go ints, the parts match the part patterns -/
def verOk (v : Ver) : Bool :=
  (decide (v.major < 9223372036854775808) && decide (v.minor < 9223372036854775808) && decide (v.patch < 9223372036854775808)) &&
  (match v.pre with | none => true | some ps => ps.all segOk) &&
  (match v.build with | none => true | some ps => ps.all partOk)

theorem partChar_facts : ∀ c : UInt8, isPartChar c = true → c ≠ 0x2e ∧ c ≠ 0x2b ∧ c ≠ 0x20 ∧ c ≠ 0x7c := by
  intro c h
  refine ⟨?_, ?_, ?_, ?_⟩ <;> (intro e; subst e; exact absurd h (by decide))

theorem partOk_facts {p : Bytes} (h : partOk p = true) : p ≠ [] ∧ ∀ c ∈ p, isPartChar c = true := by
  simp only [partOk, Bool.and_eq_true, Bool.not_eq_true', List.isEmpty_eq_false_iff, List.all_eq_true] at h
  exact h

theorem digit_partChar {c : UInt8} (h : isDigit c = true) : isPartChar c = true := by simp [isPartChar, h]

theorem intStr_facts (i : Int) : intStr i ≠ [] ∧ ∀ c ∈ intStr i, isPartChar c = true := by
  unfold intStr
  split
  · refine ⟨by simp, ?_⟩
    intro c hc
    rcases List.mem_cons.mp hc with e | hc
    · subst e; decide
    · exact digit_partChar (natStr_digits _ c hc)
  · exact ⟨natStr_ne_nil _, fun c hc => digit_partChar (natStr_digits _ c hc)⟩

theorem segStr_facts {s : Seg} (h : segOk s = true) : segStr s ≠ [] ∧ ∀ c ∈ segStr s, isPartChar c = true := by
  cases s with
  | num i => exact intStr_facts i
  | txt t =>
    simp only [segOk, Bool.and_eq_true] at h
    exact partOk_facts h.1

theorem segStr_inj {a b : Seg} (ha : segOk a = true) (hb : segOk b = true) (h : segStr a = segStr b) : a = b := by
  cases a with
  | num i =>
    simp only [segOk, Bool.and_eq_true, decide_eq_true_eq] at ha
    have ri := parseInt64_intStr i ha.1 ha.2
    cases b with
    | num j =>
      simp only [segOk, Bool.and_eq_true, decide_eq_true_eq] at hb
      have rj := parseInt64_intStr j hb.1 hb.2
      simp only [segStr] at h
      rw [h, rj] at ri
      rw [Option.some.inj ri]
    | txt t =>
      simp only [segOk, Bool.and_eq_true, Option.isNone_iff_eq_none] at hb
      simp only [segStr] at h
      rw [h, hb.2] at ri
      cases ri
  | txt s =>
    cases b with
    | num j =>
      simp only [segOk, Bool.and_eq_true, decide_eq_true_eq, Option.isNone_iff_eq_none] at ha hb
      have rj := parseInt64_intStr j hb.1 hb.2
      simp only [segStr] at h
      rw [← h, ha.2] at rj
      cases rj
    | txt t => simp only [segStr] at h; rw [h]

theorem map_segStr_inj : ∀ {ps qs : List Seg}, (∀ p ∈ ps, segOk p = true) → (∀ q ∈ qs, segOk q = true) →
    ps.map segStr = qs.map segStr → ps = qs
  | [], [], _, _, _ => rfl
  | [], _ :: _, _, _, h => by simp at h
  | _ :: _, [], _, _, h => by simp at h
  | p :: ps, q :: qs, hp, hq, h => by
      simp only [List.map_cons, List.cons.injEq] at h
      rw [segStr_inj (hp p List.mem_cons_self) (hq q List.mem_cons_self) h.1,
        map_segStr_inj (fun x hx => hp x (List.mem_cons_of_mem _ hx)) (fun x hx => hq x (List.mem_cons_of_mem _ hx)) h.2]

/-- the part of the printed version after the patch number -/
def verTail (v : Ver) : Bytes :=
  (match v.pre with | none => [] | some ps => 0x2d :: joinB 0x2e (ps.map segStr)) ++
  (match v.build with | none => [] | some ps => 0x2b :: joinB 0x2e ps)

theorem verStr_eq (v : Ver) : verStr v = natStr v.major ++ 0x2e :: (natStr v.minor ++ 0x2e :: (natStr v.patch ++ verTail v)) := rfl

theorem joinB_chars (c : UInt8) {P : UInt8 → Prop} (hc : P c) : ∀ ps : List Bytes, (∀ p ∈ ps, ∀ x ∈ p, P x) → ∀ x ∈ joinB c ps, P x
  | [], _, x, hx => by simp [joinB] at hx
  | [p], h, x, hx => by simp only [joinB] at hx; exact h p List.mem_cons_self x hx
  | p :: q :: ps, h, x, hx => by
      simp only [joinB, List.mem_append, List.mem_cons] at hx
      rcases hx with hx | hx | hx
      · exact h p List.mem_cons_self x hx
      · rw [hx]; exact hc
      · exact joinB_chars c hc (q :: ps) (fun p' hp' => h p' (List.mem_cons_of_mem _ hp')) x hx

/-- every byte of a printed version is a part character, `.` or `+`; the first is a digit -/
theorem verStr_chars {v : Ver} (h : verOk v = true) : ∀ c ∈ verStr v, isPartChar c = true ∨ c = 0x2e ∨ c = 0x2b := by
  simp only [verOk, Bool.and_eq_true] at h
  obtain ⟨⟨_, hpre⟩, hbuild⟩ := h
  have dg : ∀ n, ∀ c ∈ natStr n, isPartChar c = true ∨ c = 0x2e ∨ c = 0x2b :=
    fun n c hc => Or.inl (digit_partChar (natStr_digits n c hc))
  intro c hc
  rw [verStr_eq] at hc
  simp only [List.mem_append, List.mem_cons, verTail] at hc
  rcases hc with hc | hc | hc | hc | hc | hc
  · exact dg _ c hc
  · exact Or.inr (Or.inl hc)
  · exact dg _ c hc
  · exact Or.inr (Or.inl hc)
  · exact dg _ c hc
  · rcases hc with hc | hc
    · cases hp : v.pre with
      | none => rw [hp] at hc; simp at hc
      | some ps =>
        rw [hp] at hc hpre
        simp only [List.all_eq_true] at hpre
        rcases List.mem_cons.mp hc with e | hc
        · subst e; exact Or.inl (by decide)
        · refine joinB_chars 0x2e (P := fun c => isPartChar c = true ∨ c = 0x2e ∨ c = 0x2b) (Or.inr (Or.inl rfl)) _ ?_ c hc
          intro p hp' x hx
          obtain ⟨s, hs, rfl⟩ := List.mem_map.mp hp'
          exact Or.inl ((segStr_facts (hpre s hs)).2 x hx)
    · cases hb : v.build with
      | none => rw [hb] at hc; simp at hc
      | some ps =>
        rw [hb] at hc hbuild
        simp only [List.all_eq_true] at hbuild
        rcases List.mem_cons.mp hc with e | hc
        · subst e; exact Or.inr (Or.inr rfl)
        · refine joinB_chars 0x2e (P := fun c => isPartChar c = true ∨ c = 0x2e ∨ c = 0x2b) (Or.inr (Or.inl rfl)) _ ?_ c hc
          intro p hp' x hx
          exact Or.inl ((partOk_facts (hbuild p hp')).2 x hx)

/-- the printed form determines the version -/
theorem verStr_inj {a b : Ver} (ha : verOk a = true) (hb : verOk b = true) (h : verStr a = verStr b) : a = b := by
  have dotfree : ∀ n, ∀ c ∈ natStr n, (fun b : UInt8 => b == 0x2e) c = false := by
    intro n c hc
    simp only [beq_eq_false_iff_ne]
    intro e; subst e; exact absurd (natStr_digits n _ hc) (by decide)
  have nondig : ∀ n, ∀ c ∈ natStr n, (fun b : UInt8 => !isDigit b) c = false := by
    intro n c hc; simp [natStr_digits n c hc]
  have stdot : ∀ r : Bytes, Starts (fun b : UInt8 => b == 0x2e) (0x2e :: r) := fun r => Or.inr ⟨_, r, rfl, by decide⟩
  rw [verStr_eq, verStr_eq] at h
  have s1 := append_sep_pred (dotfree _) (dotfree _) (stdot _) (stdot _) h
  have s2 := append_sep_pred (dotfree _) (dotfree _) (stdot _) (stdot _) (List.cons.inj s1.2).2
  -- the tail starts with `-` or `+` (not a digit) or is empty
  have sttail : ∀ v : Ver, Starts (fun b : UInt8 => !isDigit b) (verTail v) := by
    intro v
    unfold verTail
    cases v.pre with
    | some ps => exact Or.inr ⟨0x2d, _, rfl, by decide⟩
    | none =>
      cases v.build with
      | some qs => exact Or.inr ⟨0x2b, _, rfl, by decide⟩
      | none => exact Or.inl rfl
  have s3 := append_sep_pred (nondig _) (nondig _) (sttail a) (sttail b) (List.cons.inj s2.2).2
  simp only [verOk, Bool.and_eq_true] at ha hb
  obtain ⟨⟨_, hpa⟩, hba⟩ := ha
  obtain ⟨⟨_, hpb⟩, hbb⟩ := hb
  -- pre-release part free of `+`, build part starts with `+`
  have prefree : ∀ (v : Ver), (match v.pre with | none => true | some ps => ps.all segOk) = true →
      ∀ c ∈ (match v.pre with | none => ([] : Bytes) | some ps => 0x2d :: joinB 0x2e (ps.map segStr)),
        (fun b : UInt8 => b == 0x2b) c = false := by
    intro v hv c hc
    simp only [beq_eq_false_iff_ne]
    cases hp : v.pre with
    | none => rw [hp] at hc; simp at hc
    | some ps =>
      rw [hp] at hc hv
      simp only [List.all_eq_true] at hv
      rcases List.mem_cons.mp hc with e | hc
      · subst e; decide
      · refine joinB_chars 0x2e (P := fun c => c ≠ 0x2b) (by decide) _ ?_ c hc
        intro p hp' x hx
        obtain ⟨s, hs, rfl⟩ := List.mem_map.mp hp'
        exact (partChar_facts x ((segStr_facts (hv s hs)).2 x hx)).2.1
  have stbuild : ∀ v : Ver, Starts (fun b : UInt8 => b == 0x2b) (match v.build with | none => [] | some ps => 0x2b :: joinB 0x2e ps) := by
    intro v
    cases v.build with
    | none => exact Or.inl rfl
    | some _ => exact Or.inr ⟨_, _, rfl, by decide⟩
  have s4 := append_sep_pred (prefree a hpa) (prefree b hpb) (stbuild a) (stbuild b) s3.2
  -- reassemble
  have e1 := natStr_inj s1.1
  have e2 := natStr_inj s2.1
  have e3 := natStr_inj s3.1
  have e4 : a.pre = b.pre := by
    cases hpa' : a.pre with
    | none =>
      cases hpb' : b.pre with
      | none => rfl
      | some qs => rw [hpa', hpb'] at s4; cases s4.1
    | some ps =>
      cases hpb' : b.pre with
      | none => rw [hpa', hpb'] at s4; cases s4.1
      | some qs =>
        rw [hpa'] at hpa; rw [hpb'] at hpb
        simp only [List.all_eq_true] at hpa hpb
        rw [hpa', hpb'] at s4
        have hj : joinB 0x2e (ps.map segStr) = joinB 0x2e (qs.map segStr) := (List.cons.inj s4.1).2
        have ok : ∀ (l : List Seg), (∀ s ∈ l, segOk s = true) → ∀ p ∈ l.map segStr, p ≠ [] ∧ (0x2e : UInt8) ∉ p := by
          intro l hl p hp
          obtain ⟨s, hs, rfl⟩ := List.mem_map.mp hp
          refine ⟨(segStr_facts (hl s hs)).1, fun hm => ?_⟩
          exact (partChar_facts _ ((segStr_facts (hl s hs)).2 _ hm)).1 rfl
        rw [map_segStr_inj hpa hpb (joinB_inj 0x2e (ok ps hpa) (ok qs hpb) hj)]
  have e5 : a.build = b.build := by
    cases hba' : a.build with
    | none =>
      cases hbb' : b.build with
      | none => rfl
      | some qs => rw [hba', hbb'] at s4; cases s4.2
    | some ps =>
      cases hbb' : b.build with
      | none => rw [hba', hbb'] at s4; cases s4.2
      | some qs =>
        rw [hba'] at hba; rw [hbb'] at hbb
        simp only [List.all_eq_true] at hba hbb
        rw [hba', hbb'] at s4
        have hj : joinB 0x2e ps = joinB 0x2e qs := (List.cons.inj s4.2).2
        have ok : ∀ (l : List Bytes), (∀ s ∈ l, partOk s = true) → ∀ p ∈ l, p ≠ [] ∧ (0x2e : UInt8) ∉ p := by
          intro l hl p hp
          refine ⟨(partOk_facts (hl p hp)).1, fun hm => ?_⟩
          exact (partChar_facts _ ((partOk_facts (hl p hp)).2 _ hm)).1 rfl
        rw [joinB_inj 0x2e (ok ps hba) (ok qs hbb) hj]
  cases a; cases b
  simp only at e1 e2 e3 e4 e5
  subst e1; subst e2; subst e3; subst e4; subst e5
  rfl

theorem verStr_iff {a b : Ver} (ha : verOk a = true) (hb : verOk b = true) : verStr a = verStr b ↔ verEq a b = true := by
  rw [verEq_iff]
  exact ⟨verStr_inj ha hb, fun h => by rw [h]⟩

/-! ### version ranges -/

def boundOk (b : Bound) : Bool := verOk b.v

def arOk : ARange → Bool
  | .simple b => boundOk b
  | .se s e => boundOk s && boundOk e

theorem opStr_inj {a b : BOp} (h : opStr a = opStr b) : a = b := by
  cases a <;> cases b <;> first | rfl | (exact absurd h (by decide))

theorem opStr_chars (o : BOp) : ∀ c ∈ opStr o, isDigit c = false ∧ c ≠ 0x20 ∧ c ≠ 0x7c := by
  cases o <;> decide

theorem verStr_starts {v : Ver} : ∃ c r, verStr v = c :: r ∧ isDigit c = true := by
  rw [verStr_eq]
  have hne := natStr_ne_nil v.major
  have hd := natStr_digits v.major
  cases hs : natStr v.major with
  | nil => exact absurd hs hne
  | cons c r => rw [hs] at hd; exact ⟨c, _, rfl, hd c List.mem_cons_self⟩

theorem boundStr_inj {a b : Bound} (ha : boundOk a = true) (hb : boundOk b = true) (h : boundStr a = boundStr b) : a = b := by
  have st : ∀ v : Ver, Starts isDigit (verStr v) := fun v => by
    obtain ⟨c, r, e, hc⟩ := verStr_starts (v := v); exact Or.inr ⟨c, r, e, hc⟩
  have := append_sep_pred (P := isDigit) (fun c hc => (opStr_chars a.op c hc).1) (fun c hc => (opStr_chars b.op c hc).1)
    (st a.v) (st b.v) h
  cases a; cases b
  simp only [boundOk] at ha hb this
  rw [opStr_inj this.1, verStr_inj ha hb this.2]

theorem boundStr_chars {b : Bound} (hb : boundOk b = true) : ∀ c ∈ boundStr b, c ≠ 0x20 ∧ c ≠ 0x7c := by
  intro c hc
  simp only [boundStr, List.mem_append] at hc
  rcases hc with hc | hc
  · exact (opStr_chars b.op c hc).2
  · rcases verStr_chars hb c hc with h | h | h
    · exact ⟨(partChar_facts c h).2.2.1, (partChar_facts c h).2.2.2⟩
    · subst h; decide
    · subst h; decide

theorem boundStr_head (b : Bound) : ∃ c r, boundStr b = c :: r ∧ c ≠ 0x20 ∧ c ≠ 0x7c := by
  obtain ⟨c, r, e, hc⟩ := verStr_starts (v := b.v)
  cases ho : opStr b.op with
  | nil =>
    refine ⟨c, r, by simp [boundStr, ho, e], ?_, ?_⟩ <;> (intro e'; subst e'; exact absurd hc (by decide))
  | cons d ds =>
    have := opStr_chars b.op d (by rw [ho]; exact List.mem_cons_self)
    exact ⟨d, ds ++ verStr b.v, by simp [boundStr, ho], this.2⟩

/-- what follows the first range in the normalized form -/
def normTail : List ARange → Bytes
  | [] => []
  | q :: rs => [0x20, 0x7c, 0x7c, 0x20] ++ normStr (q :: rs)

theorem normStr_cons (r : ARange) (rs : List ARange) : normStr (r :: rs) = arStr r ++ normTail rs := by
  cases rs <;> simp [normStr, normTail]

theorem normTail_starts (rs : List ARange) : Starts (fun b : UInt8 => b == 0x20) (normTail rs) := by
  cases rs
  · exact Or.inl rfl
  · exact Or.inr ⟨0x20, _, rfl, by decide⟩

/-- the normalized form determines the list of ranges -/
theorem normStr_inj : ∀ {rs qs : List ARange}, (∀ r ∈ rs, arOk r = true) → (∀ q ∈ qs, arOk q = true) →
    normStr rs = normStr qs → rs = qs
  | [], [], _, _, _ => rfl
  | [], q :: qs, _, _, h => by
      exfalso
      rw [normStr_cons] at h
      have : arStr q ≠ [] := by
        cases q with
        | simple b => obtain ⟨c, r, e, _⟩ := boundStr_head b; simp [arStr, e]
        | se s e' => obtain ⟨c, r, e, _⟩ := boundStr_head s; simp [arStr, e]
      cases hq : arStr q with
      | nil => exact this hq
      | cons _ _ => rw [hq] at h; simp [normStr] at h
  | r :: rs, [], _, _, h => by
      exfalso
      rw [normStr_cons] at h
      have : arStr r ≠ [] := by
        cases r with
        | simple b => obtain ⟨c, r, e, _⟩ := boundStr_head b; simp [arStr, e]
        | se s e' => obtain ⟨c, r, e, _⟩ := boundStr_head s; simp [arStr, e]
      cases hq : arStr r with
      | nil => exact this hq
      | cons _ _ => rw [hq] at h; simp [normStr] at h
  | r :: rs, q :: qs, hr, hq, h => by
      have ih : normTail rs = normTail qs → rs = qs := by
        intro ht
        cases rs with
        | nil =>
          cases qs with
          | nil => rfl
          | cons _ _ => simp [normTail] at ht
        | cons r' rs' =>
          cases qs with
          | nil => simp [normTail] at ht
          | cons q' qs' =>
            simp only [normTail, List.append_cancel_left_eq] at ht
            exact normStr_inj (fun x hx => hr x (List.mem_cons_of_mem _ hx)) (fun x hx => hq x (List.mem_cons_of_mem _ hx)) ht
      have nosp : ∀ b : Bound, boundOk b = true → ∀ c ∈ boundStr b, (fun x : UInt8 => x == 0x20) c = false := by
        intro b hb c hc
        simp only [beq_eq_false_iff_ne]
        exact (boundStr_chars hb c hc).1
      -- a tail never looks like the second bound of a start-end range
      have clash : ∀ (ts : List ARange) (e : Bound) (x : Bytes), normTail ts = 0x20 :: (boundStr e ++ x) → False := by
        intro ts e x hx
        obtain ⟨c, r', he, _, hc⟩ := boundStr_head e
        cases ts with
        | nil => simp [normTail] at hx
        | cons t ts =>
          simp only [normTail, he, List.cons_append, List.cons.injEq, true_and] at hx
          exact hc hx.1.symm
      rw [normStr_cons, normStr_cons] at h
      have hr1 := hr r List.mem_cons_self
      have hq1 := hq q List.mem_cons_self
      cases r with
      | simple a =>
        cases q with
        | simple b =>
          simp only [arOk] at hr1 hq1
          simp only [arStr] at h
          have := append_sep_pred (nosp a hr1) (nosp b hq1) (normTail_starts rs) (normTail_starts qs) h
          rw [boundStr_inj hr1 hq1 this.1, ih this.2]
        | se s e =>
          exfalso
          simp only [arOk, Bool.and_eq_true] at hr1 hq1
          simp only [arStr, List.append_assoc, List.cons_append] at h
          have := append_sep_pred (x' := 0x20 :: (boundStr e ++ normTail qs)) (nosp a hr1) (nosp s hq1.1) (normTail_starts rs)
            (Or.inr ⟨0x20, _, rfl, by decide⟩) h
          exact clash rs e _ this.2
      | se s e =>
        simp only [arOk, Bool.and_eq_true] at hr1
        cases q with
        | simple b =>
          exfalso
          simp only [arOk] at hq1
          simp only [arStr, List.append_assoc, List.cons_append] at h
          have := append_sep_pred (x := 0x20 :: (boundStr e ++ normTail rs)) (nosp s hr1.1) (nosp b hq1)
            (Or.inr ⟨0x20, _, rfl, by decide⟩) (normTail_starts qs) h
          exact clash qs e _ this.2.symm
        | se s' e' =>
          simp only [arOk, Bool.and_eq_true] at hq1
          simp only [arStr, List.append_assoc, List.cons_append] at h
          have h1 := append_sep_pred (x := 0x20 :: (boundStr e ++ normTail rs)) (x' := 0x20 :: (boundStr e' ++ normTail qs))
            (nosp s hr1.1) (nosp s' hq1.1) (Or.inr ⟨0x20, _, rfl, by decide⟩) (Or.inr ⟨0x20, _, rfl, by decide⟩) h
          have h2 := append_sep_pred (nosp e hr1.2) (nosp e' hq1.2) (normTail_starts rs) (normTail_starts qs)
            (List.cons.inj h1.2).2
          rw [boundStr_inj hr1.1 hq1.1 h1.1, boundStr_inj hr1.2 hq1.2 h2.1, ih h2.2]

theorem normStr_iff {rs qs : List ARange} (hr : ∀ r ∈ rs, arOk r = true) (hq : ∀ q ∈ qs, arOk q = true) :
    normStr rs = normStr qs ↔ rangesEq rs qs = true := by
  rw [rangesEq_iff]
  exact ⟨normStr_inj hr hq, fun h => by rw [h]⟩

/-! ### what `NewVersion3` returns is well-formed -/

theorem parseInt64_range {s : Bytes} {i : Int} (h : parseInt64 s = some i) :
    -9223372036854775808 ≤ i ∧ i ≤ 9223372036854775807 := by
  cases s with
  | nil => simp [parseInt64] at h
  | cons c r =>
    simp only [parseInt64] at h
    split at h
    · cases hd : digitsVal r with
      | none => rw [hd] at h; cases h
      | some n =>
        rw [hd] at h
        simp only at h
        split at h
        · cases h; omega
        · cases h
    · split at h
      · cases hd : digitsVal r with
        | none => rw [hd] at h; cases h
        | some n =>
          rw [hd] at h
          simp only at h
          split at h
          · cases h; omega
          · cases h
      · cases hd : digitsVal (c :: r) with
        | none => rw [hd] at h; cases h
        | some n =>
          rw [hd] at h
          simp only at h
          split at h
          · cases h; omega
          · cases h

theorem mungePart_ok {p : Bytes} (h : prPartOk p = true) : segOk (mungePart p) = true := by
  simp only [prPartOk, Bool.and_eq_true] at h
  unfold mungePart
  cases hp : parseInt64 p with
  | some i =>
    have := parseInt64_range hp
    simp [segOk, this.1, this.2]
  | none => simp [segOk, h.1, hp]

theorem newVersion3_ok {ma mi pa : Int} {p q : Bytes} {v : Ver} (h : newVersion3 ma mi pa p q = some v)
    (h1 : ma ≤ 9223372036854775807) (h2 : mi ≤ 9223372036854775807) (h3 : pa ≤ 9223372036854775807) : verOk v = true := by
  unfold newVersion3 at h
  split at h
  · cases h
  · rename_i hneg
    split at h
    · cases h
    · rename_i hpre
      split at h
      · cases h
      · rename_i hbuild
        cases h
        simp only [verOk, Bool.and_eq_true, decide_eq_true_eq]
        refine ⟨⟨⟨⟨by omega, by omega⟩, by omega⟩, ?_⟩, ?_⟩
        · cases hp : p.isEmpty
          · simp only [hp, Bool.false_eq_true, if_false, List.all_eq_true]
            simp only [hp, Bool.not_false, Bool.true_and, Bool.not_eq_true', Bool.not_eq_false] at hpre
            intro s hs
            obtain ⟨x, hx, rfl⟩ := List.mem_map.mp hs
            simp only [preOk, List.all_eq_true] at hpre
            exact mungePart_ok (hpre x hx)
          · simp [hp]
        · cases hq : q.isEmpty
          · simp only [hq, Bool.false_eq_true, if_false]
            simp only [hq, Bool.not_false, Bool.true_and, Bool.not_eq_true', Bool.not_eq_false] at hbuild
            simpa [buildOk] using hbuild
          · simp [hq]

end Pcore.ValueEq
