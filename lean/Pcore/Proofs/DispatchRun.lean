import Pcore.Proofs.DispatchDecl
/-!
From the builder calls of a whole table to the body that runs (helper lemmas of C16; the property theorems in
`Props/C16.lean` are these, restated).  Core Lean only.
-/
namespace Pcore.Dispatch

section
variable {T BT V B : Type}

theorem builder_inv (ops : List (BOp T BT)) (b : Builder T BT) (h : steps Builder.init ops = .ok b) :
    ParamInv b (paramsOf ops) ∧ BlockInv b (blocksOf ops) := by
  simpa using steps_inv ops Builder.init b [] [] paramInv_init blockInv_init h

theorem builder_arith (ops : List (BOp T BT)) (b : Builder T BT) (h : steps Builder.init ops = .ok b) :
    leMax b.min b.max = true ∧ b.types = (paramsOf ops).map (·.2) ∧ b.types.length = (paramsOf ops).length ∧
    b.min ≤ b.types.length ∧
    (∀ m, b.max = some m → m = b.types.length ∧ ∀ p ∈ paramsOf ops, p.1.repeated = false) ∧
    (b.max = none → ∃ pre p, paramsOf ops = pre ++ [p] ∧ p.1.repeated = true ∧ ∀ q ∈ pre, q.1.repeated = false) := by
  obtain ⟨⟨hty, a, o, tl, hk, hro, hmin, hmax⟩, _⟩ := builder_inv ops b h
  have hlen : (paramsOf ops).length = a + o + tl.kinds.length := by
    have := congrArg List.length hk
    simpa [shape_length] using this
  have htl : b.types.length = (paramsOf ops).length := by simp [hty]
  refine ⟨?_, hty, htl, ?_, ?_, ?_⟩
  · rw [hmin, hmax]; cases tl <;> simp [tailMin, tailMax, leMax]
  · rw [hmin, htl, hlen]; cases tl <;> simp [tailMin, Tail.kinds] <;> omega
  · intro m hm
    rw [hmax] at hm
    cases tl with
    | none =>
      simp [tailMax] at hm
      refine ⟨by rw [htl, hlen]; simp [Tail.kinds]; omega, ?_⟩
      intro p hp
      exact (shape_no_repeated (a := a) (o := o) (tl := .none)).mpr rfl p.1
        (by rw [← hk]; exact List.mem_map.mpr ⟨p, hp, rfl⟩)
    | rep => simp [tailMax] at hm
    | reqrep => simp [tailMax] at hm
  · intro hm
    rw [hmax] at hm
    have key : ∀ k : PKind, k.repeated = true →
        (paramsOf ops).map (·.1) = (List.replicate a .req ++ List.replicate o .opt) ++ [k] →
        ∃ pre p, paramsOf ops = pre ++ [p] ∧ p.1.repeated = true ∧ ∀ q ∈ pre, q.1.repeated = false := by
      intro k hkr hmap
      obtain ⟨l1, l2, hl, h1, h2⟩ := List.map_eq_append_iff.mp hmap
      obtain ⟨p, rfl, hp⟩ := List.map_eq_singleton_iff.mp h2
      refine ⟨l1, p, hl, by rw [hp]; exact hkr, ?_⟩
      intro q hq
      have : q.1 ∈ List.replicate a PKind.req ++ List.replicate o PKind.opt := by
        rw [← h1]; exact List.mem_map.mpr ⟨q, hq, rfl⟩
      simp at this
      rcases this with ⟨_, h'⟩ | ⟨_, h'⟩ <;> rw [h'] <;> rfl
    cases tl with
    | none => simp [tailMax] at hm
    | rep => exact key .rep rfl (by simpa [shapeKinds, Tail.kinds] using hk)
    | reqrep => exact key .reqrep rfl (by simpa [shapeKinds, Tail.kinds] using hk)

/-- `createDispatch` of an accepted builder state never reaches `NewIntegerType(min > max)` -/
theorem resolves (ops : List (BOp T BT)) (b : Builder T BT) (k : FnKind) (h : steps Builder.init ops = .ok b) :
    ∃ d, createDispatch b k = .ok d ∧ d.types = b.types ∧ d.min = b.min ∧ d.max = b.max := by
  have := (builder_arith ops b h).1
  simp [createDispatch, this]

variable (inst : T → V → Bool) (binst : BT → B → Bool)

theorem call_first (ds : List (Dispatch T BT)) (args : List V) (blk : Option B) (i : Nat)
    (h : call inst binst ds args blk = .ran i) :
    ∃ d, ds[i]? = some d ∧ callableWith inst binst d args blk = true ∧
      ∀ j, j < i → ∀ d', ds[j]? = some d' → callableWith inst binst d' args blk = false := by
  simpa using (callFrom_ran inst binst ds args blk 0 i h).2

theorem call_nomatch (ds : List (Dispatch T BT)) (args : List V) (blk : Option B) :
    (∀ d ∈ ds, callableWith inst binst d args blk = false) ↔ call inst binst ds args blk = .reported :=
  (callFrom_reported inst binst ds args blk 0).symm

/-- the tuple test of a dispatch built by an accepted builder sequence is the positional reading of the declaration -/
theorem built_decl (ops : List (BOp T BT)) (b : Builder T BT) (h : steps Builder.init ops = .ok b) (args : List V) :
    tupleInst inst b.types b.min b.max args = true ↔ DeclAccepts inst (paramsOf ops) args :=
  decl_iff inst b (paramsOf ops) (builder_inv ops b h).1 args

/-- the block requirement a creator declares: its (only) block call; `none` without one -/
def declaredBlock (c : Creator T BT) : BlockReq BT := (blocksOf c.ops).headD .none

/-- the arguments and the block satisfy the declaration written by creator `c` -/
def CreatorAccepts (c : Creator T BT) (args : List V) (blk : Option B) : Prop :=
  DeclAccepts inst (paramsOf c.ops) args ∧ BlockSat binst (declaredBlock c) blk

theorem buildOne_callable (c : Creator T BT) (b : Builder T BT) (hb : buildOne c = .ok b) :
    ∃ d, createDispatch b c.kind = .ok d ∧
      ∀ (args : List V) (blk : Option B), callableWith inst binst d args blk = true ↔ CreatorAccepts inst binst c args blk := by
  unfold buildOne at hb
  cases hs : steps Builder.init c.ops with
  | error p => simp [hs] at hb
  | ok b0 =>
    simp [hs] at hb
    have hb0 : b = b0 := by
      cases hk : c.kind <;> simp only [finish, hk] at hb <;> split at hb <;> first | (cases hb; rfl) | cases hb
    subst hb0
    obtain ⟨d, hd, hty, hmin, hmax⟩ := resolves c.ops b c.kind hs
    refine ⟨d, hd, ?_⟩
    intro args blk
    have hbi := (builder_inv c.ops b hs).2
    have hblock : d.block = declaredBlock c := by
      simp [createDispatch, (builder_arith c.ops b hs).1] at hd
      rw [← hd]
      unfold declaredBlock
      cases hk : c.kind with
      | fn =>
        simp [finish, hk] at hb
        rcases blockInv_cases hbi with ⟨h0, _, _⟩ | ⟨bt', _, h1, _⟩ | ⟨bt', _, h1, _⟩
        · simp [h0]
        · simp [h1] at hb
        · simp [h1] at hb
      | fn2 =>
        simp [finish, hk] at hb
        rcases blockInv_cases hbi with ⟨_, h1, _⟩ | ⟨bt', h0, h1, h2⟩ | ⟨bt', h0, h1, h2⟩
        · simp [h1] at hb
        · simp [h0, h1, h2]
        · simp [h0, h1, h2]
    unfold callableWith CreatorAccepts
    rw [Bool.and_eq_true, blockOK_iff, hty, hmin, hmax, hblock, built_decl inst c.ops b hs args]
    exact And.comm

theorem run_tables (cs : List (Creator T BT)) :
    (∃ p, buildAll cs = .error p) ∨
    ∃ bs ds, buildAll cs = .ok bs ∧ resolveAll bs = .ok ds ∧ ds.length = cs.length ∧
      ∀ (i : Nat) (c : Creator T BT) (d : Dispatch T BT), cs[i]? = some c → ds[i]? = some d →
        ∀ (args : List V) (blk : Option B), callableWith inst binst d args blk = true ↔ CreatorAccepts inst binst c args blk := by
  induction cs with
  | nil => right; exact ⟨[], [], rfl, rfl, rfl, by intro i c d h; simp at h⟩
  | cons c cs ih =>
    unfold buildAll
    cases hb : buildOne c with
    | error p => left; exact ⟨p, by simp⟩
    | ok b =>
      rcases ih with ⟨p, hp⟩ | ⟨bs, ds, hbs, hds, hlen, hall⟩
      · left; exact ⟨p, by simp [hp]⟩
      · right
        obtain ⟨d, hd, hcw⟩ := buildOne_callable inst binst c b hb
        refine ⟨(b, c.kind) :: bs, d :: ds, by simp [hbs], by simp [resolveAll, hd, hds], by simp [hlen], ?_⟩
        intro i c' d' hc' hd'
        cases i with
        | zero => simp at hc' hd'; subst hc' hd'; exact hcw
        | succ i' => simp at hc' hd'; exact hall i' c' d' hc' hd'

/-- the body that runs is that of the FIRST creator whose declaration the arguments and the block satisfy -/
theorem run_first (cs : List (Creator T BT)) (args : List V) (blk : Option B) (i : Nat)
    (h : run inst binst cs args blk = .called (.ran i)) :
    ∃ c, cs[i]? = some c ∧ CreatorAccepts inst binst c args blk ∧
      ∀ j, j < i → ∀ c', cs[j]? = some c' → ¬ CreatorAccepts inst binst c' args blk := by
  rcases run_tables inst binst cs with ⟨p, hp⟩ | ⟨bs, ds, hbs, hds, hlen, hall⟩
  · simp [run, hp] at h
  · simp [run, hbs, hds] at h
    obtain ⟨d, hd, hc, hearlier⟩ := call_first inst binst ds args blk i h
    have hi : i < cs.length := by
      rw [← hlen]; exact (List.getElem?_eq_some_iff.mp hd).1
    refine ⟨cs[i], by simp [hi], ?_, ?_⟩
    · exact (hall i cs[i] d (by simp [hi]) hd args blk).mp hc
    · intro j hj c' hc' hacc
      have hjl : j < ds.length := by rw [hlen]; omega
      have := hearlier j hj ds[j] (by simp [hjl])
      rw [(hall j c' ds[j] hc' (by simp [hjl]) args blk).mpr hacc] at this
      cases this

/-- an argument error is reported exactly when no declaration is satisfied -/
theorem run_nomatch (cs : List (Creator T BT)) (args : List V) (blk : Option B)
    (hacc : ∃ bs, buildAll cs = .ok bs) :
    run inst binst cs args blk = .called .reported ↔ ∀ c ∈ cs, ¬ CreatorAccepts inst binst c args blk := by
  rcases run_tables inst binst cs with ⟨p, hp⟩ | ⟨bs, ds, hbs, hds, hlen, hall⟩
  · obtain ⟨bs, hbs⟩ := hacc; simp [hp] at hbs
  · simp only [run, hbs, hds]
    constructor
    · intro h c hc hacc'
      have h' : call inst binst ds args blk = .reported := by simpa using h
      have hno := (call_nomatch inst binst ds args blk).mpr h'
      obtain ⟨i, hi, hci⟩ := List.getElem_of_mem hc
      have hil : i < ds.length := by rw [hlen]; exact hi
      have := hno ds[i] (List.getElem_mem hil)
      rw [(hall i c ds[i] (by simp [hi, hci]) (by simp [hil]) args blk).mpr hacc'] at this
      cases this
    · intro h
      have : call inst binst ds args blk = .reported := by
        apply (call_nomatch inst binst ds args blk).mp
        intro d hd
        obtain ⟨i, hi, hdi⟩ := List.getElem_of_mem hd
        have hil : i < cs.length := by rw [← hlen]; exact hi
        cases hcw : callableWith inst binst d args blk with
        | false => rfl
        | true =>
          exact absurd ((hall i cs[i] d (by simp [hil]) (by simp [hi, hdi]) args blk).mp hcw) (h cs[i] (List.getElem_mem hil))
      simp [this]

/-- an accepted table always resolves: the `NewIntegerType` error of `createDispatch` is unreachable -/
theorem run_no_fault (cs : List (Creator T BT)) (args : List V) (blk : Option B) (e : ResolveError) :
    run inst binst cs args blk ≠ .resolveFailed e := by
  rcases run_tables inst binst (V := V) (B := B) cs with ⟨p, hp⟩ | ⟨bs, ds, hbs, hds, _, _⟩
  · simp [run, hp]
  · simp [run, hbs, hds]

/-- a sequence of calls on one function object is the single-call semantics applied call by call -/
theorem callSeq_map (calls : List (List V × Option B)) : ∀ s : FnState T BT,
    callSeq inst binst s calls = calls.map fun c => call inst binst s.dispatchers c.1 c.2 := by
  induction calls with
  | nil => intro s; rfl
  | cons c rest ih => intro s; obtain ⟨a, b⟩ := c; simp [callSeq, callStep, ih]

end

end Pcore.Dispatch
