import Pcore.Proofs.LatGenVar
import Pcore.Proofs.LatReflAll
import Pcore.Proofs.LatFam
set_option linter.unusedSimpArgs false
set_option linter.unusedVariables false
/-! C04, corollary of C03 stage 4: `commonType` is an upper bound of its two arguments on the whole stage-4 fragment of transitivity
    (`Ty.TA`: every type but Unit; Struct only with the rule off) — every structural merge of `commonality.go` (Enum / String / Pattern /
    Integer / Float / Array / Tuple / Variant / Type / Iterable / NotUndef) and the tail.  The Tuple merge folds `commonType` over the
    declared types: the accumulator accepts the earlier ones only by TRANSITIVITY; the Variant merge keeps one of two `Equals` members,
    which accepts the other (`eq_asg_all`). -/
namespace Pcore.Lat
variable (cfg : Cfg) (sfh : Bool)

/-- what the induction carries: well-formed and inside the fragment of transitivity -/
def CG (t : Ty) : Prop := Ty.WF cfg t ∧ t.TA sfh

theorem cg_leaf (t : Ty) (h : match t with
    | .any | .undef | .dflt | .scalar | .scalarData | .numeric | .data | .richData | .str | .bin | .int _ | .float _ _ | .bool _
    | .tspan _ | .tstamp _ | .strSz _ | .strVal _ | .pattern _ | .regexp _ | .runtime _ _ _ | .coll _ | .object _ => True
    | _ => False) : CG cfg sfh t := by
  cases t <;> simp only [] at h <;> (first | contradiction | simp [CG, Ty.WF, Ty.TA])

theorem cg_tail (a b : Ty) : CG cfg sfh (commonTail cfg sfh a b) := by
  unfold commonTail
  split <;> (try exact cg_leaf cfg sfh _ trivial)
  split <;> (try exact cg_leaf cfg sfh _ trivial)
  split <;> (try exact cg_leaf cfg sfh _ trivial)
  split <;> (try exact cg_leaf cfg sfh _ trivial)
  split <;> exact cg_leaf cfg sfh _ trivial

/-- the statement about one `commonF` result -/
def CU (a b c : Ty) : Prop := CG cfg sfh c ∧ asg cfg sfh c a = true ∧ asg cfg sfh c b = true

theorem cu_tail (a b : Ty) : CU cfg sfh a b (commonTail cfg sfh a b) :=
  ⟨cg_tail cfg sfh a b, (tail_ub cfg sfh a b).1, (tail_ub cfg sfh a b).2⟩

theorem cg_not_unit {t : Ty} (h : CG cfg sfh t) : t.isUnit = false := by
  cases t <;> simp [Ty.isUnit]
  have := h.2; unfold Ty.TA at this; exact this

theorem cg_refl {t : Ty} (h : CG cfg sfh t) : asg cfg sfh t t = true := asg_refl_all cfg sfh t.w t (Nat.le_refl _) h.1

theorem cg_trans (hl : ∀ s, (cfg.lower s).length = s.length) {a b c : Ty} (ha : CG cfg sfh a) (hb : CG cfg sfh b) (hc : CG cfg sfh c)
    (h1 : asg cfg sfh a b = true) (h2 : asg cfg sfh b c = true) : asg cfg sfh a c = true :=
  transD cfg sfh hl a b c ha.2 hb.2 hc.2 ha.1 hb.1 hc.1 h1 h2

/-- the element fold of `TupleType.CommonElementType`: the accumulator accepts every type folded in, given an upper-bound `c` closed on `CG` -/
theorem foldl_ub (hl : ∀ s, (cfg.lower s).length = s.length) (c : Ty → Ty → Ty)
    (hc : ∀ a b, CG cfg sfh a → CG cfg sfh b → CU cfg sfh a b (c a b)) :
    ∀ (ts : List Ty) (acc : Ty), CG cfg sfh acc → (∀ t ∈ ts, CG cfg sfh t) →
      CG cfg sfh (ts.foldl c acc) ∧ asg cfg sfh (ts.foldl c acc) acc = true ∧ ∀ t ∈ ts, asg cfg sfh (ts.foldl c acc) t = true := by
  intro ts
  induction ts with
  | nil => intro acc ha _; exact ⟨ha, cg_refl cfg sfh ha, fun t ht => by cases ht⟩
  | cons t ts ih =>
    intro acc ha hts
    simp only [List.foldl_cons]
    have ht := hts t (by simp)
    obtain ⟨g1, u1, u2⟩ := hc acc t ha ht
    obtain ⟨g2, v1, v2⟩ := ih (c acc t) g1 (fun x hx => hts x (by simp [hx]))
    refine ⟨g2, cg_trans cfg sfh hl g2 g1 ha v1 u1, fun x hx => ?_⟩
    simp only [List.mem_cons] at hx
    rcases hx with rfl | hx
    · exact cg_trans cfg sfh hl g2 g1 ht v1 u2
    · exact v2 x hx

theorem foldCet_ub (hl : ∀ s, (cfg.lower s).length = s.length) (c : Ty → Ty → Ty)
    (hc : ∀ a b, CG cfg sfh a → CG cfg sfh b → CU cfg sfh a b (c a b)) (ts : List Ty) (hts : ∀ t ∈ ts, CG cfg sfh t) :
    CG cfg sfh (foldCet c ts) ∧ ∀ t ∈ ts, asg cfg sfh (foldCet c ts) t = true := by
  cases ts with
  | nil => exact ⟨cg_leaf cfg sfh _ trivial, fun t ht => by cases ht⟩
  | cons t ts =>
    simp only [foldCet]
    obtain ⟨g, u, v⟩ := foldl_ub cfg sfh hl c hc ts t (hts t (by simp)) (fun x hx => hts x (by simp [hx]))
    refine ⟨g, fun x hx => ?_⟩
    simp only [List.mem_cons] at hx
    rcases hx with rfl | hx
    · exact u
    · exact v x hx

theorem cg_array {e : Ty} {r : Rng} : CG cfg sfh (.array e r) ↔ CG cfg sfh e := by
  unfold CG; conv => lhs; unfold Ty.WF Ty.TA
theorem cg_typ {e : Ty} : CG cfg sfh (.typ e) ↔ CG cfg sfh e := by
  unfold CG; conv => lhs; unfold Ty.WF Ty.TA
theorem cg_iterable {e : Ty} : CG cfg sfh (.iterable e) ↔ CG cfg sfh e := by
  unfold CG; conv => lhs; unfold Ty.WF Ty.TA
theorem cg_iterator {e : Ty} : CG cfg sfh (.iterator e) ↔ CG cfg sfh e := by
  unfold CG; conv => lhs; unfold Ty.WF Ty.TA
theorem cg_notUndef {e : Ty} : CG cfg sfh (.notUndef e) ↔ CG cfg sfh e := by
  unfold CG; conv => lhs; unfold Ty.WF Ty.TA
theorem cg_variant {ts : List Ty} : CG cfg sfh (.variant ts) ↔ ∀ t ∈ ts, CG cfg sfh t := by
  unfold CG; conv => lhs; unfold Ty.WF Ty.TA
  constructor
  · rintro ⟨a, c⟩ t ht; exact ⟨a t ht, c t ht⟩
  · intro h; exact ⟨fun t ht => (h t ht).1, fun t ht => (h t ht).2⟩
theorem cg_tuple {ts : List Ty} {g : Option Rng} :
    CG cfg sfh (.tuple ts g) ↔ ((ts.length : Int) ≤ I64.max) ∧ ∀ t ∈ ts, CG cfg sfh t := by
  unfold CG; conv => lhs; unfold Ty.WF Ty.TA
  constructor
  · rintro ⟨a, l, c⟩; exact ⟨l, fun t ht => ⟨a t ht, c t ht⟩⟩
  · rintro ⟨l, h⟩; exact ⟨fun t ht => (h t ht).1, l, fun t ht => (h t ht).2⟩

theorem cg_mkVariant (us : List Ty) (h : ∀ u ∈ us, CG cfg sfh u) : CG cfg sfh (mkVariant us) := by
  cases us with
  | nil => simp only [mkVariant]; rw [cg_variant]; intro t ht; cases ht
  | cons u rest =>
    cases rest with
    | nil => simp only [mkVariant]; exact h u (by simp)
    | cons u' rest' => simp only [mkVariant]; rw [cg_variant]; exact h

/-- an Enum (case-insensitive or not) accepts an Enum whose values it lists (lower-cased when it ignores case) -/
theorem enum_recv_enum (ws vs : List String) (cj ci : Bool) (hws : ws ≠ []) (hvs : vs ≠ []) (hc : cj = true ∨ ci = false)
    (h : ∀ s ∈ vs, (if cj then cfg.lower s else s) ∈ ws) : asg cfg sfh (.enum ws cj) (.enum vs ci) = true := by
  apply viaRecv' cfg sfh rfl
  unfold asgRecv
  have h1 : ws.isEmpty = false := by cases ws <;> simp_all
  have h2 : vs.isEmpty = false := by cases vs <;> simp_all
  simp only [h1, h2, Bool.false_eq_true, if_false, Bool.not_false, Bool.true_and, Bool.and_eq_true, Bool.or_eq_true,
    Bool.not_eq_true', List.all_eq_true]
  refine ⟨hc, fun s hs => ?_⟩
  simp only [enumInst, h1, Bool.false_or, List.contains_iff_mem, List.elem_eq_mem, decide_eq_true_eq]
  exact h s hs

theorem enum_recv_strVal (ws : List String) (cj : Bool) (s : String) (hws : ws ≠ [])
    (h : (if cj then cfg.lower s else s) ∈ ws) : asg cfg sfh (.enum ws cj) (.strVal s) = true := by
  apply viaRecv' cfg sfh rfl
  unfold asgRecv
  have h1 : ws.isEmpty = false := by cases ws <;> simp_all
  simp only [h1, Bool.false_eq_true, if_false, enumInst, Bool.false_or, List.contains_iff_mem, List.elem_eq_mem, decide_eq_true_eq]
  exact h

/-- `NewEnumType` over a non-empty value list -/
theorem mkEnum_ne (us : List String) (cj : Bool) (h : us ≠ []) :
    mkEnum cfg us cj = .enum (if cj then us.map cfg.lower else us) cj := by
  unfold mkEnum
  have : us.isEmpty = false := by cases us <;> simp_all
  simp [this]

theorem mkEnum_vals_ne (us : List String) (cj : Bool) (h : us ≠ []) : (if cj then us.map cfg.lower else us) ≠ [] := by
  cases cj <;> simp [h]

theorem mkEnum_mem (us : List String) (cj : Bool) (s : String) (h : s ∈ us) :
    (if cj then cfg.lower s else s) ∈ (if cj then us.map cfg.lower else us) := by
  cases cj
  · simpa using h
  · simp only [if_true]; exact List.mem_map_of_mem h

theorem cg_mkEnum (hidem : ∀ s, cfg.lower (cfg.lower s) = cfg.lower s) (us : List String) (cj : Bool) : CG cfg sfh (mkEnum cfg us cj) := by
  unfold mkEnum
  split
  · simp [CG, Ty.WF, Ty.TA]
  · refine ⟨?_, by simp [Ty.TA]⟩
    unfold Ty.WF
    intro hcj x hx
    subst hcj
    simp only [if_true, List.mem_map] at hx
    obtain ⟨y, _, rfl⟩ := hx
    exact hidem y

theorem str_accepts (x : Ty) (hx : isStringFamily x = true) (hp : x.plainR = true) : asg cfg sfh .str x = true :=
  viaRecv' cfg sfh hp (by unfold asgRecv; exact hx)

theorem cu_str (a b : Ty) (ha : isStringFamily a = true) (hb : isStringFamily b = true) (pa : a.plainR = true) (pb : b.plainR = true) :
    CU cfg sfh a b .str :=
  ⟨cg_leaf cfg sfh _ trivial, str_accepts cfg sfh a ha pa, str_accepts cfg sfh b hb pb⟩

/-- `commonType` (with any fuel) is an upper bound of its arguments and stays inside the fragment -/
theorem common_all (hl : ∀ s, (cfg.lower s).length = s.length) (hidem : ∀ s, cfg.lower (cfg.lower s) = cfg.lower s) :
    ∀ (n : Nat) (a b : Ty), CG cfg sfh a → CG cfg sfh b → CU cfg sfh a b (commonF cfg sfh n a b) := by
  intro n
  induction n with
  | zero => intro a b _ _; unfold commonF; exact ⟨cg_leaf cfg sfh _ trivial, asg_any_l cfg sfh a, asg_any_l cfg sfh b⟩
  | succ n ih =>
    intro a b ha hb
    have ua := cg_not_unit cfg sfh ha
    have ub := cg_not_unit cfg sfh hb
    have ra := cg_refl cfg sfh ha
    have rb := cg_refl cfg sfh hb
    by_cases h1 : asg cfg sfh a b = true
    · unfold commonF; simp only [ua, ub, h1, Bool.false_eq_true, if_false, if_true]; exact ⟨ha, ra, h1⟩
    have h1' : asg cfg sfh a b = false := by cases h : asg cfg sfh a b <;> simp_all
    by_cases h2 : asg cfg sfh b a = true
    · unfold commonF; simp only [ua, ub, h1', h2, Bool.false_eq_true, if_false, if_true]; exact ⟨hb, h2, rb⟩
    have h2' : asg cfg sfh b a = false := by cases h : asg cfg sfh b a <;> simp_all
    have tl : CU cfg sfh a b (commonTail cfg sfh a b) := cu_tail cfg sfh a b
    unfold commonF
    simp only [ua, ub, h1', h2', Bool.false_eq_true, if_false]
    cases a <;> simp only [] <;> (try exact tl)
    case int r =>
      cases b <;> simp only [] <;> (try exact tl)
      rename_i r'
      exact ⟨cg_leaf cfg sfh _ trivial, viaRecv' cfg sfh rfl (by unfold asgRecv; exact hull_sub_l r r'),
        viaRecv' cfg sfh rfl (by unfold asgRecv; exact hull_sub_r r r')⟩
    case float l h =>
      cases b <;> simp only [] <;> (try exact tl)
      rename_i l' h'
      refine ⟨cg_leaf cfg sfh _ trivial, ?_, ?_⟩
      · exact viaRecv' cfg sfh rfl (by
          unfold asgRecv; simp only [Bool.and_eq_true, decide_eq_true_eq]
          exact ⟨Fl.effLo_mono (Int.min_le_left _ _), Fl.effHi_mono (Int.le_max_left _ _)⟩)
      · exact viaRecv' cfg sfh rfl (by
          unfold asgRecv; simp only [Bool.and_eq_true, decide_eq_true_eq]
          exact ⟨Fl.effLo_mono (Int.min_le_right _ _), Fl.effHi_mono (Int.le_max_right _ _)⟩)
    case strSz r =>
      cases b <;> simp only [] <;> (try exact tl)
      · exact cu_str cfg sfh _ _ rfl rfl rfl rfl
      · rename_i r'
        unfold mkStr
        split
        · exact cu_str cfg sfh _ _ rfl rfl rfl rfl
        · exact ⟨cg_leaf cfg sfh _ trivial, viaRecv' cfg sfh rfl (by unfold asgRecv; exact hull_sub_l r r'),
            viaRecv' cfg sfh rfl (by unfold asgRecv; exact hull_sub_r r r')⟩
      · exact cu_str cfg sfh _ _ rfl rfl rfl rfl
      · exact cu_str cfg sfh _ _ rfl rfl rfl rfl
    case strVal s =>
      cases b <;> simp only [] <;> (try exact tl)
      · exact cu_str cfg sfh _ _ rfl rfl rfl rfl
      · exact cu_str cfg sfh _ _ rfl rfl rfl rfl
      · rename_i s'
        exact ⟨by simp [CG, Ty.WF, Ty.TA], enum_has cfg sfh _ s (by simp), enum_has cfg sfh _ s' (by simp)⟩
      · rename_i vs' ci'
        obtain ⟨g, l, r⟩ := ih (.enum vs' ci') (.strVal s) hb ha
        exact ⟨g, r, l⟩
    case enum vs ci =>
      -- the default Enum accepts every string type, so in the string sub-cases the value list is not empty
      have hvs : ∀ b', isStringFamily b' = true → b'.plainR = true → asg cfg sfh (.enum vs ci) b' = false → vs ≠ [] := by
        intro b' hf hp hn hv; subst hv
        rw [viaRecv' cfg sfh hp (by unfold asgRecv; simp [hf])] at hn; cases hn
      cases b <;> simp only [] <;> (try exact tl)
      · exact cu_str cfg sfh _ _ rfl rfl rfl rfl
      · exact cu_str cfg sfh _ _ rfl rfl rfl rfl
      · rename_i s
        have hv := hvs _ rfl rfl h1'
        have hne : (vs ++ [s]).eraseDups ≠ [] := by
          intro h; have : s ∈ (vs ++ [s]).eraseDups := List.mem_eraseDups.2 (by simp); rw [h] at this; cases this
        refine ⟨cg_mkEnum cfg sfh hidem _ _, ?_, ?_⟩
        · rw [mkEnum_ne cfg _ _ hne]
          apply enum_recv_enum cfg sfh _ vs ci ci (mkEnum_vals_ne cfg _ _ hne) hv (by cases ci <;> simp)
          intro x hx; exact mkEnum_mem cfg _ _ x (List.mem_eraseDups.2 (by simp [hx]))
        · rw [mkEnum_ne cfg _ _ hne]
          exact enum_recv_strVal cfg sfh _ ci s (mkEnum_vals_ne cfg _ _ hne) (mkEnum_mem cfg _ _ s (List.mem_eraseDups.2 (by simp)))
      · rename_i vs' ci'
        have hv := hvs _ rfl rfl h1'
        have hv' : vs' ≠ [] := by
          intro hv'; subst hv'
          rw [viaRecv' cfg sfh rfl (by unfold asgRecv; simp [isStringFamily])] at h2'; cases h2'
        have hne : (vs ++ vs').eraseDups ≠ [] := by
          intro h
          cases vs with
          | nil => exact hv rfl
          | cons x xs => have : x ∈ ((x :: xs) ++ vs').eraseDups := List.mem_eraseDups.2 (by simp); rw [h] at this; cases this
        refine ⟨cg_mkEnum cfg sfh hidem _ _, ?_, ?_⟩
        · rw [mkEnum_ne cfg _ _ hne]
          apply enum_recv_enum cfg sfh _ vs (ci || ci') ci (mkEnum_vals_ne cfg _ _ hne) hv (by cases ci <;> cases ci' <;> simp)
          intro x hx; exact mkEnum_mem cfg _ _ x (List.mem_eraseDups.2 (by simp [hx]))
        · rw [mkEnum_ne cfg _ _ hne]
          apply enum_recv_enum cfg sfh _ vs' (ci || ci') ci' (mkEnum_vals_ne cfg _ _ hne) hv' (by cases ci <;> cases ci' <;> simp)
          intro x hx; exact mkEnum_mem cfg _ _ x (List.mem_eraseDups.2 (by simp [hx]))
    case pattern rs =>
      cases b <;> simp only [] <;> (try exact tl)
      rename_i rs'
      have hr : rs ≠ [] := by
        intro h; subst h
        rw [viaRecv' cfg sfh rfl (by unfold asgRecv; simp)] at h1'; cases h1'
      have hr' : rs' ≠ [] := by
        intro h; subst h
        rw [viaRecv' cfg sfh rfl (by unfold asgRecv; simp)] at h2'; cases h2'
      have key : ∀ xs : List String, xs ≠ [] → (∀ x ∈ xs, x ∈ (rs ++ rs').eraseDups) →
          asg cfg sfh (.pattern (rs ++ rs').eraseDups) (.pattern xs) = true := by
        intro xs hx hsub
        apply viaRecv' cfg sfh rfl
        unfold asgRecv
        have : xs.isEmpty = false := by cases xs <;> simp_all
        simp only [this, Bool.not_false, Bool.true_and, Bool.or_eq_true]
        right
        simp only [subsetStr, List.all_eq_true, List.contains_iff_mem, List.elem_eq_mem, decide_eq_true_eq]
        exact hsub
      exact ⟨cg_leaf cfg sfh _ trivial, key rs hr (fun x hx => List.mem_eraseDups.2 (by simp [hx])),
        key rs' hr' (fun x hx => List.mem_eraseDups.2 (by simp [hx]))⟩
    case array e r =>
      cases b <;> simp only [] <;> (try exact tl)
      rename_i e' r'
      obtain ⟨g, u1, u2⟩ := ih e e' ((cg_array cfg sfh).1 ha) ((cg_array cfg sfh).1 hb)
      refine ⟨(cg_array cfg sfh).2 g, ?_, ?_⟩
      · apply viaRecv' cfg sfh rfl
        unfold asgRecv
        simp [hull_sub_l, u1]
      · apply viaRecv' cfg sfh rfl
        unfold asgRecv
        simp [hull_sub_r, u2]
    case tuple ts g =>
      cases b <;> simp only [] <;> (try exact tl)
      rename_i ts' g'
      obtain ⟨la, hts⟩ := (cg_tuple cfg sfh).1 ha
      obtain ⟨lb, hts'⟩ := (cg_tuple cfg sfh).1 hb
      obtain ⟨gf, uf⟩ := foldCet_ub cfg sfh hl (commonF cfg sfh n) ih ts hts
      obtain ⟨gf', uf'⟩ := foldCet_ub cfg sfh hl (commonF cfg sfh n) ih ts' hts'
      obtain ⟨gc, c1, c2⟩ := ih _ _ gf gf'
      have key : ∀ (xs : List Ty) (gx : Option Rng) (F : Ty) (rr : Rng), rr.sub (tupleSize xs gx) = true → CG cfg sfh F →
          (∀ t ∈ xs, CG cfg sfh t) → (xs = [] → F = .any) →
          (∀ t ∈ xs, asg cfg sfh F t = true) → asg cfg sfh (commonF cfg sfh n (foldCet (commonF cfg sfh n) ts) (foldCet (commonF cfg sfh n) ts')) F = true →
          asg cfg sfh (.array (commonF cfg sfh n (foldCet (commonF cfg sfh n) ts) (foldCet (commonF cfg sfh n) ts')) rr) (.tuple xs gx) = true := by
        intro xs gx F rr hsub gF hxs hemp hall hcF
        apply viaRecv' cfg sfh rfl
        unfold asgRecv
        simp only [hsub, Bool.true_and]
        split
        · rfl
        · split
          · rename_i he
            have : xs = [] := by simpa [List.isEmpty_iff] using he
            rw [hemp this] at hcF; exact hcF
          · rename_i he
            have hne : xs ≠ [] := by intro h; subst h; simp at he
            rw [tupZipL_iff cfg sfh _ xs _ hne]
            intro j t _ hget
            have hm := List.mem_of_getElem? hget
            exact cg_trans cfg sfh hl gc gF (hxs t hm) hcF (hall t hm)
      refine ⟨(cg_array cfg sfh).2 gc, ?_, ?_⟩
      · exact key ts g _ _ (hull_sub_l _ _) gf hts (fun h => by subst h; rfl) uf c1
      · exact key ts' g' _ _ (hull_sub_r _ _) gf' hts' (fun h => by subst h; rfl) uf' c2
    case variant ts =>
      cases b <;> simp only [] <;> (try exact tl)
      rename_i ts'
      have hts := (cg_variant cfg sfh).1 ha
      have hts' := (cg_variant cfg sfh).1 hb
      have hall : ∀ t ∈ ts ++ ts', CG cfg sfh t := by
        intro t ht; simp only [List.mem_append] at ht
        rcases ht with ht | ht
        · exact hts t ht
        · exact hts' t ht
      have gres : CG cfg sfh (mkVariant (uniqueTy (ts ++ ts'))) :=
        cg_mkVariant cfg sfh _ (fun u hu => hall u (uniqueTy_sub _ u hu))
      have acc : ∀ t ∈ ts ++ ts', asg cfg sfh (mkVariant (uniqueTy (ts ++ ts'))) t = true := by
        intro t ht
        rcases uniqueTy_cover (ts ++ ts') t ht with hk | ⟨s, hs, hse⟩
        · exact mkVariant_accepts cfg sfh _ _ hk t (cg_refl cfg sfh (hall t ht))
        · have hs' := hall s (uniqueTy_sub _ s hs)
          exact mkVariant_accepts cfg sfh _ _ hs t (eq_asg_all cfg sfh _ s t (Nat.le_refl _) hs'.1 (hall t ht).1 hse).1
      refine ⟨gres, ?_, ?_⟩
      · rw [asg_variant_r]; simp only [Bool.or_eq_true]; right
        rw [asgAllR_iff]
        exact fun t ht => acc t (by simp [ht])
      · rw [asg_variant_r]; simp only [Bool.or_eq_true]; right
        rw [asgAllR_iff]
        exact fun t ht => acc t (by simp [ht])
    case notUndef x =>
      cases b <;> simp only [] <;> (try exact tl)
      rename_i y
      obtain ⟨g, u1, u2⟩ := ih x y ((cg_notUndef cfg sfh).1 ha) ((cg_notUndef cfg sfh).1 hb)
      exact ⟨(cg_notUndef cfg sfh).2 g, mono_notUndef cfg sfh _ _ u1, mono_notUndef cfg sfh _ _ u2⟩
    case typ x =>
      cases b <;> simp only [] <;> (try exact tl)
      rename_i y
      obtain ⟨g, u1, u2⟩ := ih x y ((cg_typ cfg sfh).1 ha) ((cg_typ cfg sfh).1 hb)
      exact ⟨(cg_typ cfg sfh).2 g, mono_typ cfg sfh _ _ u1, mono_typ cfg sfh _ _ u2⟩
    case iterable x =>
      cases b <;> simp only [] <;> (try exact tl)
      rename_i y
      obtain ⟨g, u1, u2⟩ := ih x y ((cg_iterable cfg sfh).1 ha) ((cg_iterable cfg sfh).1 hb)
      exact ⟨(cg_iterable cfg sfh).2 g, mono_iterable cfg sfh _ _ u1, mono_iterable cfg sfh _ _ u2⟩
    case runtime rt nm pt =>
      -- `commonType(Runtime[rt, ..], Runtime[rt', ..])` = `Runtime[rt]` when the runtimes agree, else the default Runtime
      cases b <;> simp only [] <;> (try exact tl)
      rename_i rt' nm' pt'
      by_cases e : rt = rt'
      · subst e
        simp only [beq_self_eq_true, if_true]
        exact ⟨cg_leaf cfg sfh _ trivial, viaRecv' cfg sfh rfl (by rw [recv_runtime_eq]; exact rtAcc_runtime rt nm pt),
          viaRecv' cfg sfh rfl (by rw [recv_runtime_eq]; exact rtAcc_runtime rt nm' pt')⟩
      · have hne : (rt == rt') = false := by simpa using e
        simp only [hne, Bool.false_eq_true, if_false]
        exact ⟨cg_leaf cfg sfh _ trivial, viaRecv' cfg sfh rfl (by rw [recv_runtime_eq]; exact rtAcc_default rt nm pt),
          viaRecv' cfg sfh rfl (by rw [recv_runtime_eq]; exact rtAcc_default rt' nm' pt')⟩
    case iterator x =>
      cases b <;> simp only [] <;> (try exact tl)
      rename_i y
      obtain ⟨g, u1, u2⟩ := ih x y ((cg_iterator cfg sfh).1 ha) ((cg_iterator cfg sfh).1 hb)
      exact ⟨(cg_iterator cfg sfh).2 g, mono_iterator cfg sfh _ _ u1, mono_iterator cfg sfh _ _ u2⟩

end Pcore.Lat
