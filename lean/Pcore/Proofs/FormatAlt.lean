import Pcore.Proofs.FormatRef
/-! Alt-mode (`#`) container layout: a pretty-printer written directly — nesting level, "an enclosing format indents",
    "this value is not the first thing on its level" as plain parameters; line-break decisions by looking at the previous
    element — and the proof that the model of `ToString2` (with its `Indentation` objects: Indenting / Increase /
    Subsequent / IsFirst / Breaks, and the first-element state of the element loop) computes exactly that, for values of
    any depth and any mixture of alt and non-alt container formats. -/
namespace Pcore.Format

/-- a line break followed by the indentation of level `L` -/
def newLine (L : Nat) : Str := '\n' :: spaces (2 * L)

/-- what precedes an element that is not the first: the separator, then a line break at the elements' level when the
    element is not a container and (the array is broken by size, or the previous element is a container in alt mode);
    a blank otherwise — except that in alt mode nothing precedes a container (it brings its own line break) -/
def ppGlue (f : Fmt) (L : Nat) (szBreak : Bool) (prev : Bool) (e : Str × Bool) : Str :=
  f.sep.getD [','] ++
  (if !e.2 && (szBreak || (f.alt && prev)) then newLine L else if !(f.alt && e.2) then [' '] else []) ++ e.1

/-- the elements of an array at level `L` -/
def ppElems (f : Fmt) (L : Nat) (parts : List (Str × Bool)) : Str :=
  match parts with
  | [] => []
  | e :: rest =>
    (if szBreakOf f parts && !e.2 then [' '] else []) ++ e.1 ++
    (List.zipWith (ppGlue f L (szBreakOf f parts)) ((e :: rest).map (·.2)) rest).flatten

/-- an array at level `L`: it starts on a new line when it (or an enclosing format) indents, it is nested and not the
    first thing on its level -/
def ppArray (f : Fmt) (L : Nat) (inh nested : Bool) (parts : List (Str × Bool)) : Str :=
  (if (f.alt || inh) && decide (L > 0) && nested then newLine L else []) ++
  (delimPair f.ldelim '[').1 ++ ppElems f (L + 1) parts ++ (delimPair f.ldelim '[').2

/-- a hash at level `L`: in alt mode one entry per line at level `L + 1`, the closing delimiter on its own line -/
def ppHash (f : Fmt) (L : Nat) (inh nested : Bool) (parts : List (Str × Str)) : Str :=
  (if (f.alt || inh) && decide (L > 0) && nested then newLine L else []) ++
  (delimPair f.ldelim '{').1 ++ (if f.alt then ['\n'] else []) ++
  (f.sep.getD [','] ++ (if f.alt then ['\n'] else [' '])).intercalate
    (parts.map (fun p => (if f.alt then spaces (2 * (L + 1)) else []) ++ p.1 ++ f.sep2.getD " => ".toList ++ p.2)) ++
  (if f.alt then newLine L else []) ++ (delimPair f.ldelim '{').2

mutual
/-- the pretty-printer: `L` nesting level, `inh` the enclosing container format is alt, `nested` not the first on its level -/
def refPP (io : FloatIO) (m : FMap) (L : Nat) (inh nested : Bool) : Val → Res
  | .array vs =>
    let f := (getFormat m .arr).f
    if !isArrayLetter f.letter then .reported .unsupported
    else match refPPElems io m (cfOf (getFormat m .arr)) (L + 1) f.alt vs with
      | .ok parts => .text (ppArray f L inh nested parts)
      | .err e => e
  | .hash es =>
    let f := (getFormat m .hash).f
    if !isHashLetter f.letter then .reported .unsupported
    else match refPPPairs io m (cfOf (getFormat m .hash)) (L + 1) f.alt es with
      | .ok parts => .text (ppHash f L inh nested parts)
      | .err e => e
  | .undef => fmtUndef (getFormat m .undef).f
  | .dflt => fmtDefault (getFormat m .dflt).f
  | .bool b => fmtBool io (getFormat m .bool).f b
  | .int i => fmtInt io (getFormat m .int).f i
  | .float bits => fmtFloat io (getFormat m .float).f bits
  | .str s => fmtStr (getFormat m .str).f s
  | .regexp src => fmtRegexp (getFormat m .regexp).f src
  | .binary bs u => fmtBinary (getFormat m .bin).f bs u
/-- the elements of an array: each is "nested" (the element loop has seen the first position) -/
def refPPElems (io : FloatIO) (m cf : FMap) (L : Nat) (inh : Bool) : List Val → ResL (Str × Bool)
  | [] => .ok []
  | v :: vs => ResL.cons (refPP io (if v.isContainer then m else cf) L inh true v) (fun s => (s, v.isContainer))
      (fun _ => refPPElems io m cf L inh vs)
/-- the keys and values of a hash: each is the first thing after its indentation -/
def refPPPairs (io : FloatIO) (m cf : FMap) (L : Nat) (inh : Bool) : List Entry → ResL (Str × Str)
  | [] => .ok []
  | .mk k v :: es =>
    match refPP io (if k.isContainer then m else cf) L inh false k with
    | .text sk => ResL.cons (refPP io (if v.isContainer then m else cf) L inh false v) (fun sv => (sk, sv))
        (fun _ => refPPPairs io m cf L inh es)
    | e => .err e
end

/-! ### the assemblers of the model are the pretty-printer's -/

theorem arrayRest_zip (f : Fmt) (L : Nat) (szBreak : Bool) :
    ∀ (rest : List (Str × Bool)) (prev : Bool),
      arrayRest f (f.sep.getD [',']) (spaces (2 * L)) szBreak rest prev =
        (List.zipWith (ppGlue f L szBreak) (prev :: rest.map (·.2)) rest).flatten
  | [], _ => by simp [arrayRest]
  | (s, ah) :: rest, prev => by
    simp only [arrayRest, List.map_cons, List.zipWith_cons_cons, List.flatten_cons, arrayRest_zip f L szBreak rest ah]
    simp [ppGlue, newLine, List.append_assoc]

theorem arrayAssemble_pp (f : Fmt) (L : Nat) (inh nested : Bool) (parts : List (Str × Bool)) :
    arrayAssemble f ⟨!nested, inh, L⟩ parts = ppArray f L inh nested parts := by
  unfold arrayAssemble ppArray ppElems
  simp only [Ind.withIndenting, Ind.breaks, Ind.increase, Ind.padding, Bool.not_not]
  cases parts with
  | nil => simp [newLine]
  | cons e rest =>
    obtain ⟨s, ah⟩ := e
    simp only [arrayRest_zip, newLine, List.map_cons]
    simp [List.append_assoc]

theorem hashEntries_pad (assoc sep pad : Str) : ∀ (parts : List (Str × Str)),
    hashEntries assoc sep pad parts = sep.intercalate (parts.map (fun p => pad ++ p.1 ++ assoc ++ p.2))
  | [] => by simp [hashEntries, List.intercalate]
  | [(k, v)] => by simp [hashEntries, List.intercalate]
  | (k, v) :: p2 :: rest => by
    have ih := hashEntries_pad assoc sep pad (p2 :: rest)
    rw [hashEntries, ih]
    simp only [List.map_cons, intercalate_cons]
    simp
    all_goals (intro h; cases h)

theorem hashAssemble_pp (f : Fmt) (L : Nat) (inh nested : Bool) (parts : List (Str × Str)) :
    hashAssemble f ⟨!nested, inh, L⟩ parts = ppHash f L inh nested parts := by
  unfold hashAssemble ppHash
  simp only [Ind.withIndenting, Ind.breaks, Ind.increase, Ind.padding, Bool.not_not, hashEntries_pad, newLine]
  cases f.alt <;> simp [List.append_assoc]

theorem arrayChildInd_eq (f : Fmt) (a b : Bool) (L : Nat) : arrayChildInd f ⟨a, b, L⟩ = ⟨!true, f.alt, L + 1⟩ := by
  simp [arrayChildInd, Ind.increase, Ind.subsequent, Ind.withIndenting]

theorem hashChildInd_eq (f : Fmt) (a b : Bool) (L : Nat) : hashChildInd f ⟨a, b, L⟩ = ⟨!false, f.alt, L + 1⟩ := by
  simp [hashChildInd, Ind.increase, Ind.withIndenting]

theorem refPP_scalar (io : FloatIO) (m : FMap) (ind : Ind) (L : Nat) (inh nested : Bool) (v : Val)
    (hv : v.isContainer = false) : fmtVal io m ind v = refPP io m L inh nested v := by
  cases v <;> first | rfl | (simp [Val.isContainer] at hv)

theorem cons_congr {α : Type} (r : Res) (mk : Str → α) (r1 r2 : Unit → ResL α) (h : r1 () = r2 ()) :
    ResL.cons r mk r1 = ResL.cons r mk r2 := by
  unfold ResL.cons; cases r <;> simp [h]

mutual
/-- **alt and non-alt containers, recursively**: the model of `ToString2` with its Indentation objects is the
    pretty-printer, for values of any depth under any per-type format map (Hash format other than `a`) -/
theorem fmtVal_pp (io : FloatIO) : ∀ (v : Val) (m : FMap) (L : Nat) (inh nested : Bool),
    (getFormat m .hash).f.letter ≠ 'a' → fmtVal io m ⟨!nested, inh, L⟩ v = refPP io m L inh nested v
  | .undef, _, _, _, _, _ => rfl
  | .dflt, _, _, _, _, _ => rfl
  | .bool _, _, _, _, _, _ => rfl
  | .int _, _, _, _, _, _ => rfl
  | .float _, _, _, _, _, _ => rfl
  | .str _, _, _, _, _, _ => rfl
  | .regexp _, _, _, _, _, _ => rfl
  | .binary _ _, _, _, _, _, _ => rfl
  | .array vs, m, L, inh, nested, hp => by
    have ih := fmtElems_pp io vs m (cfOf (getFormat m .arr)) (L + 1) (getFormat m .arr).f.alt hp
    simp only [fmtVal, refPP, arrayChildInd_eq, ih]
    split
    · rfl
    · cases refPPElems io m (cfOf (getFormat m .arr)) (L + 1) (getFormat m .arr).f.alt vs with
      | ok parts => simp only; rw [arrayAssemble_pp]
      | err e => rfl
  | .hash es, m, L, inh, nested, hp => by
    have ih := fmtPairs_pp io es m (cfOf (getFormat m .hash)) (L + 1) (getFormat m .hash).f.alt hp
    simp only [fmtVal, refPP, if_neg hp, hashChildInd_eq, ih]
    split
    · rfl
    · cases refPPPairs io m (cfOf (getFormat m .hash)) (L + 1) (getFormat m .hash).f.alt es with
      | ok parts => simp only; rw [hashAssemble_pp]
      | err e => rfl

theorem fmtElems_pp (io : FloatIO) : ∀ (vs : List Val) (m cf : FMap) (L : Nat) (inh : Bool),
    (getFormat m .hash).f.letter ≠ 'a' → fmtElems io m cf ⟨!true, inh, L⟩ vs = refPPElems io m cf L inh vs
  | [], _, _, _, _, _ => by simp [fmtElems, refPPElems]
  | v :: vs, m, cf, L, inh, hp => by
    have ih := fmtElems_pp io vs m cf L inh hp
    have hv : fmtVal io (if v.isContainer then m else cf) ⟨!true, inh, L⟩ v = refPP io (if v.isContainer then m else cf) L inh true v := by
      by_cases hc : v.isContainer = true
      · simp only [hc, if_true]; exact fmtVal_pp io v m L inh true hp
      · simp only [hc]; exact refPP_scalar io cf _ L inh true v (by simpa using hc)
    simp only [fmtElems, refPPElems, hv]
    exact cons_congr _ _ _ _ ih

theorem fmtPairs_pp (io : FloatIO) : ∀ (es : List Entry) (m cf : FMap) (L : Nat) (inh : Bool),
    (getFormat m .hash).f.letter ≠ 'a' → fmtPairs io m cf ⟨!false, inh, L⟩ es = refPPPairs io m cf L inh es
  | [], _, _, _, _, _ => by simp [fmtPairs, refPPPairs]
  | .mk k v :: es, m, cf, L, inh, hp => by
    have ih := fmtPairs_pp io es m cf L inh hp
    have hk : fmtVal io (if k.isContainer then m else cf) ⟨!false, inh, L⟩ k = refPP io (if k.isContainer then m else cf) L inh false k := by
      by_cases hc : k.isContainer = true
      · simp only [hc, if_true]; exact fmtVal_pp io k m L inh false hp
      · simp only [hc]; exact refPP_scalar io cf _ L inh false k (by simpa using hc)
    have hv : fmtVal io (if v.isContainer then m else cf) ⟨!false, inh, L⟩ v = refPP io (if v.isContainer then m else cf) L inh false v := by
      by_cases hc : v.isContainer = true
      · simp only [hc, if_true]; exact fmtVal_pp io v m L inh false hp
      · simp only [hc]; exact refPP_scalar io cf _ L inh false v (by simpa using hc)
    simp only [fmtPairs, refPPPairs, hk, hv, ih]
    cases refPP io (if k.isContainer = true then m else cf) L inh false k <;> rfl
end

/-- an error result never carries a text -/
def ErrOK {α : Type} (r : ResL α) : Prop := ∀ e, r = .err e → ∀ s, e ≠ .text s

theorem errOK_cons {α : Type} (r : Res) (mk : Str → α) (rest : Unit → ResL α) (h : ErrOK (rest ())) :
    ErrOK (ResL.cons r mk rest) := by
  intro e he s
  unfold ResL.cons at he
  cases r with
  | text x =>
    simp only at he
    cases hr : rest () with
    | ok xs => rw [hr] at he; cases he
    | err e' => rw [hr] at he; cases he; exact h e hr s
  | reported c => cases he; simp
  | fault k => cases he; simp

theorem refPPElems_errOK (io : FloatIO) (m cf : FMap) (L : Nat) (inh : Bool) : ∀ vs, ErrOK (refPPElems io m cf L inh vs)
  | [] => by intro e he; simp [refPPElems] at he
  | v :: vs => by simp only [refPPElems]; exact errOK_cons _ _ _ (refPPElems_errOK io m cf L inh vs)

theorem refPPPairs_errOK (io : FloatIO) (m cf : FMap) (L : Nat) (inh : Bool) : ∀ es, ErrOK (refPPPairs io m cf L inh es)
  | [] => by intro e he; simp [refPPPairs] at he
  | .mk k v :: es => by
    simp only [refPPPairs]
    split
    · exact errOK_cons _ _ _ (refPPPairs_errOK io m cf L inh es)
    · rename_i e hne
      intro e' he' s
      cases he'
      intro h; exact hne s h

/-- **the line-break law**: a container that indents (its own format is alt, or the enclosing one is), nested at a
    level > 0 and not the first thing on its level, is written as a line break, the indentation of its level, and then
    exactly what it is when it is the first thing -/
theorem refPP_lead (io : FloatIO) (m : FMap) (L : Nat) (inh : Bool) (v : Val) (hL : 0 < L)
    (hind : match v with
      | .array _ => ((getFormat m .arr).f.alt || inh) = true
      | .hash _ => ((getFormat m .hash).f.alt || inh) = true
      | _ => False) :
    refPP io m L inh true v = (refPP io m L inh false v).bind (fun s => .text (newLine L ++ s)) := by
  cases v with
  | array vs =>
    simp only at hind
    simp only [refPP]
    split
    · rfl
    · have hok := refPPElems_errOK io m (cfOf (getFormat m .arr)) (L + 1) (getFormat m .arr).f.alt vs
      cases hr : refPPElems io m (cfOf (getFormat m .arr)) (L + 1) (getFormat m .arr).f.alt vs with
      | ok parts => simp [Res.bind, ppArray, hind, hL, List.append_assoc]
      | err e =>
        cases e with
        | text s => exact absurd rfl (hok _ hr s)
        | reported c => rfl
        | fault k => rfl
  | hash es =>
    simp only at hind
    simp only [refPP]
    split
    · rfl
    · have hok := refPPPairs_errOK io m (cfOf (getFormat m .hash)) (L + 1) (getFormat m .hash).f.alt es
      cases hr : refPPPairs io m (cfOf (getFormat m .hash)) (L + 1) (getFormat m .hash).f.alt es with
      | ok parts => simp [Res.bind, ppHash, hind, hL, List.append_assoc]
      | err e =>
        cases e with
        | text s => exact absurd rfl (hok _ hr s)
        | reported c => rfl
        | fault k => rfl
  | _ => exact absurd hind id

end Pcore.Format
