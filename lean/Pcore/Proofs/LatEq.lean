import Pcore.Proofs.LatMono
set_option linter.unusedSimpArgs false
set_option linter.unusedVariables false
/-! C03: types that are `Equals` accept each other. -/
namespace Pcore.Lat
variable (cfg : Cfg) (sfh : Bool)

theorem tyEqL_get (as bs : List Ty) (hlen : as.length = bs.length) (h : tyEqL as bs = true) :
    ∀ (i : Nat) (a b : Ty), as[i]? = some a → bs[i]? = some b → tyEq a b = true := by
  induction as generalizing bs with
  | nil => intro i a b ha; simp at ha
  | cons a0 as ih =>
    cases bs with
    | nil => simp at hlen
    | cons b0 bs =>
      unfold tyEqL at h
      simp only [Bool.and_eq_true] at h
      intro i a b ha hb
      cases i with
      | zero => simp at ha hb; subst ha; subst hb; exact h.1
      | succ j => simp at ha hb; exact ih bs (by simpa using hlen) h.2 j a b ha hb

theorem tyEqAny_iff (bs : List Ty) (a : Ty) : tyEqAny bs a = true ↔ ∃ b ∈ bs, tyEq b a = true := by
  induction bs with
  | nil => unfold tyEqAny; simp
  | cons b bs ih => unfold tyEqAny; simp [ih]

theorem tyEqIncl_iff (as bs : List Ty) : tyEqIncl as bs = true ↔ ∀ a ∈ as, ∃ b ∈ bs, tyEq b a = true := by
  induction as with
  | nil => unfold tyEqIncl; simp
  | cons a as ih => unfold tyEqIncl; simp [ih, tyEqAny_iff]

/-- pointwise equal member lists: same names, same optionality, `Equals` value types, position by position -/
theorem tyEqM_spec (as bs : List Member) (hlen : as.length = bs.length) (h : tyEqM as bs = true) :
    as.map (·.1) = bs.map (·.1) ∧
    ∀ m ∈ as, ∃ m' ∈ bs, m'.1 = m.1 ∧ m'.2.1 = m.2.1 ∧ tyEq m.2.2 m'.2.2 = true := by
  induction as generalizing bs with
  | nil => cases bs with
    | nil => simp
    | cons _ _ => simp at hlen
  | cons a0 as ih =>
    cases bs with
    | nil => simp at hlen
    | cons b0 bs =>
      obtain ⟨n, o, t⟩ := a0
      obtain ⟨n', o', t'⟩ := b0
      unfold tyEqM at h
      simp only [Bool.and_eq_true, beq_iff_eq] at h
      obtain ⟨⟨⟨hn, ho⟩, ht⟩, hrest⟩ := h
      obtain ⟨h1, h2⟩ := ih bs (by simpa using hlen) hrest
      refine ⟨by simp [hn, h1], ?_⟩
      intro m hm
      simp only [List.mem_cons] at hm
      rcases hm with rfl | hm
      · exact ⟨(n', o', t'), by simp, hn.symm, ho.symm, ht⟩
      · obtain ⟨m', hm', x⟩ := h2 m hm
        exact ⟨m', by simp [hm'], x⟩

theorem enum_eq_asg (vs vs' : List String) (ci : Bool) (hwf : ci = true → ∀ x ∈ vs', cfg.lower x = x)
    (hlen : vs.length = vs'.length) (hsub : subsetStr vs' vs = true) :
    asgRecv cfg sfh (.enum vs ci) (.enum vs' ci) = true := by
  unfold asgRecv
  by_cases he : vs.isEmpty = true
  · simp [he, isStringFamily]
  · have he' : vs.isEmpty = false := by simpa using he
    have hne' : vs'.isEmpty = false := by
      cases vs' with
      | nil => simp at hlen; simp [hlen] at he'
      | cons _ _ => rfl
    simp only [he', Bool.false_eq_true, if_false, Bool.and_eq_true, Bool.not_eq_true', Bool.or_eq_true, List.all_eq_true]
    refine ⟨⟨hne', by cases ci <;> simp⟩, fun s hs => ?_⟩
    simp only [enumInst, he', Bool.false_or]
    simp only [subsetStr, List.all_eq_true] at hsub
    cases ci with
    | false => simpa using hsub s hs
    | true => simp only [if_true]; rw [hwf rfl s hs]; exact hsub s hs

theorem struct_eq_asg (ms ms' : List Member) (hn : NamesNodup ms) (hn' : NamesNodup ms')
    (hnames : ms.map (·.1) = ms'.map (·.1))
    (hall : ∀ m ∈ ms, ∃ m' ∈ ms', m'.1 = m.1 ∧ m'.2.1 = m.2.1 ∧ asg cfg sfh m.2.2 m'.2.2 = true) :
    asgRecv cfg sfh (.struct ms) (.struct ms') = true := by
  unfold asgRecv
  simp only [beq_iff_eq]
  rw [distinctCount_nodup _ hn', structAll_iff cfg sfh _ _ hn']
  constructor
  · intro m hm
    obtain ⟨m', hm', h1, h2, h3⟩ := hall m hm
    rw [SMemberOK, structMember_mem cfg sfh m.1 m.2.1 m.2.2 _ hn' m' hm' h1]
    simp [h2, h3]
  · rw [sFound_eq _ _ hn, List.length_map]
    symm
    apply List.countP_eq_length.2
    intro m' hm'
    simp only [nameIn, List.any_eq_true]
    have : m'.1 ∈ ms.map (·.1) := by rw [hnames]; exact List.mem_map_of_mem hm'
    simp only [List.mem_map] at this
    obtain ⟨m, hm, hmn⟩ := this
    exact ⟨m, hm, (nameIs_iff _ _).2 hmn.symm⟩

theorem viaR {a b : Ty} (hb : b.plainR = true) (h : asgRecv cfg sfh a b = true) : asg cfg sfh a b = true := by
  rw [asg_plain_r cfg sfh a b hb, h]; simp

theorem eq_asg : ∀ (n : Nat) (a b : Ty), a.w + b.w ≤ n → Ty.WF cfg a → Ty.WF cfg b → a.NoAlias → b.NoAlias →
    tyEq a b = true → asg cfg sfh a b = true ∧ asg cfg sfh b a = true := by
  intro n
  induction n with
  | zero => intro a b h; have := Ty.w_pos a; omega
  | succ n ih =>
    intro a b hw wa wb na nb h
    have same : a = b → asg cfg sfh a b = true ∧ asg cfg sfh b a = true := by
      intro hab; subst hab
      have := asg_refl cfg sfh a.w a (Nat.le_refl _) wa na
      exact ⟨this, this⟩
    unfold tyEq at h
    cases a with
    | any => cases b <;> simp at h; exact same rfl
    | unit => cases b <;> simp at h; exact same rfl
    | callable p r k =>
      cases b <;> simp only [] at h <;> (first | contradiction | skip)
      rename_i p' r' k'
      unfold Ty.WF at wa wb; unfold Ty.NoAlias at na nb; simp only [Ty.w, Ty.wo] at hw
      simp only [Bool.and_eq_true] at h
      obtain ⟨⟨h1, h2⟩, h3⟩ := h
      have part : ∀ (x y : Option Ty), (match x, y with | none, none => true | some a, some b => tyEq a b | _, _ => false) = true →
          Ty.wo x + Ty.wo y ≤ n → (match x with | none => True | some t' => Ty.WF cfg t') → (match y with | none => True | some t' => Ty.WF cfg t') →
          (match x with | none => True | some t' => Ty.NoAlias t') → (match y with | none => True | some t' => Ty.NoAlias t') →
          (x = none ∧ y = none) ∨ ∃ a b, x = some a ∧ y = some b ∧ asg cfg sfh a b = true ∧ asg cfg sfh b a = true := by
        intro x y hxy hwxy wx wy nx ny
        cases x <;> cases y <;> simp only [] at hxy <;> (first | contradiction | skip)
        · left; exact ⟨rfl, rfl⟩
        · rename_i a b; right; simp only [Ty.wo] at hwxy
          exact ⟨a, b, rfl, rfl, ih a b (by omega) wx wy nx ny hxy⟩
      have := callAcc_of_parts cfg sfh p r k p' r' k' (part p p' h1 (by omega) wa.1 wb.1 na.1 nb.1)
        (part r r' h2 (by omega) wa.2.1 wb.2.1 na.2.1 nb.2.1) (part k k' h3 (by omega) wa.2.2 wb.2.2 na.2.2 nb.2.2)
      exact ⟨viaR cfg sfh rfl (by rw [recv_callable_eq]; exact this.1), viaR cfg sfh rfl (by rw [recv_callable_eq]; exact this.2)⟩
    | undef => cases b <;> simp at h; exact same rfl
    | dflt => cases b <;> simp at h; exact same rfl
    | scalar => cases b <;> simp at h; exact same rfl
    | scalarData => cases b <;> simp at h; exact same rfl
    | numeric => cases b <;> simp at h; exact same rfl
    | data => cases b <;> simp at h; exact same rfl
    | richData => cases b <;> simp at h; exact same rfl
    | str => cases b <;> simp at h; exact same rfl
    | bin => cases b <;> simp at h; exact same rfl
    | int r => cases b <;> simp at h; subst h; exact same rfl
    | float lo hi => cases b <;> simp at h; obtain ⟨h1, h2⟩ := h; subst h1; subst h2; exact same rfl
    | bool v => cases b <;> simp at h; subst h; exact same rfl
    | tspan r => cases b <;> simp at h; subst h; exact same rfl
    | tstamp r => cases b <;> simp at h; subst h; exact same rfl
    | strSz r => cases b <;> simp at h; subst h; exact same rfl
    | strVal s => cases b <;> simp at h; subst h; exact same rfl
    | regexp s => cases b <;> simp at h; subst h; exact same rfl
    | runtime rt nm pt =>
      cases b <;> simp only [] at h <;> (first | contradiction | skip)
      rename_i rt' nm' pt'
      have := rtAcc_of_eq h
      exact ⟨viaR cfg sfh rfl (by rw [recv_runtime_eq]; exact this.1), viaR cfg sfh rfl (by rw [recv_runtime_eq]; exact this.2)⟩
    | coll r => cases b <;> simp at h; subst h; exact same rfl
    | object p => cases b <;> simp at h; subst h; exact same rfl
    | enum vs ci =>
      cases b <;> simp only [] at h <;> (first | contradiction | skip)
      rename_i vs' ci'
      simp only [Bool.and_eq_true, beq_iff_eq] at h
      obtain ⟨⟨⟨hci, hlen⟩, h1⟩, h2⟩ := h
      subst hci
      unfold Ty.WF at wa wb
      exact ⟨viaR cfg sfh rfl (enum_eq_asg cfg sfh vs vs' ci wb hlen h1),
             viaR cfg sfh rfl (enum_eq_asg cfg sfh vs' vs ci wa hlen.symm h2)⟩
    | pattern rs =>
      cases b <;> simp only [] at h <;> (first | contradiction | skip)
      rename_i rs'
      simp only [Bool.and_eq_true, beq_iff_eq] at h
      obtain ⟨⟨hlen, h1⟩, h2⟩ := h
      have key : ∀ (xs ys : List String), xs.length = ys.length → subsetStr ys xs = true →
          asgRecv cfg sfh (.pattern xs) (.pattern ys) = true := by
        intro xs ys hl hs
        unfold asgRecv
        by_cases he : xs.isEmpty = true
        · simp [he]
        · have he' : xs.isEmpty = false := by simpa using he
          have : ys.isEmpty = false := by
            cases ys with
            | nil => simp at hl; simp [hl] at he'
            | cons _ _ => rfl
          simp [he', this, hs]
      exact ⟨viaR cfg sfh rfl (key rs rs' hlen h2), viaR cfg sfh rfl (key rs' rs hlen.symm h1)⟩
    | array e r =>
      cases b <;> simp only [] at h <;> (first | contradiction | skip)
      rename_i e' r'
      simp only [Bool.and_eq_true, beq_iff_eq] at h
      obtain ⟨hr, he⟩ := h
      subst hr
      unfold Ty.WF at wa wb; unfold Ty.NoAlias at na nb
      simp only [Ty.w] at hw
      obtain ⟨h1, h2⟩ := ih e e' (by omega) wa wb na nb he
      exact ⟨viaR cfg sfh rfl (by unfold asgRecv; simp [Rng.sub_refl, h1]),
             viaR cfg sfh rfl (by unfold asgRecv; simp [Rng.sub_refl, h2])⟩
    | hash k v r =>
      cases b <;> simp only [] at h <;> (first | contradiction | skip)
      rename_i k' v' r'
      simp only [Bool.and_eq_true, beq_iff_eq] at h
      obtain ⟨⟨hr, hk⟩, hv⟩ := h
      subst hr
      unfold Ty.WF at wa wb; unfold Ty.NoAlias at na nb
      simp only [Ty.w] at hw
      obtain ⟨k1, k2⟩ := ih k k' (by omega) wa.1 wb.1 na.1 nb.1 hk
      obtain ⟨v1, v2⟩ := ih v v' (by omega) wa.2 wb.2 na.2 nb.2 hv
      exact ⟨viaR cfg sfh rfl (by unfold asgRecv; simp [Rng.sub_refl, k1, v1]),
             viaR cfg sfh rfl (by unfold asgRecv; simp [Rng.sub_refl, k2, v2])⟩
    | typ t =>
      cases b <;> simp only [] at h <;> (first | contradiction | skip)
      rename_i t'
      unfold Ty.WF at wa wb; unfold Ty.NoAlias at na nb
      simp only [Ty.w] at hw
      obtain ⟨h1, h2⟩ := ih t t' (by omega) wa wb na nb h
      exact ⟨mono_typ cfg sfh t t' h1, mono_typ cfg sfh t' t h2⟩
    | sensitive t =>
      cases b <;> simp only [] at h <;> (first | contradiction | skip)
      rename_i t'
      unfold Ty.WF at wa wb; unfold Ty.NoAlias at na nb
      simp only [Ty.w] at hw
      obtain ⟨h1, h2⟩ := ih t t' (by omega) wa wb na nb h
      exact ⟨mono_sensitive cfg sfh t t' h1, mono_sensitive cfg sfh t' t h2⟩
    | iterator t =>
      cases b <;> simp only [] at h <;> (first | contradiction | skip)
      rename_i t'
      unfold Ty.WF at wa wb; unfold Ty.NoAlias at na nb
      simp only [Ty.w] at hw
      obtain ⟨h1, h2⟩ := ih t t' (by omega) wa wb na nb h
      exact ⟨mono_iterator cfg sfh t t' h1, mono_iterator cfg sfh t' t h2⟩
    | iterable t =>
      cases b <;> simp only [] at h <;> (first | contradiction | skip)
      rename_i t'
      unfold Ty.WF at wa wb; unfold Ty.NoAlias at na nb
      simp only [Ty.w] at hw
      obtain ⟨h1, h2⟩ := ih t t' (by omega) wa wb na nb h
      exact ⟨mono_iterable cfg sfh t t' h1, mono_iterable cfg sfh t' t h2⟩
    | optional t =>
      cases b <;> simp only [] at h <;> (first | contradiction | skip)
      rename_i t'
      unfold Ty.WF at wa wb; unfold Ty.NoAlias at na nb
      simp only [Ty.w] at hw
      obtain ⟨h1, h2⟩ := ih t t' (by omega) wa wb na nb h
      exact ⟨mono_optional cfg sfh t t' (Ty.NoAlias.noAliasR t'.w t' (Nat.le_refl _) nb) h1,
             mono_optional cfg sfh t' t (Ty.NoAlias.noAliasR t.w t (Nat.le_refl _) na) h2⟩
    | notUndef t =>
      cases b <;> simp only [] at h <;> (first | contradiction | skip)
      rename_i t'
      unfold Ty.WF at wa wb; unfold Ty.NoAlias at na nb
      simp only [Ty.w] at hw
      obtain ⟨h1, h2⟩ := ih t t' (by omega) wa wb na nb h
      exact ⟨mono_notUndef cfg sfh t t' h1, mono_notUndef cfg sfh t' t h2⟩
    | variant ts =>
      cases b <;> simp only [] at h <;> (first | contradiction | skip)
      rename_i ts'
      simp only [Bool.and_eq_true, beq_iff_eq] at h
      obtain ⟨⟨_, h1⟩, h2⟩ := h
      unfold Ty.WF at wa wb; unfold Ty.NoAlias at na nb
      simp only [Ty.w] at hw
      rw [tyEqIncl_iff] at h1 h2
      constructor
      · -- every member of ts' is Equals to (hence accepted by) a member of ts
        rw [asg_variant_r]; simp only [Bool.or_eq_true]; right
        rw [asgAllR_iff]
        intro t' hm'
        obtain ⟨t, hm, he⟩ := h2 t' hm'
        have hwt := Ty.w_lt_wl hm; have hwt' := Ty.w_lt_wl hm'
        obtain ⟨x, _⟩ := ih t t' (by omega) (wa t hm) (wb t' hm') (na t hm) (nb t' hm') he
        exact weaken_variant cfg sfh t ts hm t' (Ty.NoAlias.noAliasR t'.w t' (Nat.le_refl _) (nb t' hm')) x
      · rw [asg_variant_r]; simp only [Bool.or_eq_true]; right
        rw [asgAllR_iff]
        intro t hm
        obtain ⟨t', hm', he⟩ := h1 t hm
        have hwt := Ty.w_lt_wl hm; have hwt' := Ty.w_lt_wl hm'
        obtain ⟨x, _⟩ := ih t' t (by omega) (wb t' hm') (wa t hm) (nb t' hm') (na t hm) he
        exact weaken_variant cfg sfh t' ts' hm' t (Ty.NoAlias.noAliasR t.w t (Nat.le_refl _) (na t hm)) x
    | tuple ts g =>
      cases b <;> simp only [] at h <;> (first | contradiction | skip)
      rename_i ts' g'
      simp only [Bool.and_eq_true, beq_iff_eq] at h
      obtain ⟨⟨hlen, hsz⟩, hl⟩ := h
      unfold Ty.WF at wa wb; unfold Ty.NoAlias at na nb
      simp only [Ty.w] at hw
      have hget := tyEqL_get ts ts' hlen hl
      have key : ∀ (xs ys : List Ty) (gx gy : Option Rng), xs.length = ys.length → tupleSize xs gx = tupleSize ys gy →
          (∀ (i : Nat) (x y : Ty), xs[i]? = some x → ys[i]? = some y → asg cfg sfh x y = true) →
          asgRecv cfg sfh (.tuple xs gx) (.tuple ys gy) = true := by
        intro xs ys gx gy hl hs hp
        unfold asgRecv
        simp only [hs, Rng.sub_refl, Bool.true_and, Bool.or_eq_true]
        by_cases hx : xs = []
        · left; simp [hx]
        · right
          have hy : ys ≠ [] := by intro hy; subst hy; simp at hl; exact hx hl
          have hne : ¬ (ys.isEmpty = true) := by simp [List.isEmpty_iff, hy]
          rw [if_neg hne, tupZip_iff cfg sfh xs ys _ hx hy]
          intro i x y _ _ hxi hyi
          rw [hl] at hxi
          exact hp _ x y hxi hyi
      constructor
      · apply viaR cfg sfh rfl
        apply key ts ts' g g' hlen hsz
        intro i x y hx hy
        have hmx := List.mem_of_getElem? hx; have hmy := List.mem_of_getElem? hy
        have := Ty.w_lt_wl hmx; have := Ty.w_lt_wl hmy
        exact (ih x y (by omega) (wa x hmx) (wb y hmy) (na x hmx) (nb y hmy) (hget i x y hx hy)).1
      · apply viaR cfg sfh rfl
        apply key ts' ts g' g hlen.symm hsz.symm
        intro i y x hy hx
        have hmx := List.mem_of_getElem? hx; have hmy := List.mem_of_getElem? hy
        have := Ty.w_lt_wl hmx; have := Ty.w_lt_wl hmy
        exact (ih x y (by omega) (wa x hmx) (wb y hmy) (na x hmx) (nb y hmy) (hget i x y hx hy)).2
    | struct ms =>
      cases b <;> simp only [] at h <;> (first | contradiction | skip)
      rename_i ms'
      simp only [Bool.and_eq_true, beq_iff_eq] at h
      obtain ⟨hlen, hm⟩ := h
      unfold Ty.WF at wa wb; unfold Ty.NoAlias at na nb
      simp only [Ty.w] at hw
      obtain ⟨hnames, hall⟩ := tyEqM_spec ms ms' hlen hm
      constructor
      · apply viaR cfg sfh rfl
        apply struct_eq_asg cfg sfh ms ms' wa.1 wb.1 hnames
        intro m hmm
        obtain ⟨m', hm', h1, h2, h3⟩ := hall m hmm
        have := Ty.w_lt_wm hmm; have := Ty.w_lt_wm hm'
        exact ⟨m', hm', h1, h2, (ih m.2.2 m'.2.2 (by omega) (wa.2 m hmm) (wb.2 m' hm') (na m hmm) (nb m' hm') h3).1⟩
      · apply viaR cfg sfh rfl
        apply struct_eq_asg cfg sfh ms' ms wb.1 wa.1 hnames.symm
        intro m' hm'
        -- the partner of m' : by names (pairwise different on both sides)
        have : m'.1 ∈ ms.map (·.1) := by rw [hnames]; exact List.mem_map_of_mem hm'
        simp only [List.mem_map] at this
        obtain ⟨m, hmm, hmn⟩ := this
        obtain ⟨m2, hm2, h1, h2, h3⟩ := hall m hmm
        have hm2eq : m2 = m' := by
          have := mem_unique_name wb.1 hm' hm2 (by rw [h1, hmn])
          exact this
        subst hm2eq
        have := Ty.w_lt_wm hmm; have := Ty.w_lt_wm hm'
        exact ⟨m, hmm, h1.symm, h2.symm, (ih m.2.2 m2.2.2 (by omega) (wa.2 m hmm) (wb.2 m2 hm2) (na m hmm) (nb m2 hm2) h3).2⟩

end Pcore.Lat
