import Pcore.Proofs.LatWeaken
import Pcore.Proofs.LatRuntime
import Pcore.Proofs.LatCallable
import Pcore.Proofs.LatStruct
set_option linter.unusedSimpArgs false
set_option linter.unusedVariables false
/-! Reflexivity of `asg` (C03). -/
namespace Pcore.Lat
variable (cfg : Cfg) (sfh : Bool)

/-- hereditarily no `Data` / `RichData` below a Variant / Optional / NotUndef (where the left-weakening principle is applied) -/
def Ty.NoAlias (t : Ty) : Prop :=
  match t with
  | .data | .richData => False
  | .array e _ => Ty.NoAlias e
  | .hash k v _ => Ty.NoAlias k ∧ Ty.NoAlias v
  | .tuple ts _ => ∀ t', ∀ (_ : t' ∈ ts), Ty.NoAlias t'
  | .struct ms => ∀ m, ∀ (_ : m ∈ ms), Ty.NoAlias m.2.2
  | .variant ts => ∀ t', ∀ (_ : t' ∈ ts), Ty.NoAlias t'
  | .optional t' | .notUndef t' | .sensitive t' | .iterator t' | .typ t' | .iterable t' => Ty.NoAlias t'
  | .callable p r k =>
      (match p with | none => True | some t' => Ty.NoAlias t') ∧ (match r with | none => True | some t' => Ty.NoAlias t') ∧
      (match k with | none => True | some t' => Ty.NoAlias t')
  | _ => True
termination_by t.w
decreasing_by
  all_goals simp_wf
  all_goals (try simp only [Ty.w, Ty.wl, Ty.wm, Ty.wo] at *)
  all_goals first
    | omega
    | (have := Ty.w_lt_wl ‹_ ∈ _›; omega)
    | (have := Ty.w_lt_wm ‹_ ∈ _›; omega)

theorem Ty.NoAlias.noAliasR : ∀ (n : Nat) (t : Ty), t.w ≤ n → t.NoAlias → t.NoAliasR := by
  intro n
  induction n with
  | zero => intro t h; have := Ty.w_pos t; omega
  | succ n ih =>
    intro t hw h
    cases t <;> unfold Ty.NoAliasR <;> (try trivial)
    · unfold Ty.NoAlias at h; exact h
    · unfold Ty.NoAlias at h; exact h
    · rename_i ts
      unfold Ty.NoAlias at h; simp only [Ty.w] at hw
      exact fun t' hm => ih t' (by have := Ty.w_lt_wl hm; omega) (h t' hm)
    · unfold Ty.NoAlias at h; simp only [Ty.w] at hw; exact ih _ (by omega) h
    · unfold Ty.NoAlias at h; simp only [Ty.w] at hw; exact ih _ (by omega) h

theorem Rng.sub_refl (r : Rng) : r.sub r = true := by simp [Rng.sub]

theorem isPrefix_refl (p : List Nat) : isPrefix p p = true := by
  induction p with
  | nil => rfl
  | cons a as ih => simp [isPrefix, ih]

/-- does not accept Undef: every type it decomposes into on the right does not either -/
theorem nu_accepts (x : Ty) : ∀ (n : Nat) (b : Ty), b.w ≤ n → asg cfg sfh b .undef = false → asg cfg sfh x b = true →
    asg cfg sfh (.notUndef x) b = true := by
  intro n
  induction n with
  | zero => intro b h; have := Ty.w_pos b; omega
  | succ n ih =>
    intro b hw hu h
    have plain : b.plainR = true → asg cfg sfh (.notUndef x) b = true := by
      intro hp
      rw [asg_plain_r cfg sfh _ b hp]
      simp only [Bool.or_eq_true]; right
      unfold asgRecv
      cases b <;> simp [Ty.plainR] at hp <;> simp [hu, h]
    cases b with
    | unit => exact asg_unit_r cfg sfh _
    | optional ot =>
      exfalso
      rw [asg_plain_r cfg sfh _ .undef rfl] at hu
      simp [Ty.isAny, sameNullary] at hu
      unfold asgRecv at hu
      simp [asg_undef_undef] at hu
    | data =>
      exfalso
      rw [asg_plain_r cfg sfh _ .undef rfl] at hu
      simp [Ty.isAny, sameNullary] at hu
      unfold asgRecv at hu
      simp [asg_undef_undef] at hu
    | richData =>
      exfalso
      rw [asg_plain_r cfg sfh _ .undef rfl] at hu
      simp [Ty.isAny, sameNullary] at hu
      unfold asgRecv at hu
      simp [asg_undef_undef] at hu
    | variant bs =>
      simp only [Ty.w] at hw
      have hmem : ∀ t ∈ bs, asg cfg sfh t .undef = false := by
        intro t hm
        cases hh : asg cfg sfh t .undef with
        | false => rfl
        | true =>
          exfalso
          rw [asg_plain_r cfg sfh _ .undef rfl] at hu
          simp [Ty.isAny, sameNullary] at hu
          unfold asgRecv at hu
          have : asgAnyL cfg sfh bs .undef = true := (asgAnyL_iff cfg sfh bs .undef).2 ⟨t, hm, hh⟩
          rw [this] at hu; cases hu
      have hall : ∀ t ∈ bs, asg cfg sfh x t = true := by
        rw [asg_variant_r] at h
        simp only [Bool.or_eq_true] at h
        rcases h with h | h
        · exact fun t _ => asg_of_isAny cfg sfh h t
        · exact (asgAllR_iff cfg sfh x bs).1 h
      rw [asg_variant_r]
      simp only [Bool.or_eq_true]; right
      rw [asgAllR_iff]
      exact fun t hm => ih t (by have := Ty.w_lt_wl hm; omega) (hmem t hm) (hall t hm)
    | notUndef nt =>
      simp only [Ty.w] at hw
      rw [asg_notUndef_r]
      simp only [Bool.or_eq_true]; right
      by_cases hc : asg cfg sfh nt .undef = true
      · simp only [hc, Bool.not_true, Bool.false_eq_true, if_false]
        unfold asgRecv
        simp [h]
      · have hc' : asg cfg sfh nt .undef = false := by cases hh : asg cfg sfh nt .undef <;> simp_all
        simp only [hc', Bool.not_false, if_true]
        have h1 : asg cfg sfh x nt = true := by
          rw [asg_notUndef_r] at h
          simp only [Bool.or_eq_true] at h
          rcases h with h | h
          · exact asg_of_isAny cfg sfh h _
          · simpa [hc'] using h
        exact ih nt (by omega) hc' h1
    | _ => exact plain rfl

theorem structAll_refl (ms : List Member) (hn : NamesNodup ms) (hr : ∀ m ∈ ms, asg cfg sfh m.2.2 m.2.2 = true) :
    structAll cfg sfh ms ms = some (distinctCount (ms.map (·.1))) := by
  rw [distinctCount_nodup _ hn, structAll_iff cfg sfh ms ms hn]
  constructor
  · intro m hm
    rw [SMemberOK, structMember_mem cfg sfh m.1 m.2.1 m.2.2 ms hn m hm rfl]
    simp [hr m hm]
  · rw [sFound_eq ms ms hn, List.length_map]
    symm
    apply List.countP_eq_length.2
    intro m hm
    simp only [nameIn, List.any_eq_true]
    exact ⟨m, hm, (nameIs_iff _ _).2 rfl⟩

theorem asg_refl : ∀ (n : Nat) (a : Ty), a.w ≤ n → Ty.WF cfg a → a.NoAlias → asg cfg sfh a a = true := by
  intro n
  induction n with
  | zero => intro a h; have := Ty.w_pos a; omega
  | succ n ih =>
    intro a hw hwf hna
    have viaRecv : a.plainR = true → asgRecv cfg sfh a a = true → asg cfg sfh a a = true := by
      intro hp h; rw [asg_plain_r cfg sfh a a hp, h]; simp
    cases a with
    | any => exact asg_any_l cfg sfh _
    | unit => exact asg_unit_r cfg sfh _
    | callable p r k =>
      unfold Ty.WF at hwf; unfold Ty.NoAlias at hna; simp only [Ty.w, Ty.wo] at hw
      apply viaRecv rfl; rw [recv_callable_eq]
      apply callAcc_refl
      · intro t ht; subst ht; simp only [Ty.wo] at hw; exact ih t (by omega) hwf.1 hna.1
      · intro t ht; subst ht; simp only [Ty.wo] at hw; exact ih t (by omega) hwf.2.1 hna.2.1
      · intro t ht; subst ht; simp only [Ty.wo] at hw; exact ih t (by omega) hwf.2.2 hna.2.2
    | undef => exact asg_undef_undef cfg sfh
    | dflt => rw [asg_plain_r cfg sfh _ _ rfl]; simp [sameNullary]
    | scalar => rw [asg_plain_r cfg sfh _ _ rfl]; simp [sameNullary]
    | scalarData => rw [asg_plain_r cfg sfh _ _ rfl]; simp [sameNullary]
    | numeric => rw [asg_plain_r cfg sfh _ _ rfl]; simp [sameNullary]
    | data => unfold Ty.NoAlias at hna; exact absurd hna id
    | richData => unfold Ty.NoAlias at hna; exact absurd hna id
    | str => rw [asg_plain_r cfg sfh _ _ rfl]; simp [sameNullary]
    | bin => rw [asg_plain_r cfg sfh _ _ rfl]; simp [sameNullary]
    | int r => apply viaRecv rfl; unfold asgRecv; simp [Rng.sub]
    | float lo hi => apply viaRecv rfl; unfold asgRecv; simp
    | bool b => apply viaRecv rfl; unfold asgRecv; cases b <;> simp
    | tspan r => apply viaRecv rfl; unfold asgRecv; simp [Rng.sub]
    | tstamp r => apply viaRecv rfl; unfold asgRecv; simp [Rng.sub]
    | strSz r => apply viaRecv rfl; unfold asgRecv; simp [Rng.sub]
    | strVal s => apply viaRecv rfl; unfold asgRecv; simp
    | enum vs ci =>
      apply viaRecv rfl; unfold asgRecv
      unfold Ty.WF at hwf
      by_cases he : vs.isEmpty = true
      · simp [he, isStringFamily]
      · simp only [he, Bool.false_eq_true, if_false]
        simp only [Bool.and_eq_true, Bool.not_eq_true', Bool.or_eq_true, List.all_eq_true]
        refine ⟨⟨by simpa using he, by cases ci <;> simp⟩, ?_⟩
        intro s hs
        simp only [enumInst, Bool.or_eq_true]
        right
        cases ci with
        | false => simpa using hs
        | true => simp [hwf rfl s hs, hs]
    | pattern rs =>
      apply viaRecv rfl; unfold asgRecv
      by_cases he : rs.isEmpty = true
      · simp [he]
      · simp [he, subsetStr]
    | regexp s => apply viaRecv rfl; unfold asgRecv; simp
    | runtime rt nm pt => apply viaRecv rfl; rw [recv_runtime_eq]; exact rtAcc_refl rt nm pt
    | coll r => apply viaRecv rfl; unfold asgRecv; simp [Rng.sub]
    | array e r =>
      unfold Ty.WF at hwf; unfold Ty.NoAlias at hna; simp only [Ty.w] at hw
      apply viaRecv rfl; unfold asgRecv
      simp [Rng.sub_refl, ih e (by omega) hwf hna]
    | hash k v r =>
      unfold Ty.WF at hwf; unfold Ty.NoAlias at hna; simp only [Ty.w] at hw
      apply viaRecv rfl; unfold asgRecv
      simp [Rng.sub_refl, ih k (by omega) hwf.1 hna.1, ih v (by omega) hwf.2 hna.2]
    | tuple ts g =>
      unfold Ty.WF at hwf; unfold Ty.NoAlias at hna; simp only [Ty.w] at hw
      apply viaRecv rfl; unfold asgRecv
      simp only [Rng.sub_refl, Bool.true_and, Bool.or_eq_true]
      by_cases hts : ts = []
      · left; simp [hts]
      · right
        have hne : ¬ (ts.isEmpty = true) := by simp [List.isEmpty_iff, hts]
        rw [if_neg hne, tupZip_iff cfg sfh ts ts _ hts hts]
        intro i a b _ _ ha hb
        rw [ha] at hb; cases hb
        have hm : a ∈ ts := List.mem_of_getElem? ha
        exact ih a (by have := Ty.w_lt_wl hm; omega) (hwf a hm) (hna a hm)
    | struct ms =>
      unfold Ty.WF at hwf; unfold Ty.NoAlias at hna; simp only [Ty.w] at hw
      apply viaRecv rfl; unfold asgRecv
      simp only [beq_iff_eq]
      exact structAll_refl cfg sfh ms hwf.1 (fun m hm => ih m.2.2 (by have := Ty.w_lt_wm hm; omega) (hwf.2 m hm) (hna m hm))
    | variant ts =>
      unfold Ty.WF at hwf; unfold Ty.NoAlias at hna; simp only [Ty.w] at hw
      rw [asg_variant_r]
      simp only [Bool.or_eq_true]; right
      rw [asgAllR_iff]
      intro t hm
      have hwt : t.w ≤ n := by have := Ty.w_lt_wl hm; omega
      exact weaken_variant cfg sfh t ts hm t (Ty.NoAlias.noAliasR t.w t (Nat.le_refl _) (hna t hm)) (ih t hwt (hwf t hm) (hna t hm))
    | optional x =>
      unfold Ty.WF at hwf; unfold Ty.NoAlias at hna; simp only [Ty.w] at hw
      rw [asg_optional_r]
      simp only [Bool.or_eq_true, Bool.and_eq_true]; right
      constructor
      · rw [asg_plain_r cfg sfh _ .undef rfl]
        simp only [Bool.or_eq_true]; right
        unfold asgRecv; simp [asg_undef_undef]
      · exact weaken_optional cfg sfh x x (Ty.NoAlias.noAliasR x.w x (Nat.le_refl _) hna) (ih x (by omega) hwf hna)
    | notUndef x =>
      unfold Ty.WF at hwf; unfold Ty.NoAlias at hna; simp only [Ty.w] at hw
      have hx := ih x (by omega) hwf hna
      rw [asg_notUndef_r]
      simp only [Bool.or_eq_true]; right
      by_cases hc : asg cfg sfh x .undef = true
      · simp only [hc, Bool.not_true, Bool.false_eq_true, if_false]
        unfold asgRecv; simp [hx]
      · have hc' : asg cfg sfh x .undef = false := by cases hh : asg cfg sfh x .undef <;> simp_all
        simp only [hc', Bool.not_false, if_true]
        exact nu_accepts cfg sfh x x.w x (Nat.le_refl _) hc' hx
    | typ x =>
      unfold Ty.WF at hwf; unfold Ty.NoAlias at hna; simp only [Ty.w] at hw
      apply viaRecv rfl; unfold asgRecv; simp [ih x (by omega) hwf hna]
    | sensitive x =>
      unfold Ty.WF at hwf; unfold Ty.NoAlias at hna; simp only [Ty.w] at hw
      apply viaRecv rfl; unfold asgRecv; simp [ih x (by omega) hwf hna]
    | iterator x =>
      unfold Ty.WF at hwf; unfold Ty.NoAlias at hna; simp only [Ty.w] at hw
      apply viaRecv rfl; unfold asgRecv; simp [ih x (by omega) hwf hna]
    | iterable x =>
      unfold Ty.WF at hwf; unfold Ty.NoAlias at hna; simp only [Ty.w] at hw
      apply viaRecv rfl; unfold asgRecv; simp [ih x (by omega) hwf hna]
    | object p =>
      apply viaRecv rfl; unfold asgRecv
      cases p <;> simp [isPrefix_refl]

end Pcore.Lat
