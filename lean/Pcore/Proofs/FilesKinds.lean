import Pcore.Proofs.FilesModule
import Pcore.Model.FilesCtor
/-!
C15, the three kinds of file loader `newFileBasedLoader` distinguishes — module name `` (global), the pseudo module name
`environment` (global by special case: smart paths NOT module-name relative, `find` still filters qualified names by the
name) and an ordinary module name (module-name relative smart paths) — as TOP-LEVEL loaders (flat topology: the parent is
the system loader): a lookup of a name the cache does not hold yet is decided by the first origin of the name's key in that
loader's own index.  Direct evaluation, no induction.  Also: `HasEntry` against `LoadEntry`.
-/
namespace Pcore.Files

/-- the constructor and `isGlobal()` agree: the smart path of a loader is module-name relative exactly when the loader is
    not global (seeded change C15-s8 broke this for the name `environment`) -/
theorem spOf_relative (l : Lid) : (spOf l).moduleNameRelative = !isGlobalMod l.moduleName := by
  cases l <;> first | rfl | decide

/-- the smart path `find` / `HasEntry` / `Discover` of the model consult IS the one `newFileBasedLoader` builds for the
    data-type path -/
theorem spOf_is_ctor (l : Lid) :
    newLoaderPaths (spOf l).root l.moduleName ["puppetDataType"] = .ok [spOf l] := by
  cases l <;> rfl

/-- every smart path the constructor builds carries the flag `!isGlobal`, whatever the list of path types -/
theorem newLoaderPaths_flag (root : Path) (mod : String) : ∀ (pts : List String) (sps : List SmartPath),
    newLoaderPaths root mod pts = .ok sps →
      sps.length = pts.length ∧ ∀ sp ∈ sps, sp.moduleNameRelative = !isGlobalMod mod ∧ sp.moduleName = mod ∧ sp.root = root
  | [], sps, h => by
    simp only [newLoaderPaths] at h
    cases h
    exact ⟨rfl, fun _ h => by cases h⟩
  | pt :: rest, sps, h => by
    simp only [newLoaderPaths, newSmartPath] at h
    cases hf : smartPathFactory pt with
    | none => rw [hf] at h; cases h
    | some re =>
      rw [hf] at h
      simp only at h
      cases hr : newLoaderPaths root mod rest with
      | error e => rw [hr] at h; cases h
      | ok sps' =>
        rw [hr] at h
        simp only [Except.ok.injEq] at h
        subst h
        obtain ⟨hl, hall⟩ := newLoaderPaths_flag root mod rest sps' hr
        refine ⟨by simp [hl], ?_⟩
        intro sp hsp
        rcases List.mem_cons.mp hsp with rfl | hsp'
        · exact ⟨rfl, rfl, rfl⟩
        · exact hall sp hsp'

/-- the constructor refuses exactly the lists that hold a path type without a factory -/
theorem newLoaderPaths_ok_iff (root : Path) (mod : String) : ∀ pts : List String,
    (∃ sps, newLoaderPaths root mod pts = .ok sps) ↔ ∀ pt ∈ pts, pt = "puppetDataType"
  | [] => by simp [newLoaderPaths]
  | pt :: rest => by
    have ih := newLoaderPaths_ok_iff root mod rest
    simp only [newLoaderPaths, newSmartPath, List.mem_cons, forall_eq_or_imp]
    by_cases hpt : pt = "puppetDataType"
    · subst hpt
      simp only [smartPathFactory, true_and]
      rw [← ih]
      cases newLoaderPaths root mod rest with
      | error e => simp
      | ok sps => simp
    · have hf : smartPathFactory pt = none := by
        unfold smartPathFactory
        split
        · exact absurd rfl hpt
        · rfl
      simp [hf, hpt]

/-- `find` of loader `l` reaches the index with this name (the switch part lets it through) -/
def Routed (l : Lid) (name : Name) : Prop :=
  (qualified name = true ∧ (l.moduleName = "" ∨ ∃ ps, partsOf name = some ps ∧ ps.head? = some l.moduleName)) ∨
  (qualified name = false ∧ isGlobalMod l.moduleName = true)

theorem find_routed (n : Nat) (cfg : Cfg) (l : Lid) (name : Name) (h : Routed l name) :
    find (n+1) cfg l name = findTail n cfg l name := by
  simp only [find]
  rcases h with ⟨hq, hm⟩ | ⟨hq, hg⟩
  · rcases hm with hm | ⟨ps, hp, hh⟩
    · simp [hq, hm]
    · by_cases hm : l.moduleName = ""
      · simp [hq, hm]
      · funext s
        simp [hq, hm, partsM, hp, hh, bind, pure]
  · simp [hq, hg]

theorem sysLoad_none_static (name : Name) (h : sysLoad name = none) : staticHas (keyOf name) = false := by
  unfold sysLoad at h
  unfold staticHas
  cases hf : staticTypes.find? (fun e => e.1 = keyOf name) with
  | some e => rw [hf] at h; cases h
  | none =>
    rw [List.find?_eq_none] at hf
    rw [Bool.eq_false_iff]
    intro hany
    rw [List.any_eq_true] at hany
    obtain ⟨e, he, hk⟩ := hany
    exact hf e he hk

/-- a top-level file loader of any kind (the global loader, or a module's loader in the flat topology) as the context's
    loader: the first origin of the key in ITS index decides, and that file is the only one read -/
theorem toplevel_plain (cfg : Cfg) (l : Lid) (hv : cfg.via = l) (hl : l = .g ∨ (∃ mod, l = .m mod) ∧ cfg.flat = true)
    (name : Name) (s : St) (n : Nat)
    (hsys : sysLoad name = none) (hget : s.get l (keyOf name) = none) (hroute : Routed l name)
    (p : Path) (ps : List Path) (hi : idx cfg l (keyOf name) = p :: ps)
    (hnt : ∀ nm ts, bodyAt cfg.tree p ≠ some (.typ .typeset nm ts)) :
    (loadS (n+7) cfg s name).1 = plainOutcomeAt cfg l name ∧
    (loadS (n+7) cfg s name).2.reads = s.reads ++ [p] := by
  obtain ⟨mods, tree, via, gi, fl⟩ := cfg
  simp only at hv
  subst hv
  rcases hl with hl | ⟨⟨mod, hl⟩, hf⟩
  · subst hl
    unfold loadS load
    simp only [loadEntry, fbLoadEntry, find_routed _ _ _ _ hroute, findTail, bind, pure, getSt, hsys, hget, hi, if_true]
    simp only [instantiate, bind, pure, getSt, hget, setEntry, instantiator, modifySt]
    unfold plainOutcomeAt
    simp only [hi]
    cases hb : bodyAt tree p with
    | none => simp [raise]
    | some bd =>
      cases bd with
      | unreadable => simp [raise]
      | malformed ln => simp [raise]
      | nodef => simp [raise]
      | bare => simp [addTypes, setEntry, get_put, bind, pure]
      | typ k nm ts =>
        have hkt : k ≠ .typeset := by
          intro hk; subst hk
          exact hnt nm ts hb
        by_cases hk : keyOf nm = keyOf name
        · simp [addTypes, setEntry, get_put, bind, pure, hk, hkt]
        · simp [raise, hk]
  · subst hl
    simp only at hf
    subst hf
    unfold loadS load
    simp only [loadEntry, fbLoadEntry, find_routed _ _ _ _ hroute, findTail, bind, pure, getSt, hsys, hget, hi, if_true]
    simp only [instantiate, bind, pure, getSt, hget, setEntry, instantiator, modifySt]
    unfold plainOutcomeAt
    simp only [hi]
    cases hb : bodyAt tree p with
    | none => simp [raise]
    | some bd =>
      cases bd with
      | unreadable => simp [raise]
      | malformed ln => simp [raise]
      | nodef => simp [raise]
      | bare => simp [addTypes, setEntry, get_put, bind, pure]
      | typ k nm ts =>
        have hkt : k ≠ .typeset := by
          intro hk; subst hk
          exact hnt nm ts hb
        by_cases hk : keyOf nm = keyOf name
        · simp [addTypes, setEntry, get_put, bind, pure, hk, hkt]
        · simp [raise, hk]

/-- nothing in the loader's own index (and the parent search has nowhere to go: an unqualified name): `notfound`, no read,
    one placeholder -/
theorem toplevel_absent (cfg : Cfg) (l : Lid) (hv : cfg.via = l) (hl : l = .g ∨ (∃ mod, l = .m mod) ∧ cfg.flat = true)
    (name : Name) (s : St) (n : Nat)
    (hsys : sysLoad name = none) (hget : s.get l (keyOf name) = none) (hroute : Routed l name)
    (hq : qualified name = false) (hi : idx cfg l (keyOf name) = []) :
    loadS (n+7) cfg s name = (.notfound, s.put l (keyOf name) none) := by
  obtain ⟨mods, tree, via, gi, fl⟩ := cfg
  simp only at hv
  subst hv
  rcases hl with hl | ⟨⟨mod, hl⟩, hf⟩
  · subst hl
    unfold loadS load
    simp only [loadEntry, fbLoadEntry, find_routed _ _ _ _ hroute, findTail, bind, pure, getSt, hsys, hget, hi, hq]
    simp [setEntry, hget]
  · subst hl
    simp only at hf
    subst hf
    unfold loadS load
    simp only [loadEntry, fbLoadEntry, find_routed _ _ _ _ hroute, findTail, bind, pure, getSt, hsys, hget, hi, hq, if_true]
    simp [setEntry, hget]

/-- `HasEntry` of a file loader, spelled out: a core type, or an origin in the index of the loader or of its parent -/
theorem hasEntry_file (cfg : Cfg) (s : St) (l : Lid) (hl : l ≠ .d) (k : Key) :
    hasEntry cfg s l k = true ↔
      staticHas k = true ∨ idx cfg l k ≠ [] ∨ ((∃ mod, l = .m mod) ∧ cfg.flat = false ∧ idx cfg .g k ≠ []) := by
  cases l with
  | d => exact absurd rfl hl
  | g =>
    simp only [hasEntry, Bool.or_eq_true, Bool.not_eq_true', List.isEmpty_eq_false_iff]
    constructor
    · rintro (h | h)
      · exact Or.inl h
      · exact Or.inr (Or.inl h)
    · rintro (h | h | ⟨⟨_, h⟩, _⟩)
      · exact Or.inl h
      · exact Or.inr h
      · cases h
  | m mod =>
    simp only [hasEntry, Bool.or_eq_true, Bool.and_eq_true, Bool.not_eq_true', List.isEmpty_eq_false_iff]
    constructor
    · rintro ((h | ⟨hf, h⟩) | h)
      · exact Or.inl h
      · exact Or.inr (Or.inr ⟨⟨mod, rfl⟩, hf, h⟩)
      · exact Or.inr (Or.inl h)
    · rintro (h | h | ⟨_, hf, h⟩)
      · exact Or.inl (Or.inl h)
      · exact Or.inr h
      · exact Or.inl (Or.inr ⟨hf, h⟩)

theorem plainOutcomeAt_notfound (cfg : Cfg) (l : Lid) (name : Name) :
    plainOutcomeAt cfg l name = .notfound ↔ idx cfg l (keyOf name) = [] := by
  unfold plainOutcomeAt
  cases hi : idx cfg l (keyOf name) with
  | nil => simp
  | cons p ps =>
    simp only []
    cases hb : bodyAt cfg.tree p with
    | none => simp
    | some b =>
      cases b with
      | unreadable => simp
      | malformed ln => simp
      | nodef => simp
      | bare => simp
      | typ k nm ts => by_cases hk : keyOf nm = keyOf name <;> simp [hk]

end Pcore.Files
