import Pcore.Proofs.LatInst
set_option linter.unusedSimpArgs false
/-! Well-formedness of type terms and values (what the Go constructors / the harness generators guarantee) and the
    reference fragment of C02. -/
namespace Pcore.Lat

/-- what the constructors guarantee, hereditarily: Struct member names pairwise different (hash literal keys), values of a
    case-insensitive Enum stored lower-cased (`NewEnumType`). -/
def Ty.WF (cfg : Cfg) (t : Ty) : Prop :=
  match t with
  | .enum vs ci => ci = true → ∀ x ∈ vs, cfg.lower x = x
  | .array e _ => Ty.WF cfg e
  | .hash k v _ => Ty.WF cfg k ∧ Ty.WF cfg v
  | .tuple ts _ => ∀ t', ∀ (_ : t' ∈ ts), Ty.WF cfg t'
  | .struct ms => (ms.map (·.1)).Nodup ∧ ∀ m, ∀ (_ : m ∈ ms), Ty.WF cfg m.2.2
  | .variant ts => ∀ t', ∀ (_ : t' ∈ ts), Ty.WF cfg t'
  | .optional t' | .notUndef t' | .typ t' | .sensitive t' | .iterator t' | .iterable t' => Ty.WF cfg t'
  | .callable p r k =>
      (match p with | none => True | some t' => Ty.WF cfg t') ∧ (match r with | none => True | some t' => Ty.WF cfg t') ∧
      (match k with | none => True | some t' => Ty.WF cfg t')
  | _ => True
termination_by t.w
decreasing_by
  all_goals simp_wf
  all_goals (try simp only [Ty.w, Ty.wl, Ty.wm, Ty.wo] at *)
  all_goals first
    | omega
    | (have := Ty.w_lt_wl ‹_ ∈ _›; omega)
    | (have := Ty.w_lt_wm ‹_ ∈ _›; omega)

/-- the reference fragment of C02: no Iterable at any position the denotation descends into -/
def Ty.Ref (t : Ty) : Prop :=
  match t with
  | .iterable _ => False
  | .array e _ => Ty.Ref e
  | .hash k v _ => Ty.Ref k ∧ Ty.Ref v
  | .tuple ts _ => ∀ t', ∀ (_ : t' ∈ ts), Ty.Ref t'
  | .struct ms => ∀ m, ∀ (_ : m ∈ ms), Ty.Ref m.2.2
  | .variant ts => ∀ t', ∀ (_ : t' ∈ ts), Ty.Ref t'
  | .optional t' | .notUndef t' | .sensitive t' | .iterator t' => Ty.Ref t'
  | _ => True
termination_by t.w
decreasing_by
  all_goals simp_wf
  all_goals (try simp only [Ty.w, Ty.wl, Ty.wm] at *)
  all_goals first
    | omega
    | (have := Ty.w_lt_wl ‹_ ∈ _›; omega)
    | (have := Ty.w_lt_wm ‹_ ∈ _›; omega)

/-- hereditarily: every hash inside the value has pairwise different string keys -/
inductive Val.OK : Val → Prop
  | undef : Val.OK .undef
  | dflt : Val.OK .dflt
  | bool (b) : Val.OK (.bool b)
  | int (i) : Val.OK (.int i)
  | float (f) : Val.OK (.float f)
  | str (s) : Val.OK (.str s)
  | regexp (s) : Val.OK (.regexp s)
  | binary (b) : Val.OK (.binary b)
  | tspan (n) : Val.OK (.tspan n)
  | typ (t) : Val.OK (.typ t)
  | obj (p) : Val.OK (.obj p)
  | sensitive (v) : Val.OK v → Val.OK (.sensitive v)
  | array (vs) : (∀ x ∈ vs, Val.OK x) → Val.OK (.array vs)
  | hash (es : List (Val × Val)) : KeysNodup es → (∀ e ∈ es, Val.OK e.1) → (∀ e ∈ es, Val.OK e.2) → Val.OK (.hash es)

end Pcore.Lat
