import Pcore.Proofs.LoaderConc
import Pcore.Proofs.LoaderConcDisc
import Pcore.Model.Lockset
import Pcore.Generated.Locksets
import Pcore.Proofs.LazyCache
import Pcore.Generated.CacheSites
import Pcore.Proofs.InstantiateOnce
import Pcore.Proofs.ConcQueueStep
import Pcore.Generated.QueueSites
/-!
# C13 — Shared loaders, types and values are safe under concurrent use

Property (properties.jsonl): under every interleaving of goroutines that load, define, query and discover through a
shared loader hierarchy, or that concurrently read, infer the type of, print, hash and type-check shared values and
types, there is no data race and no crash, and every operation returns what some sequential ordering of the same
operations would return: all goroutines agree on the single value bound to a name, a lazily file-loaded definition is
instantiated exactly once, and an inferred type is never observed half-built.

Model: `Pcore.LoaderConc` (`Model/LoaderConc.lean`): atomic steps at the synchronisation boundaries of loader.go at HEAD,
`Reachable` = every interleaving of every number of threads running programs of every length.

Full statement / proved / missing
* `C13_full` (a `def … : Prop`): every quiescent reachable configuration is explained by one sequential order of all
  operations (program order kept) run against the C12 model.  It is FALSE of the model and of the code
  (`C13_full_fails`, known finding C13-chain-walk-not-atomic: a lookup through a chain reads the levels at different
  times); the schedule of the witness is replayed on the implementation through the yield points on every check.
* proved, as inductive invariants over `Reachable` (unbounded threads, programs, steps):
  `C13_writeonce` / `C13_writeonce_reach` — the shared state only grows: a binding, once made, is never changed or removed;
  `C13_agree` (with `C13_found_has_source`) — all threads agree on the single value bound to a name in a loader: two
      answers that handed out the value of (loader level, key) handed out the same value, and every `found` answer has
      such a source; NOT per loader asked — `C13_agree_is_per_level` (audit): two lookups of one name through one loader
      can be handed the values of two different levels (the known finding below);
  `C13_nocrash` — no operation ends in a fault: in particular the placeholder `SetEntry` in load's miss window never
      raises, whatever was defined in the window (`C13_miss_window_crash_before_fix`: it did before fix e398ee4);
  `C13_sc_partial` — towards `C13_full`: when a lookup has read its last level, its answer is `resolve` of the CURRENT
      shared state provided no level it passed as unbound has gained a binding since ("no ancestor gains a binding");
      this gives the linearisation point of every lookup outside the known finding's class.
* second tie: `C13_lockset_ok` — the table of every read/write site of the shared loader fields with the mutexes held
  there, regenerated from loader/*.go on every run, satisfies the lock discipline (`decide`); `C13_lockset_norace` —
  for ANY table satisfying it no two conflicting accesses can overlap (they share a mutex, one side exclusively).
* lazily built type caches (`Model/LazyCache.lean`): `C13_lazy_caches` — for a table of publication sites that satisfies
  `publishAfterInit` (the publishing write is the last write to the object) no reader, under any interleaving, observes a
  half-built type; the table regenerated from types/*.go does NOT satisfy it (`C13_publish_order_fails`, known finding
  C13-type-cache-published-before-init) — but every site outside the five recorded functions does (`C13_publish_ok`:
  all lazily initialised fields are found by shape, so a new "assign, then complete in place" breaks the obligation) and the model built from that table exhibits the half-built answer
  (`C13_cache_half_built`), as the implementation does under the same schedule.
  Completion writes: `C13_publish_completion_ok` — every write through a published cache pointer (second regenerated
  table) assigns its location once, with the final value; `C13_cache_never_narrow` — for any tables satisfying that no
  reader is ever handed a type that is NOT a type of the value (the half-built answers of the known finding are sound
  placeholders), also when a fill is preempted inside its fold (slow elements); refuted for an in-place fold:
  `C13_cache_fold_narrow`.
* the runtime's loaders (`internal/runtime.go`, `rt.lock`): `C13_rt_lockset_ok` / `C13_rt_norace` over the second lock-set
  table (a write needs the lock held exclusively, also through one level of unexported helpers);
  `C13_rt_lockset_clean` — no exempted site; `C13_rt_systemloader_read_raced_before_fix` — the read of `rt.SystemLoader`
  after its `Unlock`, repaired by fix 27da6a6, was a race with `rt.Reset`.
* file-based loading (`Model/InstantiateOnce.lean`: the lock-table / name-mutex / double-check protocol of
  `fileBasedLoader.instantiate`, including the deletion of the mutex from the table after unlocking):
  `C13_once` — under every interleaving the instantiator of a name runs at most once; `C13_once_bound` — and exactly once
  for every name that is bound, whose value is the one its file holds; `C13_once_errors` / `C13_broken_never_bound` — the
  same with files whose instantiator raises (parse error, wrong definition): read at most once, never bound;
  `C13_placeholder_visible` — the known finding
  C13-placeholder-of-running-instantiation-visible is real in the model: a lookup answers not-found for a name with a file.
* the declare / resolve queue (`Model/ConcQueue.lean`: `types.resolvableTypes` — appended to under `resolvableTypesLock`,
  POPPED under the lock by `PopDeclaredTypes` and CONSUMED outside it by `internal.resolveResolvables`; Go slices with
  explicit backing arrays, any initial capacity and growth policy): full clause `C13_queue_full` (a `def … : Prop`: once all
  goroutines have finished every declared type is still pending, or bound exactly once and resolved exactly once);
  proved for the variant the code has, over every interleaving of any number of goroutines:
  `C13_queue_exactly_once` (= `C13_queue_full` of the `fresh` variant), `C13_queue_once` (never bound / resolved twice, at
  every moment), `C13_queue_declared_only`, `C13_queue_bound_before_resolve` (a type is resolved only after every type
  taken over with it is bound), `C13_queue_reads_popped` (what is read through the popped slice outside the lock is what
  it held when popped; no nil read); REFUTED for the variant that keeps the backing array (`q = q[:0]`) and for the
  variant that does not empty the queue: `C13_queue_reslice_loses`, `C13_queue_keep_resolves_twice`,
  `C13_queue_full_fails_reslice`, `C13_queue_full_fails_keep`.  Tie: `C13_queue_sites_ok` — the table of every site of
  the four guarded package-level queues regenerated from the Go sources satisfies the escape discipline (`decide`);
  `C13_queue_cfg_of_table` — ANY table satisfying it configures the model with the `fresh` variant, hence
  `C13_queue_impl_exactly_once`.
  `C13_discover_sandwich` (with `C13_discover_answer`) — the answer of a concurrent discovery contains every name the
      sequential discovery answered when the operation began and only names it answers when the operation ends.
* missing (stated, not hidden): what `Resolve` does inside (its lookups through the loader), the mappings / constructor /
  function queues as executable models (their sites are in the table); the instantiator's nested lookups, parse errors and
  type sets of file-based loading; nested containers and the other read paths (hash keys, type checks) of shared values; the Go memory model,
  the real scheduler, torn reads and `-race` findings cannot be exhibited by an interleaving model at all — the lock-set
  table is syntactic and trusted.
-/
namespace Pcore.LoaderConc
open Pcore.LoaderSeq

/-- every step of every thread leaves every existing binding as it is (and the hierarchy fixed) -/
theorem C13_writeonce (ps : List (Option Nat)) (progs : List (List Op)) (c : Config)
    (hr : Reachable (Config.init ps progs) c) (i : Nat) : Mono c.sh (stepAt c i).sh :=
  stepAt_mono c i (Inv_reachable (Inv_init ps progs) hr)

/-- … hence over any execution: a binding observed in any reachable configuration is there in every later one -/
theorem C13_writeonce_reach (c0 c : Config) (h0 : Inv c0) (hr : Reachable c0 c) (l : Nat) (k : Key) (v : V)
    (hb : bound c0.sh l k = some v) : bound c.sh l k = some v :=
  (Mono_reachable h0 hr).2.2 l k v hb

/-- all goroutines agree on the single value bound to a name in a loader -/
theorem C13_agree (ps : List (Option Nat)) (progs : List (List Op)) (c : Config)
    (hr : Reachable (Config.init ps progs) c) (t t' : Thread) (ht : t ∈ c.th) (ht' : t' ∈ c.th)
    (e e' : Ans × Src) (he : e ∈ t.log) (he' : e' ∈ t'.log) (x : Nat) (k : Key) (v v' : V)
    (hs : e.2 = some (x, k, v)) (hs' : e'.2 = some (x, k, v')) : v = v' := by
  have hi := Inv_reachable (Inv_init ps progs) hr
  have h1 := (hi t ht).2.1 e he x k v hs
  have h2 := (hi t' ht').2.1 e' he' x k v' hs'
  rw [h1] at h2; cases h2; rfl

/-- every value a lookup answers was read from a loader level that binds it (then, now and ever after) -/
theorem C13_found_has_source (ps : List (Option Nat)) (progs : List (List Op)) (c : Config)
    (hr : Reachable (Config.init ps progs) c) (t : Thread) (ht : t ∈ c.th) (e : Ans × Src) (he : e ∈ t.log) (v : V)
    (hv : e.1 = .found v) : ∃ x k, e.2 = some (x, k, v) ∧ bound c.sh x k = some v := by
  have hi := Inv_reachable (Inv_init ps progs) hr t ht
  obtain ⟨x, k, hs⟩ := hi.2.2.2 e he v hv
  exact ⟨x, k, hs, hi.2.1 e he x k v hs⟩

/-- no operation ends in a fault -/
theorem C13_nocrash (ps : List (Option Nat)) (progs : List (List Op)) (c : Config)
    (hr : Reachable (Config.init ps progs) c) (t : Thread) (ht : t ∈ c.th) (e : Ans × Src) (he : e ∈ t.log) :
    e.1 ≠ .fault :=
  (Inv_reachable (Inv_init ps progs) hr t ht).2.2.1 e he

/-- a lookup that has read its last level answers `resolve` of the current state, provided no level it passed as
    unbound has gained a binding since -/
theorem C13_sc_partial (ps : List (Option Nat)) (progs : List (List Op)) (c : Config)
    (hr : Reachable (Config.init ps progs) c) (t : Thread) (ht : t ∈ c.th) (l : Nat) (n : Name) (st : WalkSt)
    (hpc : t.pc = .loadWalk l n [] st) (hq : ∀ y ∈ st.nones, bound c.sh y (canon n) = none) :
    walkAns st = ansOf (resolve c.sh l (canon n)) := by
  have hw := (Inv_reachable (Inv_init ps progs) hr t ht).1
  rw [hpc] at hw
  cases st with
  | searching nones last =>
    simp only [WalkOK, List.append_nil] at hw
    have hn : nones.findSome? (fun a => bound c.sh a (canon n)) = none := List.findSome?_eq_none_iff.mpr hq
    simp only [walkAns, resolve, hw.1, hn, ansOf]
  | foundAt nones x v =>
    simp only [WalkOK, List.append_nil] at hw
    obtain ⟨⟨sk, hs⟩, hb⟩ := hw
    have hn : nones.findSome? (fun a => bound c.sh a (canon n)) = none := List.findSome?_eq_none_iff.mpr hq
    simp only [walkAns, resolve, hs, List.findSome?_append, hn, List.findSome?_cons, hb, Option.none_or, ansOf]

/-- the answer logged by the return step is `walkAns` (or the walk goes on to the miss window, which logs not-found) -/
theorem C13_load_answer (s : Sys) (t : Thread) (l : Nat) (n : Name) (st : WalkSt) (hpc : t.pc = .loadWalk l n [] st) :
    (∃ src, (stepThread s t).2.log = t.log ++ [(walkAns st, src)]) ∨ (stepThread s t).2.pc = .loadMiss l n := by
  unfold stepThread
  rw [hpc]
  cases st with
  | searching nones last =>
    cases last with
    | none => exact Or.inr rfl
    | some o => exact Or.inl ⟨_, rfl⟩
  | foundAt nones x v => exact Or.inl ⟨_, rfl⟩

/-- the answer of a concurrent discovery: when a discovery is at its last level, what it is about to answer contains every
    name the sequential discovery (C12: `discC`) answered in the state `snap` in which the operation began, and only names
    the sequential discovery answers in the current state — and `snap` is a past of the current state (every binding of
    it is still there).  No single moment need give exactly this answer (known finding C13-chain-walk-not-atomic). -/
theorem C13_discover_sandwich (ps : List (Option Nat)) (progs : List (List Op)) (c : Config)
    (hr : Reachable (Config.init ps progs) c) (t : Thread) (ht : t ∈ c.th) (l : Nat) (p : Key → Bool) (x : Nat)
    (passed : List Nat) (found : List Key) (snap : Sys) (hpc : t.pc = .discWalk l p [x] passed found snap) :
    Mono snap c.sh ∧
    (∀ k, k ∈ discC snap.es p (chain c.sh.ps l) → k ∈ discLevel c.sh.es x found p) ∧
    (∀ k, k ∈ discLevel c.sh.es x found p → k ∈ discC c.sh.es p (chain c.sh.ps l)) := by
  obtain ⟨_, hwf, hd⟩ := DInv_reachable (DInv_init ps progs) hr
  have hd := hd t ht
  rw [hpc] at hd
  obtain ⟨h1, h2, h3, h4, h5⟩ := hd
  have hch : ∀ y, y ∈ chain c.sh.ps l ↔ y ∈ passed ∨ y = x := by
    intro y
    rw [← List.mem_reverse, h1]
    simp
  refine ⟨h4, ?_, ?_⟩
  · intro k hk
    obtain ⟨hp, a, ha, hb⟩ := (mem_discC snap h5 p _ k).mp hk
    rw [mem_discLevel c.sh hwf]
    rcases (hch a).mp ha with ha | rfl
    · exact Or.inl (h3 a ha k hp hb)
    · by_cases hf : k ∈ found
      · exact Or.inl hf
      · exact Or.inr ⟨isSome_mono h4 hb, hf, hp⟩
  · intro k hk
    rw [mem_discC c.sh hwf]
    rcases (mem_discLevel c.sh hwf x found p k).mp hk with hk | ⟨hb, _, hp⟩
    · obtain ⟨hp, y, hy, hb⟩ := h2 k hk
      exact ⟨hp, y, (hch y).mpr (Or.inl hy), hb⟩
    · exact ⟨hp, x, (hch x).mpr (Or.inr rfl), hb⟩

/-- … and that is the answer the next step logs -/
theorem C13_discover_answer (s : Sys) (t : Thread) (l : Nat) (p : Key → Bool) (x : Nat) (passed : List Nat) (found : List Key)
    (snap : Sys) (hpc : t.pc = .discWalk l p [x] passed found snap) :
    (stepThread s t).2.log = t.log ++ [(.keys (discLevel s.es x found p), none)] := by
  unfold stepThread
  rw [hpc]

/-! ### the full statement: sequential consistency with respect to the C12 model -/

/-- choose a thread whose history is not exhausted: its next element and the histories without it -/
def picks {α : Type} (ls : List (List α)) : List (α × List (List α)) :=
  (List.range ls.length).filterMap fun i =>
    match ls[i]? with
    | some (a :: r) => some (a, ls.set i r)
    | _ => none

def interleavingsAux {α : Type} : Nat → List (List α) → List (List α)
  | 0, _ => [[]]
  | n + 1, ls =>
    if ls.all List.isEmpty then [[]]
    else (picks ls).flatMap fun (a, ls') => (interleavingsAux n ls').map (a :: ·)

/-- all merges of the threads' histories that keep every thread's own order -/
def interleavings {α : Type} (ls : List (List α)) : List (List α) :=
  interleavingsAux (ls.map List.length).sum ls

example : interleavings [[1, 2], [3]] = [[1, 2, 3], [1, 3, 2], [3, 1, 2]] := by decide

def Quiescent (c : Config) : Prop := ∀ t ∈ c.th, t.finished = true

instance (c : Config) : Decidable (Quiescent c) := by unfold Quiescent; infer_instance

/-- per thread: its operations with the answers it got -/
def history (progs : List (List Op)) (c : Config) : List (List (Op × Ans)) :=
  List.zipWith (fun p t => p.zip (t.log.map (·.1))) progs c.th

/-- the C12 model, run on the operations in this order, gives exactly these answers -/
abbrev SeqExplains (ps : List (Option Nat)) (σ : List (Op × Ans)) : Prop :=
  (run (Sys.init ps) (σ.map (·.1))).2 = σ.map (·.2)

/-- the property's sentence: every operation returns what some sequential ordering of the same operations would return -/
def C13_full : Prop :=
  ∀ (ps : List (Option Nat)) (progs : List (List Op)) (c : Config),
    Reachable (Config.init ps progs) c → Quiescent c → ∃ σ ∈ interleavings (history progs c), SeqExplains ps σ

def nA : Name := ⟨runtimeAuthority, "type", "A"⟩
def na : Name := ⟨runtimeAuthority, "type", "a"⟩

/-- the witness of the known finding: thread 0 looks `a` up through loader 1 (child of loader 0) and is past level 0 when
    thread 1 defines `A` in loader 0 and then `a` in loader 1 -/
def raceProgs : List (List Op) := [[.load 1 na], [.define 0 nA (.ty 1), .define 1 na (.ty 2)]]
def raceConfig : Config := execute [none, some 0] raceProgs [0, 0, 1, 1]

/-- `C13_full` is false: the lookup answers loader 1's value although loader 0 was bound first (known finding
    C13-chain-walk-not-atomic; the same schedule is a witness op of the finding and is replayed on the implementation) -/
theorem C13_full_fails : ¬ C13_full := by
  intro h
  have hq : Quiescent raceConfig := by decide +kernel
  have := h [none, some 0] raceProgs raceConfig (reachable_execute _ _ _) hq
  revert this
  decide +kernel

-- what the threads saw
example : (raceConfig.th.map fun t => t.log.map (·.1)) = [[.found (.ty 2)], [.ok, .ok]] := by decide +kernel
-- … while the hypothesis of C13_sc_partial fails for exactly this walk: level 0 was passed as unbound and has gained a binding
example : bound raceConfig.sh 0 (canon na) = some (.ty 1) := by decide +kernel
-- non-vacuity of C13_sc_partial: a walk that passed level 0 as unbound, found the value at level 1 and whose hypothesis
-- holds (level 0 is still unbound): it answers `resolve`
def atLastLevel (t : Thread) : Option (Nat × Name × List Nat × Ans) :=
  match t.pc with
  | .loadWalk l n [] st => some (l, n, st.nones, walkAns st)
  | _ => none
def calmConfig : Config :=
  stepAt (runSched (Config.init [none, some 0] [[.load 1 na], [.define 1 na (.ty 2)]]) [1, 0, 0]) 0
example : calmConfig.th.map atLastLevel = [some (1, na, [0], .found (.ty 2)), none] ∧
    bound calmConfig.sh 0 (canon na) = none ∧ resolve calmConfig.sh 1 (canon na) = some (.ty 2) := by decide +kernel
-- non-vacuity of C13_agree / C13_found_has_source: two threads are handed the value of (loader 0, key a)
def agreeConfig : Config :=
  execute [none, some 0] [[.define 0 na (.ty 1)], [.load 1 nA], [.get 0 na, .load 0 na]] [0, 1, 2, 1, 2, 1]
example : (agreeConfig.th.map fun t => t.log.map (·.2)) =
    [[none], [some (0, canon na, .ty 1)], [some (0, canon na, .ty 1), some (0, canon na, .ty 1)]] := by decide +kernel

-- non-vacuity of C13_discover_sandwich, strictly between: thread 0 discovers through loader 1 and has passed level 0 (empty)
-- when thread 1 defines `b` in loader 0 and `a` in loader 1; parked at its last level it is about to answer [a] — the
-- sequential answer was [] when it began and is [a, b] now
def nb : Name := ⟨runtimeAuthority, "type", "b"⟩
def discConfig : Config :=
  runSched (Config.init [none, some 0] [[.discover 1 fun _ => true], [.define 0 nb (.ty 1), .define 1 na (.ty 2)]]) [0, 0, 1, 1]
def discView (t : Thread) : Option (Nat × List Nat × List Key × List Key) :=
  match t.pc with
  | .discWalk l p [x] passed _ snap => some (x, passed, discC snap.es p (chain snap.ps l), discC discConfig.sh.es p (chain snap.ps l))
  | _ => none
example : discConfig.th.map discView = [some (1, [0], [], [canon na, canon nb]), none] ∧
    ((stepAt discConfig 0).th.map fun t => t.log.map (·.1)) = [[.keys [canon na]], [.ok, .ok]] := by decide +kernel

/-- before fix e398ee4 ("a nil re-definition is a no-op"): offering the placeholder over a Type that another goroutine
    defined inside the miss window went on to the type assertion `nv.(px.Type)` on a nil value -/
def setEntryBeforeFix (es : Ents) (k : Key) (nv : Option V) : Option (Ents × SetRes) :=
  match lk k es, nv with
  | some (some ov), none => if ov.isType then none else some (es, .redefine)     -- none = fault
  | _, _ => some (setEntry es k nv)

theorem C13_miss_window_crash_before_fix :
    setEntryBeforeFix [("k", some (.ty 1))] "k" none = none ∧ (setEntry [("k", some (.ty 1))] "k" none).2 = .kept := by
  decide +kernel

/-! #### added by the audit (notes/audit-C13.md): concrete non-trivial instances -/

-- non-vacuity of C13_nocrash / C13_writeonce INSIDE the miss window (the whole schedule, not only `setEntry`): thread 0 looks
-- `a` up in loader 0, finds nothing and is parked at "load.miss-window"; thread 1 defines `a`; thread 0 then offers its
-- placeholder over the definition: it answers not-found (a legal sequential answer: its lookup came first), no fault, and the
-- binding made in the window is still there
def isMiss (t : Thread) : Bool := match t.pc with | .loadMiss _ _ => true | _ => false
def missWindowConfig : Config := runSched (Config.init [none] [[.load 0 na], [.define 0 na (.ty 1)]]) [0, 0, 1]
example : Reachable (Config.init [none] [[.load 0 na], [.define 0 na (.ty 1)]]) missWindowConfig :=
  reachable_runSched _ _ _ Reachable.init
example : missWindowConfig.th.map isMiss = [true, false] ∧ bound missWindowConfig.sh 0 (canon na) = some (.ty 1) ∧
    ((stepAt missWindowConfig 0).th.map fun t => t.log.map (·.1)) = [[.notfound], [.ok]] ∧
    bound (stepAt missWindowConfig 0).sh 0 (canon na) = some (.ty 1) := by decide +kernel

-- non-trivial instance of C13_writeonce: a step that CHANGES the shared state (a definition), then a step that tries to
-- re-define the name with another value: it is answered by the redefinition error and the binding stays
def redefConfig : Config :=
  stepAt (Config.init [none, some 0] [[.define 0 nA (.ty 1), .define 0 nA (.ty 9)], [.load 1 na]]) 0
example : bound (Config.init [none, some 0] [[.define 0 nA (.ty 1), .define 0 nA (.ty 9)], [.load 1 na]]).sh 0 (canon nA) = none ∧
    bound redefConfig.sh 0 (canon nA) = some (.ty 1) ∧ bound (stepAt redefConfig 0).sh 0 (canon nA) = some (.ty 1) ∧
    ((stepAt redefConfig 0).th.map fun t => t.log.map (·.1)) = [[.ok, .reported "PCORE_ATTEMPT_TO_REDEFINE_TYPE"], []] := by
  decide +kernel

/-- WHAT `C13_agree` DOES NOT SAY (audit): the agreement is per (loader LEVEL, key) — the ghost source of an answer — not per
    (loader asked, name).  Two goroutines that look the SAME name up through the SAME loader can be handed DIFFERENT values:
    the schedule of `C13_full_fails` with a third thread that looks `a` up through loader 1 afterwards.  Thread 0 is handed
    loader 1's value, thread 2 loader 0's (same key: `A` and `a` fold to one key).  Both answers have a source that still
    binds the value (`C13_found_has_source`), so `C13_agree` holds of them — vacuously, the levels differ.  This is the known
    finding C13-chain-walk-not-atomic seen from the "all goroutines agree" clause of the property. -/
theorem C13_agree_is_per_level :
    let c := execute [none, some 0] [[.load 1 na], [.define 0 nA (.ty 1), .define 1 na (.ty 2)], [.load 1 na]] [0, 0, 1, 1]
    Quiescent c ∧ (c.th.map fun t => t.log.map (·.1)) = [[.found (.ty 2)], [.ok, .ok], [.found (.ty 1)]] ∧
    (c.th.map fun t => t.log.map (·.2)) = [[some (1, canon na, .ty 2)], [none, none], [some (0, canon na, .ty 1)]] := by
  decide +kernel

end Pcore.LoaderConc

/-! ### file-based loading: instantiated exactly once -/
namespace Pcore.Instantiate
open Pcore.LoaderSeq

/-- a lazily file-loaded definition is instantiated at most once, whatever the interleaving, the number of goroutines
    and the names they look up -/
theorem C13_once (files : List (Key × V)) (progs : List (List FOp)) (c : Config)
    (hr : Reachable (Config.init files progs) c) (k : Key) : c.reads.count k ≤ 1 :=
  (Inv_reachable (Inv_init files progs) hr).i7 k

/-- … and exactly once for a name that is bound; what is bound is what the file holds -/
theorem C13_once_bound (files : List (Key × V)) (progs : List (List FOp)) (c : Config)
    (hr : Reachable (Config.init files progs) c) (k : Key) (v : V) (hb : lk k c.es = some (some v)) :
    c.reads.count k = 1 ∧ fileOf k c.files = some v := by
  have h1 := C13_once files progs c hr k
  have h2 := Sourced_reachable (Sourced_init files progs) hr k v hb
  have h3 : 0 < c.reads.count k := List.count_pos_iff.mpr h2.1
  exact ⟨by omega, h2.2⟩

/-- `C13_once` with files whose instantiator RAISES (a parse error, a definition of another name): such a file, too, is
    read at most once under every interleaving — the panic unwinds through `instantiate`, the name mutex is released, and
    the placeholder that stays installed keeps every later lookup away from the file -/
theorem C13_once_errors (files : List (Key × V)) (broken : List (Key × String)) (progs : List (List FOp)) (c : Config)
    (hr : Reachable (Config.initB files broken progs) c) (k : Key) : c.reads.count k ≤ 1 :=
  (Inv_reachable (Inv_initB files broken progs) hr).i7 k

/-- … what is bound is still what a (good) file holds, so the name of a file that only raises is never bound -/
theorem C13_broken_never_bound (files : List (Key × V)) (broken : List (Key × String)) (progs : List (List FOp)) (c : Config)
    (hr : Reachable (Config.initB files broken progs) c) (k : Key) (hk : fileOf k c.files = none) (v : V) :
    lk k c.es ≠ some (some v) := by
  intro hb
  have := (Sourced_reachable (Sourced_initB files broken progs) hr k v hb).2
  rw [hk] at this
  cases this

-- non-vacuity: the file of `a` does not parse; both threads have missed the entry; thread 0 runs the instantiator and
-- re-raises, thread 1 (which then gets the name mutex and finds the placeholder) answers not-found; the file was read once
-- and `a` stays a placeholder
example : let c := executeB [] [("a", "PARSE_ERROR")] [[.load "a"], [.load "a"]] [1, 1, 0, 0, 0, 0, 1, 1]
    c.th.map (·.log) = [[.reported "PARSE_ERROR"], [.notfound]] ∧ c.reads.count "a" = 1 ∧ lk "a" c.es = some none ∧
    fileOf "a" c.files = none := by
  decide

def fileA : List (Key × V) := [("a", .al "A" 1)]
/-- thread 1 looks `a` up and runs until it is parked between the placeholder and the instantiator; thread 0 then looks
    `a` up: it meets the placeholder -/
def visibleConfig : Config := iter (Config.init fileA [[.load "a"], [.load "a"]]) [1, 1, 1, 1, 1, 1, 1, 0]

/-- the known finding in the model: a name that HAS a file is answered not-found while its instantiation is in progress
    (the schedule `1 1` of the finding's witness op) -/
theorem C13_placeholder_visible :
    Reachable (Config.init fileA [[.load "a"], [.load "a"]]) visibleConfig ∧ fileOf "a" visibleConfig.files = some (.al "A" 1) ∧
    (visibleConfig.th.map (·.log)) = [[.notfound], []] ∧ (visibleConfig.th.map (·.pc)) = [.idle, .instRun "a" 0] :=
  ⟨reachable_iter _ _ _ Reachable.init, by decide, by decide, by decide⟩

-- non-vacuity of C13_once_bound: after both threads have finished the name is bound and was read once
example : let c := iter visibleConfig [1, 1, 1, 1]
    lk "a" c.es = some (some (.al "A" 1)) ∧ c.reads.count "a" = 1 ∧ c.th.map (·.log) = [[.notfound], [.found (.al "A" 1)]] := by
  decide

end Pcore.Instantiate

/-! ### lazily built type caches -/
namespace Pcore.LazyCache

/-- a table that satisfies the discipline and knows the four fill functions configures the model with publication last -/
theorem C13_cfg_of_table (tbl : List CacheSite) (h : publishAfterInit tbl = true)
    (hk : ∀ fn ∈ ["Array.privateReducedType", "Array.privateDetailedType", "Hash.privateReducedType", "Hash.privateDetailedType"],
      tbl.any (·.fn == fn) = true) : Cfg.ofTable tbl = cleanCfg := by
  have hall : ∀ fn, (tbl.filter (·.fn == fn)).all (·.publishLast) = true := by
    intro fn
    rw [List.all_eq_true]
    intro x hx
    exact List.all_eq_true.mp h x (List.mem_filter.mp hx).1
  simp only [Cfg.ofTable, fnPublishesLast, hall, Bool.and_true, cleanCfg]
  rw [hk _ (by simp), hk _ (by simp), hk _ (by simp), hk _ (by simp)]
  rfl

/-- publication last ⇒ an inferred type is never observed half-built: under every interleaving of any number of threads
    every `PType()` / `DetailedValueType` / `String()` of the shared value answers what a single goroutine gets -/
theorem C13_lazy_caches (tbl : List CacheSite) (h : publishAfterInit tbl = true)
    (hk : ∀ fn ∈ ["Array.privateReducedType", "Array.privateDetailedType", "Hash.privateReducedType", "Hash.privateDetailedType"],
      tbl.any (·.fn == fn) = true)
    (k : Kind) (n : Nat) (progs : List (List COp)) (c : Config)
    (hr : Reachable (Cfg.ofTable tbl) (Config.init k n progs) c) : ∀ t ∈ c.th, ∀ o ∈ t.log, o = .full := by
  rw [C13_cfg_of_table tbl h hk] at hr
  exact (CInv_reachable (CInv_init k n progs) hr).2

/-- the code as it is does not follow the discipline (known finding C13-type-cache-published-before-init) … -/
theorem C13_publish_order_fails : publishAfterInit Pcore.Generated.cacheSites = false := by decide

/-- every OTHER lazily initialised field found in the anchored type and value files (StructType.hashedMembers, the
    typedName caches, Hash.index, objectType.ctor …) is only ever assigned a complete value: the obligation a change like
    "store the empty map, then fill it in place" breaks -/
theorem C13_publish_ok : publishOKExcept knownPublishFirst Pcore.Generated.cacheSites = true := by decide

-- the shape it rejects: the field assigned, the object completed afterwards (e.g. double-checked locking around a map
-- that is published empty)
example : publishOKExcept knownPublishFirst
    (Pcore.Generated.cacheSites ++ [{ fn := "StructType.HashedMembers", field := "hashedMembers", publishLast := false }]) = false := by decide

/-- … and a second reader does see the half-built type: thread 0 is parked right after publishing the reduced type of a
    one-element Array when thread 1 asks for it (the schedule `0 1` of the finding's first witness op) -/
theorem C13_cache_half_built :
    ∃ c, Reachable (Cfg.ofTable Pcore.Generated.cacheSites) (Config.init .arr 1 [[.ptype], [.ptype]]) c ∧
      ∃ t ∈ c.th, Obs.half ∈ t.log :=
  ⟨_, Reachable.step 1 (Reachable.step 0 Reachable.init), by decide⟩

/-- `C13_lazy_caches` for Arrays that hold any number of slow elements (the fill can be preempted inside its fold) -/
theorem C13_lazy_caches_slow (tbl : List CacheSite) (h : publishAfterInit tbl = true)
    (hk : ∀ fn ∈ ["Array.privateReducedType", "Array.privateDetailedType", "Hash.privateReducedType", "Hash.privateDetailedType"],
      tbl.any (·.fn == fn) = true)
    (k : Kind) (n slow : Nat) (progs : List (List COp)) (c : Config)
    (hr : Reachable (Cfg.ofTable tbl) (Config.init k n progs slow) c) : ∀ t ∈ c.th, ∀ o ∈ t.log, o = .full := by
  rw [C13_cfg_of_table tbl h hk] at hr
  exact (CInv_reachable (CInv_init k n progs slow) hr).2

/-- obligation over the regenerated table of COMPLETION WRITES (the writes through a published cache pointer, between the
    publication and the return of the five recorded fill functions): every location of a published object is written at
    most once, with its final value — `once`, or slot i of a slice inside the loop over i.  An in-place fold
    (`av.reducedType.typ = commonType(av.reducedType.typ, …)` in the loop over the elements) breaks it. -/
theorem C13_publish_completion_ok : completionOK Pcore.Generated.cacheWrites = true := by decide

/-- for ANY pair of tables whose completion writes satisfy the discipline — whether or not the publications come last —
    no reader, under any interleaving, with any number of slow elements, is ever handed a type that is not a type of the
    value: what a reader of a half-built cache gets is the placeholder or a final component (`half`: imprecise, never
    `narrow`) -/
theorem C13_cache_never_narrow (sites : List CacheSite) (writes : List CacheWrite) (h : completionOK writes = true)
    (k : Kind) (n slow : Nat) (progs : List (List COp)) (c : Config)
    (hr : Reachable (Cfg.ofTables sites writes) (Config.init k n progs slow) c) : ∀ t ∈ c.th, Obs.narrow ∉ t.log :=
  NInv_reachable (NoFold_ofTables sites writes h) (NInv_init k n progs slow) hr

/-- instantiated on the code as it is now (the model the `cache` lines run on the Lean side) -/
theorem C13_impl_never_narrow (k : Kind) (n slow : Nat) (progs : List (List COp)) (c : Config)
    (hr : Reachable (Cfg.ofTables Pcore.Generated.cacheSites Pcore.Generated.cacheWrites) (Config.init k n progs slow) c) :
    ∀ t ∈ c.th, Obs.narrow ∉ t.log :=
  C13_cache_never_narrow _ _ C13_publish_completion_ok k n slow progs c hr

/-- the table the extractor emits for an in-place fold of the Array's element type -/
def foldWrites : List CacheWrite :=
  [{ fn := "Array.privateReducedType", target := "av.reducedType.typ", shape := .repeated },
   { fn := "Array.privateReducedType", target := "av.reducedType.typ", shape := .repeated }]

/-- REFUTED DISCIPLINE: with an in-place fold a second reader is handed a type that is not a type of the Array — thread 0
    is parked inside its fold (at the slow element) when thread 1 asks -/
theorem C13_cache_fold_narrow :
    completionOK foldWrites = false ∧
    ∃ c, Reachable (Cfg.ofTables Pcore.Generated.cacheSites foldWrites) (Config.init .arr 2 [[.ptype], [.ptype]] 1) c ∧
      ∃ t ∈ c.th, Obs.narrow ∈ t.log :=
  ⟨by decide, _, Reachable.step 1 (Reachable.step 0 (Reachable.step 0 Reachable.init)), by decide⟩

-- non-vacuity of C13_cache_never_narrow: the same schedule under the current tables: thread 1 gets the placeholder (`half`)
example : (stepAt (Cfg.ofTables Pcore.Generated.cacheSites Pcore.Generated.cacheWrites)
      (stepAt (Cfg.ofTables Pcore.Generated.cacheSites Pcore.Generated.cacheWrites)
        (stepAt (Cfg.ofTables Pcore.Generated.cacheSites Pcore.Generated.cacheWrites) (Config.init .arr 2 [[.ptype], [.ptype]] 1) 0) 0) 1).th.map (·.log)
    = [[], [.half]] := by decide
-- the current table has completion writes of both accepted shapes
example : (Pcore.Generated.cacheWrites.map (·.shape)).contains .once = true ∧ (Pcore.Generated.cacheWrites.map (·.shape)).contains .perIndex = true := by decide

-- non-vacuity of C13_lazy_caches: the table the extractor would emit for publication-last code meets the hypotheses
def fixedSites : List CacheSite := Pcore.Generated.cacheSites.map fun s => { s with publishLast := true }
example : publishAfterInit fixedSites = true ∧ Cfg.ofTable fixedSites = cleanCfg := by decide
-- and the current table configures the model with publication first in all four functions
example : Cfg.ofTable Pcore.Generated.cacheSites = { arrRed := true, arrDet := true, hshRed := true, hshDet := true } := by decide
-- added by the audit: the CONCLUSION of C13_lazy_caches on a concrete run — the schedule of `C13_cache_half_built` (thread 0
-- parked right after its first step, thread 1 asks) under the publication-last table answers `full`, under the current table `half`
example : (stepAt (Cfg.ofTable fixedSites) (stepAt (Cfg.ofTable fixedSites) (Config.init .arr 1 [[.ptype], [.ptype]]) 0) 1).th.map (·.log)
      = [[], [.full]] ∧
    (stepAt (Cfg.ofTable Pcore.Generated.cacheSites) (stepAt (Cfg.ofTable Pcore.Generated.cacheSites)
      (Config.init .arr 1 [[.ptype], [.ptype]]) 0) 1).th.map (·.log) = [[], [.half]] := by decide

end Pcore.LazyCache

/-! ### second tie: the regenerated lock-set table -/
namespace Pcore.Lockset

/-- a data race between two access sites: same field, at least one write, both after initialisation, nothing excludes them -/
def Race (a b : Access) : Prop :=
  a.field = b.field ∧ (a.write = true ∨ b.write = true) ∧ a.init = false ∧ b.init = false ∧ excl a b = false

instance (a b : Access) : Decidable (Race a b) := by unfold Race; infer_instance

theorem holds_iff (a : Access) (m : String) (md : Mode) : holds a m md = true ↔ (m, md) ∈ a.held := by
  simp [holds]

theorem excl_of_held (a b : Access) (m : String) (ma mb : Mode) (ha : (m, ma) ∈ a.held) (hb : (m, mb) ∈ b.held)
    (hw : ma = .w ∨ mb = .w) : excl a b = true := by
  unfold excl
  rw [List.any_eq_true]
  refine ⟨(m, ma), ha, ?_⟩
  rw [List.any_eq_true]
  refine ⟨(m, mb), hb, ?_⟩
  rcases hw with rfl | rfl <;> simp

/-- what the discipline gives for a field guarded by `m`: a writer holds `m` exclusively, a reader holds it somehow -/
theorem guarded_holds (a : Access) (m : String) (hi : a.init = false) (hd : disciplineOf a.field = some (.guardedBy m))
    (ok : accessOK a = true) :
    (a.write = true → (m, Mode.w) ∈ a.held) ∧ ((m, Mode.w) ∈ a.held ∨ (m, Mode.r) ∈ a.held) := by
  unfold accessOK at ok
  rw [hi, hd] at ok
  simp only [Bool.false_or] at ok
  by_cases hw : a.write = true
  · simp only [hw, if_true] at ok
    have := (holds_iff a m .w).mp ok
    exact ⟨fun _ => this, Or.inl this⟩
  · simp only [hw, Bool.false_eq_true, if_false, Bool.or_eq_true] at ok
    refine ⟨fun h => absurd h hw, ?_⟩
    rcases ok with ok | ok
    · exact Or.inl ((holds_iff a m .w).mp ok)
    · exact Or.inr ((holds_iff a m .r).mp ok)

/-- for ANY table that satisfies the discipline: no two conflicting accesses with non-excluding lock sets -/
theorem C13_lockset_norace (tbl : List Access) (h : locksetOK tbl = true) :
    ∀ a ∈ tbl, ∀ b ∈ tbl, ¬ Race a b := by
  intro a ha b hb ⟨hf, hw, hia, hib, hex⟩
  have oka : accessOK a = true := List.all_eq_true.mp h a ha
  have okb : accessOK b = true := List.all_eq_true.mp h b hb
  cases hd : disciplineOf a.field with
  | none => unfold accessOK at oka; rw [hia, hd] at oka; cases oka
  | some d =>
    cases d with
    | immutable =>
      unfold accessOK at oka okb
      rw [hia, hd] at oka; rw [hib, ← hf, hd] at okb
      simp only [Bool.false_or, Bool.not_eq_true'] at oka okb
      rcases hw with hw | hw
      · rw [hw] at oka; cases oka
      · rw [hw] at okb; cases okb
    | guardedBy m =>
      have ga := guarded_holds a m hia hd oka
      have gb := guarded_holds b m hib (hf ▸ hd) okb
      have hcontra : excl a b = true := by
        rcases hw with hw | hw
        · rcases gb.2 with g | g
          · exact excl_of_held a b m .w .w (ga.1 hw) g (Or.inl rfl)
          · exact excl_of_held a b m .w .r (ga.1 hw) g (Or.inl rfl)
        · rcases ga.2 with g | g
          · exact excl_of_held a b m .w .w g (gb.1 hw) (Or.inl rfl)
          · exact excl_of_held a b m .r .w g (gb.1 hw) (Or.inr rfl)
      rw [hcontra] at hex; cases hex

/-- obligation over the regenerated table (this is what a code change breaks) -/
theorem C13_lockset_ok : locksetOK Pcore.Generated.locksets = true := by decide

/-- instantiated on the code as it is now -/
theorem C13_impl_norace : ∀ a ∈ Pcore.Generated.locksets, ∀ b ∈ Pcore.Generated.locksets, ¬ Race a b :=
  C13_lockset_norace _ C13_lockset_ok

/-- the runtime's lazily created loaders and its settings (`internal/runtime.go`, `rt.lock`): every site of the
    regenerated table — outside the recorded read sites (`knownUnlockedReads`: none since fix 27da6a6) — follows the discipline; a WRITE needs the lock held
    exclusively (`Lock`), so a lazy create-and-store reached under `RLock` — directly or through an unexported helper such as
    `ensureSystemLoader`, whose lock set is the weakest its call sites give — breaks this obligation -/
theorem C13_rt_lockset_ok : locksetOKExcept knownUnlockedReads Pcore.Generated.rtLocksets = true := by decide

/-- … hence no two of those sites race -/
theorem C13_rt_norace : ∀ a ∈ withoutKnown knownUnlockedReads Pcore.Generated.rtLocksets,
    ∀ b ∈ withoutKnown knownUnlockedReads Pcore.Generated.rtLocksets, ¬ Race a b :=
  C13_lockset_norace _ C13_rt_lockset_ok

/-- since fix 27da6a6 no site is exempted: the WHOLE table follows the discipline -/
theorem C13_rt_lockset_clean : locksetOK Pcore.Generated.rtLocksets = true := by decide

/-- repaired (fix 27da6a6): before it `rt.SystemLoader` returned `p.systemLoader` AFTER `p.lock.Unlock()` — the row the
    extractor emitted for that read is rejected by the discipline and races with the write of `rt.Reset` (the check run
    against the pre-fix tree reports the broken obligation and the `lockrace` line names the pair; no schedule can be
    replayed: there is no instrumented line between the `Unlock` and the `return`) -/
theorem C13_rt_systemloader_read_raced_before_fix :
    accessOK { fn := "rt.SystemLoader", field := "rt.systemLoader", write := false, held := [], init := false } = false ∧
    Race { fn := "rt.Reset", field := "rt.systemLoader", write := true, held := [("lock", .w)], init := false }
         { fn := "rt.SystemLoader", field := "rt.systemLoader", write := false, held := [], init := false } ∧
    (∃ a ∈ Pcore.Generated.rtLocksets, a.fn = "rt.Reset" ∧ a.field = "rt.systemLoader" ∧ a.write = true ∧ a.held = [("lock", .w)]) := by
  decide

-- the shape the obligation rejects: the create-and-store of ensureSystemLoader reached with the lock held shared
example : accessOK { fn := "rt.ensureSystemLoader", field := "rt.systemLoader", write := true, held := [("lock", .r)], init := false } = false := by decide
-- … while a read under the shared lock is fine (rt.Get, rt.Set read the settings map that way)
example : accessOK { fn := "rt.Get", field := "rt.settings", write := false, held := [("lock", .r)], init := false } = true := by decide
-- non-vacuity of C13_rt_norace: the table has a write/write pair on the system loader that only the exclusive lock keeps apart
example : ∃ a ∈ withoutKnown knownUnlockedReads Pcore.Generated.rtLocksets, ∃ b ∈ withoutKnown knownUnlockedReads Pcore.Generated.rtLocksets,
    a.field = b.field ∧ a.write = true ∧ b.write = true ∧ a.fn = "rt.Reset" ∧ b.fn = "rt.ensureSystemLoader" := by decide

-- non-vacuity: the table has conflicting pairs (a write and a read of the entry map) that only the lock keeps apart
example : ∃ a ∈ Pcore.Generated.locksets, ∃ b ∈ Pcore.Generated.locksets,
    a.field = b.field ∧ a.write = true ∧ b.write = false ∧ a.fn = "basicLoader.SetEntry" ∧ b.fn = "basicLoader.GetEntry" := by
  decide
-- the discipline rejects the pre-fix shapes: the unlocked iteration of Discover, the in-place overwrite of a handed-out
-- entry, an unknown idiom
example : accessOK { fn := "basicLoader.Discover", field := "basicLoader.namedEntries", write := false, held := [], init := false } = false := by decide
example : accessOK { fn := "basicLoader.SetEntry", field := "loaderEntry.value", write := true, held := [("lock", .w)], init := false } = false := by decide
example : accessOK { fn := "f", field := "unknown: x.index in f", write := false, held := [("lock", .w)], init := false } = false := by decide
example : Race { fn := "basicLoader.SetEntry", field := "loaderEntry.value", write := true, held := [("lock", .w)], init := false }
    { fn := "loaderEntry.Value", field := "loaderEntry.value", write := false, held := [], init := false } := by decide

end Pcore.Lockset

/-! ### the declare / resolve queue (`Model/ConcQueue.lean`, table `Generated/QueueSites.lean`) -/
namespace Pcore.ConcQueue

/-- obligation over the regenerated table of the guarded package-level queues (types.resolvableTypes, resolvableMappings,
    constructorsDecls, internal.resolvableFunctions): every site holds the queue's mutex, every site that hands the slice
    out of its critical section re-points the guarded variable at a new array, and no site re-slices a queue that is
    handed out anywhere.  This is what a change like `resolvableTypes = resolvableTypes[:0]` breaks. -/
theorem C13_queue_sites_ok : queueSitesOK Pcore.Generated.queueSites = true := by decide

/-- the current table configures the model with the `fresh` variant -/
theorem C13_queue_cfg_current : (Cfg.ofTable Pcore.Generated.queueSites).variant = .fresh := by decide

def qsite (fn : String) (kind : SiteKind) (rebind : Rebind := .na) : QueueSite :=
  { fn := fn, var := "types.resolvableTypes", kind := kind, rebind := rebind, held := ["resolvableTypesLock"], init := false }
/-- the shape of the code as it is -/
def freshSites : List QueueSite := [qsite "register" .append, qsite "Pop" .escape .freshIfNonEmpty, qsite "Pop" .fresh]
/-- the table the extractor emits for "no need to allocate a fresh slice every time the list is popped" (`q = q[:0]`) -/
def resliceSites : List QueueSite := [qsite "register" .append, qsite "Pop" .escape .reslice, qsite "Pop" .reslice]
/-- … and for a pop that does not empty the queue (or empties it in a second critical section) -/
def keepSites : List QueueSite := [qsite "register" .append, qsite "Pop" .escape .none]

example : queueSitesOK freshSites = true ∧ (Cfg.ofTable freshSites).variant = .fresh := by decide
-- the discipline rejects both, and the model is configured with the matching variant
example : queueSitesOK resliceSites = false ∧ (Cfg.ofTable resliceSites).variant = .reslice := by decide
example : queueSitesOK keepSites = false ∧ (Cfg.ofTable keepSites).variant = .keep := by decide
-- a copy handed out and the queue re-sliced is fine (nothing escapes), so is `= nil`; an access outside the lock is not
example : siteOK [] { fn := "Pop", var := "types.resolvableTypes", kind := .reslice, rebind := .na, held := ["resolvableTypesLock"], init := false } = true := by decide
example : siteOK [] { fn := "Pop", var := "types.resolvableTypes", kind := .escape, rebind := .fresh, held := ["resolvableTypesLock"], init := false } = true := by decide
example : siteOK [] { fn := "f", var := "types.resolvableTypes", kind := .read, rebind := .na, held := [], init := false } = false := by decide
example : siteOK [] { fn := "f", var := "types.someNewQueue", kind := .append, rebind := .na, held := ["resolvableTypesLock"], init := false } = false := by decide

/-- for ANY table of sites that satisfies the discipline the model is the `fresh` variant: the theorems below apply -/
theorem C13_queue_cfg_of_table (tbl : List QueueSite) (h : queueSitesOK tbl = true) : (Cfg.ofTable tbl).variant = .fresh :=
  variantOf_fresh tbl _ h

/-- the clause of the property for the declare / resolve queue: whatever the interleaving, once every goroutine has
    finished, every declared type is either still pending (once, untouched) or was bound exactly once and resolved exactly
    once -/
def C13_queue_full (cfg : Cfg) : Prop :=
  ∀ (pend : Nat) (progs : List (List QOp)) (c : Config), Reachable cfg (Config.init cfg pend progs) c → Quiescent c →
    allItemsOK c.sh = true

/-- under EVERY interleaving of any number of goroutines that declare and resolve (any initial capacity, any growth policy
    of `append`): no declared type is ever bound twice or resolved twice -/
theorem C13_queue_once (cfg : Cfg) (hv : cfg.variant = .fresh) (pend : Nat) (progs : List (List QOp)) (c : Config)
    (hr : Reachable cfg (Config.init cfg pend progs) c) (x : Nat) : c.sh.bound.count x ≤ 1 ∧ c.sh.resolved.count x ≤ 1 := by
  have hi := Inv_reachable cfg hv (Inv_init cfg pend progs) hr
  have h1 := hi.a1 x
  have h2 := hi.a2 x
  have h3 := hi.a3 x
  have hb := occ_le_occ bdone batch x c.th (bdone_le_batch x)
  have hr' := occ_le_occ rdone batch x c.th (rdone_le_batch x)
  split at h1 <;> omega

/-- … and only declared types are ever bound or resolved -/
theorem C13_queue_declared_only (cfg : Cfg) (hv : cfg.variant = .fresh) (pend : Nat) (progs : List (List QOp)) (c : Config)
    (hr : Reachable cfg (Config.init cfg pend progs) c) (x : Nat) (hx : x ∈ c.sh.bound ∨ x ∈ c.sh.resolved ∨ x ∈ qItems c.sh) :
    x < c.sh.next := by
  have hi := Inv_reachable cfg hv (Inv_init cfg pend progs) hr
  have h1 := hi.a1 x
  have h2 := hi.a2 x
  have h3 := hi.a3 x
  have hb := occ_le_occ bdone batch x c.th (bdone_le_batch x)
  have hr' := occ_le_occ rdone batch x c.th (rdone_le_batch x)
  have hc : 0 < c.sh.bound.count x ∨ 0 < c.sh.resolved.count x ∨ 0 < (qItems c.sh).count x := by
    rcases hx with hx | hx | hx
    · exact Or.inl (List.count_pos_iff.mpr hx)
    · exact Or.inr (Or.inl (List.count_pos_iff.mpr hx))
    · exact Or.inr (Or.inr (List.count_pos_iff.mpr hx))
  split at h1
  · assumption
  · omega

/-- the full clause holds of the variant the code has -/
theorem C13_queue_exactly_once (cfg : Cfg) (hv : cfg.variant = .fresh) : C13_queue_full cfg := by
  intro pend progs c hr hq
  have hi := Inv_reachable cfg hv (Inv_init cfg pend progs) hr
  have hidle : ∀ t ∈ c.th, t.pc = .idle := by
    intro t ht
    have := hq t ht
    simp only [Thread.finished, Bool.and_eq_true, decide_eq_true_eq] at this
    exact this.1
  unfold allItemsOK
  rw [List.all_eq_true]
  intro x hx
  have hx' : x < c.sh.next := List.mem_range.mp hx
  have h1 := hi.a1 x
  have h2 := hi.a2 x
  have h3 := hi.a3 x
  rw [occ_idle batch rfl x _ hidle] at h1
  rw [occ_idle bdone rfl x _ hidle] at h2
  rw [occ_idle rdone rfl x _ hidle] at h3
  simp only [hx', if_true] at h1
  unfold itemOK
  by_cases hq0 : (qItems c.sh).count x = 0
  · have : c.sh.fin.count x = 1 := by omega
    simp [hq0, h2, h3, this]
  · have hq1 : (qItems c.sh).count x = 1 := by omega
    have : c.sh.fin.count x = 0 := by omega
    simp [hq1, h2, h3, this]

/-- when a type is about to be resolved, it and every type taken over together with it are bound already (the reason
    `resolveResolvables` has two loops: a type may refer to another one of the same batch by name) -/
theorem C13_queue_bound_before_resolve (cfg : Cfg) (hv : cfg.variant = .fresh) (pend : Nat) (progs : List (List QOp)) (c : Config)
    (hr : Reachable cfg (Config.init cfg pend progs) c) (t : Thread) (ht : t ∈ c.th) (s : Slice) (b : List Item) (j : Nat) (y : Item)
    (ev : List Ev) (hpc : t.pc = .resCall s b j y ev) : y ∈ b ∧ ∀ z ∈ b, z ∈ c.sh.bound := by
  have hi := Inv_reachable cfg hv (Inv_init cfg pend progs) hr
  have hp := hi.p t ht
  rw [hpc] at hp
  refine ⟨List.mem_of_getElem? hp.2, fun z hz => ?_⟩
  have h2 := hi.a2 z
  have hge := occ_ge bdone z c.th t ht
  rw [hpc] at hge
  have : 0 < b.count z := List.count_pos_iff.mpr hz
  simp only [bdone] at hge
  exact List.count_pos_iff.mp (by omega)

/-- what a goroutine reads through the slice it took over — outside the lock — is what the slice held when it was popped,
    whatever has been declared since; and reading it never faults -/
theorem C13_queue_reads_popped (cfg : Cfg) (hv : cfg.variant = .fresh) (pend : Nat) (progs : List (List QOp)) (c : Config)
    (hr : Reachable cfg (Config.init cfg pend progs) c) (t : Thread) (ht : t ∈ c.th) :
    (∀ ev, Ans.fault ev ∉ t.log) ∧
    (∀ s b j ev, (t.pc = .bindRead s b j ev ∨ t.pc = .resRead s b j ev) → j < s.len → slotAt c.sh.heap s j = b[j]? ∧ j < b.length) := by
  have hi := Inv_reachable cfg hv (Inv_init cfg pend progs) hr
  refine ⟨hi.f t ht, fun s b j ev hpc hj => ?_⟩
  have hp := hi.p t ht
  rcases hpc with hpc | hpc <;> (rw [hpc] at hp; exact ⟨slotAt_eq hp.1 hj, by rw [← hp.1.1]; exact hj⟩)

/-- instantiated on the code as it is now (the model the `declq` lines run on the Lean side) -/
theorem C13_queue_impl_exactly_once : C13_queue_full (Cfg.ofTable Pcore.Generated.queueSites) :=
  C13_queue_exactly_once _ (C13_queue_cfg_of_table _ C13_queue_sites_ok)

def resliceCfg : Cfg := { cleanCfg with variant := .reslice }
def keepCfg : Cfg := { cleanCfg with variant := .keep }

/-- one type is pending; thread 0 takes the list over and is parked before it binds the type; thread 1 declares a second
    type; thread 0 goes on -/
def lostConfig : Config := execute resliceCfg 1 [[.resolve], [.decl]] [0, 1, 0, 0]

/-- REFUTED VARIANT (shared backing array): the declaration of thread 1 lands in slot 0 of the array thread 0 is still
    reading — type 0 is bound but NEVER resolved by anybody (it is no longer pending), type 1 is resolved although it is
    still pending (whoever pops next resolves it a second time).  The same schedule is run on the implementation by every
    check (`declq (pend 1) (threads (th resolve) (th decl)) (sched 0 1 0 0)`). -/
theorem C13_queue_reslice_loses :
    Reachable resliceCfg (Config.init resliceCfg 1 [[.resolve], [.decl]]) lostConfig ∧ Quiescent lostConfig ∧
    lostConfig.sh.next = 2 ∧ qItems lostConfig.sh = [1] ∧ lostConfig.sh.bound = [0] ∧ lostConfig.sh.resolved = [1] ∧
    allItemsOK lostConfig.sh = false :=
  ⟨reachable_execute _ _ _ _, by decide +kernel, by decide +kernel, by decide +kernel, by decide +kernel, by decide +kernel,
    by decide +kernel⟩

/-- REFUTED VARIANT (the queue is never emptied): two goroutines that resolve one after the other both resolve type 0 -/
theorem C13_queue_keep_resolves_twice :
    let c := execute keepCfg 1 [[.resolve], [.resolve]] []
    Quiescent c ∧ c.sh.resolved = [0, 0] ∧ allItemsOK c.sh = false := by
  decide +kernel

-- the same two runs in the variant the code has: everything is accounted for
example : allItemsOK (execute cleanCfg 1 [[.resolve], [.decl]] [0, 1, 0, 0]).sh = true ∧
    allItemsOK (execute cleanCfg 1 [[.resolve], [.resolve]] []).sh = true := by decide +kernel

end Pcore.ConcQueue

namespace Pcore.ConcQueue

/-- the full clause is FALSE of both refuted variants -/
theorem C13_queue_full_fails_reslice : ¬ C13_queue_full resliceCfg := by
  intro h
  have := h 1 [[.resolve], [.decl]] lostConfig C13_queue_reslice_loses.1 C13_queue_reslice_loses.2.1
  rw [C13_queue_reslice_loses.2.2.2.2.2.2] at this
  cases this

theorem C13_queue_full_fails_keep : ¬ C13_queue_full keepCfg := by
  intro h
  have := h 1 [[.resolve], [.resolve]] (execute keepCfg 1 [[.resolve], [.resolve]] []) (reachable_execute _ _ _ _)
    C13_queue_keep_resolves_twice.1
  rw [C13_queue_keep_resolves_twice.2.2] at this
  cases this

-- non-vacuity of C13_queue_bound_before_resolve / C13_queue_reads_popped: thread 0 took two types over, has bound both and
-- is parked before the first Resolve while thread 1 has declared a third type into the (new) queue array
def midConfig : Config := runSched cleanCfg (Config.init cleanCfg 2 [[.resolve], [.decl]]) [0, 0, 0, 1]
example : (midConfig.th.map (·.pc)) = [.resCall ⟨0, 2⟩ [0, 1] 0 0 [.bind 0, .bind 1], .idle] ∧ midConfig.sh.bound = [0, 1] ∧
    qItems midConfig.sh = [2] ∧ midConfig.sh.q = ⟨1, 1⟩ := by decide +kernel
-- non-vacuity of C13_queue_exactly_once: a quiescent run in which one type stays pending and three were resolved, the
-- first array (capacity 2 here) having overflowed
example : let c := execute { cleanCfg with cap0 := 2 } 3 [[.resolve], [.decl]] [0, 1, 0, 0]
    Quiescent c ∧ qItems c.sh = [3] ∧ c.sh.resolved = [0, 1, 2] ∧ c.sh.heap.length = 3 := by decide +kernel
-- added by the audit: non-vacuity of the SECOND conjunct of C13_queue_reads_popped (`midConfig` is parked at `resCall`, where
-- that conjunct has no instance): thread 0 has popped two types and is about to READ slot 0 outside the lock (`bindRead`,
-- not a yield point of the scheduler, hence `stepAt`) when thread 1 declares a third type — the popped slice still shows
-- what it held when popped, the new type went into the new queue array
def readConfig : Config := stepAt cleanCfg (stepAt cleanCfg (Config.init cleanCfg 2 [[.resolve], [.decl]]) 0) 1
example : (readConfig.th.map (·.pc)) = [.bindRead ⟨0, 2⟩ [0, 1] 0 [], .idle] ∧ readConfig.sh.next = 3 ∧
    slotAt readConfig.sh.heap ⟨0, 2⟩ 0 = some 0 ∧ slotAt readConfig.sh.heap ⟨0, 2⟩ 1 = some 1 ∧ qItems readConfig.sh = [2] := by
  decide +kernel

end Pcore.ConcQueue
