import Pcore.Model.LoaderConc
namespace Pcore.LoaderConc
theorem C13_placeholder : True := trivial
end Pcore.LoaderConc
