import Pcore.Proofs.DispatchRun
import Pcore.Proofs.DispatchCtors
import Pcore.Proofs.DispatchStruct
import Pcore.Proofs.CtorNum
import Pcore.Proofs.CtorNew
import Pcore.Proofs.CtorCoerce
import Pcore.Proofs.CtorHash
import Pcore.Proofs.CtorBinary
import Pcore.Proofs.CtorTimespan
import Pcore.Proofs.CtorInit
import Pcore.Proofs.CtorCanCoerce
import Pcore.Proofs.DispatchBlocks
import Pcore.Model.CtorNew
import Pcore.Generated.FnFacts
/-!
# C16 — Dispatch and construction are type-safe

Property (properties.jsonl): for every function assembled from typed dispatches and every argument list and block, the
body that runs is that of the first dispatch whose declared parameter types, arity and block requirement the arguments
satisfy, no body ever runs with arguments outside its declaration, and when no dispatch matches a reported argument error
is raised.  Creating an instance of a type with `new` yields an instance of that type or a reported error, never a value
outside the type.

All theorems are for ARBITRARY parameter types `T`, values `V`, membership `inst : T → V → Bool`, block types `BT`, blocks
`B` and block acceptance `binst : BT → B → Bool`, any table, any argument list (inductions over lists).

Full statement / proved / missing
* `C16_builder_inv`    — after any accepted sequence of builder calls the state is the declaration's: `types` are the
                         declared parameter types in order, the kinds have the shape required* optional* (repeated |
                         required-repeated-without-optionals)?, `min` = #required, `max` = #parameters or unbounded, and the
                         block fields hold the one declared block (or none).
* `C16_builder_arith`  — the same in plain arithmetic: `min ≤ max`, `types.length = #params`, bounded ⇒ `max = #params` and no
                         repeated parameter, unbounded ⇒ the *last* parameter, and only it, is repeated.
* `C16_builder_rejects`— required after optional, anything after repeated, a second block, `Function` with a block and
                         `Function2` without one are rejected (the panics), for any prefix.
* `C16_resolves`       — `createDispatch` of an accepted builder never hits the `NewIntegerType(min > max)` error.
* `C16_first`          — `call = ran i` ⇒ dispatch `i` exists, is callable, and no earlier one is; `C16_first_conv` the converse.
* `C16_safe`           — `callableWith d args blk` ⇔ arity within `[min,max]`, every argument `j` an instance of type
                         `min(j,last)`, block requirement met (both directions: nothing outside the declaration is accepted,
                         nothing inside it is refused).
* `Alpha.C16_block_accepts` — for a declared block type with parameter types, `Callable[T1,…,Tn,a,b]`: the block is accepted IFF
                         it takes every call the declaration allows (every count in `[a,b]`, argument `j` of type
                         `T[min(j,last)]`); the acceptance test compares the LONGER of the two type lists.
* `C16_nomatch`        — `call = reported` ⇔ no dispatch is callable.
* `C16_call_stateless`, `C16_call_history_free`, `C16_runSeq_first` — a sequence of calls on ONE resolved function object
                         (`callSeq` threads the object through `callStep`) is the single-call semantics applied call by call:
                         the answer is a function of (table, arguments, block) only, the same arguments get the same answer at
                         every position, and each call runs the first creator whose declaration it satisfies.  (The model's
                         `goFunction` has the fields the code has — `name`, `dispatchers` — and `Call` writes none: `C16_fn_facts`, by
                         `decide` over the facts regenerated from internal/function.go on every run; the op
                         `calls` compares whole sequences with the implementation.)
* `C16_decl`           — for a dispatch built by an accepted builder sequence the tuple test equals the *positional reading of
                         the declaration* (`DeclAccepts`: every required parameter receives an argument, no surplus arguments
                         without a repeated parameter, argument `j` ∈ type of parameter `min(j,last)`), which does not mention
                         `min`/`max` at all.
* `C16_run_first`, `C16_run_nomatch`, `C16_run_no_fault` — end to end over the builder calls of a whole table: the body that
                         runs belongs to the first creator whose declaration the arguments and block satisfy; `reported` iff
                         none; the resolve error is unreachable.
* `C16_new`            — `newInstance recv args = value r` ⇒ `r` is an instance of the receiver (of the contained type for
                         `Init[T]`), for every constructor function, hence never a value outside the type; `C16_new_outside`:
                         a constructor result outside the type becomes `reported TYPE_MISMATCH`.
* `Alpha.C16_newm`, `Alpha.C16_ctor_no_fault` — for the constructors modelled end to end on the driver's alphabet
                         (Integer, Float, Numeric, Boolean, Binary, Timespan, Array/Tuple, Hash/Struct with the tree-array dispatch: dispatch
                         table built by the same builder, body, assertion; also through
                         `Init[T]`): the value that comes out is in the receiver type, and no type assertion / index of a body
                         can fail because a body only runs with arguments its declaration accepts (compared value by value
                         with the real constructors by the op `newm`).
* `Alpha.C16_new_struct` — `Struct[{…}].new` (also through `Init`), for every argument list and every dispatch of the
                         modelled Hash constructor: the result has only declared keys and every member is present with a
                         value of its type or optional and absent — the final assertion is on the result VALUE (a hash with
                         an empty / non-string / undeclared key is reported although its inferred `Hash[K,V,n,n]` type is
                         one the Struct is assignable from).  Rests on `inst_struct` (Proofs/DispatchStruct.lean): the count
                         `matched == Len()` of `StructType.IsInstance` read declaratively.
* `Alpha.C16_float_new`, `Alpha.C16_numeric_new`, `Alpha.C16_float_ctor`, `Alpha.C16_numeric_ctor` — the Float and Numeric
                         constructors (positional and named-argument dispatch, `fromConvertible`, `abs`; `strconv.ParseFloat`
                         is an arbitrary function `pf`): the body answers a float (Float) / an integer or a float (Numeric)
                         or the reported argument error, for ANY argument list; hence `Numeric.new` never ends in
                         TYPE_MISMATCH and what `Float[lo,hi].new` returns is a float within the bounds (never NaN).
* `Alpha.C16_float_named_positional`, `Alpha.C16_numeric_named_positional` — `T.new({from => x, abs => a})` is
                         `T.new(x, a)` for ANY values `x`, `a`, and `T.new({from => x})` is `T.new(x)` for every `x` that
                         is not itself a hash.
* `Alpha.C16_number_abs` — with `abs = true` the Numeric / Float constructor answers a non-negative integer (or the minimum
                         integer, whose negation wraps) or `|f|` of a float, which is never `< 0` (`F64.abs_not_neg`).
* `Alpha.C16_string_signature` — the String constructor's signature `(Any, Optional[Variant[Default, String[1], TypeMap]])`: every
                         value alone is accepted (every value is an instance of `Init[String]`); the body is modelled for the
                         format-less scalar cases only (formatting is C20's subject).
* `Alpha.C16_timespan_new`, `Alpha.C16_timespan_fields` — the Timespan constructor (five dispatches: seconds as Integer / Float,
                         a string in one of the eight default formats, positional fields, `{string}`, named fields; int64
                         wrap-around; user-supplied formats are NOT modelled): the result is a Timespan within the bounds;
                         `Timespan.new(n)` is `n·10^9` ns whenever that fits; named fields ≡ positional fields.
* `Alpha.C16_binary_roundtrip`, `Alpha.C16_binary_named_forms` — the Binary constructor (four dispatches; `%b` / `%u` / `%B`
                         base64 with Go's newline skipping and padding rules, `%s` / `%r`; the strict decoder is the codec of
                         the serialization model, reused): `Binary.new(base64 text of bs)` = `Binary.new(bytes of bs)` = bs;
                         and the two named forms that the code answers with an error for every input.
* `Alpha.C16_hash_pairs`, `Alpha.C16_hash_tree` — `Hash[…].new([[k1,v1],…,[kn,vn]])` is the hash with exactly these entries in
                         this order, asserted against the receiver, whichever dispatch takes the array; the tree walk
                         (`tree` / `hash_tree`, Model/CtorHashTree.lean) answers a hash; its type assertions cannot fail
                         (`C16_ctor_no_fault`), its result is asserted like every other (`C16_newm`, `C16_new_struct`).
* `Alpha.C16_wrapper_new` — `new` on `Optional[T]`, `NotUndef[T]`, `Variant[…]` or an alias reports
                         INSTANCE_DOES_NOT_RESPOND and on `Init[wrapper, …]` CTOR_NOT_FOUND for ANY arguments (no constructor is
                         registered under the wrapper's name; the wrapped type's constructor is not consulted).
* `Alpha.C16_init_args`, `Alpha.C16_init_plain` — `Init[T, a…].new(x…) = T.new(x…, a…)`; without init arguments
                         `Init[T].new(x…) = T.new(x…)` when a signature accepts `x…`, else `T.new(*x)` for a single array; in
                         every case the result is asserted against T (`C16_newm` covers `Init[T, a…]`).
* `Alpha.C16_init_instance`, `Alpha.C16_init_type_quirks` — `InitType.IsInstance`: `v` is an instance of `Init[T, a…]` IFF the
                         call `Init[T, a…].new(v)` makes (`createArgs`) is accepted by a signature of T's constructor; then the
                         body of a creator whose declaration the arguments satisfy runs, otherwise `new` is the dispatch's
                         ILLEGAL_ARGUMENTS.  `Init[wrapper]` raises CTOR_NOT_FOUND from `IsInstance`; the default `Init`
                         accepts every value; `IsAssignable` with a contained type is false for every type (as the code is).
* `Alpha.C16_can_coerce_complete`, `Alpha.C16_can_coerce_not_sound` — `types.CanCoerce`: whatever `CoerceTo(T, v)` converts,
                         `CanCoerce(T, v)` answered true (induction over the type, Struct members included; distinct member
                         names); the converse fails in the code (witnesses: a non-array for an Array type, sizes, an array
                         `Init[T]` would expand, a missing member).
* `Alpha.C16_coerce`, `Alpha.C16_coerce_shape`, `Alpha.C16_coerce_wrapper` — `types.CoerceTo(T, v)` (instance test, ONE
                         `Optional` removed, Array / Hash / Struct element-wise, else `new(T', v)`): the result is an instance
                         of the REQUESTED type T; instances are returned unchanged; `Optional[T]` picks T's constructor;
                         `NotUndef`, `Variant`, aliases and a second `Optional` are not looked into.
* missing / trusted    — the other constructors' bodies (String with a format or a container — C20's subject —, Timespan with
                         user-supplied formats, Timestamp, SemVer, SemVerRange, Regexp, URI, Type, Sensitive, object types) and
                         the Object arm of `CoerceTo` are not modelled: `C16_new` quantifies over an arbitrary constructor
                         function, and the general `new` op of the correspondence run is implementation-only (a test with the
                         direct predicate, not a proof); tree-array keys that contain a hash are refused by the model.
                         `strconv.ParseInt`, `strconv.ParseFloat` on decimal text (an arbitrary function in the theorems),
                         `float64`↔`int64` conversion (amd64 for out-of-range values), `encoding/base64` and the regular
                         expressions of the default Timespan formats are modelled, not verified.  Receiver resolution from a *string* (`px.Load`), the
                         mismatch describer that builds the error text, and `block.PType() == nil` are outside the model.
                         Block types are modelled for the shapes `Callable` and `Callable[min,max]` in the driver; the theorems
                         hold for any `binst`.
-/
namespace Pcore.Dispatch

section
variable {T BT V B : Type}

/-! ### the builder -/

theorem C16_builder_inv (ops : List (BOp T BT)) (b : Builder T BT) (h : steps Builder.init ops = .ok b) :
    ParamInv b (paramsOf ops) ∧ BlockInv b (blocksOf ops) := builder_inv ops b h

theorem C16_builder_arith (ops : List (BOp T BT)) (b : Builder T BT) (h : steps Builder.init ops = .ok b) :
    leMax b.min b.max = true ∧ b.types = (paramsOf ops).map (·.2) ∧ b.types.length = (paramsOf ops).length ∧
    b.min ≤ b.types.length ∧
    (∀ m, b.max = some m → m = b.types.length ∧ ∀ p ∈ paramsOf ops, p.1.repeated = false) ∧
    (b.max = none → ∃ pre p, paramsOf ops = pre ++ [p] ∧ p.1.repeated = true ∧ ∀ q ∈ pre, q.1.repeated = false) :=
  builder_arith ops b h

/-- the panics: for ANY accepted prefix -/
theorem C16_builder_rejects (pre : List (BOp T BT)) (b : Builder T BT) (h : steps Builder.init pre = .ok b) (t : T) (bt : BT) :
    -- anything after a repeated parameter
    ((∃ p ∈ paramsOf pre, p.1.repeated = true) →
        step b (.param t) = .error .afterRepeated ∧ step b (.optional t) = .error .afterRepeated ∧
        step b (.repeated t) = .error .afterRepeated ∧ step b (.requiredRepeated t) = .error .afterRepeated) ∧
    -- required (plain or repeated) after optional
    ((∃ p ∈ paramsOf pre, p.1 = .opt) → (∀ p ∈ paramsOf pre, p.1.repeated = false) →
        step b (.param t) = .error .requiredAfterOptional ∧ step b (.requiredRepeated t) = .error .requiredAfterOptional) ∧
    -- a second block
    (blocksOf pre ≠ [] → step b (.block bt) = .error .blockTwice ∧ step b (.optionalBlock bt) = .error .blockTwice) ∧
    -- Function with a declared block, Function2 without
    (blocksOf pre ≠ [] → finish b .fn = .error .requiresBlock) ∧
    (blocksOf pre = [] → finish b .fn2 = .error .noBlockExpected) := by
  obtain ⟨⟨hty, a, o, tl, hk, hro, hmin, hmax⟩, hb⟩ := C16_builder_inv pre b h
  have hmem : ∀ k, (∃ p ∈ paramsOf pre, p.1 = k) ↔ k ∈ shapeKinds a o tl := by
    intro k; rw [← hk]; simp [List.mem_map]
  refine ⟨?_, ?_, ?_, ?_, ?_⟩
  · rintro ⟨p, hp, hr⟩
    have : tl ≠ .none := by
      intro htl
      have := (shape_no_repeated (a := a) (o := o) (tl := tl)).mpr htl p.1 ((hmem p.1).mp ⟨p, hp, rfl⟩)
      rw [this] at hr; cases hr
    have hmx : b.max = none := by rw [hmax]; cases tl <;> simp_all [tailMax]
    simp [step, hmx]
  · rintro ⟨p, hp, hopt⟩ hnr
    have htl : tl = .none := by
      apply (shape_no_repeated (a := a) (o := o)).mp
      intro k hkm
      obtain ⟨q, hq, rfl⟩ := (hmem k).mpr hkm
      exact hnr q hq
    subst htl
    have ho : 0 < o := by
      have := (hmem .opt).mp ⟨p, hp, hopt⟩
      simp [shapeKinds, Tail.kinds] at this
      omega
    have hlt : ltMax b.min b.max = true := by simp [hmin, hmax, tailMin, tailMax, ltMax]; omega
    have hmax' : b.max = some (a + o) := by simp [hmax, tailMax]
    rw [hmax'] at hlt
    simp [step, hmax', hlt]
  · intro hne
    have : b.blockType.isSome = true := by
      rcases blockInv_cases hb with ⟨h0, _, _⟩ | ⟨bt', _, h1, _⟩ | ⟨bt', _, h1, _⟩
      · exact absurd h0 hne
      · simp [h1]
      · simp [h1]
    simp [step, block2, this, Except.map]
  · intro hne
    have : b.blockType.isSome = true := by
      rcases blockInv_cases hb with ⟨h0, _, _⟩ | ⟨bt', _, h1, _⟩ | ⟨bt', _, h1, _⟩
      · exact absurd h0 hne
      · simp [h1]
      · simp [h1]
    simp [finish, this]
  · intro he
    rw [he] at hb
    simp [finish, hb.1]

/-- `createDispatch` of an accepted builder state never reaches `NewIntegerType(min > max)` -/
theorem C16_resolves (ops : List (BOp T BT)) (b : Builder T BT) (k : FnKind) (h : steps Builder.init ops = .ok b) :
    ∃ d, createDispatch b k = .ok d ∧ d.types = b.types ∧ d.min = b.min ∧ d.max = b.max := resolves ops b k h

/-! ### the call -/

variable (inst : T → V → Bool) (binst : BT → B → Bool)

/-- the arguments and the block satisfy the resolved declaration `d` -/
def Satisfies (d : Dispatch T BT) (args : List V) (blk : Option B) : Prop :=
  d.min ≤ args.length ∧ (∀ m, d.max = some m → args.length ≤ m) ∧
  (d.types = [] ∨ ∀ j v, args[j]? = some v → ∃ t, d.types[min j (d.types.length - 1)]? = some t ∧ inst t v = true) ∧
  BlockSat binst d.block blk

theorem C16_first (ds : List (Dispatch T BT)) (args : List V) (blk : Option B) (i : Nat)
    (h : call inst binst ds args blk = .ran i) :
    ∃ d, ds[i]? = some d ∧ callableWith inst binst d args blk = true ∧
      ∀ j, j < i → ∀ d', ds[j]? = some d' → callableWith inst binst d' args blk = false :=
  call_first inst binst ds args blk i h

theorem C16_first_conv (ds : List (Dispatch T BT)) (args : List V) (blk : Option B) (i : Nat) (d : Dispatch T BT)
    (hd : ds[i]? = some d) (hc : callableWith inst binst d args blk = true)
    (hall : ∀ j, j < i → ∀ d', ds[j]? = some d' → callableWith inst binst d' args blk = false) :
    call inst binst ds args blk = .ran i := by
  simpa [call] using callFrom_first inst binst ds args blk 0 i d hd hc hall

theorem C16_safe (d : Dispatch T BT) (args : List V) (blk : Option B) :
    callableWith inst binst d args blk = true ↔ Satisfies inst binst d args blk := by
  unfold callableWith Satisfies tupleInst sizeOK
  simp only [Bool.and_eq_true, decide_eq_true_eq, blockOK_iff]
  constructor
  · rintro ⟨hb, ⟨hlo, hhi⟩, hl⟩
    refine ⟨hlo, ?_, ?_, hb⟩
    · intro m hm; simpa [hm, leMax] using hhi
    · cases hty : d.types with
      | nil => exact Or.inl rfl
      | cons t ts =>
        right
        rw [hty] at hl
        simpa using (instLoop_iff inst args t ts).mp hl
  · rintro ⟨hlo, hhi, hl, hb⟩
    refine ⟨hb, ⟨hlo, ?_⟩, ?_⟩
    · cases hm : d.max with
      | none => rfl
      | some m => simpa [leMax] using hhi m hm
    · cases hty : d.types with
      | nil => rfl
      | cons t ts =>
        rw [hty] at hl
        rcases hl with hl | hl
        · cases hl
        · exact (instLoop_iff inst args t ts).mpr (by simpa using hl)

theorem C16_nomatch (ds : List (Dispatch T BT)) (args : List V) (blk : Option B) :
    (∀ d ∈ ds, callableWith inst binst d args blk = false) ↔ call inst binst ds args blk = .reported :=
  call_nomatch inst binst ds args blk

/-- the tuple test of a dispatch built by an accepted builder sequence is the positional reading of the declaration
    (`DeclAccepts`, Proofs/DispatchDecl.lean) -/
theorem C16_decl (ops : List (BOp T BT)) (b : Builder T BT) (h : steps Builder.init ops = .ok b) (args : List V) :
    tupleInst inst b.types b.min b.max args = true ↔ DeclAccepts inst (paramsOf ops) args :=
  built_decl inst ops b h args

/-! ### end to end: from the builder calls of a table to the body that runs
`CreatorAccepts c args blk` (Proofs/DispatchRun.lean) = `DeclAccepts` of the creator's parameter calls ∧ `BlockSat` of its
(only) block call. -/

/-- the body that runs is that of the FIRST creator whose declaration the arguments and the block satisfy -/
theorem C16_run_first (cs : List (Creator T BT)) (args : List V) (blk : Option B) (i : Nat)
    (h : run inst binst cs args blk = .called (.ran i)) :
    ∃ c, cs[i]? = some c ∧ CreatorAccepts inst binst c args blk ∧
      ∀ j, j < i → ∀ c', cs[j]? = some c' → ¬ CreatorAccepts inst binst c' args blk :=
  run_first inst binst cs args blk i h

/-- an argument error is reported exactly when no declaration is satisfied -/
theorem C16_run_nomatch (cs : List (Creator T BT)) (args : List V) (blk : Option B)
    (hacc : ∃ bs, buildAll cs = .ok bs) :
    run inst binst cs args blk = .called .reported ↔ ∀ c ∈ cs, ¬ CreatorAccepts inst binst c args blk :=
  run_nomatch inst binst cs args blk hacc

/-- obligation over the facts regenerated from internal/function.go: `goFunction` has no field beyond `name` and
    `dispatchers` and none of its methods writes (or takes the address of) a receiver field — the function object carries
    no call history.  A code change that adds such state breaks this obligation -/
theorem C16_fn_facts : FnStateless Pcore.Generated.fnFacts = true := by decide

/-- the answer to a call is a function of (table, arguments, block) only: in any sequence of calls on one resolved function
    the `k`-th answer is `call` of the `k`-th arguments — whatever was called before -/
theorem C16_call_stateless (s : FnState T BT) (calls : List (List V × Option B)) :
    callSeq inst binst s calls = calls.map fun c => call inst binst s.dispatchers c.1 c.2 :=
  callSeq_map inst binst calls s

/-- hence the same arguments and block get the same answer at every position of every sequence -/
theorem C16_call_history_free (s : FnState T BT) (calls : List (List V × Option B)) (i j : Nat) (c : List V × Option B)
    (hi : calls[i]? = some c) (hj : calls[j]? = some c) :
    (callSeq inst binst s calls)[i]? = (callSeq inst binst s calls)[j]? := by
  simp [C16_call_stateless, List.getElem?_map, hi, hj]

/-- and end to end: the body that runs for call `k` of a sequence is that of the first creator whose declaration its
    arguments and block satisfy -/
theorem C16_runSeq_first (cs : List (Creator T BT)) (calls : List (List V × Option B)) (os : List Outcome)
    (h : runSeq inst binst cs calls = .called os) (k i : Nat) (hk : os[k]? = some (.ran i)) :
    ∃ c, calls[k]? = some c ∧ run inst binst cs c.1 c.2 = .called (.ran i) := by
  unfold runSeq at h
  cases hb : buildAll cs with
  | error p => simp [hb] at h
  | ok bs =>
    simp only [hb] at h
    cases hr : resolveAll bs with
    | error e => simp [hr] at h
    | ok ds =>
      simp only [hr] at h
      cases h
      rw [C16_call_stateless, List.getElem?_map] at hk
      cases hc : calls[k]? with
      | none => simp [hc] at hk
      | some c =>
        simp [hc] at hk
        exact ⟨c, rfl, by simp [run, hb, hr, hk]⟩

/-- an accepted table always resolves: the `NewIntegerType` error of `createDispatch` is unreachable -/
theorem C16_run_no_fault (cs : List (Creator T BT)) (args : List V) (blk : Option B) (e : ResolveError) :
    run inst binst cs args blk ≠ .resolveFailed e :=
  run_no_fault inst binst cs args blk e


end

/-! ### `new` -/

section
variable {T V : Type} (inst : T → V → Bool)

/-- (`Recv.type?`, Proofs/CtorNew.lean: the type a `new` on this receiver must produce an instance of — the receiver, the
    contained type for `Init[T]`) -/
theorem C16_new (recv : Recv T V) (args : List V) (r : V) (h : newInstance inst recv args = .value r) :
    ∃ t, recv.type? = some t ∧ inst t r = true := newInstance_value inst recv args r h

/-- a constructor result outside the type is turned into a reported error -/
theorem C16_new_outside (t : T) (f : List V → CtorResult V) (args : List V) (v : V) (hf : f args = .value v)
    (ho : inst t v = false) :
    newInstance inst (.ctor t f) args = .reported "TYPE_MISMATCH" ∧
    newInstance inst (.init t f) args = .reported "TYPE_MISMATCH" := by
  simp [newInstance, hf, assertInstance, ho]

end

/-! ### non-vacuity: the hypotheses are met by non-trivial cases (the driver's alphabet) -/

namespace Alpha

/-! ### block acceptance for typed declared block types -/

/-- a declared block type `Callable[T1,…,Tn,a,b]` accepts a block IFF the block takes every call the declaration allows — every
    argument count in `[a,b]`, argument `j` of the declared type at position `min(j, last)`: `binst` (the model of
    `CallableType.IsAssignable` over `TupleType.IsAssignable` that `CallableWith` uses, with its position loop over the LONGER of
    the two type lists) is exactly that meaning.  With `C16_safe` / `C16_first`: a body whose dispatch declares a typed block
    runs only with a block it can call in every declared way -/
theorem C16_block_accepts (ts : List BP) (hts : ts ≠ []) (a : Nat) (b : Option Nat) (hab : leMax a b = true) (k : Blk) :
    binst (.typed ts a b) k = true ↔ ∀ n, a ≤ n → leMax n b = true → TakesCall k n (typeAt ts) :=
  binst_typed_iff ts hts a b hab k

-- `Callable[String,Integer,2,3]`: a block (String, Integer, Integer?) is accepted, (String, Integer, String?) — incompatible
-- only beyond the declared list — and the shorter (String, Integer) are refused; a longer declaration against a shorter block
example : [BP.str, BP.int] ≠ [] ∧ leMax 2 (some 3) = true := by decide
example : binst (.typed [.str, .int] 2 (some 3)) { min := 2, max := some 3, types := [.str, .int, .int] } = true := by decide
example : binst (.typed [.str, .int] 2 (some 3)) { min := 2, max := some 3, types := [.str, .int, .str] } = false := by decide
example : binst (.typed [.str, .int] 2 (some 3)) { min := 2, max := some 2, types := [.str, .int] } = false := by decide
example : binst (.typed [.str, .int] 2 (some 3)) { min := 1, max := none, types := [.str, .num] } = true := by decide
example : binst (.typed [.str, .int, .bool] 1 (some 2)) { min := 1, max := some 3, types := [.str, .int, .str] } = true := by decide
example : binst (.typed [.num, .bool] 1 none) { min := 1, max := none, types := [.num] } = false := by decide
example : run inst binst
    [ { ops := [.param (.str 0 none), .block (.typed [.str, .int] 2 (some 3))], kind := .fn2 }, { ops := [.repeated .any], kind := .fn } ]
    [.str "a"] (some { min := 2, max := some 3, types := [.str, .int, .str] }) = .called .reported := by decide

/-! ### the modelled constructors on the alphabet values: `new` end to end
`pf` is `strconv.ParseFloat(·, 64)` as a function from the text to the bits of the result: every theorem is for an ARBITRARY
`pf`; the driver (and the examples) use the exact reader of Model/Num.lean. -/

section
variable (pf : List Char → Option Nat)

/-- what `new` returns is an instance of the receiver (of the contained type for `Init[T]`) — for the modelled
    constructors of Integer, Boolean, Array/Tuple and Hash/Struct: the assertion is made on the constructor's result VALUE -/
theorem C16_newm (r : RecvTy) (args : List Val) (v : Val) (h : newModel pf r args = some (.value v)) :
    ∃ t, r.type? = some t ∧ inst t v = true := newModel_value pf r args v h

theorem newInstance_no_fault {T V : Type} (inst : T → V → Bool) (recv : Recv T V) (args : List V)
    (hf : ∀ t f, (recv = .ctor t f ∨ recv = .init t f) → f args ≠ .fault) : newInstance inst recv args ≠ .fault := by
  cases recv with
  | noCtor t => simp [newInstance]
  | initNoCtor => simp [newInstance]
  | initDefault => simp [newInstance]
  | ctor t f =>
    have := hf t f (Or.inl rfl)
    simp only [newInstance]
    cases h : f args with
    | fault => exact absurd h this
    | reported _ => simp
    | value v => simp only [assertInstance]; split <;> simp
  | init t f =>
    have := hf t f (Or.inr rfl)
    simp only [newInstance]
    cases h : f args with
    | fault => exact absurd h this
    | reported _ => simp
    | value v => simp only [assertInstance]; split <;> simp

theorem ctorOf_no_fault (t : Ty) (c : Ctor) (h : ctorOf pf t = .some c) : ∀ a, ctorCall c a ≠ .fault := by
  cases t <;> simp [ctorOf] at h <;> subst h <;>
    first | exact integer_no_fault | exact boolean_no_fault | exact array_no_fault | exact hash_no_fault
          | exact float_no_fault pf | exact numeric_no_fault pf | exact binary_no_fault | exact timespan_no_fault | exact string_no_fault

/-- no type assertion or index in the bodies of the modelled constructors can fail: a body runs only with arguments its
    declaration accepts -/
theorem C16_ctor_no_fault (r : RecvTy) (args : List Val) : newModel pf r args ≠ some .fault := by
  intro h
  obtain ⟨recv, hr, hn⟩ := newModel_some pf r args _ h
  refine newInstance_no_fault inst recv args ?_ hn
  intro t f hrf
  cases r with
  | plain t0 =>
    simp only [recvOf] at hr
    cases hct : ctorOf pf t0 with
    | none => simp [hct] at hr; subst hr; simp at hrf
    | some c =>
      simp [hct] at hr; subst hr
      rcases hrf with hrf | hrf <;> simp at hrf
      obtain ⟨_, rfl⟩ := hrf
      exact ctorOf_no_fault pf t0 c hct args
  | init t0 ia =>
    simp only [recvOf] at hr
    cases hct : ctorOf pf t0 with
    | none => simp [hct] at hr; subst hr; simp at hrf
    | some c =>
      simp [hct] at hr; subst hr
      rcases hrf with hrf | hrf <;> simp at hrf
      obtain ⟨_, rfl⟩ := hrf
      exact initCall_no_fault c (ctorOf_no_fault pf t0 c hct) ia args
  | initDefault => simp [recvOf] at hr; subst hr; simp at hrf

/-- `Struct[{…}].new` (distinct member names), whichever dispatch of the Hash constructor produced the hash and whatever
    its keys are: what comes out has only declared keys, and every member is present with a value of its type or is
    optional and absent.  The assertion looks at the VALUE: a hash with an empty, a non-string or an undeclared key is
    never returned, although its inferred type `Hash[K,V,n,n]` is one the Struct type is assignable from -/
theorem C16_new_struct (ms : List (String × Bool × Ty)) (hnd : (ms.map (·.1)).Nodup) (init : Bool) (ia args : List Val) (v : Val)
    (h : newModel pf (if init then .init (.struct ms) ia else .plain (.struct ms)) args = some (.value v)) :
    ∃ es, v = .hash es ∧ (∀ e ∈ es, ∃ m ∈ ms, e.1 = .str m.1) ∧
      ∀ m ∈ ms, (∃ x, lookupKey m.1 es = some x ∧ inst m.2.2 x = true) ∨ (m.2.1 = true ∧ lookupKey m.1 es = none) := by
  obtain ⟨t, ht, hi⟩ := C16_newm pf _ args v h
  cases init <;> simp [RecvTy.type?] at ht <;> subst ht <;> exact inst_struct ms hnd v hi

/-! ### Float and Numeric -/

/-- the Float constructor (before the final assertion) answers a float or the reported argument error, for ANY arguments -/
theorem C16_float_ctor (args : List Val) :
    (∃ b, ctorCall (floatCtor pf) args = .value (.float b)) ∨ ctorCall (floatCtor pf) args = .reported "ILLEGAL_ARGUMENTS" := by
  rcases float_ctor_cases pf args with ⟨v, hv, hf⟩ | h
  · cases v <;> simp [isFloat] at hf
    exact Or.inl ⟨_, hv⟩
  · exact Or.inr h

/-- the Numeric constructor answers an integer or a float, or the reported argument error -/
theorem C16_numeric_ctor (args : List Val) :
    (∃ v, ctorCall (numericCtor pf) args = .value v ∧ inst .numeric v = true) ∨
    ctorCall (numericCtor pf) args = .reported "ILLEGAL_ARGUMENTS" := by
  rcases numeric_ctor_cases pf args with ⟨v, hv, hn⟩ | h
  · refine Or.inl ⟨v, hv, ?_⟩
    cases v <;> simp [isNumber] at hn <;> simp [inst]
  · exact Or.inr h

/-- `Float[lo,hi].new(…)` returns a float within the (effective) bounds, never NaN -/
theorem C16_float_new (lo hi : Int) (args : List Val) (v : Val)
    (h : newModel pf (.plain (.float lo hi)) args = some (.value v)) :
    ∃ b, v = .float b ∧ F64.inRange lo hi b = true ∧ F64.isNaN b = false := by
  obtain ⟨t, ht, hi'⟩ := C16_newm pf _ args v h
  simp [RecvTy.type?] at ht; subst ht
  cases v with
  | float b =>
    simp only [inst] at hi'
    refine ⟨b, rfl, hi', ?_⟩
    cases hn : F64.isNaN b
    · rfl
    · simp [F64.inRange, F64.key, hn] at hi'
  | _ => simp [inst] at hi'

/-- `Numeric.new(…)` is an integer, a float or the argument error: the final assertion never fails, no TYPE_MISMATCH -/
theorem C16_numeric_new (args : List Val) :
    (∃ v, newModel pf (.plain .numeric) args = some (.value v) ∧ inst .numeric v = true) ∨
    newModel pf (.plain .numeric) args = some (.reported "ILLEGAL_ARGUMENTS") := by
  rcases C16_numeric_ctor pf args with ⟨v, hv, hn⟩ | h
  · exact Or.inl ⟨v, by simp [newModel, recvOf, ctorOf, newInstance, hv, assertInstance, hn], hn⟩
  · exact Or.inr (by simp [newModel, recvOf, ctorOf, newInstance, h])

/-- the named-argument form is the positional form: `Float[lo,hi].new({from => x, abs => a}) = Float[lo,hi].new(x, a)` for
    ANY two values, and `Float[lo,hi].new({from => x}) = Float[lo,hi].new(x)` for every `x` that is not itself a hash -/
theorem C16_float_named_positional (lo hi : Int) (x a : Val) :
    newModel pf (.plain (.float lo hi)) [.hash [(.str "from", x), (.str "abs", a)]] =
      newModel pf (.plain (.float lo hi)) [x, a] ∧
    ((∀ es, x ≠ .hash es) →
      newModel pf (.plain (.float lo hi)) [.hash [(.str "from", x)]] = newModel pf (.plain (.float lo hi)) [x]) := by
  constructor
  · simp only [newModel, recvOf, ctorOf, newInstance, float_named_eq_positional2]
  · intro hx
    simp only [newModel, recvOf, ctorOf, newInstance, float_named_eq_positional1 pf x hx]

theorem C16_numeric_named_positional (x a : Val) :
    newModel pf (.plain .numeric) [.hash [(.str "from", x), (.str "abs", a)]] = newModel pf (.plain .numeric) [x, a] ∧
    ((∀ es, x ≠ .hash es) →
      newModel pf (.plain .numeric) [.hash [(.str "from", x)]] = newModel pf (.plain .numeric) [x]) := by
  constructor
  · simp only [newModel, recvOf, ctorOf, newInstance, numeric_named_eq_positional2]
  · intro hx
    simp only [newModel, recvOf, ctorOf, newInstance, numeric_named_eq_positional1 pf x hx]

/-- `abs = true`: what the body of the Numeric (`tryInt`) or Float constructor answers is a non-negative integer (or the
    minimum integer) or `floatValue.Abs` of a float — and that is never `< 0` for a double -/
theorem C16_number_abs (from_ : Val) (tryInt : Bool) (v : Val)
    (h : numberBody pf from_ (some (.bool true)) tryInt = .value v) :
    AbsResult v ∧ ∀ b, b < 2 ^ 64 → F64.ltZero (F64.abs b) = false :=
  ⟨numberBody_abs pf from_ tryInt v h, F64.abs_not_neg⟩

/-! ### Hash from arrays -/

/-- `Hash[K,V,…].new([[k1,v1],…,[kn,vn]])` (n ≥ 1; also for a Struct receiver): the hash with exactly these entries in this
    order — asserted against the receiver — whichever dispatch takes the array (the tree-array dispatch does when every key
    is an array; with one argument it wraps the pairs just the same).  Equal keys are not merged -/
theorem C16_hash_pairs (t : Ty) (hc : ctorOf pf t = .some hashCtor) (es : List (Val × Val)) (hne : es ≠ []) :
    newModel pf (.plain t) [.arr (es.map pairArr)] =
      some (if inst t (.hash es) then .value (.hash es) else .reported "TYPE_MISMATCH") := by
  simp only [newModel, recvOf, hc, newInstance, hashCtor_pairs es hne, assertInstance]
  by_cases hi : inst t (.hash es) = true <;> simp [hi]

/-- with the `tree` / `hash_tree` option the body answers a hash (the frozen tree) or refuses a key that contains a hash
    (not modelled); no fault (C16_ctor_no_fault) -/
theorem C16_hash_tree (entries : List Val) (option r : Val) (h : treeBody entries option = .value r) : ∃ es, r = .hash es := by
  unfold treeBody at h
  cases option <;> simp at h
  exact treeLoop_hash _ entries [] r h

/-! ### Binary -/

/-- `Binary.new` of the (strict, padded) base64 text of a byte string — with the default format and with `%B` — and of the
    byte string as an array of integers is that byte string -/
theorem C16_binary_roundtrip (bs : List UInt8) :
    newModel pf (.plain .binary) [.str (Pcore.Ser.b64 bs)] = some (.value (.binary bs)) ∧
    newModel pf (.plain .binary) [.str (Pcore.Ser.b64 bs), .str "%B"] = some (.value (.binary bs)) ∧
    newModel pf (.plain .binary) [.arr (bs.map fun b => .int b.toNat)] = some (.value (.binary bs)) := by
  obtain ⟨h1, h2⟩ := binaryCtor_b64 bs
  refine ⟨?_, ?_, ?_⟩ <;>
    simp [newModel, recvOf, ctorOf, newInstance, h1, h2, binaryCtor_bytes, assertInstance, inst]

/-- the named forms as the code has them (both reported errors, so the property holds; recorded as observations):
    `Binary.new({value => s})` without a format is ILLEGAL_ARGUMENT for EVERY string (the format handed on is
    `undef.String()`), and `Binary.new({value => [b1,…]})` is an error for EVERY array (the hash itself is read as the byte
    list) -/
theorem C16_binary_named_forms (s : String) (vs : List Val) :
    newModel pf (.plain .binary) [.hash [(.str "value", .str s)]] = some (.reported "ILLEGAL_ARGUMENT") ∧
    (newModel pf (.plain .binary) [.hash [(.str "value", .arr vs)]] = some (.reported "ILLEGAL_ARGUMENT") ∨
     newModel pf (.plain .binary) [.hash [(.str "value", .arr vs)]] = some (.reported "ILLEGAL_ARGUMENTS")) := by
  constructor
  · simp [newModel, recvOf, ctorOf, newInstance, binaryCtor_named_no_format]
  · rcases binaryCtor_named_array vs with h | h
    · left; simp [newModel, recvOf, ctorOf, newInstance, h]
    · right; simp [newModel, recvOf, ctorOf, newInstance, h]

/-! ### String: the signature -/

/-- the String constructor takes ANY single value (so every value is an instance of `Init[String]`), and a second argument
    exactly when it is `default`, a non-empty string or — on the alphabet, which has no `Type` values — the empty hash -/
theorem C16_string_signature (v f : Val) :
    anyCallable stringCtor [v] = true ∧ (anyCallable stringCtor [v, f] = inst stringFormatsTy f) ∧
    initIsInstance pf (.init (.str 0 none) []) v = .ok true := by
  have h1 : anyCallable stringCtor [v] = true := by
    simp [anyCallable, run, stringCtor, buildAll, buildOne, steps, step, finish, Builder.init, resolveAll, createDispatch, leMax,
      ltMax, succMax, call, callFrom, callableWith, blockOK, tupleInst, sizeOK, instLoop, inst]
  refine ⟨h1, ?_, ?_⟩
  · cases hf : inst stringFormatsTy f <;>
    simp [anyCallable, run, stringCtor, buildAll, buildOne, steps, step, finish, Builder.init, resolveAll, createDispatch, leMax,
      ltMax, succMax, call, callFrom, callableWith, blockOK, tupleInst, sizeOK, instLoop, inst, hf]
  · simp [initIsInstance, ctorOf, initInstTest, h1]

/-! ### Timespan -/

/-- what `Timespan[lo,hi].new(…)` returns is a Timespan within the bounds -/
theorem C16_timespan_new (lo hi : Int) (args : List Val) (v : Val)
    (h : newModel pf (.plain (.timespan lo hi)) args = some (.value v)) : ∃ n, v = .timespan n ∧ lo ≤ n ∧ n ≤ hi := by
  obtain ⟨t, ht, hi'⟩ := C16_newm pf _ args v h
  simp [RecvTy.type?] at ht; subst ht
  cases v <;> simp [inst] at hi'
  exact ⟨_, rfl, hi'.1, hi'.2⟩

/-- `Timespan.new(n)` is `n` seconds (int64 arithmetic: exact whenever `n·10^9` fits); the seven positional fields and the
    hash of named fields are the same polynomial `fromFields`, so
    `Timespan.new({days => d, …, nanoseconds => ns, negative => false}) = Timespan.new(d, h, m, s, ms, us, ns)` -/
theorem C16_timespan_fields (neg : Bool) (n d h m s ms us ns : Int) :
    ctorCall timespanCtor [.int n] = .value (.timespan (F64.wrap64 (n * 1000000000))) ∧
    (F64.minInt ≤ n * 1000000000 → n * 1000000000 ≤ F64.maxInt → ctorCall timespanCtor [.int n] = .value (.timespan (n * 1000000000))) ∧
    ctorCall timespanCtor [.int d, .int h, .int m, .int s, .int ms, .int us, .int ns] =
      .value (.timespan (fromFields false d h m s ms us ns)) ∧
    ctorCall timespanCtor [fieldsHash neg d h m s ms us ns] = .value (.timespan (fromFields neg d h m s ms us ns)) := by
  refine ⟨timespanCtor_seconds n, ?_, (timespanCtor_fields neg d h m s ms us ns).1, (timespanCtor_fields neg d h m s ms us ns).2⟩
  intro h1 h2
  rw [timespanCtor_seconds, wrap64_id _ h1 h2]

/-! ### wrapper types, `Init[T, args…]`, `CoerceTo` -/

/-- a type that wraps another: `Optional[T]`, `NotUndef[T]`, `Variant[…]`, an alias -/
def IsWrapper : Ty → Prop
  | .opt _ => True
  | .notUndef _ => True
  | .var _ => True
  | .alias _ => True
  | _ => False

/-- `new` on a wrapper never reaches the wrapped type's constructor: the wrapper's own name has none.  `W.new(…)` reports
    INSTANCE_DOES_NOT_RESPOND and `Init[W, …].new(…)` CTOR_NOT_FOUND, whatever the arguments — in particular nothing comes
    out that could be outside the type -/
theorem C16_wrapper_new (w : Ty) (hw : IsWrapper w) (ia args : List Val) :
    newModel pf (.plain w) args = some (.reported "INSTANCE_DOES_NOT_RESPOND") ∧
    newModel pf (.init w ia) args = some (.reported "CTOR_NOT_FOUND") := by
  cases w <;> simp [IsWrapper] at hw <;> simp [newModel, recvOf, ctorOf, newInstance]

/-- `Init[T, a…].new(x…)` with init arguments is `T.new(x…, a…)`: the constructor of T, the given arguments followed by the
    init arguments, the result asserted against T -/
theorem C16_init_args (t : Ty) (c : Ctor) (hc : ctorOf pf t = .some c) (ia args : List Val) (hia : ia ≠ []) :
    newModel pf (.init t ia) args = newModel pf (.plain t) (args ++ ia) := by
  have : ia.isEmpty = false := by cases ia <;> simp at hia ⊢
  simp [newModel, recvOf, hc, newInstance, initCall, this]

/-- `Init[T].new(x…)` without init arguments: `T.new(x…)` when some signature of the constructor accepts the arguments as
    given; otherwise a single array argument is expanded: `T.new(*array)` -/
theorem C16_init_plain (t : Ty) (c : Ctor) (hc : ctorOf pf t = .some c) (args : List Val) :
    (anyCallable c args = true → newModel pf (.init t []) args = newModel pf (.plain t) args) ∧
    (∀ vs, args = [.arr vs] → anyCallable c args = false → newModel pf (.init t []) args = newModel pf (.plain t) vs) := by
  constructor
  · intro h
    simp [newModel, recvOf, hc, newInstance, initCall, h]
  · rintro vs rfl h
    simp [newModel, recvOf, hc, newInstance, initCall, h]

/-! ### `Init[T]` as a type: `IsInstance` is the signature test of `new` -/

/-- the dispatch tables of the modelled constructors are accepted by the builder -/
theorem ctorOf_builds (t : Ty) (c : Ctor) (h : ctorOf pf t = .some c) : ∃ bs, buildAll c.creators = .ok bs := by
  cases t <;> simp [ctorOf] at h <;> subst h <;> exact ⟨_, rfl⟩

/-- `v` is an instance of `Init[T, ia…]` IFF the call that `Init[T, ia…].new(v)` makes — `createArgs`: the value followed by
    the init arguments, or the value alone, or its elements when it is an array that no signature accepts whole — is
    accepted by some signature of T's constructor.  Then `new` runs the body of a creator whose declaration the arguments
    satisfy; otherwise `new` is the dispatch's ILLEGAL_ARGUMENTS -/
theorem C16_init_instance (t : Ty) (c : Ctor) (hc : ctorOf pf t = .some c) (ia : List Val) (v : Val) :
    (initIsInstance pf (.init t ia) v = .ok true ↔ anyCallable c (createArgs c ia [v]) = true) ∧
    (initIsInstance pf (.init t ia) v = .ok true →
      ∃ i cr, c.creators[i]? = some cr ∧ CreatorAccepts inst binst cr (createArgs c ia [v]) (none : Option Blk) ∧
        initCall c ia [v] = c.body i (createArgs c ia [v])) ∧
    (initIsInstance pf (.init t ia) v = .ok false →
      newModel pf (.init t ia) [v] = some (.reported "ILLEGAL_ARGUMENTS")) := by
  have hshape : initIsInstance pf (.init t ia) v = .ok (anyCallable c (createArgs c ia [v])) := by
    simp only [initIsInstance, hc, initInstance_iff]
  rw [hshape]
  refine ⟨?_, ?_, ?_⟩
  · constructor
    · intro h; exact Except.ok.inj h
    · intro h; rw [h]
  · intro h
    obtain ⟨i, cr, hcr, hacc, hbody⟩ := anyCallable_true c _ (Except.ok.inj h)
    exact ⟨i, cr, hcr, hacc, by rw [initCall_eq, hbody]⟩
  · intro h
    have := anyCallable_false c (ctorOf_builds pf t c hc) _ (Except.ok.inj h)
    simp [newModel, recvOf, hc, newInstance, initCall_eq, this]

/-- `Init[W]` around a type without constructor raises CTOR_NOT_FOUND from `IsInstance` too; the default `Init` accepts every
    value of the alphabet (RichData); `IsAssignable` of an `Init[T, …]` with a contained type is false for every type -/
theorem C16_init_type_quirks (w : Ty) (hw : IsWrapper w) (t o : Ty) (c : Ctor) (hc : ctorOf pf t = .some c) (ia : List Val)
    (v : Val) :
    initIsInstance pf (.init w ia) v = .error "CTOR_NOT_FOUND" ∧ initIsInstance pf .initDefault v = .ok true ∧
    initIsAssignable pf t ia o = .ok false := by
  refine ⟨?_, rfl, by simp [initIsAssignable, hc]⟩
  cases w <;> simp [IsWrapper] at hw <;> simp [initIsInstance, ctorOf]

/-- what `CoerceTo(T, v)` returns is an instance of the REQUESTED type `T` — through `Optional`, into the elements of
    arrays, the keys and values of hashes and the members of structs, and through every constructor it ends in -/
theorem C16_coerce (t : Ty) (v r : Val) (h : coerceTo pf t v = .value r) : inst t r = true := coerce_sound pf t v r h

/-- an instance is returned as it is; anything else goes to the switch with ONE `Optional` removed: `Optional[T]` picks the
    constructor of `T` (`coerceCore T` is `new(T, v)` unless `T` is an Array, Hash or Struct type), and the result is an
    instance of `T`, hence of `Optional[T]` -/
theorem C16_coerce_shape (t : Ty) (v : Val) :
    (inst t v = true → coerceTo pf t v = .value v) ∧
    (inst (.opt t) v = false → coerceTo pf (.opt t) v = coerceCore pf t v) := by
  constructor
  · intro h; rw [coerceTo_eq]; simp [h]
  · intro h; rw [coerceTo_eq]; simp [h, unwrapOpt]

/-- `CanCoerce` is COMPLETE for `CoerceTo`: whatever `CoerceTo(T, v)` converts, `CanCoerce(T, v)` answered `true` (for types
    whose Struct types have distinct member names).  The converse is false in the code (`C16_can_coerce_not_sound`) -/
theorem C16_can_coerce_complete (t : Ty) (hnd : t.NodupNames) (v r : Val) (h : coerceTo pf t v = .value r) :
    canCoerce pf t v = .ok true := can_complete pf t hnd v r h

/-- the wrappers `CoerceTo` does not look into: a value that is not an instance of `NotUndef[T]`, `Variant[…]`, an alias
    or a doubly optional type is refused, even when the wrapped type's constructor would have converted it -/
theorem C16_coerce_wrapper (w : Ty) (hw : IsWrapper w) (v : Val) :
    (inst w v = false → (∀ t, w ≠ .opt t) → coerceTo pf w v = .reported "INSTANCE_DOES_NOT_RESPOND") ∧
    (inst (.opt w) v = false → coerceTo pf (.opt w) v = .reported "INSTANCE_DOES_NOT_RESPOND") := by
  constructor
  · intro h hno
    rw [coerceTo_eq]
    cases w <;> simp [IsWrapper] at hw <;>
      first
      | exact absurd rfl (hno _)
      | simp [h, unwrapOpt, coerceCore, newOne, newModel, recvOf, ctorOf, newInstance]
  · intro h
    rw [coerceTo_eq]
    cases w <;> simp [IsWrapper] at hw <;> simp [h, unwrapOpt, coerceCore, newOne, newModel, recvOf, ctorOf, newInstance]

end

/-- the exact decimal reader of Model/Num.lean: what the driver uses for `strconv.ParseFloat` -/
def pfx : List Char → Option Nat := fun cs => Pcore.Syntax.parseFloat cs

-- non-vacuity and the excluded values: a declared hash is returned; '' / non-string / undeclared keys and a missing
-- member are reported, through the hash, the key-value-array and the flat-array dispatch
def structA : Ty := .struct [("a", false, .int none none)]
def structAB : Ty := .struct [("a", false, .int none none), ("b", true, .bool)]
example : newModel pfx (.plain structA) [.hash [(.str "a", .int 1)]] = some (.value (.hash [(.str "a", .int 1)])) := by rfl
example : newModel pfx (.plain structAB) [.arr [.arr [.str "b", .bool true], .arr [.str "a", .int 1]]] =
    some (.value (.hash [(.str "b", .bool true), (.str "a", .int 1)])) := by rfl
example : newModel pfx (.plain structA) [.hash [(.str "", .int 1)]] = some (.reported "TYPE_MISMATCH") := by rfl
example : newModel pfx (.plain structA) [.arr [.str "", .int 1]] = some (.reported "TYPE_MISMATCH") := by rfl
example : newModel pfx (.plain (.struct [("a", true, .int none none)])) [.hash [(.int 1, .bool true)]] =
    some (.reported "TYPE_MISMATCH") := by rfl
example : newModel pfx (.plain structAB) [.hash [(.str "a", .int 1), (.str "", .int 2)]] = some (.reported "TYPE_MISMATCH") := by rfl
example : newModel pfx (.plain structAB) [.hash [(.str "a", .int 1), (.str "a", .int 2)]] = some (.reported "TYPE_MISMATCH") := by rfl
example : newModel pfx (.init structA []) [.hash [(.str "z", .int 1)]] = some (.reported "TYPE_MISMATCH") := by rfl
example : newModel pfx (.plain (.hash (.int none none) .any 1 (some 1))) [.arr [.int 1, .undef]] =
    some (.value (.hash [(.int 1, .undef)])) := by rfl

example : newModel pfx (.plain (.int none none)) [.int 3] = some (.value (.int 3)) := by rfl
example : newModel pfx (.plain (.int none none)) [.int (-3), .default, .bool true] = some (.value (.int 3)) := by rfl
example : newModel pfx (.plain (.int (some 0) (some 5))) [.bool true] = some (.value (.int 1)) := by rfl
example : newModel pfx (.init (.int (some 0) (some 5)) []) [.int 7] = some (.reported "TYPE_MISMATCH") := by rfl
example : newModel pfx (.plain (.arr (.int none none) 1 none)) [.arr [.int 1], .bool true] = some (.reported "TYPE_MISMATCH") := by rfl
example : newModel pfx (.plain (.arr .any 1 none)) [.arr [.int 1], .bool true] = some (.value (.arr [.arr [.int 1]])) := by rfl
example : newModel pfx (.plain .bool) [.int 0] = some (.value (.bool false)) := by rfl
example : newModel pfx (.plain (.opt (.int none none))) [.int 0] = some (.reported "INSTANCE_DOES_NOT_RESPOND") := by rfl

-- String: plain scalars, asserted against the receiver
example : outText (newModel pfx (.plain (.str 0 none)) [.int (-12)]) = "value (s -12)" := by decide +kernel
example : outText (newModel pfx (.plain (.str 2 none)) [.int 3]) = "reported TYPE_MISMATCH" := by decide +kernel
example : outText (newModel pfx (.plain (.str 0 none)) [.bool true]) = "value (s true)" := by decide +kernel
example : outText (newModel pfx (.plain (.str 0 none)) [.int 3, .int 4]) = "reported ILLEGAL_ARGUMENTS" := by decide +kernel
example : outText (newModel pfx (.plain (.str 0 none)) [.int 3, .str "%x"]) = "unmodelled" := by decide +kernel

-- Timespan: seconds (integer, float), the default formats, fields, wrap-around; a Timespan as `from` of the numeric constructors
def anySpan : Ty := .timespan F64.minInt F64.maxInt
example : outText (newModel pfx (.plain anySpan) [.float 0x3FF8000000000000]) = "value (ts 1500000000)" := by decide +kernel
example : outText (newModel pfx (.plain anySpan) [.str "1-02:03:04.5"]) = "value (ts 93784500000000)" := by decide +kernel
example : outText (newModel pfx (.plain anySpan) [.str "-03:04.05"]) = "value (ts -184050000000)" := by decide +kernel
example : outText (newModel pfx (.plain anySpan) [.str "1-2"]) = "reported TIMESPAN_CANNOT_BE_PARSED" := by decide +kernel
example : outText (newModel pfx (.plain anySpan) [.int 9223372037]) = "value (ts -9223372036709551616)" := by decide +kernel
example : outText (newModel pfx (.plain (.timespan 0 10000000000)) [.int 11]) = "reported TYPE_MISMATCH" := by decide +kernel
example : outText (newModel pfx (.plain anySpan) [.hash [(.str "seconds", .int 3), (.str "negative", .bool true)]]) =
    "value (ts -3000000000)" := by decide +kernel
example : outText (newModel pfx (.plain (.int none none)) [.timespan 2500000000]) = "value (i 2)" := by decide +kernel
example : outText (newModel pfx (.plain (.float (-F64.maxFiniteKey) F64.maxFiniteKey)) [.timespan 2500000000]) =
    "value (f 4612811918334230528)" := by decide +kernel
example : F64.minInt ≤ (5 : Int) * 1000000000 ∧ (5 : Int) * 1000000000 ≤ F64.maxInt := by decide

-- Binary: the three base64 variants, the raw forms, the named form with a format
example : outText (newModel pfx (.plain .binary) [.str "YWJj"]) = "value (bin [97, 98, 99])" := by decide +kernel
example : outText (newModel pfx (.plain .binary) [.str "YR=="]) = "reported ILLEGAL_ARGUMENT" := by decide +kernel
example : outText (newModel pfx (.plain .binary) [.str "YR==", .str "%b"]) = "value (bin [97])" := by decide +kernel
example : outText (newModel pfx (.plain .binary) [.str "YW\nJj"]) = "value (bin [97, 98, 99])" := by decide +kernel
example : outText (newModel pfx (.plain .binary) [.str "-_-_", .str "%u"]) = "value (bin [251, 255, 191])" := by decide +kernel
example : outText (newModel pfx (.plain .binary) [.str "-_-_", .str "%b"]) = "reported ILLEGAL_ARGUMENT" := by decide +kernel
example : outText (newModel pfx (.plain .binary) [.str "é", .str "%s"]) = "value (bin [195, 169])" := by decide +kernel
example : outText (newModel pfx (.plain .binary) [.hash [(.str "value", .str "YWJj"), (.str "format", .str "%B")]]) =
    "value (bin [97, 98, 99])" := by decide +kernel
example : outText (newModel pfx (.plain .binary) [.arr [.int 256]]) = "reported ILLEGAL_ARGUMENTS" := by decide +kernel

-- Hash from pairs / tree arrays (C16_hash_pairs, C16_hash_tree)
example : ctorOf pfx (.hash .any .any 0 none) = .some hashCtor ∧ ctorOf pfx structA = .some hashCtor := ⟨rfl, rfl⟩
example : outText (newModel pfx (.plain (.hash .any .any 0 none))
    [.arr [.arr [.arr [.str "a", .str "b"], .int 1], .arr [.arr [.str "a", .str "c"], .int 2]], .str "tree"]) =
    "value (h ((s a) (h ((s b) (i 1)) ((s c) (i 2)))))" := by decide +kernel
example : outText (newModel pfx (.plain (.hash .any .any 0 none))
    [.arr [.arr [.arr [], .arr [.int 5]], .arr [.arr [.int 0, .int 3], .str "x"]], .str "tree"]) = "value (h ((i 0) (i 5)))" := by
  decide +kernel
example : outText (newModel pfx (.plain (.hash .any .any 0 none))
    [.arr [.arr [.arr [.int 0], .arr [.int 1]]], .str "hash_tree"]) = "value (h ((i 0) (h ((i 0) (i 1)))))" := by decide +kernel
example : outText (newModel pfx (.plain structA) [.arr [.arr [.arr [.str "a"], .int 1]], .str "tree"]) =
    "value (h ((s a) (i 1)))" := by decide +kernel
example : outText (newModel pfx (.plain structA) [.arr [.arr [.arr [.str "a", .str "b"], .int 1]], .str "tree"]) =
    "reported TYPE_MISMATCH" := by decide +kernel

-- CanCoerce: complete (C16_can_coerce_complete; a nested type with distinct member names, a conversion that succeeds), not sound
example : (Ty.arr (.struct [("a", false, .int none none), ("b", true, .opt (.int none none))]) 0 none).NodupNames := by
  simp [Ty.NodupNames, nodupMs]
example : outText (some (coerceTo pfx (.arr (.struct [("a", false, .int none none)]) 0 none) (.arr [.hash [(.str "a", .str "7")]]))) =
    "value (a (h ((s a) (i 7))))" := by decide +kernel
/-- `CanCoerce` says yes where `CoerceTo` fails: a non-array asked against the element type, a size that is not looked at, an
    array that `Init[T]` would expand, a missing Struct member -/
theorem C16_can_coerce_not_sound :
    (canCoerce pfx (.arr (.int none none) 0 none) (.str "3")).toOption = some true ∧
      outText (some (coerceTo pfx (.arr (.int none none) 0 none) (.str "3"))) = "reported TYPE_MISMATCH" ∧
    (canCoerce pfx (.arr (.int none none) 1 (some 1)) (.arr [.str "3", .str "4"])).toOption = some true ∧
      outText (some (coerceTo pfx (.arr (.int none none) 1 (some 1)) (.arr [.str "3", .str "4"]))) = "reported TYPE_MISMATCH" ∧
    (canCoerce pfx (.int none none) (.arr [.str "11", .int 2])).toOption = some true ∧
      outText (some (coerceTo pfx (.int none none) (.arr [.str "11", .int 2]))) = "reported ILLEGAL_ARGUMENTS" ∧
    (canCoerce pfx (.struct [("a", false, .int none none), ("b", false, .int none none)]) (.hash [(.str "a", .str "7")])).toOption = some true ∧
      outText (some (coerceTo pfx (.struct [("a", false, .int none none), ("b", false, .int none none)]) (.hash [(.str "a", .str "7")]))) =
        "reported TYPE_MISMATCH" := by decide +kernel

-- Init[T] as a type (C16_init_instance): '0x1F' is an instance of Init[Integer,16] and of Init[Integer] through the
-- expanded array ['0x1F', 16]; ['0x1F', 16] is NOT an instance of Init[Integer,16] (one argument followed by 16)
example : (initIsInstance pfx (.init (.int none none) [.int 16]) (.str "0x1F")).toOption = some true := by decide +kernel
example : (initIsInstance pfx (.init (.int none none) []) (.arr [.str "0x1F", .int 16])).toOption = some true := by decide +kernel
example : (initIsInstance pfx (.init (.int none none) [.int 16]) (.arr [.str "0x1F", .int 16])).toOption = some false := by
  decide +kernel
example : (initIsInstance pfx (.init (.int none none) []) (.str "z")).toOption = some false := by decide +kernel

-- wrappers, Init[T, args], CoerceTo (hypotheses of C16_init_args / C16_init_plain / C16_coerce / C16_coerce_shape / _wrapper)
example : outText (newModel pfx (.init (.int none none) [.int 16]) [.str "0x1F"]) = "value (i 31)" := by decide +kernel
example : ctorOf pfx (.int none none) = .some integerCtor ∧ [Val.int 16] ≠ [] := ⟨rfl, by simp⟩
example : anyCallable integerCtor [.arr [.str "0x1F", .int 16]] = false ∧ anyCallable integerCtor [.str "7"] = true := by
  decide +kernel
example : outText (newModel pfx (.init (.int none none) []) [.arr [.str "0x1F", .int 16]]) = "value (i 31)" := by decide +kernel
example : IsWrapper (.opt (.int none none)) ∧ IsWrapper (.alias .bool) := ⟨trivial, trivial⟩
example : outText (some (coerceTo pfx (.opt (.int none none)) (.str "3"))) = "value (i 3)" := by decide +kernel
example : inst (.opt (.int none none)) (.str "3") = false := by decide +kernel
example : outText (some (coerceTo pfx (.arr (.int none none) 0 none) (.arr [.str "3", .int 4, .float 0x4004000000000000]))) =
    "value (a (i 3) (i 4) (i 2))" := by decide +kernel
example : outText (some (coerceTo pfx (.hash (.int none none) (.int none none) 0 none)
    (.hash [(.str "1", .int 1), (.int 1, .int 2)]))) = "value (h ((i 1) (i 1)) ((i 1) (i 2)))" := by decide +kernel
example : outText (some (coerceTo pfx (.struct [("a", false, .int none none)]) (.hash [(.str "a", .str "7")]))) =
    "value (h ((s a) (i 7)))" := by decide +kernel
example : outText (some (coerceTo pfx (.opt (.int (some 0) (some 5))) (.str "7"))) = "reported TYPE_MISMATCH" := by
  decide +kernel
example : outText (some (coerceTo pfx (.notUndef (.int none none)) (.str "3"))) = "reported INSTANCE_DOES_NOT_RESPOND" := by
  decide +kernel
example : inst (.notUndef (.int none none)) (.str "3") = false := by decide +kernel

-- Float and Numeric: strings through strconv, the named form, abs, NaN (C16_float_new: never returned by a Float type)
def dfltFloat : Ty := .float (-F64.maxFiniteKey) F64.maxFiniteKey
example : outText (newModel pfx (.plain .numeric) [.str "0x1F"]) = "value (i 31)" := by decide +kernel
example : outText (newModel pfx (.plain .numeric) [.str "0777"]) = "value (i 511)" := by decide +kernel
example : outText (newModel pfx (.plain .numeric) [.str "1.5"]) = "value (f 4609434218613702656)" := by decide +kernel
example : outText (newModel pfx (.plain .numeric) [.str "9223372036854775808"]) = "value (f 4890909195324358656)" := by
  decide +kernel
example : outText (newModel pfx (.plain dfltFloat) [.str "0777"]) = "value (f 4650045780097236992)" := by decide +kernel
example : outText (newModel pfx (.plain dfltFloat) [.str "0x1F"]) = "reported ILLEGAL_ARGUMENTS" := by decide +kernel
example : outText (newModel pfx (.plain dfltFloat) [.str "- 5"]) = "reported ILLEGAL_ARGUMENTS" := by decide +kernel
example : outText (newModel pfx (.plain dfltFloat) [.int 9007199254740993]) = "value (f 4845873199050653696)" := by
  decide +kernel
example : outText (newModel pfx (.plain .numeric) [.hash [(.str "from", .str "-4.5"), (.str "abs", .bool true)]]) =
    "value (f 4616752568008179712)" := by decide +kernel
example : outText (newModel pfx (.plain .numeric) [.int (-9223372036854775808), .bool true]) =
    "value (i -9223372036854775808)" := by decide +kernel
example : outText (newModel pfx (.plain dfltFloat) [.float 0x7FF8000000000001]) = "reported TYPE_MISMATCH" := by
  decide +kernel
example : outText (newModel pfx (.plain .numeric) [.float 0x7FF8000000000001]) = "value (f 9221120237041090561)" := by
  decide +kernel
example : outText (newModel pfx (.plain (.float 0 F64.maxFiniteKey)) [.str "-1.5"]) = "reported TYPE_MISMATCH" := by
  decide +kernel
example : outText (newModel pfx (.plain (.int none none)) [.hash [(.str "from", .str "11"), (.str "radix", .int 2)]]) =
    "value (i 3)" := by decide +kernel
example : outText (newModel pfx (.plain (.int none none)) [.float 0xC004000000000000]) = "value (i -2)" := by decide +kernel
example : outText (newModel pfx (.plain (.int none none)) [.float 0x7FF0000000000000]) = "value (i -9223372036854775808)" := by
  decide +kernel
example : ∀ es, Val.str "1.5" ≠ .hash es := by intro es h; cases h   -- hypothesis of C16_*_named_positional, second part
example : resText (numberBody pfx (.float 0xC004000000000000) (some (.bool true)) false) = "value (f 4612811918334230528)" := by
  decide +kernel

/-- `Param(Integer[0,5]); OptionalParam(Boolean); OptionalBlock(Callable[1,1]); RepeatedParam(Variant[Integer,Undef])` -/
def sampleOps : List (BOp Ty BTy) :=
  [.param (.int (some 0) (some 5)), .optional .bool, .optionalBlock (.range 1 (some 1)),
   .repeated (.var [.int none none, .undef])]

def sampleTable : List (Creator Ty BTy) :=
  [ { ops := [.param (.arr (.int none none) 0 none)], kind := .fn },
    { ops := sampleOps, kind := .fn2 },
    { ops := [.repeated .any], kind := .fn } ]

-- the builder accepts the sample, with min 1 and an unbounded max (C16_builder_inv / C16_decl have an inhabitant)
example : ∃ b, steps Builder.init sampleOps = .ok b ∧ b.min = 1 ∧ b.max = none ∧ b.types.length = 3 :=
  ⟨_, rfl, rfl, rfl, rfl⟩
example : (paramsOf sampleOps).map (·.1) = [.req, .opt, .rep] ∧ (blocksOf sampleOps).length = 1 := ⟨rfl, rfl⟩
-- a prefix with a repeated parameter rejects everything, one with an optional parameter rejects a required one
-- (hypotheses of C16_builder_rejects)
example : (steps Builder.init (sampleOps ++ [.optional .any]) : Except Panic (Builder Ty BTy)) = .error .afterRepeated := rfl
example : (steps Builder.init [.optional .any, .requiredRepeated .any] : Except Panic (Builder Ty BTy)) =
    .error .requiredAfterOptional := rfl
example : buildOne ({ ops := [.block .any], kind := .fn } : Creator Ty BTy) = .error .requiresBlock := rfl
-- C16_run_first: the second dispatch runs for (3, true, 7) with a one-argument block; the first one (Array[Integer]) rejects 3
example : run inst binst sampleTable [.int 3, .bool true, .int 7] (some { min := 1, max := some 1 }) = .called (.ran 1) := by decide
-- the same arguments without the block still pick dispatch 1 (optional block); with a two-argument block dispatch 1 and
-- every other one reject: reported (C16_run_nomatch, both directions inhabited)
example : run inst binst sampleTable [.int 3, .bool true, .int 7] none = .called (.ran 1) := by decide
example : run inst binst sampleTable [.int 3, .bool true, .int 7] (some { min := 2, max := some 2 }) = .called .reported := by decide
-- Integer[0,5] rejects 6, so the catch-all third dispatch is the first match; an array goes to the first
example : run inst binst sampleTable [.int 6] none = .called (.ran 2) := by decide
example : run inst binst sampleTable [.arr [.int 1, .int 2]] none = .called (.ran 0) := by decide
-- C16_call_stateless on overlapping dispatches (Integer[0,5] before Integer before Any): 50 goes to dispatch 1, and 3
-- goes to dispatch 0 before and after it
example : runSeq inst binst
    [ { ops := [.param (.int (some 0) (some 5))], kind := .fn }, { ops := [.param (.int none none)], kind := .fn },
      { ops := [.repeated .any], kind := .fn } ]
    [([.int 3], (none : Option Blk)), ([.int 50], none), ([.int 3], none), ([.bool true], none), ([.int 3], none)] =
    .called [.ran 0, .ran 1, .ran 0, .ran 2, .ran 0] := by rfl
-- C16_new: a constructor that returns 7 whatever it is given — accepted by Integer, refused by Integer[0,5] and Init[Integer[0,5]]
example : newInstance inst (.ctor (.int none none) fun _ => .value (.int 7)) [] = .value (.int 7) := rfl
example : newInstance inst (.ctor (.int (some 0) (some 5)) fun _ => .value (.int 7)) [] = .reported "TYPE_MISMATCH" := rfl
example : newInstance inst (.init (.int (some 0) (some 5)) fun _ => .value (.int 7)) [] = .reported "TYPE_MISMATCH" := rfl

/-! ### audit additions (stranger's review, notes/audit-C16.md): instances of the hypotheses that had none beside them -/

/-- a RESOLVED table written by hand (`C16_first`, `C16_first_conv`, `C16_safe`, `C16_nomatch` speak of ANY dispatch list, built or not):
    `(Integer[0,5])`, `(Integer, String…) with an optional block`, and a dispatch the builder can NOT produce — no types, `max = 2` -/
def audDs : List (Dispatch Ty BTy) :=
  [ { types := [.int (some 0) (some 5)], min := 1, max := some 1, block := .none },
    { types := [.int none none, .str 0 none], min := 1, max := none, block := .optional .any },
    { types := [], min := 0, max := some 2, block := .none } ]
-- hypothesis of `C16_first`: dispatch 1 runs for (7, 'a', 'b') with a block; dispatch 0 refuses 7 (hypotheses of `C16_first_conv`)
example : call inst binst audDs [.int 7, .str "a", .str "b"] (some { min := 0, max := none }) = .ran 1 := by decide
example : audDs[1]? = some ⟨[.int none none, .str 0 none], 1, none, .optional .any⟩ ∧
    callableWith inst binst ⟨[.int none none, .str 0 none], 1, none, .optional .any⟩ [.int 7, .str "a", .str "b"] (some { min := 0, max := none }) = true ∧
    callableWith inst binst ⟨[.int (some 0) (some 5)], 1, some 1, BlockReq.none⟩ [.int 7, .str "a", .str "b"] (some { min := 0, max := none }) = false :=
  ⟨rfl, by decide, by decide⟩
-- both sides of `C16_nomatch`: three arguments without a block and a non-string in the tail match nothing
example : call inst binst audDs [.int 7, .str "a", .undef] none = .reported := by decide
/-- OBSERVATION on `C16_safe`: `Satisfies` has the disjunct `d.types = []` (the code's `IsInstance3` with no types tests sizes only), so for
    a dispatch that is NOT the product of the builder "every argument is an instance of its parameter type" can be void: the third
    dispatch accepts ('x', undef).  `C16_built_empty_types` below closes the gap for built dispatches. -/
example : call inst binst audDs [.str "x", .undef] none = .ran 2 := by decide

-- hypotheses of `C16_builder_rejects`: an accepted prefix with a repeated parameter and a block; one with an optional parameter only
example : (∃ b, steps Builder.init sampleOps = .ok b) ∧ (∃ p ∈ paramsOf sampleOps, p.1.repeated = true) ∧ blocksOf sampleOps ≠ [] :=
  ⟨⟨_, rfl⟩, ⟨(.rep, .var [.int none none, .undef]), by simp [sampleOps, paramsOf, BOp.param?], rfl⟩, by simp [sampleOps, blocksOf, BOp.block?]⟩
example : (∃ b, steps Builder.init ([.param .bool, .optional .any] : List (BOp Ty BTy)) = .ok b) ∧
    (∃ p ∈ paramsOf ([.param .bool, .optional .any] : List (BOp Ty BTy)), p.1 = .opt) ∧
    (∀ p ∈ paramsOf ([.param .bool, .optional .any] : List (BOp Ty BTy)), p.1.repeated = false) :=
  ⟨⟨_, rfl⟩, ⟨(.opt, .any), by simp [paramsOf, BOp.param?], rfl⟩, by simp [paramsOf, BOp.param?, PKind.repeated]⟩
-- hypothesis of `C16_run_nomatch`: the sample table is accepted by the builder
example : ∃ bs, buildAll sampleTable = .ok bs := ⟨_, rfl⟩
-- hypotheses of `C16_call_history_free`: the same call at positions 0 and 2 of a sequence
example : ([([Val.int 3], (none : Option Blk)), ([.int 50], none), ([.int 3], none)])[0]? = some ([.int 3], none) ∧
    ([([Val.int 3], (none : Option Blk)), ([.int 50], none), ([.int 3], none)])[2]? = some ([.int 3], none) := ⟨rfl, rfl⟩
-- hypothesis `Nodup` of `C16_new_struct` for the two sample Struct types (the `newModel … = value` hypothesis: the examples above)
example : (["a"].Nodup) ∧ (["a", "b"].Nodup) := by decide
-- hypothesis of `C16_hash_tree`, on the body itself: one tree entry [['a','b'], 1]
example : treeBody [.arr [.arr [.str "a", .str "b"], .int 1]] (.str "tree") =
    .value (.hash [(.str "a", .hash [(.str "b", .int 1)])]) := by rfl
-- hypotheses of `C16_can_coerce_complete` on ONE type: distinct names, a conversion that succeeds, and CanCoerce's answer
example : (Ty.arr (.struct [("a", false, .int none none)]) 0 none).NodupNames := by simp [Ty.NodupNames, nodupMs]
example : (canCoerce pfx (.arr (.struct [("a", false, .int none none)]) 0 none) (.arr [.hash [(.str "a", .str "7")]])).toOption =
    some true := by decide +kernel

end Alpha

/-! ### audit addition: the `types = []` disjunct of `Satisfies` is harmless on BUILT dispatches -/
section
variable {T BT V : Type} (inst : T → V → Bool)

/-- a dispatch built by an accepted builder sequence that declares no parameter type accepts the EMPTY argument list only: the escape
    `d.types = []` of `Satisfies` (`C16_safe`) never lets an argument through unchecked (`Builder.max` is `some 0` then) -/
theorem C16_built_empty_types (ops : List (BOp T BT)) (b : Builder T BT) (h : steps Builder.init ops = .ok b) (ht : b.types = [])
    (args : List V) (hc : tupleInst inst b.types b.min b.max args = true) : args = [] := by
  have hps : paramsOf ops = [] := by
    have := (C16_builder_arith ops b h).2.1
    rw [ht] at this
    exact List.map_eq_nil_iff.mp this.symm
  have hd := (C16_decl inst ops b h args).mp hc
  rw [hps] at hd
  have := hd.2.1 (by simp)
  simpa using this

end

end Pcore.Dispatch
