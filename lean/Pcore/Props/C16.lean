import Pcore.Proofs.DispatchDecl
/-!
# C16 — Dispatch and construction are type-safe

Property (properties.jsonl): for every function assembled from typed dispatches and every argument list and block, the
body that runs is that of the first dispatch whose declared parameter types, arity and block requirement the arguments
satisfy, no body ever runs with arguments outside its declaration, and when no dispatch matches a reported argument error
is raised.  Creating an instance of a type with `new` yields an instance of that type or a reported error, never a value
outside the type.

All theorems are for ARBITRARY parameter types `T`, values `V`, membership `inst : T → V → Bool`, block types `BT`, blocks
`B` and block acceptance `binst : BT → B → Bool`, any table, any argument list (inductions over lists).

Full statement / proved / missing
* `C16_builder_inv`    — after any accepted sequence of builder calls the state is the declaration's: `types` are the
                         declared parameter types in order, the kinds have the shape required* optional* (repeated |
                         required-repeated-without-optionals)?, `min` = #required, `max` = #parameters or unbounded, and the
                         block fields hold the one declared block (or none).
* `C16_builder_arith`  — the same in plain arithmetic: `min ≤ max`, `types.length = #params`, bounded ⇒ `max = #params` and no
                         repeated parameter, unbounded ⇒ the *last* parameter, and only it, is repeated.
* `C16_builder_rejects`— required after optional, anything after repeated, a second block, `Function` with a block and
                         `Function2` without one are rejected (the panics), for any prefix.
* `C16_resolves`       — `createDispatch` of an accepted builder never hits the `NewIntegerType(min > max)` error.
* `C16_first`          — `call = ran i` ⇒ dispatch `i` exists, is callable, and no earlier one is; `C16_first_conv` the converse.
* `C16_safe`           — `callableWith d args blk` ⇔ arity within `[min,max]`, every argument `j` an instance of type
                         `min(j,last)`, block requirement met (both directions: nothing outside the declaration is accepted,
                         nothing inside it is refused).
* `C16_nomatch`        — `call = reported` ⇔ no dispatch is callable.
* `C16_decl`           — for a dispatch built by an accepted builder sequence the tuple test equals the *positional reading of
                         the declaration* (`DeclAccepts`: every required parameter receives an argument, no surplus arguments
                         without a repeated parameter, argument `j` ∈ type of parameter `min(j,last)`), which does not mention
                         `min`/`max` at all.
* `C16_run_first`, `C16_run_nomatch`, `C16_run_no_fault` — end to end over the builder calls of a whole table: the body that
                         runs belongs to the first creator whose declaration the arguments and block satisfy; `reported` iff
                         none; the resolve error is unreachable.
* `C16_new`            — `newInstance recv args = value r` ⇒ `r` is an instance of the receiver (of the contained type for
                         `Init[T]`), for every constructor function, hence never a value outside the type; `C16_new_outside`:
                         a constructor result outside the type becomes `reported TYPE_MISMATCH`.
* missing / trusted    — constructors' own bodies (Integer from String …) are not modelled: `C16_new` quantifies over an
                         arbitrary constructor function, and the `new` op of the correspondence run is implementation-only (a
                         test with the direct predicate, not a proof).  Receiver resolution from a *string* (`px.Load`), the
                         mismatch describer that builds the error text, and `block.PType() == nil` are outside the model.
                         Block types are modelled for the shapes `Callable` and `Callable[min,max]` in the driver; the theorems
                         hold for any `binst`.
-/
namespace Pcore.Dispatch

section
variable {T BT V B : Type}

/-! ### the builder -/

theorem C16_builder_inv (ops : List (BOp T BT)) (b : Builder T BT) (h : steps Builder.init ops = .ok b) :
    ParamInv b (paramsOf ops) ∧ BlockInv b (blocksOf ops) := by
  simpa using steps_inv ops Builder.init b [] [] paramInv_init blockInv_init h

theorem C16_builder_arith (ops : List (BOp T BT)) (b : Builder T BT) (h : steps Builder.init ops = .ok b) :
    leMax b.min b.max = true ∧ b.types = (paramsOf ops).map (·.2) ∧ b.types.length = (paramsOf ops).length ∧
    b.min ≤ b.types.length ∧
    (∀ m, b.max = some m → m = b.types.length ∧ ∀ p ∈ paramsOf ops, p.1.repeated = false) ∧
    (b.max = none → ∃ pre p, paramsOf ops = pre ++ [p] ∧ p.1.repeated = true ∧ ∀ q ∈ pre, q.1.repeated = false) := by
  obtain ⟨⟨hty, a, o, tl, hk, hro, hmin, hmax⟩, _⟩ := C16_builder_inv ops b h
  have hlen : (paramsOf ops).length = a + o + tl.kinds.length := by
    have := congrArg List.length hk
    simpa [shape_length] using this
  have htl : b.types.length = (paramsOf ops).length := by simp [hty]
  refine ⟨?_, hty, htl, ?_, ?_, ?_⟩
  · rw [hmin, hmax]; cases tl <;> simp [tailMin, tailMax, leMax]
  · rw [hmin, htl, hlen]; cases tl <;> simp [tailMin, Tail.kinds] <;> omega
  · intro m hm
    rw [hmax] at hm
    cases tl with
    | none =>
      simp [tailMax] at hm
      refine ⟨by rw [htl, hlen]; simp [Tail.kinds]; omega, ?_⟩
      intro p hp
      exact (shape_no_repeated (a := a) (o := o) (tl := .none)).mpr rfl p.1
        (by rw [← hk]; exact List.mem_map.mpr ⟨p, hp, rfl⟩)
    | rep => simp [tailMax] at hm
    | reqrep => simp [tailMax] at hm
  · intro hm
    rw [hmax] at hm
    have key : ∀ k : PKind, k.repeated = true →
        (paramsOf ops).map (·.1) = (List.replicate a .req ++ List.replicate o .opt) ++ [k] →
        ∃ pre p, paramsOf ops = pre ++ [p] ∧ p.1.repeated = true ∧ ∀ q ∈ pre, q.1.repeated = false := by
      intro k hkr hmap
      obtain ⟨l1, l2, hl, h1, h2⟩ := List.map_eq_append_iff.mp hmap
      obtain ⟨p, rfl, hp⟩ := List.map_eq_singleton_iff.mp h2
      refine ⟨l1, p, hl, by rw [hp]; exact hkr, ?_⟩
      intro q hq
      have : q.1 ∈ List.replicate a PKind.req ++ List.replicate o PKind.opt := by
        rw [← h1]; exact List.mem_map.mpr ⟨q, hq, rfl⟩
      simp at this
      rcases this with ⟨_, h'⟩ | ⟨_, h'⟩ <;> rw [h'] <;> rfl
    cases tl with
    | none => simp [tailMax] at hm
    | rep => exact key .rep rfl (by simpa [shapeKinds, Tail.kinds] using hk)
    | reqrep => exact key .reqrep rfl (by simpa [shapeKinds, Tail.kinds] using hk)

/-- the panics: for ANY accepted prefix -/
theorem C16_builder_rejects (pre : List (BOp T BT)) (b : Builder T BT) (h : steps Builder.init pre = .ok b) (t : T) (bt : BT) :
    -- anything after a repeated parameter
    ((∃ p ∈ paramsOf pre, p.1.repeated = true) →
        step b (.param t) = .error .afterRepeated ∧ step b (.optional t) = .error .afterRepeated ∧
        step b (.repeated t) = .error .afterRepeated ∧ step b (.requiredRepeated t) = .error .afterRepeated) ∧
    -- required (plain or repeated) after optional
    ((∃ p ∈ paramsOf pre, p.1 = .opt) → (∀ p ∈ paramsOf pre, p.1.repeated = false) →
        step b (.param t) = .error .requiredAfterOptional ∧ step b (.requiredRepeated t) = .error .requiredAfterOptional) ∧
    -- a second block
    (blocksOf pre ≠ [] → step b (.block bt) = .error .blockTwice ∧ step b (.optionalBlock bt) = .error .blockTwice) ∧
    -- Function with a declared block, Function2 without
    (blocksOf pre ≠ [] → finish b .fn = .error .requiresBlock) ∧
    (blocksOf pre = [] → finish b .fn2 = .error .noBlockExpected) := by
  obtain ⟨⟨hty, a, o, tl, hk, hro, hmin, hmax⟩, hb⟩ := C16_builder_inv pre b h
  have hmem : ∀ k, (∃ p ∈ paramsOf pre, p.1 = k) ↔ k ∈ shapeKinds a o tl := by
    intro k; rw [← hk]; simp [List.mem_map]
  refine ⟨?_, ?_, ?_, ?_, ?_⟩
  · rintro ⟨p, hp, hr⟩
    have : tl ≠ .none := by
      intro htl
      have := (shape_no_repeated (a := a) (o := o) (tl := tl)).mpr htl p.1 ((hmem p.1).mp ⟨p, hp, rfl⟩)
      rw [this] at hr; cases hr
    have hmx : b.max = none := by rw [hmax]; cases tl <;> simp_all [tailMax]
    simp [step, hmx]
  · rintro ⟨p, hp, hopt⟩ hnr
    have htl : tl = .none := by
      apply (shape_no_repeated (a := a) (o := o)).mp
      intro k hkm
      obtain ⟨q, hq, rfl⟩ := (hmem k).mpr hkm
      exact hnr q hq
    subst htl
    have ho : 0 < o := by
      have := (hmem .opt).mp ⟨p, hp, hopt⟩
      simp [shapeKinds, Tail.kinds] at this
      omega
    have hlt : ltMax b.min b.max = true := by simp [hmin, hmax, tailMin, tailMax, ltMax]; omega
    have hmax' : b.max = some (a + o) := by simp [hmax, tailMax]
    rw [hmax'] at hlt
    simp [step, hmax', hlt]
  · intro hne
    have : b.blockType.isSome = true := by
      rcases blockInv_cases hb with ⟨h0, _, _⟩ | ⟨bt', _, h1, _⟩ | ⟨bt', _, h1, _⟩
      · exact absurd h0 hne
      · simp [h1]
      · simp [h1]
    simp [step, block2, this, Except.map]
  · intro hne
    have : b.blockType.isSome = true := by
      rcases blockInv_cases hb with ⟨h0, _, _⟩ | ⟨bt', _, h1, _⟩ | ⟨bt', _, h1, _⟩
      · exact absurd h0 hne
      · simp [h1]
      · simp [h1]
    simp [finish, this]
  · intro he
    rw [he] at hb
    simp [finish, hb.1]

/-- `createDispatch` of an accepted builder state never reaches `NewIntegerType(min > max)` -/
theorem C16_resolves (ops : List (BOp T BT)) (b : Builder T BT) (k : FnKind) (h : steps Builder.init ops = .ok b) :
    ∃ d, createDispatch b k = .ok d ∧ d.types = b.types ∧ d.min = b.min ∧ d.max = b.max := by
  have := (C16_builder_arith ops b h).1
  simp [createDispatch, this]

/-! ### the call -/

variable (inst : T → V → Bool) (binst : BT → B → Bool)

/-- the arguments and the block satisfy the resolved declaration `d` -/
def Satisfies (d : Dispatch T BT) (args : List V) (blk : Option B) : Prop :=
  d.min ≤ args.length ∧ (∀ m, d.max = some m → args.length ≤ m) ∧
  (d.types = [] ∨ ∀ j v, args[j]? = some v → ∃ t, d.types[min j (d.types.length - 1)]? = some t ∧ inst t v = true) ∧
  BlockSat binst d.block blk

theorem C16_first (ds : List (Dispatch T BT)) (args : List V) (blk : Option B) (i : Nat)
    (h : call inst binst ds args blk = .ran i) :
    ∃ d, ds[i]? = some d ∧ callableWith inst binst d args blk = true ∧
      ∀ j, j < i → ∀ d', ds[j]? = some d' → callableWith inst binst d' args blk = false := by
  simpa using (callFrom_ran inst binst ds args blk 0 i h).2

theorem C16_first_conv (ds : List (Dispatch T BT)) (args : List V) (blk : Option B) (i : Nat) (d : Dispatch T BT)
    (hd : ds[i]? = some d) (hc : callableWith inst binst d args blk = true)
    (hall : ∀ j, j < i → ∀ d', ds[j]? = some d' → callableWith inst binst d' args blk = false) :
    call inst binst ds args blk = .ran i := by
  simpa [call] using callFrom_first inst binst ds args blk 0 i d hd hc hall

theorem C16_safe (d : Dispatch T BT) (args : List V) (blk : Option B) :
    callableWith inst binst d args blk = true ↔ Satisfies inst binst d args blk := by
  unfold callableWith Satisfies tupleInst sizeOK
  simp only [Bool.and_eq_true, decide_eq_true_eq, blockOK_iff]
  constructor
  · rintro ⟨hb, ⟨hlo, hhi⟩, hl⟩
    refine ⟨hlo, ?_, ?_, hb⟩
    · intro m hm; simpa [hm, leMax] using hhi
    · cases hty : d.types with
      | nil => exact Or.inl rfl
      | cons t ts =>
        right
        rw [hty] at hl
        simpa using (instLoop_iff inst args t ts).mp hl
  · rintro ⟨hlo, hhi, hl, hb⟩
    refine ⟨hb, ⟨hlo, ?_⟩, ?_⟩
    · cases hm : d.max with
      | none => rfl
      | some m => simpa [leMax] using hhi m hm
    · cases hty : d.types with
      | nil => rfl
      | cons t ts =>
        rw [hty] at hl
        rcases hl with hl | hl
        · cases hl
        · exact (instLoop_iff inst args t ts).mpr (by simpa using hl)

theorem C16_nomatch (ds : List (Dispatch T BT)) (args : List V) (blk : Option B) :
    (∀ d ∈ ds, callableWith inst binst d args blk = false) ↔ call inst binst ds args blk = .reported :=
  (callFrom_reported inst binst ds args blk 0).symm

/-- the tuple test of a dispatch built by an accepted builder sequence is the positional reading of the declaration -/
theorem C16_decl (ops : List (BOp T BT)) (b : Builder T BT) (h : steps Builder.init ops = .ok b) (args : List V) :
    tupleInst inst b.types b.min b.max args = true ↔ DeclAccepts inst (paramsOf ops) args :=
  decl_iff inst b (paramsOf ops) (C16_builder_inv ops b h).1 args

/-! ### end to end: from the builder calls of a table to the body that runs -/

/-- the block requirement a creator declares: its (only) block call; `none` without one -/
def declaredBlock (c : Creator T BT) : BlockReq BT := (blocksOf c.ops).headD .none

/-- the arguments and the block satisfy the declaration written by creator `c` -/
def CreatorAccepts (c : Creator T BT) (args : List V) (blk : Option B) : Prop :=
  DeclAccepts inst (paramsOf c.ops) args ∧ BlockSat binst (declaredBlock c) blk

theorem buildOne_callable (c : Creator T BT) (b : Builder T BT) (hb : buildOne c = .ok b) :
    ∃ d, createDispatch b c.kind = .ok d ∧
      ∀ (args : List V) (blk : Option B), callableWith inst binst d args blk = true ↔ CreatorAccepts inst binst c args blk := by
  unfold buildOne at hb
  cases hs : steps Builder.init c.ops with
  | error p => simp [hs] at hb
  | ok b0 =>
    simp [hs] at hb
    have hb0 : b = b0 := by
      cases hk : c.kind <;> simp only [finish, hk] at hb <;> split at hb <;> first | (cases hb; rfl) | cases hb
    subst hb0
    obtain ⟨d, hd, hty, hmin, hmax⟩ := C16_resolves c.ops b c.kind hs
    refine ⟨d, hd, ?_⟩
    intro args blk
    have hbi := (C16_builder_inv c.ops b hs).2
    have hblock : d.block = declaredBlock c := by
      simp [createDispatch, (C16_builder_arith c.ops b hs).1] at hd
      rw [← hd]
      unfold declaredBlock
      cases hk : c.kind with
      | fn =>
        simp [finish, hk] at hb
        rcases blockInv_cases hbi with ⟨h0, _, _⟩ | ⟨bt', _, h1, _⟩ | ⟨bt', _, h1, _⟩
        · simp [h0]
        · simp [h1] at hb
        · simp [h1] at hb
      | fn2 =>
        simp [finish, hk] at hb
        rcases blockInv_cases hbi with ⟨_, h1, _⟩ | ⟨bt', h0, h1, h2⟩ | ⟨bt', h0, h1, h2⟩
        · simp [h1] at hb
        · simp [h0, h1, h2]
        · simp [h0, h1, h2]
    unfold callableWith CreatorAccepts
    rw [Bool.and_eq_true, blockOK_iff, hty, hmin, hmax, hblock, C16_decl inst c.ops b hs args]
    exact And.comm

theorem run_tables (cs : List (Creator T BT)) :
    (∃ p, buildAll cs = .error p) ∨
    ∃ bs ds, buildAll cs = .ok bs ∧ resolveAll bs = .ok ds ∧ ds.length = cs.length ∧
      ∀ (i : Nat) (c : Creator T BT) (d : Dispatch T BT), cs[i]? = some c → ds[i]? = some d →
        ∀ (args : List V) (blk : Option B), callableWith inst binst d args blk = true ↔ CreatorAccepts inst binst c args blk := by
  induction cs with
  | nil => right; exact ⟨[], [], rfl, rfl, rfl, by intro i c d h; simp at h⟩
  | cons c cs ih =>
    unfold buildAll
    cases hb : buildOne c with
    | error p => left; exact ⟨p, by simp⟩
    | ok b =>
      rcases ih with ⟨p, hp⟩ | ⟨bs, ds, hbs, hds, hlen, hall⟩
      · left; exact ⟨p, by simp [hp]⟩
      · right
        obtain ⟨d, hd, hcw⟩ := buildOne_callable inst binst c b hb
        refine ⟨(b, c.kind) :: bs, d :: ds, by simp [hbs], by simp [resolveAll, hd, hds], by simp [hlen], ?_⟩
        intro i c' d' hc' hd'
        cases i with
        | zero => simp at hc' hd'; subst hc' hd'; exact hcw
        | succ i' => simp at hc' hd'; exact hall i' c' d' hc' hd'

/-- the body that runs is that of the FIRST creator whose declaration the arguments and the block satisfy -/
theorem C16_run_first (cs : List (Creator T BT)) (args : List V) (blk : Option B) (i : Nat)
    (h : run inst binst cs args blk = .called (.ran i)) :
    ∃ c, cs[i]? = some c ∧ CreatorAccepts inst binst c args blk ∧
      ∀ j, j < i → ∀ c', cs[j]? = some c' → ¬ CreatorAccepts inst binst c' args blk := by
  rcases run_tables inst binst cs with ⟨p, hp⟩ | ⟨bs, ds, hbs, hds, hlen, hall⟩
  · simp [run, hp] at h
  · simp [run, hbs, hds] at h
    obtain ⟨d, hd, hc, hearlier⟩ := C16_first inst binst ds args blk i h
    have hi : i < cs.length := by
      rw [← hlen]; exact (List.getElem?_eq_some_iff.mp hd).1
    refine ⟨cs[i], by simp [hi], ?_, ?_⟩
    · exact (hall i cs[i] d (by simp [hi]) hd args blk).mp hc
    · intro j hj c' hc' hacc
      have hjl : j < ds.length := by rw [hlen]; omega
      have := hearlier j hj ds[j] (by simp [hjl])
      rw [(hall j c' ds[j] hc' (by simp [hjl]) args blk).mpr hacc] at this
      cases this

/-- an argument error is reported exactly when no declaration is satisfied -/
theorem C16_run_nomatch (cs : List (Creator T BT)) (args : List V) (blk : Option B)
    (hacc : ∃ bs, buildAll cs = .ok bs) :
    run inst binst cs args blk = .called .reported ↔ ∀ c ∈ cs, ¬ CreatorAccepts inst binst c args blk := by
  rcases run_tables inst binst cs with ⟨p, hp⟩ | ⟨bs, ds, hbs, hds, hlen, hall⟩
  · obtain ⟨bs, hbs⟩ := hacc; simp [hp] at hbs
  · simp only [run, hbs, hds]
    constructor
    · intro h c hc hacc'
      have h' : call inst binst ds args blk = .reported := by simpa using h
      have hno := (C16_nomatch inst binst ds args blk).mpr h'
      obtain ⟨i, hi, hci⟩ := List.getElem_of_mem hc
      have hil : i < ds.length := by rw [hlen]; exact hi
      have := hno ds[i] (List.getElem_mem hil)
      rw [(hall i c ds[i] (by simp [hi, hci]) (by simp [hil]) args blk).mpr hacc'] at this
      cases this
    · intro h
      have : call inst binst ds args blk = .reported := by
        apply (C16_nomatch inst binst ds args blk).mp
        intro d hd
        obtain ⟨i, hi, hdi⟩ := List.getElem_of_mem hd
        have hil : i < cs.length := by rw [← hlen]; exact hi
        cases hcw : callableWith inst binst d args blk with
        | false => rfl
        | true =>
          exact absurd ((hall i cs[i] d (by simp [hil]) (by simp [hi, hdi]) args blk).mp hcw) (h cs[i] (List.getElem_mem hil))
      simp [this]

/-- an accepted table always resolves: the `NewIntegerType` error of `createDispatch` is unreachable -/
theorem C16_run_no_fault (cs : List (Creator T BT)) (args : List V) (blk : Option B) (e : ResolveError) :
    run inst binst cs args blk ≠ .resolveFailed e := by
  rcases run_tables inst binst (V := V) (B := B) cs with ⟨p, hp⟩ | ⟨bs, ds, hbs, hds, _, _⟩
  · simp [run, hp]
  · simp [run, hbs, hds]

end

/-! ### `new` -/

section
variable {T V : Type} (inst : T → V → Bool)

/-- the type a `new` on this receiver must produce an instance of -/
def Recv.type? : Recv T V → Option T
  | .noCtor t => some t
  | .ctor t _ => some t
  | .init t _ => some t
  | .initNoCtor => none

theorem C16_new (recv : Recv T V) (args : List V) (r : V) (h : newInstance inst recv args = .value r) :
    ∃ t, recv.type? = some t ∧ inst t r = true := by
  cases recv with
  | noCtor t => simp [newInstance] at h
  | initNoCtor => simp [newInstance] at h
  | ctor t f =>
    simp only [newInstance] at h
    cases hf : f args with
    | reported c => simp [hf] at h
    | value v =>
      simp only [hf, assertInstance] at h
      by_cases hi : inst t v = true
      · simp [hi] at h; subst h; exact ⟨t, rfl, hi⟩
      · simp [hi] at h
  | init t f =>
    simp only [newInstance] at h
    cases hf : f args with
    | reported c => simp [hf] at h
    | value v =>
      simp only [hf, assertInstance] at h
      by_cases hi : inst t v = true
      · simp [hi] at h; subst h; exact ⟨t, rfl, hi⟩
      · simp [hi] at h

/-- a constructor result outside the type is turned into a reported error -/
theorem C16_new_outside (t : T) (f : List V → CtorResult V) (args : List V) (v : V) (hf : f args = .value v)
    (ho : inst t v = false) :
    newInstance inst (.ctor t f) args = .reported "TYPE_MISMATCH" ∧
    newInstance inst (.init t f) args = .reported "TYPE_MISMATCH" := by
  simp [newInstance, hf, assertInstance, ho]

end

/-! ### non-vacuity: the hypotheses are met by non-trivial cases (the driver's alphabet) -/

namespace Alpha

/-- `Param(Integer[0,5]); OptionalParam(Boolean); OptionalBlock(Callable[1,1]); RepeatedParam(Variant[Integer,Undef])` -/
def sampleOps : List (BOp Ty BTy) :=
  [.param (.int (some 0) (some 5)), .optional .bool, .optionalBlock (.range 1 (some 1)),
   .repeated (.var [.int none none, .undef])]

def sampleTable : List (Creator Ty BTy) :=
  [ { ops := [.param (.arr (.int none none))], kind := .fn },
    { ops := sampleOps, kind := .fn2 },
    { ops := [.repeated .any], kind := .fn } ]

-- the builder accepts the sample, with min 1 and an unbounded max (C16_builder_inv / C16_decl have an inhabitant)
example : ∃ b, steps Builder.init sampleOps = .ok b ∧ b.min = 1 ∧ b.max = none ∧ b.types.length = 3 :=
  ⟨_, rfl, rfl, rfl, rfl⟩
example : (paramsOf sampleOps).map (·.1) = [.req, .opt, .rep] ∧ (blocksOf sampleOps).length = 1 := ⟨rfl, rfl⟩
-- a prefix with a repeated parameter rejects everything, one with an optional parameter rejects a required one
-- (hypotheses of C16_builder_rejects)
example : (steps Builder.init (sampleOps ++ [.optional .any]) : Except Panic (Builder Ty BTy)) = .error .afterRepeated := rfl
example : (steps Builder.init [.optional .any, .requiredRepeated .any] : Except Panic (Builder Ty BTy)) =
    .error .requiredAfterOptional := rfl
example : buildOne ({ ops := [.block .any], kind := .fn } : Creator Ty BTy) = .error .requiresBlock := rfl
-- C16_run_first: the second dispatch runs for (3, true, 7) with a one-argument block; the first one (Array[Integer]) rejects 3
example : run inst binst sampleTable [.int 3, .bool true, .int 7] (some ⟨1, some 1⟩) = .called (.ran 1) := by decide
-- the same arguments without the block still pick dispatch 1 (optional block); with a two-argument block dispatch 1 and
-- every other one reject: reported (C16_run_nomatch, both directions inhabited)
example : run inst binst sampleTable [.int 3, .bool true, .int 7] none = .called (.ran 1) := by decide
example : run inst binst sampleTable [.int 3, .bool true, .int 7] (some ⟨2, some 2⟩) = .called .reported := by decide
-- Integer[0,5] rejects 6, so the catch-all third dispatch is the first match; an array goes to the first
example : run inst binst sampleTable [.int 6] none = .called (.ran 2) := by decide
example : run inst binst sampleTable [.arr [.int 1, .int 2]] none = .called (.ran 0) := by decide
-- C16_new: a constructor that returns 7 whatever it is given — accepted by Integer, refused by Integer[0,5] and Init[Integer[0,5]]
example : newInstance inst (.ctor (.int none none) fun _ => .value (.int 7)) [] = .value (.int 7) := rfl
example : newInstance inst (.ctor (.int (some 0) (some 5)) fun _ => .value (.int 7)) [] = .reported "TYPE_MISMATCH" := rfl
example : newInstance inst (.init (.int (some 0) (some 5)) fun _ => .value (.int 7)) [] = .reported "TYPE_MISMATCH" := rfl

end Alpha

end Pcore.Dispatch
