import Pcore.Model.ValueEq
namespace Pcore.ValueEq
end Pcore.ValueEq
