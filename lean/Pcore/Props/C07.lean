import Pcore.Proofs.ValueEqKey
import Pcore.Proofs.ValueEqTyKey
import Pcore.Generated.KeyTable
import Pcore.Proofs.ValueEqCache
import Pcore.Generated.CacheFacts
/-!
# C07 — Equality is an equivalence relation and hash keys respect it

Property (properties.jsonl): equality between values (types included) is reflexive, symmetric and transitive, gives the
same answer whichever operand receives the call, and does not depend on hidden state.  Two values have the same hash
key exactly when they are equal, so a Hash finds a key iff it contains an equal key, and uniqueness / de-duplication
neither merge distinct values nor keep equal ones apart (NaN and Sensitive excepted).

Model: `Pcore/Model/ValueEq.lean` — `veq` (the `Equals` methods), `key`/`kb` (`px.ToKey` byte for byte), `hashGet`,
`unique`; Timespan (compared and keyed by whole seconds) and Timestamp values; types as values (`tyEq`, `tyKey`) for 38 type
kinds: Any Undef String String[size] String['v'] Integer Float Enum Array Variant Tuple Optional Type, Default Unit Scalar ScalarData
Numeric Binary Data RichData SemVerRange, Boolean Collection NotUndef Sensitive Iterable Iterator Regexp Pattern TypeReference
SemVer[range] Hash Like Runtime Callable Struct Init[T];
URI, SemVer, SemVerRange (`Model/ValueEqVer.lean`: `semver.NewVersion3`, `Version.Equals/ToString`, `VersionRange.Equals/ToNormalizedString`),
TypedName, Deferred, Parameter and instances of Object types (no hash key: `key = none`, i.e. `INVALID_MAP_KEY`);
the lazily built index of a Hash (`Model/ValueEqCache.lean`).
The value-level model has no hidden state: `Equals`/`ToKey` are functions of the value; the cache layer (`CHash`) adds the one
cache those methods read, and the theorems of the section "hidden state" say that it never matters; that the implementation
agrees with the model before and after forcing its caches is, beyond that, what the correspondence run checks.

`Comparable x` (`cmp`): integers are int64, floats are 64 bits and not NaN, no Sensitive anywhere (the two exceptions
the property states), a Tuple type has at most 2^63-1 members, every Hash is a well-formed map (no two entries indexed
under the same key bytes), a SemVer is one `NewVersion3` can return (`verOk`), and the value HAS a hash key (no TypedName,
Deferred or Parameter in it).  `EqComparable x` (`ecmp`) is the same without the last demand.

Full statement / proved / missing
* `C07_refl`, `C07_symm`, `C07_trans` — **proved** for all comparable values, every nesting, cross-kind Array/HashEntry
  pairs and types included.  `C07_symm` is the "whichever operand receives the call" clause: `veq x y` is `x.Equals(y)`.
* `C07_refl_all`, `C07_symm_all`, `C07_trans_all` — **proved** for all `EqComparable` values: the same three laws for the
  values that have an `Equals` but no hash key (TypedName, Deferred, Parameter, and everything that contains one).
* `C07_verStr_injective`, `C07_normStr_injective`, `C07_parseInt_intStr`, `C07_newVersion3_ok`, `C07_semver_key_iff`,
  `C07_range_key_iff` — **proved**: what makes SemVer and SemVerRange values `Comparable` (their keys are injective prints).
  `C07_range_original_repaired`: the former witnesses of finding C07-semver-range-original-key (found in this slice, /repo 2f932dc).
* `C07_key_inj` — **proved**: equal keys ⇒ equal values (nothing distinct is ever merged), for all comparable `x y`
  outside the raw-string class (`TopSafe`).
* `C07_key_iff_topsafe` — **proved**: `key x = key y ↔ veq x y` for all comparable values under `TopSafe x y`, the one
  hypothesis that excludes exactly the known finding C07-raw-string-key; `C07_key_iff_full` is the statement without it and
  `C07_key_iff_fails_raw_string` refutes it (`C07_not_key_iff_full`).  (`C07_key_iff` is the same with the former second
  hypothesis `TypeKeysAgree`, which now holds for all comparable values: `TypeKeysAgree_of_comparable`.)
* `C07_type_key_iff` — **proved**: the key of a type decides `Equals` EXACTLY (`tyKey a = tyKey b ↔ tyEq a b`), Variant and Enum
  included: their members enter the key as a set of a given size — the count, then the distinct element keys in ascending
  order (`appendUnorderedTypeParamKeys`, the /repo fix of the former finding C07-type-member-order; the canonical-form
  lemma is `dedupS_sortB_eq_iff`).  `C07_member_order_repaired` are the former witnesses.
* `C07_get_sound`, `C07_get_complete`, `C07_get` — **proved**: `Hash.Get` finds ⇔ an equal key is present, and returns
  that entry's value.
* `C07_unique_sub`, `C07_unique_cover`, `C07_unique_distinct` — **proved**: the survivors are a sub-sequence of the
  input, every input is equal to a survivor, no two survivors are equal.
* `C07_uvarint_prefix_code`, `C07_frame_prefix_code`, `C07_frames_injective` — **proved**: the length prefix of a container
  element is Go's uvarint (modelled bit for bit: 7-bit groups with continuation bit) and is a prefix code for every length;
  `C07_key_inj` rests on these, not on an assumption.
* `C07_no_fault` — **proved**: `px.ToKey` of a comparable value does not panic.
* `C07_key_table_ok`, `C07_prefixes_distinct` — **proved by `decide` over the table regenerated from /repo on every run**
  (`Generated/KeyTable.lean`: the `HkXxx` constants and the leading bytes each `ToKey` writes): they are the bytes the
  model writes, and the eleven kinds have pairwise distinct two-byte heads.  A change of a prefix byte in the code breaks
  this obligation.
* `C07_type_key_iff` now ranges over the 38 type kinds listed above (`C07_callable_key_iff`, `C07_semver_type_repaired`,
  `C07_runtime_repaired`, `C07_callable_repaired`, `C07_struct_key_repaired`: the former witnesses of six findings of this round,
  all repaired in /repo).
* `C07_get/includes/equals_cache_independent`, `C07_forced_same`, `C07_includes_key`, `C07_put_coherent`,
  `C07_stale_index_breaks`, `C07_cache_fields_ok` — **proved**: the hidden-state clause for the Hash index.
* missing: reflected objects; the types outside the model (URI[..], Init, Timespan / Timestamp ranges, TypeSet, Object and
  alias types, Callable with a return or block type): no theorem, only the harness predicate where generated (known findings
  there: C07-object-type-identity-key, C07-timestamp-type-zone-key, C07-uri-type-param-order).  The range grammar
  (`ParseVersionRange`), `net/url` and `objectType.Equals` are outside the model (an op states what they answer, checked on
  every run).  The caches other than the Hash index: by correspondence only.
-/
namespace Pcore.ValueEq

/-- what the type-level lemma provides to the value-level induction -/
theorem tyKey_sound : ∀ a b, TyWF a = true → TyWF b = true → tyKey a = tyKey b → tyEq a b = true := tyEq_of_tyKey

/-! ## equivalence -/

theorem C07_refl (x : Val) (h : Comparable x) : veq x x = true := veq_refl x h

theorem C07_symm (x y : Val) (hx : Comparable x) (hy : Comparable y) : veq x y = veq y x := veq_symm x y hx hy

theorem C07_trans (x y z : Val) (hx : Comparable x) (hy : Comparable y)
    (h1 : veq x y = true) (h2 : veq y z = true) : veq x z = true := veq_trans x y z hx hy h1 h2

/-! ### the same three laws for every value that HAS an `Equals`, whether or not it has a hash key

`EqComparable` is `Comparable` without "has a hash key": SemVer, SemVerRange (whatever string it was parsed from), TypedName,
Deferred and Parameter values and instances of Object types are inside (at any depth of arrays, hash VALUES, entries, Deferred
arguments, Parameter values, attribute values).  `C07_refl/symm/trans` are the special cases (`C07_eqComparable_of_comparable`). -/

theorem C07_eqComparable_of_comparable (x : Val) (h : Comparable x) : EqComparable x := ecmp_of_cmp x h

theorem C07_refl_all (x : Val) (h : EqComparable x) : veq x x = true := veq_refl_e x h

theorem C07_symm_all (x y : Val) (hx : EqComparable x) (hy : EqComparable y) : veq x y = veq y x := veq_symm_e x y hx hy

theorem C07_trans_all (x y z : Val) (hx : EqComparable x) (hy : EqComparable y)
    (h1 : veq x y = true) (h2 : veq y z = true) : veq x z = true := veq_trans_e x y z hx hy h1 h2

/-- instances of Object types are inside the three laws too (`EqComparable` asks of an instance what `px.New` guarantees: unique
    attribute names, distinct equality positions inside the type, one value per attribute).  `attributeSlice.Equals` compares by
    position for the same type and by attribute NAME across two types that both declare `equality_include_type => false`; both
    branches say "every participating name/value pair of the receiver has an Equal partner of the same name in the argument"
    (`veq_obj_view`), and symmetry is the counting argument between two views of the same size (`viewLe_symm`).
    Non-vacuity: `E{a, b; equality [a]}` and `F{b, a; equality [a]}`, neither including the type: `E(1, 2)`, `F(3, 1)`, `E(1, 9)`
    are pairwise Equal, `E(2, 2)` is not, nor is any instance of a type that includes its type in equality -/
def otE : OType := ⟨[0x45], false, [[0x61], [0x62]], [0]⟩
def otF : OType := ⟨[0x46], false, [[0x62], [0x61]], [1]⟩
def otA : OType := ⟨[0x41], true, [[0x61], [0x62]], [0, 1]⟩
example : EqComparable (.obj otE [.int 1, .int 2]) ∧ EqComparable (.obj otF [.int 3, .int 1]) ∧
    EqComparable (.array [.obj otA [.obj otE [.int 1, .int 2], .hash [(.str [0x61], .obj otF [.int 3, .int 1])]]]) ∧
    ¬ EqComparable (.obj otE [.int 1]) ∧ ¬ EqComparable (.obj ⟨[0x45], false, [[0x61], [0x61]], [0]⟩ [.int 1, .int 2]) := by decide
example : veq (.obj otE [.int 1, .int 2]) (.obj otF [.int 3, .int 1]) = true ∧
    veq (.obj otF [.int 3, .int 1]) (.obj otE [.int 1, .int 9]) = true ∧
    veq (.obj otE [.int 2, .int 2]) (.obj otF [.int 3, .int 1]) = false ∧
    veq (.obj otA [.int 1, .int 2]) (.obj otE [.int 1, .int 2]) = false ∧
    key (.obj otE [.int 1, .int 2]) = none := by decide
example : veq (.obj otF [.int 3, .int 1]) (.obj otE [.int 1, .int 2]) = true :=
  (C07_symm_all _ _ (by decide) (by decide)).symm.trans (by decide)
example : veq (.obj otE [.int 1, .int 2]) (.obj otE [.int 1, .int 9]) = true :=
  C07_trans_all _ (.obj otF [.int 3, .int 1]) _ (by decide) (by decide) (by decide) (by decide)

/-- the hypotheses are met by values of the new kinds that are not `Comparable`: a Deferred whose argument is a Hash with a
    SemVer value, a Parameter with a Variant type in another member order, a TypedName in another letter case -/
def sampleD : Val :=
  .deferred [0x66] [.hash [(.str [0x61], .semver ⟨1, 0, 0, some [.txt [0x72, 0x63], .num (-5)], none⟩)],
    .param [0x70] (.var [.str, .int 1 2]) true (.tname [] [0x74] [0x46, 0x6f, 0x6f]) false]
def sampleD' : Val :=
  .deferred [0x66] [.hash [(.str [0x61], .semver ⟨1, 0, 0, some [.txt [0x72, 0x63], .num (-5)], none⟩)],
    .param [0x70] (.var [.int 1 2, .str]) true (.tname [] [0x74] [0x66, 0x4f, 0x4f]) false]
example : EqComparable sampleD ∧ EqComparable sampleD' ∧ ¬ Comparable sampleD := by decide
example : veq sampleD sampleD' = true ∧ veq sampleD' sampleD = true := by decide
example : veq sampleD' sampleD = true := (C07_symm_all _ _ (by decide) (by decide)).symm.trans (by decide)
example : key sampleD = none := by decide

/-! ## the length framing: `binary.PutUvarint` is modelled, and proved to be a prefix code (nothing is assumed) -/

/-- `uvarint` (7-bit groups, least significant first, high bit = continuation — `Model.uvarintAux`) is uniquely
    decodable from the front of any byte string: for ALL lengths, whatever follows -/
theorem C07_uvarint_prefix_code (n m : Nat) (x y : Bytes) (h : uvarint n ++ x = uvarint m ++ y) : n = m ∧ x = y :=
  uvarint_decode h

/-- hence a framed element key `<uvarint length><key>` can be split off the front of a container key in one way only -/
theorem C07_frame_prefix_code (a b x y : Bytes) (h : frame a ++ x = frame b ++ y) : a = b ∧ x = y := frame_decode h

/-- and a concatenation of frames determines the list of framed keys -/
theorem C07_frames_injective (as bs : List Bytes) (h : flat (as.map frame) = flat (bs.map frame)) : as = bs :=
  flat_frames_inj as bs h

/-- the encoding at the boundaries of the length field (one, two and three bytes) is Go's -/
example : uvarint 0 = [0] ∧ uvarint 127 = [0x7f] ∧ uvarint 128 = [0x80, 0x01] ∧ uvarint 255 = [0xff, 0x01] ∧
    uvarint 256 = [0x80, 0x02] ∧ uvarint 300 = [0xac, 0x02] ∧ uvarint 16383 = [0xff, 0x7f] ∧
    uvarint 16384 = [0x80, 0x80, 0x01] := by decide
-- 64 booleans in a nested array (256 bytes of frames) do not collide with the regrouped `[[], true × 64]`
set_option maxRecDepth 20000 in
example : kb (.array [.array (List.replicate 64 (.bool true))]) ≠
    kb (.array (.array [] :: List.replicate 64 (.bool true))) := by decide

/-! ## keys -/

/-- `px.ToKey` of a comparable value does not panic -/
theorem C07_no_fault (x : Val) (h : Comparable x) : key x = some (kb x) := key_of_cmp h

/-- equal keys ⇒ equal: a Hash or `Unique` never takes two different values for one -/
theorem C07_key_inj (x y : Val) (hx : Comparable x) (hy : Comparable y) (ts : TopSafe x y)
    (h : key x = key y) : veq x y = true := by
  rw [key_of_cmp hx, key_of_cmp hy, Option.some.injEq] at h
  exact kb_imp tyKey_sound x y hx hy ts h

theorem C07_key_iff (x y : Val) (hx : Comparable x) (hy : Comparable y) (ts : TopSafe x y) (tk : TypeKeysAgree x y) :
    key x = key y ↔ veq x y = true := by
  rw [key_of_cmp hx, key_of_cmp hy, Option.some.injEq]
  exact kb_iff tyKey_sound x y hx hy ts tk

/-- the property as stated, without the two exclusions -/
def C07_key_iff_full : Prop := ∀ x y : Val, Comparable x → Comparable y → (key x = key y ↔ veq x y = true)

/-- known finding C07-raw-string-key: the string `"\x01u"` has the key of `undef` -/
theorem C07_key_iff_fails_raw_string :
    ∃ x y : Val, Comparable x ∧ Comparable y ∧ key x = key y ∧ veq x y = false :=
  ⟨.str [1, 0x75], .undef, by decide, by decide, by decide, by decide⟩

/-- the former witnesses of finding C07-type-member-order (Variant / Enum equality looked at the members as a set, their keys
    listed them in order; /repo fix "the key of a Variant, Enum or Pattern type does not depend on the member order"):
    `Variant[Integer[1,2],String]` and `Variant[String,Integer[1,2]]` have one key, `Unique` keeps one of two Enums that
    differ in order only, and a repeated member does not matter beyond the count -/
theorem C07_member_order_repaired :
    key (.typ (.var [.int 1 2, .str])) = key (.typ (.var [.str, .int 1 2])) ∧
    (unique [.typ (.enum false [[0x61], [0x62]]), .typ (.enum false [[0x62], [0x61]])]).length = 1 ∧
    key (.typ (.var [.str, .str, .undef])) = key (.typ (.var [.str, .undef, .undef])) ∧
    veq (.typ (.var [.str, .str, .undef])) (.typ (.var [.str, .undef, .undef])) = true ∧
    key (.typ (.var [.str, .undef])) ≠ key (.typ (.var [.str, .undef, .undef])) := by decide

theorem C07_not_key_iff_full : ¬ C07_key_iff_full := by
  intro h
  obtain ⟨x, y, hx, hy, hk, hv⟩ := C07_key_iff_fails_raw_string
  have := (h x y hx hy).mp hk
  rw [hv] at this; cases this

/-- the former witnesses of finding C07-semver-range-original-key (the key of a SemVerRange was the string it was parsed from,
    `Equals` compares the parsed ranges; /repo fix 2f932dc "the key is the normalized form"): `SemVerRange('1.x')` and the
    same ranges without an original string are Equal and now have ONE key, `Unique` keeps one, a Hash keyed by one finds
    the other -/
def rangeOneX : Val := .vrange [0x31, 0x2e, 0x78] [.se ⟨.ge, ⟨1, 0, 0, none, none⟩⟩ ⟨.lt, ⟨2, 0, 0, none, none⟩⟩]
def rangeOneN : Val := .vrange [] [.se ⟨.ge, ⟨1, 0, 0, none, none⟩⟩ ⟨.lt, ⟨2, 0, 0, none, none⟩⟩]
theorem C07_range_original_repaired :
    Comparable rangeOneX ∧ Comparable rangeOneN ∧ veq rangeOneX rangeOneN = true ∧ veq rangeOneN rangeOneX = true ∧
    key rangeOneX = key rangeOneN ∧ (key rangeOneX).isSome = true ∧
    (unique [rangeOneX, rangeOneN]).length = 1 ∧ (hashGet [(rangeOneX, .int 1)] rangeOneN).isSome = true := by decide

/-- the same two findings seen through `Hash.Get` and `Unique` -/
theorem C07_get_fails_raw_string :
    (hashGet [(.undef, .int 1)] (.str [1, 0x75])).isSome = true ∧ veq .undef (.str [1, 0x75]) = false := by decide
theorem C07_unique_fails_raw_string :
    (unique [.undef, .str [1, 0x75]]).length = 1 ∧ veq .undef (.str [1, 0x75]) = false := by decide

/-- sufficient conditions for the two hypotheses -/
theorem TopSafe_of_not_str {x y : Val} (hx : isStr x = false) (hy : isStr y = false) : TopSafe x y := by
  constructor
  · intro s h _; rw [h] at hx; simp [isStr] at hx
  · intro s h _; rw [h] at hy; simp [isStr] at hy

theorem TopSafe_of_str (s s' : Bytes) : TopSafe (.str s) (.str s') := by
  constructor
  · intro _ _ h; simp [isStr] at h
  · intro _ _ h; simp [isStr] at h

theorem TypeKeysAgree_of_no_types {x y : Val} (h : typesIn x = [] ∨ typesIn y = []) : TypeKeysAgree x y := by
  intro a ha b hb
  rcases h with h | h
  · rw [h] at ha; cases ha
  · rw [h] at hb; cases hb

/-! ## types: the key decides `Equals` exactly -/

theorem C07_type_key_iff (a b : Ty) (ha : TyWF a = true) (hb : TyWF b = true) :
    tyKey a = tyKey b ↔ tyEq a b = true := tyKey_iff a b ha hb

/-- the type kinds of the extension round are inside `tyEq` / `tyKey` (so inside `C07_type_key_iff` and, as values, inside
    every theorem about `Comparable` values): Default Unit Scalar ScalarData Numeric Binary Data RichData SemVerRange,
    Boolean[v], Collection[size], NotUndef Sensitive Iterable Iterator, String[size], String['v'], Regexp[/p/], Pattern (a set of
    a given size, like Enum), TypeReference, SemVer[range].  Non-vacuity: member order of a Pattern, the String['v'] handed out
    as the string 'v' by Optional and NotUndef, a negative String size bound, a wrapper of Any -/
example : TyWF (.pattern [[0x61], [0x62], [0x61]]) = true ∧
    tyEq (.pattern [[0x61], [0x62], [0x61]]) (.pattern [[0x62], [0x61], [0x62]]) = true ∧
    tyKey (.pattern [[0x61], [0x62], [0x61]]) = tyKey (.pattern [[0x62], [0x61], [0x62]]) ∧
    tyKey (.pattern [[0x61], [0x62]]) ≠ tyKey (.pattern [[0x61], [0x62], [0x62]]) := by decide
example : tyKey (.opt (.strVal [0x61])) ≠ tyKey (.opt (.enum false [[0x61]])) ∧
    tyKey (.un .notUndef (.strVal [0x61])) ≠ tyKey (.un .sensitive (.strVal [0x61])) ∧
    tyKey (mkStr (-5) 2 []) = tyKey (mkStr 0 2 []) ∧ tyKey (mkStr 0 maxInt []) = tyKey .str := by decide
example : tyKey (.typ (.strVal [0x61])) = tyKey (.typ (.strVal [0x61])) :=
  (C07_type_key_iff _ _ (by decide) (by decide)).mpr (by decide)
example : tyEq (.un .notUndef (.var [.strVal [0x61], .nul .binary])) (.un .notUndef (.var [.nul .binary, .strVal [0x61]])) = true ∧
    TyWF (.un .notUndef (.var [.strVal [0x61], .nul .binary])) = true := by decide
example : tyKey (.un .notUndef (.var [.strVal [0x61], .nul .binary])) = tyKey (.un .notUndef (.var [.nul .binary, .strVal [0x61]])) :=
  (C07_type_key_iff _ _ (by decide) (by decide)).mpr (by decide)

/-- the former witnesses of finding C07-semver-type-all-equal (`SemVerType.Equals` was a bare type assertion: any two SemVer types
    were Equal, their keys differed; /repo fix 1eb7fb4): `SemVer['1.x']` and `SemVer['2.x']` are no longer Equal, neither is the
    default `SemVer`; `SemVer['1.x']` and the same ranges written `>=1.0.0 <2.0.0` are Equal and have ONE key -/
def semverOneX : Ty := .semverT [0x31, 0x2e, 0x78] [.se ⟨.ge, ⟨1, 0, 0, none, none⟩⟩ ⟨.lt, ⟨2, 0, 0, none, none⟩⟩]
def semverOneN : Ty := .semverT [] [.se ⟨.ge, ⟨1, 0, 0, none, none⟩⟩ ⟨.lt, ⟨2, 0, 0, none, none⟩⟩]
def semverTwoX : Ty := .semverT [0x32, 0x2e, 0x78] [.se ⟨.ge, ⟨2, 0, 0, none, none⟩⟩ ⟨.lt, ⟨3, 0, 0, none, none⟩⟩]
theorem C07_semver_type_repaired :
    TyWF semverOneX = true ∧ TyWF semverTwoX = true ∧ TyWF (.semverT [0x2a] matchAllR) = true ∧
    tyEq semverOneX semverTwoX = false ∧ tyEq (.semverT [0x2a] matchAllR) semverOneX = false ∧
    tyEq semverOneX semverOneN = true ∧ tyKey semverOneX = tyKey semverOneN ∧ tyKey semverOneX ≠ tyKey semverTwoX ∧
    tyKey (.semverT [0x2a] matchAllR) = [1, 0x74] ++ ekStr [0x53, 0x65, 0x6d, 0x56, 0x65, 0x72] := by decide

/-- Hash[K, V, size], Like[T, 'nav'] and Runtime['rt', 'name', Regexp[/p/]] are inside `tyEq` / `tyKey` too.  Non-vacuity: the
    default Hash, the empty Hash type `Hash[0, 0]` (Unit, Unit, [0,0]: its parameters are the two integers), member order inside -/
example : TyWF (.hash (.var [.str, .undef]) (.int 1 2) 0 3) = true ∧
    tyEq (.hash (.var [.str, .undef]) (.int 1 2) 0 3) (.hash (.var [.undef, .str]) (.int 1 2) 0 3) = true := by decide
example : tyKey (.hash (.var [.str, .undef]) (.int 1 2) 0 3) = tyKey (.hash (.var [.undef, .str]) (.int 1 2) 0 3) :=
  (C07_type_key_iff _ _ (by decide) (by decide)).mpr (by decide)
example : tyKey (.hash .any .any 0 maxInt) ≠ tyKey (.hash (.nul .unit) (.nul .unit) 0 0) ∧
    tyKey (.hash (.nul .unit) (.nul .unit) 0 0) ≠ tyKey (.hash .any (.nul .unit) 0 0) ∧
    tyKey (.like .str [0x61]) ≠ tyKey (.like .str [0x62]) ∧ tyKey (.like .any []) ≠ tyKey (.like .any [0x61]) := by decide

/-- the former witnesses of the findings C07-runtime-empty-name-key and C07-runtime-equals-nil-pattern (/repo fix 1cd0d3f):
    `Runtime['', 'x']`, `Runtime['', 'y']` and `Runtime` are pairwise not Equal and now have three keys;
    a Runtime with a pattern against the same without one is not Equal, in both orders, without a fault -/
theorem C07_runtime_repaired :
    tyEq (.runtime [] [0x78] none) (.runtime [] [0x79] none) = false ∧ tyEq (.runtime [] [0x78] none) (.runtime [] [] none) = false ∧
    tyKey (.runtime [] [0x78] none) ≠ tyKey (.runtime [] [0x79] none) ∧ tyKey (.runtime [] [0x78] none) ≠ tyKey (.runtime [] [] none) ∧
    tyKey (.runtime [] [0x79] none) ≠ tyKey (.runtime [] [] none) ∧
    tyEq (.runtime [0x72] [0x78] (some [0x79])) (.runtime [0x72] [0x78] none) = false ∧
    tyEq (.runtime [0x72] [0x78] none) (.runtime [0x72] [0x78] (some [0x79])) = false ∧
    tyKey (.runtime [0x72] [0x78] (some [0x79])) ≠ tyKey (.runtime [0x72] [0x78] none) ∧
    tyKey (.runtime [0x72] [] (some [0x78])) ≠ tyKey (.runtime [0x72] [0x78] none) := by decide

/-- Struct types are inside `tyEq` / `tyKey` (`C07_type_key_iff`): members compared IN ORDER by key type and value type; the key
    is the number of members, then per member its entry key (the plain name, or the type `Optional['name']` / `NotUndef['name']`
    when "optional key" and "the value accepts undef" disagree) and its value type, each delimited.
    The former witnesses of finding C07-type-param-hash-undelimited (the entry keys were written as printed text, undelimited;
    /repo fix 61b915c): a member name that swallows "\x03<framed Integer key>b", and a member literally named `Optional['a']`
    against the optional member `a` — never Equal, and now with different keys -/
def structAB : Ty := .struct [([0x61], false, .int minInt maxInt), ([0x62], false, .str)]
def structSwallow : Ty :=
  .struct [([0x61, 0x03, 0x0c, 0x01, 0x74, 0x09, 0x01, 0x73, 0x49, 0x6e, 0x74, 0x65, 0x67, 0x65, 0x72, 0x62], false, .str)]
theorem C07_struct_key_repaired :
    TyWF structAB = true ∧ TyWF structSwallow = true ∧ tyEq structAB structSwallow = false ∧ tyKey structAB ≠ tyKey structSwallow ∧
    tyEq (.struct [([0x61], true, .int 1 2)]) (.struct [([0x4f, 0x70, 0x74, 0x69, 0x6f, 0x6e, 0x61, 0x6c, 0x5b, 0x27, 0x61, 0x27, 0x5d], false, .int 1 2)]) = false ∧
    tyKey (.struct [([0x61], true, .int 1 2)]) ≠
      tyKey (.struct [([0x4f, 0x70, 0x74, 0x69, 0x6f, 0x6e, 0x61, 0x6c, 0x5b, 0x27, 0x61, 0x27, 0x5d], false, .int 1 2)]) ∧
    tyKey (.struct [([0x61], false, .int 1 2), ([0x62], false, .str)]) ≠ tyKey (.struct [([0x62], false, .str), ([0x61], false, .int 1 2)]) := by decide
example : tyKey (.struct [([0x61], true, .var [.str, .undef])]) = tyKey (.struct [([0x61], true, .var [.undef, .str])]) :=
  (C07_type_key_iff _ _ (by decide) (by decide)).mpr (by decide)
example : acceptsUndef (.var [.str, .undef]) = true ∧ acceptsUndef (.var [.str, .int 1 2]) = false ∧
    (mkStructElem [0x61] 0 (.opt .str)).2.1 = true ∧ (mkStructElem [0x61] 0 .str).2.1 = false := by decide

/-- the former witnesses of the findings C07-callable-all-equal (`CallableType.Equals` was a bare type assertion; /repo fix
    3d635fb) and C07-callable-parameters-key (the key was built from `Parameters()`, which drops Unit members and an implied
    Tuple size; /repo fix a044786): `Callable` and `Callable[String]` are no longer Equal; `Callable[Unit, String]` and
    `Callable[String]` (never Equal) now have different keys; `Unique` keeps what is distinct, a Hash finds what is equal -/
def calD : Ty := .callable false [] false .any false .any
def calT (ts : List Ty) : Ty := .callable true ts false .any false .any
theorem C07_callable_repaired :
    tyEq calD (calT [.str]) = false ∧ tyEq (calT [.str]) calD = false ∧
    tyEq (calT [.str]) (calT [.int 1 2]) = false ∧ tyEq (calT [.str]) (calT [.str]) = true ∧
    tyKey calD ≠ tyKey (calT [.str]) ∧
    tyEq (calT [.nul .unit, .str]) (calT [.str]) = false ∧
    tyKey (calT [.nul .unit, .str]) ≠ tyKey (calT [.str]) ∧
    tyKey (calT [.str, .nul .unit]) ≠ tyKey (calT [.nul .unit, .str]) ∧
    tyKey (calT []) ≠ tyKey calD ∧
    (unique [.typ (calT [.str]), .typ (calT [.nul .unit, .str]), .typ (calT [.str])]).length = 2 ∧
    (hashGet [(.typ (calT [.str]), .int 1)] (.typ (calT [.nul .unit, .str]))).isSome = false ∧
    TyWF (calT [.nul .unit, .str]) = true := by decide

/-- the full statement for the Callable family: now an instance of `C07_type_key_iff` (no exception is left) -/
def C07_callable_key_iff_full : Prop :=
  ∀ (h h' : Bool) (ts us : List Ty) (hr hr' : Bool) (r r' : Ty) (hb hb' : Bool) (b b' : Ty),
    TyWF (.callable h ts hr r hb b) = true → TyWF (.callable h' us hr' r' hb' b') = true →
    (tyKey (.callable h ts hr r hb b) = tyKey (.callable h' us hr' r' hb' b') ↔
      tyEq (.callable h ts hr r hb b) (.callable h' us hr' r' hb' b') = true)
theorem C07_callable_key_iff : C07_callable_key_iff_full := fun _ _ _ _ _ _ _ _ _ _ _ _ ha hb => C07_type_key_iff _ _ ha hb
/-- with a return and a block type: `Callable[[String], Variant[String,Undef], Callable[String]]` in another member order -/
example : tyKey (.callable true [.str] true (.var [.str, .undef]) true (calT [.str])) =
    tyKey (.callable true [.str] true (.var [.undef, .str]) true (calT [.str])) :=
  (C07_type_key_iff _ _ (by decide) (by decide)).mpr (by decide)
example : tyKey (.callable true [.str] true .str false .any) ≠ tyKey (.callable true [.str] false .any true .str) ∧
    tyEq (.callable true [.str] true .str false .any) (.callable true [.str] false .any false .any) = false ∧
    tyEq (.callable false [] true .str false (.int 1 2)) (.callable false [.undef] true .str false .str) = true := by decide
example : tyKey (calT [.var [.str, .undef], .int 1 2]) = tyKey (calT [.var [.undef, .str], .int 1 2]) :=
  (C07_type_key_iff _ _ (by decide) (by decide)).mpr (by decide)

/-- every type inside a comparable value is well-formed -/
theorem typesIn_wf : ∀ (n : Nat) (x : Val), sizeOf x ≤ n → cmp x = true → ∀ a ∈ typesIn x, TyWF a = true := by
  intro n
  induction n with
  | zero => intro x h; cases x <;> simp at h
  | succ n ih =>
    have ihL : ∀ vs : List Val, sizeOf vs ≤ n → cmpL vs = true → ∀ a ∈ typesInL vs, TyWF a = true := by
      intro vs
      induction vs with
      | nil => intro _ _ a ha; simp [typesInL] at ha
      | cons v vs ihv =>
        intro hs hc a ha
        simp only [cmpL, Bool.and_eq_true] at hc
        simp only [List.cons.sizeOf_spec] at hs
        simp only [typesInL, List.mem_append] at ha
        rcases ha with ha | ha
        · exact ih v (by omega) hc.1 a ha
        · exact ihv (by omega) hc.2 a ha
    have ihE : ∀ es : List (Val × Val), sizeOf es ≤ n → cmpE es = true → ∀ a ∈ typesInE es, TyWF a = true := by
      intro es
      induction es with
      | nil => intro _ _ a ha; simp [typesInE] at ha
      | cons e es ihe =>
        obtain ⟨k, v⟩ := e
        intro hs hc a ha
        simp only [cmpE, Bool.and_eq_true] at hc
        simp only [List.cons.sizeOf_spec, Prod.mk.sizeOf_spec] at hs
        simp only [typesInE, List.mem_append] at ha
        rcases ha with (ha | ha) | ha
        · exact ih k (by omega) hc.1.1 a ha
        · exact ih v (by omega) hc.1.2 a ha
        · exact ihe (by omega) hc.2 a ha
    intro x hs hc a ha
    cases x with
    | typ t => simp only [typesIn, List.mem_singleton] at ha; subst ha; simpa [cmp] using hc
    | array vs =>
      simp only [Val.array.sizeOf_spec] at hs
      exact ihL vs (by omega) (by simpa [cmp] using hc) a (by simpa [typesIn] using ha)
    | hash es =>
      simp only [Val.hash.sizeOf_spec] at hs
      simp only [cmp, Bool.and_eq_true] at hc
      exact ihE es (by omega) hc.1 a (by simpa [typesIn] using ha)
    | entry k v =>
      simp only [Val.entry.sizeOf_spec] at hs
      simp only [cmp, Bool.and_eq_true] at hc
      simp only [typesIn, List.mem_append] at ha
      rcases ha with ha | ha
      · exact ih k (by omega) hc.1 a ha
      · exact ih v (by omega) hc.2 a ha
    | sensitive v => simp [cmp] at hc
    | deferred n as => simp [cmp] at hc
    | param n t hv v c => simp [cmp] at hc
    | obj t vs => simp [cmp] at hc
    | _ => simp [typesIn] at ha

/-- the former second hypothesis of `C07_key_iff` holds for all comparable values: equal types have equal keys -/
theorem TypeKeysAgree_of_comparable {x y : Val} (hx : Comparable x) (hy : Comparable y) : TypeKeysAgree x y :=
  fun a ha b hb e => tyKey_of_tyEq a b (typesIn_wf _ x (Nat.le_refl _) hx a ha) (typesIn_wf _ y (Nat.le_refl _) hy b hb) e

/-- two values have the same hash key exactly when they are equal — for all comparable values outside the raw-string class -/
theorem C07_key_iff_topsafe (x y : Val) (hx : Comparable x) (hy : Comparable y) (ts : TopSafe x y) :
    key x = key y ↔ veq x y = true :=
  C07_key_iff x y hx hy ts (TypeKeysAgree_of_comparable hx hy)

/-! ## the kinds of the extension round: URI, SemVer, SemVerRange

A URI, a SemVer as `semver.NewVersion3` makes it (`verOk`: Go ints, parts matching the two part patterns, a part that
`strconv.ParseInt` accepts held as an int) and a SemVerRange of such versions (`arOk`), whatever string it was parsed from,
are `Comparable`, so every
theorem above and below speaks about them at any nesting depth.  What that rests on: the printed form of a version and the
normalized form of a range are injective (`%d` is read back by `ParseInt`; the separators `.` `-` `+` blank `||` cannot occur
inside a part). -/

/-- `version.ToString` determines the version: distinct versions never print alike -/
theorem C07_verStr_injective (a b : Ver) (ha : verOk a = true) (hb : verOk b = true) (h : verStr a = verStr b) : a = b :=
  verStr_inj ha hb h

/-- `ToNormalizedString` determines the list of ranges -/
theorem C07_normStr_injective (rs qs : List ARange) (hr : ∀ r ∈ rs, arOk r = true) (hq : ∀ q ∈ qs, arOk q = true)
    (h : normStr rs = normStr qs) : rs = qs := normStr_inj hr hq h

/-- `strconv.ParseInt` reads back what `%d` wrote: a pre-release part is an int exactly when its text is an int's -/
theorem C07_parseInt_intStr (i : Int) (h1 : -9223372036854775808 ≤ i) (h2 : i ≤ 9223372036854775807) :
    parseInt64 (intStr i) = some i := parseInt64_intStr i h1 h2

/-- every version `semver.NewVersion3` returns (Go ints in, any two strings) is well-formed: the `(ver …)` operands of the
    correspondence run are `Comparable` -/
theorem C07_newVersion3_ok (ma mi pa : Int) (p q : Bytes) (v : Ver) (h : newVersion3 ma mi pa p q = some v)
    (h1 : ma ≤ 9223372036854775807) (h2 : mi ≤ 9223372036854775807) (h3 : pa ≤ 9223372036854775807) : verOk v = true :=
  newVersion3_ok h h1 h2 h3
example : (newVersion3 1 0 0 [0x72, 0x63, 0x2e, 0x2d, 0x30, 0x35] [0x30, 0x30, 0x37]).isSome = true ∧
    newVersion3 1 0 0 [0x30, 0x30, 0x37] [] = none := by decide

theorem C07_semver_key_iff (a b : Ver) (ha : verOk a = true) (hb : verOk b = true) :
    key (.semver a) = key (.semver b) ↔ veq (.semver a) (.semver b) = true :=
  C07_key_iff_topsafe _ _ (by simpa [Comparable, cmp] using ha) (by simpa [Comparable, cmp] using hb) (TopSafe_of_not_str rfl rfl)

/-- full statement for SemVerRanges: whatever string they were parsed from -/
def C07_range_key_iff_full : Prop := ∀ (o o' : Bytes) (rs qs : List ARange), (∀ r ∈ rs, arOk r = true) → (∀ q ∈ qs, arOk q = true) →
  (key (.vrange o rs) = key (.vrange o' qs) ↔ veq (.vrange o rs) (.vrange o' qs) = true)

/-- the full statement holds since the /repo fix 2f932dc (it was refuted by `1.x` against the same ranges without an original
    string while the key was the original string) -/
theorem C07_range_key_iff : C07_range_key_iff_full := fun _ _ rs qs hr hq =>
  C07_key_iff_topsafe _ _ (by simpa [Comparable, cmp] using hr) (by simpa [Comparable, cmp] using hq) (TopSafe_of_not_str rfl rfl)

/-- (the part that was provable before the fix: ranges without an original string) -/
theorem C07_range_key_iff_partial (rs qs : List ARange) (hr : ∀ r ∈ rs, arOk r = true) (hq : ∀ q ∈ qs, arOk q = true) :
    key (.vrange [] rs) = key (.vrange [] qs) ↔ veq (.vrange [] rs) (.vrange [] qs) = true :=
  C07_range_key_iff [] [] rs qs hr hq

/-- non-vacuity: `1.0.0-rc.-5+b1` in an array beside a URI, as a hash key; two different builds; a two-range SemVerRange -/
def sampleV : Ver := ⟨1, 0, 0, some [.txt [0x72, 0x63], .num (-5)], some [[0x62, 0x31]]⟩
example : verOk sampleV = true ∧ verOk verMin = true ∧ verOk ⟨1, 0, 0, some [.txt [0x35]], none⟩ = false := by decide
example : Comparable (.hash [(.array [.semver sampleV, .uri [0x61]], .int 1)]) := by decide
example : key (.array [.semver sampleV, .uri [0x61]]) = key (.entry (.semver sampleV) (.uri [0x61])) :=
  (C07_key_iff_topsafe _ _ (by decide) (by decide) (TopSafe_of_not_str rfl rfl)).mpr (by decide)
example : key (.semver ⟨1, 0, 0, none, some [[0x62, 0x31]]⟩) ≠ key (.semver ⟨1, 0, 0, none, some [[0x62, 0x32]]⟩) := fun h =>
  absurd (C07_key_inj _ _ (by decide) (by decide) (TopSafe_of_not_str rfl rfl) h) (by decide)
example : (hashGet [(.semver verMin, .int 1)] (.semver ⟨0, 0, 0, none, none⟩)).isSome = false := by decide
def sampleR : List ARange := [.se ⟨.ge, ⟨1, 0, 0, none, none⟩⟩ ⟨.lt, ⟨2, 0, 0, none, none⟩⟩, .simple ⟨.eq, ⟨3, 0, 0, none, none⟩⟩]
example : Comparable (.vrange [] sampleR) ∧ Comparable (.vrange [0x31] sampleR) := by decide
example : key (.array [.vrange [] sampleR]) = key (.array [.vrange [] sampleR]) ∧
    key (.vrange [] sampleR) ≠ key (.vrange [] [.simple ⟨.eq, ⟨3, 0, 0, none, none⟩⟩]) := by decide

/-! ## Hash.Get -/

/-- found ⇒ some key of the hash is equal to the argument, and the answer is that entry's value -/
theorem C07_get_sound (es : List (Val × Val)) (k v : Val) (hh : Comparable (.hash es)) (hk : Comparable k)
    (ts : ∀ e ∈ es, TopSafe e.1 k) (h : hashGet es k = some v) : ∃ e ∈ es, veq e.1 k = true ∧ e.2 = v := by
  obtain ⟨e, he, h1, h2⟩ := hashGet_some h
  exact ⟨e, he, kb_imp tyKey_sound e.1 k (cmpE_mem (cmp_hash hh).1 e he).1 hk (ts e he) h1, h2⟩

/-- an equal key is present ⇒ found -/
theorem C07_get_complete (es : List (Val × Val)) (k : Val) (hh : Comparable (.hash es)) (hk : Comparable k)
    (ts : ∀ e ∈ es, TopSafe e.1 k) (tk : ∀ e ∈ es, TypeKeysAgree e.1 k)
    (h : ∃ e ∈ es, veq e.1 k = true) : (hashGet es k).isSome = true := by
  obtain ⟨e, he, h1⟩ := h
  rw [hashGet_isSome]
  exact ⟨e, he, (kb_iff tyKey_sound e.1 k (cmpE_mem (cmp_hash hh).1 e he).1 hk (ts e he) (tk e he)).mpr h1⟩

theorem C07_get (es : List (Val × Val)) (k : Val) (hh : Comparable (.hash es)) (hk : Comparable k)
    (ts : ∀ e ∈ es, TopSafe e.1 k) (tk : ∀ e ∈ es, TypeKeysAgree e.1 k) :
    (hashGet es k).isSome = true ↔ ∃ e ∈ es, veq e.1 k = true := by
  constructor
  · intro h
    obtain ⟨v, hv⟩ := Option.isSome_iff_exists.mp h
    obtain ⟨e, he, h1, _⟩ := C07_get_sound es k v hh hk ts hv
    exact ⟨e, he, h1⟩
  · exact C07_get_complete es k hh hk ts tk

/-- `Hash.Get` finds a key exactly when the hash contains an equal key — all comparable keys outside the raw-string class, types
    of every member order included -/
theorem C07_get_topsafe (es : List (Val × Val)) (k : Val) (hh : Comparable (.hash es)) (hk : Comparable k)
    (ts : ∀ e ∈ es, TopSafe e.1 k) : (hashGet es k).isSome = true ↔ ∃ e ∈ es, veq e.1 k = true :=
  C07_get es k hh hk ts (fun e he => TypeKeysAgree_of_comparable (cmpE_mem (cmp_hash hh).1 e he).1 hk)

/-! ## Unique -/

theorem C07_unique_sub (vs : List Val) : (unique vs).Sublist vs := uniqueAux_sublist [] vs

/-- nothing is lost: every input is equal to a survivor -/
theorem C07_unique_cover (vs : List Val) (hc : ∀ v ∈ vs, Comparable v) (ts : ∀ u ∈ vs, ∀ v ∈ vs, TopSafe u v) :
    ∀ v ∈ vs, ∃ u ∈ unique vs, veq u v = true := by
  intro v hv
  rcases uniqueAux_cover [] vs v hv with h | ⟨u, hu, h⟩
  · cases h
  · have hu' := (C07_unique_sub vs).subset hu
    exact ⟨u, hu, kb_imp tyKey_sound u v (hc u hu') (hc v hv) (ts u hu' v hv) h⟩

/-- nothing equal is kept apart: no two survivors are equal -/
theorem C07_unique_distinct (vs : List Val) (hc : ∀ v ∈ vs, Comparable v) (ts : ∀ u ∈ vs, ∀ v ∈ vs, TopSafe u v)
    (tk : ∀ u ∈ vs, ∀ v ∈ vs, TypeKeysAgree u v) : (unique vs).Pairwise (fun a b => veq a b = false) := by
  have sub := (C07_unique_sub vs).subset
  have := (uniqueAux_distinct [] vs).1
  refine List.Pairwise.imp_of_mem ?_ this
  intro a b ha hb hne
  cases h : veq a b with
  | false => rfl
  | true =>
    exact absurd ((kb_iff tyKey_sound a b (hc a (sub ha)) (hc b (sub hb)) (ts a (sub ha) b (sub hb))
      (tk a (sub ha) b (sub hb))).mpr h) hne

/-- no two survivors of `Unique` are equal — all comparable values outside the raw-string class -/
theorem C07_unique_distinct_topsafe (vs : List Val) (hc : ∀ v ∈ vs, Comparable v) (ts : ∀ u ∈ vs, ∀ v ∈ vs, TopSafe u v) :
    (unique vs).Pairwise (fun a b => veq a b = false) :=
  C07_unique_distinct vs hc ts (fun u hu v hv => TypeKeysAgree_of_comparable (hc u hu) (hc v hv))

/-! ## hidden state: the lazily built index of a Hash

`Model/ValueEqCache.lean` gives a Hash its hidden `index` (absent until `valueIndex` is first asked; built by the forward loop
with overwrite; kept), and `Get` / `IncludesKey` / `Equals` as the code computes them — THROUGH the index.  The invariant the
implementation maintains is `Coherent`: the index, if present, is the index of the present entries (entries are never changed
behind an index — C08's subject; `MutableHashValue.PutAll` resets it).  Under it no answer depends on the hidden state. -/

/-- `Hash.Get` through the index is `hashGet` whatever the state of the cache, and asking leaves the hash coherent and unchanged -/
theorem C07_get_cache_independent (h : CHash) (c : h.Coherent) (k : Val) :
    (h.get k).2 = hashGet h.entries k ∧ (h.get k).1.entries = h.entries ∧ (h.get k).1.Coherent := get_coherent c k

theorem C07_includes_cache_independent (h : CHash) (c : h.Coherent) (k : Val) :
    (h.includesKey k).2 = (hashGet h.entries k).isSome ∧ (h.includesKey k).1.entries = h.entries ∧ (h.includesKey k).1.Coherent :=
  includesKey_coherent c k

/-- `IncludesKey` answers true exactly when the hash contains an equal key (the corollary of `C07_get_topsafe` for the method
    that only asks the index) -/
theorem C07_includes_key (h : CHash) (c : h.Coherent) (k : Val) (hh : Comparable (.hash h.entries)) (hk : Comparable k)
    (ts : ∀ e ∈ h.entries, TopSafe e.1 k) : (h.includesKey k).2 = true ↔ ∃ e ∈ h.entries, veq e.1 k = true := by
  rw [(includesKey_coherent c k).1]
  exact C07_get_topsafe h.entries k hh hk ts

/-- `Hash.Equals`, computed through the two indexes as the code does, is the model's `veq` on the two hashes — before the
    caches were built, after, or with only one of them built: equality does not depend on the hidden state -/
theorem C07_equals_cache_independent (h o : CHash) (ch : h.Coherent) (co : o.Coherent) :
    (h.equals o).2 = veq (.hash h.entries) (.hash o.entries) ∧
    (h.equals o).1.1.entries = h.entries ∧ (h.equals o).1.2.entries = o.entries ∧
    (h.equals o).1.1.Coherent ∧ (h.equals o).1.2.Coherent := by
  obtain ⟨e1, e2, e3, e4, e5⟩ := equals_coherent ch co
  exact ⟨e1.trans (equals_index_spec _ _), e2, e3, e4, e5⟩

/-- before vs after every lazy cache was forced: the same answers -/
theorem C07_forced_same (h o : CHash) (ch : h.Coherent) (co : o.Coherent) (k : Val) :
    (h.force.get k).2 = (h.get k).2 ∧ (h.force.includesKey k).2 = (h.includesKey k).2 ∧
    (h.force.equals o.force).2 = (h.equals o).2 ∧ (h.force.equals o).2 = (h.equals o).2 ∧ (h.equals o.force).2 = (h.equals o).2 := by
  obtain ⟨f1, f2, _⟩ := force_coherent ch
  obtain ⟨g1, g2, _⟩ := force_coherent co
  refine ⟨?_, ?_, ?_, ?_, ?_⟩
  · rw [(get_coherent f2 k).1, (get_coherent ch k).1, f1]
  · rw [(includesKey_coherent f2 k).1, (includesKey_coherent ch k).1, f1]
  · rw [(C07_equals_cache_independent _ _ f2 g2).1, (C07_equals_cache_independent _ _ ch co).1, f1, g1]
  · rw [(C07_equals_cache_independent _ _ f2 co).1, (C07_equals_cache_independent _ _ ch co).1, f1]
  · rw [(C07_equals_cache_independent _ _ ch g2).1, (C07_equals_cache_independent _ _ ch co).1, g1]

/-- the one mutator: a `MutableHashValue.Put` leaves a coherent hash (it resets the index), whatever it was before -/
theorem C07_put_coherent (h : CHash) (k v : Val) : (h.put k v).Coherent := put_coherent h k v

/-- the invariant is needed: with a stale index (the entries changed behind it) `Get` answers from the old position -/
theorem C07_stale_index_breaks :
    let stale : CHash := { entries := [(.int 2, .str [0x62]), (.int 1, .str [0x61])], index := some (buildIndex [(.int 1, .str [0x61])]) }
    ¬ stale.Coherent ∧ ((stale.get (.int 1)).2).map kb = some [0x62] ∧ (hashGet stale.entries (.int 1)).map kb = some [0x61] := by
  refine ⟨?_, by decide, by decide⟩
  intro h
  rcases h with h | h
  · cases h
  · exact absurd h (by decide)

/-- which caches exist, and who writes the index: regenerated from the Go sources on every run (`Generated.cacheFacts`).  The
    Hash struct has the three cache fields the model knows (`index` is the one `Equals`/`Get`/`IncludesKey` read), the Array
    struct the two type caches; the index is written by `valueIndex` (a lazy fill) and `PutAll` (a reset) and by nothing else -/
def cacheFieldsOk (f : Pcore.Heap.CacheFacts) : Bool :=
  f.fields == [("Array", ["reducedType", "detailedType"]), ("Hash", ["reducedType", "detailedType", "index"]),
    ("MutableHashValue", ["embedded Hash"])] &&
  (f.writes.filter (fun w => w.2.1 == "index")) ==
    [("Hash.valueIndex", "index", Pcore.Heap.CacheWrite.lazyFill), ("MutableHashValue.PutAll", "index", Pcore.Heap.CacheWrite.reset)]

theorem C07_cache_fields_ok : cacheFieldsOk Pcore.Generated.cacheFacts = true := by decide

/-- non-vacuity: a three-entry hash asked before and after forcing, and against a permuted copy with its index built -/
def sampleH : CHash := { entries := [(.str [0x61], .int 1), (.semver verMin, .int 2), (.typ (calT [.str]), .int 3)] }
def sampleH' : CHash := ({ entries := [(.typ (calT [.str]), .int 3), (.str [0x61], .int 1), (.semver verMin, .int 2)] } : CHash).force
example : sampleH.Coherent ∧ sampleH'.Coherent ∧ sampleH'.index.isSome = true := ⟨Or.inl rfl, Or.inr rfl, rfl⟩
example : (sampleH.equals sampleH').2 = true ∧ ((sampleH.get (.semver verMin)).2).map kb = some (kb (.int 2)) ∧
    (sampleH'.includesKey (.typ (calT [.str]))).2 = true ∧ (sampleH'.includesKey (.typ calD)).2 = false := by decide

/-! ## second tie: the kind prefixes regenerated from the Go sources are the ones the model writes -/

/-- the leading bytes the model writes, listed by the Go method they mirror -/
def modelHeads : List (String × List Nat) := [
  ("Array", (kb (.array [])).map (·.toNat)),
  ("HashEntry", ((kb (.entry .undef .undef)).take 2).map (·.toNat)),
  ("Hash", (kb (.hash [])).map (·.toNat)),
  ("Binary", (kb (.binary [])).map (·.toNat)),
  ("integerValue", ((kb (.int 0)).take 2).map (·.toNat)),
  ("floatValue", ((kb (.float 0)).take 2).map (·.toNat)),
  ("Regexp", (kb (.regexp [])).map (·.toNat)),
  ("TupleType", ((tyKey (.tup [] none)).take 2).map (·.toNat)),
  ("Timespan", ((kb (.timespan 0)).take 2).map (·.toNat)),
  ("Timestamp", ((kb (.timestamp 0 0)).take 2).map (·.toNat)),
  ("UriValue", (kb (.uri [])).map (·.toNat)),
  ("SemVer", ((kb (.semver verMin)).take 2).map (·.toNat)),
  ("SemVerRange", (kb (.vrange [] [])).map (·.toNat)),
  ("UndefValue", (kb .undef).map (·.toNat)),
  ("DefaultValue", (kb .dflt).map (·.toNat)),
  ("hkTrue", (kb (.bool true)).map (·.toNat)),
  ("hkFalse", (kb (.bool false)).map (·.toNat)),
  ("appendKey(type)", ((tyKey .any).take 2).map (·.toNat)),
  ("appendElementKey(string)", (mark (.str [])).map (·.toNat))]

theorem C07_key_table_ok : Pcore.Generated.keyHeads = modelHeads := by decide

/-- `Init` / `Init[T]` (without arguments) is inside too: the absent type is not the type Any -/
example : tyEq (.init false .any) (.init true .any) = false ∧ tyKey (.init false .any) ≠ tyKey (.init true .any) ∧
    tyEq (.init true (.var [.str, .undef])) (.init true (.var [.undef, .str])) = true := by decide
example : tyKey (.init true (.var [.str, .undef])) = tyKey (.init true (.var [.undef, .str])) :=
  (C07_type_key_iff _ _ (by decide) (by decide)).mpr (by decide)

/-- the name every type key starts with is the literal the Go `Name()` method returns (regenerated on every run) -/
def bytesStr (bs : Bytes) : String := String.ofList (bs.map fun c => Char.ofNat c.toNat)
def modelTypeNames : List (String × String) := [
  ("AnyType", bytesStr Ty.any.name), ("UndefType", bytesStr Ty.undef.name), ("stringType", bytesStr Ty.str.name),
  ("IntegerType", bytesStr (Ty.int 0 0).name), ("FloatType", bytesStr (Ty.flt 0 0).name), ("EnumType", bytesStr (Ty.enum false []).name),
  ("ArrayType", bytesStr (Ty.arr .any 0 0).name), ("VariantType", bytesStr (Ty.var []).name), ("TupleType", bytesStr (Ty.tup [] none).name),
  ("OptionalType", bytesStr (Ty.opt .any).name), ("TypeType", bytesStr (Ty.typ .any).name), ("DefaultType", bytesStr (Ty.nul .dflt).name),
  ("UnitType", bytesStr (Ty.nul .unit).name), ("ScalarType", bytesStr (Ty.nul .scalar).name), ("ScalarDataType", bytesStr (Ty.nul .scalarData).name),
  ("NumericType", bytesStr (Ty.nul .numeric).name), ("BinaryType", bytesStr (Ty.nul .binary).name), ("SemVerRangeType", bytesStr (Ty.nul .semverRange).name),
  ("BooleanType", bytesStr (Ty.bool none).name), ("CollectionType", bytesStr (Ty.coll 0 0).name), ("NotUndefType", bytesStr (Ty.un .notUndef .any).name),
  ("SensitiveType", bytesStr (Ty.un .sensitive .any).name), ("IterableType", bytesStr (Ty.un .iterable .any).name),
  ("IteratorType", bytesStr (Ty.un .iterator .any).name), ("RegexpType", bytesStr (Ty.rx []).name), ("PatternType", bytesStr (Ty.pattern []).name),
  ("TypeReferenceType", bytesStr (Ty.tref []).name), ("SemVerType", bytesStr (Ty.semverT [] []).name), ("HashType", bytesStr (Ty.hash .any .any 0 0).name),
  ("LikeType", bytesStr (Ty.like .any []).name), ("CallableType", bytesStr calD.name), ("RuntimeType", bytesStr (Ty.runtime [] [] none).name),
  ("StructType", bytesStr (Ty.struct []).name), ("InitType", bytesStr (Ty.init false .any).name)]
theorem C07_type_names_ok : Pcore.Generated.typeNames = modelTypeNames := by decide

/-- sixteen kinds, sixteen different two-byte heads (Array = HashEntry, Tuple = every other type, true/false share one) -/
theorem C07_prefixes_distinct : ((Pcore.Generated.keyHeads.map (·.2.take 2)).eraseDups).length = 16 := by decide

/-! ## non-vacuity: the hypotheses are met by non-trivial cases -/

/-- two hashes with the same entries in different insertion order, a nested array, `0.0` against `-0.0`, and an entry
    against the two-element array it equals -/
def sampleX : Val :=
  .hash [(.str [0x61], .int 1), (.str [0x62], .array [.float 0, .entry (.int 1) (.str [])]), (.array [.array [.int 1], .int 2], .undef)]
def sampleY : Val :=
  .hash [(.array [.array [.int 1], .int 2], .undef), (.str [0x62], .array [.float 9223372036854775808, .array [.int 1, .str []]]), (.str [0x61], .int 1)]
/-- the regrouped array `[[1,2]]` in the place of `[[1],2]` -/
def sampleZ : Val :=
  .hash [(.str [0x61], .int 1), (.str [0x62], .array [.float 0, .entry (.int 1) (.str [])]), (.array [.array [.int 1, .int 2]], .undef)]

example : Comparable sampleX ∧ Comparable sampleY ∧ Comparable sampleZ := by decide
example : TopSafe sampleX sampleY := TopSafe_of_not_str rfl rfl
example : TypeKeysAgree sampleX sampleY := TypeKeysAgree_of_no_types (Or.inl (by decide))
example : veq sampleX sampleY = true ∧ veq sampleY sampleX = true ∧ veq sampleX sampleZ = false := by decide
example : key sampleX = key sampleY :=
  (C07_key_iff _ _ (by decide) (by decide) (TopSafe_of_not_str rfl rfl) (TypeKeysAgree_of_no_types (Or.inl (by decide)))).mpr
    (by decide)
example : key sampleX ≠ key sampleZ := fun h =>
  absurd (C07_key_inj _ _ (by decide) (by decide) (TopSafe_of_not_str rfl rfl) h) (by decide)
/-- a Timespan is compared and keyed by its whole seconds (1s = 1.5s, both ways), a Timestamp by seconds and nanoseconds -/
example : key (.array [.timespan 1000000000, .timestamp 1 0]) = key (.array [.timespan 1500000000, .timestamp 1 0]) :=
  (C07_key_iff _ _ (by decide) (by decide) (TopSafe_of_not_str rfl rfl) (TypeKeysAgree_of_no_types (Or.inl (by decide)))).mpr
    (by decide)
example : veq (.timestamp 1 0) (.timestamp 1 500000000) = false ∧ veq (.timespan (-1500000000)) (.timespan (-1000000000)) = true := by
  decide
/-- transitivity through a cross-kind step: entry = array = entry -/
example : veq (.entry (.int 1) (.int 2)) (.entry (.int 1) (.int 2)) = true :=
  C07_trans (.entry (.int 1) (.int 2)) (.array [.int 1, .int 2]) _ (by decide) (by decide) (by decide) (by decide)
/-- types: a Tuple with the implied size spelled out, inside an array -/
example : key (.array [.typ (.tup [.int 1 2] none)]) = key (.array [.typ (.tup [.int 1 2] (some (1, 1)))]) :=
  (C07_key_iff _ _ (by decide) (by decide) (TopSafe_of_not_str rfl rfl)
    (fun a ha b hb _ => by
      simp only [typesIn, typesInL, List.append_nil, List.mem_singleton] at ha hb
      subst ha; subst hb; decide)).mpr (by decide)
example : (hashGet [(.array [.str [0x61], .str [0x62]], .int 1)] (.array [.str [0x61, 0x62]])).isSome = false := by decide
example : ∃ e ∈ [((.float 0 : Val), (.int 7 : Val))], veq e.1 (.float 9223372036854775808) = true := ⟨_, List.mem_cons_self, by decide⟩
example : (hashGet [(.float 0, .int 7)] (.float 9223372036854775808)).isSome = true :=
  C07_get_complete _ _ (by decide) (by decide) (fun e he => by
      simp only [List.mem_singleton] at he; subst he; exact TopSafe_of_not_str rfl rfl)
    (fun e he => by simp only [List.mem_singleton] at he; subst he; exact TypeKeysAgree_of_no_types (Or.inl rfl))
    ⟨_, List.mem_cons_self, by decide⟩
example : (unique [.array [.array [.int 1], .int 2], .array [.array [.int 1, .int 2]], .array [.array [.int 1], .int 2]]).length = 2 := by
  decide
example : TyWF (.tup [.int 1 2, .var [.str, .undef]] none) = true ∧
    tyEq (.tup [.int 1 2, .var [.str, .undef]] none) (.tup [.int 1 2, .var [.undef, .str]] (some (2, 2))) = true ∧
    tyKey (.tup [.int 1 2, .var [.str, .undef]] none) = tyKey (.tup [.int 1 2, .var [.undef, .str]] (some (2, 2))) := by decide

end Pcore.ValueEq
