import Pcore.Proofs.LoaderSeq
import Pcore.Proofs.LoaderTS
/-!
# C12 — Loader resolution: parents first, bindings are write-once, misses are not sticky

Property (properties.jsonl): for every history of define, load, has-entry and discover operations over a hierarchy of
loaders: a lookup through a loader answers with the binding of the outermost ancestor that has one, otherwise with the
loader's own binding, otherwise not-found.  A loader's own binding is write-once (re-defining it with an equal value is a
no-op, with a different value it is rejected with a reported error), so as long as no ancestor gains a binding a name
that resolved once resolves to the same value ever after.  A failed lookup followed by a definition makes the name
resolvable, names differing only in letter case denote one entry, and discovery returns exactly the bound names
satisfying the predicate, each once, in sorted order.

The model is `Pcore.LoaderSeq` (`Model/LoaderSeq.lean`, mirrors loader.go at HEAD); the specification is
`bound` (own non-placeholder entry) and `resolve` (first binding along the ancestor chain taken outermost first).
All theorems hold for EVERY state `s` (any hierarchy shape and depth, any contents — in particular every state reachable
by any history), any loader, any name; there is no bound on the history.

Full statement / proved / missing
* `C12_load`, `C12_load_foreign`, `C12_has`, `C12_get` — every lookup answers what `resolve` / `bound` say;
  `C12_lookups_pure` — and changes no binding and no resolution (a miss leaves a placeholder only).             proved
* `C12_writeonce` (one step), `C12_writeonce_run` (any history) — a binding never changes or vanishes.            proved
* `C12_redefine`, `C12_redefine_equal`, `C12_define_new` — different value: reported error and the state is
  unchanged; equal value: accepted and the state is unchanged; unbound: bound now.                                proved
* `C12_stable` — over any history in which no proper ancestor gains a binding for the name, a name that resolved
  keeps resolving to the same value; `C12_stable_ops` the same with the syntactic hypothesis "no definition of
  that name is addressed to a proper ancestor".                                                                   proved
* `C12_miss_then_define` — a failed lookup followed by a definition makes the name resolvable.                    proved
* `C12_case`, `C12_case_ops` — lower-casing is idempotent, names equal up to letter case have one key and every
  operation treats them alike.                                                                                    proved
* `C12_discover` — the answer is sorted, duplicate free, and holds exactly the keys bound in the loader or an
  ancestor that satisfy the predicate (for well-formed states: unique keys per map, `WF`, an invariant of every
  history: `C12_wf_run`).                                                                                          proved
* `C12_assertion_fault_before_fix` — the pre-fix `SetEntry` (non-Type over a bound Type) is witnessed to crash.
* type-set loaders as leaves (`Model/LoaderTS.lean`, `stepT`): `C12_ts_load` — a lookup through the leaf answers the
  specification `tsResolve` (ancestors outermost first, else the member the name denotes, else the name relative to the
  type set) provided no member name it reaches is also bound along the chain; without that hypothesis the statement is
  false (`C12_ts_member_shadows`, known finding C12-typeset-member-before-ancestors: the type set is asked first);
  `C12_ts_has` — HasEntry is `tsResolve ≠ none`, unconditionally; `C12_ts_lookups_pure` — lookups through the leaf change
  no binding; `C12_ts_define` — a definition through the leaf is the definition in its parent (so C12_writeonce /
  C12_redefine apply there); `C12_ts_other` — every other loader behaves as without type-set leaves.              proved
* missing / outside the model: type-set loaders with children or references, the dependency and file-based loaders (C15);
  `strings.ToLower` beyond ASCII; the static loader level (assumed disjoint from the names used, checked by the
  harness per line).  Tie: differential execution of whole histories (harness/c12).
-/
namespace Pcore.LoaderSeq

/-- `px.Load` answers the binding of the outermost ancestor that has one, otherwise the loader's own, otherwise not-found -/
theorem C12_load (s : Sys) (l : Nat) (n : Name) (ha : n.auth = runtimeAuthority) :
    (step s (.load l n)).2 = ansOf (resolve s l (canon n)) := by
  have hj := loadEntryC_join s (chain s.ps l) (canon n)
  simp only [step, load, ha, ne_eq, not_true_eq_false, if_false, resolve, ← hj]
  cases h : loadEntryC s.es (chain s.ps l) (canon n) with
  | none => rfl
  | some o => cases o <;> rfl

/-- a loader answers only for names of its own authority, and such a lookup leaves no trace -/
theorem C12_load_foreign (s : Sys) (l : Nat) (n : Name) (ha : n.auth ≠ runtimeAuthority) :
    step s (.load l n) = (s, .notfound) := by
  simp [step, load, ha]

/-- a lookup changes no binding of any loader under any name (a miss leaves a placeholder, never a value): lookups,
    queries and discoveries are invisible to every later resolution -/
theorem C12_lookups_pure (s : Sys) (op : Op) (hop : ∀ l n v, op ≠ .define l n v) (l' : Nat) (k' : Key) :
    bound (step s op).1 l' k' = bound s l' k' ∧ resolve (step s op).1 l' k' = resolve s l' k' := by
  have hb : ∀ a k, bound (step s op).1 a k = bound s a k := by
    intro a k
    cases op with
    | load l n => exact load_bound s l n a k
    | define l n v => exact absurd rfl (hop l n v)
    | has _ _ => rfl
    | get _ _ => rfl
    | discover _ _ => rfl
  refine ⟨hb l' k', ?_⟩
  unfold resolve
  rw [step_ps]
  congr 1
  funext a
  exact hb a k'

theorem C12_has (s : Sys) (l : Nat) (n : Name) :
    step s (.has l n) = (s, .bool (resolve s l (canon n)).isSome) := by
  simp [step, hasC_eq, resolve]

theorem C12_get (s : Sys) (l : Nat) (n : Name) :
    (step s (.get l n)).1 = s ∧ ∃ e, (step s (.get l n)).2 = .entry e ∧ e.join = bound s l (canon n) :=
  ⟨rfl, _, rfl, rfl⟩

/-- own bindings are write-once: no operation changes or removes a binding (of any loader, under any name) -/
theorem C12_writeonce (s : Sys) (op : Op) (l : Nat) (k : Key) (v : V) (h : bound s l k = some v) :
    bound (step s op).1 l k = some v := bound_step_mono s op l k v h

theorem C12_writeonce_run (s : Sys) (ops : List Op) (l : Nat) (k : Key) (v : V) (h : bound s l k = some v) :
    bound (run s ops).1 l k = some v := bound_run_mono s ops l k v h

/-- a different value for a bound name is rejected with a reported error and changes nothing -/
theorem C12_redefine (s : Sys) (l : Nat) (n : Name) (v v' : V) (h : bound s l (canon n) = some v) (hne : v' ≠ v) :
    (step s (.define l n v')).1 = s ∧
    ((step s (.define l n v')).2 = .reported "PCORE_ATTEMPT_TO_REDEFINE_TYPE" ∨
     (step s (.define l n v')).2 = .reported "PCORE_ATTEMPT_TO_REDEFINE") := by
  obtain ⟨h1, _, h3⟩ := setEntry_bound (s.ents l) (canon n) v v' h
  simp only [step, define]
  rcases h3 hne with h3 | h3
  · have : setEntry (s.ents l) (canon n) (some v') = ((setEntry (s.ents l) (canon n) (some v')).1, .redefineType) := by
      rw [← h3]
    rw [this]; exact ⟨rfl, Or.inl rfl⟩
  · have : setEntry (s.ents l) (canon n) (some v') = ((setEntry (s.ents l) (canon n) (some v')).1, .redefine) := by
      rw [← h3]
    rw [this]; exact ⟨rfl, Or.inr rfl⟩

/-- re-defining with an equal value is a no-op -/
theorem C12_redefine_equal (s : Sys) (l : Nat) (n : Name) (v : V) (h : bound s l (canon n) = some v) :
    step s (.define l n v) = (s, .ok) := by
  obtain ⟨_, h2, _⟩ := setEntry_bound (s.ents l) (canon n) v v h
  have : setEntry (s.ents l) (canon n) (some v) = ((setEntry (s.ents l) (canon n) (some v)).1, .kept) := by
    rw [← h2 rfl]
  simp only [step, define]; rw [this]

/-- defining an unbound name of an existing loader is accepted and binds it (there and nowhere else) -/
theorem C12_define_new (s : Sys) (l : Nat) (n : Name) (v : V) (hl : l < s.es.length) (h : bound s l (canon n) = none) :
    (step s (.define l n v)).2 = .ok ∧ bound (step s (.define l n v)).1 l (canon n) = some v ∧
    ∀ l' k', (l' ≠ l ∨ k' ≠ canon n) → bound (step s (.define l n v)).1 l' k' = bound s l' k' :=
  define_unbound s l n v hl h

/-- as long as no proper ancestor gains a binding for the name, a name that resolved once resolves to the same value
    ever after — whatever else the history does (lookups, misses, definitions and rejected re-definitions anywhere) -/
theorem C12_stable (s : Sys) (ops : List Op) (l : Nat) (k : Key) (v : V) (h : resolve s l k = some v)
    (hanc : ∀ a ∈ ancestors s.ps l, bound s a k = none → bound (run s ops).1 a k = none) :
    resolve (run s ops).1 l k = some v := by
  unfold resolve at *
  rw [run_ps]
  rw [chain_eq, List.reverse_cons] at h ⊢
  apply findSome?_stable (fun a => bound s a k) (fun a => bound (run s ops).1 a k) _ _ v h
  · intro x _ w hw; exact bound_run_mono s ops x k w hw
  · intro x hx hn; exact hanc x (List.mem_reverse.mp hx) hn

/-- the same with a hypothesis on the operations: no definition of that name is addressed to a proper ancestor -/
theorem C12_stable_ops (s : Sys) (ops : List Op) (l : Nat) (k : Key) (v : V) (h : resolve s l k = some v)
    (hops : ∀ op ∈ ops, ∀ a n v', op = .define a n v' → a ∈ ancestors s.ps l → canon n ≠ k) :
    resolve (run s ops).1 l k = some v :=
  C12_stable s ops l k v h fun a ha hn =>
    bound_run_none s ops a k hn fun op hop n v' he => hops op hop a n v' he ha

/-- misses are not sticky: a failed lookup followed by a definition makes the name resolvable -/
theorem C12_miss_then_define (s : Sys) (l : Nat) (n : Name) (v : V) (hl : l < s.es.length)
    (h : resolve s l (canon n) = none) :
    (run s [.load l n, .define l n v]).2 = [.notfound, .ok] ∧
    resolve (run s [.load l n, .define l n v]).1 l (canon n) = some v := by
  -- nothing is bound along the chain, before and after the lookup
  have hall : ∀ a ∈ chain s.ps l, bound s a (canon n) = none := by
    intro a ha
    unfold resolve at h
    rw [List.findSome?_eq_none_iff] at h
    exact h a (List.mem_reverse.mpr ha)
  have hload : (load s l n).2 = .notfound := by
    by_cases ha : n.auth = runtimeAuthority
    · have := C12_load s l n ha; simp only [step] at this; rw [this, h]; rfl
    · simp [load, ha]
  have hl1 : l < (load s l n).1.es.length := by
    have := step_length s (.load l n); simp only [step] at this; rw [this]; exact hl
  have hps : (load s l n).1.ps = s.ps := by have := step_ps s (.load l n); simpa only [step] using this
  have hown : bound (load s l n).1 l (canon n) = none := by
    rw [load_bound]; exact hall l (by rw [chain_eq]; simp)
  obtain ⟨d1, d2, d3⟩ := define_unbound (load s l n).1 l n v hl1 hown
  refine ⟨?_, ?_⟩
  · simp only [run, step, hload, d1]
  · show resolve (define (load s l n).1 l n v).1 l (canon n) = some v
    unfold resolve
    have hps2 : (define (load s l n).1 l n v).1.ps = s.ps := by
      have := step_ps (load s l n).1 (.define l n v); simp only [step] at this; rw [this, hps]
    rw [hps2, chain_eq, List.reverse_cons]
    apply findSome?_last
    · intro a ha
      by_cases hal : a = l
      · subst hal; exact Or.inr d2
      · left
        rw [d3 a (canon n) (Or.inl hal), load_bound]
        exact hall a (by rw [chain_eq]; exact List.mem_cons_of_mem _ (List.mem_reverse.mp ha))
    · exact d2

/-! ### letter case -/

/-- two names that differ only in letter case (of the name or the namespace) -/
def eqFold (n m : Name) : Prop :=
  lower n.auth = lower m.auth ∧ lower n.ns = lower m.ns ∧ lower (stripColons n.name) = lower (stripColons m.name)

/-- the key is already folded, and names that differ only in letter case have the same key -/
theorem C12_case (n m : Name) : lower (canon n) = canon n ∧ (eqFold n m → canon n = canon m) := by
  refine ⟨lower_idem _, ?_⟩
  rintro ⟨h1, h2, h3⟩
  simp only [canon, lower_append, h1, h2, h3]

/-- … hence denote one entry: every operation treats them alike (the authority must match exactly for `load`) -/
theorem C12_case_ops (s : Sys) (l : Nat) (n m : Name) (v : V) (h : eqFold n m) (ha : n.auth = m.auth) :
    step s (.load l n) = step s (.load l m) ∧ step s (.define l n v) = step s (.define l m v) ∧
    step s (.has l n) = step s (.has l m) ∧ step s (.get l n) = step s (.get l m) := by
  have hk := (C12_case n m).2 h
  simp [step, load, define, hk, ha]

/-! ### discovery -/

theorem C12_wf_run (ps : List (Option Nat)) (ops : List Op) : WF (run (Sys.init ps) ops).1 :=
  WF_run _ _ (WF_init ps)

/-- discovery returns exactly the bound names (of the loader or an ancestor) satisfying the predicate,
    each once, in sorted order -/
theorem C12_discover (s : Sys) (h : WF s) (l : Nat) (p : Key → Bool) :
    ∃ ks, step s (.discover l p) = (s, .keys ks) ∧
      ks.Pairwise (fun a b => keyLe a b = true) ∧ ks.Nodup ∧
      ∀ k, k ∈ ks ↔ p k = true ∧ ∃ a ∈ chain s.ps l, (bound s a k).isSome = true :=
  ⟨_, rfl, discC_sorted s p _, discC_nodup s h p _, mem_discC s h p _⟩

/-! ### non-vacuity: a three-level chain with a binding in the middle, a placeholder below, a shadowed binding -/

def nA : Name := ⟨runtimeAuthority, "type", "A"⟩
def na : Name := ⟨runtimeAuthority, "type", "a"⟩
def nb : Name := ⟨runtimeAuthority, "type", "b"⟩
def sample : Sys :=
  (run (Sys.init [none, some 0, some 1]) [.load 2 na, .define 1 nA (.ty 1), .define 2 na (.ty 2), .define 2 nb (.str 1)]).1

example : resolve sample 2 (canon na) = some (.ty 1) ∧ bound sample 2 (canon na) = some (.ty 2) ∧
    bound sample 1 (canon nA) = some (.ty 1) ∧ resolve sample 0 (canon na) = none ∧ WF sample := by
  refine ⟨by decide +kernel, by decide +kernel, by decide +kernel, by decide +kernel, C12_wf_run _ _⟩

-- C12_load / C12_has: the lookup through loader 2 answers the ancestor's binding, not its own
example : na.auth = runtimeAuthority ∧ (step sample (.load 2 na)).2 = .found (.ty 1) ∧
    (step sample (.has 0 na)).2 = .bool false := by decide +kernel
-- C12_redefine / C12_redefine_equal: both error codes occur, the equal value is accepted
example : (step sample (.define 2 na (.ty 3))).2 = .reported "PCORE_ATTEMPT_TO_REDEFINE_TYPE" ∧
    (step sample (.define 2 na (.str 3))).2 = .reported "PCORE_ATTEMPT_TO_REDEFINE" ∧
    (step sample (.define 2 nb (.ty 3))).2 = .reported "PCORE_ATTEMPT_TO_REDEFINE" ∧
    (step sample (.define 2 nA (.ty 2))).2 = .ok := by decide +kernel
-- C12_stable: its hypotheses hold for a history that defines, re-defines and misses everywhere but in an ancestor …
def quietOps : List Op := [.define 2 na (.ty 9), .load 0 na, .define 0 nb (.ty 3), .define 2 nb (.ty 3), .load 1 nb]
example : resolve (run sample quietOps).1 2 (canon na) = some (.ty 1) :=
  C12_stable sample quietOps 2 (canon na) (.ty 1) (by decide +kernel) (by decide +kernel)
-- … and the hypothesis is needed: once the root gains a binding the name resolves to that one
example : resolve (run sample [.define 0 na (.ty 7)]).1 2 (canon na) = some (.ty 7) := by decide +kernel
-- C12_miss_then_define
example : 0 < sample.es.length ∧ resolve sample 0 (canon nb) = none ∧
    resolve (run sample [.load 0 nb, .define 0 nb (.al "b" 1)]).1 0 (canon nb) = some (.al "b" 1) := by decide +kernel
-- C12_case
example : eqFold nA na ∧ nA ≠ na := ⟨⟨by decide +kernel, by decide +kernel, by decide +kernel⟩, by decide +kernel⟩
example : eqFold ⟨runtimeAuthority, "type", "::M::a"⟩ ⟨runtimeAuthority, "Type", "m::A"⟩ := ⟨by decide +kernel, by decide +kernel, by decide +kernel⟩
-- C12_discover: both loaders' bindings, the shadowed name once, the placeholder-free answer sorted
example : (step sample (.discover 2 fun _ => true)).2 = .keys [canon na, canon nb] ∧
    (step sample (.discover 0 fun _ => true)).2 = .keys [] := by decide +kernel

/-! ### type-set loaders as leaves -/

-- (keeps the unifier from evaluating the string functions inside `segsOf n` for a variable `n`)
attribute [local irreducible] segsOf

/-- a lookup through a type-set leaf answers the specification, provided no member name it reaches is also bound along
    the chain (and no name it can take relative has a cached miss in the leaf — see `TSReach`) -/
theorem C12_ts_load (tss : List (Option TypeSet)) (s : Sys) (l : Nat) (t : TypeSet) (n : Name)
    (ht : tsOf tss l = some t) (ha : n.auth = runtimeAuthority) (hne : segsOf n ≠ [])
    (h : TSReach s l t n (segsOf n)) :
    (stepT tss s (.load l n)).2 = ansOf (tsResolve s l t n (segsOf n)) := by
  have hs := tsLoadEntry_spec s l t n (segsOf n) hne h
  rw [stepT_load tss s l t n ht ha]
  exact congrArg ansOf hs

/-- HasEntry through the leaf: the name resolves — with or without shadowing -/
theorem C12_ts_has (tss : List (Option TypeSet)) (s : Sys) (l : Nat) (t : TypeSet) (n : Name) (ht : tsOf tss l = some t) :
    stepT tss s (.has l n) = (s, .bool (tsResolve s l t n (segsOf n)).isSome) := by
  rw [stepT_has tss s l t n ht, tsHas_spec]

/-- lookups and queries through the leaf change no binding of any loader -/
theorem C12_ts_lookups_pure (tss : List (Option TypeSet)) (s : Sys) (l : Nat) (t : TypeSet) (n : Name)
    (ht : tsOf tss l = some t) (l' : Nat) (k' : Key) :
    bound (stepT tss s (.load l n)).1 l' k' = bound s l' k' ∧ (stepT tss s (.has l n)).1 = s := by
  refine ⟨?_, by rw [stepT_has tss s l t n ht]⟩
  by_cases ha : n.auth = runtimeAuthority
  · rw [stepT_load tss s l t n ht ha]; exact tsLoadEntry_bound s l t n _ l' k'
  · rw [stepT_load_foreign tss s l t n ht ha]

/-- a definition through the leaf is the definition in its parent -/
theorem C12_ts_define (tss : List (Option TypeSet)) (s : Sys) (l p : Nat) (t : TypeSet) (n : Name) (v : V)
    (ht : tsOf tss l = some t) (hp : s.ps.getD l none = some p) :
    stepT tss s (.define l n v) = step s (.define p n v) :=
  stepT_define tss s l p t n v ht hp

/-- every loader that is not a type-set leaf behaves exactly as in a hierarchy without them -/
theorem C12_ts_other (tss : List (Option TypeSet)) (s : Sys) (op : Op) (h : tsOf tss op.loader = none) :
    stepT tss s op = step s op := stepT_plain tss s op h

def demoTS : TypeSet := { name := "my", members := [("foo", .al "My::Foo" 1), ("bar", .al "My::Bar" 2)] }
def demoTss : List (Option TypeSet) := [none, none, some demoTS]
def nMyFoo : Name := ⟨runtimeAuthority, "type", "My::Foo"⟩
def nFoo : Name := ⟨runtimeAuthority, "type", "Foo"⟩
/-- the history of the seeded change C12-s2: a miss through the ancestor, then the lookup through the leaf -/
def tsSample : Sys := (runT demoTss (Sys.init [none, some 0, some 1]) [.load 0 nMyFoo]).1

-- non-vacuity of C12_ts_load: after the miss in the ancestor (its miss marker is in loader 0) the hypotheses hold and the
-- lookup through the leaf still finds the member by its qualified path
example : tsOf demoTss 2 = some demoTS ∧ lk (canon nMyFoo) (tsSample.ents 0) = some none ∧
    (stepT demoTss tsSample (.load 2 nMyFoo)).2 = .found (.al "My::Foo" 1) ∧
    tsResolve tsSample 2 demoTS nMyFoo (segsOf nMyFoo) = some (.al "My::Foo" 1) := by decide +kernel
example : segsOf nMyFoo = ["my", "foo"] ∧ TSReach tsSample 2 demoTS nMyFoo (segsOf nMyFoo) := by decide +kernel

/-- the hypothesis is needed (known finding C12-typeset-member-before-ancestors): with `Foo` bound in the root, the lookup
    through the leaf answers the member, the specification the root's binding -/
theorem C12_ts_member_shadows :
    let s := (runT demoTss (Sys.init [none, some 0, some 1]) [.define 0 nFoo (.ty 7)]).1
    (stepT demoTss s (.load 2 nFoo)).2 = .found (.al "My::Foo" 1) ∧
    tsResolve s 2 demoTS nFoo (segsOf nFoo) = some (.ty 7) := by decide +kernel

/-! ### the defects that were repaired, as witnesses on the pre-fix definitions -/

/-- `basicLoader.SetEntry` before the fix "SetEntry of a non-Type value over a bound Type failed a type assertion":
    `nv.(px.Type)` was asserted whenever the OLD value is a type -/
def setEntryBeforeFix (es : Ents) (k : Key) (nv : Option V) : Option (Ents × SetRes) :=
  match lk k es, nv with
  | some (some ov), some v =>
    if ov = v then some (es, .kept)
    else if ov.isType then (if v.isType then some (es, .redefineType) else none)    -- none = fault (type assertion)
    else some (es, .redefine)
  | _, _ => some (setEntry es k nv)

theorem C12_assertion_fault_before_fix :
    setEntryBeforeFix [("k", some (.ty 1))] "k" (some (.str 1)) = none ∧
    (setEntry [("k", some (.ty 1))] "k" (some (.str 1))).2 = .redefine := by decide +kernel

/-- `Discover` before the fix "Discover returned cached-miss placeholders …": every map key took part -/
def discCBeforeFix (es : List Ents) (p : Key → Bool) : List Nat → List Key
  | [] => []
  | l :: anc =>
    let found := discCBeforeFix es p anc
    let added := (es.getD l []).filterMap fun (k, _) => if !hasC es anc k && p k then some k else none   -- `!l.parent.HasEntry(tn)`
    if added.isEmpty then found else sortKeys (found ++ added)

/-- a miss was discovered as a name, and a name bound below an ancestor's placeholder was answered twice -/
theorem C12_discover_placeholder_before_fix :
    discCBeforeFix (run (Sys.init [none]) [.load 0 na]).1.es (fun _ => true) [0] = [canon na] ∧
    discCBeforeFix (run (Sys.init [none, some 0]) [.load 0 na, .define 1 na (.ty 1)]).1.es (fun _ => true) [1, 0]
      = [canon na, canon na] ∧
    discC (run (Sys.init [none, some 0]) [.load 0 na, .define 1 na (.ty 1)]).1.es (fun _ => true) [1, 0] = [canon na] := by
  decide +kernel

end Pcore.LoaderSeq
