import Pcore.Proofs.LoaderSeq
import Pcore.Proofs.LoaderTS
import Pcore.Proofs.LoaderDep
import Pcore.Proofs.LoaderKey
import Pcore.Proofs.LoaderStatic
/-!
# C12 — Loader resolution: parents first, bindings are write-once, misses are not sticky

Property (properties.jsonl): for every history of define, load, has-entry and discover operations over a hierarchy of
loaders: a lookup through a loader answers with the binding of the outermost ancestor that has one, otherwise with the
loader's own binding, otherwise not-found.  A loader's own binding is write-once (re-defining it with an equal value is a
no-op, with a different value it is rejected with a reported error), so as long as no ancestor gains a binding a name
that resolved once resolves to the same value ever after.  A failed lookup followed by a definition makes the name
resolvable, names differing only in letter case denote one entry, and discovery returns exactly the bound names
satisfying the predicate, each once, in sorted order.

The model is `Pcore.LoaderSeq` (`Model/LoaderSeq.lean`, mirrors loader.go at HEAD); the specification is
`bound` (own non-placeholder entry) and `resolve` (first binding along the ancestor chain taken outermost first).
All theorems hold for EVERY state `s` (any hierarchy shape and depth, any contents — in particular every state reachable
by any history), any loader, any name; there is no bound on the history.

Full statement / proved / missing
* `C12_load`, `C12_load_foreign`, `C12_has`, `C12_get` — every lookup answers what `resolve` / `bound` say;
  `C12_lookups_pure` — and changes no binding and no resolution (a miss leaves a placeholder only).             proved
* `C12_writeonce` (one step), `C12_writeonce_run` (any history) — a binding never changes or vanishes.            proved
* `C12_redefine`, `C12_redefine_equal`, `C12_define_new` — different value: reported error and the state is
  unchanged; equal value: accepted and the state is unchanged; unbound: bound now.                                proved
* `C12_stable` — over any history in which no proper ancestor gains a binding for the name, a name that resolved
  keeps resolving to the same value; `C12_stable_ops` the same with the syntactic hypothesis "no definition of
  that name is addressed to a proper ancestor".                                                                   proved
* `C12_miss_then_define` — a failed lookup followed by a definition makes the name resolvable.                    proved
* `C12_case`, `C12_case_ops` — lower-casing is idempotent, names equal up to letter case have one key and every
  operation treats them alike.                                                                                    proved
* `C12_discover` — the answer is sorted, duplicate free, and holds exactly the keys bound in the loader or an
  ancestor that satisfy the predicate (for well-formed states: unique keys per map, `WF`, an invariant of every
  history: `C12_wf_run`).                                                                                          proved
* `C12_assertion_fault_before_fix` — the pre-fix `SetEntry` (non-Type over a bound Type) is witnessed to crash.
* type-set loaders as leaves (`Model/LoaderTS.lean`, `stepT`): `C12_ts_load` — a lookup through the leaf answers the
  specification `tsResolve` (ancestors outermost first, else the member the name denotes, else the name relative to the
  type set) provided no member name it reaches is also bound along the chain; without that hypothesis the statement is
  false (`C12_ts_member_shadows`, known finding C12-typeset-member-before-ancestors: the type set is asked first);
  `C12_ts_has` — HasEntry is `tsResolve ≠ none`, unconditionally; `C12_ts_lookups_pure` — lookups through the leaf change
  no binding; `C12_ts_define` — a definition through the leaf is the definition in its parent (so C12_writeonce /
  C12_redefine apply there); `C12_ts_other` — every other loader behaves as without type-set leaves.              proved
* dependency loaders as roots over plain module loaders (`Model/LoaderDep.lean`, `stepD`): `C12_dep_load_refines` — a lookup
  through a chain rooted in a dependency loader is the LAZY BINDING of the name in that root (`fillD`, characterised by
  `C12_dep_fill`) followed by the plain lookup, so it answers `resolve` on the filled state (`C12_dep_load`);
  `C12_dep_first` — the first lookup answers the binding of the first loader in dependency order that binds the name (the
  named module for a qualified name) and binds it; `C12_dep_cached`, `C12_dep_stable`, `C12_dep_stable_chain` — what was
  answered once is answered ever after; `C12_dep_writeonce(_run)`; `C12_dep_invalid_name` — reported error, no trace;
  `C12_dep_queries`, `C12_dep_other`, `C12_dep_wf_run`, `C12_dep_discover` — everything else is the plain model;
  `C12_dep_miss_then_define_partial` — miss, then definition in the dependency loader: resolvable.                  proved
  FULL statement `C12_dep_load_full` (a lookup answers what the dependencies bind whenever the dependency loader holds no
  value, in every reachable state) HOLDS since fix 9d272bd: `C12_dep_load_full_holds`, `C12_dep_load_unbound`,
  `C12_dep_miss_then_define` (misses are not sticky); pre-fix witness `C12_dep_miss_sticky_before_fix`.  FALSE is
  "discovery = union over the dependencies" (`C12_dep_discover_union_full`, `C12_dep_discover_unloaded`).
* letter case: `lower` is Go's `strings.ToLower` (`unicode.ToLower` over the case table regenerated from $GOROOT; idempotent
  by `toLower_idem` + `caseRanges_lowerOK`), so `C12_case` / `C12_case_ops` speak about the real folding.  The typed name as
  a struct with caches (`Model/LoaderKey.lean`): `C12_key_is_canon`; `C12_key_derived_fresh_partial` — a name derived by
  `Child()`/`Parent()` from a name without cached key has the right key.                                            proved
  `C12_key_derived_lenstable_partial`, `C12_key_derived_ascii` — with a cached key too, when lower-casing keeps the UTF-8
  length of every letter.                                                                                            proved
  FULL statement `C12_key_derived_full` (every name, cached key or not) HOLDS since fix 50062c5: `C12_key_derived`,
  `C12_key_derived_any`; pre-fix: `C12_key_derived_lenstable_before_fix`, witnesses `C12_key_derived_wrong_before_fix`,
  `C12_key_derived_fault_before_fix`.
* the global level (`Model/LoaderStatic.lean`): `C12_define_ancestor_after_miss` — after a miss a definition in any loader
  of the chain, the static root included, makes the name resolve to that value; `ResolveResolvables` = the definitions of
  the declared types in order, ended by the first rejection: `C12_rr_loop`, `C12_rr_ok`, `C12_rr_queue`,
  `C12_rr_writeonce(_run)`, `C12_rr_plain`, witness `C12_rr_drops_rest`.                                              proved
* type sets as providers of names (`px.AddTypes` of a TypeSet, `addTypeSet`): `C12_addts_refines` (refinement: a member
  that resolves is skipped, any other defined), `C12_addts_members`, `C12_addts_after_miss` (misses are not sticky for
  type sets), witness `C12_addts_known_member_kept`.                                                               proved
* missing / outside the model: type-set loaders with children or references or beside dependency loaders, dependency
  loaders over anything but plain loaders, file-based loaders (C15); names that are not valid UTF-8; the preloaded
  contents of the static loader other than `Integer` (checked disjoint from the names used by the harness per line).  Tie: differential execution of whole
  histories (harness/c12).
-/
namespace Pcore.LoaderSeq

/-- `px.Load` answers the binding of the outermost ancestor that has one, otherwise the loader's own, otherwise not-found -/
theorem C12_load (s : Sys) (l : Nat) (n : Name) (ha : n.auth = runtimeAuthority) :
    (step s (.load l n)).2 = ansOf (resolve s l (canon n)) := by
  have hj := loadEntryC_join s (chain s.ps l) (canon n)
  simp only [step, load, ha, ne_eq, not_true_eq_false, if_false, resolve, ← hj]
  cases h : loadEntryC s.es (chain s.ps l) (canon n) with
  | none => rfl
  | some o => cases o <;> rfl

/-- a loader answers only for names of its own authority, and such a lookup leaves no trace -/
theorem C12_load_foreign (s : Sys) (l : Nat) (n : Name) (ha : n.auth ≠ runtimeAuthority) :
    step s (.load l n) = (s, .notfound) := by
  simp [step, load, ha]

/-- a lookup changes no binding of any loader under any name (a miss leaves a placeholder, never a value): lookups,
    queries and discoveries are invisible to every later resolution -/
theorem C12_lookups_pure (s : Sys) (op : Op) (hop : ∀ l n v, op ≠ .define l n v) (l' : Nat) (k' : Key) :
    bound (step s op).1 l' k' = bound s l' k' ∧ resolve (step s op).1 l' k' = resolve s l' k' := by
  have hb : ∀ a k, bound (step s op).1 a k = bound s a k := by
    intro a k
    cases op with
    | load l n => exact load_bound s l n a k
    | define l n v => exact absurd rfl (hop l n v)
    | has _ _ => rfl
    | get _ _ => rfl
    | discover _ _ => rfl
  refine ⟨hb l' k', ?_⟩
  unfold resolve
  rw [step_ps]
  congr 1
  funext a
  exact hb a k'

theorem C12_has (s : Sys) (l : Nat) (n : Name) :
    step s (.has l n) = (s, .bool (resolve s l (canon n)).isSome) := by
  simp [step, hasC_eq, resolve]

theorem C12_get (s : Sys) (l : Nat) (n : Name) :
    (step s (.get l n)).1 = s ∧ ∃ e, (step s (.get l n)).2 = .entry e ∧ e.join = bound s l (canon n) :=
  ⟨rfl, _, rfl, rfl⟩

/-- own bindings are write-once: no operation changes or removes a binding (of any loader, under any name) -/
theorem C12_writeonce (s : Sys) (op : Op) (l : Nat) (k : Key) (v : V) (h : bound s l k = some v) :
    bound (step s op).1 l k = some v := bound_step_mono s op l k v h

theorem C12_writeonce_run (s : Sys) (ops : List Op) (l : Nat) (k : Key) (v : V) (h : bound s l k = some v) :
    bound (run s ops).1 l k = some v := bound_run_mono s ops l k v h

/-- a different value for a bound name is rejected with a reported error and changes nothing -/
theorem C12_redefine (s : Sys) (l : Nat) (n : Name) (v v' : V) (h : bound s l (canon n) = some v) (hne : v' ≠ v) :
    (step s (.define l n v')).1 = s ∧
    ((step s (.define l n v')).2 = .reported "PCORE_ATTEMPT_TO_REDEFINE_TYPE" ∨
     (step s (.define l n v')).2 = .reported "PCORE_ATTEMPT_TO_REDEFINE") := by
  obtain ⟨h1, _, h3⟩ := setEntry_bound (s.ents l) (canon n) v v' h
  simp only [step, define]
  rcases h3 hne with h3 | h3
  · have : setEntry (s.ents l) (canon n) (some v') = ((setEntry (s.ents l) (canon n) (some v')).1, .redefineType) := by
      rw [← h3]
    rw [this]; exact ⟨rfl, Or.inl rfl⟩
  · have : setEntry (s.ents l) (canon n) (some v') = ((setEntry (s.ents l) (canon n) (some v')).1, .redefine) := by
      rw [← h3]
    rw [this]; exact ⟨rfl, Or.inr rfl⟩

/-- re-defining with an equal value is a no-op -/
theorem C12_redefine_equal (s : Sys) (l : Nat) (n : Name) (v : V) (h : bound s l (canon n) = some v) :
    step s (.define l n v) = (s, .ok) := by
  obtain ⟨_, h2, _⟩ := setEntry_bound (s.ents l) (canon n) v v h
  have : setEntry (s.ents l) (canon n) (some v) = ((setEntry (s.ents l) (canon n) (some v)).1, .kept) := by
    rw [← h2 rfl]
  simp only [step, define]; rw [this]

/-- defining an unbound name of an existing loader is accepted and binds it (there and nowhere else) -/
theorem C12_define_new (s : Sys) (l : Nat) (n : Name) (v : V) (hl : l < s.es.length) (h : bound s l (canon n) = none) :
    (step s (.define l n v)).2 = .ok ∧ bound (step s (.define l n v)).1 l (canon n) = some v ∧
    ∀ l' k', (l' ≠ l ∨ k' ≠ canon n) → bound (step s (.define l n v)).1 l' k' = bound s l' k' :=
  define_unbound s l n v hl h

/-- as long as no proper ancestor gains a binding for the name, a name that resolved once resolves to the same value
    ever after — whatever else the history does (lookups, misses, definitions and rejected re-definitions anywhere) -/
theorem C12_stable (s : Sys) (ops : List Op) (l : Nat) (k : Key) (v : V) (h : resolve s l k = some v)
    (hanc : ∀ a ∈ ancestors s.ps l, bound s a k = none → bound (run s ops).1 a k = none) :
    resolve (run s ops).1 l k = some v := by
  unfold resolve at *
  rw [run_ps]
  rw [chain_eq, List.reverse_cons] at h ⊢
  apply findSome?_stable (fun a => bound s a k) (fun a => bound (run s ops).1 a k) _ _ v h
  · intro x _ w hw; exact bound_run_mono s ops x k w hw
  · intro x hx hn; exact hanc x (List.mem_reverse.mp hx) hn

/-- the same with a hypothesis on the operations: no definition of that name is addressed to a proper ancestor -/
theorem C12_stable_ops (s : Sys) (ops : List Op) (l : Nat) (k : Key) (v : V) (h : resolve s l k = some v)
    (hops : ∀ op ∈ ops, ∀ a n v', op = .define a n v' → a ∈ ancestors s.ps l → canon n ≠ k) :
    resolve (run s ops).1 l k = some v :=
  C12_stable s ops l k v h fun a ha hn =>
    bound_run_none s ops a k hn fun op hop n v' he => hops op hop a n v' he ha

/-- misses are not sticky: a failed lookup followed by a definition makes the name resolvable -/
theorem C12_miss_then_define (s : Sys) (l : Nat) (n : Name) (v : V) (hl : l < s.es.length)
    (h : resolve s l (canon n) = none) :
    (run s [.load l n, .define l n v]).2 = [.notfound, .ok] ∧
    resolve (run s [.load l n, .define l n v]).1 l (canon n) = some v := by
  -- nothing is bound along the chain, before and after the lookup
  have hall : ∀ a ∈ chain s.ps l, bound s a (canon n) = none := by
    intro a ha
    unfold resolve at h
    rw [List.findSome?_eq_none_iff] at h
    exact h a (List.mem_reverse.mpr ha)
  have hload : (load s l n).2 = .notfound := by
    by_cases ha : n.auth = runtimeAuthority
    · have := C12_load s l n ha; simp only [step] at this; rw [this, h]; rfl
    · simp [load, ha]
  have hl1 : l < (load s l n).1.es.length := by
    have := step_length s (.load l n); simp only [step] at this; rw [this]; exact hl
  have hps : (load s l n).1.ps = s.ps := by have := step_ps s (.load l n); simpa only [step] using this
  have hown : bound (load s l n).1 l (canon n) = none := by
    rw [load_bound]; exact hall l (by rw [chain_eq]; simp)
  obtain ⟨d1, d2, d3⟩ := define_unbound (load s l n).1 l n v hl1 hown
  refine ⟨?_, ?_⟩
  · simp only [run, step, hload, d1]
  · show resolve (define (load s l n).1 l n v).1 l (canon n) = some v
    unfold resolve
    have hps2 : (define (load s l n).1 l n v).1.ps = s.ps := by
      have := step_ps (load s l n).1 (.define l n v); simp only [step] at this; rw [this, hps]
    rw [hps2, chain_eq, List.reverse_cons]
    apply findSome?_last
    · intro a ha
      by_cases hal : a = l
      · subst hal; exact Or.inr d2
      · left
        rw [d3 a (canon n) (Or.inl hal), load_bound]
        exact hall a (by rw [chain_eq]; exact List.mem_cons_of_mem _ (List.mem_reverse.mp ha))
    · exact d2

/-! ### letter case -/

/-- two names that differ only in letter case (of the name or the namespace) -/
def eqFold (n m : Name) : Prop :=
  lower n.auth = lower m.auth ∧ lower n.ns = lower m.ns ∧ lower (stripColons n.name) = lower (stripColons m.name)

/-- the key is already folded, and names that differ only in letter case have the same key -/
theorem C12_case (n m : Name) : lower (canon n) = canon n ∧ (eqFold n m → canon n = canon m) := by
  refine ⟨lower_idem _, ?_⟩
  rintro ⟨h1, h2, h3⟩
  simp only [canon, lower_append, h1, h2, h3]

/-- … hence denote one entry: every operation treats them alike (the authority must match exactly for `load`) -/
theorem C12_case_ops (s : Sys) (l : Nat) (n m : Name) (v : V) (h : eqFold n m) (ha : n.auth = m.auth) :
    step s (.load l n) = step s (.load l m) ∧ step s (.define l n v) = step s (.define l m v) ∧
    step s (.has l n) = step s (.has l m) ∧ step s (.get l n) = step s (.get l m) := by
  have hk := (C12_case n m).2 h
  simp [step, load, define, hk, ha]

/-! ### discovery -/

theorem C12_wf_run (ps : List (Option Nat)) (ops : List Op) : WF (run (Sys.init ps) ops).1 :=
  WF_run _ _ (WF_init ps)

/-- discovery returns exactly the bound names (of the loader or an ancestor) satisfying the predicate,
    each once, in sorted order -/
theorem C12_discover (s : Sys) (h : WF s) (l : Nat) (p : Key → Bool) :
    ∃ ks, step s (.discover l p) = (s, .keys ks) ∧
      ks.Pairwise (fun a b => keyLe a b = true) ∧ ks.Nodup ∧
      ∀ k, k ∈ ks ↔ p k = true ∧ ∃ a ∈ chain s.ps l, (bound s a k).isSome = true :=
  ⟨_, rfl, discC_sorted s p _, discC_nodup s h p _, mem_discC s h p _⟩

/-! ### non-vacuity: a three-level chain with a binding in the middle, a placeholder below, a shadowed binding -/

def nA : Name := ⟨runtimeAuthority, "type", "A"⟩
def na : Name := ⟨runtimeAuthority, "type", "a"⟩
def nb : Name := ⟨runtimeAuthority, "type", "b"⟩
def sample : Sys :=
  (run (Sys.init [none, some 0, some 1]) [.load 2 na, .define 1 nA (.ty 1), .define 2 na (.ty 2), .define 2 nb (.str 1)]).1

example : resolve sample 2 (canon na) = some (.ty 1) ∧ bound sample 2 (canon na) = some (.ty 2) ∧
    bound sample 1 (canon nA) = some (.ty 1) ∧ resolve sample 0 (canon na) = none ∧ WF sample := by
  refine ⟨by decide +kernel, by decide +kernel, by decide +kernel, by decide +kernel, C12_wf_run _ _⟩

-- C12_load / C12_has: the lookup through loader 2 answers the ancestor's binding, not its own
example : na.auth = runtimeAuthority ∧ (step sample (.load 2 na)).2 = .found (.ty 1) ∧
    (step sample (.has 0 na)).2 = .bool false := by decide +kernel
-- C12_redefine / C12_redefine_equal: both error codes occur, the equal value is accepted
example : (step sample (.define 2 na (.ty 3))).2 = .reported "PCORE_ATTEMPT_TO_REDEFINE_TYPE" ∧
    (step sample (.define 2 na (.str 3))).2 = .reported "PCORE_ATTEMPT_TO_REDEFINE" ∧
    (step sample (.define 2 nb (.ty 3))).2 = .reported "PCORE_ATTEMPT_TO_REDEFINE" ∧
    (step sample (.define 2 nA (.ty 2))).2 = .ok := by decide +kernel
-- C12_stable: its hypotheses hold for a history that defines, re-defines and misses everywhere but in an ancestor …
def quietOps : List Op := [.define 2 na (.ty 9), .load 0 na, .define 0 nb (.ty 3), .define 2 nb (.ty 3), .load 1 nb]
example : resolve (run sample quietOps).1 2 (canon na) = some (.ty 1) :=
  C12_stable sample quietOps 2 (canon na) (.ty 1) (by decide +kernel) (by decide +kernel)
-- … and the hypothesis is needed: once the root gains a binding the name resolves to that one
example : resolve (run sample [.define 0 na (.ty 7)]).1 2 (canon na) = some (.ty 7) := by decide +kernel
-- C12_miss_then_define
example : 0 < sample.es.length ∧ resolve sample 0 (canon nb) = none ∧
    resolve (run sample [.load 0 nb, .define 0 nb (.al "b" 1)]).1 0 (canon nb) = some (.al "b" 1) := by decide +kernel
-- C12_case
example : eqFold nA na ∧ nA ≠ na := ⟨⟨by decide +kernel, by decide +kernel, by decide +kernel⟩, by decide +kernel⟩
example : eqFold ⟨runtimeAuthority, "type", "::M::a"⟩ ⟨runtimeAuthority, "Type", "m::A"⟩ := ⟨by decide +kernel, by decide +kernel, by decide +kernel⟩
-- C12_discover: both loaders' bindings, the shadowed name once, the placeholder-free answer sorted
example : (step sample (.discover 2 fun _ => true)).2 = .keys [canon na, canon nb] ∧
    (step sample (.discover 0 fun _ => true)).2 = .keys [] := by decide +kernel

/-! ### type-set loaders as leaves -/

-- (keeps the unifier from evaluating the string functions inside `segsOf n` for a variable `n`)
attribute [local irreducible] segsOf

/-- a lookup through a type-set leaf answers the specification, provided no member name it reaches is also bound along
    the chain (and no name it can take relative has a cached miss in the leaf — see `TSReach`) -/
theorem C12_ts_load (tss : List (Option TypeSet)) (s : Sys) (l : Nat) (t : TypeSet) (n : Name)
    (ht : tsOf tss l = some t) (ha : n.auth = runtimeAuthority) (hne : segsOf n ≠ [])
    (h : TSReach s l t n (segsOf n)) :
    (stepT tss s (.load l n)).2 = ansOf (tsResolve s l t n (segsOf n)) := by
  have hs := tsLoadEntry_spec s l t n (segsOf n) hne h
  rw [stepT_load tss s l t n ht ha]
  exact congrArg ansOf hs

/-- HasEntry through the leaf: the name resolves — with or without shadowing -/
theorem C12_ts_has (tss : List (Option TypeSet)) (s : Sys) (l : Nat) (t : TypeSet) (n : Name) (ht : tsOf tss l = some t) :
    stepT tss s (.has l n) = (s, .bool (tsResolve s l t n (segsOf n)).isSome) := by
  rw [stepT_has tss s l t n ht, tsHas_spec]

/-- lookups and queries through the leaf change no binding of any loader -/
theorem C12_ts_lookups_pure (tss : List (Option TypeSet)) (s : Sys) (l : Nat) (t : TypeSet) (n : Name)
    (ht : tsOf tss l = some t) (l' : Nat) (k' : Key) :
    bound (stepT tss s (.load l n)).1 l' k' = bound s l' k' ∧ (stepT tss s (.has l n)).1 = s := by
  refine ⟨?_, by rw [stepT_has tss s l t n ht]⟩
  by_cases ha : n.auth = runtimeAuthority
  · rw [stepT_load tss s l t n ht ha]; exact tsLoadEntry_bound s l t n _ l' k'
  · rw [stepT_load_foreign tss s l t n ht ha]

/-- a definition through the leaf is the definition in its parent -/
theorem C12_ts_define (tss : List (Option TypeSet)) (s : Sys) (l p : Nat) (t : TypeSet) (n : Name) (v : V)
    (ht : tsOf tss l = some t) (hp : s.ps.getD l none = some p) :
    stepT tss s (.define l n v) = step s (.define p n v) :=
  stepT_define tss s l p t n v ht hp

/-- every loader that is not a type-set leaf behaves exactly as in a hierarchy without them -/
theorem C12_ts_other (tss : List (Option TypeSet)) (s : Sys) (op : Op) (h : tsOf tss op.loader = none) :
    stepT tss s op = step s op := stepT_plain tss s op h

def demoTS : TypeSet := { name := "my", members := [("foo", .al "My::Foo" 1), ("bar", .al "My::Bar" 2)] }
def demoTss : List (Option TypeSet) := [none, none, some demoTS]
def nMyFoo : Name := ⟨runtimeAuthority, "type", "My::Foo"⟩
def nFoo : Name := ⟨runtimeAuthority, "type", "Foo"⟩
/-- the history of the seeded change C12-s2: a miss through the ancestor, then the lookup through the leaf -/
def tsSample : Sys := (runT demoTss (Sys.init [none, some 0, some 1]) [.load 0 nMyFoo]).1

-- non-vacuity of C12_ts_load: after the miss in the ancestor (its miss marker is in loader 0) the hypotheses hold and the
-- lookup through the leaf still finds the member by its qualified path
example : tsOf demoTss 2 = some demoTS ∧ lk (canon nMyFoo) (tsSample.ents 0) = some none ∧
    (stepT demoTss tsSample (.load 2 nMyFoo)).2 = .found (.al "My::Foo" 1) ∧
    tsResolve tsSample 2 demoTS nMyFoo (segsOf nMyFoo) = some (.al "My::Foo" 1) := by decide +kernel
example : segsOf nMyFoo = ["my", "foo"] ∧ TSReach tsSample 2 demoTS nMyFoo (segsOf nMyFoo) := by decide +kernel

/-- the hypothesis is needed (known finding C12-typeset-member-before-ancestors): with `Foo` bound in the root, the lookup
    through the leaf answers the member, the specification the root's binding -/
theorem C12_ts_member_shadows :
    let s := (runT demoTss (Sys.init [none, some 0, some 1]) [.define 0 nFoo (.ty 7)]).1
    (stepT demoTss s (.load 2 nFoo)).2 = .found (.al "My::Foo" 1) ∧
    tsResolve s 2 demoTS nFoo (segsOf nFoo) = some (.ty 7) := by decide +kernel

/-! ### dependency loaders (`Model/LoaderDep.lean`, `stepD`)

A dependency loader `d` over the modules `mods` is a root of the hierarchy.  Its own bindings are made LAZILY: the first
lookup of a name that reaches it binds the name in `d` to what the dependencies bind (`depSpec`: the module a qualified
name names by its first segment, otherwise the first module in dependency order that resolves it) — or caches the miss.
From then on the hierarchy behaves as `LoaderSeq` says (`C12_dep_load_refines`), so every theorem above applies to the
state `fillD … s l n` the lazy binding leaves. -/

attribute [local irreducible] canon

/-- REFINEMENT: a lookup through a chain rooted in a dependency loader is the lazy binding in that root followed by the
    plain parent-first lookup of `LoaderSeq` -/
theorem C12_dep_load_refines (dps : List (Option Mods)) (s : Sys) (l d : Nat) (mods : Mods) (n : Name)
    (hc : DepChain dps (chain s.ps l) d mods) (hlen : d < s.es.length) (ha : n.auth = runtimeAuthority)
    (hp : PartsOK mods n) : stepD dps s (.load l n) = step (fillD dps s l n) (.load l n) :=
  loadD_root dps s l d mods n hc hlen ha (depLoadEntry_ne_bad s d mods n hp)

/-- what the lazy binding binds: the name asked for, in the dependency loader, to what the dependencies bind — and only
    if the dependency loader held no VALUE for it (a recorded miss does not stand in the way: fix 9d272bd); every other
    binding of every loader is as before -/
theorem C12_dep_fill (dps : List (Option Mods)) (s : Sys) (l d : Nat) (mods : Mods) (n : Name)
    (hc : DepChain dps (chain s.ps l) d mods) (hlen : d < s.es.length) (hp : PartsOK mods n) (l' : Nat) (k' : Key) :
    bound (fillD dps s l n) l' k' =
      if l' = d ∧ k' = canon n ∧ bound s d (canon n) = none then depSpec s mods n else bound s l' k' := by
  rw [fillD_eq dps s l d mods n hc hlen]
  exact depLoadEntry_bound s d mods n hlen hp l' k'

/-- … hence the lookup answers the binding of the outermost ancestor — the dependency loader with its lazy binding
    included — that has one, otherwise the loader's own, otherwise not-found -/
theorem C12_dep_load (dps : List (Option Mods)) (s : Sys) (l d : Nat) (mods : Mods) (n : Name)
    (hc : DepChain dps (chain s.ps l) d mods) (hlen : d < s.es.length) (ha : n.auth = runtimeAuthority)
    (hp : PartsOK mods n) :
    (stepD dps s (.load l n)).2 = ansOf (resolve (fillD dps s l n) l (canon n)) := by
  rw [C12_dep_load_refines dps s l d mods n hc hlen ha hp]
  exact C12_load _ l n ha

theorem depChain_root (dps : List (Option Mods)) (s : Sys) (d : Nat) (mods : Mods) (hr : s.ps.getD d none = none)
    (hd : dps.getD d none = some mods) : DepChain dps (chain s.ps d) d mods := by
  rw [chain_root s.ps d hr]
  exact ⟨rfl, by simp, hd⟩

/-- a lookup through the dependency loader itself of a name it holds NO VALUE for — the first one, or one after any number
    of misses — answers the binding of the first loader in dependency order that binds the name (the named module for a
    qualified name), and binds the name to it in the dependency loader -/
theorem C12_dep_first (dps : List (Option Mods)) (s : Sys) (d : Nat) (mods : Mods) (n : Name)
    (hr : s.ps.getD d none = none) (hd : dps.getD d none = some mods) (hlen : d < s.es.length)
    (ha : n.auth = runtimeAuthority) (hp : PartsOK mods n) (hfresh : bound s d (canon n) = none) :
    (stepD dps s (.load d n)).2 = ansOf (depSpec s mods n) ∧
    bound (stepD dps s (.load d n)).1 d (canon n) = depSpec s mods n := by
  have hc := depChain_root dps s d mods hr hd
  have hfill := C12_dep_fill dps s d d mods n hc hlen hp d (canon n)
  simp only [hfresh, and_self, if_true] at hfill
  constructor
  · rw [C12_dep_load dps s d d mods n hc hlen ha hp]
    congr 1
    unfold resolve
    have : (fillD dps s d n).ps = s.ps := by simp [fillD]
    rw [this, chain_root s.ps d hr]
    simp only [List.reverse_cons, List.reverse_nil, List.nil_append, List.findSome?_cons, List.findSome?_nil, hfill]
    cases depSpec s mods n <;> rfl
  · rw [C12_dep_load_refines dps s d d mods n hc hlen ha hp]
    rw [(C12_lookups_pure _ (.load d n) (by intro _ _ _ h; cases h) d (canon n)).1]
    exact hfill

/-- once the dependency loader holds a binding it answers with it and nothing changes -/
theorem C12_dep_cached (dps : List (Option Mods)) (s : Sys) (d : Nat) (mods : Mods) (n : Name) (v : V)
    (hr : s.ps.getD d none = none) (hd : dps.getD d none = some mods) (ha : n.auth = runtimeAuthority)
    (hb : bound s d (canon n) = some v) : stepD dps s (.load d n) = (s, .found v) := by
  have hlk : lk (canon n) (s.ents d) = some (some v) := by
    unfold bound at hb
    cases h : lk (canon n) (s.ents d) with
    | none => rw [h] at hb; cases hb
    | some o =>
      cases o with
      | none => rw [h] at hb; cases hb
      | some w => rw [h] at hb; simp at hb; rw [hb]
  show loadD dps s d n = _
  unfold loadD
  simp only [ha, ne_eq, not_true_eq_false, if_false, chain_root s.ps d hr, loadEntryD, hd,
    depLoadEntry_cached s d mods n _ hlk]

/-- an ill-formed qualified name (a segment that is not an identifier) that the dependency loader holds no value for is
    rejected with a reported error and leaves no trace — it is never a fault -/
theorem C12_dep_invalid_name (dps : List (Option Mods)) (s : Sys) (l d : Nat) (mods : Mods) (n : Name)
    (hc : DepChain dps (chain s.ps l) d mods) (hlen : d < s.es.length) (ha : n.auth = runtimeAuthority)
    (hp : ¬ PartsOK mods n) (hfresh : bound s d (canon n) = none) :
    stepD dps s (.load l n) = (s, .reported "PCORE_INVALID_CHARACTERS_IN_NAME") := by
  show loadD dps s l n = _
  have hbad := depLoadEntry_bad_of s d mods n hfresh hp
  have hroot := loadEntryD_root dps s (chain s.ps l).dropLast d mods n hc.2.1 hc.2.2 hlen
  rw [← depChain_split hc, hbad] at hroot
  unfold loadD
  simp only [ha, ne_eq, not_true_eq_false, if_false, hroot]

/-- write-once holds for every loader of a hierarchy with dependency loaders, the lazily made bindings included -/
theorem C12_dep_writeonce (dps : List (Option Mods)) (s : Sys) (op : Op) (l : Nat) (k : Key) (v : V)
    (h : bound s l k = some v) : bound (stepD dps s op).1 l k = some v := bound_stepD_mono dps s op l k v h

theorem C12_dep_writeonce_run (dps : List (Option Mods)) (s : Sys) (ops : List Op) (l : Nat) (k : Key) (v : V)
    (h : bound s l k = some v) : bound (runD dps s ops).1 l k = some v := bound_runD_mono dps s ops l k v h

/-- what the dependency loader answered once it answers ever after — whatever the history does, in particular whatever
    its modules and their ancestors gain later -/
theorem C12_dep_stable (dps : List (Option Mods)) (s : Sys) (ops : List Op) (d : Nat) (mods : Mods) (n : Name) (v : V)
    (hr : s.ps.getD d none = none) (hd : dps.getD d none = some mods) (ha : n.auth = runtimeAuthority)
    (hb : bound s d (canon n) = some v) :
    stepD dps (runD dps s ops).1 (.load d n) = ((runD dps s ops).1, .found v) :=
  C12_dep_cached dps _ d mods n v (by rw [runD_ps]; exact hr) hd ha (bound_runD_mono dps s ops d (canon n) v hb)

/-- stability along a chain, as `C12_stable`: as long as no proper ancestor — a dependency loader's lazy bindings count —
    gains a binding, a name that resolved keeps resolving to the same value -/
theorem C12_dep_stable_chain (dps : List (Option Mods)) (s : Sys) (ops : List Op) (l : Nat) (k : Key) (v : V)
    (h : resolve s l k = some v)
    (hanc : ∀ a ∈ ancestors s.ps l, bound s a k = none → bound (runD dps s ops).1 a k = none) :
    resolve (runD dps s ops).1 l k = some v := by
  unfold resolve at *
  rw [runD_ps]
  rw [chain_eq, List.reverse_cons] at h ⊢
  apply findSome?_stable (fun a => bound s a k) (fun a => bound (runD dps s ops).1 a k) _ _ v h
  · intro x _ w hw; exact bound_runD_mono dps s ops x k w hw
  · intro x hx hn; exact hanc x (List.mem_reverse.mp hx) hn

/-- every operation but `load` is the one of `LoaderSeq` whatever the hierarchy (HasEntry, GetEntry, Discover and SetEntry
    of a dependency loader are the basic loader's): C12_has, C12_get, C12_redefine, C12_redefine_equal, C12_define_new and
    C12_discover hold verbatim … -/
theorem C12_dep_queries (dps : List (Option Mods)) (s : Sys) (op : Op) (h : ∀ l n, op ≠ .load l n) :
    stepD dps s op = step s op := by
  cases op with
  | load l n => exact absurd rfl (h l n)
  | define _ _ _ => rfl
  | has _ _ => rfl
  | get _ _ => rfl
  | discover _ _ => rfl

/-- … and on a chain without dependency loader so is `load` -/
theorem C12_dep_other (dps : List (Option Mods)) (s : Sys) (op : Op)
    (h : ∀ a ∈ chain s.ps op.loader, dps.getD a none = none) : stepD dps s op = step s op := stepD_plain dps s op h

theorem C12_dep_wf_run (dps : List (Option Mods)) (ps : List (Option Nat)) (ops : List Op) :
    WF (runD dps (Sys.init ps) ops).1 := WF_runD dps _ _ (WF_init ps)

/-- discovery through (a descendant of) a dependency loader: sorted, duplicate free, exactly the names BOUND along the
    chain that satisfy the predicate — for the dependency loader: the names looked up through it so far -/
theorem C12_dep_discover (dps : List (Option Mods)) (s : Sys) (h : WF s) (l : Nat) (p : Key → Bool) :
    ∃ ks, stepD dps s (.discover l p) = (s, .keys ks) ∧
      ks.Pairwise (fun a b => keyLe a b = true) ∧ ks.Nodup ∧
      ∀ k, k ∈ ks ↔ p k = true ∧ ∃ a ∈ chain s.ps l, (bound s a k).isSome = true :=
  C12_discover s h l p

/-- misses are not sticky WHEN THE DEFINITION IS MADE IN THE DEPENDENCY LOADER: a failed lookup through it followed by
    a definition in it makes the name resolvable -/
theorem C12_dep_miss_then_define_partial (dps : List (Option Mods)) (s : Sys) (d : Nat) (mods : Mods) (n : Name) (v : V)
    (hr : s.ps.getD d none = none) (hd : dps.getD d none = some mods) (hlen : d < s.es.length)
    (ha : n.auth = runtimeAuthority) (hp : PartsOK mods n) (hfresh : lk (canon n) (s.ents d) = none)
    (hmiss : depSpec s mods n = none) :
    (runD dps s [.load d n, .define d n v]).2 = [.notfound, .ok] ∧
    stepD dps (runD dps s [.load d n, .define d n v]).1 (.load d n) =
      ((runD dps s [.load d n, .define d n v]).1, .found v) := by
  have hb0 : bound s d (canon n) = none := by unfold bound; rw [hfresh]; rfl
  obtain ⟨h1, h2⟩ := C12_dep_first dps s d mods n hr hd hlen ha hp hb0
  rw [hmiss] at h1 h2
  have hl1 : d < (stepD dps s (.load d n)).1.es.length := by rw [stepD_length]; exact hlen
  obtain ⟨d1, d2, _⟩ := define_unbound (stepD dps s (.load d n)).1 d n v hl1 h2
  have hrun : runD dps s [.load d n, .define d n v] =
      ((define (stepD dps s (.load d n)).1 d n v).1, [(stepD dps s (.load d n)).2, (define (stepD dps s (.load d n)).1 d n v).2]) := rfl
  rw [hrun]
  refine ⟨by simp only [h1, d1]; rfl, ?_⟩
  apply C12_dep_cached dps _ d mods n v _ hd ha d2
  have := step_ps (stepD dps s (.load d n)).1 (.define d n v)
  simp only [step] at this
  rw [this, stepD_ps]; exact hr

/-- FULL STATEMENT (the property's sentence "a lookup answers …" read for a dependency loader without its cache): in
    every state a history produces, a lookup through the dependency loader of a name it holds no value for answers what
    the dependencies bind.  TRUE since fix 9d272bd of finding C12-dependency-miss-sticky: `C12_dep_load_full_holds` (from
    `C12_dep_load_unbound`, which needs no reachability).  Before the fix it failed in the states with a recorded miss:
    `C12_dep_miss_sticky_before_fix`. -/
def C12_dep_load_full : Prop :=
  ∀ (ps : List (Option Nat)) (dps : List (Option Mods)) (ops : List Op) (d : Nat) (mods : Mods) (n : Name),
    depShapeOK ps dps = true → dps.getD d none = some mods → n.auth = runtimeAuthority → PartsOK mods n →
    bound (runD dps (Sys.init ps) ops).1 d (canon n) = none →
    (stepD dps (runD dps (Sys.init ps) ops).1 (.load d n)).2 = ansOf (depSpec (runD dps (Sys.init ps) ops).1 mods n)

/-- (the part of `C12_dep_load_full` that held before the fix: NO ENTRY instead of no value) -/
theorem C12_dep_load_partial (ps : List (Option Nat)) (dps : List (Option Mods)) (ops : List Op) (d : Nat) (mods : Mods)
    (n : Name) (hshape : depShapeOK ps dps = true) (hd : dps.getD d none = some mods) (hlt : d < ps.length)
    (ha : n.auth = runtimeAuthority) (hp : PartsOK mods n)
    (hfresh : lk (canon n) ((runD dps (Sys.init ps) ops).1.ents d) = none) :
    (stepD dps (runD dps (Sys.init ps) ops).1 (.load d n)).2 = ansOf (depSpec (runD dps (Sys.init ps) ops).1 mods n) := by
  have hroot : ps.getD d none = none := by
    unfold depShapeOK at hshape
    have := List.all_eq_true.mp hshape d (List.mem_range.mpr hlt)
    simp only [hd, Bool.and_eq_true, Option.isNone_iff_eq_none] at this
    exact this.1
  refine (C12_dep_first dps _ d mods n ?_ hd ?_ ha hp (by unfold bound; rw [hfresh]; rfl)).1
  · rw [runD_ps]; exact hroot
  · rw [runD_length]; simp [Sys.init]; exact hlt

/-- FULL STATEMENT of "discovery = the union over the dependencies": every name a dependency binds is discovered
    through the dependency loader.  FALSE — `C12_dep_discover_unloaded`; what holds is `C12_dep_discover`. -/
def C12_dep_discover_union_full : Prop :=
  ∀ (ps : List (Option Nat)) (dps : List (Option Mods)) (ops : List Op) (d : Nat) (mods : Mods) (n : Name) (ks : List Key),
    depShapeOK ps dps = true → dps.getD d none = some mods → PartsOK mods n →
    (depSpec (runD dps (Sys.init ps) ops).1 mods n).isSome = true →
    (stepD dps (runD dps (Sys.init ps) ops).1 (.discover d fun _ => true)).2 = .keys ks → canon n ∈ ks

/-! #### non-vacuity: root 0, the modules 1 (`m`) and 2 (`n`) parented on it, the dependency loader 3 over them, its child 4 -/

def depPs : List (Option Nat) := [none, some 0, some 0, none, some 3]
def depMods : Mods := [("m", 1), ("n", 2)]
def depDps : List (Option Mods) := [none, none, none, some depMods, none]
def nMq : Name := ⟨runtimeAuthority, "type", "M::q"⟩
def nBad : Name := ⟨runtimeAuthority, "type", "m::1q"⟩
/-- `b` bound in both modules, `M::q` in the wrong one only, `a` in the root, `A` (= `a`) in the child of the dependency loader -/
def depSample : Sys :=
  (runD depDps (Sys.init depPs)
    [.define 1 nb (.ty 1), .define 2 nb (.ty 2), .define 2 nMq (.ty 4), .define 0 na (.ty 5), .define 4 nA (.ty 6)]).1

example : depShapeOK depPs depDps = true ∧ DepChain depDps (chain depSample.ps 4) 3 depMods ∧
    DepChain depDps (chain depSample.ps 3) 3 depMods ∧ PartsOK depMods nMq ∧ PartsOK depMods nb ∧ ¬ PartsOK depMods nBad := by
  decide +kernel
-- C12_dep_first: dependency order (module 1 before 2), the named module alone for a qualified name, a root's binding
-- through a module
example : depSpec depSample depMods nb = some (.ty 1) ∧ (stepD depDps depSample (.load 3 nb)).2 = .found (.ty 1) ∧
    lk (canon nb) (depSample.ents 3) = none ∧
    depSpec depSample depMods nMq = none ∧ (stepD depDps depSample (.load 3 nMq)).2 = .notfound ∧
    depSpec depSample depMods nA = some (.ty 5) := by decide +kernel
-- C12_dep_load / C12_dep_fill through the child: the lazy binding of the ancestor wins over the child's own binding
example : (stepD depDps depSample (.load 4 na)).2 = .found (.ty 5) ∧ bound depSample 4 (canon na) = some (.ty 6) ∧
    bound (stepD depDps depSample (.load 4 na)).1 3 (canon na) = some (.ty 5) ∧ bound depSample 3 (canon na) = none := by
  decide +kernel
-- C12_dep_cached / C12_dep_stable: once `b` is bound in 3, a binding gained by the modules' root does not change the answer
example : (runD depDps depSample [.load 3 nb, .define 0 nb (.ty 9), .load 1 nb, .load 3 nb]).2 =
    [.found (.ty 1), .ok, .found (.ty 9), .found (.ty 1)] := by decide +kernel
-- C12_dep_invalid_name
example : (stepD depDps depSample (.load 4 nBad)).2 = .reported "PCORE_INVALID_CHARACTERS_IN_NAME" ∧
    (stepD depDps depSample (.load 4 nBad)).1.es = depSample.es ∧ lk (canon nBad) (depSample.ents 3) = none := by
  decide +kernel
-- C12_dep_miss_then_define_partial: its hypotheses hold for a name nobody binds
example : lk (canon nMq) (depSample.ents 3) = none ∧ depSpec depSample depMods nMq = none ∧
    (runD depDps depSample [.load 3 nMq, .define 3 nMq (.ty 8), .load 3 nMq]).2 = [.notfound, .ok, .found (.ty 8)] := by
  decide +kernel
-- C12_dep_load_partial: after a history that defines and looks up elsewhere, `b` has no entry in 3
example : depShapeOK depPs depDps = true ∧ 3 < depPs.length ∧
    lk (canon nb) ((runD depDps (Sys.init depPs) [.define 2 nb (.ty 2), .load 1 nb, .load 3 nMq]).1.ents 3) = none ∧
    (stepD depDps (runD depDps (Sys.init depPs) [.define 2 nb (.ty 2), .load 1 nb, .load 3 nMq]).1 (.load 3 nb)).2 =
      .found (.ty 2) := by decide +kernel
-- C12_dep_other: the modules and the root are plain loaders
example : ∀ a ∈ chain depSample.ps 2, depDps.getD a none = none := by decide +kernel

/-- a lookup through the dependency loader — in ANY state — of a name it holds no value for answers what the dependencies
    bind NOW: recorded misses are not final -/
theorem C12_dep_load_unbound (dps : List (Option Mods)) (s : Sys) (d : Nat) (mods : Mods) (n : Name)
    (hr : s.ps.getD d none = none) (hd : dps.getD d none = some mods) (ha : n.auth = runtimeAuthority)
    (hp : PartsOK mods n) (hb : bound s d (canon n) = none) :
    (stepD dps s (.load d n)).2 = ansOf (depSpec s mods n) := by
  show (loadD dps s d n).2 = _
  have hans := depLoadEntry_answer s d mods n hp hb
  unfold loadD
  simp only [ha, ne_eq, not_true_eq_false, if_false, chain_root s.ps d hr, loadEntryD, hd]
  generalize depLoadEntry s d mods n = r at hans
  obtain ⟨s1, e⟩ := r
  simp only at hans
  subst hans
  cases depSpec s mods n <;> rfl

/-- THE FULL STATEMENT HOLDS (it was refuted before the fix) -/
theorem C12_dep_load_full_holds : C12_dep_load_full := by
  intro ps dps ops d mods n hshape hd ha hp hb
  apply C12_dep_load_unbound dps _ d mods n _ hd ha hp hb
  rw [runD_ps]
  show ps.getD d none = none
  by_cases hlt : d < ps.length
  · unfold depShapeOK at hshape
    have := List.all_eq_true.mp hshape d (List.mem_range.mpr hlt)
    simp only [hd, Bool.and_eq_true, Option.isNone_iff_eq_none] at this
    exact this.1
  · rw [List.getD_eq_getElem?_getD, List.getElem?_eq_none (by omega)]; rfl

/-- MISSES ARE NOT STICKY through a dependency loader: after a failed lookup through it and a definition in another loader
    (one of its modules, say), the next lookup through it answers what the dependencies bind then -/
theorem C12_dep_miss_then_define (dps : List (Option Mods)) (s : Sys) (d m : Nat) (mods : Mods) (n : Name) (v : V)
    (hr : s.ps.getD d none = none) (hd : dps.getD d none = some mods) (hlen : d < s.es.length)
    (ha : n.auth = runtimeAuthority) (hp : PartsOK mods n) (hb : bound s d (canon n) = none) (hmd : m ≠ d)
    (hmiss : depSpec s mods n = none) :
    (stepD dps s (.load d n)).2 = .notfound ∧
    (stepD dps (runD dps s [.load d n, .define m n v]).1 (.load d n)).2 =
      ansOf (depSpec (runD dps s [.load d n, .define m n v]).1 mods n) := by
  obtain ⟨h1, h2⟩ := C12_dep_first dps s d mods n hr hd hlen ha hp hb
  rw [hmiss] at h1 h2
  refine ⟨h1, ?_⟩
  have hrun : (runD dps s [.load d n, .define m n v]).1 = (define (stepD dps s (.load d n)).1 m n v).1 := rfl
  rw [hrun]
  apply C12_dep_load_unbound dps _ d mods n _ hd ha hp
  · rw [define_bound_frame _ m n v d (canon n) (Or.inl (Ne.symm hmd))]; exact h2
  · rw [define_ps, stepD_ps]; exact hr

/-- the history of the repaired defect, answer by answer — the lookup after the definition in module 1 finds it, `HasEntry`
    says so from then on — and the same history with the definition FIRST -/
theorem C12_dep_miss_not_sticky_history :
    (runD depDps (Sys.init depPs) [.load 3 nb, .define 1 nb (.ty 1), .load 1 nb, .has 3 nb, .load 3 nb, .has 3 nb]).2 =
      [.notfound, .ok, .found (.ty 1), .bool false, .found (.ty 1), .bool true] ∧
    (runD depDps (Sys.init depPs) [.define 1 nb (.ty 1), .load 3 nb, .has 3 nb]).2 = [.ok, .found (.ty 1), .bool true] := by
  decide +kernel
-- C12_dep_miss_then_define: its hypotheses hold at the start of that history, and the dependencies bind `b` afterwards
example : depSpec (Sys.init depPs) depMods nb = none ∧ bound (Sys.init depPs) 3 (canon nb) = none ∧ (1 : Nat) ≠ 3 ∧
    depSpec (runD depDps (Sys.init depPs) [.load 3 nb, .define 1 nb (.ty 1)]).1 depMods nb = some (.ty 1) := by
  decide +kernel

/-- `dependencyLoader.LoadEntry` BEFORE fix 9d272bd: any own entry — a recorded miss included — was final -/
def depLoadEntryBeforeFix (s : Sys) (d : Nat) (mods : Mods) (n : Name) : Sys × LE :=
  match lk (canon n) (s.ents d) with
  | some e => (s, .ok (some e))
  | none =>
    match depFind s d mods n with
    | .bad => (s, .bad)
    | .ok e => (s.setEnts d (setEntry (s.ents d) (canon n) e.join).1, .ok (some e.join))

/-- MISSES WERE STICKY (finding C12-dependency-miss-sticky, fixed): after a failed lookup through the dependency loader and a
    definition in module 1, the dependencies bind the name, the dependency loader holds no value for it — and the pre-fix
    `LoadEntry` answered its recorded miss where the repaired one answers the module's binding -/
theorem C12_dep_miss_sticky_before_fix :
    bound (runD depDps (Sys.init depPs) [.load 3 nb, .define 1 nb (.ty 1)]).1 3 (canon nb) = none ∧
    depSpec (runD depDps (Sys.init depPs) [.load 3 nb, .define 1 nb (.ty 1)]).1 depMods nb = some (.ty 1) ∧
    (depLoadEntryBeforeFix (runD depDps (Sys.init depPs) [.load 3 nb, .define 1 nb (.ty 1)]).1 3 depMods nb).2 =
      .ok (some none) ∧
    (depLoadEntry (runD depDps (Sys.init depPs) [.load 3 nb, .define 1 nb (.ty 1)]).1 3 depMods nb).2 =
      .ok (some (some (.ty 1))) := by decide +kernel

/-- discovery through a dependency loader is NOT the union over its dependencies: a name bound in a module is discovered
    (and `HasEntry` says so) only after it was looked up through the dependency loader -/
theorem C12_dep_discover_unloaded : ¬ C12_dep_discover_union_full := by
  intro h
  have := h depPs depDps [.define 1 nb (.ty 1)] 3 depMods nb [] (by decide +kernel) rfl (by decide +kernel)
    (by decide +kernel) (by decide +kernel)
  revert this
  decide +kernel

theorem C12_dep_discover_history :
    (runD depDps (Sys.init depPs) [.define 1 nb (.ty 1), .discover 3 (fun _ => true), .has 3 nb, .load 3 nb,
      .discover 3 (fun _ => true), .has 4 nb]).2 =
      [.ok, .keys [], .bool false, .found (.ty 1), .keys [canon nb], .bool true] := by decide +kernel

/-! ### typed names beyond ASCII, and the typed name as a struct with caches (`Model/LoaderKey.lean`) -/

-- `C12_case` is about Go's `strings.ToLower` over the table regenerated from $GOROOT: É/é, the Kelvin sign / k / K and
-- İ / i / I denote one entry each (and the byte length of the key differs from the name's for two of them)
example : canon ⟨runtimeAuthority, "type", "\u00c9"⟩ = canon ⟨runtimeAuthority, "type", "\u00e9"⟩ ∧
    canon ⟨runtimeAuthority, "type", "\u212a"⟩ = canon ⟨runtimeAuthority, "type", "K"⟩ ∧
    canon ⟨runtimeAuthority, "type", "\u0130x"⟩ = canon ⟨runtimeAuthority, "type", "Ix"⟩ ∧
    canon ⟨runtimeAuthority, "type", "\u0131"⟩ ≠ canon ⟨runtimeAuthority, "type", "I"⟩ := by decide +kernel
example : eqFold ⟨runtimeAuthority, "type", "M::\u212a"⟩ ⟨runtimeAuthority, "Type", "::m::k"⟩ :=
  ⟨by decide +kernel, by decide +kernel, by decide +kernel⟩

/-- the byte-level key of `Model/LoaderKey.lean` is the UTF-8 encoding of `canon` -/
theorem C12_key_is_canon (ns name auth : String) :
    (TN.mk' ns.toList name.toList auth.toList).freshKey = enc (canon ⟨auth, ns, name⟩).toList := by
  simp [TN.freshKey, TN.mk', canon, lower, lowerL, stripColons, String.toList_append, String.toList_ofList]

/-- FULL STATEMENT ("one name, one key"): a typed name derived with `Child()` / `Parent()` from a name made by
    `newTypedName2` — whether or not `MapKey()` was called on that name before — has the key of a fresh typed name of its
    three strings, and deriving it never faults.  TRUE since fix 50062c5 of finding C12-typedname-derived-key:
    `C12_key_derived`.  Before the fix it was false (`C12_key_derived_wrong_before_fix`, `C12_key_derived_fault_before_fix`)
    outside the class of `C12_key_derived_lenstable_before_fix`. -/
def C12_key_derived_full : Prop :=
  ∀ (ns name auth : List Char) (keyed : Bool) (t' : TN),
    let t := if keyed then (TN.mk' ns name auth).mapKey.1 else TN.mk' ns name auth
    t.child ≠ .fault ∧ t.parent ≠ .fault ∧ ((t.child = .ok t' ∨ t.parent = .ok t') → t'.mapKey.2 = t'.freshKey)

/-- a derived name carries no cached key, so its key is computed afresh — for EVERY typed name, whatever it has cached -/
theorem C12_key_derived_any (t t' : TN) :
    t.child ≠ .fault ∧ t.parent ≠ .fault ∧ ((t.child = .ok t' ∨ t.parent = .ok t') → t'.mapKey.2 = t'.freshKey) := by
  have hc : ∀ d, t.child = d → d ≠ .fault ∧ ∀ x, d = .ok x → x.canonical = [] := by
    intro d hd
    unfold TN.child TN.childN at hd
    subst hd
    split
    · split
      · exact ⟨by simp, by simp⟩
      · refine ⟨by simp, ?_⟩
        intro x hx
        simp only [Derived.ok.injEq] at hx
        rw [← hx]
    · exact ⟨by simp, by simp⟩
  have hp : ∀ d, t.parent = d → d ≠ .fault ∧ ∀ x, d = .ok x → x.canonical = [] := by
    intro d hd
    unfold TN.parent at hd
    subst hd
    split
    · exact ⟨by simp, by simp⟩
    · refine ⟨by simp, ?_⟩
      intro x hx
      simp only [Derived.ok.injEq] at hx
      rw [← hx]
  refine ⟨(hc _ rfl).1, (hp _ rfl).1, ?_⟩
  have hkey : t'.canonical = [] → t'.mapKey.2 = t'.freshKey := by
    intro h'; unfold TN.mapKey; simp [h']
  rintro (h1 | h1)
  · exact hkey ((hc _ rfl).2 t' h1)
  · exact hkey ((hp _ rfl).2 t' h1)

/-- THE FULL STATEMENT HOLDS (it was refuted before the fix) -/
theorem C12_key_derived : C12_key_derived_full := by
  intro ns name auth keyed t'
  exact C12_key_derived_any _ t'

/-- (kept from before the fix, now instances of `C12_key_derived_any`) without a cached key … -/
theorem C12_key_derived_fresh_partial (t t' : TN) (_h : t.canonical = []) :
    t.child ≠ .fault ∧ t.parent ≠ .fault ∧ ((t.child = .ok t' ∨ t.parent = .ok t') → t'.mapKey.2 = t'.freshKey) :=
  C12_key_derived_any t t'

/-- … and with a cached key when lower-casing keeps the UTF-8 length of every letter -/
theorem C12_key_derived_lenstable_partial (ns name auth : List Char) (keyed : Bool) (t' : TN)
    (_hs : LenStable (auth ++ ns ++ stripColonsL name)) :
    let t := if keyed then (TN.mk' ns name auth).mapKey.1 else TN.mk' ns name auth
    t.child ≠ .fault ∧ t.parent ≠ .fault ∧ ((t.child = .ok t' ∨ t.parent = .ok t') → t'.mapKey.2 = t'.freshKey) :=
  C12_key_derived ns name auth keyed t'

theorem C12_key_derived_ascii (ns name auth : List Char) (keyed : Bool) (t' : TN)
    (_h : ∀ c ∈ auth ++ ns ++ stripColonsL name, c.toNat < 128) :
    let t := if keyed then (TN.mk' ns name auth).mapKey.1 else TN.mk' ns name auth
    t.child ≠ .fault ∧ t.parent ≠ .fault ∧ ((t.child = .ok t' ∨ t.parent = .ok t') → t'.mapKey.2 = t'.freshKey) :=
  C12_key_derived ns name auth keyed t'

def rtChars : List Char := runtimeAuthority.toList
-- not vacuous: `Kx::Foo` with its key cached has the child `Foo`, whose key is the fresh one
example : ((TN.mk' "type".toList "\u212ax::Foo".toList rtChars).mapKey.1).child =
      .ok (TN.mk' "type".toList "Foo".toList rtChars) ∧
    ((TN.mk' "type".toList "\u212ax::Foo".toList rtChars).mapKey.1).parent =
      .ok (TN.mk' "type".toList "\u212ax".toList rtChars) ∧
    (TN.mk' "type".toList "\u212ax::Foo".toList rtChars).mapKey.1.canonical ≠ [] := by decide +kernel
example : LenStable ("http://x".toList ++ "type".toList ++ stripColonsL "\u00c9a::Foo".toList) ∧
    ¬ LenStable "\u212a".toList ∧ ∀ c ∈ rtChars ++ "type".toList ++ stripColonsL "::Ab::c".toList, c.toNat < 128 := by
  decide +kernel

/-! #### the repaired defect, on the pre-fix definitions (`Proofs/LoaderKey.lean`: `childNBeforeFix`, `parentBeforeFix`) -/

/-- BEFORE THE FIX the cut-out key was right, and nothing faulted, exactly in the length-stable class: when lower-casing
    keeps the UTF-8 length of every letter of the authority, the namespace and the name -/
theorem C12_key_derived_lenstable_before_fix (ns name auth : List Char) (t' : TN)
    (hs : LenStable (auth ++ ns ++ stripColonsL name)) :
    let t := (TN.mk' ns name auth).mapKey.1
    t.childBeforeFix ≠ .fault ∧ t.parentBeforeFix ≠ .fault ∧
    ((t.childBeforeFix = .ok t' ∨ t.parentBeforeFix = .ok t') → t'.mapKey.2 = t'.freshKey) := by
  have ht : (TN.mk' ns name auth).mapKey.1 =
      { ns := ns, auth := auth, name := stripColonsL name, canonical := (TN.mk' ns name auth).freshKey, parts := none } := by
    simp [TN.mapKey, TN.mk']
  simp only
  rw [ht]
  generalize hT : (TN.mk ns auth (stripColonsL name) (TN.mk' ns name auth).freshKey none) = T
  have hkey : T.canonical = T.freshKey := by subst hT; rfl
  have hs : LenStable (T.auth ++ T.ns ++ T.name) := by subst hT; exact hs
  have hk2 : ∀ x : TN, x.canonical = [] ∨ x.canonical = x.freshKey → x.mapKey.2 = x.freshKey := by
    intro x hx
    unfold TN.mapKey
    rcases hx with hx | hx
    · simp [hx]
    · by_cases he : x.canonical = []
      · simp [he]
      · simp only [he, if_false]; exact hx
  refine ⟨?_, parent_no_fault _ (Or.inr hkey) hs, ?_⟩
  · unfold TN.childBeforeFix
    split
    · exact childN_no_fault _ 1 (Or.inr hkey) hs
    · simp
  · rintro (h | h)
    · unfold TN.childBeforeFix at h
      split at h
      · exact hk2 t' (childN_key _ 1 t' hkey hs h)
      · cases h
    · exact hk2 t' (parent_key _ t' hkey hs h)

-- with ASCII names the cached key was cut correctly
def keyedChild : TN :=
  { ns := "type".toList, auth := rtChars, name := "Cd::e".toList, parts := none,
    canonical := enc (runtimeAuthority ++ "/type/cd::e").toList }
example : ((TN.mk' "type".toList "Ab::Cd::e".toList rtChars).mapKey.1).childBeforeFix = .ok keyedChild ∧
    keyedChild.mapKey.2 = keyedChild.freshKey := by decide +kernel

/-- ONE NAME, TWO KEYS before the fix: the Kelvin sign (3 bytes) lower-cases to `k` (1 byte); after `MapKey()` the child of
    `Kx::Foo` carried the cached key `…/type/o` while a fresh `Foo` has `…/type/foo`; the parent `Kx` carried `…/type/kx::` -/
theorem C12_key_derived_wrong_before_fix :
    ((TN.mk' "type".toList "\u212ax::Foo".toList rtChars).mapKey.1).childBeforeFix =
      .ok { ns := "type".toList, auth := rtChars, name := "Foo".toList, parts := none,
            canonical := enc (runtimeAuthority ++ "/type/o").toList } ∧
    (TN.mk' "type".toList "Foo".toList rtChars).freshKey = enc (runtimeAuthority ++ "/type/foo").toList ∧
    ((TN.mk' "type".toList "\u212ax::Foo".toList rtChars).mapKey.1).parentBeforeFix =
      .ok { ns := "type".toList, auth := rtChars, name := "\u212ax".toList, parts := none,
            canonical := enc (runtimeAuthority ++ "/type/kx::").toList } := by decide +kernel

/-- … and with such a letter in the AUTHORITY the slice expression was out of range: `Child()` panicked -/
theorem C12_key_derived_fault_before_fix :
    ((TN.mk' "type".toList "A::B".toList "http://\u212a.example".toList).mapKey.1).childBeforeFix = .fault ∧
    ((TN.mk' "type".toList "A::B".toList "http://\u212a.example".toList).mapKey.1).child =
      .ok (TN.mk' "type".toList "B".toList "http://\u212a.example".toList) := by decide +kernel

/-! ### the global level (`Model/LoaderStatic.lean`): declared types, `ResolveResolvables`, the static loader as a root

The static loader is a `basicLoader` without parent: in the model a root like any other, so every theorem above holds of
it (it is node 0 of the `(stw)` lines of the harness, which run the REAL `loader.StaticLoader`).  What the global level adds
is the process-wide list of declared types (`SysQ.queue`) and `ResolveResolvables(c)`, which defines all of them in
`c.Loader()` — in the static loader during `InitializeRuntime`, in the environment loader or a fork afterwards. -/

/-- misses are not sticky, one level up: after a failed lookup through `l`, a definition in ANY loader of its chain — the
    static loader at the top included — makes the name resolve through `l`, to that value ("as long as no ancestor gains a
    binding" is the only way a resolution changes) -/
theorem C12_define_ancestor_after_miss (s : Sys) (l a : Nat) (n : Name) (v : V) (ha : n.auth = runtimeAuthority)
    (hmem : a ∈ chain s.ps l) (hlen : a < s.es.length) (h : resolve s l (canon n) = none) :
    (run s [.load l n, .define a n v]).2 = [.notfound, .ok] ∧
    resolve (run s [.load l n, .define a n v]).1 l (canon n) = some v ∧
    (step (run s [.load l n, .define a n v]).1 (.load l n)).2 = .found v := by
  have hall : ∀ x ∈ chain s.ps l, bound s x (canon n) = none := by
    intro x hx
    unfold resolve at h
    rw [List.findSome?_eq_none_iff] at h
    exact h x (List.mem_reverse.mpr hx)
  have hload : (load s l n).2 = .notfound := by
    have := C12_load s l n ha; simp only [step] at this; rw [this, h]; rfl
  have hl1 : a < (load s l n).1.es.length := by
    have := step_length s (.load l n); simp only [step] at this; rw [this]; exact hlen
  have hps : (load s l n).1.ps = s.ps := by have := step_ps s (.load l n); simpa only [step] using this
  have hown : bound (load s l n).1 a (canon n) = none := by rw [load_bound]; exact hall a hmem
  obtain ⟨d1, d2, d3⟩ := define_unbound (load s l n).1 a n v hl1 hown
  have hrun : run s [.load l n, .define a n v] =
      ((define (load s l n).1 a n v).1, [(load s l n).2, (define (load s l n).1 a n v).2]) := rfl
  have hres : resolve (define (load s l n).1 a n v).1 l (canon n) = some v := by
    unfold resolve
    have hps2 : (define (load s l n).1 a n v).1.ps = s.ps := by
      have := step_ps (load s l n).1 (.define a n v); simp only [step] at this; rw [this, hps]
    rw [hps2]
    apply findSome?_unique
    · intro x hx
      by_cases hxa : x = a
      · subst hxa; exact Or.inr d2
      · left
        rw [d3 x (canon n) (Or.inl hxa), load_bound]
        exact hall x (List.mem_reverse.mp hx)
    · exact ⟨a, List.mem_reverse.mpr hmem, d2⟩
  rw [hrun]
  refine ⟨by simp only [hload, d1], hres, ?_⟩
  rw [C12_load _ l n ha, hres]; rfl

/-- `ResolveResolvables` is the sequence of definitions of the declared types, in order of declaration, in the loader of
    the context; the first one that is rejected ends it with that reported error -/
theorem C12_rr_loop (tss : List (Option TypeSet)) (dps : List (Option Mods)) (s : Sys) (l : Nat) (n : Name) (v : V)
    (r : List (Name × V)) :
    rrLoop tss dps s l [] = (s, .ok) ∧
    rrLoop tss dps s l ((n, v) :: r) =
      if (stepX tss dps s (.define l n v)).2 = .ok then rrLoop tss dps (stepX tss dps s (.define l n v)).1 l r
      else stepX tss dps s (.define l n v) := ⟨rfl, rrLoop_cons tss dps s l n v r⟩

/-- when it returns normally every declared type is bound in that loader to the value declared -/
theorem C12_rr_ok (tss : List (Option TypeSet)) (dps : List (Option Mods)) (q : SysQ) (l : Nat)
    (ht : tsOf tss l = none) (hl : l < q.sys.es.length) (h : (stepQ tss dps q (.rr l)).2 = .ok) :
    ∀ nv ∈ q.queue, bound (stepQ tss dps q (.rr l)).1.sys l (canon nv.1) = some nv.2 :=
  rrLoop_ok_bound tss dps q.sys l q.queue ht hl h

/-- declaring changes no loader; resolving leaves no declaration behind — accepted or not -/
theorem C12_rr_queue (tss : List (Option TypeSet)) (dps : List (Option Mods)) (q : SysQ) (l : Nat) (n : Name) (v : V) :
    (stepQ tss dps q (.reg n v)).1.sys = q.sys ∧ (stepQ tss dps q (.reg n v)).1.queue = q.queue ++ [(n, v)] ∧
    (stepQ tss dps q (.rr l)).1.queue = [] := ⟨rfl, rfl, rfl⟩

/-- write-once holds at the global level: no declaration, resolution or operation changes or removes a binding -/
theorem C12_rr_writeonce (tss : List (Option TypeSet)) (dps : List (Option Mods)) (q : SysQ) (op : OpQ) (l : Nat) (k : Key)
    (v : V) (h : bound q.sys l k = some v) : bound (stepQ tss dps q op).1.sys l k = some v := by
  cases op with
  | op o => exact bound_stepX_mono tss dps q.sys o l k v h
  | reg _ _ => exact h
  | rr l' => exact bound_rrLoop_mono tss dps q.sys l' q.queue l k v h
  | addts l' nm ver ms => exact bound_addTypeSet_mono dps q.sys l' nm ver ms l k v h

theorem C12_rr_writeonce_run (tss : List (Option TypeSet)) (dps : List (Option Mods)) (q : SysQ) (ops : List OpQ) (l : Nat)
    (k : Key) (v : V) (h : bound q.sys l k = some v) : bound (runQ tss dps q ops).1.sys l k = some v := by
  induction ops generalizing q with
  | nil => exact h
  | cons op ops ih => exact ih _ (C12_rr_writeonce tss dps q op l k v h)

/-- on a hierarchy of plain loaders the operations are the ones of `LoaderSeq` -/
theorem C12_rr_plain (tss : List (Option TypeSet)) (dps : List (Option Mods)) (q : SysQ) (o : Op)
    (ht : tsOf tss o.loader = none) (hd : ∀ a ∈ chain q.sys.ps o.loader, dps.getD a none = none) :
    (stepQ tss dps q (.op o)).1.sys = (step q.sys o).1 ∧ (stepQ tss dps q (.op o)).2 = (step q.sys o).2 ∧
    (stepQ tss dps q (.op o)).1.queue = q.queue := by
  simp only [stepQ, stepX_plain tss dps q.sys o ht hd, and_self]

/-! #### non-vacuity: static loader 0 ← 1 ← 2 -/

def nc : Name := ⟨runtimeAuthority, "type", "c"⟩
def stPs : List (Option Nat) := [none, some 0, some 1]
def q0 : SysQ := { sys := Sys.init stPs, queue := [] }
-- C12_define_ancestor_after_miss: the miss through 2, then the definition at the static level
example : resolve (Sys.init stPs) 2 (canon na) = none ∧ 0 ∈ chain (Sys.init stPs).ps 2 ∧
    (run (Sys.init stPs) [.load 2 na, .define 0 nA (.ty 1), .load 2 na, .get 2 na]).2 =
      [.notfound, .ok, .found (.ty 1), .entry (some none)] := by decide +kernel
-- C12_rr_ok / C12_rr_queue: "during init": two declarations resolved into the static loader, seen from below
example : (runQ [] [] q0 [.reg na (.al "a" 1), .reg nb (.al "b" 2), .rr 0, .op (.load 2 nb), .op (.discover 2 fun _ => true)]).2 =
    [.ok, .ok, .ok, .found (.al "b" 2), .keys [canon na, canon nb]] ∧ tsOf [] 0 = none := by decide +kernel
/-- a rejected declaration ends `ResolveResolvables`: the declarations behind it are lost — not defined, not queued any more -/
theorem C12_rr_drops_rest :
    (runQ [] [] q0 [.op (.define 1 na (.ty 1)), .reg nb (.al "b" 1), .reg nA (.al "A" 2), .reg nc (.al "c" 3), .rr 1,
      .op (.load 1 nb), .op (.load 1 nc), .rr 1, .op (.load 1 nc)]).2 =
    [.ok, .ok, .ok, .ok, .reported "PCORE_ATTEMPT_TO_REDEFINE_TYPE", .found (.al "b" 1), .notfound, .ok, .notfound] := by
  decide +kernel

/-! ### type sets as providers of names (`px.AddTypes` of a TypeSet: `addTypeSet`, `addMembers` in `Model/LoaderStatic.lean`)

"A TypeSet bound at `A` answers `A::B`" — because adding it binds its members, under their qualified names, in the loader
it is added through, wherever nothing resolved before.  The same abstract specification (`bound` / `resolve`) describes
the outcome: no new notion of lookup is needed. -/

/-- REFINEMENT: on a hierarchy of plain loaders `resolveTypeSet` is, member by member in declaration order: a member whose
    qualified name resolves through the loader is skipped (whatever it resolves to), any other is defined in the loader —
    said with the specification `resolve`, not with the code's `LoadEntry` -/
theorem C12_addts_refines (dps : List (Option Mods)) (s : Sys) (l : Nat) (ts m : String) (k : Nat) (r : List (String × Nat))
    (hd : ∀ a ∈ chain s.ps l, dps.getD a none = none) :
    addMembers dps s l ts [] = (s, .ok) ∧
    addMembers dps s l ts ((m, k) :: r) =
      if (resolve s l (canon (memberName ts m))).isSome then addMembers dps s l ts r
      else if (define s l (memberName ts m) (memberVal ts m k)).2 = .ok then
        addMembers dps (define s l (memberName ts m) (memberVal ts m k)).1 l ts r
      else define s l (memberName ts m) (memberVal ts m k) := ⟨rfl, addMembers_cons_plain dps s l ts m k r hd⟩

/-- after a type set was added through `l` EVERY member resolves through `l`: to what its qualified name resolved to
    before, otherwise to the member; no member is rejected; no other name changes its resolution -/
theorem C12_addts_members (dps : List (Option Mods)) (s : Sys) (l : Nat) (ts : String) (ms : List (String × Nat))
    (hd : ∀ a ∈ chain s.ps l, dps.getD a none = none) (hshape : l ∉ ancestors s.ps l) (hl : l < s.es.length)
    (hnd : (ms.map fun m => canon (memberName ts m.1)).Nodup) :
    (addMembers dps s l ts ms).2 = .ok ∧
    (∀ m ∈ ms, resolve (addMembers dps s l ts ms).1 l (canon (memberName ts m.1)) =
      some ((resolve s l (canon (memberName ts m.1))).getD (memberVal ts m.1 m.2))) ∧
    ∀ k', k' ∉ ms.map (fun m => canon (memberName ts m.1)) → resolve (addMembers dps s l ts ms).1 l k' = resolve s l k' := by
  obtain ⟨h1, _, _, h4, h5⟩ := addMembers_spec dps s l ts ms hd hshape hl hnd
  exact ⟨h1, h5, h4⟩

/-- MISSES ARE NOT STICKY for type sets: whatever lookups failed before (cached misses anywhere along the chain), once a
    type set none of whose names resolved is added through `l`, the set and every member resolve through `l` -/
theorem C12_addts_after_miss (dps : List (Option Mods)) (s : Sys) (l : Nat) (ts : String) (ver : Nat)
    (ms : List (String × Nat)) (hd : ∀ a ∈ chain s.ps l, dps.getD a none = none) (hshape : l ∉ ancestors s.ps l)
    (hl : l < s.es.length) (hnd : (ms.map fun m => canon (memberName ts m.1)).Nodup)
    (hts : canon ⟨runtimeAuthority, "type", ts⟩ ∉ ms.map (fun m => canon (memberName ts m.1)))
    (hmiss : resolve s l (canon ⟨runtimeAuthority, "type", ts⟩) = none)
    (hmissm : ∀ m ∈ ms, resolve s l (canon (memberName ts m.1)) = none) :
    (addTypeSet dps s l ts ver ms).2 = .ok ∧
    resolve (addTypeSet dps s l ts ver ms).1 l (canon ⟨runtimeAuthority, "type", ts⟩) = some (.tset ts ver) ∧
    ∀ m ∈ ms, resolve (addTypeSet dps s l ts ver ms).1 l (canon (memberName ts m.1)) = some (memberVal ts m.1 m.2) := by
  obtain ⟨h1, h2, h3, h4, h5⟩ := addMembers_spec dps s l ts ms hd hshape hl hnd
  have hdef := resolve_define_new (addMembers dps s l ts ms).1 l ⟨runtimeAuthority, "type", ts⟩ (.tset ts ver)
    (by rw [h3]; exact hl) (by rw [h4 _ hts]; exact hmiss)
  have hadd : addTypeSet dps s l ts ver ms =
      define (addMembers dps s l ts ms).1 l ⟨runtimeAuthority, "type", ts⟩ (.tset ts ver) := by
    unfold addTypeSet
    generalize addMembers dps s l ts ms = r at h1
    obtain ⟨s1, a⟩ := r
    simp only at h1
    subst h1
    rfl
  rw [hadd]
  refine ⟨hdef.1, hdef.2, ?_⟩
  intro m hm
  have hne : canon (memberName ts m.1) ≠ canon ⟨runtimeAuthority, "type", ts⟩ := by
    intro e; apply hts; rw [← e]; exact List.mem_map_of_mem (f := fun m => canon (memberName ts m.1)) hm
  rw [resolve_define_other _ l _ _ l _ hne, h5 m hm, hmissm m hm]; rfl

/-! #### non-vacuity: the history of the seeded change C12-s6 (`@tsadd`), now inside the model: misses through the child and
    the root, then the type set added through the child -/

def zooMs : List (String × Nat) := [("Car", 1), ("Plane", 2)]
def nZoo : Name := ⟨runtimeAuthority, "type", "Zoo"⟩
def nZooCar : Name := ⟨runtimeAuthority, "type", "zoo::CAR"⟩
def zooMissed : Sys := (run (Sys.init [none, some 0]) [.load 1 nZooCar, .load 0 nZooCar, .load 1 nZoo]).1
example : (∀ a ∈ chain zooMissed.ps 1, ([] : List (Option Mods)).getD a none = none) ∧ 1 ∉ ancestors zooMissed.ps 1 ∧
    1 < zooMissed.es.length ∧ (zooMs.map fun m => canon (memberName "Zoo" m.1)).Nodup ∧
    canon nZoo ∉ zooMs.map (fun m => canon (memberName "Zoo" m.1)) ∧ resolve zooMissed 1 (canon nZoo) = none ∧
    (∀ m ∈ zooMs, resolve zooMissed 1 (canon (memberName "Zoo" m.1)) = none) ∧
    lk (canon nZooCar) (zooMissed.ents 1) = some none ∧ lk (canon nZooCar) (zooMissed.ents 0) = some none := by
  decide +kernel
example : (runQ [] [] { sys := zooMissed, queue := [] }
      [.addts 1 "Zoo" 0 zooMs, .op (.load 1 nZooCar), .op (.load 1 nZoo), .op (.load 0 nZooCar), .op (.discover 1 fun _ => true)]).2 =
    [.ok, .found (.al "Zoo::Car" 1), .found (.tset "Zoo" 0), .notfound,
     .keys [canon nZoo, canon nZooCar, canon (memberName "Zoo" "Plane")]] := by decide +kernel
/-- a member whose qualified name ALREADY resolves — here to another value, bound in the parent — is skipped silently (no
    reported redefinition); an equal type set (same name and version, other members) is an equal re-definition; another
    version is rejected after its new member was bound -/
theorem C12_addts_known_member_kept :
    (runQ [] [] { sys := Sys.init [none, some 0], queue := [] }
      [.op (.define 0 nZooCar (.ty 9)), .addts 1 "Zoo" 0 zooMs, .op (.load 1 nZooCar),
       .op (.load 1 (memberName "Zoo" "Plane")), .addts 1 "Zoo" 0 [("Car", 5)], .addts 1 "Zoo" 1 [("Truck", 3)],
       .op (.load 1 (memberName "Zoo" "Truck")), .op (.load 1 nZoo)]).2 =
    [.ok, .ok, .found (.ty 9), .found (.al "Zoo::Plane" 2), .ok, .reported "PCORE_ATTEMPT_TO_REDEFINE_TYPE",
     .found (.al "Zoo::Truck" 3), .found (.tset "Zoo" 0)] := by decide +kernel

/-! ### the defects that were repaired, as witnesses on the pre-fix definitions -/

/-- `basicLoader.SetEntry` before the fix "SetEntry of a non-Type value over a bound Type failed a type assertion":
    `nv.(px.Type)` was asserted whenever the OLD value is a type -/
def setEntryBeforeFix (es : Ents) (k : Key) (nv : Option V) : Option (Ents × SetRes) :=
  match lk k es, nv with
  | some (some ov), some v =>
    if ov = v then some (es, .kept)
    else if ov.isType then (if v.isType then some (es, .redefineType) else none)    -- none = fault (type assertion)
    else some (es, .redefine)
  | _, _ => some (setEntry es k nv)

theorem C12_assertion_fault_before_fix :
    setEntryBeforeFix [("k", some (.ty 1))] "k" (some (.str 1)) = none ∧
    (setEntry [("k", some (.ty 1))] "k" (some (.str 1))).2 = .redefine := by decide +kernel

/-- `Discover` before the fix "Discover returned cached-miss placeholders …": every map key took part -/
def discCBeforeFix (es : List Ents) (p : Key → Bool) : List Nat → List Key
  | [] => []
  | l :: anc =>
    let found := discCBeforeFix es p anc
    let added := (es.getD l []).filterMap fun (k, _) => if !hasC es anc k && p k then some k else none   -- `!l.parent.HasEntry(tn)`
    if added.isEmpty then found else sortKeys (found ++ added)

/-- a miss was discovered as a name, and a name bound below an ancestor's placeholder was answered twice -/
theorem C12_discover_placeholder_before_fix :
    discCBeforeFix (run (Sys.init [none]) [.load 0 na]).1.es (fun _ => true) [0] = [canon na] ∧
    discCBeforeFix (run (Sys.init [none, some 0]) [.load 0 na, .define 1 na (.ty 1)]).1.es (fun _ => true) [1, 0]
      = [canon na, canon na] ∧
    discC (run (Sys.init [none, some 0]) [.load 0 na, .define 1 na (.ty 1)]).1.es (fun _ => true) [1, 0] = [canon na] := by
  decide +kernel

end Pcore.LoaderSeq
