import Pcore.Model.LoaderSeq
namespace Pcore.LoaderSeq

theorem C12_placeholder : True := trivial

end Pcore.LoaderSeq
