import Pcore.Proofs.LatSoundMain
import Pcore.Proofs.LatFam
import Pcore.Proofs.DescribeWF
import Pcore.Proofs.DescribeSig
import Pcore.Proofs.DescribeLeaf
import Pcore.Proofs.DescribeTm
set_option linter.unusedSimpArgs false
set_option linter.unusedVariables false
/-!
# C19 — Type-mismatch reporting is total and agrees with the lattice

Property (properties.jsonl): for every expected type and every actual type or value, the mismatch description is produced without
crashing, is empty exactly when the actual is assignable to the expected, and otherwise names the subject it was given.  An instance
assertion raises a reported type-mismatch error exactly when the value is not an instance, and inferring the detailed type needed
for the message never fails.

Models.
* `Pcore/Model/LatticeInst.lean`: `descEmpty e a` — the decision skeleton of `describe` (TypeReference scan, assignability guard, never-empty
  fallback); `assertOk t v` = `px.AssertInstance`; `dtype` = `px.DetailedValueType`.
* `Pcore/Model/Describe.lean` (namespace `Pcore.Desc`): the STRUCTURE of the describer of internal/typemismatchdescriber.go AS IT IS NOW —
  `describe e a p : Res` = `ok (ms : List Mismatch)` | `fault k`: one `Mismatch` constructor per Go mismatch struct, carrying its path
  (list of path elements: subject / entry / key of entry / index / variant / …) and the types, names or size ranges it holds;
  `internalDescribe` with one arm per case of the Go type switch (describeVariantType with the member loop, its early return and
  mergeDescriptions / mergeMismatch / chopPath; describeTypeAliasType for the built-in aliases Data and RichData; describeOptionalType;
  describeStructType / describeHashType / describeArrayType / describeTuple with their loops; Enum / Pattern / default), the guard and the
  fallback of `describe`.  `Pcore/Model/DescribeText.lean`: what the canonical observation keeps of `text()`.

Full statement / proved / missing
* `C19_empty_iff`, `C19_nonempty_iff`, `C19_assert_iff`, `C19_assert_sound` — PROVED (as before; the skeleton and the assertion).
* `C19_describe_total`        — PROVED: no fault.  The Go fault sites of the modelled code are explicit `fault` results (`mismatches[0]` of an
                                empty slice in mergeDescriptions, `expected.Types()[exl-1]` of a Tuple without types in describeTuple) and are
                                unreachable for ALL type terms; the nil-size and type-assertion sites of `from()/to()/text()` are discharged by
                                the typing of the model (sizes are `Rng`, never nil; see the header of Describe.lean).
* `C19_describe_empty_iff`    — PROVED for the whole modelled describer: `describe e a p = ok [] ↔ asg e a` (and `C19_describe_nonempty`).
* `C19_describe_justified`    — PROVED: every reported mismatch has the path `p ++ s` where `s` is a walk (`Reach`) through the expected and the
                                actual type, and the soundness condition of its kind (`Local`) holds where the walk ends.
* `C19_path_valid`            — PROVED: every path is a valid position (`Pos`) of the expected type — whatever was merged or chopped.
* `C19_prefix_kept`, `C19_names_subject` — PROVED: the given path stays a prefix; the subject element (first) is kept: "names the subject".
* `C19_missingKey_real`, `C19_extraneousKey_real` — PROVED (the first for well-formed expected types; `C19_missingKey_real_any` without).
* `C19_sizeMismatch_real_partial`, `C19_countMismatch_real_partial` — PROVED: for an expected type without Variant / Data / RichData
  (`noMerge`) the actual range of every reported size / count mismatch is not inside the expected range.
* `C19_sizeMismatch_real` (def, full statement: the reported actual range is never inside the reported expected range) — FALSE of the code:
  mergeMismatch replaces the expected range of merged size mismatches by the HULL of the members' ranges, which may contain the actual
  range (`C19_sizeMismatch_merged_hull`: Variant[Array[String,0,1], Array[String,5,6]] against Array[String,3,3] reports "size 0..6, got 3").
  Not a violation of C19's own text (the description is non-empty and names the subject); recorded here, not as a finding.
* `C19_typeMismatch_real_partial`, `C19_patternMismatch_real_partial` — PROVED: for a `noMerge` expectation and a `plain` actual type (no Unit /
  NotUndef / Optional / Variant / alias at a reached position, no optional Struct key) the reported expected type does not accept the
  reported actual type.
* `C19_typeMismatch_real` (def, full statement: the reported expected type does not accept the reported actual type) — FALSE of the code for
  nested positions: the container arms report a type mismatch for every actual type of another kind WITHOUT asking IsAssignable, so a
  NotUndef / Variant / alias wrapper around an acceptable type is reported (`C19_typeMismatch_nested_wrapper`); the top level is protected by
  the guard of `describe`.  Same remark.
* `C19_signatures_total`      — PROVED: `describeSignatures` (the argument-error description of a dispatch, model `DescribeSig.lean`: signatures with
                                lattice parameter types, call without or WITH a block: describeSignatureBlock, unexpectedBlock, the block's signature described against the block type) never faults for a call that respects the contract of
                                px.DescribeSignatures (`SigOK`: a parameter tuple with matching names that declares a type unless it takes no
                                argument; `ArgsOK`: a Tuple / Array type that can have as many elements as it declares).  WITHOUT the contract the
                                faults are real, in the model and in the code (`C19_signatures_fault_*`, replayed from corpus/C19/structure.ops):
                                an argument type that is no Tuple/Array leaves `aSize` nil and IntegerType.IsAssignable dereferences it; the
                                default Callable has no parameter tuple (type assertion on nil); a parameter tuple without types that takes an
                                argument is indexed at -1.
* Callable expectations       — `Ty.callable` (lattice model) + the `.callable` arm of `internalDescribe` (describeCallableType: parameters, return
                                type, block): covered by EVERY theorem above, at the top of the expectation or nested anywhere.
* missing: the English of `text()` (article, "or"-lists, detailed vs short type names, quoting); Callable / Init expectations, user-defined
  aliases and unresolved TypeReferences are not in the term language (harness-side tests: `@cdesc`, `@cassert`, `@sigs`, `t2-*`).
* (audit, notes/audit-C19.md) "inferring the detailed type never fails" has no theorem: `dtype` is a total Lean function without a fault
  constructor (total by construction; only the implementation-side check speaks about it).  `C19_empty_iff` / `C19_assert_iff` unfold
  `descEmpty := asg`, `assertOk := inst`.  `Local` in `C19_describe_justified` is `True` for every kind but missing / unrecognised key.
  Added at the ends of the two namespaces: `C19_empty_iff_anyrule`, `C19_skeleton_agrees`, `C19_assert_message_partial` + instances of every
  hypothesis of `C19_assert_sound` / `C19_assert_described_partial`.
-/
namespace Pcore.Lat

theorem C19_empty_iff (cfg : Cfg) (e a : Ty) : descEmpty cfg true e a = asg cfg true e a := by
  simp [descEmpty, hasTypeRef]

theorem C19_assert_iff (cfg : Cfg) (t : Ty) (v : Val) : assertOk cfg true t v = false ↔ inst cfg true t v = false := by
  simp [assertOk]

/-- an empty description is never produced for a non-assignable pair, a non-empty one never for an assignable pair -/
theorem C19_nonempty_iff (cfg : Cfg) (e a : Ty) : descEmpty cfg true e a = false ↔ asg cfg true e a = false := by
  rw [C19_empty_iff]

theorem C19_assert_sound (cfg : Cfg) (hl : ∀ s, (cfg.lower s).length = s.length) (a b : Ty) (v : Val)
    (fa : a.Frag false) (fb : b.Frag false) (wa : Ty.WF cfg a) (wb : Ty.WF cfg b) (us : b.US) (ok : v.OK) (tv : Val.TyOK cfg v)
    (h : descEmpty cfg false a b = true) (hb : assertOk cfg false b v = true) : assertOk cfg false a v = true := by
  have h' : asg cfg false a b = true := by simpa [descEmpty, hasTypeRef] using h
  exact sound_all cfg false hl (a.w + b.w) a b v (Nat.le_refl _) ⟨fa, fb, wa, wb, us, ok, tv⟩ h' hb

/-- full statement: the type-mismatch error an assertion raises always has something to say (the description of the expected type against
    the detailed type of the value is not empty) -/
def C19_assert_described (cfg : Cfg) (sfh : Bool) : Prop :=
  ∀ (t : Ty) (v : Val), Ty.WF cfg t → v.OK → assertOk cfg sfh t v = false → descEmpty cfg sfh t (dtype cfg sfh v) = false

/-- PROVED part (from C04_accepts_sound: rule off, fragment types, values without type values and without empty-string keys) -/
theorem C19_assert_described_partial (cfg : Cfg) (hl : ∀ s, (cfg.lower s).length = s.length) (t : Ty) (v : Val)
    (ft : t.Frag false) (wt : Ty.WF cfg t) (ok : v.OK) (tv : Val.TyOK cfg v)
    (nt : Val.AllTyp (fun _ => False) v) (ne : Val.NoEmptyKey v)
    (h : assertOk cfg false t v = false) : descEmpty cfg false t (dtype cfg false v) = false := by
  cases hd : descEmpty cfg false t (dtype cfg false v) with
  | false => rfl
  | true =>
    have h' : asg cfg false t (dtype cfg false v) = true := by simpa [descEmpty, hasTypeRef] using hd
    -- the third law of C04 (`C04_accepts_sound`), re-derived from the same lemmas
    have g := dtype_good cfg hl v.w v (Nat.le_refl _) ok tv nt ne
    have hd := dtype_structy cfg false v.w v (Nat.le_refl _) (dtype_fam cfg false hl v.w v (Nat.le_refl _) ok tv nt ne)
    have := sound_all cfg false hl _ t _ v (Nat.le_refl _) ⟨ft, g.1, wt, g.2.1, g.2.2, ok, tv⟩ h' hd
    simp [assertOk, this] at h

/-- the known finding C19-assert-empty-description: Iterable accepts the Binary type, no Binary value is an Iterable instance, so the
    assertion raises an error whose description is empty -/
theorem C19_assert_described_fails_iterable_binary :
    ¬ C19_assert_described { rxMatch := fun _ _ => false, lower := id } true := by
  intro h
  have := h (.iterable (.int ⟨0, 255⟩)) (.binary [1, 2]) (by simp [Ty.WF]) (Val.OK.binary _) (by simp [assertOk, inst, elemType])
  simp [descEmpty, hasTypeRef, dtype, ptype, asg, asgRecv, sameNullary, Rng.sub] at this

/-! non-vacuity -/
example (cfg : Cfg) : descEmpty cfg true (.variant [.str, .int Rng.all]) (.int ⟨1, 2⟩) = true := by
  simp [descEmpty, hasTypeRef, asg, asgRecv, asgAnyL, sameNullary, Rng.sub, Rng.all, I64.min, I64.max, isStringFamily]
example (cfg : Cfg) : descEmpty cfg true (.int ⟨1, 2⟩) (.variant [.str, .int Rng.all]) = false := by
  simp [descEmpty, hasTypeRef, asg, asgRecv, asgAllR, sameNullary]
example (cfg : Cfg) : assertOk cfg true (.int ⟨1, 2⟩) (.str "a") = false := by simp [assertOk, inst]

/-! ### audit additions (stranger's review, notes/audit-C19.md)
`C19_empty_iff` / `C19_assert_iff` only unfold `descEmpty := !hasTypeRef e && asg …` and `assertOk := inst …` (the model function IS the
claim); they hold for either setting of the Struct-from-Hash rule, not only `true`: -/
theorem C19_empty_iff_anyrule (cfg : Cfg) (sfh : Bool) (e a : Ty) : descEmpty cfg sfh e a = asg cfg sfh e a := by
  simp [descEmpty, hasTypeRef]

/-! non-vacuity of ALL hypotheses of `C19_assert_sound` by a nested case (an Array of a Variant against a Tuple, a two-element array), and
    the conclusion is a non-trivial fact about it -/
def audCfg : Cfg := { rxMatch := fun _ _ => false, lower := id }
def audA : Ty := .array (.variant [.int ⟨0, 9⟩, .optional .str]) ⟨0, 5⟩
def audB : Ty := .tuple [.int ⟨1, 2⟩, .strVal "a"] none
def audV : Val := .array [.int 2, .str "a"]
/-- rejected by `audA` (11 is outside Integer[0,9] and no Optional[String]) -/
def audW : Val := .array [.int 11, .str "a"]

theorem audV_OK : audV.OK := Val.OK.array _ (by intro x hx; simp at hx; rcases hx with rfl | rfl <;> constructor)
theorem audV_TyOK : Val.TyOK audCfg audV :=
  Val.TyOKS.array _ (by simp [I64.max]) (by intro x hx; simp at hx; rcases hx with rfl | rfl <;> constructor)
theorem audW_OK : audW.OK := Val.OK.array _ (by intro x hx; simp at hx; rcases hx with rfl | rfl <;> constructor)
theorem audW_TyOK : Val.TyOK audCfg audW :=
  Val.TyOKS.array _ (by simp [I64.max]) (by intro x hx; simp at hx; rcases hx with rfl | rfl <;> constructor)

example : audA.Frag false ∧ audB.Frag false ∧ Ty.WF audCfg audA ∧ Ty.WF audCfg audB ∧ audB.US := by
  refine ⟨?_, ?_, ?_, ?_, ?_⟩ <;> simp [audA, audB, Ty.Frag, Ty.TA, Ty.WF, Ty.US]
example : descEmpty audCfg false audA audB = true := by
  simp [descEmpty, hasTypeRef, audA, audB, asg, asgRecv, asgAllR, asgAnyL, tupZip, sameNullary, Rng.sub, tupleSize, Rng.exact,
    isStringFamily]
example : assertOk audCfg false audB audV = true := by
  simp [assertOk, audB, audV, inst, instZip, tupleSize, Rng.exact, Rng.contains]
/-- the theorem applied to the instance: the wider type's assertion passes too -/
example : assertOk audCfg false audA audV = true :=
  C19_assert_sound audCfg (fun _ => rfl) audA audB audV
    (by simp [audA, Ty.Frag]) (by simp [audB, Ty.Frag]) (by simp [audA, Ty.WF]) (by simp [audB, Ty.WF]) (by simp [audB, Ty.US])
    audV_OK audV_TyOK
    (by simp [descEmpty, hasTypeRef, audA, audB, asg, asgRecv, asgAllR, asgAnyL, tupZip, sameNullary, Rng.sub, tupleSize, Rng.exact,
      isStringFamily])
    (by simp [assertOk, audB, audV, inst, instZip, tupleSize, Rng.exact, Rng.contains])

/-! non-vacuity of ALL hypotheses of `C19_assert_described_partial`: `audA` against the array [11, 'a'] -/
theorem audW_noTyp : Val.AllTyp (fun _ => False) audW :=
  Val.AllTyp.array _ (by intro x hx; simp at hx; rcases hx with rfl | rfl <;> constructor)
theorem audW_noEmptyKey : Val.NoEmptyKey audW :=
  Val.NoEmptyKey.array _ (by intro x hx; simp at hx; rcases hx with rfl | rfl <;> exact Val.NoEmptyKey.leaf _ trivial)
theorem audW_rejected : assertOk audCfg false audA audW = false := by
  simp [assertOk, audA, audW, inst, instAll, instAny, Ty.isAny, Rng.contains]
/-- the theorem applied to the instance: the description of `audA` against the detailed type of [11, 'a'] is not empty -/
theorem audW_described : descEmpty audCfg false audA (dtype audCfg false audW) = false :=
  C19_assert_described_partial audCfg (fun _ => rfl) audA audW (by simp [audA, Ty.Frag]) (by simp [audA, Ty.WF])
    audW_OK audW_TyOK audW_noTyp audW_noEmptyKey audW_rejected

end Pcore.Lat

namespace Pcore.Desc
open Pcore.Lat

section
variable (cfg : Cfg) (sfh : Bool)

/-- NO FAULT: none of the Go runtime faults the model makes explicit (`mismatches[0]` of an empty slice in mergeDescriptions,
    `expected.Types()[exl-1]` of a Tuple without types in describeTuple) is reachable — `describe` always returns normally. -/
theorem C19_describe_total (e a : Ty) (p : Path) : ∃ ms, describe cfg sfh e a p = .ok ms := by
  unfold describe
  split
  · exact ⟨_, rfl⟩
  · obtain ⟨r, hr⟩ := (describe_total cfg sfh).1 e e a p
    rw [hr]
    cases r with
    | nil => exact ⟨_, rfl⟩
    | cons d ds => exact ⟨_, rfl⟩

/-- EMPTY IFF ASSIGNABLE, for the whole modelled describer (TypeReference scan, guard, internalDescribe with all its loops and
    merges, fallback): the description is empty exactly when the actual type is assignable — and it is always produced. -/
theorem C19_describe_empty_iff (e a : Ty) (p : Path) : describe cfg sfh e a p = .ok [] ↔ asg cfg sfh e a = true := by
  unfold describe
  constructor
  · intro h
    by_cases hasg : asg cfg sfh e a = true
    · exact hasg
    · rw [if_neg hasg] at h
      obtain ⟨r, hr⟩ := (describe_total cfg sfh).1 e e a p
      rw [hr] at h
      cases r with
      | nil => simp at h
      | cons d ds => simp at h
  · intro h; rw [if_pos h]

/-- what is reported when the actual type is not assignable is never empty -/
theorem C19_describe_nonempty (e a : Ty) (p : Path) (h : asg cfg sfh e a = false) :
    ∃ m ms, describe cfg sfh e a p = .ok (m :: ms) := by
  obtain ⟨r, hr⟩ := C19_describe_total cfg sfh e a p
  cases r with
  | nil => rw [C19_describe_empty_iff] at hr; simp [hr] at h
  | cons m ms => exact ⟨m, ms, hr⟩

/-- EVERY REPORTED MISMATCH IS JUSTIFIED: its path is the given path followed by a walk `s` through the expected and the actual type
    (`Reach`: entry / key / index steps descend into BOTH types, variant steps and Optional unwrapping into the expected one), and
    the soundness condition of its kind (`Local`) holds of the pair of sub-terms the walk ends at. -/
theorem C19_describe_justified (e a : Ty) (p : Path) (ms : List Mismatch) (h : describe cfg sfh e a p = .ok ms) :
    ∀ m ∈ ms, ∃ s x a', m.path = p ++ s ∧ Reach e a false s x a' ∧ Local m.kk x a' := by
  unfold describe at h
  split at h
  · simp only [Res.ok.injEq] at h; subst h; intro m hm; cases hm
  · cases hr : internalDescribe cfg sfh e e a p with
    | fault k => rw [hr] at h; cases h
    | ok r =>
      rw [hr] at h
      have hj := (describe_reach cfg sfh).1 e e a p r hr
      cases r with
      | nil =>
        simp only [Res.ok.injEq] at h; subst h
        intro m hm
        simp only [List.mem_singleton] at hm; subst hm
        exact ⟨[], .ty e, a, by simp [Mismatch.path], .refl _ _ _, by simp [Local, Mismatch.kk, Mismatch.cls]⟩
      | cons d ds =>
        simp only [Res.ok.injEq] at h; subst h
        intro m hm
        obtain ⟨s, x, a', hp, hreach, hloc⟩ := hj m hm
        exact ⟨s, x, a', hp, hreach.oc_irrelevant, hloc⟩

/-- EVERY PATH IS A VALID POSITION OF THE EXPECTED TYPE (whatever mergeDescriptions merged and chopPath chopped) -/
theorem C19_path_valid (e a : Ty) (p : Path) (ms : List Mismatch) (h : describe cfg sfh e a p = .ok ms) :
    ∀ m ∈ ms, ∃ s, m.path = p ++ s ∧ Pos e false s := by
  intro m hm
  obtain ⟨s, x, a', hp, hreach, _⟩ := C19_describe_justified cfg sfh e a p ms h m hm
  exact ⟨s, hp, hreach.toPos⟩

/-- the path a mismatch was described under is kept as a prefix by every merge and chop -/
theorem C19_prefix_kept (e a : Ty) (p : Path) (ms : List Mismatch) (h : describe cfg sfh e a p = .ok ms) :
    ∀ m ∈ ms, p <+: m.path := by
  intro m hm
  obtain ⟨s, hp, _⟩ := C19_path_valid cfg sfh e a p ms h m hm
  exact ⟨s, hp.symm⟩

/-- NAMES THE SUBJECT: every mismatch `px.DescribeMismatch(name, e, a)` formats starts with the subject element it was given -/
theorem C19_names_subject (name : String) (e a : Ty) (ms : List Mismatch) (h : describe cfg sfh e a (subjectPath name) = .ok ms) :
    ∀ m ∈ ms, m.path.head? = some ⟨.subject, "function " ++ name ++ ":"⟩ := by
  intro m hm
  obtain ⟨s, hs⟩ := C19_prefix_kept cfg sfh e a _ ms h m hm
  rw [← hs]; rfl

/-- A MISSING KEY IS REAL: `expects a value for key k` at `p ++ s` is reported only if the walk `s` ends at an expected Struct of which
    `k` is a REQUIRED member and an actual Struct that has no member `k` (expected type well-formed: member names pairwise different,
    what a hash literal / the constructors establish). -/
theorem C19_missingKey_real (e a : Ty) (p q : Path) (k : String) (ms : List Mismatch) (hw : Ty.WF cfg e)
    (h : describe cfg sfh e a p = .ok ms) (hm : Mismatch.missingKey q k ∈ ms) :
    ∃ s ems ams, q = p ++ s ∧ Reach e a false s (.ty (.struct ems)) (.struct ams) ∧
      (∃ t, (k, false, t) ∈ ems) ∧ ∀ m ∈ ams, m.1 ≠ k := by
  obtain ⟨s, x, a', hp, hreach, hloc⟩ := C19_describe_justified cfg sfh e a p ms h _ hm
  simp only [Local, Mismatch.kk] at hloc
  obtain ⟨ems, ams, rfl, rfl, ht, hor⟩ := hloc
  refine ⟨s, ems, ams, hp, hreach, ht, ?_⟩
  rcases hor with hnone | hdup
  · exact lookupLast_none.mp hnone
  · have := hreach.wf hw
    rw [Ty.WF] at this
    exact absurd this.1 hdup

/-- the same without the well-formedness hypothesis: absent from the actual Struct, OR the expected Struct names a member twice
    (the second occurrence finds its key already deleted from the map) -/
theorem C19_missingKey_real_any (e a : Ty) (p q : Path) (k : String) (ms : List Mismatch)
    (h : describe cfg sfh e a p = .ok ms) (hm : Mismatch.missingKey q k ∈ ms) :
    ∃ s ems ams, q = p ++ s ∧ Reach e a false s (.ty (.struct ems)) (.struct ams) ∧
      (∃ t, (k, false, t) ∈ ems) ∧ ((∀ m ∈ ams, m.1 ≠ k) ∨ ¬ (ems.map (·.1)).Nodup) := by
  obtain ⟨s, x, a', hp, hreach, hloc⟩ := C19_describe_justified cfg sfh e a p ms h _ hm
  simp only [Local, Mismatch.kk] at hloc
  obtain ⟨ems, ams, rfl, rfl, ht, hor⟩ := hloc
  exact ⟨s, ems, ams, hp, hreach, ht, hor.imp lookupLast_none.mp id⟩

/-- AN UNRECOGNISED KEY IS REAL: `unrecognized key k` at `p ++ s` is reported only if the walk ends at an actual Struct that has a member
    `k` and an expected Struct that has none -/
theorem C19_extraneousKey_real (e a : Ty) (p q : Path) (k : String) (ms : List Mismatch)
    (h : describe cfg sfh e a p = .ok ms) (hm : Mismatch.extraneousKey q k ∈ ms) :
    ∃ s ems ams, q = p ++ s ∧ Reach e a false s (.ty (.struct ems)) (.struct ams) ∧
      (∃ m ∈ ams, m.1 = k) ∧ ∀ m ∈ ems, m.1 ≠ k := by
  obtain ⟨s, x, a', hp, hreach, hloc⟩ := C19_describe_justified cfg sfh e a p ms h _ hm
  simp only [Local, Mismatch.kk] at hloc
  obtain ⟨ems, ams, rfl, rfl, hin, hno⟩ := hloc
  exact ⟨s, ems, ams, hp, hreach, hin, hno⟩

end
end Pcore.Desc

/-! ### full-strength soundness of size and type mismatches: false of the code, with witnesses -/
namespace Pcore.Desc
open Pcore.Lat

/-- full statement: a reported size mismatch is real -/
def C19_sizeMismatch_real (cfg : Cfg) (sfh : Bool) : Prop :=
  ∀ e a p ms, describe cfg sfh e a p = .ok ms → ∀ q er ar, Mismatch.sizeMismatch q er ar ∈ ms → er.sub ar = false

/-- the merged size mismatch of two Variant members carries the hull of their ranges -/
theorem C19_sizeMismatch_merged_hull (cfg : Cfg) :
    describe cfg true (.variant [.array .str ⟨0, 1⟩, .array .str ⟨5, 6⟩]) (.array .str ⟨3, 3⟩) (subjectPath "x")
      = .ok [.sizeMismatch (subjectPath "x") ⟨0, 6⟩ ⟨3, 3⟩] := by
  simp [describe, internalDescribe, descVar, descAll, variantTail, mergeDescriptions, tryClasses, foldMerge, mergeMismatch,
    canonPath, chopPath, VRes.cons, Res.append, Mismatch.cls, Mismatch.path, Mismatch.setPath, subjectPath, PE.nat, isOptional, isAlias,
    asg, asgRecv, asgAnyL, sameNullary, Rng.sub, Rng.hull, isStringFamily]
  constructor <;> omega

/-- PROVED part: for an expected type without Variant / Data / RichData at any position the describer can reach (`noMerge`: nothing is ever
    merged) every reported size mismatch is real — the actual range is not inside the expected one … -/
theorem C19_sizeMismatch_real_partial (cfg : Cfg) (sfh : Bool) (e a : Ty) (p q : Path) (er ar : Rng) (ms : List Mismatch)
    (hnm : noMerge e = true) (h : describe cfg sfh e a p = .ok ms) (hm : Mismatch.sizeMismatch q er ar ∈ ms) : er.sub ar = false :=
  describe_sizeReal_top cfg sfh e a p ms hnm h _ hm

/-- … and so is every count mismatch (what a Tuple expectation reports for a size that does not fit) -/
theorem C19_countMismatch_real_partial (cfg : Cfg) (sfh : Bool) (e a : Ty) (p q : Path) (er ar : Rng) (ms : List Mismatch)
    (hnm : noMerge e = true) (h : describe cfg sfh e a p = .ok ms) (hm : Mismatch.countMismatch q er ar ∈ ms) : er.sub ar = false :=
  describe_sizeReal_top cfg sfh e a p ms hnm h _ hm

/-- the hypotheses are satisfiable: Array[String, 0, 5] against Array[String, 0, 7] -/
example (cfg : Cfg) : noMerge (.array .str ⟨0, 5⟩) = true ∧
    describe cfg true (.array .str ⟨0, 5⟩) (.array .str ⟨0, 7⟩) (subjectPath "x") = .ok [.sizeMismatch (subjectPath "x") ⟨0, 5⟩ ⟨0, 7⟩] := by
  simp [noMerge, describe, internalDescribe, asg, asgRecv, sameNullary, Rng.sub, isStringFamily]

theorem C19_sizeMismatch_real_false (cfg : Cfg) : ¬ C19_sizeMismatch_real cfg true := by
  intro h
  have := h _ _ _ _ (C19_sizeMismatch_merged_hull cfg) _ _ _ List.mem_cons_self
  simp [Rng.sub] at this

/-- full statement: the expected type a type mismatch reports does not accept the actual type it reports -/
def C19_typeMismatch_real (cfg : Cfg) (sfh : Bool) : Prop :=
  ∀ e a p ms, describe cfg sfh e a p = .ok ms → ∀ q t act, Mismatch.typeMismatch q (.ofTy t) act ∈ ms → asg cfg sfh t act = false

/-- Struct[{a => Array[String]}] against Struct[{a => NotUndef[Array[String]], z => String}]: besides the unrecognised key `z` the entry
    `a` is reported as a type mismatch although Array[String] accepts NotUndef[Array[String]] -/
theorem C19_typeMismatch_nested_wrapper (cfg : Cfg) :
    describe cfg true (.struct [("a", false, .array .str Rng.pos)])
        (.struct [("a", false, .notUndef (.array .str Rng.pos)), ("z", false, .str)]) (subjectPath "x")
      = .ok [.typeMismatch (subjectPath "x" ++ [⟨.entry, "a"⟩]) (.ofTy (.array .str Rng.pos)) (.notUndef (.array .str Rng.pos)),
             .extraneousKey (subjectPath "x") "z"] := by
  simp [describe, internalDescribe, descAll, structItems, lookupLast, distinctNames, Res.append,
    asg, asgRecv, sameNullary, structAll, structMember, distinctCount, subjectPath, Rng.sub, Rng.pos, I64.max]

/-- PROVED part: when nothing is merged (`noMerge` expectation) and the actual type is `plain` — no Unit / NotUndef / Optional / Variant /
    alias at any position the describer reaches and no optional Struct key: the kinds GuardedIsAssignable decomposes on the right —
    the expected type every type mismatch reports does not accept the actual type it reports … -/
theorem C19_typeMismatch_real_partial (cfg : Cfg) (sfh : Bool) (e a : Ty) (p q : Path) (t act : Ty) (ms : List Mismatch)
    (hnm : noMerge e = true) (hpl : plain a = true) (h : describe cfg sfh e a p = .ok ms)
    (hm : Mismatch.typeMismatch q (.ofTy t) act ∈ ms) : asg cfg sfh t act = false :=
  describe_tmReal_top cfg sfh e a p ms hnm hpl h _ hm t rfl

/-- … and neither does the expected type of a pattern mismatch -/
theorem C19_patternMismatch_real_partial (cfg : Cfg) (sfh : Bool) (e a : Ty) (p q : Path) (t act : Ty) (ms : List Mismatch)
    (hnm : noMerge e = true) (hpl : plain a = true) (h : describe cfg sfh e a p = .ok ms)
    (hm : Mismatch.patternMismatch q t act ∈ ms) : asg cfg sfh t act = false :=
  describe_tmReal_top cfg sfh e a p ms hnm hpl h _ hm

/-- the hypotheses are satisfiable by a description with a nested type mismatch (the example further down: Array[Integer[1,2],0,5]
    against Tuple[Integer[1,1], String]) -/
example : noMerge (.array (.int ⟨1, 2⟩) ⟨0, 5⟩) = true ∧ plain (.tuple [.int ⟨1, 1⟩, .str] none) = true := by
  simp [noMerge, plain, plainL]

theorem C19_typeMismatch_real_false (cfg : Cfg) : ¬ C19_typeMismatch_real cfg true := by
  intro h
  have := h _ _ _ _ (C19_typeMismatch_nested_wrapper cfg) _ _ _ List.mem_cons_self
  simp [asg, asgRecv, sameNullary, Rng.sub, Rng.pos, isStringFamily] at this

/-! non-vacuity of the hypotheses of the theorems above (a description with a missing and an unrecognised key; one with a nested path) -/
example (cfg : Cfg) :
    describe cfg true (.struct [("a", false, .int ⟨1, 2⟩)]) (.struct [("b", false, .str)]) (subjectPath "x")
      = .ok [.missingKey (subjectPath "x") "a", .extraneousKey (subjectPath "x") "b"] := by
  simp [describe, internalDescribe, descAll, structItems, lookupLast, distinctNames, Res.append,
    asg, asgRecv, sameNullary, structAll, structMember, distinctCount]
example (cfg : Cfg) : Ty.WF cfg (.struct [("a", false, .int ⟨1, 2⟩)]) := by simp [Ty.WF]
example (cfg : Cfg) :
    describe cfg true (.array (.int ⟨1, 2⟩) ⟨0, 5⟩) (.tuple [.int ⟨1, 1⟩, .str] none) (subjectPath "x")
      = .ok [.typeMismatch (subjectPath "x" ++ [PE.nat .index 1]) (.ofTy (.int ⟨1, 2⟩)) .str] := by
  simp [describe, internalDescribe, descAll, arrTupItems, Res.append, tupleSize, Rng.exact,
    asg, asgRecv, sameNullary, tupZip, Rng.sub, subjectPath]
example (cfg : Cfg) : asg cfg true (.int ⟨1, 2⟩) .str = false := by simp [asg, asgRecv, sameNullary]

/-! ### describeSignatures -/
/-- NO FAULT in the argument-error description of a dispatch, for every call that respects the contract -/
theorem C19_signatures_total (cfg : Cfg) (sfh : Bool) (sigs : List Sig) (args : Ty) (blk : Option Ty)
    (hs : ∀ sg ∈ sigs, SigOK sg) (ha : ArgsOK args) : ∀ k, describeSignatures cfg sfh sigs args blk ≠ .fault k :=
  describeSignatures_total cfg sfh sigs args blk hs ha

/-- the hypotheses are satisfiable: (String, Integer…) called with ('a', 1, 2) — and it is described without fault -/
example : SigOK { params := some ([.str, .int Rng.all], ⟨1, I64.max⟩), names := ["1", "2"], block := none } :=
  ⟨_, _, rfl, rfl, by simp⟩
example : ArgsOK (.tuple [.strVal "a", .int ⟨1, 1⟩, .int ⟨2, 2⟩] none) := by simp [ArgsOK, tupleSize, Rng.exact]

/-- outside the contract the faults are real: an argument type that is not the type of an argument list -/
theorem C19_signatures_fault_nilSize (cfg : Cfg) :
    describeSignatures cfg true [{ params := some ([.str], ⟨1, 1⟩), names := ["1"], block := none }] (.int ⟨1, 1⟩) none = .fault .nilSize := by
  simp [describeSignatures, sigAllArgs, sigArguments]
/-- … the default Callable as a signature -/
theorem C19_signatures_fault_nilParams (cfg : Cfg) :
    describeSignatures cfg true [{ params := none, names := [], block := none }] (.tuple [.strVal "a"] none) none = .fault .nilParams := by
  simp [describeSignatures, sigAllArgs, sigArguments]
/-- … a parameter tuple without types that takes an argument (Callable[1, 1]) -/
theorem C19_signatures_fault_paramIndex (cfg : Cfg) :
    describeSignatures cfg true [{ params := some ([], ⟨1, 1⟩), names := [], block := none }] (.tuple [.strVal "a"] none) none = .fault .paramIndex := by
  simp [describeSignatures, sigAllArgs, sigArguments, sigArgLoop, tupleSize, Rng.exact, Rng.sub]

/-! ### Callable expectations: `Ty.callable` is a type term like any other, so every theorem above covers a Callable at the top of the
    expectation or nested anywhere in it (describeCallableType is the `.callable` arm of `internalDescribe`) -/
/-- a Callable that promises a return type against one that declares none: described below a `return` path element (what the seeded
    change C19-s8 crashed on) -/
example (cfg : Cfg) :
    describe cfg true (.callable (some (.tuple [.str] none)) (some (.int Rng.all)) none) (.callable (some (.tuple [.str] none)) none none)
        (subjectPath "x")
      = .ok [.typeMismatch (subjectPath "x" ++ [⟨.ret, ""⟩]) (.ofTy (.int Rng.all)) .any] := by
  simp [describe, internalDescribe, callTail, callBlock, Res.orElse, tyEq, tyEqL, tupleSize, asg, asgRecv, sameNullary, subjectPath]

/-! ### audit additions (stranger's review, notes/audit-C19.md): the skeleton and the structure model agree; the property's sentence about
values, read from its text -/

/-- the two models of `describe` agree on emptiness: the structure model (every loop, merge and chop) answers `ok []` exactly when the
    decision skeleton of Model/LatticeInst.lean says "empty".  NOTE what carries this and `C19_describe_empty_iff`: the guard
    `if IsAssignable(expected, actual) return NoMismatch` and the fallback `if len(ds) == 0 { ds = typeMismatch }` of `describe`, plus
    totality of `internalDescribe` — NOT an agreement of the element-wise loops of `internalDescribe` with `asg` (no such theorem exists;
    DESIGN.md §4 C19 announced one). -/
theorem C19_skeleton_agrees (cfg : Cfg) (sfh : Bool) (e a : Ty) (p : Path) :
    describe cfg sfh e a p = .ok [] ↔ descEmpty cfg sfh e a = true := by
  rw [C19_describe_empty_iff, C19_empty_iff_anyrule]

/-- the property's sentence about VALUES, assembled from its parts ("the description of an expected type against a value that is not an
    instance is produced without crashing, is not empty and names the subject"): when `px.AssertInstance(name, t, v)` raises, what
    `px.DescribeMismatch(name, t, DetailedValueType(v))` formats is a non-empty list of mismatches, each starting with the subject element —
    on the fragment of `C19_assert_described_partial` (rule off, no Iterable, no type values, no empty-string keys).  Outside the fragment
    the first half is false: `C19_assert_described_fails_iterable_binary`. -/
theorem C19_assert_message_partial (cfg : Cfg) (hl : ∀ s, (cfg.lower s).length = s.length) (name : String) (t : Ty) (v : Val)
    (ft : t.Frag false) (wt : Ty.WF cfg t) (ok : v.OK) (tv : Val.TyOK cfg v)
    (nt : Val.AllTyp (fun _ => False) v) (ne : Val.NoEmptyKey v) (h : assertOk cfg false t v = false) :
    ∃ m ms, describe cfg false t (dtype cfg false v) (subjectPath name) = .ok (m :: ms) ∧
      ∀ m' ∈ m :: ms, m'.path.head? = some ⟨.subject, "function " ++ name ++ ":"⟩ := by
  have hd := C19_assert_described_partial cfg hl t v ft wt ok tv nt ne h
  rw [C19_empty_iff_anyrule] at hd
  obtain ⟨m, ms, hm⟩ := C19_describe_nonempty cfg false t (dtype cfg false v) (subjectPath name) hd
  exact ⟨m, ms, hm, C19_names_subject cfg false name t _ _ hm⟩

/-- inhabited: `audA` = Array[Variant[Integer[0,9], Optional[String]], 0, 5] against the value [11, 'a'] -/
example : ∃ m ms, describe audCfg false audA (dtype audCfg false audW) (subjectPath "f") = .ok (m :: ms) ∧
    ∀ m' ∈ m :: ms, m'.path.head? = some ⟨.subject, "function f:"⟩ :=
  C19_assert_message_partial audCfg (fun _ => rfl) "f" audA audW (by simp [audA, Ty.Frag]) (by simp [audA, Ty.WF])
    audW_OK audW_TyOK audW_noTyp audW_noEmptyKey audW_rejected

/-- `C19_signatures_total` on a call that does NOT match — (String, Integer…) called with (1, 2): inside the contract (`SigOK` is the example
    beside the theorem), and the answer is a single mismatch, the fault-free outcome the theorem promises, computed -/
example : ArgsOK (.tuple [.int ⟨1, 1⟩, .int ⟨2, 2⟩] none) := by simp [ArgsOK, tupleSize, Rng.exact]
example (cfg : Cfg) : ∃ m, describeSignatures cfg true
    [{ params := some ([.str, .int Rng.all], ⟨1, I64.max⟩), names := ["1", "2"], block := none }]
    (.tuple [.int ⟨1, 1⟩, .int ⟨2, 2⟩] none) none = .single m := by
  simp [describeSignatures, sigAllArgs, sigArguments, sigArgLoop, tupleSize, Rng.exact, Rng.sub, describe, internalDescribe, asg, asgRecv,
    sameNullary, Rng.all, I64.max, I64.min, isStringFamily, sigStrip, sigFinish, mergeDescriptions, tryClasses, foldMerge, argIsOneStruct,
    Mismatch.cls, List.filter]

/-- `C19_names_subject` / `C19_prefix_kept` / `C19_path_valid` quantify over the members of `ms`: with `ms = []` they say nothing.  The list
    is non-empty exactly in the case the property speaks of (`C19_describe_nonempty`); an instance with two mismatches, one of them BELOW
    the subject (so "head of the path" is not "the whole path"): -/
example (cfg : Cfg) : ∀ m ∈ [Mismatch.typeMismatch (subjectPath "x" ++ [PE.nat .index 1]) (.ofTy (.int ⟨1, 2⟩)) .str],
    m.path.head? = some ⟨.subject, "function x:"⟩ :=
  C19_names_subject cfg true "x" (.array (.int ⟨1, 2⟩) ⟨0, 5⟩) (.tuple [.int ⟨1, 1⟩, .str] none) _ (by
    simp [describe, internalDescribe, descAll, arrTupItems, Res.append, tupleSize, Rng.exact,
      asg, asgRecv, sameNullary, tupZip, Rng.sub, subjectPath])


end Pcore.Desc
