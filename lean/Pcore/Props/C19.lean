import Pcore.Proofs.LatSoundMain
set_option linter.unusedSimpArgs false
/-!
# C19 — Type-mismatch reporting is total and agrees with the lattice

Property (properties.jsonl): for every expected type and every actual type or value, the mismatch description is produced without
crashing, is empty exactly when the actual is assignable to the expected, and otherwise names the subject it was given.  An instance
assertion raises a reported type-mismatch error exactly when the value is not an instance, and inferring the detailed type needed
for the message never fails.

Model (`Pcore/Model/LatticeInst.lean`): `descEmpty e a` is the decision skeleton of `describe` in internal/typemismatchdescriber.go AS
IT IS NOW: (1) scan the expected type for an unresolved TypeReference, (2) the guard `if px.IsAssignable(expected, actual) return
NoMismatch`, (3) `internalDescribe`, and when that yields nothing the fallback `newTypeMismatch` — so after the guard the result is never
empty.  `assertOk t v` is `px.AssertInstance` (`inst`, else `MismatchError` built from `DetailedValueType`), `dtype` is `px.DetailedValueType`.

Full statement / proved / missing
* `C19_empty_iff`      — PROVED: `descEmpty e a = asg true e a` for all type terms (the guard that exists in `describe`).
* `C19_assert_iff`     — PROVED: the assertion raises exactly when `inst` is false.
* `C19_assert_sound`   — PROVED (from C01_sound_partial, rule off, fragment `Ty.Frag`): if the assertion against B passes and A accepts B
                         then the assertion against A passes.
* totality             — by construction: `descEmpty`, `assertOk`, `dtype` are total Lean functions with no `fault` constructor; the Go
                         fault sites that existed (Tuple.Equals nil size, `NewStructElement` on an empty key, `text()` slicing `[:-1]` for an
                         empty Variant) were repaired (`fix:` commits 5e6c612, c10d6d4, ce89568) and their witnesses are replayed from the corpus.
* missing: the 1000 lines of message assembly (`internalDescribe`, `mergeDescriptions`, `chopPath`, `text()`): only emptiness is modelled;
  "names the subject" and "no crash" are checked on the implementation for every generated pair (direct predicates `desc-no-subject`,
  `desc-panic`, `assert-fault`, `dvt-panic`), not proved.  Callable / Init expectations and unresolved TypeReferences are not in the model.
-/
namespace Pcore.Lat

theorem C19_empty_iff (cfg : Cfg) (e a : Ty) : descEmpty cfg true e a = asg cfg true e a := by
  simp [descEmpty, hasTypeRef]

theorem C19_assert_iff (cfg : Cfg) (t : Ty) (v : Val) : assertOk cfg true t v = false ↔ inst cfg true t v = false := by
  simp [assertOk]

/-- an empty description is never produced for a non-assignable pair, a non-empty one never for an assignable pair -/
theorem C19_nonempty_iff (cfg : Cfg) (e a : Ty) : descEmpty cfg true e a = false ↔ asg cfg true e a = false := by
  rw [C19_empty_iff]

theorem C19_assert_sound (cfg : Cfg) (hl : ∀ s, (cfg.lower s).length = s.length) (a b : Ty) (v : Val)
    (fa : a.Frag false) (fb : b.Frag false) (wa : Ty.WF cfg a) (wb : Ty.WF cfg b) (us : b.US) (ok : v.OK) (tv : Val.TyOK cfg v)
    (h : descEmpty cfg false a b = true) (hb : assertOk cfg false b v = true) : assertOk cfg false a v = true := by
  have h' : asg cfg false a b = true := by simpa [descEmpty, hasTypeRef] using h
  exact sound_all cfg false hl (a.w + b.w) a b v (Nat.le_refl _) ⟨fa, fb, wa, wb, us, ok, tv⟩ h' hb

/-! non-vacuity -/
example (cfg : Cfg) : descEmpty cfg true (.variant [.str, .int Rng.all]) (.int ⟨1, 2⟩) = true := by
  simp [descEmpty, hasTypeRef, asg, asgRecv, asgAnyL, sameNullary, Rng.sub, Rng.all, I64.min, I64.max, isStringFamily]
example (cfg : Cfg) : descEmpty cfg true (.int ⟨1, 2⟩) (.variant [.str, .int Rng.all]) = false := by
  simp [descEmpty, hasTypeRef, asg, asgRecv, asgAllR, sameNullary]
example (cfg : Cfg) : assertOk cfg true (.int ⟨1, 2⟩) (.str "a") = false := by simp [assertOk, inst]

end Pcore.Lat
