import Pcore.Proofs.SliceHeapRefine
import Pcore.Proofs.Caches
import Pcore.Proofs.SliceHeapAlias
import Pcore.Proofs.SliceHeapFresh
import Pcore.Generated.SliceIdioms
import Pcore.Generated.CacheFacts
import Pcore.Proofs.ImmutResolve
import Pcore.Proofs.ImmutWrites
import Pcore.Generated.FieldWrites
import Pcore.Proofs.ImmutMutable
import Pcore.Generated.SerCalls
import Pcore.Generated.MutatorCalls
/-!
# C08 — Values are immutable: no operation disturbs a value obtained earlier

Property (properties.jsonl): no operation offered on a value (adding, deleting, merging, slicing, mapping, selecting,
sorting, flattening, de-duplicating, inferring its type, printing, hashing, serializing, resolving) changes what any
previously obtained value observably contains: not the receiver, not the arguments, not results returned by earlier
operations — for all sequences of List/OrderedMap operations applied to a pool of values, where each step may use any
earlier value or result as receiver or argument.

Model: `Model/Coll.lean` (pure: a value is a `List Val`) and `Model/SliceHeap.lean` (implementation layer: Go slice
headers over a heap of backing arrays, Go's `append`, each operation's storage behaviour selected by the idiom that the
fact extractor found at its return site in `types/arraytype.go` / `types/hashtype.go`).

Full statement / proved / missing
* `C08_idioms_safe` — the table regenerated from the Go source satisfies `IdiomsSafe` (by `decide`; THE obligation a
                      code change breaks: e.g. `Array.Add` back to `append(av.elements, ov)` gives `appendToReceiver`).
* `C08_refine`      — FULL statement, proved: for every growth / spare-capacity policy `P` (no hypothesis on it at all:
                      the model takes `max needed (grow cap needed)`, which subsumes `∀ n, n < grow n`), every table
                      with `IdiomsSafe`, every history `ops` over the complete operation set (constructors incl.
                      parser/collector-built values with spare capacity, the `Hash.new(tree)` constructor, add, addAll,
                      delete, deleteAll, slice, the slices `EachSlice` hands out, map, select, reject, sort, flatten,
                      unique, at/get of a nested container, merge, `Hash.AddAll(Array)`, keys, values, entries, asArray,
                      mapValues, select/rejectPairs, mutable-hash put/putAll, serializer → collector / deserializer
                      copies, `ResolveDeferred`, observers), every value `i` and every later time `j`:
                      `content (runHeap P tbl (ops.take j)) i = pureResult ops i`.
                      By induction over the op list with the sealing invariant (`step_refines`: a step is the pure step
                      on the represented state and keeps every slice header valid; under a safe table no cell of an
                      existing backing array is ever written — all writes go to arrays allocated by that step).
                      Observers (type inference, printing, hashing, serialising, iteration) are storage no-ops in the
                      model; that they are in the code is part of the table obligation: the extractor scans EVERY method
                      of Array / Hash / MutableHashValue for writes through receiver storage and `IdiomsSafe` rejects
                      any such row.
* `C08_sealed`      — the sealing invariant as a theorem of its own: extending a history leaves every existing backing
                      array untouched, cell by cell (`heap' = heap ++ new arrays`).
* `C08_new_results_fresh`, `C08_sort_fresh` — FRESH BACKING: the result of every operation that computes a new sequence
                      (Add, AddAll, Delete, Map, Select, Sort, Merge, Keys, MutableHashValue.Put … — all `NewSite`s) lives
                      in a backing array that the step allocated: no pool value that existed before has a slice of that
                      array, and the array holds exactly the result (then spare cells).  Instance for `Sort` on an Array
                      after an arbitrary history (`Array.Sort` copies, then sorts the copy).
* `C08_observers_heap_unchanged` — inferring a type, printing (any format, any format map), hashing, comparing, walking,
                      serialising to a streamer: the heap afterwards is identical (arrays, cells, capacities), for every
                      table.
* `C08_pointer_stable` — pointer = copy: what a reference to pool value `n` denotes (what `a.Add(b)` stores for `b`) is the
                      same at every later time; this is the theorem behind modelling a nested container by its content.
* `C08_stable`      — corollary: what value `i` holds at any two later times is the same.
* `C08_impl`        — `C08_refine` instantiated on the regenerated table.
* `C08_appendToReceiver_breaks`, `C08_resliceThenAppend_breaks`, `C08_inPlace_breaks` — the constructive converses:
                      for EVERY policy, a table whose `Array.Add` row is `appendToReceiver` (resp. `Hash.Delete` row
                      `resliceThenAppend`, resp. an in-place write row for `Array.Sort`) admits a concrete three-step
                      history on which an earlier value's content changes (the `a.Add(2); a.Add(3)` shape with spare
                      capacity; these are the defects of tag `verif-base` and mutants of DESIGN Appendix E).
* `C08_caches_safe`, `C08_cache_coherent`, `C08_stale_cache_breaks` — the hidden per-value state (`Model/Caches.lean`):
                      the lazily built caches `reducedType`, `detailedType`, `index` belong to Go objects, hold the
                      content they were computed from, and are filled at ARBITRARY moments (a schedule parameter: any
                      operation, a snapshot, a printer may have asked).  `C08_cache_coherent`: for every policy, safe
                      table, cache facts with `CachesSafe`, schedule and history, whatever an observation of any live
                      value is computed from — the cached snapshot or the storage — is what the pure layer says the
                      value holds: inferring a type, printing, hashing, looking up never changes what is observed of
                      any value, and what they cached is never stale.  `CachesSafe` (by `decide` on the facts
                      regenerated from arraytype.go/hashtype.go: the hidden fields are exactly these, every write to
                      one is a guarded lazy fill or a reset, the only mutator `MutableHashValue.PutAll` resets ALL of
                      them) is the obligation that commit 01dc3ec made true; `C08_stale_cache_breaks` is its converse
                      (facts without the `reducedType` reset: a mutable hash whose type was asked for before a `Put`
                      answers from the old content afterwards).
* RESOLVING (`Model/ImmutResolve.lean`: `types.ResolveDeferred`, `Deferred.Resolve`, `DeferredType.Resolve` over lists and maps
                      that hold nested Deferred values; pure layer `resolve`, implementation layer `resolveW` in which every
                      field assignment the regenerated table `Generated.fieldWrites` attributes to the resolving methods is
                      executed on the object):
  `C08_field_writes_safe` — every assignment to a field of a struct behind a px.Value implementation, anywhere in package
                      `types` (family fieldwrites, regenerated on every run), is one of the REVIEWED rows (construction,
                      guarded lazy caches, the one mutator, in-place completion of parsed types); by `decide`.  THE
                      obligation seeded change C08-s11 breaks (`e.arguments = …` in `(*deferred).Resolve`).
  `C08_resolve_frame` — FULL statement for one resolution (`ResolveDeferred` and the `resolveValue` of DeferredType
                      parameters alike), proved: for every table with `FieldWritesSafe`, every scope and
                      every value whose memos are sound (true of every freshly built value), after `resolveW` the value
                      has the observable content it had (`erase`, hence the same walk / text), its memos are still sound,
                      and the answer is the pure `resolve sc v`.
  `C08_resolve_history_free` — FULL statement for resolutions IN SEQUENCE under arbitrary scopes: the value is observably
                      unchanged after all of them and the n-th answer is what `resolve` answers for the ORIGINAL value
                      under the n-th scope alone — resolution is a function of (value, scope), whatever was resolved before.
  `C08_resolve_impl`  — instantiated on the regenerated table.
  `C08_resolve_memo_breaks` — the constructive converse (seeded change C08-s11): for EVERY write policy in which
                      `(*deferred).Resolve` assigns `e.arguments`, the list `['x', Deferred('$v', [Deferred('$k')])]` reads
                      `['x', Deferred('$v', ['a'])]` after one resolution, and a second resolution in a scope where
                      `$k = 'b'` answers `['x', 1]` instead of `['x', 2]`.
                      DeferredTypes WITH parameters are inside the model (`resolveValue` with the empty scope,
                      `ResolveWithParams` for Array / Optional / Type / NotUndef / Tuple over type parameters; the memo is
                      filled on success only, a memo hit visits nothing).  Not modelled: other parameterised types
                      (harness predicate only, op resp), the same
                      Deferred object held at two places of one value (the implementation-layer model is a tree: exact for
                      the code as it is — by the frame theorem nothing is written, so sharing cannot be observed — and
                      only an approximation of a memoising mutant), functions other than the harness's `verif_list`.
* SERIALIZING reads the value only: in the model `ser` is a constructor of a fresh copy (covered by `C08_refine`); in the
                      code the fields of every value are unexported, so `serialization/serializer.go` could change a value
                      only through a method it calls or through storage an accessor hands out:
  `C08_serializer_reads_only` — every method the serializer invokes is a reviewed read-only / emitting / own method, and
                      every assignment in it goes to its own state (the memo table `sc.values` keyed by identity,
                      `refIndex`, `path`), to a plain local or into storage it created (`decide` on family sercalls).
  `C08_mutator_calls_safe` — the exported methods of value structs that assign their receiver's fields (names computed from
                      family fieldwrites) are called, outside package types, only at the reviewed places (family
                      mutatorcalls; `decide`).
  `C08_alias_accessors_reviewed` — the exported accessors returning a slice / map field of the receiver as it is are the eight
                      reviewed ones (Binary.Bytes, DeferredType.Parameters, …): no accessor of Array / Hash / HashEntry
                      hands out its storage.
* MUTABLEHASHVALUE AS AN OBJECT (`Model/ImmutMutable.lean`: one object whose storage `Put`/`PutAll` replace, plus the `Hash`
                      methods it inherits by embedding and — since /repo 1d333d3 — its own `Delete` / `DeleteAll` /
                      `Entries` / `Unique`; beyond the builder view of `Model/Coll.lean`):
  `MutableResultsImmutable frozen` — FULL statement (a `def … : Prop`): whatever a history over a builder hands out that is
                      not the builder itself — every entry typed as an immutable value — reads at every later time as
                      it read when it was obtained.
  `C08_mutable_frozen_immutable` — the full statement, PROVED for the code as it is now (`frozen := true`: the four sites
                      that used to `return hv` answer `hv.freeze()`).
  `C08_mutable_sites_frozen`, `C08_mutable_impl` — the obligation over the regenerated idiom table (`mutFrozen sliceIdioms`:
                      the four `MutableHashValue.<Method>/r0` rows exist and are fresh; removing an override removes its
                      row) and the full statement instantiated with it.
  `C08_mutable_results_partial` — for either behaviour: an answer with storage of its own is never affected later.
  `C08_mutable_alias_sites` — the only answers that were not such values came from `Delete` / `DeleteAll` / `Unique` /
                      `Entries`.
  `C08_mutable_alias_changes_before_fix`, `C08_mutable_alias_refutes_before_fix` — witness of the repaired defect
                      (finding C08-mutable-hash-answers-itself, fixed by 1d333d3): with `frozen := false`,
                      `m.Put(a, 1); u := m.Unique(); m.Put(b, 2)` leaves `u`, typed `*Hash`, reading two entries.
* missing / trusted — (1) the extractor's classification of Go expressions into idioms (DESIGN §5.4) — cross-checked on
                      every run by the storage-shape correspondence (which values share a backing array, read off the
                      real slice headers, against the model's headers); (2) nested containers inside a cell are pure
                      values in the model, i.e. `a.Add(b)` stores a copy of `b`'s content where Go stores a pointer to
                      `b`.  For a safe table this is not a loss: `b` is a pool value, so by `C08_refine`/`C08_stable`
                      what the pointer leads to at any later time IS that copy; the two models can differ only for an
                      unsafe table, where a one-level witness of the failure already exists (the converses below).
                      On the real code the snapshot predicate is deep (element walk, text, key); (3) the lazily built
                      caches (`Hash.index`, `reducedType`, `detailedType`) are not part of the model — not observable
                      while contents are immutable; the harness's snapshot and its `stale-type` predicate watch them on
                      the real code (a stale `reducedType` of MutableHashValue was found and fixed that way);
                      (4) `Equals`/`ToKey` are modelled by one canonical key (their agreement is C07).
-/
namespace Pcore.Heap
open Pcore.Generated

/-- obligation over the regenerated table -/
theorem C08_idioms_safe : IdiomsSafe sliceIdioms := by decide

/-- FULL statement: every earlier value holds, at every later time, exactly what the pure layer says it holds -/
theorem C08_refine (P : Policy) (tbl : Table) (ht : IdiomsSafe tbl) (ops : List Op) :
    ∀ i j, i < j → j ≤ ops.length → content (runHeap P tbl (ops.take j)) i = pureResult ops i := by
  intro i j hij hj
  rw [content_abs, run_refines P tbl ht, runPure_prefix ops i j hij hj]
  rfl

/-- nothing obtained earlier ever changes: its content is the same at any two later times -/
theorem C08_stable (P : Policy) (tbl : Table) (ht : IdiomsSafe tbl) (ops : List Op) :
    ∀ i j j', i < j → j ≤ ops.length → i < j' → j' ≤ ops.length →
      content (runHeap P tbl (ops.take j)) i = content (runHeap P tbl (ops.take j')) i := by
  intro i j j' h1 h2 h3 h4
  rw [C08_refine P tbl ht ops i j h1 h2, C08_refine P tbl ht ops i j' h3 h4]

/-- the sealing invariant, literally: continuing a history never writes a cell of a backing array that exists already
    (so no cell below — or above — the end of any live slice is ever written): the heap only grows by whole arrays -/
theorem C08_sealed (P : Policy) (tbl : Table) (ht : IdiomsSafe tbl) (ops more : List Op) :
    ∃ cs, (runHeap P tbl (ops ++ more)).heap = (runHeap P tbl ops).heap ++ cs := by
  unfold runHeap
  rw [List.foldl_append]
  exact foldl_sealed P tbl ht more _

/-- POINTER = COPY.  Where Go stores a pointer to a container `b` inside another value (`a.Add(b)`, a hash value, a key),
    the model stores a copy of what `b` holds.  `b` is itself a pool value, so under a safe table the two cannot be told
    apart: whatever a reference to pool value `n` denotes at some time `j` it denotes at every later time `j'` (its
    cells are never written, and only mutable hashes — which are never nested — are ever retired).  Hence the content
    of a value as the model has it, nested containers included, is what a walk through the real pointers yields. -/
theorem C08_pointer_stable (P : Policy) (tbl : Table) (ht : IdiomsSafe tbl) (ops : List Op) :
    ∀ n j j' v, n < j → j ≤ j' → j' ≤ ops.length →
      elemVal (runHeap P tbl (ops.take j)).look (.ref n) = some v →
      elemVal (runHeap P tbl (ops.take j')).look (.ref n) = some v := by
  intro n j j' v hn hjj hj h
  have e1 : (runHeap P tbl (ops.take j)).look = (runPure (ops.take j)).look := by
    rw [← abs_look, run_refines P tbl ht]
  have e2 : (runHeap P tbl (ops.take j')).look = (runPure (ops.take j')).look := by
    rw [← abs_look, run_refines P tbl ht]
  rw [e1] at h
  rw [e2]
  simp only [elemVal] at h ⊢
  cases hl : (runPure (ops.take j)).look n with
  | none => rw [hl] at h; cases h
  | some p =>
    obtain ⟨k, xs⟩ := p
    rw [hl] at h
    cases k
    · rw [look_stable ops n j j' hn hjj hj .arr xs (by decide) hl]; exact h
    · rw [look_stable ops n j j' hn hjj hj .hsh xs (by decide) hl]; exact h
    · cases h

/-- a policy with spare capacity everywhere (used by the non-vacuity examples) -/
def samplePolicy' : Policy := ⟨fun c _ => 2 * c + 1, fun _ _ _ => 4⟩

/-- FRESH BACKING.  Under a safe table, a step that computes a new sequence stores it in an array allocated by that step:
    the new pool entry is a slice from cell 0 of a NEW array that holds the result followed by spare cells, the arrays
    that existed are as they were, and no earlier pool value has a slice of the new array. -/
theorem C08_new_results_fresh (P : Policy) (tbl : Table) (ht : IdiomsSafe tbl) (ops : List Op) (op : Op)
    (site : NewSite) (k : Kind) (r : Nat) (res : List Val) (kill : Bool)
    (h : opSem (runHeap P tbl ops).look op = .new site k r res kill) :
    ∃ sl sp, (runHeap P tbl (ops ++ [op])).pool = (runHeap P tbl ops).pool ++ [.val k sl] ∧
      (runHeap P tbl (ops ++ [op])).heap = (runHeap P tbl ops).heap ++ [res ++ List.replicate sp .undef] ∧
      sl = ⟨(runHeap P tbl ops).heap.length, 0, res.length, res.length + sp⟩ ∧
      (runHeap P tbl (ops ++ [op])).heap.read sl = res ∧
      ∀ e ∈ (runHeap P tbl ops).pool, ∀ k' sl', e = HEntry.val k' sl' → sl'.arr ≠ sl.arr := by
  obtain ⟨sp, hs⟩ := step_new_fresh P tbl ht (runHeap P tbl ops) op h
  rw [runHeap_snoc, hs]
  refine ⟨_, sp, rfl, rfl, rfl, ?_, ?_⟩
  · exact read_mkFresh _ res sp
  · intro e he k' sl' hk
    have := run_WF P tbl ht ops e he k' sl' hk
    simp only
    omega

/-- `Sort` on an Array, after any history: the sorted sequence is stored in a new array; the receiver's cells (and
    everybody else's) are not touched, and nothing that existed shares the new array -/
theorem C08_sort_fresh (P : Policy) (tbl : Table) (ht : IdiomsSafe tbl) (ops : List Op) (r : Nat) (xs : List Val)
    (h : (runHeap P tbl ops).look r = some (.arr, xs)) :
    ∃ sl sp, (runHeap P tbl (ops ++ [.sort r])).pool = (runHeap P tbl ops).pool ++ [.val .arr sl] ∧
      (runHeap P tbl (ops ++ [.sort r])).heap = (runHeap P tbl ops).heap ++ [sortVals xs ++ List.replicate sp .undef] ∧
      (runHeap P tbl (ops ++ [.sort r])).heap.read sl = sortVals xs ∧
      ∀ e ∈ (runHeap P tbl ops).pool, ∀ k' sl', e = HEntry.val k' sl' → sl'.arr ≠ sl.arr := by
  have hop : opSem (runHeap P tbl ops).look (.sort r) = .new .arrSort .arr r (sortVals xs) false := by
    simp [opSem, Op.recv?, h, arrSem]
  obtain ⟨sl, sp, h1, h2, _, h4, h5⟩ := C08_new_results_fresh P tbl ht ops (.sort r) _ _ _ _ _ hop
  exact ⟨sl, sp, h1, h2, h4, h5⟩

/-- non-vacuity: after `[2, 1]` the receiver 0 is an array, so `C08_sort_fresh` applies (and its result is `[1, 2]`) -/
example : (runHeap samplePolicy' sliceIdioms [.lit (.arr [.int 2, .int 1])]).look 0 = some (.arr, [.int 2, .int 1]) ∧
    sortVals [.int 2, .int 1] = [.int 1, .int 2] := by
  constructor <;> rfl

/-- OBSERVERS (inferring a type, printing — with any format or format map —, hashing, comparing, walking, serialising to
    a streamer: every step whose answer is not a collection) are storage no-ops: the heap afterwards is the heap before,
    cell for cell and array for array (not only the contents of the values: their capacities and sharing too); the step's
    pool entry is a marker.  Holds for EVERY table (no side condition): the model has no other semantics for them; that
    the code has none either is the obligation `C08_field_writes_safe` + the write rows of `C08_idioms_safe`. -/
theorem C08_observers_heap_unchanged (P : Policy) (tbl : Table) (s : HState) (op : Op) (m : String)
    (h : opSem s.look op = .mark m) :
    (stepHeap P tbl s op).heap = s.heap ∧ (stepHeap P tbl s op).pool = s.pool ++ [.mark m] ∧
    (stepHeap P tbl s op).dead = s.dead := by
  unfold stepHeap
  rw [h]
  exact ⟨rfl, rfl, rfl⟩

/-- non-vacuity: printing / hashing an array, and comparing two values, are such steps -/
example : opSem (runHeap samplePolicy' sliceIdioms [.lit (.arr [.int 2, .int 1])]).look (.obs 0 none) = .mark "-" ∧
    opSem (runHeap samplePolicy' sliceIdioms [.lit (.arr [.int 2, .int 1])]).look (.obs 0 (some 0)) = .mark "-" := by
  constructor <;> rfl

/-- instantiated on the code as it is now -/
theorem C08_impl (P : Policy) (ops : List Op) :
    ∀ i j, i < j → j ≤ ops.length → content (runHeap P sliceIdioms (ops.take j)) i = pureResult ops i :=
  C08_refine P sliceIdioms C08_idioms_safe ops

/-- a policy with spare capacity everywhere (doubling growth, four spare cells on every fresh result) -/
def samplePolicy : Policy := ⟨fun c _ => 2 * c + 1, fun _ _ _ => 4⟩

/-! ### the lazily built caches -/

/-- obligation over the regenerated cache facts -/
theorem C08_caches_safe : CachesSafe cacheFacts := by decide

/-- filling a cache never changes (and never falsifies) an observation: at any time, under any schedule of fills, what
    an observation of field `fld` of a live value `i` is computed from is what the pure layer says `i` holds -/
theorem C08_cache_coherent (P : Policy) (tbl : Table) (ht : IdiomsSafe tbl) (facts : CacheFacts) (hf : CachesSafe facts)
    (sched : Nat → List (Nat × CacheField)) (ops : List Op) :
    ∀ i j fld xs, i < j → j ≤ ops.length →
      observedContent (runC P tbl facts sched (ops.take j)) i fld = some xs → pureResult ops i = some xs := by
  intro i j fld xs hij hj hobs
  have inv := CInv.run P tbl ht facts hf sched (ops.take j)
  have hhs := runC_hs P tbl facts sched (ops.take j)
  rw [← C08_refine P tbl ht ops i j hij hj, ← hhs]
  unfold observedContent at hobs
  cases hs : (runC P tbl facts sched (ops.take j)).hs.slice? i with
  | none => rw [hs] at hobs; cases hobs
  | some p =>
    obtain ⟨k, sl⟩ := p
    rw [hs] at hobs
    cases ho : (runC P tbl facts sched (ops.take j)).obj[i]? with
    | none => rw [ho] at hobs; cases hobs
    | some o =>
      rw [ho] at hobs
      simp only at hobs
      have hmem := slice?_mem hs
      have hc : content (runC P tbl facts sched (ops.take j)).hs i =
          some ((runC P tbl facts sched (ops.take j)).hs.heap.read sl) := by
        unfold content
        unfold HState.slice? at hs
        split at hs
        · cases hs
        · cases hp : (runC P tbl facts sched (ops.take j)).hs.pool[i]? with
          | none => rw [hp] at hs; cases hs
          | some e =>
            rw [hp] at hs
            cases e with
            | mark m => cases hs
            | val k2 s2 =>
              simp only [Option.some.injEq, Prod.mk.injEq] at hs
              obtain ⟨_, rfl⟩ := hs
              rfl
      rw [hc]
      cases hg : ((runC P tbl facts sched (ops.take j)).caches o).get fld with
      | none => rw [hg] at hobs; exact hobs
      | some snap =>
        rw [hg] at hobs
        simp only [Option.some.injEq] at hobs
        subst hobs
        rw [inv.coh i k sl o hs ho fld snap hg]

/-- the cache facts before "fix: MutableHashValue.Put/PutAll kept the cached inferred type" (commit 01dc3ec) -/
def factsBefore : CacheFacts where
  fields := cacheFacts.fields
  writes := cacheFacts.writes.filter (fun w => !(w.1 == "MutableHashValue.PutAll" && w.2.1 == "reducedType"))
  mutators := cacheFacts.mutators
example : ¬ CachesSafe factsBefore := by decide

/-- a new mutable hash, its type asked for (fill scheduled before step 1), then a `Put` -/
def putAfterAsk : List Op := [.mnew, .mput 0 (.lit (.int 1)) (.lit (.int 1))]
def askFirst : Nat → List (Nat × CacheField) := fun n => if n = 1 then [(0, .reduced)] else []

/-- without the reset of `reducedType` the changed hash answers "what is your type" from the content it had BEFORE the
    `Put` (the empty hash), although it holds `{1 => 1}` -/
theorem C08_stale_cache_breaks :
    (observedContent (runC samplePolicy sliceIdioms factsBefore askFirst putAfterAsk) 1 .reduced).map renderH = some "" ∧
    (pureResult putAfterAsk 1).map renderH = some " ((i 1) (i 1))" ∧
    (observedContent (runC samplePolicy sliceIdioms cacheFacts askFirst putAfterAsk) 1 .reduced).map renderH
      = some " ((i 1) (i 1))" := by
  refine ⟨by decide, by decide, by decide⟩

/-! ### non-vacuity -/

/-- a history that re-uses results: literal with spare capacity, two adds on the same receiver, a slice of a result,
    an add on the slice (whose capacity covers live cells of value 1), a delete, a hash with merge and delete -/
def sampleOps : List Op :=
  [.coll 4 (.arr [.int 1]), .add 0 (.lit (.int 2)), .add 0 (.lit (.int 3)), .slice 1 0 1, .add 3 (.lit (.int 9)),
   .delete 1 (.lit (.int 2)), .lit (.hsh [.ent (.int 1) (.int 1), .ent (.int 2) (.int 2)]), .delete 6 (.lit (.int 1)),
   .merge 6 7, .sort 2, .flatten 1, .unique 1, .obs 1 none]

example : IdiomsSafe sliceIdioms := C08_idioms_safe
/-- the values of the sample history are real values (not markers) and differ from each other -/
example : (runPure sampleOps).pool.length = 13 ∧
    pureResult sampleOps 1 = some [.int 1, .int 2] ∧ pureResult sampleOps 2 = some [.int 1, .int 3] ∧
    pureResult sampleOps 4 = some [.int 1, .int 9] ∧ pureResult sampleOps 7 = some [.ent (.int 2) (.int 2)] := by
  refine ⟨by rfl, by rfl, by rfl, by rfl, by rfl⟩
/-- … and after the whole history value 1 still holds `[1, 2]` in the heap model, although value 3 (a slice of it with
    spare capacity over its second cell) has been appended to -/
example : content (runHeap samplePolicy sliceIdioms (sampleOps.take 13)) 1 = some [.int 1, .int 2] :=
  (C08_impl samplePolicy sampleOps 1 13 (by decide) (by decide)).trans (by rfl)

/-! ### the constructive converses: an unsafe idiom admits a history on which an earlier value changes

Each is stated for EVERY policy `P` and EVERY table with the unsafe row: the spare capacity comes from the constructor
(`coll 2 [1]`: `BasicCollector.AddArray(2)` fed one element), not from any particular growth function. -/

/-- `coll 2 [1]` — one spare cell, as the parser/collector builds it; then two adds on the same receiver -/
def addTwice : List Op := [.coll 2 (.arr [.int 1]), .add 0 (.lit (.int 2)), .add 0 (.lit (.int 3))]

/-- with `Array.Add` appending to the receiver's slice (the code before commit 2eefdf3 "fix: Array.Add and AddAll
    appended into the receiver's backing slice"), value 1 = `a.Add(2)` holds `[1, 2]` after step 1 and `[1, 3]` after
    `a.Add(3)` -/
theorem C08_appendToReceiver_breaks (P : Policy) (tbl : Table) (h1 : tbl.find "Array.Add/r0" = .appendToReceiver)
    (h2 : tbl.writesInPlace "Array.Add" = false) :
    content (runHeap P tbl (addTwice.take 2)) 1 = some [.int 1, .int 2] ∧
    content (runHeap P tbl (addTwice.take 3)) 1 = some [.int 1, .int 3] ∧
    pureResult addTwice 1 = some [.int 1, .int 2] := by
  obtain ⟨m, hm⟩ : ∃ m, max (2 - 1) (P.spare "BuildArray/r0" 2 1) = m + 1 :=
    ⟨max (2 - 1) (P.spare "BuildArray/r0" 2 1) - 1, by omega⟩
  have s1 : stepHeap P tbl {} (.coll 2 (.arr [.int 1])) =
      { heap := [[.int 1, .undef] ++ List.replicate m .undef], pool := [.val .arr ⟨0, 0, 1, m + 2⟩], dead := [] } := by
    simp [stepHeap, opSem, ctor, Val.dupKeys, dupKeysL, CtorSite.key, mkFresh, HState.push, hm, List.replicate_succ]
    omega
  have s2 : ∀ x, stepHeap P tbl
      { heap := [[.int 1, x] ++ List.replicate m .undef], pool := [.val .arr ⟨0, 0, 1, m + 2⟩], dead := [] }
      (.add 0 (.lit (.int 2))) =
      { heap := [[.int 1, .int 2] ++ List.replicate m .undef],
        pool := [.val .arr ⟨0, 0, 1, m + 2⟩, .val .arr ⟨0, 0, 2, m + 2⟩], dead := [] } := by
    intro x
    simp [stepHeap, opSem, Op.recv?, HState.look, HState.slice?, arrSem, elemVal, Val.dupKeys, NewSite.key,
      NewSite.method, h1, h2, produce, Idiom.cls, goAppend, Heap.write, modifyNth, overwrite, Heap.read, Heap.cells]
  have s3 : stepHeap P tbl
      { heap := [[.int 1, .int 2] ++ List.replicate m .undef],
        pool := [.val .arr ⟨0, 0, 1, m + 2⟩, .val .arr ⟨0, 0, 2, m + 2⟩], dead := [] }
      (.add 0 (.lit (.int 3))) =
      { heap := [[.int 1, .int 3] ++ List.replicate m .undef],
        pool := [.val .arr ⟨0, 0, 1, m + 2⟩, .val .arr ⟨0, 0, 2, m + 2⟩, .val .arr ⟨0, 0, 2, m + 2⟩], dead := [] } := by
    simp [stepHeap, opSem, Op.recv?, HState.look, HState.slice?, arrSem, elemVal, Val.dupKeys, NewSite.key,
      NewSite.method, h1, h2, produce, Idiom.cls, goAppend, Heap.write, modifyNth, overwrite, Heap.read, Heap.cells]
  refine ⟨?_, ?_, by rfl⟩
  · simp only [addTwice, List.take, runHeap, List.foldl]
    rw [s1, s2]
    simp [content, Heap.read, Heap.cells]
  · simp only [addTwice, List.take, runHeap, List.foldl]
    rw [s1, s2, s3]
    simp [content, Heap.read, Heap.cells]

/-- … hence the refinement statement fails for such a table: the converse of `C08_refine` at this row -/
theorem C08_appendToReceiver_refutes (P : Policy) (tbl : Table) (h1 : tbl.find "Array.Add/r0" = .appendToReceiver)
    (h2 : tbl.writesInPlace "Array.Add" = false) :
    ∃ ops i j, i < j ∧ j ≤ ops.length ∧ content (runHeap P tbl (ops.take j)) i ≠ pureResult ops i := by
  refine ⟨addTwice, 1, 3, by decide, by decide, ?_⟩
  obtain ⟨_, h, h'⟩ := C08_appendToReceiver_breaks P tbl h1 h2
  rw [h, h']
  intro hc
  injection hc with hc
  injection hc with _ hc
  injection hc with hc _
  injection hc with hc
  cases hc

/-- the table of tag `verif-base` for `Array.Add` -/
def tblAddBefore : Table := ("Array.Add/r0", .appendToReceiver) :: sliceIdioms
example : ¬ IdiomsSafe tblAddBefore := by decide
example : tblAddBefore.find "Array.Add/r0" = .appendToReceiver ∧ tblAddBefore.writesInPlace "Array.Add" = false := by decide

/-- a two-entry hash, then `Delete` of its first key -/
def deleteFirst : List Op :=
  [.lit (.hsh [.ent (.int 1) (.int 1), .ent (.int 2) (.int 2)]), .delete 0 (.lit (.int 1))]

/-- with `Hash.Delete` shifting the receiver's entries in place (`append(hv.entries[:i], hv.entries[i+1:]...)`, the code
    before commit 42e8fdd), the RECEIVER `{1 => 1, 2 => 2}` reads `{2 => 2, 2 => 2}` after `Delete(1)` -/
theorem C08_resliceThenAppend_breaks (P : Policy) (tbl : Table) (h1 : tbl.find "Hash.Delete/r0" = .resliceThenAppend)
    (h2 : tbl.writesInPlace "Hash.Delete" = false) :
    content (runHeap P tbl (deleteFirst.take 1)) 0 = some [.ent (.int 1) (.int 1), .ent (.int 2) (.int 2)] ∧
    content (runHeap P tbl (deleteFirst.take 2)) 0 = some [.ent (.int 2) (.int 2), .ent (.int 2) (.int 2)] := by
  generalize hm : P.spare "WrapHash/r0" 2 2 = m
  have s1 : stepHeap P tbl {} (.lit (.hsh [.ent (.int 1) (.int 1), .ent (.int 2) (.int 2)])) =
      { heap := [[.ent (.int 1) (.int 1), .ent (.int 2) (.int 2)] ++ List.replicate m .undef],
        pool := [.val .hsh ⟨0, 0, 2, m + 2⟩], dead := [] } := by
    have hd : (Val.hsh [.ent (.int 1) (.int 1), .ent (.int 2) (.int 2)]).dupKeys = false := by decide
    simp [stepHeap, opSem, ctor, hd, Val.len, CtorSite.key, mkFresh, HState.push, hm]
    omega
  have hi : idxOf [Val.ent (.int 1) (.int 1), .ent (.int 2) (.int 2)] (Val.int 1).key = some 0 := by decide
  have hc : commonPrefix [(Val.ent (.int 1) (.int 1)).render, (Val.ent (.int 2) (.int 2)).render]
      [(Val.ent (.int 2) (.int 2)).render] = 0 := by decide
  have s2 : stepHeap P tbl
      { heap := [[.ent (.int 1) (.int 1), .ent (.int 2) (.int 2)] ++ List.replicate m .undef],
        pool := [.val .hsh ⟨0, 0, 2, m + 2⟩], dead := [] } (.delete 0 (.lit (.int 1))) =
      { heap := [[.ent (.int 2) (.int 2), .ent (.int 2) (.int 2)] ++ List.replicate m .undef],
        pool := [.val .hsh ⟨0, 0, 2, m + 2⟩, .val .hsh ⟨0, 0, 1, m + 2⟩], dead := [] } := by
    simp [stepHeap, opSem, Op.recv?, HState.look, HState.slice?, hashSem, elemVal, Val.dupKeys, NewSite.key,
      NewSite.method, h1, h2, produce, Idiom.cls, goAppend, Heap.write, modifyNth, overwrite, Heap.read, Heap.cells,
      hi, hc]
  constructor
  · simp only [deleteFirst, List.take, runHeap, List.foldl]
    rw [s1]
    simp [content, Heap.read, Heap.cells]
  · simp only [deleteFirst, List.take, runHeap, List.foldl]
    rw [s1, s2]
    simp [content, Heap.read, Heap.cells]

/-- `[2, 1]`, then `Sort` -/
def sortOnce : List Op := [.lit (.arr [.int 2, .int 1]), .sort 0]

/-- with `Array.Sort` sorting the receiver's slice directly (mutant of DESIGN Appendix E: an `inPlace` write row for
    `Array.Sort`, the result re-using the receiver's slice), the RECEIVER `[2, 1]` reads `[1, 2]` after `Sort` -/
theorem C08_inPlace_breaks (P : Policy) (tbl : Table) (h1 : tbl.writesInPlace "Array.Sort" = true)
    (h2 : (tbl.find "Array.Sort/r0").cls = .reslice ∨ (tbl.find "Array.Sort/r0").cls = .recv) :
    content (runHeap P tbl (sortOnce.take 1)) 0 = some [.int 2, .int 1] ∧
    content (runHeap P tbl (sortOnce.take 2)) 0 = some [.int 1, .int 2] := by
  generalize hm : P.spare "WrapValues/r0" 2 2 = m
  have s1 : stepHeap P tbl {} (.lit (.arr [.int 2, .int 1])) =
      { heap := [[.int 2, .int 1] ++ List.replicate m .undef], pool := [.val .arr ⟨0, 0, 2, m + 2⟩], dead := [] } := by
    simp [stepHeap, opSem, ctor, Val.dupKeys, dupKeysL, Val.len, CtorSite.key, mkFresh, HState.push, hm]
    omega
  have hs : sortVals [.int 2, .int 1] = [.int 1, .int 2] := by rfl
  have s2 : ∃ sl, stepHeap P tbl
      { heap := [[.int 2, .int 1] ++ List.replicate m .undef], pool := [.val .arr ⟨0, 0, 2, m + 2⟩], dead := [] } (.sort 0) =
      { heap := [[.int 1, .int 2] ++ List.replicate m .undef],
        pool := [.val .arr ⟨0, 0, 2, m + 2⟩, .val .arr sl], dead := [] } := by
    rcases h2 with h2 | h2
    · exact ⟨_, by
        simp [stepHeap, opSem, Op.recv?, HState.look, HState.slice?, arrSem, NewSite.key, NewSite.method, h1, h2, produce,
          Heap.write, modifyNth, overwrite, Heap.read, Heap.cells, hs]; rfl⟩
    · exact ⟨_, by
        simp [stepHeap, opSem, Op.recv?, HState.look, HState.slice?, arrSem, NewSite.key, NewSite.method, h1, h2, produce,
          Heap.write, modifyNth, overwrite, Heap.read, Heap.cells, hs]; rfl⟩
  obtain ⟨sl, s2⟩ := s2
  constructor
  · simp only [sortOnce, List.take, runHeap, List.foldl]
    rw [s1]
    simp [content, Heap.read, Heap.cells]
  · simp only [sortOnce, List.take, runHeap, List.foldl]
    rw [s1, s2]
    simp [content, Heap.read, Heap.cells]

/-- the table the extractor produces for that mutant meets the hypotheses of `C08_inPlace_breaks` -/
def tblSortInPlace : Table := ("Array.Sort/w0", .inPlace) :: ("Array.Sort/r0", .resliceReceiver) :: sliceIdioms
example : tblSortInPlace.writesInPlace "Array.Sort" = true ∧ (tblSortInPlace.find "Array.Sort/r0").cls = .reslice := by
  decide

/-- the three unsafe shapes are refuted by the side condition -/
example : ¬ IdiomsSafe (("Hash.Delete/r0", .resliceThenAppend) :: sliceIdioms) := by decide
example : ¬ IdiomsSafe (("Array.Sort/w0", .inPlace) :: ("Array.Sort/r0", .resliceReceiver) :: sliceIdioms) := by decide
example : ¬ IdiomsSafe (("Array.Map/r0", .returnsReceiver) :: sliceIdioms) := by decide
example : ¬ IdiomsSafe (("Array.Add/r0", .unknown "pool.Get()") :: sliceIdioms) := by decide
example : ¬ IdiomsSafe (("Array.Reject/r0", .wrapsArgument) :: sliceIdioms) := by decide

end Pcore.Heap

/-! ### resolving: `types.ResolveDeferred` / `Deferred.Resolve` / `DeferredType.Resolve` -/
namespace Pcore.Immut
open Pcore.Generated

/-- obligation over the regenerated table of field writes: each is a reviewed one -/
theorem C08_field_writes_safe : FieldWritesSafe helperCalls fieldWrites := by decide

/-- ONE resolution leaves the value as it was — same observable content, hence the same walk — keeps its memos sound,
    and answers what the pure function answers -/
theorem C08_resolve_frame (calls : HelperCalls) (tbl : List FieldWrite) (ht : FieldWritesSafe calls tbl) (deep : Bool) (sc : List RV) (v : RV)
    (hm : v.memoOK = true) :
    (resolveW (Writes.ofTable tbl) deep sc v).1.erase = v.erase ∧
    (resolveW (Writes.ofTable tbl) deep sc v).1.render = v.render ∧
    (resolveW (Writes.ofTable tbl) deep sc v).1.memoOK = true ∧
    (resolveW (Writes.ofTable tbl) deep sc v).2 = resolve deep sc v := by
  obtain ⟨h1, h2, h3⟩ := resolveW_frame (Writes.ofTable tbl) (safe_dfrArgs ht) deep sc v hm
  refine ⟨h1, ?_, h2, h3⟩
  rw [← render_erase, h1, render_erase]

/-- resolutions IN SEQUENCE under arbitrary scopes: the value is observably unchanged after all of them, and the n-th
    answer is what the ORIGINAL value resolves to under the n-th scope alone (a function of (value, scope)) -/
theorem C08_resolve_history_free (calls : HelperCalls) (tbl : List FieldWrite) (ht : FieldWritesSafe calls tbl) (v : RV) (hm : v.memoOK = true)
    (scs : List (List RV)) :
    (resolveSeq (Writes.ofTable tbl) v scs).1.render = v.render ∧
    (resolveSeq (Writes.ofTable tbl) v scs).2.map answerText = scs.map (fun sc => answerText (resolve false sc v)) := by
  obtain ⟨h1, _, h3⟩ := resolveSeq_frame (Writes.ofTable tbl) (safe_dfrArgs ht) scs v hm
  constructor
  · rw [← render_erase, h1, render_erase]
  · have := congrArg (List.map answerText) h3
    simpa [List.map_map, Function.comp_def, answerText_eraseR] using this

/-- instantiated on the code as it is now -/
theorem C08_resolve_impl (v : RV) (hm : v.memoOK = true) (scs : List (List RV)) :
    (resolveSeq (Writes.ofTable fieldWrites) v scs).1.render = v.render ∧
    (resolveSeq (Writes.ofTable fieldWrites) v scs).2.map answerText = scs.map (fun sc => answerText (resolve false sc v)) :=
  C08_resolve_history_free helperCalls fieldWrites C08_field_writes_safe v hm scs

/-- `['x', Deferred('$v', [Deferred('$k')])]` -/
def seedList : RV := .arr [.str "x", .dfr "$v" [.dfr "$k" []]]
/-- `{'v' => {'a' => 1, 'b' => 2}, 'k' => k}` -/
def seedScope (k : String) : List RV :=
  [.ent (.str "v") (.hsh [.ent (.str "a") (.int 1), .ent (.str "b") (.int 2)]), .ent (.str "k") (.str k)]

/-- non-vacuity: the hypotheses of the two theorems above hold of the regenerated table and of a value with a nested
    Deferred whose two scopes give different answers -/
example : FieldWritesSafe helperCalls fieldWrites ∧ seedList.memoOK = true ∧
    (resolve false (seedScope "a") seedList).toOption.map RV.render = some "(a (s x78) (i 1))" ∧
    (resolve false (seedScope "b") seedList).toOption.map RV.render = some "(a (s x78) (i 2))" := by
  refine ⟨C08_field_writes_safe, by decide, by decide +kernel, by decide +kernel⟩

/-- a DeferredType WITH parameters inside a list: `[DeferredType(Array, [verif_first(DeferredType(Tuple, [Integer, Any]))])]`
    resolves to `[Array[Tuple[Integer, Any]]]`, its memos are sound before and after, and the frame theorem applies -/
def paramList : RV :=
  .arr [.dty "Array" [.dfr "verif_first" [.dty "Tuple" [.dty "Integer" [] none, .dty "Any" [] none] none]] none]
example : paramList.memoOK = true ∧
    (resolve false [] paramList).toOption.map RV.render =
      some "(a (t x41727261795b5475706c655b496e74656765722c20416e795d5d))" ∧
    (resolveW (Writes.ofTable fieldWrites) false [] paramList).1.render = paramList.render := by
  refine ⟨by decide +kernel, by decide +kernel, ?_⟩
  exact (C08_resolve_frame helperCalls fieldWrites C08_field_writes_safe false [] paramList (by decide +kernel)).2.1

/-- the constructive converse (seeded change C08-s11): when `(*deferred).Resolve` stores the resolved arguments into the
    Deferred, (1) the first answer is still right, (2) the LIST that was resolved holds `Deferred('$v', ['a'])`
    afterwards, (3) a second resolution in a scope with `$k = 'b'` answers the first scope's `['x', 1]`, where (4) the
    value as it was answers `['x', 2]` -/
theorem C08_resolve_memo_breaks (W : Writes) (hW : W.dfrArgs = true) :
    (resolveW W false (seedScope "a") seedList).2 = .ok (.arr [.str "x", .int 1]) ∧
    (resolveW W false (seedScope "a") seedList).1 = .arr [.str "x", .dfr "$v" [.str "a"]] ∧
    (resolveSeq W seedList [seedScope "a", seedScope "b"]).2 = [.ok (.arr [.str "x", .int 1]), .ok (.arr [.str "x", .int 1])] ∧
    resolve false (seedScope "b") seedList = .ok (.arr [.str "x", .int 2]) := by
  obtain ⟨a, b⟩ := W
  simp only at hW
  subst hW
  rcases b with _ | _ | _ <;> exact ⟨rfl, rfl, rfl, rfl⟩

/-- obligation over the regenerated serializer facts: the serializer reads the value only; its memo table (keyed by
    identity) and counters are its own state -/
theorem C08_serializer_reads_only : SerFactsSafe serCalls serWrites := by decide

/-- what the side condition refuses: a mutator called on the value, a write through something that is not the
    serializer's own -/
example : ¬ SerFactsSafe ("PutAll" :: serCalls) serWrites := by decide
example : ¬ SerFactsSafe serCalls (("context.toData", "param") :: serWrites) := by decide
example : ¬ SerFactsSafe serCalls (("context.process", "local-through") :: serWrites) := by decide

/-- obligation over the regenerated mutator calls: outside package types, the exported methods that assign a value's
    fields (Put / PutAll of a MutableHashValue; Resolve / InitFromHash / Initialize / Constructor … of types and objects) are
    called only at the reviewed places — none of them in the serializer, the printer, the loader's lookups -/
theorem C08_mutator_calls_safe : MutatorCallsSafe mutatorNames mutatorCalls := by decide

/-- obligation: the exported accessors that hand out internal storage of a value are the eight reviewed ones (none of a
    list, a map or a hash entry) -/
theorem C08_alias_accessors_reviewed : AliasAccessorsReviewed aliasAccessors := by decide

example : ¬ AliasAccessorsReviewed (("Array.Elements", "elements") :: aliasAccessors) := by decide
example : ¬ MutatorCallsSafe mutatorNames (("serialization/serializer.go", "Put") :: mutatorCalls) := by decide
example : ¬ MutatorCallsSafe (mutatorNames.filter (· != "PutAll")) mutatorCalls := by decide

/-- the table of seeded change C08-s11 -/
def tblMemo : List FieldWrite := ⟨"deferred", "arguments", "deferred.Resolve", .write⟩ :: fieldWrites
example : ¬ FieldWritesSafe helperCalls tblMemo := by decide
example : (Writes.ofTable tblMemo).dfrArgs = true := by decide
/-- the same write extracted into a new unexported helper that `Resolve` calls is refused as well (no caller of the helper
    has a reviewed write of `deferred.arguments`), and the model still executes it -/
example : ¬ FieldWritesSafe (("deferred.resolveArgs", "deferred.Resolve", []) :: helperCalls)
    (⟨"deferred", "arguments", "deferred.resolveArgs", .write⟩ :: fieldWrites) := by decide
example : (Writes.ofTable (⟨"deferred", "arguments", "deferred.resolveArgs", .write⟩ :: fieldWrites)).dfrArgs = true := by
  decide
/-- harmless rewrites the side condition accepts: the DeferredType memo filled in a helper that `Resolve` calls under its
    guard; the key index filled lazily from one more method; a construction write -/
example : FieldWritesSafe (("DeferredType.fill", "DeferredType.Resolve", ["resolved"]) :: helperCalls)
    (⟨"DeferredType", "resolved", "DeferredType.fill", .write⟩ :: fieldWrites) := by decide
example : FieldWritesSafe helperCalls (⟨"Hash", "index", "Hash.Lookup", .lazyFill⟩ :: fieldWrites) := by decide
example : FieldWritesSafe helperCalls (⟨"HashEntry", "value", "CopyEntry", .fresh⟩ :: fieldWrites) := by decide
/-- other writes the white list refuses: a hash entry's value, a cache assigned outside its guard, a Sensitive's value -/
example : ¬ FieldWritesSafe helperCalls (⟨"HashEntry", "value", "HashEntry.Value", .write⟩ :: fieldWrites) := by decide
example : ¬ FieldWritesSafe helperCalls (⟨"Hash", "index", "Hash.Merge", .write⟩ :: fieldWrites) := by decide
example : ¬ FieldWritesSafe helperCalls (⟨"Sensitive", "value", "Sensitive.Unwrap", .reset⟩ :: fieldWrites) := by decide

end Pcore.Immut

/-! ### a MutableHashValue as an object -/
namespace Pcore.Mut
open Pcore.Heap

/-- FULL statement: everything a history over builders hands out — every pool entry other than a builder itself, i.e.
    everything typed as an immutable value — reads at every later time as it read when it was obtained -/
def MutableResultsImmutable (frozen : Bool) : Prop :=
  ∀ (ops : List MOp) (i j j' : Nat), i < j → j ≤ j' → j' ≤ ops.length →
    (mrun frozen (ops.take j)).isResult i = true →
    (mrun frozen (ops.take j')).read i = (mrun frozen (ops.take j)).read i

/-- proved part, for the code as it is: an answer with storage of its own is never affected by what happens later — in
    particular not by `Put`/`PutAll` on the builder it was derived from -/
theorem C08_mutable_results_partial (frozen : Bool) (ops : List MOp) (i j j' : Nat) (hij : i < j) (hjj : j ≤ j')
    (hj : j' ≤ ops.length) (k : Kind) (xs : List Val)
    (hv : (mrun frozen (ops.take j)).pool[i]? = some (.val k xs)) :
    (mrun frozen (ops.take j')).read i = some xs ∧ (mrun frozen (ops.take j)).read i = some xs := by
  have hp := mrun_prefix frozen ops i j j' hij hjj hj
  unfold MState.read
  rw [hp, hv]
  exact ⟨rfl, rfl⟩

/-- the only answers that are NOT values of their own are those of `Delete` / `DeleteAll` / `Unique` / `Entries` -/
theorem C08_mutable_alias_sites (s : MState) (op : MOp) (o : Nat)
    (h : (mstep false s op).pool = s.pool ++ [.alias o]) : op.sameSite = true :=
  (mstep_alias false s op (.alias o) h rfl).1

/-- `m := NewMutableHash(); m.Put('a', 1); u := m.Unique(); m.Put('b', 2)` -/
def aliasHistory : List MOp := [.mnew, .put 0 (.str "a") (.int 1), .unique 0, .put 0 (.str "b") (.int 2)]

/-- non-vacuity of `C08_mutable_results_partial` and of `C08_mutable_alias_sites`: in the history above with `Keys`
    instead of `Unique` entry 2 is a value; with `Unique` it is an alias -/
example : (mrun false ([.mnew, .put 0 (.str "a") (.int 1), .keys 0, .put 0 (.str "b") (.int 2)].take 3)).pool[2]? =
    some (.val .arr [.str "a"]) := by rfl
example : (mstep false (mrun false (aliasHistory.take 2)) (.unique 0)).pool =
    (mrun false (aliasHistory.take 2)).pool ++ [.alias 0] := by rfl

/-- BEFORE the fix 1d333d3 (`frozen := false`): `u` is a result (typed `*Hash`), holds one entry after step 2 and two
    after the second `Put` -/
theorem C08_mutable_alias_changes_before_fix :
    (mrun false (aliasHistory.take 3)).isResult 2 = true ∧
    (mrun false (aliasHistory.take 3)).read 2 = some [.ent (.str "a") (.int 1)] ∧
    (mrun false (aliasHistory.take 4)).read 2 = some [.ent (.str "a") (.int 1), .ent (.str "b") (.int 2)] := by
  refine ⟨by rfl, by rfl, by rfl⟩

/-- … hence the full statement FAILED before the fix (finding C08-mutable-hash-answers-itself, fixed) -/
theorem C08_mutable_alias_refutes_before_fix : ¬ MutableResultsImmutable false := by
  intro h
  have h1 := h aliasHistory 2 3 4 (by decide) (by decide) (by decide) C08_mutable_alias_changes_before_fix.1
  rw [C08_mutable_alias_changes_before_fix.2.1, C08_mutable_alias_changes_before_fix.2.2] at h1
  have := congrArg (Option.map List.length) h1
  simp at this

/-- MAIN STATEMENT, for the code as it is now (the four sites answer `hv.freeze()`): the full statement holds -/
theorem C08_mutable_frozen_immutable : MutableResultsImmutable true := by
  intro ops i j j' hij hjj hj hres
  unfold MState.isResult at hres
  cases he : (mrun true (ops.take j)).pool[i]? with
  | none => rw [he] at hres; cases hres
  | some e =>
    cases e with
    | val k xs =>
      obtain ⟨h1, h2⟩ := C08_mutable_results_partial true ops i j j' hij hjj hj k xs he
      rw [h1, h2]
    | alias o =>
      have := frozen_no_alias (ops.take j) (.alias o) (List.mem_of_getElem? he)
      cases this
    | obj o => rw [he] at hres; cases hres
    | mark m => rw [he] at hres; cases hres

/-- obligation over the regenerated idiom table: `MutableHashValue` has its own `Delete`, `DeleteAll`, `Entries`, `Unique`,
    each answering fresh storage -/
theorem C08_mutable_sites_frozen : mutFrozen Pcore.Generated.sliceIdioms = true := by decide

/-- the full statement for the behaviour the regenerated table selects (what the driver runs) -/
theorem C08_mutable_impl : MutableResultsImmutable (mutFrozen Pcore.Generated.sliceIdioms) := by
  rw [C08_mutable_sites_frozen]
  exact C08_mutable_frozen_immutable

/-- a table without one of the overrides selects the old behaviour -/
example : mutFrozen (Pcore.Generated.sliceIdioms.filter (fun r => r.1 != "MutableHashValue.Unique/r0")) = false := by
  decide

/-- after the fix the history of the finding leaves `u` alone -/
example : (mrun true (aliasHistory.take 4)).read 2 = some [.ent (.str "a") (.int 1)] ∧
    (mrun true (aliasHistory.take 3)).isResult 2 = true := by
  constructor <;> rfl

end Pcore.Mut
