import Pcore.Proofs.LatMono
import Pcore.Proofs.LatEq
import Pcore.Proofs.LatTransAll
import Pcore.Proofs.LatTransGAll
import Pcore.Proofs.LatTransDMain
import Pcore.Proofs.LatReflAll
import Pcore.Proofs.LatWeakenAll
import Pcore.Proofs.LatCtx
import Pcore.Proofs.LatTransCall
set_option linter.unusedSimpArgs false
/-!
# C03 — Assignability is a preorder, monotone per constructor, consistent with equality

Property (properties.jsonl): for all types: A accepts every type equal to A, including a separately constructed or re-parsed copy, and
equal types accept each other; if A accepts B and B accepts C then A accepts C; and if A accepts B then F[..A..] accepts F[..B..] for
every covariant position (Array element, Hash key and value, Tuple slot, Struct member, Variant member, Optional, NotUndef, Type,
Sensitive, Iterable), widening a size or numeric range never turns acceptance into rejection, Any accepts everything, Variant[..A..]
accepts A, and Optional[A] accepts A and Undef.  Quantifier: all triples of types, all one-hole contexts.

All theorems hold for both settings of the exempt rule (`sfh`), every matcher and every `lower`; they are unbounded (induction on the
weight of the term).  `Ty.WF` = what the constructors guarantee (Struct names pairwise different, case-insensitive Enum values stored
lower-cased); `Ty.NoAlias` / `Ty.NoAliasR` = no built-in recursive alias (Data / RichData) inside the term / at a position the
right-hand decomposition of `GuardedIsAssignable` descends into (Data and RichData themselves are reflexive by the identity shortcut).

Full statement / proved / missing
* reflexivity — `C03_refl` PROVED for every well-formed term without Data/RichData inside (all 32 constructors, any nesting).  A
  separately constructed or re-parsed copy is the same term, so this is "A accepts a copy of A".  `C03_refl_eq` PROVED: types that are
  `Equals` (`tyEq`, the mirror of every `Equals` method) accept each other, also when they are not the same term — permuted
  Variant/Enum/Pattern members, Tuple size given vs implied; also checked on the implementation for every generated pair (`eq-not-asg-*`).
  `C03_refl_all` PROVED: A accepts A for EVERY well-formed type, Data / RichData nested anywhere (the left-weakening principle stopped at
  an alias on the right; `weaken_variant_all` / `weaken_optional_all` do not); likewise `C03_refl_eq_all` (equal types accept each other),
  `C03_variant_all`, `C03_optional_all`, `C03_mono_variant_all`, `C03_mono_optional_all` without the `NoAlias` / `NoAliasR` side conditions.
* laws — `C03_top`, `C03_unit`, `C03_variant`, `C03_optional` PROVED.
* monotonicity — PROVED for every covariant hole the property lists: `C03_mono_array`, `C03_mono_hash_key`, `C03_mono_hash_value`,
  `C03_mono_tuple` (any slot), `C03_mono_struct` (any member's value type), `C03_mono_variant`, `C03_mono_optional`, `C03_mono_notUndef`,
  `C03_mono_type`, `C03_mono_sensitive`, `C03_mono_iterable` (sibling parts reflexive by `C03_refl`).
* widening — PROVED for every range position: `C03_widen_int`, `_float`, `_timespan`, `_string`, `_collection`, `_array`, `_hash`, `_tuple`
  (an explicit Tuple size); `C03_widen_*_all`: the same for EVERY right-hand type (no `NoAliasR`: `left_weaken_all` takes the two aliases as
  extra hypotheses, vacuous for a receiver that rejects Undef).
* every one-hole context — `C03_mono_ctx` PROVED: `asg a b → asg (C.fill a) (C.fill b)` for every context `C` of covariant positions nested
  to any depth, siblings merely well-formed (aliases anywhere); `C03_mono_hash_key_all`, `_hash_value_all`, `_tuple_all`, `_struct_all` are
  the per-hole laws without `NoAlias`.
* transitivity — `C03_trans` is kept as a `def … : Prop`.  It is FALSE of the code: `C03_trans_fails_sfh` (PERMANENT: the by-specification
  Struct-from-Hash rule, known finding C03-trans-struct-from-hash).  The second former counterexample (Iterable had no Struct arm, finding
  C03-trans-iterable) was repaired in /repo: `C03_iterable_struct_repaired`.  `C03_trans_partial` is PROVED, unbounded, for both settings of the rule: on the fragment `Ty.TF` = hereditarily
  no Unit, Struct, Iterable, Data/RichData — i.e. Any, Undef, Default, Scalar, ScalarData, Numeric, Integer, Float, Boolean, Timespan,
  the whole String family (String, String[n,m], String['x'], Enum, Pattern), Regexp, Binary, Collection, Array, TUPLE (stage 2), Hash,
  Variant, Optional, NotUndef (including its fall-through rule), Type, Sensitive, Object, arbitrarily nested — by induction on the summed
  weight of the three terms, decomposing the right, then the middle type exactly as `GuardedIsAssignable` does; Array and Tuple share one
  normal form (`recv_pos`: sizes, then the position loop over the declared types — `[elem]` for an Array, `[Any]` for an untyped Tuple),
  on which the loop is transitive because the bound of the second loop is the smaller one (`tupZip_trans`).  The Tuple stage was NOT
  provable of the original code: Array ⊒ Tuple and Tuple ⊒ Array compared declared types at positions no instance can have, and a typed
  Tuple rejected every untyped Tuple of non-zero size — three genuine transitivity defects, repaired in /repo (1901e0c).
  STAGE 3, `C03_trans_struct_partial` PROVED, unbounded: the same on the fragment `Ty.TS sfh` = `Ty.TF` plus Iterable plus, with the Struct-from-Hash
  rule OFF (`sfh = false`), Struct with members of any nesting, anywhere in the three terms: Struct ⊒ Struct is rewritten as a relation
  between member lists (`struct_recv_iff`: every member the other Struct has is accepted on key optionality and value type, every member
  it lacks is optional, every member of the other Struct is one of the receiver's — the count `structAll = distinctCount`), which composes
  (`struct_trans`); the receiver's size range [#required, #members] includes the accepted Struct's (`struct_sub_size`), which carries
  Collection ⊒ Struct and Hash ⊒ Struct; the member loop of Hash ⊒ Struct composes with Hash ⊒ Hash and with Struct ⊒ Struct
  (`members_trans`).  All three terms well-formed (member names pairwise different).  No case of the Struct rules turned out intransitive
  with the rule off.  ITERABLE is inside the fragment for BOTH settings of the rule (`trG_iterable`, rules as repaired in /repo f8eabd3): on
  Array / Tuple its rule is the position loop without a size test (`recv_iter_pos`), on a Hash it asks about the entry type Tuple[k, v], on
  a Struct about Tuple[String[name], t] of every member, on the String family about String[1,1], on Binary about Integer[0,255]; the
  synthesized entry tuples are lighter than the Hash / Struct member they come from, so the induction hypothesis applies to them
  (`entry_asg`).  With the rule ON a chain Iterable ⊒ Struct ⊒ Hash is a case of the permanent finding (Struct is outside `Ty.TS true`).
  STAGE 4, `C03_trans_alias_partial` PROVED, unbounded, both settings of the rule: the fragment `Ty.TA sfh` = EVERY type of the model except
  Unit (two-way assignable by definition) — Data and RichData anywhere (receiver, middle, right, nested) — Struct only with the rule off,
  Tuple type lists of int64 length (every Go slice is; needed because the model's `asgToArr` compares a Tuple with `Array[al, 0, MaxInt64]`
  at all positions, the general rule below MaxInt64 only — for an absurdly long Tuple the two differ and transitivity of the MODEL fails).
  The summed weight cannot carry the aliases (`Array[Data]` is heavier than `Data`), so the induction is lexicographic: the weight of the
  left type first (`TransA`), then the rank `vw b + vw c` of the middle / right type, in which the alias' own members `Array[al]`,
  `Hash[key, al]` rank just below the alias (`TransB`); every receiver rule recurses on a lighter left type, only the decompositions of
  the middle / right type and the alias receivers keep it and lower the rank; the two steps that moved the middle type to the left
  (`b ⊒ c ⊒ Undef`) are a lemma of their own (`trans_undef`).  The specialised functions of the model ARE `asg` against the member as a type
  term (`fold_arr`, `fold_hash`, `fold_entry`); an alias' receiver rule is "a scalar member, or `Array[al]`, or `Hash[key, al]` accepts"
  (`recv_alias_split`), and its element steps either lower the rank or have two of the three types coincide (`alias_triple`); the
  unmodelled TypeSet / Deferred members of RichData are the predicates `accTypeSet` / `accDeferred`, monotone along `⊒` (`acc_mono`).
  `C03_trans_rule_off`: with the rule off `asg` is transitive on ALL well-formed types without Unit — the by-specification rule is the
  only source of intransitivity.  Missing: nothing but Unit and, with the rule ON, Struct (permanent).  Transitivity is also checked on the implementation on related triples, sampled
  universe triples and EVERY triple of the positional universe (`lat.Positional`).
* second-tier types brought inside the model in the extension round: Timestamp[min,max], Iterator[T], Runtime[runtime, name, pattern] are in ALL
  fragments (every theorem above covers them); CALLABLE[params, return, block] is inside the model (rule `callAcc`: parameters and block compared in
  reverse, absent parts) with reflexivity (`C03_refl_all`), equal types (`C03_refl_eq_all`), laws and monotonicity covering it, but OUTSIDE the
  alias fragments of transitivity: `C03_trans_fails_callable` (known finding C03-trans-callable-top — a genuine intransitivity through the default Callable);
  `C03_trans_callable_partial` PROVED: transitivity on the stage-3 fragment plus every Callable that is the default or has a parameter list — i.e.
  everywhere except the shape of the finding (Proofs/LatTransCall.lean, the stage-3 induction re-run over the larger fragment).
* no fault: `asg` and `tyEq` are total functions without a fault constructor; the nil dereference of `Tuple.Equals` was repaired (5e6c612).
-/
namespace Pcore.Lat

/-- A accepts A (hence every separately built or re-parsed copy, which is the same term) -/
theorem C03_refl (cfg : Cfg) (sfh : Bool) (a : Ty) (hwf : Ty.WF cfg a) (hna : a.NoAlias) : asg cfg sfh a a = true :=
  asg_refl cfg sfh a.w a (Nat.le_refl _) hwf hna

/-- equal types accept each other: `tyEq` mirrors every `Equals` method (Variant / Enum / Pattern as equal length + inclusion both ways,
    Tuple by the given-or-implied size, Struct member by member), so this covers types that are equal without being the same term -/
theorem C03_refl_eq (cfg : Cfg) (sfh : Bool) (a b : Ty) (wa : Ty.WF cfg a) (wb : Ty.WF cfg b) (na : a.NoAlias) (nb : b.NoAlias)
    (h : tyEq a b = true) : asg cfg sfh a b = true ∧ asg cfg sfh b a = true :=
  eq_asg cfg sfh (a.w + b.w) a b (Nat.le_refl _) wa wb na nb h

/-- non-vacuity: equal but different terms (permuted Variant members, Tuple size given vs implied) -/
example : tyEq (.variant [.str, .tuple [.int ⟨0, 1⟩] none]) (.variant [.tuple [.int ⟨0, 1⟩] (some ⟨1, 1⟩), .str]) = true := by
  simp [tyEq, tyEqIncl, tyEqAny, tyEqL, tupleSize, Rng.exact]

theorem C03_top (cfg : Cfg) (sfh : Bool) (b : Ty) : asg cfg sfh .any b = true := asg_any_l cfg sfh b
theorem C03_unit (cfg : Cfg) (sfh : Bool) (a : Ty) : asg cfg sfh a .unit = true := asg_unit_r cfg sfh a

theorem C03_variant (cfg : Cfg) (sfh : Bool) (ts : List Ty) (a : Ty) (hm : a ∈ ts) (hwf : Ty.WF cfg a) (hna : a.NoAlias) :
    asg cfg sfh (.variant ts) a = true :=
  weaken_variant cfg sfh a ts hm a (Ty.NoAlias.noAliasR a.w a (Nat.le_refl _) hna) (C03_refl cfg sfh a hwf hna)

theorem C03_optional (cfg : Cfg) (sfh : Bool) (a : Ty) (hwf : Ty.WF cfg a) (hna : a.NoAlias) :
    asg cfg sfh (.optional a) a = true ∧ asg cfg sfh (.optional a) .undef = true :=
  ⟨weaken_optional cfg sfh a a (Ty.NoAlias.noAliasR a.w a (Nat.le_refl _) hna) (C03_refl cfg sfh a hwf hna),
   asg_optional_undef cfg sfh a⟩

/-! ### reflexivity and the Variant / Optional laws with the built-in aliases nested anywhere -/
/-- A accepts A for EVERY well-formed type: Data / RichData may be nested anywhere (below Variant / Optional / NotUndef included) -/
theorem C03_refl_all (cfg : Cfg) (sfh : Bool) (a : Ty) (hwf : Ty.WF cfg a) : asg cfg sfh a a = true :=
  asg_refl_all cfg sfh a.w a (Nat.le_refl _) hwf

/-- equal types (`tyEq`, the mirror of every `Equals` method) accept each other — every well-formed pair, aliases nested anywhere -/
theorem C03_refl_eq_all (cfg : Cfg) (sfh : Bool) (a b : Ty) (wa : Ty.WF cfg a) (wb : Ty.WF cfg b)
    (h : tyEq a b = true) : asg cfg sfh a b = true ∧ asg cfg sfh b a = true :=
  eq_asg_all cfg sfh (a.w + b.w) a b (Nat.le_refl _) wa wb h

/-- non-vacuity: equal but different terms with an alias inside (permuted Variant members) -/
example : tyEq (.variant [.data, .tuple [.richData] none]) (.variant [.tuple [.richData] (some ⟨1, 1⟩), .data]) = true := by
  simp [tyEq, tyEqIncl, tyEqAny, tyEqL, tupleSize, Rng.exact]

theorem C03_variant_all (cfg : Cfg) (sfh : Bool) (ts : List Ty) (a : Ty) (hm : a ∈ ts) (hwf : Ty.WF cfg a) :
    asg cfg sfh (.variant ts) a = true := wv_all cfg sfh hm (C03_refl_all cfg sfh a hwf)

theorem C03_optional_all (cfg : Cfg) (sfh : Bool) (a : Ty) (hwf : Ty.WF cfg a) :
    asg cfg sfh (.optional a) a = true ∧ asg cfg sfh (.optional a) .undef = true :=
  ⟨wo_all cfg sfh (C03_refl_all cfg sfh a hwf), asg_optional_undef cfg sfh a⟩

/-- the two monotonicity laws that went through the left-weakening principle, now for any `b` (an alias on the right included) -/
theorem C03_mono_variant_all (cfg : Cfg) (sfh : Bool) (pre post : List Ty) (a b : Ty)
    (hsib : ∀ t ∈ pre ++ post, Ty.WF cfg t) (h : asg cfg sfh a b = true) :
    asg cfg sfh (.variant (pre ++ a :: post)) (.variant (pre ++ b :: post)) = true :=
  mono_variant_all cfg sfh pre post a b (fun t ht => C03_refl_all cfg sfh t (hsib t ht)) h
theorem C03_mono_optional_all (cfg : Cfg) (sfh : Bool) (a b : Ty) (h : asg cfg sfh a b = true) :
    asg cfg sfh (.optional a) (.optional b) = true := mono_optional_all cfg sfh a b h

/-- non-vacuity: a well-formed type with both aliases below a Variant below an Optional -/
example (cfg : Cfg) : Ty.WF cfg (.optional (.variant [.data, .array .richData Rng.pos, .struct [("a", true, .data)]])) := by
  simp [Ty.WF]

/-! ### monotone per covariant hole -/
theorem C03_mono_array (cfg : Cfg) (sfh : Bool) (a b : Ty) (r : Rng) (h : asg cfg sfh a b = true) :
    asg cfg sfh (.array a r) (.array b r) = true := mono_array cfg sfh a b r h
theorem C03_mono_hash_key (cfg : Cfg) (sfh : Bool) (k k' v : Ty) (r : Rng) (hwf : Ty.WF cfg v) (hna : v.NoAlias)
    (h : asg cfg sfh k k' = true) : asg cfg sfh (.hash k v r) (.hash k' v r) = true :=
  mono_hash_key cfg sfh k k' v r (C03_refl cfg sfh v hwf hna) h
theorem C03_mono_hash_value (cfg : Cfg) (sfh : Bool) (k v v' : Ty) (r : Rng) (hwf : Ty.WF cfg k) (hna : k.NoAlias)
    (h : asg cfg sfh v v' = true) : asg cfg sfh (.hash k v r) (.hash k v' r) = true :=
  mono_hash_value cfg sfh k v v' r (C03_refl cfg sfh k hwf hna) h
theorem C03_mono_variant (cfg : Cfg) (sfh : Bool) (pre post : List Ty) (a b : Ty) (hb : b.NoAliasR)
    (hsib : ∀ t ∈ pre ++ post, Ty.WF cfg t ∧ t.NoAlias) (h : asg cfg sfh a b = true) :
    asg cfg sfh (.variant (pre ++ a :: post)) (.variant (pre ++ b :: post)) = true :=
  mono_variant cfg sfh pre post a b hb
    (fun t ht => ⟨Ty.NoAlias.noAliasR t.w t (Nat.le_refl _) (hsib t ht).2, C03_refl cfg sfh t (hsib t ht).1 (hsib t ht).2⟩) h
theorem C03_mono_tuple (cfg : Cfg) (sfh : Bool) (pre post : List Ty) (a b : Ty) (g : Option Rng)
    (hsib : ∀ t ∈ pre ++ post, Ty.WF cfg t ∧ t.NoAlias) (h : asg cfg sfh a b = true) :
    asg cfg sfh (.tuple (pre ++ a :: post) g) (.tuple (pre ++ b :: post) g) = true :=
  mono_tuple cfg sfh pre post a b g (fun t ht => C03_refl cfg sfh t (hsib t ht).1 (hsib t ht).2) h
theorem C03_mono_struct (cfg : Cfg) (sfh : Bool) (pre post : List Member) (n : String) (o : Bool) (t t' : Ty)
    (hnd : NamesNodup (pre ++ (n, o, t) :: post))
    (hsib : ∀ m ∈ pre ++ post, Ty.WF cfg m.2.2 ∧ m.2.2.NoAlias) (h : asg cfg sfh t t' = true) :
    asg cfg sfh (.struct (pre ++ (n, o, t) :: post)) (.struct (pre ++ (n, o, t') :: post)) = true :=
  mono_struct cfg sfh pre post n o t t' hnd (fun m hm => C03_refl cfg sfh m.2.2 (hsib m hm).1 (hsib m hm).2) h
theorem C03_mono_optional (cfg : Cfg) (sfh : Bool) (a b : Ty) (hb : b.NoAliasR) (h : asg cfg sfh a b = true) :
    asg cfg sfh (.optional a) (.optional b) = true := mono_optional cfg sfh a b hb h
theorem C03_mono_notUndef (cfg : Cfg) (sfh : Bool) (a b : Ty) (h : asg cfg sfh a b = true) :
    asg cfg sfh (.notUndef a) (.notUndef b) = true := mono_notUndef cfg sfh a b h
theorem C03_mono_type (cfg : Cfg) (sfh : Bool) (a b : Ty) (h : asg cfg sfh a b = true) :
    asg cfg sfh (.typ a) (.typ b) = true := mono_typ cfg sfh a b h
theorem C03_mono_sensitive (cfg : Cfg) (sfh : Bool) (a b : Ty) (h : asg cfg sfh a b = true) :
    asg cfg sfh (.sensitive a) (.sensitive b) = true := mono_sensitive cfg sfh a b h
theorem C03_mono_iterable (cfg : Cfg) (sfh : Bool) (a b : Ty) (h : asg cfg sfh a b = true) :
    asg cfg sfh (.iterable a) (.iterable b) = true := mono_iterable cfg sfh a b h
/-- Iterator[T] (inside the model since the extension round) is one more covariant hole; it is also a constructor of `Ctx` (`C03_mono_ctx`) -/
theorem C03_mono_iterator (cfg : Cfg) (sfh : Bool) (a b : Ty) (h : asg cfg sfh a b = true) :
    asg cfg sfh (.iterator a) (.iterator b) = true := mono_iterator cfg sfh a b h

/-! ### widening a range in the receiver never turns acceptance into rejection -/
theorem C03_widen_int (cfg : Cfg) (sfh : Bool) (r r' : Rng) (hr : r'.sub r = true) (b : Ty) (hb : b.NoAliasR)
    (h : asg cfg sfh (.int r) b = true) : asg cfg sfh (.int r') b = true := widen_int cfg sfh r r' hr b hb h
theorem C03_widen_float (cfg : Cfg) (sfh : Bool) (lo hi lo' hi' : Fl) (hlo : lo' ≤ lo) (hhi : hi ≤ hi') (b : Ty) (hb : b.NoAliasR)
    (h : asg cfg sfh (.float lo hi) b = true) : asg cfg sfh (.float lo' hi') b = true :=
  widen_float cfg sfh lo hi lo' hi' hlo hhi b hb h
theorem C03_widen_timespan (cfg : Cfg) (sfh : Bool) (r r' : Rng) (hr : r'.sub r = true) (b : Ty) (hb : b.NoAliasR)
    (h : asg cfg sfh (.tspan r) b = true) : asg cfg sfh (.tspan r') b = true := widen_tspan cfg sfh r r' hr b hb h
theorem C03_widen_string (cfg : Cfg) (sfh : Bool) (r r' : Rng) (hr : r'.sub r = true) (b : Ty) (hb : b.NoAliasR)
    (h : asg cfg sfh (.strSz r) b = true) : asg cfg sfh (.strSz r') b = true := widen_strSz cfg sfh r r' hr b hb h
theorem C03_widen_collection (cfg : Cfg) (sfh : Bool) (r r' : Rng) (hr : r'.sub r = true) (b : Ty) (hb : b.NoAliasR)
    (h : asg cfg sfh (.coll r) b = true) : asg cfg sfh (.coll r') b = true := widen_coll cfg sfh r r' hr b hb h
theorem C03_widen_array (cfg : Cfg) (sfh : Bool) (e : Ty) (r r' : Rng) (hr : r'.sub r = true) (b : Ty) (hb : b.NoAliasR)
    (h : asg cfg sfh (.array e r) b = true) : asg cfg sfh (.array e r') b = true := widen_array cfg sfh e r r' hr b hb h
theorem C03_widen_tuple (cfg : Cfg) (sfh : Bool) (ts : List Ty) (r r' : Rng) (hr : r'.sub r = true) (b : Ty) (hb : b.NoAliasR)
    (h : asg cfg sfh (.tuple ts (some r)) b = true) : asg cfg sfh (.tuple ts (some r')) b = true :=
  widen_tuple cfg sfh ts r r' hr b hb h
theorem C03_widen_hash (cfg : Cfg) (sfh : Bool) (k v : Ty) (r r' : Rng) (hr : r'.sub r = true) (b : Ty) (hb : b.NoAliasR)
    (h : asg cfg sfh (.hash k v r) b = true) : asg cfg sfh (.hash k v r') b = true := widen_hash cfg sfh k v r r' hr b hb h

/-! ### the laws above WITHOUT the `NoAlias` / `NoAliasR` side conditions (extension round) -/
/-- monotone per hole with siblings that may hold the aliases: reflexivity of the sibling is `C03_refl_all` -/
theorem C03_mono_hash_key_all (cfg : Cfg) (sfh : Bool) (k k' v : Ty) (r : Rng) (hwf : Ty.WF cfg v)
    (h : asg cfg sfh k k' = true) : asg cfg sfh (.hash k v r) (.hash k' v r) = true :=
  mono_hash_key cfg sfh k k' v r (C03_refl_all cfg sfh v hwf) h
theorem C03_mono_hash_value_all (cfg : Cfg) (sfh : Bool) (k v v' : Ty) (r : Rng) (hwf : Ty.WF cfg k)
    (h : asg cfg sfh v v' = true) : asg cfg sfh (.hash k v r) (.hash k v' r) = true :=
  mono_hash_value cfg sfh k v v' r (C03_refl_all cfg sfh k hwf) h
theorem C03_mono_tuple_all (cfg : Cfg) (sfh : Bool) (pre post : List Ty) (a b : Ty) (g : Option Rng)
    (hsib : ∀ t ∈ pre ++ post, Ty.WF cfg t) (h : asg cfg sfh a b = true) :
    asg cfg sfh (.tuple (pre ++ a :: post) g) (.tuple (pre ++ b :: post) g) = true :=
  mono_tuple cfg sfh pre post a b g (fun t ht => C03_refl_all cfg sfh t (hsib t ht)) h
theorem C03_mono_struct_all (cfg : Cfg) (sfh : Bool) (pre post : List Member) (n : String) (o : Bool) (t t' : Ty)
    (hnd : NamesNodup (pre ++ (n, o, t) :: post))
    (hsib : ∀ m ∈ pre ++ post, Ty.WF cfg m.2.2) (h : asg cfg sfh t t' = true) :
    asg cfg sfh (.struct (pre ++ (n, o, t) :: post)) (.struct (pre ++ (n, o, t') :: post)) = true :=
  mono_struct cfg sfh pre post n o t t' hnd (fun m hm => C03_refl_all cfg sfh m.2.2 (hsib m hm)) h

/-- MONOTONE ALONG EVERY ONE-HOLE CONTEXT (the property's quantifier): `Ctx` = any nesting of the covariant positions (Array element,
    Hash key / value, Tuple slot, Struct member, Variant member, Optional, NotUndef, Type, Sensitive, Iterable); the sibling types along the
    path are well-formed (aliases allowed anywhere), Struct member names on the path pairwise different; `a`, `b` arbitrary -/
theorem C03_mono_ctx (cfg : Cfg) (sfh : Bool) (C : Ctx) (a b : Ty) (hC : C.WF cfg) (h : asg cfg sfh a b = true) :
    asg cfg sfh (C.fill a) (C.fill b) = true := mono_ctx cfg sfh a b h C hC

/-- non-vacuity: the context Array[Struct[{k => Variant[Data, Tuple[String, □]]}], 0, 5] is well-formed, and filled with Integer it is
    the expected type -/
example (cfg : Cfg) :
    (Ctx.array (.struct [] "k" false (.variant [.data] (.tuple [.str] .hole [] none) []) [("z", true, .richData)]) ⟨0, 5⟩).WF cfg ∧
    (Ctx.array (.struct [] "k" false (.variant [.data] (.tuple [.str] .hole [] none) []) [("z", true, .richData)]) ⟨0, 5⟩).fill (.int Rng.all)
      = .array (.struct [("k", false, .variant [.data, .tuple [.str, .int Rng.all] none]), ("z", true, .richData)]) ⟨0, 5⟩ := by
  constructor
  · simp [Ctx.WF, Ty.WF]
  · simp [Ctx.fill]

/-- widening a range in the receiver never turns acceptance into rejection — for EVERY right-hand type `b` (Data / RichData, or a Variant /
    Optional / NotUndef holding them, included): a range-carrying receiver rejects Undef, hence both aliases, so the alias cases of the
    left-weakening principle are vacuous (`left_weaken_nu`) -/
theorem C03_widen_int_all (cfg : Cfg) (sfh : Bool) (r r' : Rng) (hr : r'.sub r = true) (b : Ty)
    (h : asg cfg sfh (.int r) b = true) : asg cfg sfh (.int r') b = true := widen_int_all cfg sfh r r' hr b h
theorem C03_widen_float_all (cfg : Cfg) (sfh : Bool) (lo hi lo' hi' : Fl) (hlo : lo' ≤ lo) (hhi : hi ≤ hi') (b : Ty)
    (h : asg cfg sfh (.float lo hi) b = true) : asg cfg sfh (.float lo' hi') b = true :=
  widen_float_all cfg sfh lo hi lo' hi' hlo hhi b h
theorem C03_widen_timespan_all (cfg : Cfg) (sfh : Bool) (r r' : Rng) (hr : r'.sub r = true) (b : Ty)
    (h : asg cfg sfh (.tspan r) b = true) : asg cfg sfh (.tspan r') b = true := widen_tspan_all cfg sfh r r' hr b h
theorem C03_widen_string_all (cfg : Cfg) (sfh : Bool) (r r' : Rng) (hr : r'.sub r = true) (b : Ty)
    (h : asg cfg sfh (.strSz r) b = true) : asg cfg sfh (.strSz r') b = true := widen_strSz_all cfg sfh r r' hr b h
theorem C03_widen_collection_all (cfg : Cfg) (sfh : Bool) (r r' : Rng) (hr : r'.sub r = true) (b : Ty)
    (h : asg cfg sfh (.coll r) b = true) : asg cfg sfh (.coll r') b = true := widen_coll_all cfg sfh r r' hr b h
theorem C03_widen_array_all (cfg : Cfg) (sfh : Bool) (e : Ty) (r r' : Rng) (hr : r'.sub r = true) (b : Ty)
    (h : asg cfg sfh (.array e r) b = true) : asg cfg sfh (.array e r') b = true := widen_array_all cfg sfh e r r' hr b h
theorem C03_widen_tuple_all (cfg : Cfg) (sfh : Bool) (ts : List Ty) (r r' : Rng) (hr : r'.sub r = true) (b : Ty)
    (h : asg cfg sfh (.tuple ts (some r)) b = true) : asg cfg sfh (.tuple ts (some r')) b = true :=
  widen_tuple_all cfg sfh ts r r' hr b h
theorem C03_widen_hash_all (cfg : Cfg) (sfh : Bool) (k v : Ty) (r r' : Rng) (hr : r'.sub r = true) (b : Ty)
    (h : asg cfg sfh (.hash k v r) b = true) : asg cfg sfh (.hash k v r') b = true := widen_hash_all cfg sfh k v r r' hr b h

/-- non-vacuity: a right-hand side the old laws excluded — Array[Integer[0,9], 1, 2] ⊒ NotUndef[Variant[…]] is not needed; the simplest
    one: `Collection[0,5] ⊒ Variant[Array[Data,1,2], Hash[String,RichData,0,3]]` and `[0,5] ⊆ [0,9]` -/
example (cfg : Cfg) :
    asg cfg true (.coll ⟨0, 5⟩) (.variant [.array .data ⟨1, 2⟩, .hash .str .richData ⟨0, 3⟩]) = true ∧ Rng.sub ⟨0, 9⟩ ⟨0, 5⟩ = true := by
  constructor
  · simp [asg, asgRecv, asgAllR, sameNullary, Rng.sub]
  · simp [Rng.sub]

/-! ### non-vacuity -/
def exT : Ty := .variant [.tuple [.int ⟨0, 5⟩, .optional .str] none, .struct [("a", false, .enum ["x"] true)]]
example (cfg : Cfg) (h : cfg.lower "x" = "x") : Ty.WF cfg exT ∧ exT.NoAlias := by
  constructor <;> simp [exT, Ty.WF, Ty.NoAlias, h]
example (cfg : Cfg) : asg cfg true (.int ⟨0, 9⟩) (.int ⟨1, 2⟩) = true ∧ (Rng.sub ⟨-5, 20⟩ ⟨0, 9⟩ = true) := by
  constructor
  · simp [asg, asgRecv, sameNullary, Rng.sub]
  · simp [Rng.sub]

/-! ### transitivity: proved on the fragment `Ty.TF` (Tuples included); the full statement, and why it is false of the code -/
theorem C03_trans_partial (cfg : Cfg) (sfh : Bool) (hl : ∀ s, (cfg.lower s).length = s.length) (a b c : Ty)
    (fa : a.TF) (fb : b.TF) (fc : c.TF) (wb : Ty.WF cfg b) (wc : Ty.WF cfg c)
    (h1 : asg cfg sfh a b = true) (h2 : asg cfg sfh b c = true) : asg cfg sfh a c = true :=
  trans_all cfg sfh hl (a.w + b.w + c.w) a b c (Nat.le_refl _) ⟨fa, fb, fc, wb, wc⟩ h1 h2

/-- non-vacuity: a chain inside the fragment with both premises true -/
example (cfg : Cfg) :
    (Ty.optional (.variant [.scalar, .array .any Rng.pos])).TF ∧ (Ty.variant [.enum ["a"] false, .undef]).TF ∧
    asg cfg true (.optional (.variant [.scalar, .array .any Rng.pos])) (.variant [.enum ["a"] false, .undef]) = true ∧
    asg cfg true (.variant [.enum ["a"] false, .undef]) (.strVal "a") = true := by
  refine ⟨by simp [Ty.TF], by simp [Ty.TF], ?_, ?_⟩
  · simp [asg, asgRecv, asgAnyL, asgAllR, sameNullary, isStringFamily]
  · simp [asg, asgRecv, asgAnyL, sameNullary, enumInst]

/-- non-vacuity with Tuples, on the chain that the original code broke: Array[Integer[0,9],0,1] ⊒ Tuple[Integer[0,9]] ⊒
    Tuple[Integer[0,9],String,1,1] (the String sits at a position no instance has) -/
example (cfg : Cfg) :
    (Ty.tuple [.int ⟨0, 9⟩, .str] (some ⟨1, 1⟩)).TF ∧
    asg cfg true (.array (.int ⟨0, 9⟩) ⟨0, 1⟩) (.tuple [.int ⟨0, 9⟩] none) = true ∧
    asg cfg true (.tuple [.int ⟨0, 9⟩] none) (.tuple [.int ⟨0, 9⟩, .str] (some ⟨1, 1⟩)) = true ∧
    asg cfg true (.array (.int ⟨0, 9⟩) ⟨0, 1⟩) (.tuple [.int ⟨0, 9⟩, .str] (some ⟨1, 1⟩)) = true := by
  refine ⟨by simp [Ty.TF], ?_, ?_, ?_⟩ <;>
    simp [asg, asgRecv, tupZip, sameNullary, tupleSize, Rng.exact, Rng.sub]

/-! ### transitivity, stage 3: Iterable, and Struct when the Struct-from-Hash rule is off, inside the fragment -/
/-- Transitivity on the fragment `Ty.TS sfh` = `Ty.TF` plus Iterable plus, for `sfh = false`, Struct with members of any nesting: Struct ⊒ Struct
    (member lookup by name, optional / required keys, value types, the count of matched members), Collection / Hash ⊒ Struct (size
    range `[#required, #members]`, the member loop through key and value type), Variant / Optional / NotUndef / Any / Type[..] around
    them; a Struct accepts nothing but Structs when the rule is off; Iterable[x] ⊒ Array / Tuple / Hash / Struct / String family /
    Binary / Iterable.  For `sfh = true` the fragment has no Struct: `C03_trans_partial` plus Iterable. -/
theorem C03_trans_struct_partial (cfg : Cfg) (sfh : Bool) (hl : ∀ s, (cfg.lower s).length = s.length) (a b c : Ty)
    (fa : a.TS sfh) (fb : b.TS sfh) (fc : c.TS sfh) (wa : Ty.WF cfg a) (wb : Ty.WF cfg b) (wc : Ty.WF cfg c)
    (h1 : asg cfg sfh a b = true) (h2 : asg cfg sfh b c = true) : asg cfg sfh a c = true :=
  transG cfg sfh hl a b c fa fb fc wa wb wc h1 h2

/-- non-vacuity: Hash[String, Variant[Integer,String], 1, 2] ⊒ Struct[{a=>Integer, Optional[b]=>String}] ⊒ Struct[{a=>Integer[0,9]}]
    (the optional member is dropped, the required one narrowed), all three in the fragment and well-formed -/
example (cfg : Cfg) :
    (Ty.hash .str (.variant [.int Rng.all, .str]) ⟨1, 2⟩).TS false ∧
    (Ty.struct [("a", false, .int Rng.all), ("b", true, .str)]).TS false ∧ (Ty.struct [("a", false, .int ⟨0, 9⟩)]).TS false ∧
    Ty.WF cfg (.struct [("a", false, .int Rng.all), ("b", true, .str)]) ∧
    asg cfg false (.hash .str (.variant [.int Rng.all, .str]) ⟨1, 2⟩) (.struct [("a", false, .int Rng.all), ("b", true, .str)]) = true ∧
    asg cfg false (.struct [("a", false, .int Rng.all), ("b", true, .str)]) (.struct [("a", false, .int ⟨0, 9⟩)]) = true := by
  refine ⟨by simp [Ty.TS], by simp [Ty.TS], by simp [Ty.TS], by simp [Ty.WF], ?_, ?_⟩
  · simp [asg, asgRecv, asgAnyL, sameNullary, asgMembers, structSize, Rng.sub, Rng.all, isStringFamily]
  · simp [asg, asgRecv, sameNullary, structAll, structMember, distinctCount, Rng.sub, Rng.all, I64.min, I64.max]

/-- non-vacuity, nested: Variant[Struct[{a=>Struct[{x=>Scalar}]}], Undef] ⊒ Optional[Struct[{a=>Struct[{x=>String}]}]] ⊒
    Struct[{a=>Struct[{x=>Enum['p']}]}] -/
example (cfg : Cfg) :
    (Ty.variant [.struct [("a", false, .struct [("x", false, .scalar)])], .undef]).TS false ∧
    asg cfg false (.variant [.struct [("a", false, .struct [("x", false, .scalar)])], .undef])
      (.optional (.struct [("a", false, .struct [("x", false, .str)])])) = true ∧
    asg cfg false (.optional (.struct [("a", false, .struct [("x", false, .str)])]))
      (.struct [("a", false, .struct [("x", false, .enum ["p"] false)])]) = true := by
  refine ⟨by simp [Ty.TS], ?_, ?_⟩
  · simp [asg, asgRecv, asgAnyL, sameNullary, structAll, structMember, distinctCount, isStringFamily]
  · simp [asg, asgRecv, asgAnyL, sameNullary, structAll, structMember, distinctCount, isStringFamily]

/-- non-vacuity with Iterable (in the fragment for both settings of the rule), on the chain that was the second former counterexample:
    Iterable[Tuple[Scalar, Any]] ⊒ Hash[String, Integer, 0, 5] ⊒ Struct[{a=>Integer[0,9]}] (rule off), and with the rule on
    Iterable[Scalar] ⊒ Array[String, 0, 3] ⊒ Tuple[Enum['a'], String[1,1]] -/
example (cfg : Cfg) :
    (Ty.iterable (.tuple [.scalar, .any] none)).TS false ∧ (Ty.iterable .scalar).TS true ∧
    asg cfg false (.iterable (.tuple [.scalar, .any] none)) (.hash .str (.int Rng.all) ⟨0, 5⟩) = true ∧
    asg cfg false (.hash .str (.int Rng.all) ⟨0, 5⟩) (.struct [("a", false, .int ⟨0, 9⟩)]) = true ∧
    asg cfg true (.iterable .scalar) (.array .str ⟨0, 3⟩) = true ∧
    asg cfg true (.array .str ⟨0, 3⟩) (.tuple [.enum ["a"] false, .strSz ⟨1, 1⟩] none) = true := by
  refine ⟨by simp [Ty.TS], by simp [Ty.TS], ?_, ?_, ?_, ?_⟩
  · simp [asg, asgRecv, tupZip, sameNullary, tupleSize, Rng.exact, Rng.sub, isStringFamily]
  · simp [asg, asgRecv, sameNullary, asgMembers, structSize, Rng.sub, Rng.all, I64.min, I64.max, isStringFamily]
  · simp [asg, asgRecv, sameNullary, isStringFamily]
  · simp [asg, asgRecv, tupZip, sameNullary, tupleSize, Rng.exact, Rng.sub, isStringFamily]

/-! ### transitivity, stage 4: the built-in recursive aliases Data / RichData inside the fragment -/
/-- Transitivity on the fragment `Ty.TA sfh`: EVERY type of the model except Unit (hereditarily), with Struct only when the
    Struct-from-Hash rule is off, Tuple type lists of int64 length.  Data and RichData may stand anywhere — as the receiver (one of the
    scalar members accepts, or the alias' own `Array[al]` / `Hash[key, al]` member does), in the middle, on the right (every member is
    accepted; the unmodelled TypeSet / Deferred members of RichData as `accTypeSet` / `accDeferred`), nested.  The induction is
    lexicographic (weight of the left type, then a rank of the middle and right type in which the alias' own members rank below the
    alias); the model's specialised `asgToArr` / `asgToHash` / `asgToEntry` are shown to BE `asg` against the member written as a type
    term (`fold_arr`, `fold_hash`, `fold_entry`) — which needs the int64 bound on Tuple lengths: the model compares a Tuple with
    `Array[al, 0, MaxInt64]` at ALL its positions, the general Tuple-vs-Array rule only below MaxInt64. -/
theorem C03_trans_alias_partial (cfg : Cfg) (sfh : Bool) (hl : ∀ s, (cfg.lower s).length = s.length) (a b c : Ty)
    (fa : a.TA sfh) (fb : b.TA sfh) (fc : c.TA sfh) (wa : Ty.WF cfg a) (wb : Ty.WF cfg b) (wc : Ty.WF cfg c)
    (h1 : asg cfg sfh a b = true) (h2 : asg cfg sfh b c = true) : asg cfg sfh a c = true :=
  transD cfg sfh hl a b c fa fb fc wa wb wc h1 h2

/-- the end state for the rule-off relation: `asg false` is transitive on all well-formed types without Unit (Tuple lists of int64
    length) — the by-specification Struct-from-Hash rule is the ONLY source of intransitivity in the model (`C03_trans_fails_sfh`) -/
theorem C03_trans_rule_off (cfg : Cfg) (hl : ∀ s, (cfg.lower s).length = s.length) (a b c : Ty)
    (fa : a.TA false) (fb : b.TA false) (fc : c.TA false) (wa : Ty.WF cfg a) (wb : Ty.WF cfg b) (wc : Ty.WF cfg c)
    (h1 : asg cfg false a b = true) (h2 : asg cfg false b c = true) : asg cfg false a c = true :=
  C03_trans_alias_partial cfg false hl a b c fa fb fc wa wb wc h1 h2

/-- the one-step unfolding of Data as a type term -/
def dataUnfolded : Ty := .variant [.scalarData, .undef, .array .data Rng.pos, .hash .str .data Rng.pos]

/-- non-vacuity with the aliases (rule on): the unfolded Data ⊒ Data ⊒ Array[Integer[0,9], 0, 5] -/
example (cfg : Cfg) :
    dataUnfolded.TA true ∧ Ty.data.TA true ∧ (Ty.array (.int ⟨0, 9⟩) ⟨0, 5⟩).TA true ∧
    asg cfg true dataUnfolded .data = true ∧ asg cfg true .data (.array (.int ⟨0, 9⟩) ⟨0, 5⟩) = true ∧
    asg cfg true dataUnfolded (.array (.int ⟨0, 9⟩) ⟨0, 5⟩) = true := by
  refine ⟨by simp [dataUnfolded, Ty.TA], by simp [Ty.TA], by simp [Ty.TA], ?_, ?_, ?_⟩
  · simp [dataUnfolded, asg, asgRecv, asgAnyL, asgToArr, asgToArrAny, asgToHash, asgToHashAny, sameNullary, isStringFamily, floatAll,
      Rng.sub, Rng.pos, Alias.ty, Alias.key]
  · simp [asg, asgRecv, sameNullary, isStringFamily, floatAll, Rng.sub, Rng.pos, Rng.all, I64.max, I64.min]
  · simp [dataUnfolded, asg, asgRecv, asgAnyL, sameNullary, isStringFamily, floatAll, Rng.sub, Rng.pos, Rng.all, I64.max, I64.min]

/-- non-vacuity (rule off, RichData, an alias in the middle under a Variant, a Struct on the right):
    Optional[RichData] ⊒ Variant[Data, Binary] ⊒ Struct[{a => Tuple[String, Undef]}] -/
example (cfg : Cfg) :
    (Ty.optional .richData).TA false ∧ (Ty.struct [("a", false, .tuple [.str, .undef] none)]).TA false ∧
    asg cfg false (.optional .richData) (.variant [.data, .bin]) = true ∧
    asg cfg false (.variant [.data, .bin]) (.struct [("a", false, .tuple [.str, .undef] none)]) = true := by
  refine ⟨by simp [Ty.TA], by simp [Ty.TA, I64.max], ?_, ?_⟩
  · simp [asg, asgRecv, asgAllR, asgAnyL, asgToArr, asgToArrAny, asgToHash, asgToHashAny, sameNullary, isStringFamily, floatAll,
      Rng.sub, Rng.pos, Alias.ty, Alias.key]
  · simp [asg, asgRecv, asgAllR, asgAnyL, asgMembers, tupZip, tupleSize, structSize, Rng.exact, sameNullary, isStringFamily, floatAll,
      Rng.sub, Rng.pos, Rng.all, I64.max, I64.min]

def C03_trans : Prop :=
  ∀ (cfg : Cfg) (sfh : Bool) (a b c : Ty), Ty.WF cfg a → Ty.WF cfg b → Ty.WF cfg c →
    asg cfg sfh a b = true → asg cfg sfh b c = true → asg cfg sfh a c = true

def idCfg3 : Cfg := { rxMatch := fun _ _ => false, lower := id }

/-- PERMANENT counterexample (no defect): Struct[{a=>Integer}] ⊒ Hash[String,Integer,1,1] ⊒ Struct[{b=>Integer}], not transitively -/
theorem C03_trans_fails_sfh :
    ∃ a b c : Ty, asg idCfg3 true a b = true ∧ asg idCfg3 true b c = true ∧ asg idCfg3 true a c = false :=
  ⟨.struct [("a", false, .int Rng.all)], .hash .str (.int Rng.all) ⟨1, 1⟩, .struct [("b", false, .int Rng.all)], by
    simp [asg, asgRecv, sameNullary, structReq, structSize, Rng.sub, Rng.all, isStringFamily], by
    simp [asg, asgRecv, sameNullary, asgMembers, structSize, Rng.sub, Rng.all, isStringFamily], by
    simp [asg, asgRecv, sameNullary, structAll, structMember, distinctCount]⟩

/-- REPAIRED in /repo (fix: Iterable rules for Struct, Enum and Pattern): Iterable accepts Hash (through its entry tuple), Hash
    accepts Struct, and Iterable had no Struct rule — the former counterexample `C03_trans_fails_iterable` (known finding
    C03-trans-iterable) now closes, as does the chain Iterable[String[1,1]] ⊒ String ⊒ Enum -/
theorem C03_iterable_struct_repaired :
    asg idCfg3 true (.iterable .any) (.hash .any .any Rng.pos) = true ∧
    asg idCfg3 true (.hash .any .any Rng.pos) (.struct [("a", false, .any)]) = true ∧
    asg idCfg3 true (.iterable .any) (.struct [("a", false, .any)]) = true ∧
    asg idCfg3 true (.iterable (.strSz ⟨1, 1⟩)) (.enum ["ab"] false) = true := by
  refine ⟨?_, ?_, ?_, ?_⟩
  · simp [asg, asgRecv, sameNullary]
  · simp [asg, asgRecv, sameNullary, asgMembers, structSize, Rng.sub, Rng.pos, I64.max]
  · simp [asg, asgRecv, sameNullary, iterMembers]
  · simp [asg, asgRecv, sameNullary, Rng.sub]

/-- KNOWN FINDING C03-trans-callable-top (Callable inside the model since the extension round; defect report
    work/defect-C03-callable-return-only.md): `CallableType.IsAssignable` is not transitive through the default Callable.  A Callable that
    constrains only its return type — `Callable` with return type Any, parameters and block absent; only the Go constructor makes one —
    accepts the default Callable (return: Any accepts Any; parameters and block: both absent), the default accepts EVERY Callable (first
    test of the rule), but the first rejects `Callable[String]` (the other says something about its parameters, this one nothing).
    Holds for both settings of the Struct-from-Hash rule; Callable is therefore outside the fragments of transitivity (`Ty.TF` … `Ty.TA`). -/
theorem C03_trans_fails_callable (sfh : Bool) :
    asg idCfg3 sfh (.callable none (some .any) none) (.callable none none none) = true ∧
    asg idCfg3 sfh (.callable none none none) (.callable (some (.tuple [.str] none)) none none) = true ∧
    asg idCfg3 sfh (.callable none (some .any) none) (.callable (some (.tuple [.str] none)) none none) = false := by
  refine ⟨?_, ?_, ?_⟩ <;> simp [asg, asgRecv, sameNullary]

/-- TRANSITIVITY WITH CALLABLE, everywhere except the shape of the finding: on the fragment `Ty.TSK cfg sfh` = the stage-3 fragment (`Ty.TS`:
    everything but Unit and the aliases; Struct with the rule off; Iterable) PLUS Callable types each of which is the default Callable or says
    something about its PARAMETERS (nested Callables — block types, Callables inside parameter lists — included).  The excluded Callables,
    with parameters absent but a return type or a block present, are exactly the left types of `C03_trans_fails_callable`.  The return types
    compose directly (an absent return type of the middle Callable stands for Any, and what accepts Any accepts everything); the parameter
    and block tests are made IN REVERSE and compose the other way round — the summed weight of the stage-3 induction carries the swap. -/
theorem C03_trans_callable_partial (cfg : Cfg) (sfh : Bool) (hl : ∀ s, (cfg.lower s).length = s.length) (a b c : Ty)
    (fa : a.TSK cfg sfh) (fb : b.TSK cfg sfh) (fc : c.TSK cfg sfh) (wa : Ty.WF cfg a) (wb : Ty.WF cfg b) (wc : Ty.WF cfg c)
    (h1 : asg cfg sfh a b = true) (h2 : asg cfg sfh b c = true) : asg cfg sfh a c = true :=
  transGK cfg sfh hl a b c fa fb fc wa wb wc h1 h2

/-- non-vacuity: Callable[[String], Scalar] ⊒ Callable[[Scalar], String] ⊒ Callable[[Any], String['a'], Callable] is false for the block
    (absent accepts only absent), so the chain keeps the blocks absent: Callable[[String], Scalar] ⊒ Callable[[Scalar], String] ⊒
    Callable[[Any], String['a']] — parameters widen, return types narrow; and nested under an Array -/
example (cfg : Cfg) :
    (Ty.array (.callable (some (.tuple [.str] none)) (some .scalar) none) Rng.pos).TSK cfg true ∧
    (Ty.callable (some (.tuple [.any] none)) (some (.strVal "a")) none).TSK cfg true ∧
    asg cfg true (.callable (some (.tuple [.str] none)) (some .scalar) none) (.callable (some (.tuple [.scalar] none)) (some .str) none) = true ∧
    asg cfg true (.callable (some (.tuple [.scalar] none)) (some .str) none) (.callable (some (.tuple [.any] none)) (some (.strVal "a")) none) = true := by
  refine ⟨by simp [Ty.TSK], by simp [Ty.TSK], ?_, ?_⟩ <;>
    simp [asg, asgRecv, tupZip, sameNullary, tupleSize, Rng.exact, Rng.sub, isStringFamily]

theorem C03_trans_false : ¬ C03_trans := by
  intro h
  have := h idCfg3 true (.struct [("a", false, .int Rng.all)]) (.hash .str (.int Rng.all) ⟨1, 1⟩)
    (.struct [("b", false, .int Rng.all)]) (by simp [Ty.WF]) (by simp [Ty.WF]) (by simp [Ty.WF])
    (by simp [asg, asgRecv, sameNullary, structReq, structSize, Rng.sub, Rng.all, isStringFamily])
    (by simp [asg, asgRecv, sameNullary, asgMembers, structSize, Rng.sub, Rng.all, isStringFamily])
  simp [asg, asgRecv, sameNullary, structAll, structMember, distinctCount] at this

end Pcore.Lat
