import Pcore.Proofs.FormatUnparse
import Pcore.Proofs.FormatContainer
import Pcore.Proofs.FormatRef
import Pcore.Proofs.FormatCtor
import Pcore.Proofs.FormatAlt
import Pcore.Proofs.FormatFloat
import Pcore.Generated.FormatLetters
import Pcore.Proofs.FormatMerge
import Pcore.Proofs.FormatKeyLat
import Pcore.Proofs.FormatXEmbed
import Pcore.Generated.FormatLettersX
import Pcore.Proofs.FormatLat
import Pcore.Proofs.FormatMergeRefine
import Pcore.Proofs.FormatXAlt
import Pcore.Proofs.FormatSpan
import Pcore.Proofs.FormatXPP
/-!
# C20 — String formatting is total and faithful to the format directive

Property (properties.jsonl): for every value (strings of arbitrary content included) and every syntactically valid
format directive, formatting terminates and either succeeds or raises the reported unsupported-format error exactly
when the format character is outside the documented set for that value's type.  Numeric directives agree with the
reference rendering (radix, alternate prefixes, sign, zero and space padding, width, precision) and radix renderings
convert back to the same integer; text is at least as wide as requested with padding on the correct side, and
container formats apply element formats, separators and delimiters recursively.

The model is `Pcore/Model/Format.lean` (the code after the `fix:` commits 4967a97 … 25b91c3).  A *directive* is a
text `d` that `parseFormat` accepts (`Directive d f`); `printfView f` is that directive as printf reads it (flags,
width, precision, letter — the container delimiter flags skipped).  All theorems quantify over ALL integers (so over
all of Int64), all strings, all directives; `decide` is used only on the regenerated table and in witnesses/examples.

Full statement / proved / missing
* `C20_letters`        — the table regenerated from the ToString switches satisfies `LettersOK`: per kind, the letters
                         whose arm formats = the literal handed to UnsupportedFormat = the letters the model formats;
                         letters handed over to the Float/Integer method are formatted there (`decide` on the table).
* `C20_directive_go`   — every directive `parseFormat` accepts is a directive Go's fmt parses to the same verb, width,
                         precision and flags once the delimiter flags are filtered out, numbers ≤ fmt's limit; and so
                         are the format strings the float path derives from it with `unParse` (`WithoutWidth`,
                         `ReplaceFormatChar`): `GoOK` = every format string handed to fmt is a directive fmt understands.
* `C20_total`          — total by construction, and no Go fault/`%!` marker is reachable: the result is `text` or
                         `reported`, for EVERY directive `parseFormat` accepts (it rejects numbers beyond fmt's limit:
                         fixed finding C20-fmt-number-limit); for per-type format maps of any depth `C20_total_map`.
* `C20_reported`       — a scalar raises only the unsupported-format error, or the documented failure of `%s` on a
                         Binary that is not UTF-8.
* `C20_unsupported_iff`— scalars: reported unsupported ⇔ letter ∉ documented set of the value's kind, the documented
                         set being the regenerated literal (`documentedIn formatLetters`).  Containers:
                         `C20_unsupported_array/hash` (the container's own letter is checked first; with a supported
                         letter the result is the composition of the element results, `C20_container_*`).
* `C20_int_ref_partial`— letters d x X o: the rendering equals the independently written printf reference `cRef` for
                         ALL integers, flag sets, widths and precisions outside two classes in which Go's fmt departs
                         from the reference.  Full statement `C20_int_ref_full` is FALSE: `C20_int_ref_fails_zero`
                         (`%#x` of 0 is `0x0`; known finding C20-go-fmt-zero), `C20_int_ref_fails_alt_zeropad`
                         (`%#07x` of 256 is `0x0000100`; known finding C20-go-fmt-alt-zeropad).
* `C20_radix_back`     — letters d x X o b B: `readRadix` of the rendering is the integer, for ALL integers and
                         directives (the two classes above included), except 0 with precision 0 for d x X o.
* `C20_bin_ref`        — letters b B (pcore's own code): the rendering equals the same reference `cRef` for ALL integers,
                         flags, widths and precisions, no excluded class (0 with precision 0 prints the digit 0).
* `C20_ctor_back`      — the round trip through pcore's own Integer constructor `new(Integer, text, radix)`
                         (`newInteger`: signature pattern + integerFromString + strconv.ParseInt, modelled and compared,
                         op `back`): for d o b B with any flags/precision and x X with `#`, no width, every Int64.
                         The full statement `C20_ctor_back_full` is FALSE: `C20_ctor_back_fails` (known finding
                         C20-integer-ctor-hex: `%x` renders `ff`, which the signature rejects without `0x`).
* `C20_width`          — scalars: at least `w` runes wide (letters whose digits come from fmt's float code excluded).
* `C20_pad_side_text`, `C20_pad_side_pbB`, `C20_pad_side_int` — blanks on the left unless `-`; zeros only from fmt's
                         integer code (between sign/prefix and digits, by `C20_int_ref_partial`) and the b/B precision.
* `C20_container_rec`  — for values of any depth: the model of ToString2 = the directly written recursive reference
                         renderer `refVal`, under any per-type map with non-alt container formats (hash format ≠ a).
* `C20_container_alt`  — alt-mode (`#`) and mixed layouts too: the model of ToString2 with its Indentation objects = the
                         directly written pretty-printer `refPP` (level / inherited-indent / nested as parameters, line
                         breaks decided from the previous element), values of any depth; `C20_alt_line_break`.
* `C20_container_array`, `C20_container_hash` — non-alt: left delimiter ++ intercalate (separator ++ " ") (element
                         renderings) ++ right delimiter; elements that are containers fall under the same theorems.
* `C20_float_pad`, `C20_float_restore`, `C20_float_sign_invariant`, `C20_float_width` — the float path AROUND the digits,
                         for every FloatIO (whatever digit strings fmt returns): padNumber's placement of blanks and
                         zeros, the restored fraction keeps the printed text and does not depend on the sign, the width
                         is reached by every letter (assuming only that fmt pads its own output: `IOWidth`).
* EVERY VALUE KIND (`Model/FormatX.lean`: SemVer, SemVerRange, URI, Timespan, Timestamp, Sensitive, Type values, type aliases, object types, object instances
  beside the ten kinds above; format maps over ANY system of key types `KeySys κ`), section "the extended model" at the end:
  `C20_x_letters` (the regenerated table of all 20 kinds: handled = documented = what the model formats, ApplyStringFlags called
  exactly where the model applies the string flags), `C20_x_total` / `C20_x_total_map` (text or reported, no Go fault, any key
  system), `C20_x_unsupported_iff` (reported unsupported ⇔ letter outside the regenerated documented set, every kind that is not
  a container), `C20_x_unsupported_array/hash/obj`, `C20_x_refines` (on the ten kinds of Format.lean under the 16 default keys
  the extended model IS `fmtVal`: every theorem above is a theorem about the extended model on that fragment),
  `C20_x_array_rec` / `C20_x_hash_rec` (structural recursion: what ToString2 writes is arrayAssemble / hashAssemble of the element
  renderings under the element context, alt or not, any key system), `C20_x_array` / `C20_x_hash` / `C20_x_obj` (non-alt: delimiters
  around the separator-joined element renderings; an object instance is its type name and its init hash between `(` and `)`),
  `C20_x_array_pp` / `C20_x_hash_pp` / `C20_x_obj_pp` (alt mode too: at nesting level L the text is the directly written pretty-printer
  `ppArray` / `ppHash` / `ppObj` of the element renderings — line break and 2·L blanks when the context indents, one entry per line
  at level L+1, the closing delimiter on its own line), `C20_x_container_alt` (END TO END: for values of any depth, every kind, any key
  system, any mixture of alt and non-alt formats — the hash-as-array form, the parameter lists of Types and the init hashes of
  object types included, no hypothesis — the model of ToString with its Indentation objects IS the directly written
  pretty-printer `refPPX`), `C20_x_typ` (a Type is its name and its parameters formatted as an Array under
  the same map), `C20_x_width` (EVERY kind but the four whose ToString never looks at the width: the boundary of the
  finding is exact), `C20_x_width_partial` (width reached
  wherever the code applies the string flags: SemVer, URI, SemVerRange — every letter, after fix 5c2f826 — and Type).  The full width
  statement `C20_x_width_full` is FALSE: `C20_x_width_fails` (known finding C20-width-ignored, narrowed: the ToString of Timespan,
  Timestamp and Sensitive never looks at the format; a type alias ignores the width too), `C20_x_alias`, `C20_x_otype_named` /
  `C20_x_otype_anon` / `C20_x_otype_expanded` / `C20_x_unsupported_otype` (aliases and object types used as values, the property
  `expanded` included).
* PER-TYPE MAPS OVER ANY KEY TYPES (`Model/FormatMergeG.lean`: mergeFormats over a key order `KeyOrd` = IsAssignable / Equals / typeRank /
  String(); `Model/FormatLat.lean`: keys = arbitrary types of the lattice model, acceptance = `Lat.asg key (Lat.ptype v)`):
  `C20_map_most_specific_any` (the lookup law for ANY key system whose assignability is a partial order ON THE KEYS OF THE MAP and
  whose names differ: `KeysLawful` — what the law really rests on; for parameterised keys this is the general lattice's business,
  C02 / C03), `C20_map_most_specific_default_types` / `C20_map_exact_key_any_kind` (the 22 default types of all kinds: the table is
  an instance, hypotheses by `decide`), `C20_map_most_specific_lattice` (keys = lattice types: the hypotheses are ONE boolean check
  `lawfulb` evaluated on the keys of the map), witnessed on `{Scalar, Integer, Integer[0, 9]}`;
  `C20_map_table_is_instance` (the 16-key model of `new(String, v, map)` above — `contextMap`, `mergeMaps`, `sortEntries` over the
  table `Key.sub` — IS the general rule instantiated with the default types: entry by entry at every nesting level, hence the same text).
* THE FORMAT STRINGS OF A TIMESPAN (`Timespan.Format`, `Model/FormatSpan.lean`: `%D %H %M %S %L %N`, the flags `-` `_` `0`, a width, `%%`;
  op `span`): `C20_span_total` (for EVERY format string and every Timespan: a text or the reported bad-format error, no Go fault and no
  fmt marker — the code after the repairs 03fcfad and 5257aa1: every width the parser lets through is within fmt's limit,
  `spanParse_ok`), `C20_span_zero_width_before_fix` / `C20_span_width_limit_before_fix` (the two repaired defects, witnessed on the
  model of the code before the repairs, `SpanCode.before`: `%D %-0N` divided by zero because `utils.Int64Pow(10, 0)` was 0;
  `%20000000D` showed fmt's `%!(NOVERB)`), `C20_span_width` (a `0`- or blank-padded D H M S
  segment is at least as wide as requested), `C20_span_sum` (the segments of `%D-%H:%M:%S.%N` add up to the value),
  `C20_span_literal` (a format without `%` is rendered verbatim).
* missing: the digits of `%e %f %g %a` (fmt/strconv float formatting is a parameter `FloatIO`; only the dispatch,
  the format string handed over, floatGFormat's fraction restoration and padNumber are modelled and compared);
  NaN/±Inf (not instances of Float in pcore: no Float format entry applies to them).
-/
namespace Pcore.Format
open Pcore.Generated

/-- `d` is a syntactically valid directive with Format record `f` -/
def Directive (d : Str) (f : Fmt) : Prop := newFormat d = .ok f

/-- the directive as printf reads it -/
def printfView (f : Fmt) : Option GoSpec := goParse (goFormat f)

/-- a FloatIO for examples (the theorems hold for every FloatIO) -/
def io0 : FloatIO := ⟨fun _ _ => [], fun _ => 0, fun _ => 0⟩

/-! ## the regenerated table -/

theorem C20_letters : LettersOK formatLetters := lettersOKb_sound formatLetters (by decide +kernel)

/-- Go's case table, regenerated from $GOROOT/src/unicode/tables.go: every row recognised, ranges sorted and disjoint
    (so the model's search finds what unicode.ToUpper/ToLower's binary search finds) -/
theorem C20_case_table : CaseTableOK caseRanges := by decide +kernel

example : "ǆemal ΣΑΣ".toList.map goUpper = "Ǆemal ΣΑΣ".toList.map goUpper ∧ "Ǆ".toList.map goLower = "ǆ".toList ∧
    capitalizeSegment "ǆ ΣΑΣ".toList = "Ǆ σασ".toList ∧ "ß".toList.map goUpper = "ß".toList := by decide +kernel

/-! ## the grammar -/

theorem C20_directive_go (d : Str) (f : Fmt) (h : Directive d f) : GoOK f :=
  parseFormat_goOK d none none f h

instance (d : Str) (f : Fmt) : Decidable (Directive d f) := by unfold Directive; infer_instance

/-- what `unParse` writes (for `WithoutWidth` / `ReplaceFormatChar`) is read by fmt as the same letter, width and
    precision — for every well-formed Format record -/
theorem C20_unparse_go (f : Fmt) (h : FmtWF f) :
    ∃ g, goParse ((unParse f).filter (fun c => !isDelim c)) = some g ∧ g.verb = f.letter ∧ g.wid = f.width ∧
      g.prec = f.prec := goParse_unParse f h

example : unParse (parsed "%#- [12.3g") = "% -[#12.3g".toList ∧ unParse (withoutWidth (parsed "%#-<12.3g")) = "%<.3g".toList ∧
    goFormat (withoutWidth (parsed "%#-<12.3g")) = "%.3g".toList := by decide +kernel

example : Directive "%-#08.3x".toList
    { alt := true, left := true, zeroPad := true, letter := 'x', plus := none, prec := some 3, width := some 8,
      ldelim := none, sep := none, sep2 := none, orig := "%-#08.3x".toList } := by decide +kernel

/-- repeated flags and two delimiters are rejected, in the code's order -/
example : newFormat "%--d".toList = .error .repeatedFlag ∧ newFormat "%[{a".toList = .error .invalidDelimiter ∧
    newFormat "%5.d".toList = .error .invalidSpec ∧ newFormat "%\td".toList = .error .invalidSpec := by decide +kernel

theorem allGoOK_single (f : Fmt) (h : GoOK f) (k : Key) : AllGoOK [(k, .mk f none)] := by
  intro g hg
  cases hg
  rename_i k' t ht hmem
  simp at hmem
  obtain ⟨rfl, rfl⟩ := hmem
  cases ht
  exact h

/-! ## totality -/

/-- formatting under a per-type format map of any depth never reaches a Go fault / `%!` marker -/
theorem C20_total_map (io : FloatIO) (m : FMap) (v : Val) (h : AllGoOK m) :
    (∃ s, format io m v = .text s) ∨ (∃ c, format io m v = .reported c) := by
  have := noFault_val io v m Ind.default h
  unfold format
  cases hr : fmtVal io m Ind.default v with
  | text s => exact Or.inl ⟨s, rfl⟩
  | reported c => exact Or.inr ⟨c, rfl⟩
  | fault k => exact absurd hr (this k)

theorem C20_total (io : FloatIO) (d : Str) (f : Fmt) (v : Val) (h : Directive d f) :
    (∃ s, formatDirective io d v = .text s) ∨ (∃ c, formatDirective io d v = .reported c) := by
  unfold formatDirective
  rw [h]
  exact C20_total_map io _ v (allGoOK_single f (C20_directive_go d f h) .any)

/-- a width or precision beyond what fmt accepts is not a directive (fixed finding C20-fmt-number-limit: such a
    directive used to pass the pattern and fmt answered `%!(NOVERB)`) -/
example : newFormat "%10000010d".toList = .error .invalidSpec ∧ newFormat "%.1000001s".toList = .error .invalidSpec ∧
    (newFormat "%1000000d".toList).toOption.isSome = true := by decide +kernel

example : formatDirective io0 "%<5d".toList (.int 5) = .text "    5".toList := by decide +kernel
example : formatDirective io0 "%d".toList (.array [.int 1]) = .reported .unsupported := by decide +kernel

/-! ## unsupported-format ⇔ letter outside the documented set -/

theorem C20_reported (io : FloatIO) (m : FMap) (ind : Ind) (v : Val) (hv : v.isContainer = false) (c : Code)
    (h : fmtVal io m ind v = .reported c) :
    c = .unsupported ∨ (c = .failure ∧ (getFormat m v.kind).f.letter = 's' ∧ ∃ bs, v = .binary bs none) := by
  rcases fmtVal_reported_scalar io m ind v hv c h with h' | h'
  · exact Or.inl h'.1
  · exact Or.inr h'

/-- scalars, with the documented set taken from the regenerated table -/
theorem C20_unsupported_iff (io : FloatIO) (m : FMap) (ind : Ind) (v : Val) (hv : v.isContainer = false) :
    fmtVal io m ind v = .reported .unsupported ↔
      documentedIn formatLetters v.kind (getFormat m v.kind).f.letter = false := by
  rw [documentedIn_eq_accepts formatLetters C20_letters]
  exact fmtVal_unsupported_iff io m ind v hv

theorem C20_unsupported_iff_directive (io : FloatIO) (d : Str) (f : Fmt) (v : Val) (h : newFormat d = .ok f)
    (hv : v.isContainer = false) :
    formatDirective io d v = .reported .unsupported ↔ documentedIn formatLetters v.kind f.letter = false := by
  unfold formatDirective format
  rw [h]
  have hg : ∀ k, getFormat [(Key.any, FTree.mk f none)] k = .mk f none := by intro k; simp [getFormat, Key.accepts]
  have := C20_unsupported_iff io [(.any, .mk f none)] Ind.default v hv
  rw [hg] at this
  exact this

theorem C20_unsupported_array (io : FloatIO) (m : FMap) (ind : Ind) (vs : List Val)
    (hl : documentedIn formatLetters .arr (getFormat m .arr).f.letter = false) :
    fmtVal io m ind (.array vs) = .reported .unsupported := by
  rw [documentedIn_eq_accepts formatLetters C20_letters] at hl
  apply fmtVal_array_unsupported
  simp [accepts, modelLetters] at hl
  simp [isArrayLetter, hl]

theorem C20_unsupported_hash (io : FloatIO) (m : FMap) (ind : Ind) (es : List Entry)
    (hl : documentedIn formatLetters .hash (getFormat m .hash).f.letter = false) :
    fmtVal io m ind (.hash es) = .reported .unsupported := by
  rw [documentedIn_eq_accepts formatLetters C20_letters] at hl
  simp [accepts, modelLetters] at hl
  apply fmtVal_hash_unsupported
  · simp [isHashLetter, hl]
  · exact hl.1

example : formatDirective io0 "%a".toList (.int 5) = .reported .unsupported ∧
    documentedIn formatLetters .int 'a' = false ∧ documentedIn formatLetters .int 'x' = true ∧
    documentedIn formatLetters .undef 'Z' = true := by decide +kernel

/-! ## numeric directives agree with the reference -/

theorem fmtVal_single (io : FloatIO) (f : Fmt) (v : Val) (d : Str) (h : newFormat d = .ok f) :
    formatDirective io d v = fmtVal io [(.any, .mk f none)] Ind.default v := by
  unfold formatDirective format; rw [h]

theorem formatDirective_int (io : FloatIO) (d : Str) (f : Fmt) (i : Int) (h : newFormat d = .ok f)
    (hl : isFloatLetter f.letter = false) : formatDirective io d (.int i) = fmtIntCore f i := by
  rw [fmtVal_single io f _ d h]
  have hg : getFormat [(Key.any, FTree.mk f none)] .int = .mk f none := by simp [getFormat, Key.accepts]
  simp only [fmtVal, hg, FTree.f, fmtInt, hl, Bool.false_eq_true, if_false]

theorem not_float_of_radix (c : Char) (h : isRadixLetter c = true) : isFloatLetter c = false := by
  simp only [isRadixLetter, Bool.or_eq_true, decide_eq_true_eq] at h
  rcases h with ((((rfl | rfl) | rfl) | rfl) | rfl) | rfl <;> decide

theorem radix_of_int (c : Char) (h : isIntLetter c = true) : isRadixLetter c = true := by
  simp only [isIntLetter, isRadixLetter, Bool.or_eq_true, decide_eq_true_eq] at h ⊢
  tauto

theorem verbBase_of_int (c : Char) (h : isIntLetter c = true) : ∃ b u, verbBase c = some (b, u) := by
  simp only [isIntLetter, Bool.or_eq_true, decide_eq_true_eq] at h
  rcases h with ((rfl | rfl) | rfl) | rfl
  · exact ⟨10, false, by decide +kernel⟩
  · exact ⟨16, false, by decide +kernel⟩
  · exact ⟨16, true, by decide +kernel⟩
  · exact ⟨8, false, by decide +kernel⟩

theorem goFmtInt_verbBase (g : GoSpec) (i : Int) (b : Nat) (u : Bool) (h : verbBase g.verb = some (b, u)) :
    goFmtInt (some g) i = .text (goInteger g b u i) := by
  unfold verbBase at h
  unfold goFmtInt
  by_cases hd : g.verb = 'd'
  · rw [if_pos hd] at h; cases h; simp [hd]
  · rw [if_neg hd] at h
    by_cases hx : g.verb = 'x'
    · rw [if_pos hx] at h; cases h; simp [hx]
    · rw [if_neg hx] at h
      by_cases hX : g.verb = 'X'
      · rw [if_pos hX] at h; cases h; simp [hX]
      · rw [if_neg hX] at h
        by_cases ho : g.verb = 'o'
        · rw [if_pos ho] at h; cases h; simp [ho]
        · rw [if_neg ho] at h; cases h

/-- **letters d x X o = the printf reference**, for all integers and all directives outside the two classes where
    Go's fmt departs from it -/
theorem C20_int_ref_partial (io : FloatIO) (d : Str) (f : Fmt) (i : Int) (g : GoSpec) (h : Directive d f)
    (hl : isIntLetter f.letter = true) (hg : printfView f = some g)
    (h1 : ¬ zeroClass g i) (h2 : ¬ altZeroPad g) :
    formatDirective io d (.int i) = .text (cRef g i) := by
  have hgo := (C20_directive_go d f h).spec
  obtain ⟨g', hg', hgv, _⟩ := hgo
  unfold printfView at hg
  rw [hg] at hg'; cases hg'
  rw [formatDirective_int io d f i h (not_float_of_radix _ (radix_of_int _ hl))]
  unfold fmtIntCore
  rw [if_pos hl, hg]
  obtain ⟨b, u, hvb⟩ := verbBase_of_int g.verb (by rw [hgv]; exact hl)
  rw [goFmtInt_verbBase g i b u hvb, goInteger_eq_cRef g i b u hvb h1 h2]

/-- the full statement: no exclusions -/
def C20_int_ref_full : Prop := ∀ (io : FloatIO) (d : Str) (f : Fmt) (i : Int) (g : GoSpec), Directive d f →
  isIntLetter f.letter = true → printfView f = some g → formatDirective io d (.int i) = .text (cRef g i)

/-- known finding C20-go-fmt-zero: `%#x` of 0 is "0x0", the reference gives "0" -/
theorem C20_int_ref_fails_zero : ¬ C20_int_ref_full := by
  intro h
  have := h io0 "%#x".toList (parsed "%#x") 0 ⟨true, false, false, false, false, none, none, 'x'⟩
    (by decide +kernel) (by decide +kernel) (by decide +kernel)
  revert this; decide +kernel

/-- known finding C20-go-fmt-alt-zeropad: `%#07x` of 256 is "0x0000100", the reference gives "0x00100" -/
theorem C20_int_ref_fails_alt_zeropad :
    ∃ (d : Str) (f : Fmt) (i : Int) (g : GoSpec), Directive d f ∧ isIntLetter f.letter = true ∧ printfView f = some g ∧
      ¬ zeroClass g i ∧ formatDirective io0 d (.int i) ≠ .text (cRef g i) :=
  ⟨"%#07x".toList, parsed "%#07x", 256, ⟨true, true, false, false, false, some 7, none, 'x'⟩,
    by decide +kernel, by decide +kernel, by decide +kernel, by decide +kernel, by decide +kernel⟩

/-- non-vacuity: hypotheses of `C20_int_ref_partial` are met by a directive with flags, width and precision, and the
    reference is the expected text -/
example : formatDirective io0 "%+08.3X".toList (.int 255) = .text "    +0FF".toList ∧
    cRef ⟨false, true, true, false, false, some 8, some 3, 'X'⟩ 255 = "    +0FF".toList := by decide +kernel
example : formatDirective io0 "%#-8o|".toList (.int 8) = .reported .invalidSpec := by decide +kernel
example : formatDirective io0 "% 06d".toList (.int (-42)) = .text "-00042".toList ∧
    ¬ zeroClass ⟨false, true, false, false, true, some 6, none, 'd'⟩ (-42) ∧
    ¬ altZeroPad ⟨false, true, false, false, true, some 6, none, 'd'⟩ := by decide +kernel

/-- **letters b B = the printf reference** (pcore's own code): for ALL integers, flag sets, widths and precisions —
    no excluded class; the one point left out is 0 with precision 0, where the branch prints the digit 0 (as Ruby) -/
theorem C20_bin_ref (io : FloatIO) (d : Str) (f : Fmt) (i : Int) (h : Directive d f)
    (hb : f.letter = 'b' ∨ f.letter = 'B') (hne : ¬ (i = 0 ∧ f.prec = some 0)) :
    formatDirective io d (.int i) = .text (cRef (pbbSpec f) i) := by
  have hr : isRadixLetter f.letter = true := by rcases hb with h' | h' <;> rw [h'] <;> decide
  have hi : ¬ isIntLetter f.letter = true := by rcases hb with h' | h' <;> rw [h'] <;> decide
  have hp : isPbB f.letter = true := by rcases hb with h' | h' <;> rw [h'] <;> decide
  have hplus : PlusOK f := (parseFormat_wf d none none f h (parseFormat_numOK d none none f h)).plus
  rw [formatDirective_int io d f i h (not_float_of_radix _ hr)]
  unfold fmtIntCore
  rw [if_neg hi, if_pos hp, intPbB_eq_cRef f i hb hplus hne]

example : formatDirective io0 "%+#012b".toList (.int 5) = .text "+0b000000101".toList ∧
    formatDirective io0 "%-+8.4B|".toList (.int 5) = .reported .invalidSpec ∧
    formatDirective io0 "% -8.4B".toList (.int 5) = .text " 0101   ".toList ∧
    formatDirective io0 "%b".toList (.int (-9223372036854775808)) =
      .text ('-' :: '1' :: List.replicate 63 '0') := by decide +kernel

/-! ## radix renderings convert back -/

theorem formatDirective_eq_fmtIntCore_text (f : Fmt) (i : Int) (g : GoSpec) (hl : isIntLetter f.letter = true)
    (hg : goParse (goFormat f) = some g) (b : Nat) (u : Bool) (hvb : verbBase g.verb = some (b, u)) :
    fmtIntCore f i = .text (goInteger g b u i) := by
  unfold fmtIntCore
  rw [if_pos hl, hg, goFmtInt_verbBase g i b u hvb]

/-- **radix renderings read back** — for ALL integers and ALL directives with a letter of d x X o b B, the two
    fmt-divergence classes included; the only exception is the empty rendering of 0 with precision 0 (d x X o) -/
theorem C20_radix_back (io : FloatIO) (d : Str) (f : Fmt) (i : Int) (h : Directive d f)
    (hl : isRadixLetter f.letter = true) (hne : ¬ (i = 0 ∧ f.prec = some 0 ∧ isIntLetter f.letter = true)) :
    ∃ s, formatDirective io d (.int i) = .text s ∧ readRadix f.letter s = some i := by
  obtain ⟨g, hg, hgv, _, hgp, _⟩ := (C20_directive_go d f h).spec
  rw [formatDirective_int io d f i h (not_float_of_radix _ hl)]
  by_cases hi : isIntLetter f.letter = true
  · obtain ⟨b, u, hvb⟩ := verbBase_of_int g.verb (by rw [hgv]; exact hi)
    refine ⟨goInteger g b u i, formatDirective_eq_fmtIntCore_text f i g hi hg b u hvb, ?_⟩
    rw [← hgv]
    exact goInteger_radix_back g i b u hvb (by rw [hgp]; intro hh; exact hne ⟨hh.1, hh.2, hi⟩)
  · have hb : f.letter = 'b' ∨ f.letter = 'B' := by
      simp only [isRadixLetter, isIntLetter, Bool.or_eq_true, decide_eq_true_eq] at hl hi
      tauto
    have hp : isPbB f.letter = true := by rcases hb with h' | h' <;> rw [h'] <;> decide
    have hplus : PlusOK f := (parseFormat_wf d none none f h (parseFormat_numOK d none none f h)).plus
    refine ⟨intPbB f i, ?_, intPbB_radix_back f i hb hplus⟩
    unfold fmtIntCore
    rw [if_neg hi, if_pos hp]

example : readRadix 'x' "  -0x00ff ".toList = some (-255) ∧ readRadix 'b' "0b-101".toList = none ∧
    formatDirective io0 "%#12.6b".toList (.int (-5)) = .text "   -0b000101".toList ∧
    readRadix 'b' "   -0b000101".toList = some (-5) := by decide +kernel
/-- the excluded case is real: `%.0d` of 0 is empty -/
example : formatDirective io0 "%.0d".toList (.int 0) = .text [] ∧ readRadix 'd' [] = none := by decide +kernel

/-! ### … and through pcore's own Integer constructor `new(Integer, text, radix)` -/

/-- the full statement: every unpadded radix rendering of an Int64 is read back by `new(Integer, text, radix)` with
    the radix of the letter -/
def C20_ctor_back_full : Prop := ∀ (io : FloatIO) (d : Str) (f : Fmt) (i : Int), Directive d f →
  isRadixLetter f.letter = true → f.width = none → f.plus ≠ some ' ' → -(2^63 : Int) ≤ i → i < 2^63 →
  ¬ (i = 0 ∧ f.prec = some 0 ∧ isIntLetter f.letter = true) →
  ∃ s, formatDirective io d (.int i) = .text s ∧ newInteger s (letterRadix f.letter) = .int i

/-- known finding C20-integer-ctor-hex: `%x` of 255 renders "ff", which the constructor's signature rejects (it admits
    hexadecimal digits only after `0x`, as Puppet's does) -/
theorem C20_ctor_back_fails : ¬ C20_ctor_back_full := by
  intro h
  obtain ⟨s, hs, hn⟩ := h io0 "%x".toList (parsed "%x") 255 (by decide +kernel) (by decide +kernel) (by decide +kernel)
    (by decide +kernel) (by decide +kernel) (by decide +kernel) (by decide +kernel)
  have h1 : formatDirective io0 "%x".toList (.int 255) = .text "ff".toList := by decide +kernel
  rw [h1] at hs; cases hs
  revert hn; decide +kernel

theorem letterRadix_verbBase (c : Char) (b : Nat) (u : Bool) (h : verbBase c = some (b, u)) : letterRadix c = b := by
  unfold verbBase at h
  unfold letterRadix
  by_cases hd : c = 'd'
  · rw [if_pos hd] at h; cases h; subst hd; decide
  · rw [if_neg hd] at h
    by_cases hx : c = 'x'
    · rw [if_pos hx] at h; cases h; subst hx; decide
    · rw [if_neg hx] at h
      by_cases hX : c = 'X'
      · rw [if_pos hX] at h; cases h; subst hX; decide
      · rw [if_neg hX] at h
        by_cases ho : c = 'o'
        · rw [if_pos ho] at h; cases h; subst ho; decide
        · rw [if_neg ho] at h; cases h

/-- **radix renderings read back through pcore's own Integer constructor**: letters d o b B with any flags and
    precision, and x X with `#`; no width (blanks before the sign or after the digits are not part of what the
    constructor reads); every Int64; the empty rendering of 0 with precision 0 excepted -/
theorem C20_ctor_back (io : FloatIO) (d : Str) (f : Fmt) (i : Int) (h : Directive d f)
    (hl : isRadixLetter f.letter = true) (hx : f.letter = 'x' ∨ f.letter = 'X' → f.alt = true) (hw : f.width = none)
    (h1 : -(2^63 : Int) ≤ i) (h2 : i < 2^63) (hne : ¬ (i = 0 ∧ f.prec = some 0 ∧ isIntLetter f.letter = true)) :
    ∃ s, formatDirective io d (.int i) = .text s ∧ newInteger s (letterRadix f.letter) = .int i := by
  obtain ⟨g, hg, hgv, hgw, hgp, _, hgs, _⟩ := (C20_directive_go d f h).spec
  rw [formatDirective_int io d f i h (not_float_of_radix _ hl)]
  by_cases hi : isIntLetter f.letter = true
  · obtain ⟨b, u, hvb⟩ := verbBase_of_int g.verb (by rw [hgv]; exact hi)
    refine ⟨goInteger g b u i, formatDirective_eq_fmtIntCore_text f i g hi hg b u hvb, ?_⟩
    rw [← hgv, letterRadix_verbBase g.verb b u hvb]
    apply goInteger_ctor_back g i b u hvb (by rw [hgw, hw]) (by rw [hgp]; intro hh; exact hne ⟨hh.1, hh.2, hi⟩) h1 h2
    intro h16
    rw [hgs]; apply hx
    unfold verbBase at hvb
    rw [hgv] at hvb
    by_cases hd : f.letter = 'd'
    · rw [if_pos hd] at hvb; cases hvb; omega
    · rw [if_neg hd] at hvb
      by_cases hx' : f.letter = 'x'
      · exact Or.inl hx'
      · rw [if_neg hx'] at hvb
        by_cases hX : f.letter = 'X'
        · exact Or.inr hX
        · rw [if_neg hX] at hvb
          by_cases ho : f.letter = 'o'
          · rw [if_pos ho] at hvb; cases hvb; omega
          · rw [if_neg ho] at hvb; cases hvb
  · have hb : f.letter = 'b' ∨ f.letter = 'B' := by
      simp only [isRadixLetter, isIntLetter, Bool.or_eq_true, decide_eq_true_eq] at hl hi
      tauto
    have hp : isPbB f.letter = true := by rcases hb with h' | h' <;> rw [h'] <;> decide
    have hplus : PlusOK f := (parseFormat_wf d none none f h (parseFormat_numOK d none none f h)).plus
    have hr : letterRadix f.letter = 2 := by rcases hb with h' | h' <;> rw [h'] <;> decide
    refine ⟨intPbB f i, ?_, by rw [hr]; exact intPbB_ctor_back f i hb hplus hw h1 h2⟩
    unfold fmtIntCore
    rw [if_neg hi, if_pos hp]

example : formatDirective io0 "%+#.6x".toList (.int (-255)) = .text "-0x0000ff".toList ∧
    newInteger "-0x0000ff".toList 16 = .int (-255) ∧ newInteger " 0b101".toList 2 = .int 5 := by decide +kernel

example : newInteger "0b101".toList 2 = .int 5 ∧ newInteger "008".toList 10 = .int 8 ∧ newInteger "-0xff".toList 16 = .int (-255) ∧
    newInteger "- 5".toList 10 = .int (-5) ∧ newInteger "0xff".toList 10 = .reported .notInteger ∧
    newInteger "ff".toList 16 = .reported .illegalArguments ∧ newInteger "-0377".toList 8 = .int (-255) ∧
    newInteger "101".toList 2 = .int 5 ∧ newInteger "-9223372036854775808".toList 10 = .int (-9223372036854775808) ∧
    newInteger "9223372036854775808".toList 10 = .reported .notInteger := by decide +kernel

/-! ## width and padding side -/

/-- **width** (scalars; in runes = characters of the model's text) -/
theorem C20_width (io : FloatIO) (d : Str) (f : Fmt) (v : Val) (w : Nat) (s : Str) (h : Directive d f)
    (hv : v.isContainer = false) (hw : f.width = some w)
    (hfl : isFloatLetter f.letter = false ∨ v.kind = .str ∨ v.kind = .bin ∨ v.kind = .dflt ∨ v.kind = .undef ∨ v.kind = .regexp)
    (hs : formatDirective io d v = .text s) : w ≤ s.length := by
  rw [fmtVal_single io f v d h] at hs
  have hg : ∀ k, getFormat [(Key.any, FTree.mk f none)] k = .mk f none := by intro k; simp [getFormat, Key.accepts]
  exact fmtVal_width io _ Ind.default v hv w (by rw [hg]; exact hw) (by rw [hg]; exact C20_directive_go d f h)
    (by rw [hg]; exact hfl) s hs

example : formatDirective io0 "%6s".toList (.str "日本".toList) = .text "    日本".toList ∧
    formatDirective io0 "%-7p".toList .undef = .text "undef  ".toList ∧
    formatDirective io0 "%8.3s".toList (.regexp "a/b".toList) = .text "     /a\\".toList := by decide +kernel

/-- **padding side, every text path** (`ApplyStringFlags`: strings, booleans, default, undef, regexp, binary, `c`/`s`
    of integers): blanks only — never zeros — on the left unless `-` -/
theorem C20_pad_side_text (f : Fmt) (s : Str) (q : Bool) :
    applyStringFlags f s q =
      if f.left then strCore f s q ++ spaces (f.width.getD 0 - (strCore f s q).length)
      else spaces (f.width.getD 0 - (strCore f s q).length) ++ strCore f s q := applyStringFlags_pad f s q

/-- **padding side, `p b B` of integers** (the `0` flag not in effect; with it the zeros stand between sign/prefix
    and digits: `C20_bin_ref`) -/
theorem C20_pad_side_pbB (f : Fmt) (i : Int) (hz : pbbZeroFlag f = false) :
    intPbB f i =
      if f.left then intPbB { f with width := none } i ++ spaces (f.width.getD 0 - (intPbB { f with width := none } i).length)
      else spaces (f.width.getD 0 - (intPbB { f with width := none } i).length) ++ intPbB { f with width := none } i :=
  intPbB_pad f i hz

/-- **padding side, `d x X o`**: unless the `0` flag is in effect (no `-`, no precision) the rendering is the one
    without a width with blanks on the left, or on the right with `-`; with the `0` flag in effect the zeros stand
    between sign/prefix and digits (`cRef`, by `C20_int_ref_partial`) -/
theorem C20_pad_side_int (g : GoSpec) (base : Nat) (upper : Bool) (i : Int)
    (hz : ¬ (g.zero = true ∧ g.minus = false ∧ g.prec = none)) :
    goInteger g base upper i =
      if g.minus then goInteger { g with wid := none } base upper i ++
          spaces (g.wid.getD 0 - (goInteger { g with wid := none } base upper i).length)
      else spaces (g.wid.getD 0 - (goInteger { g with wid := none } base upper i).length) ++
          goInteger { g with wid := none } base upper i := goInteger_pad g base upper i hz

example : formatDirective io0 "%-05s".toList (.str "ab".toList) = .text "ab   ".toList ∧
    formatDirective io0 "%05s".toList (.str "ab".toList) = .text "   ab".toList ∧
    formatDirective io0 "%-6b".toList (.int 5) = .text "101   ".toList ∧
    formatDirective io0 "%-06d".toList (.int 5) = .text "5     ".toList := by decide +kernel

/-! ## the float path, around the digits (for every FloatIO: whatever digit strings fmt returns) -/

/-- **padding of a float rendering** (`padNumber`; the defects fixed by 25b91c3): the text is never cut; blanks to the
    left, or to the right with `-`; with the `0` flag and no `-`, zeros between the sign character and the digits —
    never before the sign, never to the right -/
theorem C20_float_pad (f : Fmt) (s : Str) :
    padNumber f s =
      if f.left then s ++ spaces (f.width.getD 0 - s.length)
      else if f.zeroPad then (splitNumSign s).1 ++ zeros (f.width.getD 0 - s.length) ++ (splitNumSign s).2
      else spaces (f.width.getD 0 - s.length) ++ s := padNumber_layout f s

/-- **the restored fraction keeps what fmt printed**: `floatGFormat` only appends `.` and `0`s, and the result has a
    decimal point -/
theorem C20_float_restore (f : Fmt) (str : Str) :
    ∃ suffix, gRestored f str = str ++ suffix ∧ (∀ c ∈ suffix, c = '.' ∨ c = '0') ∧ (gRestored f str).contains '.' = true :=
  gRestored_prefix f str

/-- **… independently of the sign** (the defect fixed by 457acd0): for a sign character `c` and an unsigned text, the
    restored text of `c :: str` is `c` and the restored text of `str`, and the decision to force scientific notation is
    the same -/
theorem C20_float_sign_invariant (f : Fmt) (c : Char) (str : Str) (hc : isSignChar c = true)
    (hs : ∀ x, str.head? = some x → isSignChar x = false) :
    gRestored f (c :: str) = c :: gRestored f str ∧ gForced f (c :: str) = gForced f str :=
  ⟨gRestored_sign f c str hc hs, gForced_sign f c str hc hs⟩

/-- **width, every letter of a Float** — assuming only that fmt pads its own output to the width it is given
    (`IOWidth`): the three ways out of `floatGFormat` (scientific text, forced scientific notation, restored fraction),
    `%e %E %f`, the integer letters, `p` and `s` all reach the width -/
theorem C20_float_width (io : FloatIO) (hio : IOWidth io) (d : Str) (f : Fmt) (bits w : Nat) (s : Str)
    (h : Directive d f) (hw : f.width = some w) (hs : formatDirective io d (.float bits) = .text s) : w ≤ s.length := by
  rw [fmtVal_single io f _ d h] at hs
  have hg : getFormat [(Key.any, FTree.mk f none)] .float = .mk f none := by simp [getFormat, Key.accepts]
  simp only [fmtVal, hg, FTree.f] at hs
  exact fmtFloat_width_all io hio f (parseFormat_wf d none none f h (parseFormat_numOK d none none f h))
    (C20_directive_go d f h) bits w s hw hs

/-- non-vacuity: an io that answers like fmt for `%g` of -1.5 and `%.0g` of 255; the sign is not counted, the width is
    reached on the scientific path, zeros follow the sign -/
def ioDemo : FloatIO :=
  ⟨fun fm _ => if fm = "%g".toList then "-1.5".toList else if fm = "%.0g".toList then "3e+02".toList else [], fun _ => 0, fun _ => 0⟩
example : fmtFloat ioDemo (parsed "%010g") 0 = .text "-001.50000".toList ∧
    fmtFloat ioDemo (parsed "%12.0g") 0 = .text "       3e+02".toList ∧
    fmtFloat ioDemo (parsed "%-9g") 0 = .text "-1.50000 ".toList := by decide +kernel

/-! ## containers -/

/-- **container law, arrays** (non-alt mode) -/
theorem C20_container_array (io : FloatIO) (m : FMap) (ind : Ind) (vs : List Val) (texts : List Str)
    (hl : isArrayLetter (getFormat m .arr).f.letter = true) (halt : (getFormat m .arr).f.alt = false)
    (hind : ind.indenting = false)
    (hc : ChildrenText io m (cfOf (getFormat m .arr)) (arrayChildInd (getFormat m .arr).f ind) vs texts) :
    fmtVal io m ind (.array vs) =
      .text ((delimPair (getFormat m .arr).f.ldelim '[').1 ++
        ((getFormat m .arr).f.sep.getD [','] ++ [' ']).intercalate texts ++ (delimPair (getFormat m .arr).f.ldelim '[').2) :=
  fmtVal_array io m ind vs texts hl halt hind hc

/-- **container law, hashes** (non-alt mode, letters h s p) -/
theorem C20_container_hash (io : FloatIO) (m : FMap) (ind : Ind) (es : List Entry) (texts : List (Str × Str))
    (hl : isHashLetter (getFormat m .hash).f.letter = true) (halt : (getFormat m .hash).f.alt = false)
    (hind : ind.indenting = false)
    (hc : EntriesText io m (cfOf (getFormat m .hash)) (hashChildInd (getFormat m .hash).f ind) es texts) :
    fmtVal io m ind (.hash es) =
      .text ((delimPair (getFormat m .hash).f.ldelim '{').1 ++
        ((getFormat m .hash).f.sep.getD [','] ++ [' ']).intercalate
          (texts.map (fun p => p.1 ++ (getFormat m .hash).f.sep2.getD " => ".toList ++ p.2)) ++
        (delimPair (getFormat m .hash).f.ldelim '{').2) :=
  fmtVal_hash io m ind es texts hl halt hind hc

/-- **containers, recursively**: for values of ANY depth and any per-type format map whose container formats are
    non-alt (and whose Hash format is not `a`), the rendering computed by the model of `ToString2` (with its
    indentation bookkeeping, first/subsequent element states and container-format switching) IS the reference rendering
    `refVal`: delimiter ++ intercalate (separator ++ " ") (element renderings) ++ delimiter, a container element under the
    same map, any other element under the container formats — recursively -/
theorem C20_container_rec (io : FloatIO) (m : FMap) (v : Val) (h : PlainContainers m) :
    format io m v = refVal io m v := fmtVal_ref io v m Ind.default rfl h

/-- **alt-mode (`#`) and non-alt containers, recursively**: for values of ANY depth under any per-type format map (any
    mixture of alt and non-alt container formats, widths that trigger the size break; Hash format other than `a`), the
    rendering computed by the model of `ToString2` — Indentation objects with Indenting/Increase/Subsequent/IsFirst/
    Breaks, the first-element state of the element loop — IS the directly written pretty-printer `refPP`: nesting
    level, "the enclosing format indents" and "not the first on its level" as plain parameters, line breaks decided
    by looking at the previous element (`ppGlue`), hashes one entry per line -/
theorem C20_container_alt (io : FloatIO) (m : FMap) (v : Val) (h : (getFormat m .hash).f.letter ≠ 'a') :
    format io m v = refPP io m 0 false false v := fmtVal_pp io v m 0 false false h

/-- **the line-break law** of alt mode: an indenting container nested at a level > 0, not first on its level, is a line
    break, 2·level blanks, and then exactly its text as the first thing on the level -/
theorem C20_alt_line_break (io : FloatIO) (m : FMap) (L : Nat) (inh : Bool) (vs : List Val) (hL : 0 < L)
    (hind : ((getFormat m .arr).f.alt || inh) = true) :
    refPP io m L inh true (.array vs) = (refPP io m L inh false (.array vs)).bind (fun s => .text (newLine L ++ s)) :=
  refPP_lead io m L inh (.array vs) hL hind

/-- non-vacuity: alt arrays and hashes nested four deep -/
example : format io0 [(.arr, .mk { simpleFmt 'a' with alt := true, width := some 3 } none),
      (.hash, .mk { simpleFmt 'h' with alt := true } none)]
    (.array [.int 1, .int 22, .array [.int 3, .hash [.mk (.str ['k']) (.array [.int 4])]], .int 5]) =
    .text "[1, 22,\n  [3,\n    {\n      'k' => [4]\n    }],\n  5]".toList := by decide +kernel

/-- non-vacuity of `C20_container_rec`: the default formats, three levels deep -/
example : PlainContainers [] ∧
    refVal io0 [] (.array [.int 1, .array [.str ['a'], .hash [.mk (.int 2) (.array [])]]]) =
      .text "[1, ['a', {2 => []}]]".toList := by
  refine ⟨by decide +kernel, by decide +kernel⟩

/-- non-vacuity: nested containers, an element format from a per-type map, a changed separator and delimiter
    (the nested hash falls to the default format `%s` and keeps its own delimiters) -/
example : format io0 [(.arr, .mk { simpleFmt 'a' with ldelim := some '<', sep := some [';'] }
      (some [(.int, .mk (simpleFmt 'x') none)]))]
    (.array [.int 255, .array [.int 16, .str ['a']], .hash [.mk (.str ['k']) (.int 1)]]) =
    .text "<ff; <10; a>; {'k' => 1}>".toList := by decide +kernel
example : ChildrenText io0 [(.any, .mk (simpleFmt 'a') none)] defaultCF (arrayChildInd (simpleFmt 'a') Ind.default)
    [.int 1, .array [.int 2]] ["1".toList, "[2]".toList] := by
  simp only [ChildrenText]; decide +kernel

/-! ### per-type format MAPS given by the user (`new(String, v, {Type => format, …})`): `newFormatContext3` →
    `mergeFormats(DefaultFormats, NewFormatMap(h))`, types/format.go after fix 77ca16d

The merged map is a list that `px.GetFormat` searches for the FIRST entry whose key type accepts the value.  Proved, for every
user map (any number of entries, any nesting — the theorems are about `sortEntries` / `mergedEntries`, which `mergeMaps`
applies at every level):

* `C20_map_most_specific` — the format applied to a value is the entry of the MOST SPECIFIC key type that accepts it (whatever
  other entries the map holds, in whatever order the user wrote them);
* `C20_map_exact_key` — in particular the user's entry for the exact type of a scalar / Array / Hash is the one applied;
* `C20_map_merge_refines` — an entry whose key the defaults map too refines the default: the user's directive, and — where the
  user gives no `string_formats` — the default's container formats (element formats are INHERITED, not replaced);
* `C20_map_keys_are_lattice` — the relation the merge orders and rejects by is the assignability of the lattice model (C01–C04)
  on the default types.

These were FALSE of the original code: its `sort.Slice` comparison (assignability, then rank, then name) is not transitive
(Integer < Scalar < Array < Integer), so `{Scalar => '%s', Float => '%-5e'}` formatted a Float with the Scalar entry and an entry
for an unrelated type changed which format applied — found by the direct predicates `exact-key-ignored` /
`irrelevant-entry-matters` on the implementation, repaired in /repo (77ca16d), witnesses in corpus/C20. -/

/-- the most specific accepting key wins: `m` = the merged entries before the sort (pairwise different keys), `K` the least key of
    `m` (by assignability) among those that accept the kind -/
theorem C20_map_most_specific (m : List (Key × FTree)) (hn : (m.map (·.1)).Nodup) (K : Key) (t : FTree) (k : Kind)
    (hm : (K, t) ∈ m) (hacc : K.accepts k = true)
    (hleast : ∀ e ∈ m, e.1.accepts k = true → Key.sub e.1 K = true) :
    getFormat (sortEntries m) k = t :=
  getFormat_sortEntries_least m hn K t k hm hacc hleast

/-- … instantiated on what `mergeFormats` builds from the defaults `lo` and the user's map `hi`: no hypothesis on the maps -/
theorem C20_map_exact_key (mt : FTree → FTree → FTree) (lo hi : List (Key × FTree)) (k : Kind) (t : FTree)
    (hm : (k.key, t) ∈ mergedEntries mt lo hi) :
    getFormat (sortEntries (mergedEntries mt lo hi)) k = t :=
  getFormat_sortEntries_exact _ (mergedEntries_keys_nodup mt lo hi) k t hm

/-- a user entry for a key the defaults map too (and that no other user key accepts) REFINES the default entry: the entry of
    the merged map is `merge(default, user)` — the user's letter; with no `string_formats` of the user's, the default's
    container formats -/
theorem C20_map_merge_refines (fuel : Nat) (lo hi : List (Key × FTree)) (K : Key) (l h : FTree)
    (hl : lookupKey lo K = some l) (hh : lookupKey hi K = some h)
    (hno : ∀ K' ∈ hi.map (·.1), K' ≠ K → Key.sub K' K = false) :
    (K, mergeTree (fuel + 1) l h) ∈ sortEntries (mergedEntries (mergeTree (fuel + 1)) lo hi) ∧
    (mergeTree (fuel + 1) l h).f.letter = h.f.letter ∧
    (mergeTree (fuel + 1) l h).cf = mergeMaps fuel l.cf h.cf ∧
    (∀ x xs n, fuel = n + 1 → l.cf = some (x :: xs) → h.cf = none → (mergeTree (fuel + 1) l h).cf = some (x :: xs)) := by
  refine ⟨(sortEntries_mem _ _).2 (mergedEntries_both _ lo hi K l h hl hh hno), mergeTree_letter _ l h, mergeTree_cf fuel l h, ?_⟩
  intro x xs n hf hlc hhc
  rw [mergeTree_cf, hf, hlc, hhc, mergeMaps_nil_right]

/-- the relation on key types is the lattice's assignability on the default types (every matcher, both settings of the rule) -/
theorem C20_map_keys_are_lattice (cfg : Pcore.Lat.Cfg) (sfh : Bool) (a b : Key) :
    Key.sub a b = Pcore.Lat.asg cfg sfh a.toTy b.toTy := Key.sub_eq_asg cfg sfh a b

/-- non-vacuity and the witnesses of the repaired defect: `{Scalar => '% s', Float => '%-5d'}` — the Float entry is the one
    applied to a Float, the Scalar entry to a String; an Integer under `{Float, Scalar, Integer}` gets the Integer entry with and
    without the unrelated Float entry -/
example : (getFormat (contextMap [(.scalar, .mk (simpleFmt 's') none), (.float, .mk (simpleFmt 'd') none)]) .float).f.letter = 'd' ∧
    (getFormat (contextMap [(.scalar, .mk (simpleFmt 's') none), (.float, .mk (simpleFmt 'd') none)]) .str).f.letter = 's' := by
  decide +kernel
example : (getFormat (contextMap [(.float, .mk (simpleFmt 'e') none), (.scalar, .mk (simpleFmt 's') none), (.int, .mk (simpleFmt 'x') none)]) .int).f.letter = 'x' ∧
    (getFormat (contextMap [(.scalar, .mk (simpleFmt 's') none), (.int, .mk (simpleFmt 'x') none)]) .int).f.letter = 'x' := by
  decide +kernel
/-- non-vacuity of `C20_map_merge_refines`: the user's `Array => '%a'` with `string_formats {Integer => '%x'}` keeps the default
    element formats beside its own: strings stay quoted (`%p`), integers are hexadecimal -/
example : format io0 (contextMap [(.arr, .mk (simpleFmt 'a') (some [(.int, .mk (simpleFmt 'x') none)]))])
    (.array [.str ['a'], .int 255]) = .text "['a', ff]".toList := by decide +kernel

/-! ## the extended model: every value kind with a ToString of its own, format maps over any system of key types
    (`Pcore/Model/FormatX.lean`; op `fmtx`) -/

/-- the regenerated table over all 20 kinds: per kind, the letters whose arm formats = the literal handed to UnsupportedFormat =
    the letters the model formats; ApplyStringFlags is called exactly under the letters where the model applies the string flags -/
theorem C20_x_letters : XLettersOK formatLettersX := lettersOKXb_sound formatLettersX (by decide +kernel)

theorem allGoOKG_single {κ : Type} (f : Fmt) (h : GoOK f) (k : κ) : AllGoOKG [(k, GTree.mk f none)] := by
  intro g hg
  cases hg
  rename_i k' t ht hmem
  simp at hmem
  obtain ⟨rfl, rfl⟩ := hmem
  cases ht
  exact h

/-- **totality, every kind, any key system**: formatting under a format map of any depth never reaches a Go fault / `%!` marker -/
theorem C20_x_total_map {κ : Type} (ks : KeySys κ) (io : FloatIO) (m : GMap κ) (v : XVal) (h : AllGoOKG m) :
    (∃ s, formatX ks io m v = .text s) ∨ (∃ c, formatX ks io m v = .reported c) := by
  have := noFaultX ks io v m Ind.default h
  unfold formatX
  cases hr : fmtX ks io m Ind.default v with
  | text s => exact Or.inl ⟨s, rfl⟩
  | reported c => exact Or.inr ⟨c, rfl⟩
  | fault k => exact absurd hr (this k)

theorem C20_x_total (io : FloatIO) (d : Str) (f : Fmt) (v : XVal) (h : Directive d f) :
    (∃ s, formatDirectiveX io d v = .text s) ∨ (∃ c, formatDirectiveX io d v = .reported c) := by
  unfold formatDirectiveX
  rw [h]
  exact C20_x_total_map kindKeys io _ v (allGoOKG_single f (C20_directive_go d f h) _)

example : formatDirectiveX io0 "%p".toList (.semver "1.2.3-rc1".toList) = .text "SemVer('1.2.3-rc1')".toList ∧
    formatDirectiveX io0 "%#-9s|".toList (.uri "a:b".toList) = .reported .invalidSpec ∧
    formatDirectiveX io0 "%#-9s".toList (.uri "a:b".toList) = .text "'a:b'    ".toList ∧
    formatDirectiveX io0 "%#s".toList (.semverRange "1.x".toList ">=1.0.0 <2.0.0".toList) = .text ">=1.0.0 <2.0.0".toList ∧
    formatDirectiveX io0 "%d".toList (.tspan 90061500000000) = .text "1-01:01:01.5".toList ∧
    formatDirectiveX io0 "%x".toList (.sensitive (.int 5)) = .text "Sensitive [value redacted]".toList ∧
    formatDirectiveX io0 "%d".toList (.semver "1.0.0".toList) = .reported .unsupported := by decide +kernel

/-- a value that is not a container (and not a Type with parameters) raises only the unsupported-format error, or the
    documented failure of `%s` on a Binary that is not UTF-8 -/
theorem C20_x_reported {κ : Type} (ks : KeySys κ) (io : FloatIO) (m : GMap κ) (ind : Ind) (v : XVal) (hv : v.isLeaf = true)
    (c : Code) (h : fmtX ks io m ind v = .reported c) :
    c = .unsupported ∨ (c = .failure ∧ (getG ks m v).f.letter = 's' ∧ ∃ bs, v = .binary bs none) := by
  rcases fmtX_reported_leaf ks io m ind v hv c h with h' | h'
  · exact Or.inl h'.1
  · exact Or.inr h'

/-- **unsupported-format ⇔ letter outside the documented set**, every kind, the set taken from the regenerated table -/
theorem C20_x_unsupported_iff {κ : Type} (ks : KeySys κ) (io : FloatIO) (m : GMap κ) (ind : Ind) (v : XVal)
    (hv : v.isLeaf = true) :
    fmtX ks io m ind v = .reported .unsupported ↔
      documentedInX formatLettersX v.kind (getG ks m v).f.letter = false := by
  rw [documentedInX_eq_acceptsX formatLettersX C20_x_letters]
  exact fmtX_unsupported_iff ks io m ind v hv

/-- a Type with parameters: its own letter is checked first -/
theorem C20_x_unsupported_typ {κ : Type} (ks : KeySys κ) (io : FloatIO) (m : GMap κ) (ind : Ind) (name : Str) (ps : List XVal)
    (hl : documentedInX formatLettersX .typ (getG ks m (.typ name ps)).f.letter = false) :
    fmtX ks io m ind (.typ name ps) = .reported .unsupported := by
  rw [documentedInX_eq_acceptsX formatLettersX C20_x_letters] at hl
  exact fmtX_of_not_accepts ks io m ind (.typ name ps) rfl hl

theorem C20_x_unsupported_array {κ : Type} (ks : KeySys κ) (io : FloatIO) (m : GMap κ) (ind : Ind) (vs : List XVal)
    (hl : documentedInX formatLettersX .arr (getG ks m (.array vs)).f.letter = false) :
    fmtX ks io m ind (.array vs) = .reported .unsupported := by
  rw [documentedInX_eq_acceptsX formatLettersX C20_x_letters] at hl
  apply fmtX_array_unsupported
  simp [acceptsX, modelLettersX, modelLetters] at hl
  simp [isArrayLetter, hl]

theorem C20_x_unsupported_hash {κ : Type} (ks : KeySys κ) (io : FloatIO) (m : GMap κ) (ind : Ind) (es : List XEntry)
    (hl : documentedInX formatLettersX .hash (getG ks m (.hash es)).f.letter = false) :
    fmtX ks io m ind (.hash es) = .reported .unsupported := by
  rw [documentedInX_eq_acceptsX formatLettersX C20_x_letters] at hl
  simp [acceptsX, modelLettersX, modelLetters] at hl
  apply fmtX_hash_unsupported
  · simp [isHashLetter, hl]
  · exact hl.1

theorem C20_x_unsupported_obj {κ : Type} (ks : KeySys κ) (io : FloatIO) (m : GMap κ) (ind : Ind) (name : Str) (es : List XEntry)
    (hn : name ≠ []) (hl : documentedInX formatLettersX .obj (getG ks m (.obj name es)).f.letter = false) :
    fmtX ks io m ind (.obj name es) = .reported .unsupported := by
  rw [documentedInX_eq_acceptsX formatLettersX C20_x_letters] at hl
  simp [acceptsX, modelLettersX] at hl
  apply fmtX_obj_unsupported
  · exact hn
  · simp [isHashLetter, hl]
  · exact hl.1

example : documentedInX formatLettersX .semver 'p' = true ∧ documentedInX formatLettersX .semver 'd' = false ∧
    documentedInX formatLettersX .tspan 'Z' = true ∧ documentedInX formatLettersX .typ 'a' = false ∧
    documentedInX formatLettersX .obj 'h' = true ∧
    formatDirectiveX io0 "%a".toList (.typ "Integer".toList [.int 0, .int 9]) = .reported .unsupported ∧
    formatX kindKeys io0 [(.base .obj, .mk (simpleFmt 'd') none)] (.obj "A".toList []) = .reported .unsupported := by decide +kernel

/-- **the extended model refines the model of Format.lean**: on values of the ten kinds under the same map keyed by the 16
    default types, both compute the same result — every theorem about `format` / `fmtVal` above holds of the extended model -/
theorem C20_x_refines (io : FloatIO) (m : FMap) (m' : GMap XKey) (v : Val) (h : MapRel m m') :
    formatX kindKeys io m' v.x = format io m v := fmtX_embed io v m m' Ind.default h

theorem C20_x_refines_directive (io : FloatIO) (d : Str) (v : Val) : formatDirectiveX io d v.x = formatDirective io d v := by
  unfold formatDirectiveX formatDirective
  cases newFormat d with
  | error c => rfl
  | ok f => exact C20_x_refines io _ _ v (MapRel.cons .any _ _ [] [] (TreeRel.leaf f) MapRel.nil)

/-- non-vacuity: a map with nested container formats is related to its re-keyed copy -/
example : MapRel [(.arr, .mk (simpleFmt 'a') (some [(.int, .mk (simpleFmt 'x') none)]))]
    [(.base .arr, .mk (simpleFmt 'a') (some [(.base .int, .mk (simpleFmt 'x') none)]))] :=
  MapRel.cons _ _ _ _ _ (TreeRel.node _ _ _ (MapRel.cons _ _ _ _ _ (TreeRel.leaf _) MapRel.nil)) MapRel.nil

/-- the string flags: according to the regenerated table the code calls ApplyStringFlags under exactly the letters where the model does -/
theorem C20_x_flags_table (k : XKind) (c : Char) (h : documentedInX formatLettersX k c = true) :
    flaggedInX formatLettersX k c = honoursFlags k c := by
  rw [documentedInX_eq_acceptsX formatLettersX C20_x_letters] at h
  exact flaggedInX_eq_honours formatLettersX C20_x_letters k c h

/-- **width, the kinds of the extended model** — SemVer, URI, SemVerRange (all their letters: fix 5c2f826 routed `%p` of SemVer / URI
    and both letters of SemVerRange through ApplyStringFlags) and Type values: the text is at least as wide as requested -/
theorem C20_x_width_partial (io : FloatIO) (d : Str) (f : Fmt) (v : XVal) (w : Nat) (s : Str) (h : Directive d f)
    (hk : v.kind = .semver ∨ v.kind = .uri ∨ v.kind = .semverRange ∨ v.kind = .typ ∨ v.kind = .otype)
    (hw : f.width = some w) (hs : formatDirectiveX io d v = .text s) : w ≤ s.length := by
  unfold formatDirectiveX formatX at hs
  rw [h] at hs
  have hg : getG kindKeys [(XKey.base .any, GTree.mk f none)] v = .mk f none := by
    simp [getG, kindKeys, XKey.accepts]
  exact fmtX_width_flagged kindKeys io _ Ind.default v w hk (by rw [hg]; exact hw) s hs

example : formatDirectiveX io0 "%-12s".toList (.semver "1.0.0".toList) = .text "1.0.0       ".toList ∧
    formatDirectiveX io0 "%20p".toList (.semver "1.0.0".toList) = .text "     SemVer('1.0.0')".toList ∧
    formatDirectiveX io0 "%-8s".toList (.semverRange "1.x".toList ">=1.0.0 <2.0.0".toList) = .text "1.x     ".toList ∧
    formatDirectiveX io0 "%.5p".toList (.uri "a:b".toList) = .text "URI('".toList ∧
    honoursFlags .semver 'p' = true ∧ honoursFlags .semverRange 's' = true ∧
    formatDirectiveX io0 "%16p".toList (.typ "Integer".toList [.int 0, .int 9]) = .text "   Integer[0, 9]".toList := by decide +kernel

/-- **width, every kind but four** — for EVERY value that is not a container and whose kind is not one of the four whose ToString never
    looks at the width (Timespan, Timestamp, Sensitive, type alias: known finding C20-width-ignored), the text is at least as wide as
    requested (for Integer / Float / Boolean the letters whose digits come from fmt's float code excepted, as in `C20_width` /
    `C20_float_width`): the boundary of the finding is exact -/
theorem C20_x_width (io : FloatIO) (d : Str) (f : Fmt) (v : XVal) (w : Nat) (s : Str) (h : Directive d f)
    (hv : v.isContainer = false)
    (hk : v.kind ≠ .tspan ∧ v.kind ≠ .tstamp ∧ v.kind ≠ .sensitive ∧ v.kind ≠ .talias)
    (hfl : isFloatLetter f.letter = false ∨ (v.kind ≠ .int ∧ v.kind ≠ .float ∧ v.kind ≠ .bool))
    (hw : f.width = some w) (hs : formatDirectiveX io d v = .text s) : w ≤ s.length := by
  unfold formatDirectiveX formatX at hs
  rw [h] at hs
  have hg : getG kindKeys [(XKey.base .any, GTree.mk f none)] v = .mk f none := by
    simp [getG, kindKeys, XKey.accepts]
  exact fmtX_width_leaf kindKeys io _ Ind.default v hv hk w (by rw [hg]; exact hw) (by rw [hg]; exact C20_directive_go d f h)
    (by rw [hg]; exact hfl) s hs

example : formatDirectiveX io0 "%-9x".toList (.int 255) = .text "ff       ".toList ∧
    formatDirectiveX io0 "%12p".toList (.otype "My::T".toList []) = .text "       My::T".toList ∧
    formatDirectiveX io0 "%7p".toList (.regexp "a".toList) = .text "    /a/".toList := by decide +kernel

/-- the full statement: every value that is not a container is rendered at least as wide as requested (the float-digit
    letters excepted as in `C20_width`) -/
def C20_x_width_full : Prop := ∀ (io : FloatIO) (d : Str) (f : Fmt) (v : XVal) (w : Nat) (s : Str), Directive d f →
  v.isContainer = false → f.width = some w → isFloatLetter f.letter = false → formatDirectiveX io d v = .text s → w ≤ s.length

/-- known finding C20-width-ignored (narrowed by fix 5c2f826 to the three kinds whose ToString never looks at the format: Timespan,
    Timestamp, Sensitive): `%30s` of the Timespan 0 is `0-00:00:00.0`, 12 wide -/
theorem C20_x_width_fails : ¬ C20_x_width_full := by
  intro h
  have := h io0 "%30s".toList (parsed "%30s") (.tspan 0) 30 "0-00:00:00.0".toList
    (by decide +kernel) (by decide +kernel) (by decide +kernel) (by decide +kernel) (by decide +kernel)
  revert this; decide +kernel

example : formatDirectiveX io0 "%30s".toList (.tstamp "2017-07-14T02:40:00.000000000 UTC".toList) =
      .text "2017-07-14T02:40:00.000000000 UTC".toList ∧
    formatDirectiveX io0 "%40p".toList (.sensitive (.int 1)) = .text "Sensitive [value redacted]".toList ∧
    honoursFlags .tspan 's' = false ∧ honoursFlags .tstamp 's' = false ∧ honoursFlags .sensitive 'p' = false := by decide +kernel

/-- **structural recursion, arrays** (alt or not, any key system): what `Array.ToString2` writes is `arrayAssemble` — the
    delimiters, separators, line breaks and indentation — of the renderings of the elements under the element context (a
    container element under the same map, any other element under the container formats) -/
theorem C20_x_array_rec {κ : Type} (ks : KeySys κ) (io : FloatIO) (m : GMap κ) (ind : Ind) (vs : List XVal) (texts : List Str)
    (hl : isArrayLetter (getG ks m (.array vs)).f.letter = true)
    (hc : ChildrenTextX ks io m (cfOfG ks (getG ks m (.array vs))) (arrayChildInd (getG ks m (.array vs)).f ind) vs texts) :
    fmtX ks io m ind (.array vs) = .text (arrayAssemble (getG ks m (.array vs)).f ind (partsOf vs texts)) :=
  fmtX_array_assemble ks io m ind vs texts hl hc

/-- **structural recursion, hashes** (letters h s p) -/
theorem C20_x_hash_rec {κ : Type} (ks : KeySys κ) (io : FloatIO) (m : GMap κ) (ind : Ind) (es : List XEntry)
    (texts : List (Str × Str)) (hl : isHashLetter (getG ks m (.hash es)).f.letter = true)
    (hc : EntriesTextX ks io m (cfOfG ks (getG ks m (.hash es))) (hashChildInd (getG ks m (.hash es)).f ind) es texts) :
    fmtX ks io m ind (.hash es) = .text (hashAssemble (getG ks m (.hash es)).f ind texts) :=
  fmtX_hash_assemble ks io m ind es texts hl hc

/-- **container law, arrays** (non-alt), every element kind, any key system -/
theorem C20_x_array {κ : Type} (ks : KeySys κ) (io : FloatIO) (m : GMap κ) (ind : Ind) (vs : List XVal) (texts : List Str)
    (hl : isArrayLetter (getG ks m (.array vs)).f.letter = true) (halt : (getG ks m (.array vs)).f.alt = false)
    (hind : ind.indenting = false)
    (hc : ChildrenTextX ks io m (cfOfG ks (getG ks m (.array vs))) (arrayChildInd (getG ks m (.array vs)).f ind) vs texts) :
    fmtX ks io m ind (.array vs) =
      .text ((delimPair (getG ks m (.array vs)).f.ldelim '[').1 ++
        ((getG ks m (.array vs)).f.sep.getD [','] ++ [' ']).intercalate texts ++ (delimPair (getG ks m (.array vs)).f.ldelim '[').2) :=
  fmtX_array ks io m ind vs texts hl halt hind hc

/-- **container law, hashes** (non-alt, letters h s p) -/
theorem C20_x_hash {κ : Type} (ks : KeySys κ) (io : FloatIO) (m : GMap κ) (ind : Ind) (es : List XEntry) (texts : List (Str × Str))
    (hl : isHashLetter (getG ks m (.hash es)).f.letter = true) (halt : (getG ks m (.hash es)).f.alt = false)
    (hind : ind.indenting = false)
    (hc : EntriesTextX ks io m (cfOfG ks (getG ks m (.hash es))) (hashChildInd (getG ks m (.hash es)).f ind) es texts) :
    fmtX ks io m ind (.hash es) =
      .text ((delimPair (getG ks m (.hash es)).f.ldelim '{').1 ++
        ((getG ks m (.hash es)).f.sep.getD [','] ++ [' ']).intercalate
          (texts.map (fun p => p.1 ++ (getG ks m (.hash es)).f.sep2.getD " => ".toList ++ p.2)) ++
        (delimPair (getG ks m (.hash es)).f.ldelim '{').2) :=
  fmtX_hash ks io m ind es texts hl halt hind hc

/-- **object instances** (non-alt, letters h s p): the type name, then the init hash between `(` and `)` — whatever delimiter
    the format gives — its entries formatted as those of a hash -/
theorem C20_x_obj {κ : Type} (ks : KeySys κ) (io : FloatIO) (m : GMap κ) (ind : Ind) (name : Str) (es : List XEntry)
    (texts : List (Str × Str)) (hn : name ≠ [])
    (hl : isHashLetter (getG ks m (.obj name es)).f.letter = true) (halt : (getG ks m (.obj name es)).f.alt = false)
    (hind : ind.indenting = false)
    (hc : EntriesTextX ks io m (cfOfG ks (getG ks m (.obj name es))) (hashChildInd (getG ks m (.obj name es)).f ind) es texts) :
    fmtX ks io m ind (.obj name es) =
      .text (name ++ (['('] ++
        ((getG ks m (.obj name es)).f.sep.getD [','] ++ [' ']).intercalate
          (texts.map (fun p => p.1 ++ (getG ks m (.obj name es)).f.sep2.getD " => ".toList ++ p.2)) ++ [')'])) :=
  fmtX_obj ks io m ind name es texts hn hl halt hind hc

/-- an instance of an ANONYMOUS object type ("can't be written in constructor call form") is written as the Hash of its init hash,
    after the line break of the context — so in an indenting context it breaks the line twice -/
theorem C20_x_obj_anon {κ : Type} (ks : KeySys κ) (io : FloatIO) (m : GMap κ) (ind : Ind) (es : List XEntry) :
    fmtX ks io m ind (.obj [] es) =
      (fmtX ks io m ind (.hash es)).bind fun s => .text ((if ind.breaks then '\n' :: ind.padding else []) ++ s) :=
  fmtX_obj_anon ks io m ind es

example : formatX kindKeys io0 [(.base .any, .mk { simpleFmt 'p' with alt := true } none)]
    (.array [.int 1, .obj [] [.mk (.str ['a']) (.int 1)]]) = .text "[1,\n  \n  {\n    'a' => 1\n  }]".toList := by decide +kernel

/-- **Type values**: the name, then the parameters formatted as an Array under the SAME map (and `ctx.Subsequent()`); `#s` quotes
    and the string flags apply to the whole text -/
theorem C20_x_typ {κ : Type} (ks : KeySys κ) (io : FloatIO) (m : GMap κ) (ind : Ind) (name : Str) (p : XVal) (ps : List XVal)
    (hl : isTypeLetter (getG ks m (.typ name (p :: ps))).f.letter = true) :
    fmtX ks io m ind (.typ name (p :: ps)) =
      typeFinish (getG ks m (.typ name (p :: ps))).f name (fmtX ks io m ind.ctxSubsequent (.array (p :: ps))) :=
  fmtX_typ ks io m ind name p ps hl

/-- **type aliases as values**: the name, whatever the letter and the flags (`TypeAliasType.ToString` has no switch on the letter) — except
    under `%#b`, which formats ` = ` and the resolved type under the same context -/
theorem C20_x_alias {κ : Type} (ks : KeySys κ) (io : FloatIO) (m : GMap κ) (ind : Ind) (name : Str) (r : XVal)
    (hn : name ≠ "UnresolvedAlias".toList)
    (hb : ¬ ((getG ks m (.talias name r)).f.alt = true ∧ (getG ks m (.talias name r)).f.letter = 'b')) :
    fmtX ks io m ind (.talias name r) = .text name := fmtX_alias ks io m ind name r hn hb

/-- **object types as values**: a named one is its name, an anonymous one `Object[{key => value, …}]` of its init hash — the values one
    level in (under the same map when containers, else under the container formats), the members of `attributes` / `functions` two
    levels in under the same map; `#s` quotes and the string flags apply to the whole text; any letter but s p is unsupported -/
theorem C20_x_otype_named {κ : Type} (ks : KeySys κ) (io : FloatIO) (m : GMap κ) (ind : Ind) (name : Str) (ih : List OEntry)
    (hn : name ≠ []) (hl : isTypeLetter (getG ks m (.otype name ih)).f.letter = true) :
    fmtX ks io m ind (.otype name ih) = typeFinish (getG ks m (.otype name ih)).f [] (.text name) :=
  fmtX_otype_named ks io m ind name ih hn hl

theorem C20_x_otype_anon {κ : Type} (ks : KeySys κ) (io : FloatIO) (m : GMap κ) (ind : Ind) (ih : List OEntry)
    (hl : isTypeLetter (getG ks m (.otype [] ih)).f.letter = true) :
    fmtX ks io m ind (.otype [] ih) =
      typeFinish (getG ks m (.otype [] ih)).f []
        ((otypeEntries ks io m (cfOfG ks (getG ks m (.otype [] ih))) (getG ks m (.otype [] ih)).f
            (ind.increase (getG ks m (.otype [] ih)).f.alt)
            ((ind.increase (getG ks m (.otype [] ih)).f.alt).increase (getG ks m (.otype [] ih)).f.alt) true ih).bind fun s =>
          .text ("Object[{".toList ++ s ++ (if (getG ks m (.otype [] ih)).f.alt then '\n' :: ind.padding else []) ++ "}]".toList)) :=
  fmtX_otype_anon ks io m ind ih hl

/-- **the property `expanded`** (what `String()` of an object type and `px.ToString2(v, types.Expanded)` use): an object type — named or
    not, the default Object excepted — is written as `Object[{…}]` of its init hash (which then holds its name), the property switched
    off inside ("Avoid nested expansions"); and it is a container there (`XVal.isContainer`: formatted under the map of its parent) -/
theorem C20_x_otype_expanded {κ : Type} (ks : KeySys κ) (io : FloatIO) (m : GMap κ) (ind : Ind) (ih : List OEntry)
    (hl : isTypeLetter (getG ks m (.otypeX false ih)).f.letter = true) :
    fmtX ks io m ind (.otypeX false ih) =
      typeFinish (getG ks m (.otypeX false ih)).f []
        ((otypeEntries ks io m (cfOfG ks (getG ks m (.otypeX false ih))) (getG ks m (.otypeX false ih)).f
            (ind.increase (getG ks m (.otypeX false ih)).f.alt)
            ((ind.increase (getG ks m (.otypeX false ih)).f.alt).increase (getG ks m (.otypeX false ih)).f.alt) true ih).bind fun s =>
          .text ("Object[{".toList ++ s ++ (if (getG ks m (.otypeX false ih)).f.alt then '\n' :: ind.padding else []) ++ "}]".toList)) :=
  fmtX_otype_expanded ks io m ind ih hl

example : formatX kindKeys io0 [] (.array [.int 1, .otypeX false [.plain "name".toList (.str "My::T".toList),
      .members "attributes".toList [.mk (.str ['a']) (.typ "Any".toList [])]], .otypeX true []]) =
    .text "[1, Object[{name => 'My::T', attributes => {'a' => Any}}], Object]".toList ∧
    (XVal.otypeX false []).isContainer = true ∧ (XVal.otype "My::T".toList []).isContainer = false := by decide +kernel

theorem C20_x_unsupported_otype {κ : Type} (ks : KeySys κ) (io : FloatIO) (m : GMap κ) (ind : Ind) (name : Str) (ih : List OEntry)
    (hl : documentedInX formatLettersX .otype (getG ks m (.otype name ih)).f.letter = false) :
    fmtX ks io m ind (.otype name ih) = .reported .unsupported := by
  rw [documentedInX_eq_acceptsX formatLettersX C20_x_letters] at hl
  exact fmtX_of_not_accepts ks io m ind (.otype name ih) rfl hl

example : formatX kindKeys io0 [(.base .typ, .mk (parsed "%#p") none)] (.otype [] [.members "attributes".toList [.mk (.str ['a']) (.typ "Integer".toList []),
      .mk (.str ['b']) (.hash [.mk (.str "type".toList) (.typ "String".toList []), .mk (.str "value".toList) (.str ['x'])])],
      .plain "equality".toList (.array [.str ['a']])]) =
    .text "Object[{\n  attributes => {\n    'a' => Integer,\n    'b' => {'type' => String, 'value' => 'x'}\n  },\n  equality => ['a']\n}]".toList ∧
    formatDirectiveX io0 "%12p".toList (.otype "My::T".toList []) = .text "       My::T".toList ∧
    formatDirectiveX io0 "%d".toList (.otype "My::T".toList []) = .reported .unsupported ∧
    formatDirectiveX io0 "%30d".toList (.talias "Data".toList (.typ "Variant".toList [])) = .text "Data".toList ∧
    formatDirectiveX io0 "%#b".toList (.talias "Data".toList (.typ "Variant".toList [])) = .reported .unsupported := by decide +kernel

/-- non-vacuity: every kind inside containers under the default formats; an object with a nested object and a Struct type in
    alt mode; a map that formats the parameters of a Type with `<` `>` and `;` -/
example : formatX kindKeys io0 [] (.array [.semver "1.0.0".toList, .tspan 1500000000, .typ "Integer".toList [.int 0, .int 9],
      .obj "My::Pair".toList [.mk (.str ['a']) (.int 1), .mk (.str ['b']) (.obj "My::Unit".toList [])], .sensitive .undef]) =
    .text "[SemVer('1.0.0'), 0-00:00:01.5, Integer[0, 9], My::Pair('a' => 1, 'b' => My::Unit()), Sensitive [value redacted]]".toList := by
  decide +kernel
example : formatDirectiveX io0 "%#p".toList (.typ "Struct".toList [.hash [.mk (.str ['a']) (.typ "Integer".toList [])]]) =
    .text "Struct[\n  {\n    'a' => Integer\n  }]".toList := by decide +kernel
example : formatX kindKeys io0 [(.base .arr, .mk { simpleFmt 'a' with ldelim := some '<', sep := some [';'] } none)]
    (.typ "Integer".toList [.int 0, .int 9]) = .text "Integer<0; 9>".toList := by decide +kernel
example : ChildrenTextX kindKeys io0 [] (defaultCFG .base) (arrayChildInd (simpleFmt 's') Ind.default)
    [.uri "a:b".toList, .array [.int 2]] ["URI('a:b')".toList, "[2]".toList] := by
  simp only [ChildrenTextX]; decide +kernel

/-! ## per-type format maps over ANY system of key types (`Model/FormatMergeG.lean`, `Model/FormatLat.lean`; ops `fmtx (mmap ..)`, `fmtt`)

`mergeFormats` orders the merged map by "more acceptors first, then rank, then name".  That the first accepting entry is then the
entry of the MOST SPECIFIC accepting key rests on exactly this: on the keys of the map, `IsAssignable` is reflexive, transitive and
antisymmetric, and no two keys print alike (`KeysLawful`).  For the parameterless default types this is a finite table (`decide`);
for parameterised key types it is the general lattice's business (reflexivity C02, transitivity C03 — which has known exceptions, so
the hypothesis is about the keys of the map, not about all types). -/

/-- **the lookup law, any key system**: in a merged map whose keys are pairwise different and `KeysLawful`, the format applied to a
    value is the entry of the most specific key that accepts it -/
theorem C20_map_most_specific_any {κ : Type} (ks : KeySys κ) (ko : KeyOrd κ) (m : GMap κ) (hk : KeysLawful ko (m.map (·.1)))
    (hn : (m.map (·.1)).Nodup) (K : κ) (t : GTree κ) (v : XVal) (hm : (K, t) ∈ m) (hacc : ks.acc K v = true)
    (hleast : ∀ e ∈ m, ks.acc e.1 v = true → ko.sub e.1 K = true) :
    getG ks (sortEntriesG ko m) v = t :=
  getG_sortEntriesG_least ks ko m hk hn K t v hm hacc hleast

/-- … the 22 parameterless default types of all kinds are an instance: the hypotheses on the key order hold by `decide` on the table -/
theorem C20_map_most_specific_default_types (m : GMap XKey) (hn : (m.map (·.1)).Nodup) (K : XKey) (t : GTree XKey) (v : XVal)
    (hm : (K, t) ∈ m) (hacc : K.accepts v.kind = true) (hleast : ∀ e ∈ m, e.1.accepts v.kind = true → XKey.sub e.1 K = true) :
    getG kindKeys (sortEntriesG xkeyOrd m) v = t :=
  C20_map_most_specific_any kindKeys xkeyOrd m (xkeyOrd_lawful _) hn K t v hm hacc hleast

/-- … on what `mergeFormats` builds from the defaults `lo` and the user's map `hi`: the entry for the exact type of a value of ANY
    kind is the one applied; no hypothesis on the maps -/
theorem C20_map_exact_key_any_kind (mt : GTree XKey → GTree XKey → GTree XKey) (lo hi : GMap XKey) (v : XVal) (t : GTree XKey)
    (hm : (v.kind.key, t) ∈ mergedEntriesG xkeyOrd mt lo hi) :
    getG kindKeys (sortEntriesG xkeyOrd (mergedEntriesG xkeyOrd mt lo hi)) v = t :=
  C20_map_most_specific_default_types _ (mergedEntriesG_keys_nodup xkeyOrd xkeyOrd_eqv mt lo hi) v.kind.key t v hm
    (XKind.key_accepts v.kind) (fun e _ h => XKey.accepts_sub_exact e.1 v.kind h)

/-- non-vacuity: `{Scalar => '%s', SemVer => '%p', Timespan => …}` — a SemVer gets the SemVer entry although Scalar accepts it too,
    with the defaults merged in -/
example : (getG kindKeys (contextMapG xkeyOrd .base [(.base .scalar, .mk (simpleFmt 's') none), (.semver, .mk (simpleFmt 'p') none)])
      (.semver "1.0.0".toList)).f.letter = 'p' ∧
    (getG kindKeys (contextMapG xkeyOrd .base [(.base .scalar, .mk (simpleFmt 's') none), (.semver, .mk (simpleFmt 'p') none)])
      (.tspan 5)).f.letter = 's' ∧
    formatX kindKeys io0 (contextMapG xkeyOrd .base [(.base .arr, .mk (simpleFmt 'a') (some [(.semver, .mk (simpleFmt 's') none)]))])
      (.array [.semver "1.0.0".toList, .str ['a']]) = .text "[1.0.0, 'a']".toList := by decide +kernel

/-- **keys = arbitrary types of the lattice model** (`Integer[0, 9]`, `Array[String]`, `Variant[…]` …): acceptance is
    `Lat.asg key (Lat.ptype v)`, the order of the merged map is by `Lat.asg` between the keys; the hypotheses of the lookup law are
    one boolean check on the keys of the map, evaluated with the lattice model -/
theorem C20_map_most_specific_lattice (cfg : Pcore.Lat.Cfg) (sfh : Bool) (m : GMap LKey)
    (hchk : lawfulb (latOrd cfg sfh) (m.map (·.1)) = true) (K : LKey) (t : GTree LKey) (v : XVal) (hm : (K, t) ∈ m)
    (hacc : (latKeys cfg sfh).acc K v = true)
    (hleast : ∀ e ∈ m, (latKeys cfg sfh).acc e.1 v = true → (latOrd cfg sfh).sub e.1 K = true) :
    getG (latKeys cfg sfh) (sortEntriesG (latOrd cfg sfh) m) v = t :=
  C20_map_most_specific_any (latKeys cfg sfh) (latOrd cfg sfh) m (lawfulb_sound _ _ hchk) (lawfulb_nodup _ _ hchk) K t v hm hacc hleast

/-- the three keys of the witness -/
def kScalar : LKey := ⟨.scalar, "Scalar"⟩
def kInteger : LKey := ⟨.int Pcore.Lat.Rng.all, "Integer"⟩
def kInt09 : LKey := ⟨.int ⟨0, 9⟩, "Integer[0, 9]"⟩
def exLatMap : GMap LKey :=
  [(kScalar, .mk (simpleFmt 's') none), (kInteger, .mk (simpleFmt 'x') none), (kInt09, .mk (simpleFmt 'd') none)]

/-- non-vacuity of `C20_map_most_specific_lattice`: the map `{Scalar => '%s', Integer => '%x', Integer[0, 9] => '%d'}` passes the
    check; 5 is formatted by the entry of `Integer[0, 9]`, 50 by that of `Integer`, in whatever order the user wrote the entries -/
example (cfg : Pcore.Lat.Cfg) : lawfulb (latOrd cfg true) (exLatMap.map (·.1)) = true := by
  simp [lawfulb, noPairb, exLatMap, kScalar, kInteger, kInt09, latOrd, Pcore.Lat.asg, Pcore.Lat.asgRecv, Pcore.Lat.sameNullary,
    Pcore.Lat.isStringFamily, Pcore.Lat.Rng.sub, Pcore.Lat.Rng.all, Pcore.Lat.I64.min, Pcore.Lat.I64.max, Pcore.Lat.Ty.isAny]

example (cfg : Pcore.Lat.Cfg) :
    (getG (latKeys cfg true) (sortEntriesG (latOrd cfg true) exLatMap) (.int 5)).f.letter = 'd' ∧
    (getG (latKeys cfg true) (sortEntriesG (latOrd cfg true) exLatMap) (.int 50)).f.letter = 'x' := by
  have hchk : lawfulb (latOrd cfg true) (exLatMap.map (·.1)) = true := by
    simp [lawfulb, noPairb, exLatMap, kScalar, kInteger, kInt09, latOrd, Pcore.Lat.asg, Pcore.Lat.asgRecv, Pcore.Lat.sameNullary,
      Pcore.Lat.isStringFamily, Pcore.Lat.Rng.sub, Pcore.Lat.Rng.all, Pcore.Lat.I64.min, Pcore.Lat.I64.max, Pcore.Lat.Ty.isAny]
  constructor
  · rw [C20_map_most_specific_lattice cfg true exLatMap hchk kInt09 (.mk (simpleFmt 'd') none) (.int 5) (by simp [exLatMap])]
    · rfl
    · simp [latKeys, XVal.toLat, Pcore.Lat.ptype, kInt09, Pcore.Lat.asg, Pcore.Lat.asgRecv, Pcore.Lat.sameNullary, Pcore.Lat.Rng.sub,
        Pcore.Lat.Ty.isAny]
    · intro e he _
      simp only [exLatMap, List.mem_cons, List.mem_nil_iff, or_false] at he
      rcases he with rfl | rfl | rfl <;>
        simp [latOrd, kScalar, kInteger, kInt09, Pcore.Lat.asg, Pcore.Lat.asgRecv, Pcore.Lat.sameNullary, Pcore.Lat.isStringFamily,
          Pcore.Lat.Rng.sub, Pcore.Lat.Rng.all, Pcore.Lat.I64.min, Pcore.Lat.I64.max, Pcore.Lat.Ty.isAny]
  · rw [C20_map_most_specific_lattice cfg true exLatMap hchk kInteger (.mk (simpleFmt 'x') none) (.int 50) (by simp [exLatMap])]
    · rfl
    · simp [latKeys, XVal.toLat, Pcore.Lat.ptype, kInteger, Pcore.Lat.asg, Pcore.Lat.asgRecv, Pcore.Lat.sameNullary, Pcore.Lat.Rng.sub,
        Pcore.Lat.Rng.all, Pcore.Lat.I64.min, Pcore.Lat.I64.max, Pcore.Lat.Ty.isAny]
    · intro e he hacc
      simp only [exLatMap, List.mem_cons, List.mem_nil_iff, or_false] at he
      rcases he with rfl | rfl | rfl
      · simp [latOrd, kScalar, kInteger, Pcore.Lat.asg, Pcore.Lat.asgRecv, Pcore.Lat.sameNullary, Pcore.Lat.isStringFamily,
          Pcore.Lat.Rng.sub, Pcore.Lat.Rng.all, Pcore.Lat.I64.min, Pcore.Lat.I64.max, Pcore.Lat.Ty.isAny]
      · simp [latOrd, kInteger, Pcore.Lat.asg, Pcore.Lat.asgRecv, Pcore.Lat.sameNullary, Pcore.Lat.Rng.sub, Pcore.Lat.Ty.isAny]
      · exfalso
        revert hacc
        simp [latKeys, XVal.toLat, Pcore.Lat.ptype, kInt09, Pcore.Lat.asg, Pcore.Lat.asgRecv, Pcore.Lat.sameNullary, Pcore.Lat.Rng.sub,
          Pcore.Lat.Ty.isAny]

/-- **the 16-key table is an instance of the general rule**: for a user map keyed by the 16 default types, the merged map that the
    model of `Format.lean` builds (`contextMap`: `mergeMaps` / `sortEntries` over the table `Key.sub`) and the one the general
    definitions build (`contextMapG` with the key order `xkeyOrd`) are the same entry by entry at every nesting level — and so is
    the text of `new(String, v, map)` -/
theorem C20_map_table_is_instance (io : FloatIO) (user : FMap) (user' : GMap XKey) (v : Val) (h : MapEq user user') :
    formatX kindKeys io (contextMapG xkeyOrd .base user') v.x = format io (contextMap user) v :=
  C20_x_refines io _ _ v (contextMap_eq h).toRel

example : MapEq [(.arr, .mk (simpleFmt 'a') (some [(.int, .mk (simpleFmt 'x') none)])), (.scalar, .mk (simpleFmt 's') none)]
    [(.base .arr, .mk (simpleFmt 'a') (some [(.base .int, .mk (simpleFmt 'x') none)])), (.base .scalar, .mk (simpleFmt 's') none)] :=
  MapEq.cons _ _ _ _ _ (TreeEq.node _ _ _ (MapEq.cons _ _ _ _ _ (TreeEq.leaf _) MapEq.nil))
    (MapEq.cons _ _ _ _ _ (TreeEq.leaf _) MapEq.nil)

/-! ### alt mode (`#`), one level at a time, every kind of element, any key system -/

/-- **arrays at nesting level `L`, alt or not**: the pretty-printer `ppArray` of the element renderings (elements at level `L + 1`,
    never the first thing on their level) -/
theorem C20_x_array_pp {κ : Type} (ks : KeySys κ) (io : FloatIO) (m : GMap κ) (L : Nat) (inh nested : Bool) (vs : List XVal)
    (texts : List Str) (hl : isArrayLetter (getG ks m (.array vs)).f.letter = true)
    (hc : ChildrenTextX ks io m (cfOfG ks (getG ks m (.array vs))) ⟨false, (getG ks m (.array vs)).f.alt, L + 1⟩ vs texts) :
    fmtX ks io m ⟨!nested, inh, L⟩ (.array vs) = .text (ppArray (getG ks m (.array vs)).f L inh nested (partsOf vs texts)) :=
  fmtX_array_pp ks io m L inh nested vs texts hl hc

/-- **hashes at nesting level `L`, alt or not** (letters h s p): keys and values at level `L + 1`, each the first thing after its
    indentation -/
theorem C20_x_hash_pp {κ : Type} (ks : KeySys κ) (io : FloatIO) (m : GMap κ) (L : Nat) (inh nested : Bool) (es : List XEntry)
    (texts : List (Str × Str)) (hl : isHashLetter (getG ks m (.hash es)).f.letter = true)
    (hc : EntriesTextX ks io m (cfOfG ks (getG ks m (.hash es))) ⟨true, (getG ks m (.hash es)).f.alt, L + 1⟩ es texts) :
    fmtX ks io m ⟨!nested, inh, L⟩ (.hash es) = .text (ppHash (getG ks m (.hash es)).f L inh nested texts) :=
  fmtX_hash_pp ks io m L inh nested es texts hl hc

/-- **object instances at nesting level `L`, alt or not** (`%#p`: letters h s p): a line break and 2·L blanks when the CONTEXT
    indents and the object is not the first thing on its level, the type name, `(`, in alt mode one `key => value` per line at level
    `L + 1` and the closing `)` on its own line at level `L` -/
theorem C20_x_obj_pp {κ : Type} (ks : KeySys κ) (io : FloatIO) (m : GMap κ) (L : Nat) (inh nested : Bool) (name : Str)
    (es : List XEntry) (texts : List (Str × Str)) (hn : name ≠ []) (hl : isHashLetter (getG ks m (.obj name es)).f.letter = true)
    (hc : EntriesTextX ks io m (cfOfG ks (getG ks m (.obj name es))) ⟨true, (getG ks m (.obj name es)).f.alt, L + 1⟩ es texts) :
    fmtX ks io m ⟨!nested, inh, L⟩ (.obj name es) = .text (ppObj (getG ks m (.obj name es)).f L inh nested name texts) :=
  fmtX_obj_pp ks io m L inh nested name es texts hn hl hc

/-- non-vacuity: `%#p` of an object whose attribute holds an array of an object and an integer -/
example : formatX kindKeys io0 [(.base .obj, .mk { simpleFmt 'p' with alt := true } none), (.base .arr, .mk { simpleFmt 'a' with alt := true } none)]
    (.obj "My::Pair".toList [.mk (.str ['a']) (.int 1), .mk (.str ['b']) (.array [.obj "My::One".toList [.mk (.str ['v']) (.int 2)], .int 3])]) =
    .text "My::Pair(\n  'a' => 1,\n  'b' => [\n    My::One(\n      'v' => 2\n    ),\n    3]\n)".toList := by decide +kernel
example : ppObj { simpleFmt 'p' with alt := true } 1 true true "T".toList [("'k'".toList, "1".toList)] =
    "\n  T(\n    'k' => 1\n  )".toList := by decide +kernel

/-! ## the format strings of a Timespan: `Timespan.Format(format)` (`Pcore/Model/FormatSpan.lean`; op `span`) -/

/-- formatting a Timespan never faults -/
def C20_span_total_full : Prop := ∀ (fm : Str) (ns : Int), spanFormat fm ns ≠ .fault

/-- **totality**, every format string, every Timespan (the code after the repairs 03fcfad and 5257aa1): the result is a text or the
    reported bad-format error — no Go runtime fault, no fmt error marker -/
theorem C20_span_total (fm : Str) (ns : Int) : (∃ s, spanFormat fm ns = .text s) ∨ spanFormat fm ns = .badSpec := by
  unfold spanFormat spanFormatC
  cases hp : spanParseC .now fm with
  | none => exact Or.inr rfl
  | some segs => exact Or.inl (spanFormat2_total segs (spanParse_ok fm segs hp) ns)

theorem C20_span_no_fault : C20_span_total_full := by
  intro fm ns h
  rcases C20_span_total fm ns with ⟨s, hs⟩ | hs <;> rw [hs] at h <;> cases h

/-- the earlier, conditional form (kept): under the side condition `SegsOK` on the parsed segments — which `spanParse_ok` now
    establishes for every format -/
theorem C20_span_total_partial (fm : Str) (ns : Int) (_h : ∀ segs, spanParse fm = some segs → SegsOK segs) :
    (∃ s, spanFormat fm ns = .text s) ∨ spanFormat fm ns = .badSpec := C20_span_total fm ns

example : spanFormat "%D-%H:%M:%S.%-N".toList 90061500000000 = .text "1-01:01:01.5".toList ∧
    spanFormat "%H:%M".toList 90061500000000 = .text "25:01".toList ∧
    spanFormat "%_5H|%-H|%05H".toList 90061500000000 = .text "   25|25|00025".toList ∧
    spanFormat "%S.%L".toList 50000000 = .text "00.50 ".toList ∧
    spanFormat "%D-%H:%M:%S.%-N".toList (-90061500000000) = .text "-1-01:01:01.5".toList ∧
    spanFormat "%-_H".toList 0 = .badSpec ∧ spanFormat "100%% %S".toList 1500000000 = .text "100% 01".toList := by decide +kernel

/-- the repaired code on the inputs of the two defects: width 0 shows the value modulo 1, a width above 10^6 is a bad format specifier -/
example : spanFormat "%D %-0N".toList 50000000 = .text "0 0".toList ∧ spanFormat "%S.%_0N".toList 1500000000 = .text "01.0".toList ∧
    spanFormat "%20000000D".toList 0 = .badSpec ∧ spanFormat "%S %-20000000N".toList 50000000 = .badSpec ∧
    spanParse "%1000000D".toList = some [.val ⟨.day, some '0', some 1000000, true⟩] := by decide +kernel

/-- fixed finding C20-span-nano-width-zero (03fcfad), witnessed on the model of the code before the repair: `Timespan(50ms).Format("%D %-0N")`
    was a Go runtime fault (integer divide by zero: `utils.Int64Pow(10, 0)` answered 0) -/
theorem C20_span_zero_width_before_fix : spanFormatC .before "%D %-0N".toList 50000000 = .fault ∧
    spanFormatC ⟨true, false⟩ "%D %-0N".toList 50000000 = .text "0 0".toList := by decide +kernel

/-- fixed finding C20-span-width-limit (5257aa1), witnessed on the model of the code before the repair: a width beyond fmt's limit
    reached fmt and showed as `%!(NOVERB)` -/
theorem C20_span_width_limit_before_fix : spanFormatC .before "%20000000D".toList 0 = .fault ∧
    spanFormatC ⟨false, true⟩ "%20000000D".toList 0 = .badSpec := by decide +kernel

/-- **width**: a `0`- or blank-padded day / hour / minute / second segment is at least as wide as requested -/
theorem C20_span_width (c : Char) (hc : c = '0' ∨ c = ' ') (w : Nat) (h1 : 1 ≤ w) (h2 : w ≤ 1000000) (n : Int) (s : Str)
    (h : fmtD (valueFmt (some c) w) n = some s) : w ≤ s.length := valueFmt_width c hc w h1 h2 n s h

/-- **the segments add up**: days, hours of the day, minutes of the hour, seconds of the minute and the nanoseconds of the second —
    what `%D-%H:%M:%S.%N` shows — are a decomposition of the (non-negative) number of nanoseconds -/
theorem C20_span_sum (ns : Int) (h : 0 ≤ ns) :
    ns.tdiv nsPerDay * nsPerDay + (ns.tdiv nsPerHour).tmod 24 * nsPerHour + (ns.tdiv nsPerMin).tmod 60 * nsPerMin +
      (ns.tdiv nsPerSec).tmod 60 * nsPerSec + ns.tmod nsPerSec = ns := span_sum ns h

example : spanParse "%D-%H:%M:%S.%N".toList = some [.val ⟨.day, some '0', none, true⟩, .lit ['-'], .val ⟨.hour, some '0', none, false⟩,
    .lit [':'], .val ⟨.minute, some '0', none, false⟩, .lit [':'], .val ⟨.second, some '0', none, false⟩, .lit ['.'],
    .val ⟨.nano, some '0', none, false⟩] ∧
    segValue .now ⟨.day, some '0', none, true⟩ 90061500000000 = some 1 ∧ segValue .now ⟨.hour, some '0', none, false⟩ 90061500000000 = some 1 ∧
    segValue .now ⟨.nano, some '0', none, false⟩ 90061500000000 = some 500000000 := by decide +kernel

/-- **literal text is rendered verbatim**: a format without `%` is its own rendering, for every non-negative Timespan -/
theorem C20_span_literal (fm : Str) (hfm : ∀ c ∈ fm, c ≠ '%') (ns : Int) (h : 0 ≤ ns) : spanFormat fm ns = .text fm := by
  have key : ∀ (l : Str) (pre : List Seg), (∀ c ∈ l, c ≠ '%') → (pre = [] ∨ ∃ p, pre = [.lit p]) →
      spanSteps .now ⟨pre, none, .literal, some '0', none⟩ l =
        some ⟨(match pre, l with | [], [] => [] | [], _ => [.lit l] | [.lit p], _ => [.lit (p ++ l)] | _, _ => pre), none, .literal, some '0', none⟩ := by
    intro l
    induction l with
    | nil => intro pre _ hp; rcases hp with rfl | ⟨p, rfl⟩ <;> simp [spanSteps]
    | cons c cs ih =>
      intro pre hl hp
      have hc : c ≠ '%' := hl c (List.mem_cons_self ..)
      have hcs : ∀ x ∈ cs, x ≠ '%' := fun x hx => hl x (List.mem_cons_of_mem _ hx)
      rcases hp with rfl | ⟨p, rfl⟩
      · simp only [spanSteps, spanStep, if_true, hc, if_false, Option.bind, appendLiteral]
        rw [ih [.lit [c]] hcs (Or.inr ⟨[c], rfl⟩)]
        cases cs <;> simp
      · simp only [spanSteps, spanStep, if_true, hc, if_false, Option.bind, appendLiteral]
        rw [ih [.lit (p ++ [c])] hcs (Or.inr ⟨p ++ [c], rfl⟩)]
        cases cs <;> simp
  have hlt : ¬ ns < 0 := by omega
  unfold spanFormat spanFormatC spanParseC
  rw [key fm [] hfm (Or.inl rfl)]
  cases fm with
  | nil => simp [spanFormat2, segsText, hlt]
  | cons c cs => simp [spanFormat2, segsText, segText, hlt]

example : spanFormat "no directive".toList 5 = .text "no directive".toList := by decide +kernel

/-- **the extended model is a pretty-printer, end to end**: for values of ANY depth and kind under ANY per-type format map over any key
    system (any mixture of alt and non-alt formats; the `%a` form of hashes and object instances, the parameter lists of Types, the
    init hashes of anonymous object types included — no hypothesis), the rendering computed by the model of `ToString` — Indentation
    objects with Indenting / Increase / Subsequent / IsFirst / Breaks, `formatContext.Subsequent`, the first-element state of the
    element loop — IS the directly written pretty-printer `refPPX`: nesting level, "the enclosing format indents" and "not the first
    thing on its level" as plain parameters, the layouts `ppArray` / `ppHash` / `ppObj` -/
theorem C20_x_container_alt {κ : Type} (ks : KeySys κ) (io : FloatIO) (m : GMap κ) (v : XVal) :
    formatX ks io m v = refPPX ks io m 0 false false v := fmtX_pp ks io v m 0 false false

/-- non-vacuity: the pretty-printer on a Type whose parameter list is an alt Array nested in an alt Array, and on a hash formatted
    with `a` inside an alt array -/
example : refPPX kindKeys io0 [(.base .arr, .mk { simpleFmt 'a' with alt := true } none)] 0 false false
      (.array [.int 1, .array [.typ "Integer".toList [.int 0, .int 9], .int 2]]) =
    .text "[1,\n  [Integer[0, 9], 2]]".toList ∧
    refPPX kindKeys io0 [(.base .arr, .mk { simpleFmt 'a' with alt := true } none), (.base .hash, .mk (simpleFmt 'a') none)] 0 false false
      (.array [.int 1, .hash [.mk (.str ['k']) (.int 2)]]) = .text "[1,\n  [\n    ['k', 2]]]".toList := by decide +kernel

end Pcore.Format
