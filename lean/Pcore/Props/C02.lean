import Pcore.Proofs.LatDenMain
/-!
# C02 — Instance-of follows the set denotation of every type constructor

Property (properties.jsonl): a value is reported to be an instance of a type exactly when it belongs to the set the Puppet
type system defines for that type: numeric ranges are inclusive, sizes count elements (characters for strings), Enum and
Pattern test the string content (ignoring case only when asked to), Variant is union, Optional adds undef and NotUndef
removes it, Array/Hash/Tuple/Struct constrain every element, key, position, required member and the size, Collection
constrains size only, and Type[T] contains exactly the types assignable to T.  Quantifier: all types in the reference
fragment (everything except Callable, Runtime, Iterator, Like, Init, TypeReference and Iterable's inferred-element rule), all values.

Full statement / proved / missing
* `C02_inst_iff_den` — FULL statement on the modelled constructor set: for every matcher `rxMatch`, every `lower`, every type
  term `t` that is well-formed (`Ty.WF`: Struct member names pairwise different, values of a case-insensitive Enum stored
  lower-cased — what the constructors establish) and in the reference fragment (`Ty.Ref`: no Iterable where the denotation
  descends) and every value whose hashes hold a string key at most once (`Val.OK`), the code-shaped `inst t v` (mirror of the
  ~35 `IsInstance` methods) is true exactly when `Den t v`, the independent set-style definition in
  `Pcore/Model/LatticeDen.lean`.  Proved by induction on the weight of the type (unbounded: any nesting depth, any sizes).
* `C02_struct_counting` — the interesting case in isolation: the matched-count test of `StructType.IsInstance` is the
  denotation of Struct.
* corollaries read off the property text (`C02_int_inclusive`, `C02_string_counts_characters`, `C02_enum_never_admits_unlisted`,
  `C02_pattern_empty_string`, `C02_optional`, `C02_notundef`, `C02_type_exact`).
* missing: Timestamp, SemVer, SemVerRange, URI, TypeSet, Callable/Runtime/Iterator/Like/Init/TypeReference (not in the model; the
  first four are leaf types whose IsInstance delegates to library code); user-defined recursive aliases; Iterable (excluded by the
  property).  Floats: NaN is outside the model (`Fl` is the exact dyadic order).  These are covered by harness-side tests only.
-/
namespace Pcore.Lat

/-- the theorem of C02 -/
theorem C02_inst_iff_den (cfg : Cfg) (sfh : Bool) (t : Ty) (v : Val)
    (ht : Ty.WF cfg t) (hf : Ty.Ref t) (hv : Val.OK v) :
    inst cfg sfh t v = true ↔ Den cfg sfh t v :=
  inst_iff_den cfg sfh t.w t v (Nat.le_refl _) ht hf hv

/-- the Struct case by itself: matched-count = hash length ⇔ every present key is declared with a conforming value and every
    required member is present -/
theorem C02_struct_counting (cfg : Cfg) (sfh : Bool) (ms : List Member) (es : List (Val × Val))
    (hn : KeysNodup es) (hnd : (ms.map (·.1)).Nodup) :
    instStruct cfg sfh ms es = some es.length ↔
      (∀ e ∈ es, ∃ m, ∃ (_ : m ∈ ms), e.1 = .str m.1 ∧ inst cfg sfh m.2.2 e.2 = true) ∧
      (∀ m ∈ ms, m.2.1 = false → ∃ e ∈ es, e.1 = .str m.1) :=
  instStruct_den cfg sfh ms es hn hnd

/-! ### what the property text lists, read off the theorem -/
theorem C02_int_inclusive (cfg : Cfg) (sfh : Bool) (lo hi i : Int) :
    inst cfg sfh (.int ⟨lo, hi⟩) (.int i) = true ↔ lo ≤ i ∧ i ≤ hi := by
  unfold inst; simp [Rng.contains]

theorem C02_string_counts_characters (cfg : Cfg) (sfh : Bool) (r : Rng) (s : String) :
    inst cfg sfh (.strSz r) (.str s) = true ↔ r.lo ≤ (s.length : Int) ∧ (s.length : Int) ≤ r.hi := by
  unfold inst; simp [Rng.contains]

theorem C02_enum_never_admits_unlisted (cfg : Cfg) (sfh : Bool) (vs : List String) (s : String) (hne : vs ≠ []) :
    inst cfg sfh (.enum vs false) (.str s) = true ↔ s ∈ vs := by
  unfold inst; simp [enumInst, List.isEmpty_iff, hne]

theorem C02_pattern_empty_string (cfg : Cfg) (sfh : Bool) (r : String) (h : cfg.rxMatch r "" = true) :
    inst cfg sfh (.pattern [r]) (.str "") = true := by
  unfold inst; simp [rxAny, h]

theorem C02_optional (cfg : Cfg) (sfh : Bool) (t : Ty) (v : Val) :
    inst cfg sfh (.optional t) v = true ↔ v = .undef ∨ inst cfg sfh t v = true := by
  conv => lhs; unfold inst
  cases v <;> simp

theorem C02_notundef (cfg : Cfg) (sfh : Bool) (t : Ty) (v : Val) :
    inst cfg sfh (.notUndef t) v = true ↔ v ≠ .undef ∧ inst cfg sfh t v = true := by
  conv => lhs; unfold inst
  cases v <;> simp

theorem C02_type_exact (cfg : Cfg) (sfh : Bool) (t u : Ty) :
    inst cfg sfh (.typ t) (.typ u) = true ↔ asg cfg sfh t u = true := by
  unfold inst; simp

/-! ### non-vacuity: the hypotheses are met by a nested, non-trivial case on which `inst` answers true -/
def sampleTy : Ty :=
  .struct [("a", false, .array (.int ⟨0, 9⟩) ⟨1, 2⟩), ("b", true, .optional (.enum ["x", "y"] true))]
def sampleVal : Val := .hash [(.str "a", .array [.int 3, .int 9])]

example (cfg : Cfg) (hl : cfg.lower "x" = "x" ∧ cfg.lower "y" = "y") : Ty.WF cfg sampleTy := by
  unfold sampleTy
  unfold Ty.WF
  refine ⟨by decide, ?_⟩
  intro m hm
  simp at hm
  rcases hm with rfl | rfl
  · unfold Ty.WF; unfold Ty.WF; trivial
  · unfold Ty.WF; unfold Ty.WF; intro _ x hx; simp at hx; rcases hx with rfl | rfl <;> simp [hl]

example : Ty.Ref sampleTy := by
  unfold sampleTy
  unfold Ty.Ref
  intro m hm
  simp at hm
  rcases hm with rfl | rfl
  · unfold Ty.Ref; unfold Ty.Ref; trivial
  · unfold Ty.Ref; unfold Ty.Ref; trivial

example : Val.OK sampleVal := by
  unfold sampleVal
  refine Val.OK.hash _ ?_ ?_ ?_
  · intro n; simp [List.countP_cons, keyIs, keyIsStr]; split <;> omega
  · intro e he; simp at he; subst he; exact Val.OK.str _
  · intro e he; simp at he; subst he
    exact Val.OK.array _ (by intro x hx; simp at hx; rcases hx with rfl | rfl <;> exact Val.OK.int _)

example (cfg : Cfg) (sfh : Bool) : inst cfg sfh sampleTy sampleVal = true := by
  unfold sampleTy sampleVal
  unfold inst
  unfold instStruct; unfold hashGetW; simp [keyIsStr]
  unfold inst; simp [Rng.contains, Ty.isAny]
  unfold instAll; unfold inst; simp [Rng.contains]
  unfold instAll; unfold inst; simp [Rng.contains]
  unfold instAll
  unfold instStruct; unfold hashGetW; simp [keyIsStr]
  unfold hashGetW; simp
  unfold instStruct; simp

/-- Iterator[T] (inside the model since the extension round): no value of the value language is an iterator — `inst` and `Den` agree on "never" -/
theorem C02_iterator_empty (cfg : Cfg) (sfh : Bool) (t : Ty) (v : Val) :
    inst cfg sfh (.iterator t) v = false ∧ ¬ Den cfg sfh (.iterator t) v := by
  constructor
  · unfold inst; rfl
  · unfold Den; exact id

end Pcore.Lat
